(* C17: "all receiver ready/valid timings" is false of the faithful model: a consumer that stays not-ready for longer than one frame
   loses a byte (v / state_v are overwritten by the next frame; there is no buffering).  Witnesses by evaluation. *)
From V Require Import Base.Bits Gen.Seq Model.Uart Spec.C17 Proofs.C17.Ser Proofs.C17.Des.

(* one sample instant showing level x (ready low), preceded by two cycles without sample *)
Definition show_level (x : Z) : list des_in :=
  [ {| di_rx := 1; di_ready := 0; di_sample := 0 |}; {| di_rx := 0; di_ready := 0; di_sample := 0 |};
    {| di_rx := x; di_ready := 0; di_sample := 1 |} ].
Definition show_frame (b : Z) : list des_in := concat (map show_level (frame8n1 b)).
Definition consumer_ready (k : nat) : list des_in := repeat {| di_rx := 1; di_ready := 1; di_sample := 0 |} k.

Lemma shown_levels xs : shown xs (concat (map show_level xs)).
Proof.
  induction xs as [|x xs IH]; cbn [map concat]; [constructor|].
  unfold show_level at 1. cbn [app]. apply pr_idle; [reflexivity|]. apply pr_idle; [reflexivity|].
  apply pr_sample; auto.
Qed.
Lemma shown_show_frame b : shown (frame8n1 b) (show_frame b).
Proof. apply shown_levels. Qed.

Lemma des_stall_witness :
  des_transfers des_init (show_frame 85 ++ show_frame 163 ++ consumer_ready 5) = [163].
Proof. vm_compute. reflexivity. Qed.

(* the same on the full link model, ratio 4 (n = 2): producer offers 0x55 then 0xA3, consumer not ready for 100 clocks *)
Definition stall_stimulus : list link_in :=
  repeat {| li_valid := 1; li_v := 85; li_ready := 0 |} 20 ++ repeat {| li_valid := 1; li_v := 163; li_ready := 0 |} 40
  ++ repeat {| li_valid := 0; li_v := 0; li_ready := 0 |} 40 ++ repeat {| li_valid := 0; li_v := 0; li_ready := 1 |} 4.

Lemma link_stall_witness :
  link_accepted 2 link_init stall_stimulus = [85; 163] /\ link_delivered 2 link_init stall_stimulus = [163].
Proof. vm_compute. auto. Qed.

Lemma Z_neq_85_163 : 85 <> 163.
Proof. discriminate. Qed.
Lemma nready_5 : (2 <= nhigh di_ready (consumer_ready 5))%nat.
Proof. vm_compute. repeat constructor. Qed.
