(* C17: clock generation and recovery — the baud pulse train is periodic, and after a falling edge of rx while idle the sample
   instants fall at offsets n + 1 + k*P (P = 2n) from that edge. *)
From V Require Import Base.Bits Gen.WireOps Gen.Prims Gen.Seq Model.Uart Spec.C17 Proofs.C17.Ser.

Definition isbit (x : Z) : Prop := x = 0 \/ x = 1.

(* ---- gates and registers on bits: by enumeration, independent of the shape of the generated functions *)
Lemma and1_bits a b : isbit a -> isbit b -> and1 a b = a * b.
Proof. intros [-> | ->] [-> | ->]; reflexivity. Qed.
Lemma or1_bits a b : isbit a -> isbit b -> or1 a b = if (a =? 0) && (b =? 0) then 0 else 1.
Proof. intros [-> | ->] [-> | ->]; reflexivity. Qed.
Lemma not1_bits a : isbit a -> not1 a = 1 - a.
Proof. intros [-> | ->]; reflexivity. Qed.
Lemma edge_pos_bits a z : isbit a -> isbit z -> edge_pos a z = a * (1 - z).
Proof. intros [-> | ->] [-> | ->]; reflexivity. Qed.
Lemma edge_neg_bits a z : isbit a -> isbit z -> edge_neg a z = (1 - a) * z.
Proof. intros [-> | ->] [-> | ->]; reflexivity. Qed.
Lemma edge_step_bits a z : isbit a -> isbit z -> edge_step a z = a.
Proof. intros [-> | ->] [-> | ->]; reflexivity. Qed.
Lemma treg_step_bits clk t r : isbit clk -> isbit t -> isbit r ->
  treg_step clk t r = if r =? 1 then 0 else if t =? 1 then 1 - clk else clk.
Proof. intros [-> | ->] [-> | ->] [-> | ->]; reflexivity. Qed.

Lemma qwidth_fits n : 1 <= n -> 0 <= qwidth n /\ n < 2 ^ qwidth n.
Proof.
  intros Hn. unfold qwidth. pose proof (Z.log2_nonneg n). split; [lia|].
  replace (Z.log2 n + 1) with (Z.succ (Z.log2 n)) by lia. apply Z.log2_spec. lia.
Qed.

Lemma put_trunc w v : Wire_put w v = trunc w v.
Proof. reflexivity. Qed.

(* the counter register: enable high, no reset port *)
Lemma reg_q_load w q d : 0 <= w -> 0 <= d < 2 ^ w -> reg_q w true false q d 1 0 = d.
Proof.
  intros Hw Hd. unfold reg_q, Reg_clock, py_truth. cbn [negb Z.eqb snd Reg_s_value].
  rewrite prep_trunc. apply trunc_small; lia.
Qed.

Lemma mux2_sel w s a b : 0 <= w -> isbit s -> 0 <= a < 2 ^ w -> 0 <= b < 2 ^ w -> Mux2_propagate w s a b = if s =? 1 then b else a.
Proof.
  intros Hw [-> | ->] Ha Hb; unfold Mux2_propagate.
  - change (py_truth (Z.land 0 1)) with false. cbv iota. change (0 =? 1) with false. cbv iota.
    rewrite put_trunc; apply trunc_small; lia.
  - change (py_truth (Z.land 1 1)) with true. cbv iota. change (1 =? 1) with true. cbv iota.
    rewrite put_trunc; apply trunc_small; lia.
Qed.

Lemma isbit0 : isbit 0. Proof. left; reflexivity. Qed.
Lemma isbit1 : isbit 1. Proof. right; reflexivity. Qed.
#[export] Hint Resolve isbit0 isbit1 : core.

Lemma mc_step_ref n q r : 1 <= n -> 0 <= q < n -> isbit r ->
  mc_step n q r = if (r =? 1) || (q =? n - 1) then 0 else q + 1.
Proof.
  intros Hn Hq Hr. unfold mc_step, mc_carry. destruct (qwidth_fits n Hn) as [Hw Hlt].
  assert (Hor : or1 r 1 = 1) by (destruct Hr as [-> | ->]; reflexivity).
  assert (Hc : or1 r 0 = r) by (destruct Hr as [-> | ->]; reflexivity).
  assert (Hq1 : 0 <= q + 1 < 2 ^ qwidth n) by lia.
  assert (Hq0 : 0 <= q < 2 ^ qwidth n) by lia.
  assert (H0 : 0 <= 0 < 2 ^ qwidth n) by lia.
  rewrite Hor, put_trunc, (trunc_small _ (q + 1)) by lia.
  rewrite (mux2_sel _ 1 q (q + 1) Hw isbit1 Hq0 Hq1). cbn [Z.eqb Pos.eqb].
  destruct (Z.eqb_spec q (n - 1)) as [E | E].
  - rewrite Hor, (mux2_sel _ 1 (q + 1) 0 Hw isbit1 Hq1 H0). cbn [Z.eqb Pos.eqb].
    rewrite reg_q_load by lia. now rewrite orb_true_r.
  - rewrite Hc, (mux2_sel _ r (q + 1) 0 Hw Hr Hq1 H0), orb_false_r.
    destruct (r =? 1); rewrite reg_q_load by lia; reflexivity.
Qed.

(* ---- a divider followed by a rising-edge detector, described by a phase counter p in [0, 2n) *)
Definition div_phase (n p : Z) (c : cdiv) (z : Z) : Prop :=
  0 <= p < 2 * n /\ cd_q c = (if p <? n then p else p - n) /\ cd_clk c = (if p <? n then 0 else 1)
  /\ (if p =? 0 then isbit z else z = (if p <=? n then 0 else 1)).

Definition adv (n p : Z) : Z := if p =? 2 * n - 1 then 0 else p + 1.

Lemma div_phase_bits n p c z : 1 <= n -> div_phase n p c z -> 0 <= cd_q c < n /\ isbit (cd_clk c) /\ isbit z.
Proof.
  intros Hn (Hp & Hq & Hc & Hz). rewrite Hq, Hc. repeat split.
  - destruct (Z.ltb_spec p n); lia.
  - destruct (Z.ltb_spec p n); lia.
  - destruct (p <? n); auto.
  - destruct (p =? 0); auto. subst z. destruct (p <=? n); auto.
Qed.

Ltac zbool :=
  repeat (match goal with
          | H : context [?a =? ?b] |- _ => destruct (Z.eqb_spec a b)
          | H : context [?a <? ?b] |- _ => destruct (Z.ltb_spec a b)
          | H : context [?a <=? ?b] |- _ => destruct (Z.leb_spec a b)
          | |- context [?a =? ?b] => destruct (Z.eqb_spec a b)
          | |- context [?a <? ?b] => destruct (Z.ltb_spec a b)
          | |- context [?a <=? ?b] => destruct (Z.leb_spec a b)
          end; cbn [orb andb negb] in *).

Lemma div_phase_step n p c z : 1 <= n -> div_phase n p c z ->
  div_phase n (adv n p) (cdiv_step n c 0) (edge_step (cd_clk c) z)
  /\ edge_pos (cd_clk c) z = (if p =? n then 1 else 0).
Proof.
  intros Hn H. destruct (div_phase_bits n p c z Hn H) as (Bq & Bc & Bz).
  destruct H as (Hp & Hq & Hc & Hz).
  unfold cdiv_step, div_phase, adv, mc_carry. cbn [cd_q cd_clk].
  rewrite mc_step_ref, edge_step_bits, edge_pos_bits by auto.
  assert (Bcar : isbit (if cd_q c =? n - 1 then 1 else 0)) by (destruct (cd_q c =? n - 1); auto).
  rewrite treg_step_bits by auto. change (0 =? 1) with false. cbn [orb].
  rewrite Hq, Hc in *. clear Hq Hc Bcar Bc Bq.
  unfold isbit in *. zbool; repeat split; try lia.
Qed.

(* with the reset input high the divider restarts at phase 0 *)
Lemma div_phase_reset n c z : 1 <= n -> 0 <= cd_q c < n -> isbit (cd_clk c) -> isbit z ->
  div_phase n 0 (cdiv_step n c 1) (edge_step (cd_clk c) z).
Proof.
  intros Hn Bq Bc Bz. unfold cdiv_step, div_phase, mc_carry. cbn [cd_q cd_clk].
  assert (Bcar : isbit (if cd_q c =? n - 1 then 1 else 0)) by (destruct (cd_q c =? n - 1); auto).
  rewrite mc_step_ref, edge_step_bits, treg_step_bits by auto.
  change (1 =? 1) with true. cbn [orb]. change (0 =? 0) with true. cbv iota.
  destruct (Z.ltb_spec 0 n); [|lia]. repeat split; auto; lia.
Qed.

Lemma adv_mod n x : 1 <= n -> 0 <= x -> adv n (x mod (2 * n)) = (x + 1) mod (2 * n).
Proof.
  intros Hn Hx. unfold adv. pose proof (Z.mod_pos_bound x (2 * n) ltac:(lia)) as Hb.
  pose proof (Z.div_mod x (2 * n) ltac:(lia)) as Hd.
  destruct (Z.eqb_spec (x mod (2 * n)) (2 * n - 1)) as [E|E].
  - apply (Z.mod_unique_pos _ _ (x / (2 * n) + 1)); [lia|]. rewrite Hd at 1. rewrite E. ring.
  - apply (Z.mod_unique_pos _ _ (x / (2 * n))); [lia|]. rewrite Hd at 1. ring.
Qed.

(* ---- ClockSyncFSM: the only lemma that looks inside the generated function *)
Definition mkfsm (k : Z) : ClockSyncFSM_state := {| ClockSyncFSM_s_state := k |}.
Lemma fsm_ref k start stop :
  ClockSyncFSM_clock 1 1 (mkfsm k) start stop =
  if k =? 0 then (if start =? 0 then (mkfsm 0, {| ClockSyncFSM_o_sync := Some 0; ClockSyncFSM_o_active := Some 0 |})
                 else (mkfsm 1, {| ClockSyncFSM_o_sync := Some 1; ClockSyncFSM_o_active := Some 1 |}))
  else if k =? 1 then (if stop =? 0 then (mkfsm 1, {| ClockSyncFSM_o_sync := Some 0; ClockSyncFSM_o_active := Some 1 |})
                      else (mkfsm 0, {| ClockSyncFSM_o_sync := Some 0; ClockSyncFSM_o_active := Some 0 |}))
  else (mkfsm k, {| ClockSyncFSM_o_sync := None; ClockSyncFSM_o_active := None |}).
Proof.
  unfold ClockSyncFSM_clock, mkfsm, py_truth. cbn [ClockSyncFSM_s_state].
  pose proof (prep1_bit 0 ltac:(lia)) as H0. pose proof (prep1_bit 1 ltac:(lia)) as H1.
  split_ifs; cbn [negb] in *; rewrite ?H0, ?H1; try reflexivity; try discriminate; eqb_subst; try reflexivity; try lia.
Qed.

Definition cgr_stepi (n : Z) (c : cgr) (i : Z * Z) : cgr := cgr_step n c (fst i) (snd i).

(* the transmit side is free running: it does not depend on rx / desync at all *)
Lemma cgr_step_tx n c rx d :
  g_tx (cgr_step n c rx d) = cdiv_step n (g_tx c) 0 /\ g_zpos (cgr_step n c rx d) = edge_step (cd_clk (g_tx c)) (g_zpos c).
Proof. unfold cgr_step. destruct (ClockSyncFSM_clock _ _ _ _ _). cbn. auto. Qed.

Lemma tx_run n : 1 <= n -> forall ins c x, 0 <= x ->
  div_phase n (x mod (2 * n)) (g_tx c) (g_zpos c) ->
  let c' := final (cgr_stepi n) c ins in
  div_phase n ((x + Z.of_nat (length ins)) mod (2 * n)) (g_tx c') (g_zpos c').
Proof.
  intros Hn. induction ins as [|i ins IH]; intros c x Hx H; cbn [final fold_left length].
  - now rewrite Z.add_0_r.
  - unfold cgr_stepi at 2. destruct (cgr_step_tx n c (fst i) (snd i)) as [E1 E2].
    destruct (div_phase_step n _ _ _ Hn H) as [Hs _]. rewrite adv_mod in Hs by lia.
    rewrite <- E1, <- E2 in Hs.
    specialize (IH _ (x + 1) ltac:(lia) Hs). cbn zeta in IH. unfold final in IH.
    replace (x + Z.of_nat (S (length ins))) with (x + 1 + Z.of_nat (length ins)) by lia. exact IH.
Qed.

(* tx_pulse_train: from power-up, whatever rx and desync do, the baud pulse seen at edge t is high iff t mod P = n (P = 2n):
   one pulse per bit period, gaps of exactly P - 1 clocks *)
Lemma tx_pulse_train_lemma n ins : 1 <= n ->
  cgr_pulse (final (cgr_stepi n) cgr_init ins) = if Z.of_nat (length ins) mod (2 * n) =? n then 1 else 0.
Proof.
  intros Hn.
  assert (H0 : div_phase n (0 mod (2 * n)) (g_tx cgr_init) (g_zpos cgr_init)).
  { rewrite Z.mod_0_l by lia. unfold div_phase. cbn [g_tx g_zpos cgr_init cd_q cd_clk]. change (0 =? 0) with true. cbv iota.
    destruct (Z.ltb_spec 0 n); [|lia]. repeat split; auto; lia. }
  pose proof (tx_run n Hn ins cgr_init 0 ltac:(lia) H0) as H. cbn zeta in H. rewrite Z.add_0_l in H.
  unfold cgr_pulse. destruct (div_phase_step n _ _ _ Hn H) as [_ E]. exact E.
Qed.

(* ---- receive side *)
Definition cgr_bits (n : Z) (c : cgr) : Prop :=
  0 <= cd_q (g_rx c) < n /\ isbit (cd_clk (g_rx c)) /\ isbit (g_zsamp c) /\ isbit (g_zrx c) /\ isbit (g_active c).

(* synchronised: FSM in state 1, active high, receive divider at phase p *)
Definition synced (n p : Z) (c : cgr) : Prop :=
  g_fsm c = mkfsm 1 /\ g_active c = 1 /\ isbit (g_zrx c) /\ div_phase n p (g_rx c) (g_zsamp c).

Lemma synced_step n p c rx : 1 <= n -> synced n p c -> isbit rx ->
  synced n (adv n p) (cgr_step n c rx 0) /\ cgr_sample c = (if p =? n then 1 else 0).
Proof.
  intros Hn (Hf & Ha & Bz & Hd) Brx.
  destruct (div_phase_bits n p _ _ Hn Hd) as (Bq & Bc & Bs).
  destruct (div_phase_step n p _ _ Hn Hd) as [Hs Hp].
  assert (Hstart : cgr_start c rx = 0).
  { unfold cgr_start. rewrite Ha, edge_neg_bits by auto. change (not1 1) with 0.
    rewrite and1_bits; auto; [lia|]. destruct Brx as [-> | ->]; destruct Bz as [-> | ->]; cbn; auto. }
  split.
  - unfold cgr_step, synced. rewrite Hstart, Hf, fsm_ref. cbn [Z.eqb Pos.eqb]. cbn [g_fsm g_active g_zrx g_rx g_zsamp upd ClockSyncFSM_o_active].
    refine (conj eq_refl (conj eq_refl (conj _ Hs))). rewrite edge_step_bits; auto.
  - unfold cgr_sample. rewrite Hp, Ha. destruct (p =? n); reflexivity.
Qed.

Lemma synced_run n : 1 <= n -> forall rxs c x, 0 <= x -> Forall isbit rxs ->
  synced n (x mod (2 * n)) c ->
  synced n ((x + Z.of_nat (length rxs)) mod (2 * n)) (final (fun c rx => cgr_step n c rx 0) c rxs).
Proof.
  intros Hn. induction rxs as [|rx rxs IH]; intros c x Hx Hb H; cbn [final fold_left length].
  - now rewrite Z.add_0_r.
  - inversion Hb as [|? ? Brx Hb']; subst.
    destruct (synced_step n _ c rx Hn H Brx) as [Hs _]. rewrite adv_mod in Hs by lia.
    specialize (IH _ (x + 1) ltac:(lia) Hb' Hs). unfold final in IH.
    replace (x + Z.of_nat (S (length rxs))) with (x + 1 + Z.of_nat (length rxs)) by lia. exact IH.
Qed.

(* recovery_phase: the receive side is idle (FSM state 0, active low) and sees rx low after high (edge e).  Then, as long as desync
   stays low and whatever rx does, the sample wire seen at edge e + 1 + j is high iff j mod P = n, i.e. the k-th sample instant is at
   offset n + 1 + k*P from the edge;  for n >= 2 that is strictly inside bit k (which occupies offsets k*P .. k*P + P - 1). *)
Lemma recovery_phase_lemma n c d0 rxs :
  1 <= n -> cgr_bits n c -> g_fsm c = mkfsm 0 -> g_active c = 0 -> g_zrx c = 1 -> Forall isbit rxs ->
  let c1 := cgr_step n c 0 d0 in
  cgr_sample (final (fun c rx => cgr_step n c rx 0) c1 rxs) = (if Z.of_nat (length rxs) mod (2 * n) =? n then 1 else 0)
  /\ (2 <= n -> forall k, 0 <= k -> k * (2 * n) < n + 1 + k * (2 * n) < (k + 1) * (2 * n)).
Proof.
  intros Hn (Bq & Bc & Bs & Bz & Ba) Hf Ha Hz Hb c1. split; [|intros; lia].
  assert (Hstart : cgr_start c 0 = 1).
  { unfold cgr_start. rewrite Ha, Hz. reflexivity. }
  assert (H1 : synced n (0 mod (2 * n)) c1).
  { rewrite Z.mod_0_l by lia. subst c1. unfold cgr_step, synced. rewrite Hstart, Hf, fsm_ref. cbn [Z.eqb Pos.eqb].
    cbn [g_fsm g_active g_zrx g_rx g_zsamp upd ClockSyncFSM_o_active].
    refine (conj eq_refl (conj eq_refl (conj _ _))).
    - rewrite edge_step_bits; auto.
    - apply div_phase_reset; auto. }
  pose proof (synced_run n Hn rxs c1 0 ltac:(lia) Hb H1) as H. rewrite Z.add_0_l in H.
  assert (Bl : isbit 0) by auto.
  destruct (synced_step n _ _ 0 Hn H Bl) as [_ E]. exact E.
Qed.
