(* C17: the tx wire of the composed link is a standard 8N1 line.  The ghost invariant TInv (Link.v) gives the level of the line as a
   function of the ghost position (gline); here the whole tx record of a link run is shown to be a sequence of whole frames
   (frames_line) and the multi-frame software receiver sw_rx_all is run over it. *)
From V Require Import Base.Bits Gen.WireOps Gen.Prims Gen.Seq Model.Uart Spec.C17
  Proofs.C17.Ser Proofs.C17.SwRx Proofs.C17.Des Proofs.C17.Cgr Proofs.C17.Link.

(* ------------------------------------------------------------------ stage A: the receiver on a line of whole frames *)
Lemma falling_from_ones_none m : forall t, falling_from t 1 (repeat 1 m) = None.
Proof.
  induction m as [|m IH]; intros t; cbn [repeat falling_from]; [reflexivity|].
  change ((1 =? 1) && (1 =? 0)) with false. cbv iota. apply IH.
Qed.

Lemma ones_app a b : repeat 1 a ++ repeat 1 b = repeat 1 (a + b).
Proof. induction a as [|a IH]; cbn [repeat app Nat.add]; [reflexivity|]. now rewrite IH. Qed.

Lemma hold_length P : forall xs : list Z, length (hold (repeat P (length xs)) xs) = (length xs * P)%nat.
Proof.
  induction xs as [|x xs IH]; cbn [length]; [reflexivity|].
  rewrite hold_uniform_cons, app_length, repeat_length, IH. cbn [Nat.mul]. lia.
Qed.

Lemma skipn_exact {A} (l1 l2 : list A) k : k = length l1 -> skipn k (l1 ++ l2) = l2.
Proof. intros ->. rewrite skipn_app, skipn_all, Nat.sub_diag. reflexivity. Qed.

Lemma frame_split P b : hold (repeat P 10) (frame8n1 b) = hold (repeat P 9) (frame_head b) ++ repeat 1 P.
Proof.
  unfold frame8n1, frame_head. cbn [map app repeat hold]. rewrite <- !app_assoc. rewrite app_nil_r. reflexivity.
Qed.

Lemma frames_line_length P fs : (1 <= P)%nat -> (length fs <= length (frames_line P fs))%nat.
Proof.
  intros HP. induction fs as [|[b m] fs IH]; cbn [frames_line length]; [lia|].
  rewrite !app_length. change 10%nat with (length (frame8n1 b)) at 1. rewrite hold_length.
  change (length (frame8n1 b)) with 10%nat. lia.
Qed.

Lemma sw_rx_frames P : (1 <= P)%nat -> forall fs fuel m,
  (length fs <= fuel)%nat -> Forall (fun f => 0 <= fst f < 256) fs ->
  sw_rx_from fuel P (repeat 1 m ++ frames_line P fs) = Some (map fst fs).
Proof.
  intros HP. induction fs as [|[b m1] fs IH]; intros fuel m Hfuel Hb.
  - cbn [frames_line map]. rewrite app_nil_r. destruct fuel as [|fuel]; [reflexivity|].
    cbn [sw_rx_from]. unfold falling_edge. rewrite falling_from_ones_none. reflexivity.
  - destruct fuel as [|fuel]; [cbn [length] in Hfuel; lia|]. cbn [length] in Hfuel.
    inversion Hb as [|? ? Hb0 Hb']; subst. cbn [fst] in Hb0.
    cbn [frames_line map fst sw_rx_from].
    set (rest := repeat 1 m1 ++ frames_line P fs).
    (* the falling edge *)
    assert (Hf : exists r, hold (repeat P 10) (frame8n1 b) = 0 :: r).
    { unfold frame8n1, frame_head. cbn [map app]. rewrite hold_uniform_cons. destruct P; [lia|]. cbn [repeat app]. eauto. }
    destruct Hf as (r & Hf). unfold falling_edge. rewrite Hf at 1. cbn [app]. rewrite falling_from_ones. cbn [Nat.add].
    (* the ten samples *)
    pose proof (samples_hold P (frame8n1 b) (repeat 1 m) rest (P / 2)) as Hs.
    specialize (Hs ltac:(apply Nat.div_lt; lia) 10%nat 0%nat ltac:(cbn; lia)).
    rewrite repeat_length in Hs. change (length (frame8n1 b)) with 10%nat in Hs.
    replace (m + 0 * P + P / 2)%nat with (m + P / 2)%nat in Hs by lia. rewrite Hs.
    unfold frame8n1 at 1, frame_head at 1. cbn [skipn firstn map app].
    change ((0 =? 0) && (1 =? 1)) with true. cbv iota.
    pose proof (byte_of_bits b Hb0) as Hbyte. cbn [map] in Hbyte. rewrite Hbyte.
    (* back to waiting at the stop-bit sample instant *)
    assert (Hsk : skipn (m + P / 2 + 9 * P) (repeat 1 m ++ hold (repeat P 10) (frame8n1 b) ++ rest)
                  = repeat 1 (P - P / 2 + m1) ++ frames_line P fs).
    { rewrite frame_split. pose proof (Nat.div_lt P 2 ltac:(lia) ltac:(lia)) as Hh.
      assert (E : repeat 1 m ++ (hold (repeat P 9) (frame_head b) ++ repeat 1 P) ++ rest
                  = (repeat 1 m ++ hold (repeat P 9) (frame_head b) ++ repeat 1 (P / 2)) ++ (repeat 1 (P - P / 2 + m1) ++ frames_line P fs)).
      { unfold rest. rewrite <- (ones_app (P - P / 2) m1).
        replace (repeat 1 P) with (repeat 1 (P / 2) ++ repeat 1 (P - P / 2)) by (rewrite ones_app; f_equal; lia).
        rewrite <- !app_assoc. reflexivity. }
      rewrite E. apply skipn_exact.
      rewrite !app_length, !repeat_length. change 9%nat with (length (frame_head b)) at 2. rewrite hold_length.
      change (length (frame_head b)) with 9%nat. lia. }
    rewrite Hsk, IH by (auto; lia). reflexivity.
Qed.

Lemma sw_rx_all_frames P m fs : (1 <= P)%nat -> Forall (fun f => 0 <= fst f < 256) fs ->
  sw_rx_all P (repeat 1 m ++ frames_line P fs) = Some (map fst fs).
Proof.
  intros HP Hb. unfold sw_rx_all. apply sw_rx_frames; auto.
  rewrite app_length. pose proof (frames_line_length P fs HP). lia.
Qed.

(* ------------------------------------------------------------------ stage B: the shape of the link's tx record *)
(* the tx wire after each clock edge of a link run *)
Definition txline (n : Z) (L : link) (ins : list link_in) : list Z := map (fun l => s_tx (l_ser l)) (runs (link_step n) L ins).

(* one clock of the transmit half of the link (no hypothesis on the receive half or on the consumer) *)
Lemma tinv_step n g L i : 2 <= n -> 0 <= li_v i < 256 -> TInv n g (l_ser L) (l_cgr L) ->
  TInv n (gstep n g (li_valid i) (li_v i)) (l_ser (link_step n L i)) (l_cgr (link_step n L i))
  /\ s_tx (l_ser L) = gline g /\ s_ready (l_ser L) = gready g.
Proof.
  intros Hn Hv HT.
  destruct (tinv_div n g _ _ (s_tx (l_ser L)) (d_desync (l_des L)) Hn HT) as [Hpulse Hdiv'].
  destruct (tinv_ser n g _ _ (li_valid i) (li_v i) Hn HT Hv) as (Htx & Hrdy & Hser').
  destruct HT as [_ Hg].
  assert (Hgr : g_r (gstep n g (li_valid i) (li_v i)) = rnext n (g_r g)).
  { apply g_r_gstep.
    - destruct g; cbn [gser g_r] in *; tauto.
    - destruct g as [|b u r sp t]; [exact I|]. cbn [gser] in Hg. destruct Hg as (_ & _ & _ & _ & _ & Hsp).
      split; [intros ->; lia | lia]. }
  unfold TInv, link_step. cbn [l_ser l_cgr]. rewrite Hpulse. split; [split|auto].
  - rewrite Hgr. exact Hdiv'.
  - exact Hser'.
Qed.

(* the byte accepted by the serializer that is not on the line yet *)
Definition gpend (g : ghost) : list Z :=
  match g with GL _ _ _ => [] | GT _ _ _ sp t => if (sp =? 2) || (sp =? 3) then [t] else [] end.

Lemma gstep_GT n b u r sp t s valid v : 2 <= n -> gser n (GT b u r sp t) s ->
  (sp = 3 /\ 2 * n + 1 <= u /\ 0 <= t < 256 /\ gstep n (GT b u r sp t) valid v = GL t 0 0) \/
  (sp <> 3 /\ exists r' sp' t', gstep n (GT b u r sp t) valid v = GT b (u + 1) r' sp' t' /\
     gpend (GT b u r sp t) ++ (if py_truth (gready (GT b u r sp t)) && py_truth valid then [v] else []) = gpend (GT b (u + 1) r' sp' t')).
Proof.
  intros Hn Hg. cbn [gser] in Hg. destruct Hg as (Hb & Hu & Hr & Hur & _ & Hsp). cbn [gstep gpend gready]. unfold py_truth.
  destruct Hsp as [[-> H]|[[-> H]|[[-> H]|[[-> H]|[-> H]]]]]; cbn [Z.eqb Pos.eqb orb].
  - right. split; [lia|]. destruct (r =? 2 * n - 2); do 3 eexists; split; reflexivity.
  - right. split; [lia|]. do 3 eexists; split; reflexivity.
  - right. split; [lia|]. destruct (Z.eqb_spec valid 0); do 3 eexists; split; reflexivity.
  - right. split; [lia|]. destruct (r =? 2 * n - 2); do 3 eexists; split; reflexivity.
  - left. repeat split; auto; lia.
Qed.

(* what remains of the frame of byte b when level k has been on the line for r + 1 clocks (the stop bit included) *)
Definition remL (n b k r : Z) : list Z :=
  repeat (lvl b k) (Z.to_nat (2 * n - 1 - r))
  ++ hold (repeat (Z.to_nat (2 * n)) (9 - Z.to_nat k)) (skipn (S (Z.to_nat k)) (frame8n1 b)).

Lemma remL_stop n b : 2 <= n -> remL n b 8 (2 * n - 1) = repeat 1 (Z.to_nat (2 * n)).
Proof.
  intros Hn. unfold remL. replace (2 * n - 1 - (2 * n - 1)) with 0 by lia.
  change (Z.to_nat 0) with 0%nat. change (Z.to_nat 8) with 8%nat.
  unfold frame8n1, frame_head. cbn [map app skipn repeat hold Nat.sub]. apply app_nil_r.
Qed.

Lemma remL_next n b k : 2 <= n -> 0 <= k < 8 -> lvl b (k + 1) :: remL n b (k + 1) 0 = remL n b k (2 * n - 1).
Proof.
  intros Hn Hk. unfold remL. replace (2 * n - 1 - (2 * n - 1)) with 0 by lia. replace (2 * n - 1 - 0) with (2 * n - 1) by lia.
  replace (Z.to_nat (2 * n)) with (S (Z.to_nat (2 * n - 1))) by lia.
  assert (Hk8 : k = 0 \/ k = 1 \/ k = 2 \/ k = 3 \/ k = 4 \/ k = 5 \/ k = 6 \/ k = 7) by lia.
  destruct Hk8 as [-> | [-> | [-> | [-> | [-> | [-> | [-> | ->]]]]]]]; reflexivity.
Qed.

Lemma remL_tick n b k r : 0 <= r < 2 * n - 1 -> lvl b k :: remL n b k (r + 1) = remL n b k r.
Proof.
  intros Hr. unfold remL. replace (Z.to_nat (2 * n - 1 - r)) with (S (Z.to_nat (2 * n - 1 - (r + 1)))) by lia. reflexivity.
Qed.

Lemma remL_start n t : 2 <= n -> 0 :: remL n t 0 0 = hold (repeat (Z.to_nat (2 * n)) 10) (frame8n1 t).
Proof.
  intros Hn. unfold remL. replace (2 * n - 1 - 0) with (2 * n - 1) by lia.
  replace (Z.to_nat (2 * n)) with (S (Z.to_nat (2 * n - 1))) by lia. reflexivity.
Qed.

(* the record that follows ghost position g: the rest of the current frame (GL) or of the high stretch (GT), then whole frames *)
Definition shape (n : Z) (g : ghost) (l : list Z) (fs : list (Z * nat)) : Prop :=
  match g with
  | GL b k r => exists m, l = remL n b k r ++ repeat 1 m ++ frames_line (Z.to_nat (2 * n)) fs
  | GT b u r sp t => exists m, l = repeat 1 m ++ frames_line (Z.to_nat (2 * n)) fs /\ (Z.to_nat (2 * n - 1 - u) <= m)%nat
  end.

Lemma line_shape n : 2 <= n -> forall ins g L,
  TInv n g (l_ser L) (l_cgr L) -> Forall (fun i => 0 <= li_v i < 256) ins ->
  s_ready (l_ser (final (link_step n) L ins)) = 1 ->
  exists fs, shape n g (txline n L ins) fs /\ gpend g ++ link_accepted n L ins = map fst fs /\ Forall (fun f => 0 <= fst f < 256) fs.
Proof.
  intros Hn. induction ins as [|i ins IH]; intros g L HT Hvs Hr.
  - cbn [final fold_left txline runs map link_accepted] in *. unfold final in Hr. cbn [fold_left] in Hr.
    destruct (tinv_ser n g _ _ 0 0 Hn HT ltac:(lia)) as (_ & Hrdy & _). rewrite Hrdy in Hr.
    destruct HT as [_ Hg]. destruct g as [b k r | b u r sp t]; cbn [gready] in Hr; [discriminate|].
    destruct (Z.eqb_spec sp 1) as [->|]; [|discriminate].
    cbn [gser] in Hg. destruct Hg as (_ & _ & _ & _ & _ & Hsp).
    exists []. split; [|split; [reflexivity|constructor]].
    cbn [shape frames_line]. exists 0%nat. split; [reflexivity|]. lia.
  - inversion Hvs as [|? ? Hv Hvs']; subst.
    destruct (tinv_step n g L i Hn Hv HT) as (HT' & Htx & Hrdy).
    change (final (link_step n) L (i :: ins)) with (final (link_step n) (link_step n L i) ins) in Hr.
    destruct (IH _ _ HT' Hvs' Hr) as (fs & Hsh & Hacc & Hfs).
    destruct (tinv_step n _ _ i Hn Hv HT') as (_ & Htx' & _).
    assert (El : txline n L (i :: ins) = gline (gstep n g (li_valid i) (li_v i)) :: txline n (link_step n L i) ins).
    { unfold txline. cbn [runs map]. rewrite Htx'. reflexivity. }
    assert (Ea : link_accepted n L (i :: ins)
                 = (if py_truth (gready g) && py_truth (li_valid i) then [li_v i] else []) ++ link_accepted n (link_step n L i) ins).
    { cbn [link_accepted]. unfold link_accept. rewrite Hrdy. reflexivity. }
    rewrite El, Ea. clear El Ea Htx' Hr IH.
    set (l' := txline n (link_step n L i) ins) in *. set (acc' := link_accepted n (link_step n L i) ins) in *.
    destruct HT as [_ Hg].
    destruct g as [b k r | b u r sp t].
    + cbn [gser] in Hg. destruct Hg as (Hb & Hk & Hrr & _).
      cbn [gstep] in Hsh, Hacc |- *. cbn [gready gpend]. change (py_truth 0) with false. cbn [andb app].
      destruct (Z.eqb_spec r (2 * n - 1)) as [Er|Er]; [destruct (Z.eqb_spec k 8) as [E8|E8]|].
      * subst k r. cbn [shape gpend gline Z.eqb Pos.eqb orb app] in Hsh, Hacc |- *. destruct Hsh as (m & Hl & Hm).
        exists fs. split; [|auto]. exists (S m - Z.to_nat (2 * n))%nat.
        rewrite remL_stop, Hl, app_assoc, ones_app by lia.
        replace (Z.to_nat (2 * n) + (S m - Z.to_nat (2 * n)))%nat with (S m) by lia. reflexivity.
      * subst r. cbn [shape gpend gline app] in Hsh, Hacc |- *. destruct Hsh as (m & Hl).
        exists fs. split; [|auto]. exists m. rewrite Hl, <- remL_next by lia. reflexivity.
      * cbn [shape gpend gline app] in Hsh, Hacc |- *. destruct Hsh as (m & Hl).
        exists fs. split; [|auto]. exists m. rewrite Hl, <- (remL_tick n b k r) by lia. reflexivity.
    + destruct (gstep_GT n b u r sp t _ (li_valid i) (li_v i) Hn Hg) as [(-> & Hu & Ht & Eg) | (Hsp & r' & sp' & t' & Eg & Ep)];
        rewrite Eg in *.
      * cbn [shape gpend gline app] in Hsh, Hacc. destruct Hsh as (m & Hl).
        exists ((t, m) :: fs). split; [|split].
        -- cbn [shape gline]. exists 0%nat. split; [|lia]. change (repeat 1 0) with (@nil Z). cbn [app frames_line]. change (lvl t 0) with 0.
           rewrite Hl, <- remL_start by lia. reflexivity.
        -- cbn [gpend gready Z.eqb Pos.eqb orb map fst]. change (py_truth 0) with false. cbn [andb app]. now rewrite Hacc.
        -- constructor; auto.
      * cbn [shape gline] in Hsh |- *. destruct Hsh as (m & Hl & Hm).
        exists fs. split; [|split; [|exact Hfs]].
        -- exists (S m). split; [rewrite Hl; reflexivity | lia].
        -- rewrite app_assoc, Ep. exact Hacc.
Qed.

(* ------------------------------------------------------------------ the link from power-up *)
Definition byte_in (i : link_in) : Prop := 0 <= li_v i < 256.

(* the tx record of a link run that ends with the serializer ready is: high, then whole frames of exactly the accepted bytes *)
Lemma link_line_frames_lemma n ins :
  2 <= n -> Forall (fun i => 0 <= li_v i < 256) ins -> s_ready (l_ser (final (link_step n) link_init ins)) = 1 ->
  exists (m : nat) (fs : list (Z * nat)),
    map (fun l => s_tx (l_ser l)) (runs (link_step n) link_init ins) = repeat 1 (S m) ++ frames_line (Z.to_nat (2 * n)) fs
    /\ map fst fs = link_accepted n link_init ins /\ Forall (fun f => 0 <= fst f < 256) fs.
Proof.
  intros Hn Hvs Hr. destruct ins as [|i0 ins]; [cbn in Hr; discriminate|].
  inversion Hvs as [|? ? Hv0 Hvs']; subst.
  destruct (linv_boot n i0 Hn) as ((HT & _ & _) & Ha & _ & _).
  change (final (link_step n) link_init (i0 :: ins)) with (final (link_step n) (link_step n link_init i0) ins) in Hr.
  destruct (line_shape n Hn ins _ _ HT Hvs' Hr) as (fs & Hsh & Hacc & Hfs).
  destruct (tinv_step n _ _ i0 Hn Hv0 HT) as (_ & Htx & _).
  cbn [shape] in Hsh. destruct Hsh as (m & Hl & _). exists m, fs. split; [|split; [|exact Hfs]].
  - change (map (fun l => s_tx (l_ser l)) (runs (link_step n) link_init (i0 :: ins)))
      with (s_tx (l_ser (link_step n link_init i0)) :: txline n (link_step n link_init i0) ins).
    rewrite Htx, Hl. reflexivity.
  - cbn [link_accepted]. rewrite Ha. cbn [app]. rewrite <- Hacc. reflexivity.
Qed.

Lemma link_line_8n1_ready_lemma n ins :
  2 <= n -> Forall (fun i => 0 <= li_v i < 256) ins -> s_ready (l_ser (final (link_step n) link_init ins)) = 1 ->
  sw_rx_all (Z.to_nat (2 * n)) (map (fun l => s_tx (l_ser l)) (runs (link_step n) link_init ins)) = Some (link_accepted n link_init ins).
Proof.
  intros Hn Hvs Hr. destruct (link_line_frames_lemma n ins Hn Hvs Hr) as (m & fs & Hl & Hacc & Hfs).
  rewrite Hl, <- Hacc. apply sw_rx_all_frames; [lia | exact Hfs].
Qed.

(* ---- a finally quiet producer leaves the serializer ready *)
Lemma tinv_run n : 2 <= n -> forall ins g L,
  TInv n g (l_ser L) (l_cgr L) -> Forall (fun i => 0 <= li_v i < 256) ins ->
  exists g', TInv n g' (l_ser (final (link_step n) L ins)) (l_cgr (final (link_step n) L ins)).
Proof.
  intros Hn. induction ins as [|i ins IH]; intros g L HT Hvs; [exists g; exact HT|].
  inversion Hvs as [|? ? Hv Hvs']; subst.
  destruct (tinv_step n g L i Hn Hv HT) as (HT' & _ & _). exact (IH _ _ HT' Hvs').
Qed.

Lemma tinv_drain n : 2 <= n -> forall quiet g L,
  TInv n g (l_ser L) (l_cgr L) -> Forall quiet_in quiet ->
  exists g', TInv n g' (l_ser (final (link_step n) L quiet)) (l_cgr (final (link_step n) L quiet))
             /\ rank n g' = Z.max 0 (rank n g - Z.of_nat (length quiet)).
Proof.
  intros Hn. induction quiet as [|i q IH]; intros g L HT Hq.
  - exists g. split; [exact HT|]. pose proof (proj1 (rank_step n g _ 0 Hn (proj2 HT))). cbn [length]. lia.
  - inversion Hq as [|? ? [Hva Hv] Hq']; subst.
    destruct (tinv_step n g L i Hn Hv HT) as (HT' & _ & _).
    destruct (IH _ _ HT' Hq') as (g' & HF & Hrk). exists g'. split; [exact HF|].
    destruct (rank_step n g _ (li_v i) Hn (proj2 HT)) as (Hr0 & Hr1 & _).
    rewrite Hva in Hrk. rewrite Hr1 in Hrk. rewrite Hrk. cbn [length]. lia.
Qed.

Lemma rank0_ready n g s : 2 <= n -> gser n g s -> rank n g = 0 -> gready g = 1.
Proof.
  intros Hn Hg H0. destruct (rank_zero n g s Hn Hg H0) as [_ Hgt].
  destruct g as [b k r | b u r sp t]; [contradiction|].
  cbn [gser] in Hg. destruct Hg as (_ & Hu & Hr & _ & _ & Hsp).
  destruct Hsp as [[-> H]|[[-> H]|[[-> H]|[[-> H]|[-> H]]]]]; cbn [rank gready Z.eqb Pos.eqb orb] in *; try reflexivity;
    exfalso; unfold ustar in *; zbool; lia.
Qed.

Lemma quiet_ready n ins quiet :
  2 <= n -> Forall (fun i => 0 <= li_v i < 256) ins -> Forall quiet_in quiet -> 22 * n + 5 <= Z.of_nat (length quiet) ->
  s_ready (l_ser (final (link_step n) link_init (ins ++ quiet))) = 1.
Proof.
  intros Hn Hvs Hq Hlen.
  assert (Hsplit : exists i0 ins' q', ins ++ quiet = i0 :: ins' ++ q' /\ Forall (fun i => 0 <= li_v i < 256) ins' /\ Forall quiet_in q'
                                  /\ 22 * n + 4 <= Z.of_nat (length q')).
  { destruct ins as [|i0 ins'].
    - destruct quiet as [|i0 q']; [cbn [length] in Hlen; lia|]. exists i0, [], q'. inversion Hq; subst. cbn [length] in Hlen. repeat split; auto. lia.
    - exists i0, ins', quiet. inversion Hvs; subst. repeat split; auto. lia. }
  destruct Hsplit as (i0 & ins' & q' & E & Hvs' & Hq' & Hlen'). rewrite E.
  destruct (linv_boot n i0 Hn) as ((HT & _ & _) & _).
  change (final (link_step n) link_init (i0 :: ins' ++ q')) with (final (link_step n) (link_step n link_init i0) (ins' ++ q')).
  unfold final. rewrite fold_left_app. fold (final (link_step n) (link_step n link_init i0) ins').
  destruct (tinv_run n Hn ins' _ _ HT Hvs') as (g1 & HT1).
  set (L1 := final (link_step n) (link_step n link_init i0) ins') in *.
  fold (final (link_step n) L1 q').
  destruct (tinv_drain n Hn q' _ _ HT1 Hq') as (g2 & HT2 & Hrk).
  pose proof (proj1 (rank_step n g1 _ 0 Hn (proj2 HT1))) as Hb1.
  destruct (tinv_ser n g2 _ _ 0 0 Hn HT2 ltac:(lia)) as (_ & Hrdy & _). rewrite Hrdy.
  apply (rank0_ready n g2 _ Hn (proj2 HT2)). lia.
Qed.

Lemma quiet_in_byte quiet : Forall quiet_in quiet -> Forall (fun i => 0 <= li_v i < 256) quiet.
Proof. apply Forall_impl. intros i [_ H]. exact H. Qed.

(* link_line_8n1: every n >= 2, every producer behaviour that ends with 11 bit periods + 5 clocks of silence, EVERY consumer:
   the software receiver timed at the nominal bit period 2n recovers from the tx wire exactly the accepted bytes, in order *)
Lemma link_line_8n1_lemma n ins quiet :
  2 <= n -> Forall (fun i => 0 <= li_v i < 256) ins -> Forall quiet_in quiet -> 22 * n + 5 <= Z.of_nat (length quiet) ->
  sw_rx_all (Z.to_nat (2 * n)) (map (fun l => s_tx (l_ser l)) (runs (link_step n) link_init (ins ++ quiet)))
    = Some (link_accepted n link_init (ins ++ quiet))
  /\ link_accepted n link_init (ins ++ quiet) = link_accepted n link_init ins.
Proof.
  intros Hn Hvs Hq Hlen. split.
  - apply link_line_8n1_ready_lemma; auto.
    + apply Forall_app. split; [exact Hvs | now apply quiet_in_byte].
    + now apply quiet_ready.
  - rewrite link_accepted_app. rewrite (link_accepted_quiet n quiet _ Hq). apply app_nil_r.
Qed.

Lemma link_line_frames_quiet_lemma n ins quiet :
  2 <= n -> Forall (fun i => 0 <= li_v i < 256) ins -> Forall quiet_in quiet -> 22 * n + 5 <= Z.of_nat (length quiet) ->
  exists (m : nat) (fs : list (Z * nat)),
    map (fun l => s_tx (l_ser l)) (runs (link_step n) link_init (ins ++ quiet)) = repeat 1 (S m) ++ frames_line (Z.to_nat (2 * n)) fs
    /\ map fst fs = link_accepted n link_init ins.
Proof.
  intros Hn Hvs Hq Hlen.
  destruct (link_line_frames_lemma n (ins ++ quiet) Hn) as (m & fs & Hl & Hacc & _).
  - apply Forall_app. split; [exact Hvs | now apply quiet_in_byte].
  - now apply quiet_ready.
  - exists m, fs. split; [exact Hl|]. rewrite Hacc, link_accepted_app, (link_accepted_quiet n quiet _ Hq). apply app_nil_r.
Qed.
