(* C17: an abstract mid-bit sampler at the nominal bit period recovers the byte from the serializer's line. *)
From V Require Import Base.Bits Gen.Seq Model.Uart Spec.C17 Proofs.C17.Ser.

(* exhaustive over the 256 byte values (vm_compute): the eight bits, LSB first, determine the byte *)
Lemma byte_of_bits b : 0 <= b < 256 -> byte_of (map (bit b) [0; 1; 2; 3; 4; 5; 6; 7]) = b.
Proof.
  intros Hb.
  assert (H : forallb (fun k => byte_of (map (bit (Z.of_nat k)) [0; 1; 2; 3; 4; 5; 6; 7]) =? Z.of_nat k) (seq 0 256) = true)
    by (vm_compute; reflexivity).
  rewrite forallb_forall in H. specialize (H (Z.to_nat b)).
  rewrite Z2Nat.id in H by lia. apply Z.eqb_eq, H, in_seq. lia.
Qed.

Lemma falling_from_ones m : forall t r, falling_from t 1 (repeat 1 m ++ 0 :: r) = Some (t + m)%nat.
Proof.
  induction m as [|m IH]; intros t r; cbn [repeat app falling_from].
  - cbn. f_equal. lia.
  - change ((1 =? 1) && (1 =? 0)) with false. cbv iota. rewrite IH. f_equal. lia.
Qed.

Lemma hold_uniform_cons P n x xs : hold (repeat P (S n)) (x :: xs) = repeat x P ++ hold (repeat P n) xs.
Proof. reflexivity. Qed.

Lemma nth_error_repeat {A} (x : A) P j : (j < P)%nat -> nth_error (repeat x P) j = Some x.
Proof. revert j; induction P as [|P IH]; intros [|j] H; cbn; try lia; auto. apply IH; lia. Qed.

Lemma nth_hold P : forall xs k j tl, (j < P)%nat -> (k < length xs)%nat ->
  nth_error (hold (repeat P (length xs)) xs ++ tl) (k * P + j) = nth_error xs k.
Proof.
  induction xs as [|x xs IH]; intros k j tl Hj Hk; cbn [length] in *; [lia|].
  rewrite hold_uniform_cons, <- app_assoc. destruct k as [|k].
  - cbn [Nat.mul Nat.add nth_error]. rewrite nth_error_app1 by (rewrite repeat_length; lia).
    now apply nth_error_repeat.
  - replace (S k * P + j)%nat with (length (repeat x P) + (k * P + j))%nat by (rewrite repeat_length; lia).
    rewrite nth_error_app2 by lia. replace (length (repeat x P) + (k * P + j) - length (repeat x P))%nat with (k * P + j)%nat by lia.
    cbn [nth_error]. apply IH; lia.
Qed.

Lemma samples_hold P xs pre tl j : (j < P)%nat -> forall cnt k, (k + cnt <= length xs)%nat ->
  samples (pre ++ hold (repeat P (length xs)) xs ++ tl) (length pre + k * P + j) P cnt = Some (firstn cnt (skipn k xs)).
Proof.
  intros Hj. induction cnt as [|cnt IH]; intros k Hk; cbn [samples firstn]; [reflexivity|].
  replace (length pre + k * P + j + P)%nat with (length pre + S k * P + j)%nat by lia.
  rewrite IH by lia.
  replace (length pre + k * P + j)%nat with (length pre + (k * P + j))%nat by lia.
  rewrite nth_error_app2 by lia. replace (length pre + (k * P + j) - length pre)%nat with (k * P + j)%nat by lia.
  rewrite nth_hold by lia.
  destruct (nth_error xs k) as [x|] eqn:E; [|apply nth_error_None in E; lia].
  f_equal. 
  assert (Hs : skipn k xs = x :: skipn (S k) xs).
  { clear -E. revert k E. induction xs as [|y ys IHx]; intros [|k] E; cbn in *; try discriminate; [congruence|]. now apply IHx. }
  rewrite Hs. reflexivity.
Qed.

(* the receiver on an explicit 8N1 line: idle high for m >= 1 clocks, the ten frame levels held P clocks each, then anything *)
Lemma sw_rx_line b P m rest : 0 <= b < 256 -> (1 <= P)%nat ->
  sw_rx P (repeat 1 m ++ hold (repeat P 10) (frame8n1 b) ++ rest) = Some b.
Proof.
  intros Hb HP. unfold sw_rx, falling_edge.
  assert (Hf : exists r, hold (repeat P 10) (frame8n1 b) = 0 :: r).
  { unfold frame8n1, frame_head. cbn [map app]. rewrite hold_uniform_cons. destruct P; [lia|]. cbn [repeat app]. eauto. }
  destruct Hf as (r & Hf). rewrite Hf at 1. cbn [app]. rewrite falling_from_ones. cbn [Nat.add].
  pose proof (samples_hold P (frame8n1 b) (repeat 1 m) rest (P / 2)) as Hs.
  specialize (Hs ltac:(apply Nat.div_lt; lia) 10%nat 0%nat ltac:(cbn; lia)).
  rewrite repeat_length in Hs. change (length (frame8n1 b)) with 10%nat in Hs.
  replace (m + 0 * P + P / 2)%nat with (m + P / 2)%nat in Hs by lia. rewrite Hs.
  unfold frame8n1, frame_head. cbn [skipn firstn map app].
  change ((0 =? 0) && (1 =? 1)) with true. cbv iota.
  f_equal. apply (byte_of_bits b Hb).
Qed.

(* ... and on the serializer's actual tx wire, for a divider of period P with arbitrary phase g0 *)
Lemma sw_receiver_lemma b P g0 cnt txv i0 ins il :
  0 <= b < 256 -> (1 <= P)%nat -> si_valid i0 <> 0 -> si_v i0 = b ->
  map si_pulse ins = pulses (g0 :: repeat (P - 1)%nat 10) ->
  sw_rx P (map s_tx (runs ser_step (ser_ready_state cnt txv) (i0 :: ins ++ [il]))) = Some b.
Proof.
  intros Hb HP Hv Hvb Hp.
  destruct (ser_frame_lemma b cnt txv (g0 :: repeat (P - 1)%nat 10) i0 ins il ltac:(reflexivity) Hv Hvb Hp) as (T & _ & _).
  rewrite T. cbn [map hold]. rewrite map_repeat. replace (S (P - 1)) with P by lia.
  rewrite <- app_assoc.
  change (1 :: repeat 1 (S g0) ++ hold (repeat P 10) (frame8n1 b) ++ [1])
    with (repeat 1 (S (S g0)) ++ hold (repeat P 10) (frame8n1 b) ++ [1]).
  now apply sw_rx_line.
Qed.

(* glue between recovery_phase and des_frame: on a line whose ten frame levels are held P = 2n clocks each, the recovered sample
   instants (offset n + 1 + k*P from the falling edge) read exactly level k of the frame, provided n >= 2 *)
Lemma sample_reads_level_lemma (n k : nat) b rest :
  (2 <= n)%nat -> (k < 10)%nat ->
  nth_error (hold (repeat (2 * n)%nat 10) (frame8n1 b) ++ rest) (n + 1 + k * (2 * n)) = nth_error (frame8n1 b) k.
Proof.
  intros Hn Hk. replace (n + 1 + k * (2 * n))%nat with (k * (2 * n) + (n + 1))%nat by lia.
  change 10%nat with (length (frame8n1 b)) at 1. apply nth_hold; [lia | exact Hk].
Qed.
