(* C03 — concrete designs: non-vacuity of the theorems' hypotheses, and the checker's verdict on the shapes of the known findings. *)
From V Require Import Model.VSyntax Model.VSem Spec.C03 Model.VWf Proofs.C03.Sound Proofs.C03.Elab.
Local Open Scope string_scope.

(* ---------------------------------------------------------------- non-vacuity and detection examples *)
(* a two-level design in the shape py4hw emits: accepted, in the fragment, and it elaborates with the stated fuel *)
Definition ex_design : design :=
  [ {| m_name := "Top"; m_params := [];
       m_ports := [ {| p_dir := DIn; p_reg := false; p_width := 1; p_name := "clk" |};
                    {| p_dir := DIn; p_reg := false; p_width := 8; p_name := "a" |};
                    {| p_dir := DOut; p_reg := false; p_width := 8; p_name := "q" |};
                    {| p_dir := DOut; p_reg := false; p_width := 1; p_name := "s" |} ];
       m_items := [ IWire "w_t" 8;
                    IAssign (LPart "w_t" 7 0) (EBin BAdd (EId "a") (ENum 1));
                    IInst "Reg8" [] "i_reg" [("clk", EId "clk"); ("d", EId "w_t"); ("q", EId "q")];
                    IAssign (LId "s") (EBit "a" (ENum 7)) ] |};
    {| m_name := "Reg8"; m_params := [];
       m_ports := [ {| p_dir := DIn; p_reg := false; p_width := 1; p_name := "clk" |};
                    {| p_dir := DIn; p_reg := false; p_width := 8; p_name := "d" |};
                    {| p_dir := DOut; p_reg := false; p_width := 8; p_name := "q" |} ];
       m_items := [ IReg "rq" 8 (Some 0);
                    IAlways (EvPos "clk") (SNba (LId "rq") (EId "d"));
                    IAssign (LId "q") (EId "rq") ] |} ].

Lemma ex_example_accepted : wf_design [] ex_design = true.
Proof. vm_compute. reflexivity. Qed.

Lemma ex_example_fragment : vsem_fragment ex_design.
Proof.
  intros m [<-|[<-|[]]]; (split; [reflexivity|]); intros it H; simpl in H;
    repeat (destruct H as [<-|H]; [simpl; auto|]); contradiction.
Qed.

Lemma ex_example_elaborates : exists f, elaborate ex_design (elab_fuel ex_design) "Top" = inr f.
Proof.
  apply (elab_total_checked ex_design ex_example_accepted ex_example_fragment (nth 0 ex_design {| m_name := ""; m_params := []; m_ports := []; m_items := [] |})).
  - now left.
  - apply le_n.
Qed.

(* the checker rejects the shapes of the known findings (each by evaluation): select of a scalar, {0{..}},
   one name declared twice, two drivers, connection to a port the module does not declare, a 1364-2005 keyword *)
Definition one_module (ports : list port) (items : list item) : design :=
  [ {| m_name := "M"; m_params := []; m_ports := ports; m_items := items |} ].
Definition pin (dr : dir) (w : Z) (x : string) : port := {| p_dir := dr; p_reg := false; p_width := w; p_name := x |}.

Lemma ex_rejects_scalar_select :
  wf_report [] (one_module [pin DIn 1 "a"; pin DOut 1 "r"] [IAssign (LId "r") (EBit "a" (ENum 0))]) = [("scalar_select", "M", "a")].
Proof. vm_compute. reflexivity. Qed.
Lemma ex_rejects_zero_replication :
  wf_design [] (one_module [pin DIn 8 "a"; pin DOut 8 "r"] [IAssign (LId "r") (EConcat (ERepl 0 (EBit "a" (ENum 7))) (EId "a"))]) = false.
Proof. vm_compute. reflexivity. Qed.
Lemma ex_rejects_duplicate_and_self_driver :
  wf_design [] (one_module [pin DIn 4 "w_a"; pin DOut 4 "r"] [IWire "w_a" 4; IAssign (LId "w_a") (EUn UNot (EId "w_a")); IAssign (LId "r") (EUn UNot (EId "w_a"))]) = false.
Proof. vm_compute. reflexivity. Qed.
Lemma ex_rejects_two_drivers :
  wf_report [] (one_module [pin DIn 4 "a"; pin DOut 4 "r"] [IAssign (LPart "r" 3 0) (EId "a"); IAssign (LPart "r" 3 3) (ENum 1)])
  = [("multiple_drivers", "M", "r"); ("multiple_drivers", "M", "r")].
Proof. vm_compute. reflexivity. Qed.
Lemma ex_accepts_disjoint_part_drivers :
  wf_design [] (one_module [pin DIn 4 "a"; pin DOut 4 "r"] [IAssign (LPart "r" 2 0) (EPart "a" 2 0); IAssign (LIdx "r" (ENum 3)) (ENum 1)]) = true.
Proof. vm_compute. reflexivity. Qed.
Lemma ex_rejects_unknown_port :
  wf_report [] [ {| m_name := "T"; m_params := []; m_ports := [pin DIn 1 "clk_g"; pin DIn 8 "d"; pin DOut 8 "q"];
                    m_items := [IInst "Reg8" [] "i_r" [("clk_g", EId "clk_g"); ("d", EId "d"); ("q", EId "q")]] |};
                 nth 1 ex_design {| m_name := ""; m_params := []; m_ports := []; m_items := [] |} ]
  = [("unknown_port", "T", "i_r.clk_g"); ("port_unconnected", "T", "i_r.clk")].
Proof. vm_compute. reflexivity. Qed.
Lemma ex_rejects_keyword : wf_report [] (one_module [pin DIn 1 "uwire"; pin DOut 1 "r"] [IAssign (LId "r") (EId "uwire")]) = [("reserved_word", "M", "uwire")].
Proof. vm_compute. reflexivity. Qed.
Lemma ex_rejects_cycle :
  wf_report [] [ {| m_name := "A"; m_params := []; m_ports := []; m_items := [IInst "B" [] "i_b" []] |};
                 {| m_name := "B"; m_params := []; m_ports := []; m_items := [IInst "A" [] "i_a" []] |} ] = [("instantiation_cycle", "", "")].
Proof. vm_compute. reflexivity. Qed.


(* a synchronous memory in the shape of SynchronousMemory.verilogBody: accepted, in the fragment, elaborates (one net per word) *)
Definition ex_mem_design : design :=
  [ {| m_name := "Mem"; m_params := [];
       m_ports := [ pin DIn 1 "clk"; pin DIn 2 "ra"; pin DIn 2 "wa"; pin DIn 1 "we"; pin DIn 8 "wd"; pin DOut 8 "rd" ];
       m_items := [ IMem "mem" 8 4; IReg "rr" 8 None;
                    IAlways (EvPos "clk") (SSeq (SIf (EId "we") (SNba (LIdx "mem" (EId "wa")) (EId "wd")) SSkip)
                                                (SNba (LId "rr") (EBit "mem" (EId "ra"))));
                    IAssign (LId "rd") (EId "rr") ] |} ].

Lemma ex_mem_accepted : wf_design [] ex_mem_design = true.
Proof. vm_compute. reflexivity. Qed.

Lemma ex_mem_fragment : vsem_fragment ex_mem_design.
Proof.
  intros m [<-|[]]; (split; [reflexivity|]); intros it H; simpl in H;
    repeat (destruct H as [<-|H]; [simpl; auto|]); contradiction.
Qed.

Lemma ex_mem_elaborates : exists f, elaborate ex_mem_design (elab_fuel ex_mem_design) "Mem" = inr f.
Proof.
  apply (elab_total_checked ex_mem_design ex_mem_accepted ex_mem_fragment (nth 0 ex_mem_design {| m_name := ""; m_params := []; m_ports := []; m_items := [] |})).
  - now left.
  - apply le_n.
Qed.
