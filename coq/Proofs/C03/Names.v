(* C03 — the naming model: injectivity under the stated guard, and the collision without it. *)
From V Require Import Model.VSyntax Model.VWf Model.Naming Proofs.C03.Sound.
Local Open Scope string_scope.
Local Open Scope list_scope.

Lemma prefix_append : forall a s, has_prefix a (String.append a s) = true.
Proof.
  unfold has_prefix. induction a as [|c a IH]; intros s; simpl; [destruct s; reflexivity|].
  destruct (Ascii.ascii_dec c c) as [_|N]; [apply IH|contradiction].
Qed.

Lemma append_inj : forall a s t, String.append a s = String.append a t -> s = t.
Proof. induction a as [|c a IH]; simpl; intros s t H; [exact H|]. inversion H. auto. Qed.

Lemma NoDup_map_inj : forall (A B : Type) (f : A -> B) (l : list A),
  (forall x y, In x l -> In y l -> f x = f y -> x = y) -> NoDup l -> NoDup (map f l).
Proof.
  induction l as [|a t IH]; simpl; intros Hinj ND; [constructor|].
  inversion ND as [|? ? Hn ND']; subst. constructor.
  - intros HI. apply in_map_iff in HI as (y & Hy & Hin). apply Hn.
    rewrite (Hinj a y (or_introl eq_refl) (or_intror Hin) (eq_sym Hy)). exact Hin.
  - apply IH; [|exact ND']. intros x y Hx Hy. apply Hinj; now right.
Qed.

Lemma NoDup_app_intro : forall (A : Type) (a b : list A),
  NoDup a -> NoDup b -> (forall x, In x a -> ~ In x b) -> NoDup (a ++ b).
Proof.
  induction a as [|x t IH]; simpl; intros b Ha Hb Hd; [exact Hb|].
  inversion Ha as [|? ? Hn Ha']; subst. constructor.
  - intros HI. apply in_app_or in HI as [HI|HI]; [contradiction|]. exact (Hd x (or_introl eq_refl) HI).
  - apply IH; auto.
Qed.

Lemma valid_name_cases : forall kw n,
  (mem_str n kw = true /\ valid_name kw n = String.append "reserved_" n) \/ (mem_str n kw = false /\ valid_name kw n = n).
Proof. intros kw n. unfold valid_name. destruct (mem_str n kw); auto. Qed.

Theorem names_injective : forall (kw : list string) (ports locals : list string),
  kw_ok kw -> NoDup ports -> NoDup locals ->
  (forall p, In p ports -> has_prefix "w_" p = false /\ has_prefix "reserved_" p = false) ->
  NoDup (emitted_names kw ports locals) /\ (forall x, In x (emitted_names kw ports locals) -> ~ In x kw).
Proof.
  intros kw ports locals KW NDp NDl G. unfold emitted_names, port_name. split.
  - apply NoDup_app_intro.
    + apply NoDup_map_inj; [|exact NDp]. intros x y Hx Hy E.
      destruct (valid_name_cases kw x) as [[Mx Vx]|[Mx Vx]], (valid_name_cases kw y) as [[My Vy]|[My Vy]]; rewrite Vx, Vy in E.
      * now apply append_inj in E.
      * exfalso. destruct (G _ Hy) as [_ Gy]. rewrite <- E, prefix_append in Gy. discriminate.
      * exfalso. destruct (G _ Hx) as [_ Gx]. rewrite E, prefix_append in Gx. discriminate.
      * exact E.
    + apply NoDup_map_inj; [|exact NDl]. intros x y _ _ E. unfold local_name in E. now apply append_inj in E.
    + intros x Hx Hl. apply in_map_iff in Hx as (p & Hp & Hpin). apply in_map_iff in Hl as (n & Hn & Hnin).
      unfold local_name in Hn. subst x.
      destruct (valid_name_cases kw p) as [[Mp Vp]|[Mp Vp]]; rewrite Vp in Hn.
      * simpl in Hn. discriminate.
      * destruct (G _ Hpin) as [Gp _]. rewrite <- Hn, prefix_append in Gp. discriminate.
  - intros x Hx Hk. destruct (KW _ Hk) as [K1 K2]. apply in_app_or in Hx as [Hx|Hx].
    + apply in_map_iff in Hx as (p & Hp & Hpin). subst x.
      destruct (valid_name_cases kw p) as [[Mp Vp]|[Mp Vp]]; rewrite Vp in *.
      * rewrite prefix_append in K2. discriminate.
      * apply mem_str_In in Hk. rewrite Hk in Mp. discriminate.
    + apply in_map_iff in Hx as (n & Hn & _). subst x. unfold local_name in K1. rewrite prefix_append in K1. discriminate.
Qed.

Theorem names_refuted : exists kw ports locals, kw_ok kw /\ NoDup ports /\ NoDup locals /\ ~ NoDup (emitted_names kw ports locals).
Proof.
  exists [], ["w_a"], ["a"].
  split; [intros k0 []|].
  split; [repeat constructor; intros []|].
  split; [repeat constructor; intros []|].
  intros H. inversion H as [|? ? Hn _]. apply Hn. now left.
Qed.
