(* C03 — soundness of the executable checker (Model/VWf.v) w.r.t. the declarative specification (Spec/C03.v):
   wf_design ext d = true -> WF ext d. *)
From Coq Require Import Lia.
From V Require Import Model.VSyntax Model.VSem Spec.C03 Model.VWf.
Local Open Scope string_scope.
Local Open Scope list_scope.
Local Open Scope Z_scope.

(* ---------------------------------------------------------------- list utilities *)
Lemma assoc_In : forall (A : Type) (l : list (string * A)) x a, assoc l x = Some a -> In (x, a) l.
Proof.
  induction l as [|[y b] t IH]; simpl; intros x a H; [discriminate|].
  destruct (String.eqb x y) eqn:E.
  - apply String.eqb_eq in E. inversion H; subst. now left.
  - right. now apply IH.
Qed.

Lemma In_assoc : forall (A : Type) (l : list (string * A)) x a, NoDup (map fst l) -> In (x, a) l -> assoc l x = Some a.
Proof.
  induction l as [|[y b] t IH]; simpl; intros x a ND HI; [contradiction|].
  inversion ND as [|? ? Hn ND']; subst.
  destruct HI as [HI|HI].
  - inversion HI; subst. now rewrite String.eqb_refl.
  - destruct (String.eqb x y) eqn:E.
    + apply String.eqb_eq in E; subst. exfalso. apply Hn. apply in_map_iff. now exists (y, a).
    + now apply IH.
Qed.

Lemma mem_str_In : forall x l, mem_str x l = true <-> In x l.
Proof.
  induction l as [|y t IH]; simpl; [split; [discriminate|contradiction]|].
  rewrite Bool.orb_true_iff, IH, String.eqb_eq. split; intros [H|H]; auto.
Qed.

Lemma nodup_str_NoDup : forall l, nodup_str l = true -> NoDup l.
Proof.
  induction l as [|x t IH]; simpl; intros H; [constructor|].
  apply Bool.andb_true_iff in H as [H1 H2]. constructor; [|now apply IH].
  intros HI. apply mem_str_In in HI. rewrite HI in H1. discriminate.
Qed.

Lemma enum_from_In : forall (A : Type) (l : list A) k i a,
  In (i, a) (enum_from k l) <-> (k <= i)%nat /\ nth_error l (i - k) = Some a.
Proof.
  induction l as [|b t IH]; simpl; intros k i a.
  - split; [contradiction|]. intros [_ H]. destruct (i - k)%nat; discriminate.
  - rewrite IH. split.
    + intros [H|[H1 H2]].
      * inversion H; subst. split; [lia|]. now rewrite Nat.sub_diag.
      * split; [lia|]. replace (i - k)%nat with (S (i - S k)) by lia. exact H2.
    + intros [H1 H2]. destruct (Nat.eq_dec i k) as [->|Hne].
      * left. rewrite Nat.sub_diag in H2. simpl in H2. now inversion H2.
      * right. split; [lia|]. replace (i - k)%nat with (S (i - S k)) in H2 by lia. exact H2.
Qed.

Lemma enum_from_0 : forall (A : Type) (l : list A) i a, In (i, a) (enum_from 0 l) <-> nth_error l i = Some a.
Proof. intros. rewrite enum_from_In, Nat.sub_0_r. split; [tauto|]. intros; split; [lia|auto]. Qed.

Lemma zrange_In : forall n lo b, In b (zrange lo n) <-> lo <= b < lo + Z.of_nat n.
Proof.
  induction n as [|n IH]; simpl zrange; intros lo b.
  - simpl. split; [contradiction|lia].
  - simpl In. rewrite IH. lia.
Qed.

Lemma NoDup_app_l : forall (A : Type) (a b : list A), NoDup (a ++ b) -> NoDup a.
Proof.
  induction a as [|x t IH]; simpl; intros b H; [constructor|].
  inversion H as [|? ? Hn H']; subst. constructor; [|now apply IH with b].
  intros HI. apply Hn. apply in_or_app. now left.
Qed.

Lemma NoDup_app_r : forall (A : Type) (a b : list A), NoDup (a ++ b) -> NoDup b.
Proof. induction a as [|x t IH]; simpl; intros b H; [exact H|]. inversion H; subst. now apply IH. Qed.

(* ---------------------------------------------------------------- modules and ports by name *)
Lemma find_module_some : forall d mn c, find_module d mn = Some c -> In c d /\ m_name c = mn.
Proof.
  induction d as [|m t IH]; simpl; intros mn c H; [discriminate|].
  destruct (String.eqb (m_name m) mn) eqn:E.
  - inversion H; subst. apply String.eqb_eq in E. auto.
  - apply IH in H as [H1 H2]. auto.
Qed.

Lemma find_module_defined : forall d c, In c d -> exists c', find_module d (m_name c) = Some c'.
Proof.
  induction d as [|m t IH]; simpl; intros c H; [contradiction|].
  destruct (String.eqb (m_name m) (m_name c)) eqn:E; [eauto|].
  destruct H as [->|H]; [rewrite String.eqb_refl in E; discriminate|]. now apply IH.
Qed.

Lemma find_module_unique : forall d c, NoDup (map m_name d) -> In c d -> find_module d (m_name c) = Some c.
Proof.
  induction d as [|m t IH]; simpl; intros c ND H; [contradiction|].
  inversion ND as [|? ? Hn ND']; subst.
  destruct H as [->|H]; [now rewrite String.eqb_refl|].
  destruct (String.eqb (m_name m) (m_name c)) eqn:E; [|now apply IH].
  apply String.eqb_eq in E. exfalso. apply Hn. rewrite E. now apply in_map.
Qed.

Lemma find_port_some : forall c p q, find_port c p = Some q -> In q (m_ports c) /\ p_name q = p.
Proof.
  unfold find_port. intros c p q H. apply find_some in H as [H1 H2]. apply String.eqb_eq in H2. auto.
Qed.

Lemma find_port_unique : forall c q, NoDup (map p_name (m_ports c)) -> In q (m_ports c) -> find_port c (p_name q) = Some q.
Proof.
  unfold find_port. intros c q. induction (m_ports c) as [|a t IH]; simpl; intros ND H; [contradiction|].
  inversion ND as [|? ? Hn ND']; subst.
  destruct H as [->|H]; [now rewrite String.eqb_refl|].
  destruct (String.eqb (p_name a) (p_name q)) eqn:E; [|now apply IH].
  apply String.eqb_eq in E. exfalso. apply Hn. rewrite E. now apply in_map.
Qed.

Lemma decls_ports_NoDup : forall m, NoDup (map fst (decls m)) -> NoDup (map p_name (m_ports m)).
Proof.
  intros m H. unfold decls in H. rewrite !map_app in H.
  apply NoDup_app_r in H. apply NoDup_app_l in H.
  rewrite map_map in H. simpl in H. exact H.
Qed.

Lemma dir_eqb_eq : forall a b, dir_eqb a b = true <-> a = b.
Proof. destruct a, b; simpl; split; intros; try discriminate; auto. Qed.

(* ---------------------------------------------------------------- expressions *)
Lemma const_in_spec : forall i n, const_in i n = true -> forall c, const_index i = Some c -> 0 <= c < n.
Proof. unfold const_in. intros i n H c Hc. rewrite Hc in H. lia. Qed.

Lemma in_range_spec : forall w hi lo, in_range w hi lo = true -> 2 <= w /\ 0 <= lo /\ lo <= hi /\ hi < w.
Proof. unfold in_range. intros. lia. Qed.

Lemma wf_expr_sound : forall E e, wf_expr E e = true -> expr_ok E e.
Proof.
  intros E. induction e as [x|n|w n|x i IHi|x hi lo|o a IHa|o a IHa b IHb|c IHc a IHa b IHb|a IHa b IHb|n a IHa|a IHa];
    simpl; intros H.
  - destruct (assoc E x) as [k|] eqn:A; [|discriminate]. apply assoc_In in A. now apply OkId with k.
  - constructor.
  - constructor. lia.
  - apply Bool.andb_true_iff in H as [Hi H]. specialize (IHi Hi).
    destruct (assoc E x) as [k|] eqn:A; [|discriminate]. apply assoc_In in A.
    destruct k as [|dd rr w|w|w| |w dp|];
      try (cbn [kwidth] in H; first [discriminate | apply Bool.andb_true_iff in H as [H1 H2];
           eapply OkBit; [exact A|reflexivity|lia|exact IHi|now apply const_in_spec]]).
    eapply OkWord; [exact A|exact IHi|now apply const_in_spec].
  - destruct (assoc E x) as [k|] eqn:A; [|discriminate]. apply assoc_In in A.
    destruct (kwidth k) as [w|] eqn:K; [|discriminate].
    apply in_range_spec in H as (H1 & H2 & H3 & H4). now apply OkPart with k w.
  - constructor. auto.
  - apply Bool.andb_true_iff in H as [H1 H2]. constructor; auto.
  - apply Bool.andb_true_iff in H as [H12 H3]. apply Bool.andb_true_iff in H12 as [H1 H2]. constructor; auto.
  - apply Bool.andb_true_iff in H as [H1 H2]. constructor; auto.
  - apply Bool.andb_true_iff in H as [H1 H2]. constructor; [lia|auto].
  - constructor. auto.
Qed.

Lemma wf_lval_sound : forall E proc l, wf_lval E proc l = true -> lval_ok E proc l.
Proof.
  intros E proc [x|x hi lo|x i]; simpl; intros H.
  - destruct (assoc E x) as [k|] eqn:A; [|discriminate]. apply assoc_In in A. now apply LokId with k.
  - destruct (assoc E x) as [k|] eqn:A; [|discriminate]. apply assoc_In in A.
    apply Bool.andb_true_iff in H as [H1 H2].
    destruct (kwidth k) as [w|] eqn:K; [|discriminate].
    apply in_range_spec in H2 as (H2 & H3 & H4 & H5). now apply LokPart with k w.
  - apply Bool.andb_true_iff in H as [Hi H]. apply wf_expr_sound in Hi.
    destruct (assoc E x) as [k|] eqn:A; [|discriminate]. apply assoc_In in A.
    assert (G : forall k', k = k' -> (forall w dp, k' <> KMem w dp) ->
                (target_kind proc k' &&
                 match kwidth k' with Some w => (2 <=? w) && const_in i w | None => false end &&
                 (proc || match const_index i with Some _ => true | None => false end)) = true ->
                lval_ok E proc (LIdx x i)).
    { intros k' -> _ G. apply Bool.andb_true_iff in G as [G12 G3]. apply Bool.andb_true_iff in G12 as [G1 G2].
      destruct (kwidth k') as [w|] eqn:K; [|discriminate]. apply Bool.andb_true_iff in G2 as [G2 G4].
      eapply LokIdx; [exact A|exact G1|exact K|lia|exact Hi|now apply const_in_spec|].
      intros ->. simpl in G3. destruct (const_index i); [discriminate|discriminate]. }
    destruct k as [|dd rr w|w|w| |w dp|]; try (apply (G _ eq_refl); [intros; discriminate|exact H]).
    apply Bool.andb_true_iff in H as [H1 H2].
    eapply LokWord; [exact H1|exact A|exact Hi|now apply const_in_spec].
Qed.

Lemma wf_stmt_sound : forall E s, wf_stmt E s = true -> stmt_ok E s.
Proof.
  intros E. induction s as [|a IHa b IHb|c t IHt e IHe|l e|l e]; simpl; intros H.
  - constructor.
  - apply Bool.andb_true_iff in H as [H1 H2]. constructor; auto.
  - apply Bool.andb_true_iff in H as [H12 H3]. apply Bool.andb_true_iff in H12 as [H1 H2].
    constructor; auto using wf_expr_sound.
  - apply Bool.andb_true_iff in H as [H1 H2]. constructor; auto using wf_expr_sound, wf_lval_sound.
  - apply Bool.andb_true_iff in H as [H1 H2]. constructor; auto using wf_expr_sound, wf_lval_sound.
Qed.

Lemma wf_event_sound : forall E ev, wf_event E ev = true -> event_ok E ev.
Proof.
  intros E [c|c|]; simpl; intros H; try constructor;
    (destruct (assoc E c) as [k|] eqn:A; [|discriminate]; apply assoc_In in A;
     destruct (kwidth k) as [w|] eqn:K; [|discriminate]; apply Z.eqb_eq in H; subst).
  - now apply EokPos with k.
  - now apply EokNeg with k.
Qed.

(* ---------------------------------------------------------------- items *)
Lemma wf_conn_sound : forall E q e, wf_conn E q e = true -> conn_ok E q e.
Proof.
  intros E q e H. destruct e as [x| | | | | | | | | |]; simpl in H; try discriminate.
  destruct (assoc E x) as [k|] eqn:A; [|discriminate]. apply assoc_In in A.
  destruct (kwidth k) as [w|] eqn:K; [|discriminate].
  apply Bool.andb_true_iff in H as [H1 H2]. apply Z.eqb_eq in H1. subst w.
  exists x, k. repeat split; auto.
  intros Hd. apply Bool.orb_true_iff in H2 as [H2|H2]; [|exact H2].
  apply dir_eqb_eq in H2. contradiction.
Qed.

Lemma wf_item_sound : forall ext d E it, wf_item ext d E it = true -> item_ok ext d E it.
Proof.
  intros ext d E [x w|x w init|x|x w dp|l e|ev s|s|mn params iname conns]; simpl; intros H.
  - constructor. lia.
  - constructor. lia.
  - constructor.
  - constructor; lia.
  - apply Bool.andb_true_iff in H as [H1 H2]. constructor; auto using wf_expr_sound, wf_lval_sound.
  - apply Bool.andb_true_iff in H as [H1 H2]. constructor; auto using wf_event_sound, wf_stmt_sound.
  - constructor. now apply wf_stmt_sound.
  - apply Bool.andb_true_iff in H as [H12 H]. apply Bool.andb_true_iff in H12 as [H1 H2].
    apply nodup_str_NoDup in H1. apply nodup_str_NoDup in H2.
    destruct (find_module d mn) as [c|] eqn:F.
    + apply find_module_some in F.
      apply Bool.andb_true_iff in H as [H34 H5]. apply Bool.andb_true_iff in H34 as [H3 H4].
      rewrite forallb_forall in H3, H4, H5.
      apply IokInst with c; auto.
      * intros p e Hpe. specialize (H3 _ Hpe). simpl in H3. apply Bool.andb_true_iff in H3 as [H31 H32].
        split; [now apply mem_str_In|now apply wf_expr_sound].
      * intros p e Hpe. specialize (H4 _ Hpe). simpl in H4.
        destruct (find_port c p) as [q|] eqn:FP; [|discriminate].
        apply find_port_some in FP as [FP1 FP2]. exists q. auto using wf_conn_sound.
      * intros q Hq. specialize (H5 _ Hq). now apply mem_str_In.
    + apply Bool.andb_true_iff in H as [H34 H5]. apply Bool.andb_true_iff in H34 as [H3 H4].
      rewrite forallb_forall in H4, H5.
      apply IokExt; auto.
      * now apply mem_str_In.
      * intros p e Hpe. apply wf_expr_sound. exact (H4 _ Hpe).
      * intros p e Hpe. apply wf_expr_sound. exact (H5 _ Hpe).
Qed.

(* ---------------------------------------------------------------- drivers: the collected list = the relation *)
Lemma lval_range_sound : forall E l x lo hi, lval_range E l = Some (x, lo, hi) -> lrange E l x lo hi.
Proof.
  intros E [y|y h l0|y i] x lo hi; simpl; intros H.
  - destruct (assoc E y) as [k|] eqn:A; [|discriminate]. apply assoc_In in A.
    destruct (kwidth k) as [w|] eqn:K; [|discriminate]. inversion H; subst. now apply LrId with k.
  - inversion H; subst. constructor.
  - destruct (const_index i) as [c|] eqn:C; [|discriminate]. inversion H; subst. now constructor.
Qed.

Lemma lval_range_complete : forall E l x lo hi, NoDup (map fst E) -> lrange E l x lo hi -> lval_range E l = Some (x, lo, hi).
Proof.
  intros E l x lo hi ND H. destruct H as [y k w HI K|y h l0|y i c C]; simpl.
  - rewrite (In_assoc _ _ _ _ ND HI), K. reflexivity.
  - reflexivity.
  - now rewrite C.
Qed.

Lemma occs_sound : forall d m i j x lo hi, In (i, j, x, lo, hi) (occs d m) -> drives d m i j x lo hi.
Proof.
  unfold occs. intros d m i j x lo hi H. apply in_flat_map in H as [[i0 it] [H1 H2]].
  apply enum_from_0 in H1. destruct it as [| | | |l e| | |mn params iname conns]; simpl in H2; try contradiction.
  - destruct (lval_range (decls m) l) as [[[x0 lo0] hi0]|] eqn:R; [|contradiction].
    destruct H2 as [H2|[]]. inversion H2; subst. apply lval_range_sound in R. now apply DrAssign with l e.
  - destruct (find_module d mn) as [c|] eqn:F; [|contradiction]. apply find_module_some in F.
    apply in_flat_map in H2 as [[j0 [p e]] [H3 H4]]. apply enum_from_0 in H3.
    destruct e as [y| | | | | | | | | |]; try contradiction.
    destruct (find_port c p) as [q|] eqn:FP; [|contradiction]. apply find_port_some in FP as [FP1 FP2].
    destruct (dir_eqb (p_dir q) DIn) eqn:Dq; [contradiction|].
    destruct H4 as [H4|[]]. inversion H4; subst.
    eapply DrInst; eauto. intros Hd. apply dir_eqb_eq in Hd. congruence.
Qed.

Lemma occs_complete : forall d m i j x lo hi,
  NoDup (map m_name d) -> (forall c, In c d -> NoDup (map p_name (m_ports c))) -> NoDup (map fst (decls m)) ->
  drives d m i j x lo hi -> In (i, j, x, lo, hi) (occs d m).
Proof.
  unfold occs. intros d m i j x lo hi NDd NDp NDm H.
  destruct H as [i l e x lo hi Hn Hr|i j mn params iname conns p x c q Hn Hc [Hd1 Hd2] Hq Hp Hdir].
  - apply in_flat_map. exists (i, IAssign l e). split; [now apply enum_from_0|].
    simpl. rewrite (lval_range_complete _ _ _ _ _ NDm Hr). now left.
  - apply in_flat_map. exists (i, IInst mn params iname conns). split; [now apply enum_from_0|].
    simpl. subst mn. rewrite (find_module_unique _ _ NDd Hd1).
    apply in_flat_map. exists (j, (p, EId x)). split; [now apply enum_from_0|].
    subst p. rewrite (find_port_unique _ _ (NDp _ Hd1) Hq).
    destruct (dir_eqb (p_dir q) DIn) eqn:Dq; [apply dir_eqb_eq in Dq; contradiction|]. now left.
Qed.

Lemma one_driver_sound : forall os a b, one_driver os = true -> In a os -> In b os -> occ_compat a b = true.
Proof.
  unfold one_driver. intros os a b H Ha Hb. rewrite forallb_forall in H. specialize (H _ Ha).
  rewrite forallb_forall in H. exact (H _ Hb).
Qed.

Lemma ext_conn_names_sound : forall ext d m x, mem_str x (ext_conn_names ext d m) = true -> ext_connected ext m x.
Proof.
  unfold ext_conn_names, ext_connected. intros ext d m x H. apply mem_str_In in H.
  apply in_flat_map in H as [it [H1 H2]].
  destruct it as [| | | | | | |mn params iname conns]; try contradiction.
  destruct (mem_str mn ext) eqn:M; [|contradiction]. apply mem_str_In in M.
  apply in_flat_map in H2 as [[p e] [H3 H4]]. simpl in H4.
  destruct e as [y| | | | | | | | | |]; try contradiction. destruct H4 as [->|[]].
  exists mn, params, iname, conns, p. auto.
Qed.

Lemma always_targets_complete : forall m i ev s,
  nth_error (m_items m) i = Some (IAlways ev s) -> In (i, stmt_targets s) (always_targets m).
Proof.
  unfold always_targets. intros m i ev s H. apply in_flat_map. exists (i, IAlways ev s).
  split; [now apply enum_from_0|]. simpl. now left.
Qed.

(* ---------------------------------------------------------------- one module *)
Lemma wf_module_sound : forall ext d m,
  NoDup (map m_name d) -> (forall c, In c d -> NoDup (map p_name (m_ports c))) ->
  wf_module ext d m = true -> WFm ext d m.
Proof.
  intros ext d m NDd NDp H. unfold wf_module in H.
  repeat (apply Bool.andb_true_iff in H as [H ?Hc]).
  rename H into H1. (* nodup *)
  apply nodup_str_NoDup in H1.
  rewrite forallb_forall in Hc4.
  constructor.
  - exact H1.
  - intros x Hx HR. specialize (Hc4 _ Hx). apply mem_str_In in HR. rewrite HR in Hc4. discriminate.
  - unfold wf_ports in Hc3. rewrite forallb_forall in Hc3. intros p Hp. specialize (Hc3 _ Hp).
    apply Bool.andb_true_iff in Hc3 as [G1 G2]. split; [lia|].
    intros Hr. rewrite Hr in G2. simpl in G2. now apply dir_eqb_eq.
  - rewrite forallb_forall in Hc2. intros it Hit. apply wf_item_sound. exact (Hc2 _ Hit).
  - intros i j i' j' x lo hi lo' hi' D1 D2 Hne.
    apply (occs_complete _ _ _ _ _ _ _ NDd NDp H1) in D1.
    apply (occs_complete _ _ _ _ _ _ _ NDd NDp H1) in D2.
    pose proof (one_driver_sound _ _ _ Hc1 D1 D2) as C. simpl in C.
    rewrite String.eqb_refl in C. cbn [negb] in C. rewrite Bool.orb_false_r in C.
    apply Bool.orb_true_iff in C as [C|C]; [|lia].
    apply Bool.orb_true_iff in C as [C|C]; [|lia].
    apply Bool.andb_true_iff in C as [C1 C2]. apply Nat.eqb_eq in C1, C2. subst. now contradiction Hne.
  - rewrite forallb_forall in Hc0. intros x k w b Hx Hm Hk Hb. specialize (Hc0 _ Hx). simpl in Hc0.
    rewrite Hm, Hk in Hc0. apply Bool.orb_true_iff in Hc0 as [G|G].
    + right. eapply ext_conn_names_sound. exact G.
    + left. rewrite forallb_forall in G.
      assert (Hin : In b (zrange 0 (Z.to_nat w))) by (apply zrange_In; lia).
      specialize (G _ Hin). apply existsb_exists in G as [[[[[i j] x'] lo] hi] [G1 G2]].
      simpl in G2. apply Bool.andb_true_iff in G2 as [G23 G4]. apply Bool.andb_true_iff in G23 as [G2 G3].
      apply String.eqb_eq in G2. subst x'.
      exists i, j, lo, hi. split; [now apply occs_sound|lia].
  - intros i i' ev s ev' s' x N1 N2 Hne X1 X2.
    apply always_targets_complete in N1, N2. unfold one_process in Hc.
    rewrite forallb_forall in Hc. specialize (Hc _ N1). rewrite forallb_forall in Hc. specialize (Hc _ N2).
    simpl in Hc. apply Bool.orb_true_iff in Hc as [G|G]; [apply Nat.eqb_eq in G; contradiction|].
    rewrite forallb_forall in G. specialize (G _ X1).
    apply Bool.orb_true_iff in G as [G|G].
    + apply mem_str_In in X2. rewrite X2 in G. discriminate.
    + unfold is_mem in G. destruct (assoc (decls m) x) as [k|] eqn:A; [|discriminate].
      destruct k; try discriminate. apply assoc_In in A. eauto.
Qed.

(* ---------------------------------------------------------------- hierarchy *)
Lemma inst_names_In : forall its mn params iname conns, In (IInst mn params iname conns) its -> In mn (inst_names its).
Proof.
  induction its as [|it t IH]; simpl; intros mn params iname conns H; [contradiction|].
  destruct H as [->|H]; [now left|].
  specialize (IH _ _ _ _ H). destruct it; auto. now right.
Qed.

Lemma check_rank_sound : forall d tbl, check_rank d tbl = true ->
  (forall m, In m d -> (rank_of tbl (m_name m) <= length d)%nat) /\
  (forall m mn params iname conns c, In m d -> In (IInst mn params iname conns) (m_items m) -> defines d mn c ->
                                     (rank_of tbl mn < rank_of tbl (m_name m))%nat).
Proof.
  unfold check_rank. intros d tbl H. rewrite forallb_forall in H. split.
  - intros m Hm. specialize (H _ Hm). unfold rank_of. destruct (assoc tbl (m_name m)) as [r|]; [|discriminate].
    apply Bool.andb_true_iff in H as [H _]. now apply Nat.leb_le.
  - intros m mn params iname conns c Hm Hi [Hc1 Hc2]. specialize (H _ Hm).
    unfold rank_of at 2. destruct (assoc tbl (m_name m)) as [r|]; [|discriminate].
    apply Bool.andb_true_iff in H as [_ H]. rewrite forallb_forall in H.
    specialize (H _ (inst_names_In _ _ _ _ _ Hi)).
    destruct (find_module_defined _ _ Hc1) as [c' F]. rewrite Hc2 in F. rewrite F in H. now apply Nat.ltb_lt.
Qed.

(* ---------------------------------------------------------------- the design *)
Theorem wf_design_sound : forall ext d, wf_design ext d = true -> WF ext d.
Proof.
  intros ext d H. unfold wf_design in H.
  repeat (apply Bool.andb_true_iff in H as [H ?Hc]).
  apply nodup_str_NoDup in H. rewrite forallb_forall in Hc0, Hc1.
  assert (NDp : forall c, In c d -> NoDup (map p_name (m_ports c))).
  { intros c Hc'. specialize (Hc0 _ Hc'). unfold wf_module in Hc0.
    repeat (apply Bool.andb_true_iff in Hc0 as [Hc0 ?G]). apply nodup_str_NoDup in Hc0. now apply decls_ports_NoDup. }
  constructor.
  - exact H.
  - intros m Hm HI. specialize (Hc1 _ Hm). apply mem_str_In in HI. rewrite HI in Hc1. discriminate.
  - intros m Hm. apply wf_module_sound; auto.
  - exists (rank_of (rank_table d)). now apply check_rank_sound.
Qed.
