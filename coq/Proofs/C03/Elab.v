(* C03 — a well-formed design in the fragment Model/VSem.v supports elaborates (flattening never fails):
   WF [] d -> vsem_fragment d -> In m d -> elab_fuel d <= fuel -> exists f, elaborate d fuel (m_name m) = inr f. *)
From Coq Require Import Lia.
From V Require Import Model.VSyntax Model.VSem Spec.C03 Model.VWf Proofs.C03.Sound.
Local Open Scope string_scope.
Local Open Scope list_scope.
Local Open Scope Z_scope.

(* ---------------------------------------------------------------- scopes *)
Definition binds (sc : scope) (x : string) (w : Z) : Prop := exists i sg, lookup sc x = Some (BNet i w sg).

Definition scope_ok (E : env) (sc : scope) : Prop :=
  forall x k w, In (x, k) E -> kwidth k = Some w -> binds sc x w.

(* a declared memory is bound to its block of word nets *)
Definition mem_ok (E : env) (sc : scope) : Prop :=
  forall x w dp, In (x, KMem w dp) E -> exists base, lookup sc x = Some (BMem base w (Z.to_nat dp)).

(* no parameters; every memory has at least one word *)
Definition plain_env (E : env) : Prop :=
  (forall x, ~ In (x, KParam) E) /\ (forall x w dp, In (x, KMem w dp) E -> 1 <= dp).

Lemma to_nat_S : forall dp, 1 <= dp -> exists n, Z.to_nat dp = S n.
Proof. intros dp H. exists (Z.to_nat dp - 1)%nat. lia. Qed.

Lemma readable_width : forall E x k, plain_env E -> In (x, k) E -> readable k = true -> exists w, kwidth k = Some w.
Proof.
  intros E x k [P1 P2] HI R. destruct k; simpl in *; try discriminate; eauto.
  exfalso. exact (P1 _ HI).
Qed.

Lemma target_width : forall proc k, target_kind proc k = true -> exists w, kwidth k = Some w.
Proof.
  intros [|] k; unfold target_kind; destruct k as [|dd rr w|w|w| |w dp|]; simpl; intros H; try discriminate; eauto.
Qed.

(* ---------------------------------------------------------------- resolution never fails *)
Lemma res_expr_total : forall E sc e, plain_env E -> scope_ok E sc -> mem_ok E sc -> expr_ok E e -> exists r, res_expr sc e = Some r.
Proof.
  intros E sc e PE SO MO H. induction H as [x k HI R|n|w n Hw|x k w i HI K Hw Hi IHi Hc|x w dp i HI Hi IHi Hc|x k w hi lo HI K|o a Ha IHa|
                                       o a b Ha IHa Hb IHb|c a b Hc IHc Ha IHa Hb IHb|a b Ha IHa Hb IHb|n a Hn Ha IHa|a Ha IHa]; simpl.
  - destruct (readable_width _ _ _ PE HI R) as [w K]. destruct (SO _ _ _ HI K) as (i & sg & L). rewrite L. eauto.
  - eauto.
  - eauto.
  - destruct (SO _ _ _ HI K) as (j & sg & L). rewrite L. destruct IHi as [i' ->]. eauto.
  - destruct (MO _ _ _ HI) as [base L]. rewrite L. destruct IHi as [i' ->].
    destruct (to_nat_S dp (proj2 PE _ _ _ HI)) as [n ->]. eauto.
  - destruct (SO _ _ _ HI K) as (j & sg & L). rewrite L. eauto.
  - destruct IHa as [a' ->]. simpl. eauto.
  - destruct IHa as [a' ->]. destruct IHb as [b' ->]. eauto.
  - destruct IHc as [c' ->]. destruct IHa as [a' ->]. destruct IHb as [b' ->]. eauto.
  - destruct IHa as [a' ->]. destruct IHb as [b' ->]. eauto.
  - destruct IHa as [a' ->]. simpl. eauto.
  - destruct IHa as [a' ->]. simpl. eauto.
Qed.

(* an l-value resolves to a net target, or (procedural code only) it is a memory word and the write resolves to the word-select chain *)
Lemma res_lval_total : forall E sc proc l, plain_env E -> scope_ok E sc -> mem_ok E sc -> lval_ok E proc l ->
  (exists r, res_lval sc l = Some r) \/
  (proc = true /\ res_lval sc l = None /\ forall nb e', exists r, res_mem_write sc nb l e' = Some r).
Proof.
  intros E sc proc l PE SO MO H. destruct H as [x k HI T|x k w hi lo HI T K|x k w i HI T K Hw Hi Hc Hp|x w dp i Hp HI Hi Hc]; simpl.
  - left. destruct (target_width _ _ T) as [w K]. destruct (SO _ _ _ HI K) as (j & sg & L). rewrite L. eauto.
  - left. destruct (SO _ _ _ HI K) as (j & sg & L). rewrite L. eauto.
  - left. destruct (SO _ _ _ HI K) as (j & sg & L). rewrite L.
    destruct (res_expr_total _ _ _ PE SO MO Hi) as [i' ->]. eauto.
  - right. destruct (MO _ _ _ HI) as [base L]. rewrite L.
    destruct (res_expr_total _ _ _ PE SO MO Hi) as [i' ->]. repeat split; eauto.
Qed.

Lemma res_stmt_total : forall E sc s, plain_env E -> scope_ok E sc -> mem_ok E sc -> stmt_ok E s -> exists r, res_stmt sc s = Some r.
Proof.
  intros E sc s PE SO MO H. induction H as [|a b Ha IHa Hb IHb|c t e Hc Ht IHt He IHe|l e Hl He|l e Hl He]; simpl.
  - eauto.
  - destruct IHa as [a' ->]. destruct IHb as [b' ->]. eauto.
  - destruct (res_expr_total _ _ _ PE SO MO Hc) as [c' ->]. destruct IHt as [t' ->]. destruct IHe as [e' ->]. eauto.
  - destruct (res_expr_total _ _ _ PE SO MO He) as [e' ->].
    destruct (res_lval_total _ _ _ _ PE SO MO Hl) as [[l' ->]|(_ & -> & W)]; [eauto|apply W].
  - destruct (res_expr_total _ _ _ PE SO MO He) as [e' ->].
    destruct (res_lval_total _ _ _ _ PE SO MO Hl) as [[l' ->]|(_ & -> & W)]; [eauto|apply W].
Qed.

(* ---------------------------------------------------------------- building scopes *)
Lemma lookup_cons : forall sc x y b, lookup ((y, b) :: sc) x = if String.eqb x y then Some b else lookup sc x.
Proof. reflexivity. Qed.

Lemma lookup_cons_ne : forall sc x y b, x <> y -> lookup ((y, b) :: sc) x = lookup sc x.
Proof. intros. rewrite lookup_cons. destruct (String.eqb x y) eqn:E; [apply String.eqb_eq in E; contradiction|reflexivity]. Qed.

Lemma lookup_cons_eq : forall sc x b, lookup ((x, b) :: sc) x = Some b.
Proof. intros. now rewrite lookup_cons, String.eqb_refl. Qed.

Definition decl_names (items : list item) : list string := map fst (flat_map item_decl items).

Lemma declare_spec : forall items prefix sc acc sc' acc',
  declare prefix items sc acc = (sc', acc') ->
  (forall x, ~ In x (decl_names items) -> lookup sc' x = lookup sc x) /\
  (NoDup (decl_names items) -> forall x k w, In (x, k) (flat_map item_decl items) -> kwidth k = Some w -> binds sc' x w) /\
  (NoDup (decl_names items) -> forall x w dp, In (x, KMem w dp) (flat_map item_decl items) ->
                               exists base, lookup sc' x = Some (BMem base w (Z.to_nat dp))).
Proof.
  induction items as [|it t IH]; intros prefix sc acc sc' acc' H.
  - simpl in H. inversion H; subst. split; [reflexivity|]. split; [intros _ x k w []|intros _ x w dp []].
  - destruct acc as [[nets asg] procs].
    destruct it as [x w|x w init|x|x w dp|l e|ev s|s|mn params iname conns]; simpl in H;
      try (specialize (IH _ _ _ _ _ H); exact IH).
    (* IWire, IReg, IInteger, IMem (bound to its block of word nets), IInst (declares a name, binds nothing) *)
    all: apply IH in H as (H1 & H2 & H3); split; [|split].
    all: try (intros y Hy; unfold decl_names in Hy; simpl in Hy;
              first [ rewrite H1 by tauto; apply lookup_cons_ne; intros ->; tauto | apply H1; tauto ]).
    all: try (intros ND y k w' Hy K; unfold decl_names in ND; simpl in ND, Hy; inversion ND as [|? ? Hn ND']; subst;
              destruct Hy as [Hy|Hy]; [|exact (H2 ND' _ _ _ Hy K)];
              inversion Hy; subst; simpl in K; inversion K; subst; red; rewrite (H1 _ Hn), lookup_cons_eq; eauto).
    all: intros ND y w' dp' Hy; unfold decl_names in ND; simpl in ND, Hy; inversion ND as [|? ? Hn ND']; subst;
         (destruct Hy as [Hy|Hy]; [|exact (H3 ND' _ _ _ Hy)]); inversion Hy; subst; rewrite (H1 _ Hn), lookup_cons_eq; eauto.
Qed.

Lemma top_ports_spec : forall ports sc acc sc' acc',
  top_ports ports sc acc = (sc', acc') ->
  (forall x, ~ In x (map p_name ports) -> lookup sc' x = lookup sc x) /\
  (NoDup (map p_name ports) -> forall p, In p ports -> binds sc' (p_name p) (p_width p)).
Proof.
  induction ports as [|p t IH]; intros sc acc sc' acc' H.
  - simpl in H. inversion H; subst. split; [reflexivity|]. intros _ p [].
  - destruct acc as [[nets asg] procs]. simpl in H. apply IH in H as [H1 H2]. split.
    + intros x Hx. simpl in Hx. rewrite H1 by tauto. apply lookup_cons_ne. intros ->. tauto.
    + intros ND q Hq. simpl in ND. inversion ND as [|? ? Hn ND']; subst. destruct Hq as [->|Hq].
      * red. rewrite (H1 _ Hn), lookup_cons_eq. eauto.
      * exact (H2 ND' _ Hq).
Qed.

Lemma bind_ports_spec : forall iname conns parent ports child child',
  bind_ports iname ports conns parent child = inr child' ->
  (forall x, ~ In x (map p_name ports) -> lookup child' x = lookup child x) /\
  (NoDup (map p_name ports) -> forall p, In p ports -> binds child' (p_name p) (p_width p)).
Proof.
  intros iname conns parent. induction ports as [|p t IH]; intros child child' H.
  - simpl in H. inversion H; subst. split; [reflexivity|]. intros _ p [].
  - simpl in H.
    destruct (find (fun c : string * expr => String.eqb (fst c) (p_name p)) conns) as [[s e]|]; [|discriminate].
    destruct e as [x| | | | | | | | | |]; try discriminate.
    destruct (lookup parent x) as [[i w sg|v|mb mw md]|]; try discriminate.
    destruct (w =? p_width p) eqn:W; [|discriminate]. apply Z.eqb_eq in W. subst w.
    apply IH in H as [H1 H2]. split.
    + intros y Hy. simpl in Hy. rewrite H1 by tauto. apply lookup_cons_ne. intros ->. tauto.
    + intros ND q Hq. simpl in ND. inversion ND as [|? ? Hn ND']; subst. destruct Hq as [->|Hq].
      * red. rewrite (H1 _ Hn), lookup_cons_eq. eauto.
      * exact (H2 ND' _ Hq).
Qed.

Lemma bind_ports_total : forall iname conns parent ports child,
  (forall p, In p ports -> exists s x, find (fun c : string * expr => String.eqb (fst c) (p_name p)) conns = Some (s, EId x) /\
                                       binds parent x (p_width p)) ->
  exists child', bind_ports iname ports conns parent child = inr child'.
Proof.
  intros iname conns parent. induction ports as [|p t IH]; intros child H; simpl.
  - eauto.
  - destruct (H p (or_introl eq_refl)) as (s & x & F & (i & sg & L)). rewrite F, L, Z.eqb_refl.
    apply IH. intros q Hq. apply H. now right.
Qed.

(* ---------------------------------------------------------------- the main induction *)
Lemma NoDup_app_disj : forall (A : Type) (a b : list A) x, NoDup (a ++ b) -> In x a -> ~ In x b.
Proof.
  induction a as [|y t IH]; simpl; intros b x ND Hx; [contradiction|].
  inversion ND as [|? ? Hn ND']; subst. destruct Hx as [->|Hx].
  - intros Hb. apply Hn. apply in_or_app. now right.
  - now apply IH.
Qed.

Lemma max_items_ge : forall d m, In m d -> (length (m_items m) <= max_items d)%nat.
Proof.
  induction d as [|a t IH]; simpl; intros m H; [contradiction|].
  destruct H as [->|H]; [lia|]. specialize (IH _ H). lia.
Qed.

Section Total.
Variable d : design.
Hypothesis HWF : WF [] d.
Hypothesis HF : vsem_fragment d.

Lemma decls_nodup : forall m, In m d -> NoDup (map fst (decls m)).
Proof. intros m Hm. exact (wfm_nodup _ _ _ (wf_modules _ _ HWF _ Hm)). Qed.

Lemma decls_shape : forall m, In m d ->
  decls m = map (fun p => (p_name p, KPort (p_dir p) (p_reg p) (p_width p))) (m_ports m) ++ flat_map item_decl (m_items m).
Proof. intros m Hm. unfold decls. destruct (HF _ Hm) as [-> _]. reflexivity. Qed.

Lemma plain_env_decls : forall m, In m d -> plain_env (decls m).
Proof.
  intros m Hm. rewrite (decls_shape _ Hm). destruct (HF _ Hm) as [_ Hit]. split.
  - intros x HI. apply in_app_or in HI as [HI|HI].
    + apply in_map_iff in HI as (p & Hp & _). discriminate.
    + apply in_flat_map in HI as (it & H1 & H2). destruct it; simpl in H2; try contradiction; destruct H2 as [H2|[]]; discriminate.
  - intros x w dp HI. apply in_app_or in HI as [HI|HI].
    + apply in_map_iff in HI as (p & Hp & _). discriminate.
    + apply in_flat_map in HI as (it & H1 & H2).
      pose proof (wfm_items _ _ _ (wf_modules _ _ HWF _ Hm) _ H1) as Hok.
      destruct it; simpl in H2; try contradiction; destruct H2 as [H2|[]]; try discriminate.
      inversion H2; subst. inversion Hok; subst. assumption.
Qed.

Lemma scope_ok_build : forall m sc0 sc prefix acc0 acc,
  In m d -> (forall x, ~ In x (map p_name (m_ports m)) -> lookup sc0 x = None \/ True) ->
  (forall p, In p (m_ports m) -> binds sc0 (p_name p) (p_width p)) ->
  declare prefix (m_items m) sc0 acc0 = (sc, acc) -> scope_ok (decls m) sc /\ mem_ok (decls m) sc.
Proof.
  intros m sc0 sc prefix acc0 acc Hm _ Hports Hd.
  pose proof (decls_nodup _ Hm) as ND. rewrite (decls_shape _ Hm) in *. rewrite map_app in ND.
  apply declare_spec in Hd as (D1 & D2 & D3).
  split; [|intros x w dp HI; apply in_app_or in HI as [HI|HI];
           [apply in_map_iff in HI as (p & Hp & _); discriminate|apply NoDup_app_r in ND; exact (D3 ND _ _ _ HI)]].
  intros x k w HI K. apply in_app_or in HI as [HI|HI].
  - apply in_map_iff in HI as (p & Hp & Hin). inversion Hp; subst. simpl in K. inversion K; subst.
    destruct (Hports _ Hin) as (i & sg & L). red. rewrite D1; [eauto|].
    apply (NoDup_app_disj _ _ _ _ ND). apply in_map_iff. exists (p_name p, KPort (p_dir p) (p_reg p) (p_width p)).
    split; [reflexivity|]. apply in_map_iff. eauto.
  - apply NoDup_app_r in ND. exact (D2 ND _ _ _ HI K).
Qed.

Variable rank : string -> nat.
Hypothesis Hrank : forall m mn params iname conns c, In m d -> In (IInst mn params iname conns) (m_items m) -> defines d mn c ->
                                                      (rank mn < rank (m_name m))%nat.

Lemma conns_bind : forall m c mn params iname conns sc,
  In m d -> scope_ok (decls m) sc -> item_ok [] d (decls m) (IInst mn params iname conns) -> defines d mn c ->
  forall p, In p (m_ports c) -> exists s x, find (fun cc : string * expr => String.eqb (fst cc) (p_name p)) conns = Some (s, EId x) /\
                                            binds sc x (p_width p).
Proof.
  intros m c mn params iname conns sc Hm SO Hit [Hc1 Hc2] p Hp.
  inversion Hit as [| | | | | | |mn' params' iname' conns' c' Hdef NDc NDp Hpar Hconn Hall|mn' params' iname' conns' Hext]; subst; [|contradiction].
  destruct Hdef as [Hd1 Hd2].
  assert (c' = c).
  { pose proof (find_module_unique _ _ (wf_names _ _ HWF) Hd1) as F1.
    pose proof (find_module_unique _ _ (wf_names _ _ HWF) Hc1) as F2. rewrite Hd2 in F1. rewrite F1 in F2. now inversion F2. }
  subst c'.
  specialize (Hall _ Hp). apply in_map_iff in Hall as ([s e] & Hs & Hin). simpl in Hs.
  destruct (find (fun cc : string * expr => String.eqb (fst cc) (p_name p)) conns) as [[s' e']|] eqn:F.
  - apply find_some in F as [F1 F2]. simpl in F2. apply String.eqb_eq in F2.
    destruct (Hconn _ _ F1) as (q & Hq & Hqn & (x & k & He & HI & K & _)).
    assert (q = p).
    { pose proof (find_port_unique _ _ (decls_ports_NoDup _ (decls_nodup _ Hc1)) Hq) as G1.
      pose proof (find_port_unique _ _ (decls_ports_NoDup _ (decls_nodup _ Hc1)) Hp) as G2.
      rewrite Hqn, F2 in G1. rewrite G1 in G2. now inversion G2. }
    subst q e'. exists s', x. split; [reflexivity|]. exact (SO _ _ _ HI K).
  - exfalso. apply (find_none _ _ F) in Hin. simpl in Hin. rewrite Hs, String.eqb_refl in Hin. discriminate.
Qed.

Lemma elab_items_total : forall r m, In m d -> (rank (m_name m) <= r)%nat ->
  forall its, (forall it, In it its -> In it (m_items m)) ->
  forall fuel prefix sc acc, scope_ok (decls m) sc -> mem_ok (decls m) sc -> (S (length its) + r * S (max_items d) <= fuel)%nat ->
  exists acc', elab_items d fuel prefix its sc acc = inr acc'.
Proof.
  induction r as [|r IHr]; intros m Hm Hr; (induction its as [|it t IHt]; intros Hsub fuel prefix sc acc SO MO Hfuel;
    [destruct fuel as [|f]; [simpl in Hfuel; lia|]; simpl; eauto|]).
  all: destruct fuel as [|f]; [simpl in Hfuel; lia|].
  all: pose proof (plain_env_decls _ Hm) as PE.
  all: pose proof (wfm_items _ _ _ (wf_modules _ _ HWF _ Hm) _ (Hsub _ (or_introl eq_refl))) as Hok.
  all: pose proof (proj2 (HF _ Hm) _ (Hsub _ (or_introl eq_refl))) as Hfr.
  all: assert (Hsub' : forall it', In it' t -> In it' (m_items m)) by (intros; apply Hsub; now right).
  all: assert (Hf' : (S (length t) + (S (max_items d) * 0) <= f)%nat) by (simpl in Hfuel; lia).
  all: destruct acc as [[nets asg] procs].
  all: destruct it as [x w|x w init|x|x w dp|l e|ev s|s|mn params iname conns]; cbn [elab_items].
  all: try (apply IHt; [exact Hsub'|exact SO|exact MO|simpl in Hfuel; lia]).
  all: try (simpl in Hfr; contradiction).
  (* the remaining goals come in pairs: r = 0 and r = S r *)
  all: try (inversion Hok as [| | | |l' e' Hl He| | | |]; subst;
            destruct (res_lval_total _ _ _ _ PE SO MO Hl) as [[l1 ->]|(Hpf & _)]; [|discriminate]; destruct (res_expr_total _ _ _ PE SO MO He) as [e1 ->];
            apply IHt; [exact Hsub'|exact SO|exact MO|simpl in Hfuel; lia]).
  all: try (inversion Hok as [| | | | | |s' Hs| |]; subst;
            destruct (res_stmt_total _ _ _ PE SO MO Hs) as [s1 ->];
            apply IHt; [exact Hsub'|exact SO|exact MO|simpl in Hfuel; lia]).
  all: try (inversion Hok as [| | | | |ev' s' Hev Hs| | |]; subst;
            destruct (res_stmt_total _ _ _ PE SO MO Hs) as [s1 ->];
            destruct ev as [c|c|]; [|simpl in Hfr; contradiction|apply IHt; [exact Hsub'|exact SO|exact MO|simpl in Hfuel; lia]];
            inversion Hev as [|c' k HI K|]; subst; destruct (SO _ _ _ HI K) as (i & sg & L); rewrite L;
            apply IHt; [exact Hsub'|exact SO|exact MO|simpl in Hfuel; lia]).
  - (* instance, r = 0: impossible *)
    exfalso. inversion Hok as [| | | | | | |mn' params' iname' conns' c Hdef _ _ _ _ _|mn' params' iname' conns' Hext]; subst; [|contradiction].
    pose proof (Hrank _ _ _ _ _ _ Hm (Hsub _ (or_introl eq_refl)) Hdef). lia.
  - (* instance, r = S r *)
    assert (Hdef : exists c, defines d mn c).
    { inversion Hok as [| | | | | | |mn' params' iname' conns' c Hdef _ _ _ _ _|mn' params' iname' conns' Hext]; subst; [eauto|contradiction]. }
    destruct Hdef as [c Hdef]. pose proof Hdef as [Hc1 Hc2].
    pose proof (find_module_unique _ _ (wf_names _ _ HWF) Hc1) as F. rewrite Hc2 in F. rewrite F.
    destruct (bind_ports_total iname conns sc (m_ports c) [] (conns_bind _ _ _ _ _ _ _ Hm SO Hok Hdef)) as [csc0 B].
    rewrite B. simpl in Hfr. subst params. cbn [fold_left].
    destruct (declare (String.append prefix (String.append iname ".")) (m_items c) csc0 (nets, asg, procs)) as [csc acc1] eqn:Dc.
    assert (SOc : scope_ok (decls c) csc /\ mem_ok (decls c) csc).
    { eapply scope_ok_build with (sc0 := csc0); [exact Hc1|auto| |exact Dc].
      apply (proj2 (bind_ports_spec _ _ _ _ _ _ B)). apply decls_ports_NoDup. now apply decls_nodup. }
    assert (Hrc : (rank (m_name c) <= r)%nat).
    { pose proof (Hrank _ _ _ _ _ _ Hm (Hsub _ (or_introl eq_refl)) Hdef). rewrite Hc2. lia. }
    pose proof (max_items_ge _ _ Hc1) as Hmax.
    destruct (IHr c Hc1 Hrc (m_items c) (fun it H => H) f (String.append prefix (String.append iname ".")) csc acc1 (proj1 SOc) (proj2 SOc)) as [acc2 E2].
    { simpl in Hfuel. lia. }
    rewrite E2. apply IHt; [exact Hsub'|exact SO|exact MO|simpl in Hfuel; lia].
Qed.

End Total.

(* ---------------------------------------------------------------- every module of a well-formed design elaborates *)
Theorem elab_total : forall d, WF [] d -> vsem_fragment d ->
  forall m, In m d -> forall fuel, (elab_fuel d <= fuel)%nat -> exists f, elaborate d fuel (m_name m) = inr f.
Proof.
  intros d HWF HF m Hm fuel Hfuel.
  destruct (wf_acyclic _ _ HWF) as (rank & Hbound & Hdec).
  unfold elaborate. rewrite (find_module_unique _ _ (wf_names _ _ HWF) Hm).
  destruct (top_ports (m_ports m) [] ([], [], [])) as [sc0 acc0] eqn:TP.
  destruct (declare "" (m_items m) sc0 acc0) as [sc acc1] eqn:Dc.
  assert (SO : scope_ok (decls m) sc /\ mem_ok (decls m) sc).
  { eapply scope_ok_build with (sc0 := sc0); [exact HWF|exact HF|exact Hm|auto| |exact Dc].
    apply (proj2 (top_ports_spec _ _ _ _ _ TP)). apply decls_ports_NoDup. now apply (decls_nodup d HWF). }
  pose proof (max_items_ge _ _ Hm) as Hmax.
  destruct (elab_items_total d HWF HF rank Hdec (length d) m Hm (Hbound _ Hm) (m_items m) (fun it H => H) fuel "" sc acc1 (proj1 SO) (proj2 SO)) as [[[nets asg] procs] E].
  { unfold elab_fuel in Hfuel. simpl in Hfuel. lia. }
  rewrite E. eauto.
Qed.

(* the checker's verdict is enough *)
Corollary elab_total_checked : forall d, wf_design [] d = true -> vsem_fragment d ->
  forall m, In m d -> forall fuel, (elab_fuel d <= fuel)%nat -> exists f, elaborate d fuel (m_name m) = inr f.
Proof. intros d H. apply elab_total. now apply wf_design_sound. Qed.
