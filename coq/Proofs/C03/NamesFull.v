(* C03 — the naming model for the WHOLE name space of a module: implicit clock port, ports, local wires, instances
   (Model/Naming.v emitted_names_full).  Injectivity and keyword-freedom (w.r.t. Spec.C03.reserved, IEEE 1364-2005 Annex B)
   under explicit guards, and one collision witness per guard that is dropped. *)
From V Require Import Model.VSyntax Model.VWf Spec.C03 Model.Naming Proofs.C03.Sound Proofs.C03.Names.
Local Open Scope string_scope.
Local Open Scope list_scope.

Lemma not_prefixed : forall p n s, has_prefix p n = false -> n <> String.append p s.
Proof. intros p n s H E. rewrite E, prefix_append in H. discriminate. Qed.

Lemma in_valid_name : forall kw ports x, In x (map (port_name kw) ports) ->
  exists p, In p ports /\ ((mem_str p kw = true /\ x = String.append "reserved_" p) \/ (mem_str p kw = false /\ x = p)).
Proof.
  intros kw ports x Hx. apply in_map_iff in Hx as (p & Hp & Hin). exists p. split; [exact Hin|].
  unfold port_name in Hp. destruct (valid_name_cases kw p) as [[M V]|[M V]]; rewrite V in Hp; [left|right]; auto.
Qed.

Theorem names_injective_full : forall (kw : list string) (clk : option string) (ports locals insts : list string),
  kw_ok_full kw -> incl reserved kw ->
  NoDup ports -> NoDup locals -> NoDup insts ->
  (forall p, In p ports -> no_gen_prefix p) ->
  (forall c, clk = Some c -> no_gen_prefix c /\ ~ In c ports /\ ~ In c kw) ->
  NoDup (emitted_names_full kw clk ports locals insts) /\
  (forall x, In x (emitted_names_full kw clk ports locals insts) -> ~ In x kw /\ ~ In x reserved).
Proof.
  intros kw clk ports locals insts KW INCL NDp NDl NDi G GC.
  assert (KW0 : kw_ok kw). { intros k Hk. destruct (KW k Hk) as (A & _ & B). split; assumption. }
  assert (G0 : forall p, In p ports -> has_prefix "w_" p = false /\ has_prefix "reserved_" p = false).
  { intros p Hp. destruct (G p Hp) as (A & _ & B). split; assumption. }
  destruct (names_injective kw ports locals KW0 NDp NDl G0) as [ND0 NK0].
  assert (NDrest : NoDup (emitted_names kw ports locals ++ map inst_name insts)).
  { apply NoDup_app_intro; [exact ND0| |].
    - apply NoDup_map_inj; [|exact NDi]. intros x y _ _ E. unfold inst_name in E. now apply append_inj in E.
    - intros x Hx Hi. apply in_map_iff in Hi as (n & Hn & _). subst x. unfold emitted_names in Hx.
      apply in_app_or in Hx as [Hx|Hx].
      + apply in_valid_name in Hx as (p & Hp & [[_ E]|[_ E]]).
        * unfold inst_name in E. simpl in E. discriminate.
        * destruct (G p Hp) as (_ & Gi & _). subst p. unfold inst_name in Gi. rewrite prefix_append in Gi. discriminate.
      + apply in_map_iff in Hx as (m & Hm & _). unfold local_name, inst_name in Hm. simpl in Hm. discriminate. }
  assert (NKrest : forall x, In x (emitted_names kw ports locals ++ map inst_name insts) -> ~ In x kw).
  { intros x Hx. apply in_app_or in Hx as [Hx|Hx]; [now apply NK0|].
    apply in_map_iff in Hx as (n & Hn & _). subst x. intros Hk. destruct (KW _ Hk) as (_ & Ki & _).
    unfold inst_name in Ki. rewrite prefix_append in Ki. discriminate. }
  unfold emitted_names_full. destruct clk as [c|]; simpl.
  - destruct (GC c eq_refl) as ((Cw & Ci & Cr) & Cp & Ck). split.
    + constructor; [|exact NDrest]. intros Hc. apply in_app_or in Hc as [Hc|Hc].
      * unfold emitted_names in Hc. apply in_app_or in Hc as [Hc|Hc].
        -- apply in_valid_name in Hc as (p & Hp & [[_ E]|[_ E]]).
           ++ exact (not_prefixed _ _ _ Cr E).
           ++ subst p. contradiction.
        -- apply in_map_iff in Hc as (m & Hm & _). unfold local_name in Hm. exact (not_prefixed _ _ _ Cw (eq_sym Hm)).
      * apply in_map_iff in Hc as (m & Hm & _). unfold inst_name in Hm. exact (not_prefixed _ _ _ Ci (eq_sym Hm)).
    + intros x [Hx|Hx].
      * subst x. split; [exact Ck|]. intros Hr. exact (Ck (INCL _ Hr)).
      * split; [now apply NKrest|]. intros Hr. exact (NKrest x Hx (INCL _ Hr)).
  - split; [exact NDrest|]. intros x Hx. split; [now apply NKrest|]. intros Hr. exact (NKrest x Hx (INCL _ Hr)).
Qed.

(* ---------------------------------------------------------------- the hypotheses are satisfiable (kw = the IEEE list itself) *)
Definition no_gen_prefixb (n : string) : bool :=
  negb (has_prefix "w_" n) && negb (has_prefix "i_" n) && negb (has_prefix "reserved_" n).

Lemma no_gen_prefixb_ok : forall n, no_gen_prefixb n = true -> no_gen_prefix n.
Proof.
  unfold no_gen_prefixb, no_gen_prefix. intros n H.
  destruct (has_prefix "w_" n), (has_prefix "i_" n), (has_prefix "reserved_" n); simpl in H; try discriminate; auto.
Qed.

Lemma all_no_gen_prefix : forall l, forallb no_gen_prefixb l = true -> forall k, In k l -> no_gen_prefix k.
Proof. intros l H k Hk. apply no_gen_prefixb_ok. rewrite forallb_forall in H. now apply H. Qed.

Lemma reserved_kw_ok_full : kw_ok_full reserved.
Proof. refine (all_no_gen_prefix _ _); vm_compute; reflexivity. Qed.

Lemma not_mem_str : forall x l, mem_str x l = false -> ~ In x l.
Proof. intros x l H HI. apply mem_str_In in HI. rewrite HI in H. discriminate. Qed.

Definition ex_ports := ["a"; "wire"; "r"; "design"].
Definition ex_locals := ["t"; "a"; "wire"].
Definition ex_insts := ["add"; "a"; "wire"; "t"].

Lemma ex_names_full_guards :
  kw_ok_full reserved /\ incl reserved reserved /\ NoDup ex_ports /\ NoDup ex_locals /\ NoDup ex_insts /\
  (forall p, In p ex_ports -> no_gen_prefix p) /\
  (forall c, Some "clk" = Some c -> no_gen_prefix c /\ ~ In c ex_ports /\ ~ In c reserved).
Proof.
  split; [exact reserved_kw_ok_full|]. split; [apply incl_refl|].
  split; [apply nodup_str_NoDup; vm_compute; reflexivity|].
  split; [apply nodup_str_NoDup; vm_compute; reflexivity|].
  split; [apply nodup_str_NoDup; vm_compute; reflexivity|].
  split; [refine (all_no_gen_prefix _ _); vm_compute; reflexivity|].
  intros c E. inversion E; subst c.
  split; [apply no_gen_prefixb_ok; vm_compute; reflexivity|].
  split; apply not_mem_str; vm_compute; reflexivity.
Qed.

(* what the model emits for that scope (two keyword ports renamed, every class of name present) *)
Lemma ex_names_full_value :
  emitted_names_full reserved (Some "clk") ex_ports ex_locals ex_insts =
  ["clk"; "a"; "reserved_wire"; "r"; "reserved_design"; "w_t"; "w_a"; "w_wire"; "i_add"; "i_a"; "i_wire"; "i_t"].
Proof. vm_compute. reflexivity. Qed.

(* ---------------------------------------------------------------- each guard is necessary: with kw = the IEEE list, pairwise distinct
   source names and every OTHER guard in force, dropping one guard gives a duplicate identifier *)
Lemma dup_refutes : forall l, nodup_str l = false -> ~ NoDup l.
Proof.
  induction l as [|x t IH]; simpl; intros H ND; [discriminate|].
  inversion ND as [|? ? Hn ND']; subst. apply Bool.andb_false_iff in H as [H|H].
  - apply Bool.negb_false_iff in H. apply mem_str_In in H. contradiction.
  - exact (IH H ND').
Qed.

(* (1) a port may start with `i_`:  port i_x + child instance x  (known finding i-prefix-collision) *)
Theorem names_full_refuted_i_prefix : exists clk ports locals insts,
  NoDup ports /\ NoDup locals /\ NoDup insts /\
  (forall p, In p ports -> has_prefix "w_" p = false /\ has_prefix "reserved_" p = false) /\
  (forall c, clk = Some c -> no_gen_prefix c /\ ~ In c ports /\ ~ In c reserved) /\
  ~ NoDup (emitted_names_full reserved clk ports locals insts).
Proof.
  exists (Some "clk"), ["i_x"; "a"], ["t"], ["x"].
  split; [apply nodup_str_NoDup; vm_compute; reflexivity|].
  split; [apply nodup_str_NoDup; vm_compute; reflexivity|].
  split; [apply nodup_str_NoDup; vm_compute; reflexivity|].
  split. { intros p [E|[E|[]]]; subst p; vm_compute; auto. }
  split. { intros c E. inversion E; subst c. split; [apply no_gen_prefixb_ok; vm_compute; reflexivity|].
           split; apply not_mem_str; vm_compute; reflexivity. }
  apply dup_refutes. vm_compute. reflexivity.
Qed.

(* (2) a port may be named like the implicit clock:  data port clk on a module with a register
       (known finding port-named-like-implicit-clock) *)
Theorem names_full_refuted_clock_port : exists clk ports locals insts,
  NoDup ports /\ NoDup locals /\ NoDup insts /\
  (forall p, In p ports -> no_gen_prefix p) /\
  (forall c, clk = Some c -> no_gen_prefix c /\ ~ In c reserved) /\
  ~ NoDup (emitted_names_full reserved clk ports locals insts).
Proof.
  exists (Some "clk"), ["clk"; "q"], [], ["r"].
  split; [apply nodup_str_NoDup; vm_compute; reflexivity|].
  split; [constructor|].
  split; [apply nodup_str_NoDup; vm_compute; reflexivity|].
  split; [refine (all_no_gen_prefix _ _); vm_compute; reflexivity|].
  split. { intros c E. inversion E; subst c. split; [apply no_gen_prefixb_ok; vm_compute; reflexivity|].
           apply not_mem_str; vm_compute; reflexivity. }
  apply dup_refutes. vm_compute. reflexivity.
Qed.

(* (3) a port may start with `reserved_`:  ports wire + reserved_wire  (known finding reserved-prefix-collision) *)
Theorem names_full_refuted_reserved_prefix : exists clk ports locals insts,
  NoDup ports /\ NoDup locals /\ NoDup insts /\
  (forall p, In p ports -> has_prefix "w_" p = false /\ has_prefix "i_" p = false) /\
  (forall c, clk = Some c -> no_gen_prefix c /\ ~ In c ports /\ ~ In c reserved) /\
  ~ NoDup (emitted_names_full reserved clk ports locals insts).
Proof.
  exists None, ["wire"; "reserved_wire"], [], [].
  split; [apply nodup_str_NoDup; vm_compute; reflexivity|].
  split; [constructor|]. split; [constructor|].
  split. { intros p [E|[E|[]]]; subst p; vm_compute; auto. }
  split; [intros c E; discriminate|].
  apply dup_refutes. vm_compute. reflexivity.
Qed.

(* (4) the clock name itself is guarded too: a clock driver called w_a next to a local wire a *)
Theorem names_full_refuted_clock_prefix : exists clk ports locals insts,
  NoDup ports /\ NoDup locals /\ NoDup insts /\
  (forall p, In p ports -> no_gen_prefix p) /\
  (forall c, clk = Some c -> ~ In c ports /\ ~ In c reserved) /\
  ~ NoDup (emitted_names_full reserved clk ports locals insts).
Proof.
  exists (Some "w_a"), ["d"], ["a"], [].
  split; [apply nodup_str_NoDup; vm_compute; reflexivity|].
  split; [apply nodup_str_NoDup; vm_compute; reflexivity|].
  split; [constructor|].
  split; [refine (all_no_gen_prefix _ _); vm_compute; reflexivity|].
  split. { intros c E. inversion E; subst c. split; apply not_mem_str; vm_compute; reflexivity. }
  apply dup_refutes. vm_compute. reflexivity.
Qed.

(* (5) `incl reserved kw` is needed for the second conclusion: with a list that lacks `uwire` (py4hw before d778f58) the
   port is emitted under the IEEE keyword *)
Theorem names_full_refuted_kw_incomplete : exists kw ports,
  kw_ok_full kw /\ NoDup ports /\ (forall p, In p ports -> no_gen_prefix p) /\
  exists x, In x (emitted_names_full kw None ports [] []) /\ In x reserved.
Proof.
  exists ["wire"], ["uwire"].
  split; [refine (all_no_gen_prefix _ _); vm_compute; reflexivity|].
  split; [apply nodup_str_NoDup; vm_compute; reflexivity|].
  split; [refine (all_no_gen_prefix _ _); vm_compute; reflexivity|].
  exists "uwire". split; [vm_compute; auto|]. apply mem_str_In. vm_compute. reflexivity.
Qed.
