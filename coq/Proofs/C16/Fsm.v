(* C16 extension: sequencing of the two control FSMs of vitiswrapping.py (REGENERATED clock() methods). *)
From V Require Import Base.Bits Gen.WireOps Gen.Helpers Gen.Prims Gen.Seq.
From V Require Import Spec.C16 Model.Axi Proofs.C16.Gates.

(* ------------------------------------------------------------------ VitisKernelFSM *)
Definition vk_legal (s : Z) : Prop := s = 0 \/ s = 1 \/ s = 2 \/ s = 3.

Lemma vk_sequence st start load sent :
  vk_legal (vk_state st) ->
  let '(st', o) := vk_step st start load sent in
  vk_legal (vk_state st') /\
  (vk_done o = Some 1 <-> vk_state st = 2 /\ sent = true) /\
  vk_state st' = vk_next (vk_state st) start load sent.
Proof.
  destruct st as [s]. unfold vk_legal, vk_state. cbn [VitisKernelFSM_s_state].
  intros [-> | [-> | [-> | ->]]]; destruct start, load, sent; vm_compute; intuition congruence.
Qed.

(* ap_done wire high <-> the FSM is in DONE; invariant over every schedule *)
Definition vk_inv (s : vk_sys) : Prop :=
  (vs_done s = 0 /\ (vk_state (vs_st s) = 0 \/ vk_state (vs_st s) = 1 \/ vk_state (vs_st s) = 2)) \/
  (vs_done s = 1 /\ vk_state (vs_st s) = 3).

Lemma vk_inv_step s i : vk_inv s -> vk_inv (vk_sys_step s i).
Proof.
  destruct s as [[st] d id rd]. destruct i as [[a b] c]. unfold vk_inv, vk_state.
  cbn [vs_done vs_st VitisKernelFSM_s_state].
  intros [[-> [-> | [-> | ->]]] | [-> ->]]; destruct a, b, c; vm_compute; intuition congruence.
Qed.

Lemma vk_inv_run ins : vk_inv (vk_sys_run ins).
Proof.
  unfold vk_sys_run. assert (H : vk_inv vk_sys0) by (left; vm_compute; auto).
  revert H. generalize vk_sys0. induction ins as [|i ins IH]; intros s H; cbn [fold_left]; [exact H|].
  apply IH, vk_inv_step, H.
Qed.

Lemma vk_run_snoc ins i : vk_sys_run (ins ++ [i]) = vk_sys_step (vk_sys_run ins) i.
Proof. unfold vk_sys_run. rewrite fold_left_app. reflexivity. Qed.

(* ap_done is a one-cycle pulse raised exactly by all_sent seen in OUTPUTS LOADED: for every schedule,
   done is high after a cycle iff before it the FSM was in state 2 and all_sent was high; and done high <-> state 3 *)
Lemma vk_done_pulse pre start load sent :
  let s := vk_sys_run pre in let s' := vk_sys_run (pre ++ [(start, load, sent)]) in
  (vs_done s' = 1 <-> vk_state (vs_st s) = 2 /\ sent = true) /\
  (vs_done s' = 1 <-> vk_state (vs_st s') = 3) /\ (vs_done s' = 0 \/ vs_done s' = 1).
Proof.
  cbv zeta. rewrite vk_run_snoc. pose proof (vk_inv_run pre) as H. revert H.
  generalize (vk_sys_run pre). intros [[st] d id rd]. unfold vk_inv, vk_state.
  cbn [vs_done vs_st VitisKernelFSM_s_state].
  intros [[-> [-> | [-> | ->]]] | [-> ->]]; destruct start, load, sent; vm_compute; intuition congruence.
Qed.

(* ------------------------------------------------------------------ Axi2ClkFSM *)
(* a handshake in IDLE: the target is latched and the counter is cleared, whatever it held (repair 03e7104 of C16-F2) *)
Lemma a2c_step_idle_hs cw tgt c x l t :
  a2c_step cw (a2c_mk 0 tgt c x l) (true, t) = a2c_mk 1 t 0 x 0.
Proof. reflexivity. Qed.
Lemma a2c_step_idle_nohs cw tgt c x l t : a2c_step cw (a2c_mk 0 tgt c x l) (false, t) = a2c_mk 0 tgt 0 0 0.
Proof. reflexivity. Qed.
Lemma a2c_step_low cw tgt c x l i : a2c_step cw (a2c_mk 1 tgt c x l) i = a2c_mk 2 tgt (trunc cw (c + 1)) 1 l.
Proof. destruct i as [[] t]; reflexivity. Qed.
Lemma a2c_step_high cw tgt c x l i :
  a2c_step cw (a2c_mk 2 tgt c x l) i = a2c_mk (if c =? tgt then 3 else 1) tgt c 0 l.
Proof. destruct i as [[] t]; unfold a2c_step, a2c_mk; cbn; destruct (c =? tgt); reflexivity. Qed.
Lemma a2c_step_end cw tgt c x l i : a2c_step cw (a2c_mk 3 tgt c x l) i = a2c_mk 0 tgt c x 1.
Proof. destruct i as [[] t]; reflexivity. Qed.

(* k more pulses to go: 2k cycles of (high, low), ending in END with the counter at the target *)
Lemma a2c_pulses_from cw (n : Z) : 0 <= cw -> n < 2 ^ cw ->
  forall (k : nat) c x ins rest, (1 <= k)%nat -> 0 <= c -> c + Z.of_nat k = n -> length ins = (2 * k)%nat ->
  a2c_trace cw (a2c_mk 1 n c x 0) (ins ++ rest) =
  concat (repeat [(1, 0); (0, 0)] k) ++ a2c_trace cw (a2c_mk 3 n n 0 0) rest.
Proof.
  intros Hcw Hn. induction k as [|k IH]; intros c x ins rest Hk Hc Hsum Hlen; [lia|].
  destruct ins as [|i1 [|i2 ins]]; cbn [length] in Hlen; try lia.
  cbn [app a2c_trace]. rewrite a2c_step_low. cbn [a2c_mk cs_clk cs_load].
  change {| cs_st := {| Axi2ClkFSM_s_state := 2; Axi2ClkFSM_s_target := n |}; cs_count := trunc cw (c + 1); cs_clk := 1; cs_load := 0 |}
    with (a2c_mk 2 n (trunc cw (c + 1)) 1 0).
  rewrite a2c_step_high. rewrite (trunc_small cw (c + 1)) by lia.
  cbn [repeat concat app]. f_equal.
  destruct k as [|k'].
  - (* last pulse *)
    replace (c + 1 =? n) with true by lia. cbn [Z.of_nat Pos.of_succ_nat] in Hsum. destruct ins; [|cbn in Hlen; lia].
    replace (c + 1) with n by lia. cbn [a2c_mk cs_clk cs_load repeat concat app]. reflexivity.
  - replace (c + 1 =? n) with false by lia.
    cbn [a2c_mk cs_clk cs_load]. f_equal.
    change {| cs_st := {| Axi2ClkFSM_s_state := 1; Axi2ClkFSM_s_target := n |}; cs_count := c + 1; cs_clk := 0; cs_load := 0 |}
      with (a2c_mk 1 n (c + 1) 0 0).
    rewrite (IH (c + 1) 0 ins rest); try lia; try reflexivity; cbn in Hlen; lia.
Qed.

(* A handshake taken in IDLE with target n >= 1 — whatever target, counter value and load_outs level the FSM was left with —
   produces exactly n clk_out pulses, then load_outs for exactly one cycle, then idle, whatever the inputs during those
   2n+2 cycles (further handshakes are ignored): every run starts from zero *)
Lemma a2c_run_from_idle cw (n : nat) tgt c l ins rest :
  0 <= cw -> (1 <= n)%nat -> Z.of_nat n < 2 ^ cw -> length ins = (2 * n + 1)%nat ->
  a2c_trace cw (a2c_mk 0 tgt c 0 l) ((true, Z.of_nat n) :: ins ++ rest) =
  (0, 0) :: concat (repeat [(1, 0); (0, 0)] n) ++ [(0, 1)] ++ a2c_trace cw (a2c_mk 0 (Z.of_nat n) (Z.of_nat n) 0 1) rest.
Proof.
  intros Hcw Hn Hlt Hlen.
  assert (Hs : exists body e1, ins = body ++ [e1] /\ length body = (2 * n)%nat).
  { exists (firstn (2 * n) ins). pose proof (firstn_skipn (2 * n) ins) as Hfs.
    assert (Hl : length (skipn (2 * n) ins) = 1%nat) by (rewrite skipn_length; lia).
    destruct (skipn (2 * n) ins) as [|e1 [|? ?]]; cbn in Hl; try lia.
    exists e1. split; [symmetry; exact Hfs|]. rewrite firstn_length. lia. }
  destruct Hs as (body & e1 & -> & Hb).
  cbn [a2c_trace]. rewrite a2c_step_idle_hs. cbn [a2c_mk cs_clk cs_load]. f_equal.
  change {| cs_st := {| Axi2ClkFSM_s_state := 1; Axi2ClkFSM_s_target := Z.of_nat n |}; cs_count := 0; cs_clk := 0; cs_load := 0 |}
    with (a2c_mk 1 (Z.of_nat n) 0 0 0).
  rewrite <- !app_assoc.
  rewrite (a2c_pulses_from cw (Z.of_nat n) Hcw Hlt n 0 0 body ([e1] ++ rest)); try lia.
  f_equal; try (cbn [app a2c_trace]; rewrite a2c_step_end; cbn [a2c_mk cs_clk cs_load]; reflexivity).
Qed.

Lemma a2c_pulse_train cw (n : nat) c ins : 0 <= cw -> (1 <= n)%nat -> Z.of_nat n < 2 ^ cw -> length ins = (2 * n + 2)%nat ->
  a2c_trace cw (a2c_idle c) ((true, Z.of_nat n) :: ins) = a2c_expected n.
Proof.
  intros Hcw Hn Hlt Hlen.
  assert (Hs : exists body e2, ins = body ++ [e2] /\ length body = (2 * n + 1)%nat).
  { exists (firstn (2 * n + 1) ins). pose proof (firstn_skipn (2 * n + 1) ins) as Hfs.
    assert (Hl : length (skipn (2 * n + 1) ins) = 1%nat) by (rewrite skipn_length; lia).
    destruct (skipn (2 * n + 1) ins) as [|e2 [|? ?]]; cbn in Hl; try lia.
    exists e2. split; [symmetry; exact Hfs|]. rewrite firstn_length. lia. }
  destruct Hs as (body & e2 & -> & Hb).
  change (a2c_idle c) with (a2c_mk 0 0 c 0 0).
  rewrite (a2c_run_from_idle cw n 0 c 0 body [e2]) by assumption.
  unfold a2c_expected. f_equal. f_equal. cbn [app a2c_trace]. f_equal.
  destruct e2 as [[] t]; [rewrite a2c_step_idle_hs | rewrite a2c_step_idle_nohs]; reflexivity.
Qed.

(* BACK-TO-BACK: a second request presented in the very first idle cycle after a run (the counter still holds the previous
   target) is served exactly as well: n1 pulses, load_outs, then immediately n2 pulses, load_outs, idle. *)
Lemma a2c_back_to_back cw (n1 n2 : nat) c ins1 ins2 :
  0 <= cw -> (1 <= n1)%nat -> (1 <= n2)%nat -> Z.of_nat n1 < 2 ^ cw -> Z.of_nat n2 < 2 ^ cw ->
  length ins1 = (2 * n1 + 1)%nat -> length ins2 = (2 * n2 + 2)%nat ->
  a2c_trace cw (a2c_idle c) ((true, Z.of_nat n1) :: ins1 ++ (true, Z.of_nat n2) :: ins2) =
  (0, 0) :: concat (repeat [(1, 0); (0, 0)] n1) ++ [(0, 1)] ++ a2c_expected n2.
Proof.
  intros Hcw H1 H2 L1 L2 Len1 Len2.
  change (a2c_idle c) with (a2c_mk 0 0 c 0 0).
  rewrite (a2c_run_from_idle cw n1 0 c 0 ins1 ((true, Z.of_nat n2) :: ins2)) by assumption.
  do 3 f_equal.
  assert (Hs : exists body e2, ins2 = body ++ [e2] /\ length body = (2 * n2 + 1)%nat).
  { exists (firstn (2 * n2 + 1) ins2). pose proof (firstn_skipn (2 * n2 + 1) ins2) as Hfs.
    assert (Hl : length (skipn (2 * n2 + 1) ins2) = 1%nat) by (rewrite skipn_length; lia).
    destruct (skipn (2 * n2 + 1) ins2) as [|e2 [|? ?]]; cbn in Hl; try lia.
    exists e2. split; [symmetry; exact Hfs|]. rewrite firstn_length. lia. }
  destruct Hs as (body & e2 & -> & Hb).
  rewrite (a2c_run_from_idle cw n2 (Z.of_nat n1) (Z.of_nat n1) 1 body [e2]) by assumption.
  unfold a2c_expected. f_equal. f_equal. cbn [app a2c_trace]. f_equal.
  destruct e2 as [[] t]; [rewrite a2c_step_idle_hs | rewrite a2c_step_idle_nohs]; reflexivity.
Qed.
