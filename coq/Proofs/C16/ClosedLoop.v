(* C16: closing the loop Reg2Axi <-> VitisKernelFSM.  The property's hypothesis "done is only signalled after a completed transfer"
   (r2a_env_ok, Model/Axi.v) is DISCHARGED for the intended composition of vitiswrapping.py:
     Reg2Axi.ap_done   := the ap_done wire the (regenerated) VitisKernelFSM prepares,
     FSM.all_sent      := Reg2Axi's sent wire,
     ap_start, load_outs: shared by both blocks (ap_reset reaches Reg2Axi only: VitisKernelFSM.clock never reads it).
   The product machine steps the gate-level Reg2Axi (r2a_step) and the FSM wrapper (vk_sys_step = VitisKernelFSM_clock + its wires)
   on the same clock edge, each reading the other's wires of the current cycle.
   NOTE /repo's createHILVitis does not instantiate VitisKernelFSM: this is a theorem about the intended composition. *)
From V Require Import Base.Bits Gen.WireOps Gen.Helpers Gen.Prims Gen.Seq.
From V Require Import Spec.C16 Model.Axi Proofs.C16.Gates Proofs.C16.Reg2Axi Proofs.C16.Fsm.

(* what the outside world drives in one cycle: host (start, reset), kernel (load_outs, reg_in), stream peer (tready) *)
Record cl_in := { c_start : bool; c_reset : bool; c_load : bool; c_tready : bool; c_regin : Z }.
Definition cl_st : Type := (r2a_st * vk_sys)%type.
Definition cl_st0 : cl_st := (r2a_st0, vk_sys0).

(* the inputs each block samples during the cycle *)
Definition cl_r2a_in (c : cl_st) (x : cl_in) : r2a_in :=
  {| b_start := c_start x; b_reset := c_reset x; b_done := (vs_done (snd c) =? 1); b_load := c_load x;
     b_tready := c_tready x; b_regin := c_regin x |}.
Definition cl_fsm_in (c : cl_st) (x : cl_in) : bool * bool * bool := (c_start x, c_load x, r2a_sent (fst c) =? 1).

Definition cl_step (DW : Z) (c : cl_st) (x : cl_in) : cl_st :=
  (r2a_step DW (fst c) (cl_r2a_in c x), vk_sys_step (snd c) (cl_fsm_in c x)).
Definition cl_run (DW : Z) (xs : list cl_in) : cl_st := fold_left (cl_step DW) xs cl_st0.

(* the schedule Reg2Axi sees inside the loop (its ap_done column is produced by the FSM) *)
Fixpoint cl_ins (DW : Z) (c : cl_st) (xs : list cl_in) : list r2a_in :=
  match xs with [] => [] | x :: rest => cl_r2a_in c x :: cl_ins DW (cl_step DW c x) rest end.

(* the kernel's side of the protocol IDLE -start-> STARTED -load_outs-> LOADED -all_sent-> DONE: load_outs is pulsed only while the
   FSM is in IDLE or STARTED, i.e. not again between the pulse that moved it to LOADED and the end of the DONE cycle *)
Fixpoint cl_load_ok (DW : Z) (c : cl_st) (xs : list cl_in) : Prop :=
  match xs with
  | [] => True
  | x :: rest => (c_load x = true -> vk_state (vs_st (snd c)) = 0 \/ vk_state (vs_st (snd c)) = 1) /\ cl_load_ok DW (cl_step DW c x) rest
  end.
Definition cl_no_reset (xs : list cl_in) : Prop := Forall (fun x => c_reset x = false) xs.

(* ------------------------------------------------------------------ the product invariant *)
(* FSM state q against Reg2Axi's (VALID, sent, active):  IDLE: nothing pending, nothing sent, inactive;  STARTED: nothing pending or sent;
   LOADED: not both pending and sent;  DONE: nothing pending *)
Definition cl_Jb (q : Z) (tv se act : bool) : bool :=
  if q =? 0 then negb tv && negb se && negb act
  else if q =? 1 then negb tv && negb se
  else if q =? 2 then negb (tv && se)
  else negb tv.

Lemma cl_J_step DW q s x : vk_legal q -> cl_Jb q (rb_tvalid s) (rb_sent s) (rb_active s) = true ->
  (c_load x = true -> q = 0 \/ q = 1) ->
  let i := {| b_start := c_start x; b_reset := c_reset x; b_done := (q =? 3); b_load := c_load x;
              b_tready := c_tready x; b_regin := c_regin x |} in
  let s' := r2a_ref_step DW s i in
  cl_Jb (vk_next q (c_start x) (c_load x) (rb_sent s)) (rb_tvalid s') (rb_sent s') (rb_active s') = true.
Proof.
  destruct s as [tv td se act]. destruct x as [st rs ld rdy x]. cbn [rb_tvalid rb_sent rb_active c_start c_reset c_load c_tready c_regin].
  intros [-> | [-> | [-> | ->]]] HJ Hl; cbv zeta;
    unfold r2a_ref_step, r2a_accepted, r2a_loadp, clear_of, next_active, vk_next, cl_Jb in *;
    cbn [rb_tvalid rb_sent rb_active rb_tdata b_start b_reset b_done b_load b_tready b_regin Z.eqb Pos.eqb] in *;
    destruct tv, se, act; cbn [negb andb orb] in HJ; try discriminate HJ;
    destruct st, rs, ld, rdy; cbn [negb andb orb Z.eqb Pos.eqb]; try reflexivity;
    destruct (Hl eq_refl); discriminate.
Qed.

Definition cl_inv (DW : Z) (c : cl_st) : Prop :=
  exists s, r2a_rel DW (fst c) s /\ vk_inv (snd c) /\
            cl_Jb (vk_state (vs_st (snd c))) (rb_tvalid s) (rb_sent s) (rb_active s) = true.

Lemma vk_inv_legal k : vk_inv k -> vk_legal (vk_state (vs_st k)) /\ (vs_done k =? 1) = (vk_state (vs_st k) =? 3).
Proof. unfold vk_inv, vk_legal. intros [[-> [-> | [-> | ->]]] | [-> ->]]; cbn; auto. Qed.

Lemma vk_sys_step_state k a b c : vk_legal (vk_state (vs_st k)) ->
  vk_state (vs_st (vk_sys_step k (a, b, c))) = vk_next (vk_state (vs_st k)) a b c.
Proof.
  intros H. unfold vk_sys_step. pose proof (vk_sequence (vs_st k) a b c H) as S.
  destruct (vk_step (vs_st k) a b c) as [st' o]. cbn [vs_st]. apply S.
Qed.

Lemma cl_inv0 DW : 0 <= DW -> cl_inv DW cl_st0.
Proof. intros HD. exists r2a_ref0. split; [apply r2a_rel0; exact HD|]. split; [left; vm_compute; auto | reflexivity]. Qed.

Lemma cl_in_as_ref DW c s x : r2a_rel DW (fst c) s -> vk_inv (snd c) ->
  cl_r2a_in c x = {| b_start := c_start x; b_reset := c_reset x; b_done := (vk_state (vs_st (snd c)) =? 3); b_load := c_load x;
                     b_tready := c_tready x; b_regin := c_regin x |} /\
  cl_fsm_in c x = (c_start x, c_load x, rb_sent s).
Proof.
  intros R K. destruct (vk_inv_legal _ K) as [_ E]. unfold cl_r2a_in, cl_fsm_in. rewrite E. split; [reflexivity|].
  unfold r2a_sent. rewrite (rel_se _ _ _ R), eqb1_b2z. reflexivity.
Qed.

Lemma cl_inv_step DW c x : 0 <= DW -> cl_inv DW c ->
  (c_load x = true -> vk_state (vs_st (snd c)) = 0 \/ vk_state (vs_st (snd c)) = 1) -> cl_inv DW (cl_step DW c x).
Proof.
  intros HD (s & R & K & J) Hl. destruct (cl_in_as_ref DW c s x R K) as [E1 E2]. destruct (vk_inv_legal _ K) as [L _].
  exists (r2a_ref_step DW s (cl_r2a_in c x)). unfold cl_step. cbn [fst snd].
  split; [apply r2a_step_refines; assumption|]. split; [apply vk_inv_step; exact K|].
  rewrite E2, (vk_sys_step_state _ _ _ _ L), E1. exact (cl_J_step DW _ s x L J Hl).
Qed.

(* ------------------------------------------------------------------ the hypothesis of the property holds along every run of the product *)
Lemma cl_env_ok_from DW xs : 0 <= DW -> forall c, cl_inv DW c -> cl_load_ok DW c xs -> r2a_env_ok DW (fst c) (cl_ins DW c xs).
Proof.
  intros HD. induction xs as [|x xs IH]; intros c I Hok; cbn [cl_ins r2a_env_ok]; [exact Logic.I|].
  destruct Hok as [Hl Hok]. split; [|exact (IH _ (cl_inv_step DW c x HD I Hl) Hok)].
  destruct I as (s & R & K & J). destruct (cl_in_as_ref DW c s x R K) as [E1 _]. rewrite E1.
  destruct (rel_now DW _ _ R) as [-> _]. unfold r2a_done_ok. cbn [b_done b_reset b_load].
  intros Hd _. apply Z.eqb_eq in Hd. rewrite Hd in J, Hl. unfold cl_Jb in J. cbn [Z.eqb Pos.eqb] in J.
  split; [destruct (rb_tvalid s); [discriminate J | reflexivity]|].
  destruct (c_load x); [destruct (Hl eq_refl); discriminate | reflexivity].
Qed.

(* ... and, without resets, also the stricter environment of the exactly-once clause: a beat is pending only in LOADED *)
Lemma cl_env_strict_from DW xs : 0 <= DW -> forall c, cl_inv DW c -> cl_load_ok DW c xs -> cl_no_reset xs ->
  r2a_env_strict DW (fst c) (cl_ins DW c xs).
Proof.
  intros HD. induction xs as [|x xs IH]; intros c I Hok Hnr; cbn [cl_ins r2a_env_strict]; [exact Logic.I|].
  destruct Hok as [Hl Hok]. inversion Hnr as [|x' xs' Hr Hnr']; subst.
  split; [exact Hr|]. split; [|exact (IH _ (cl_inv_step DW c x HD I Hl) Hok Hnr')].
  destruct I as (s & R & K & J). destruct (rel_now DW _ _ R) as [-> _]. cbn [cl_r2a_in b_load].
  intros Hv. destruct (c_load x); [|reflexivity]. rewrite Hv in J. unfold cl_Jb in J.
  destruct (Hl eq_refl) as [E | E]; rewrite E in J; cbn in J; discriminate J.
Qed.

(* Reg2Axi inside the loop is Reg2Axi under the schedule cl_ins *)
Lemma cl_run_fst DW xs : forall c, fst (fold_left (cl_step DW) xs c) = fold_left (r2a_step DW) (cl_ins DW c xs) (fst c).
Proof. induction xs as [|x xs IH]; intros c; cbn [fold_left cl_ins]; [reflexivity|]. rewrite IH. reflexivity. Qed.

Theorem cl_env_ok DW xs : 1 <= DW -> cl_load_ok DW cl_st0 xs -> r2a_env_ok DW r2a_st0 (cl_ins DW cl_st0 xs).
Proof. intros HD H. exact (cl_env_ok_from DW xs ltac:(lia) cl_st0 (cl_inv0 DW ltac:(lia)) H). Qed.

Theorem cl_env_strict DW xs : 1 <= DW -> cl_load_ok DW cl_st0 xs -> cl_no_reset xs -> r2a_env_strict DW r2a_st0 (cl_ins DW cl_st0 xs).
Proof. intros HD H Hn. exact (cl_env_strict_from DW xs ltac:(lia) cl_st0 (cl_inv0 DW ltac:(lia)) H Hn). Qed.

Theorem cl_reg2axi_is_run DW xs : fst (cl_run DW xs) = r2a_run DW (cl_ins DW cl_st0 xs).
Proof. exact (cl_run_fst DW xs cl_st0). Qed.

(* the FSM's done is high in a cycle exactly when the FSM is in DONE, and then no beat is pending *)
Theorem cl_done_means_delivered DW xs : 1 <= DW -> cl_load_ok DW cl_st0 xs ->
  let c := cl_run DW xs in
  vs_done (snd c) = 1 -> vk_state (vs_st (snd c)) = 3 /\ r2a_tvalid (fst c) = 0.
Proof.
  intros HD Hok. cbv zeta.
  assert (I : cl_inv DW (cl_run DW xs)).
  { unfold cl_run. revert Hok. generalize (cl_inv0 DW ltac:(lia)). generalize cl_st0.
    induction xs as [|x xs IH]; intros c I Hok; cbn [fold_left]; [exact I|].
    destruct Hok as [Hl Hok]. apply IH; [apply cl_inv_step; [lia | exact I | exact Hl] | exact Hok]. }
  destruct I as (s & R & K & J). intros Hd. destruct (vk_inv_legal _ K) as [_ E]. rewrite Hd in E. cbn in E.
  symmetry in E. apply Z.eqb_eq in E. split; [exact E|]. rewrite E in J. unfold cl_Jb in J. cbn [Z.eqb Pos.eqb] in J.
  unfold r2a_tvalid. rewrite (rel_tv _ _ _ R). destruct (rb_tvalid s); [discriminate J | reflexivity].
Qed.

(* the clauses of the property, hypothesis discharged *)
Theorem cl_no_duplicate DW xs : 1 <= DW -> cl_load_ok DW cl_st0 xs ->
  fst (r2a_counts DW r2a_st0 (cl_ins DW cl_st0 xs)) <= snd (r2a_counts DW r2a_st0 (cl_ins DW cl_st0 xs)).
Proof. intros HD H. apply r2a_no_dup; [lia | apply cl_env_ok; assumption]. Qed.

Theorem cl_exactly_once DW xs : 1 <= DW -> cl_load_ok DW cl_st0 xs -> cl_no_reset xs ->
  let ins := cl_ins DW cl_st0 xs in
  fst (r2a_counts DW r2a_st0 ins) + b2z (r2a_valid_now (fst (cl_run DW xs))) = snd (r2a_counts DW r2a_st0 ins).
Proof.
  intros HD H Hn. cbv zeta. rewrite cl_reg2axi_is_run.
  apply r2a_exactly_once; [lia | apply cl_env_ok; assumption | apply cl_env_strict; assumption].
Qed.

Lemma cl_ins_snoc DW xs x : forall c, cl_ins DW c (xs ++ [x]) = cl_ins DW c xs ++ [cl_r2a_in (fold_left (cl_step DW) xs c) x].
Proof. induction xs as [|y ys IH]; intros c; cbn [app cl_ins fold_left]; [reflexivity|]. rewrite IH. reflexivity. Qed.
Lemma cl_load_ok_prefix DW xs x : forall c, cl_load_ok DW c (xs ++ [x]) -> cl_load_ok DW c xs.
Proof.
  induction xs as [|y ys IH]; intros c Hc; cbn [app cl_load_ok] in *; [exact Logic.I|].
  destruct Hc as [H1 H2]. split; [exact H1 | exact (IH _ H2)].
Qed.

Theorem cl_accepted_beat_withdrawn DW xs x : 1 <= DW -> cl_load_ok DW cl_st0 (xs ++ [x]) ->
  r2a_accepted (r2a_valid_now (fst (cl_run DW xs))) (cl_r2a_in (cl_run DW xs) x) = true ->
  r2a_tvalid (fst (cl_run DW (xs ++ [x]))) = 0.
Proof.
  intros HD H Hacc. rewrite cl_reg2axi_is_run in Hacc. rewrite cl_reg2axi_is_run, cl_ins_snoc. fold (cl_run DW xs).
  apply r2a_accept_withdraws_env; [lia | apply cl_env_ok; [assumption | exact (cl_load_ok_prefix DW xs x _ H)] | exact Hacc].
Qed.

(* ------------------------------------------------------------------ non-vacuity: two complete rounds through the loop
   start; load 9; wait; peer ready (beat accepted); sent seen by the FSM; DONE cycle; idle; start; load 200 with the peer ready at once; ... *)
Definition mkC (t : Z * Z * Z * Z * Z) : cl_in :=
  let '(s, r, l, y, x) := t in {| c_start := zb s; c_reset := zb r; c_load := zb l; c_tready := zb y; c_regin := x |}.
Definition cl_sched : list cl_in :=
  map mkC [(1,0,0,0,0); (0,0,1,0,9); (0,0,0,0,0); (0,0,0,1,0); (0,0,0,0,0); (0,0,0,0,0); (0,0,0,0,0);
           (1,0,0,0,0); (0,0,1,1,200); (0,0,0,1,0); (0,0,0,0,0); (0,0,0,0,0)].
Lemma cl_example :
  cl_load_ok 8 cl_st0 cl_sched /\ cl_no_reset cl_sched /\
  map b_done (cl_ins 8 cl_st0 cl_sched) = [false; false; false; false; false; true; false; false; false; false; false; true] /\
  r2a_counts 8 r2a_st0 (cl_ins 8 cl_st0 cl_sched) = (2, 2) /\
  map (fun k => vk_state (vs_st (snd (cl_run 8 (firstn k cl_sched))))) (seq 0 13) = [0; 1; 2; 2; 2; 3; 0; 0; 1; 2; 2; 3; 0].
Proof.
  split; [vm_compute; repeat split; intros; (discriminate || auto)|].
  split; [unfold cl_no_reset; vm_compute; repeat constructor|].
  vm_compute. auto.
Qed.

(* the assumption on load_outs is NEEDED: a second load pulse in the cycle in which the FSM (in LOADED) sees all_sent puts a beat on the
   bus in the DONE cycle; ap_done deactivates Reg2Axi with VALID high (finding C16-F1) and the beat is accepted over and over:
   3 accepted beats for 2 load pulses, no reset anywhere *)
Definition cl_reload_sched : list cl_in :=
  map mkC [(1,0,0,0,0); (0,0,1,0,5); (0,0,0,1,0); (0,0,1,0,6); (0,0,0,0,0); (0,0,0,1,0); (0,0,0,1,0)].
Lemma cl_reload_witness :
  exists xs, cl_no_reset xs /\ ~ cl_load_ok 8 cl_st0 xs /\ ~ r2a_env_ok 8 r2a_st0 (cl_ins 8 cl_st0 xs) /\
             r2a_counts 8 r2a_st0 (cl_ins 8 cl_st0 xs) = (3, 2).
Proof.
  exists cl_reload_sched. split; [unfold cl_no_reset; vm_compute; repeat constructor|].
  split; [|split; [|vm_compute; reflexivity]].
  - vm_compute. intros (_ & _ & _ & (H & _)). destruct (H eq_refl); discriminate.
  - vm_compute. intros (_ & _ & _ & _ & (H & _)). destruct (H eq_refl eq_refl) as [E _]. discriminate.
Qed.
