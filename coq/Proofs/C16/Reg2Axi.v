(* C16: the gate-level Reg2Axi refines the reference machine; VALID/DATA/LAST/KEEP/sent clauses for every schedule. *)
From V Require Import Base.Bits Gen.WireOps Gen.Helpers Gen.Prims Gen.Seq.
From V Require Import Spec.C16 Model.Axi Proofs.C16.Gates.

(* the gate-level state g carries the reference state s.  The data register's .value holds the raw reg_in
   (Reg.clock stores d unmasked); the wire holds it masked to the stream width. *)
Record r2a_rel (DW : Z) (g : r2a_st) (s : r2a_ref) : Prop := {
  rel_rv : Reg_s_value (gb_rtvalid g) = b2z (rb_tvalid s);
  rel_rs : Reg_s_value (gb_rsent g) = b2z (rb_sent s);
  rel_ra : Reg_s_value (gb_ractive g) = b2z (rb_active s);
  rel_rt : trunc DW (Reg_s_value (gb_rtdata g)) = rb_tdata s;
  rel_tv : gb_tvalid g = b2z (rb_tvalid s);
  rel_td : gb_tdata g = rb_tdata s;
  rel_se : gb_sent g = b2z (rb_sent s);
  rel_ac : gb_active g = b2z (rb_active s) }.

Lemma r2a_rel0 DW : 0 <= DW -> r2a_rel DW r2a_st0 r2a_ref0.
Proof. intros; constructor; reflexivity. Qed.

Lemma r2a_step_refines DW g s i :
  0 <= DW -> r2a_rel DW g s -> r2a_rel DW (r2a_step DW g i) (r2a_ref_step DW s i).
Proof.
  intros HW [Hrv Hrs Hra Hrt Htv Htd Hse Hac].
  unfold r2a_step, r2a_comb.
  cbn [nb_active_handshake nb_reset_tvalid nb_set_tvalid nb_reset_sent nb_reset_active].
  rewrite Htv, Hac. rewrite Not_bit, !And2_bit, !Or2_bit.
  rewrite !Reg_bit, Reg_e. cbv zeta.
  unfold r2a_ref_step, r2a_accepted, r2a_loadp, clear_of, next_active.
  destruct s as [tv td se act]. cbn [rb_tvalid rb_tdata rb_sent rb_active] in *.
  destruct i as [st rs dn ld rdy x]. cbn [b_start b_reset b_done b_load b_tready b_regin] in *.
  rewrite Hrv, Hrs, Hra.
  constructor; cbn [gb_rtvalid gb_rtdata gb_rsent gb_ractive gb_tvalid gb_tdata gb_sent gb_active
                    rb_tvalid rb_tdata rb_sent rb_active Reg_s_value];
    destruct act, tv, rdy, st, rs, dn, ld, se; cbn [andb orb negb b2z];
    try reflexivity; try exact Hrt; try (apply trunc_mod; lia).
Qed.

Lemma r2a_fold_refines DW ins : forall g s,
  0 <= DW -> r2a_rel DW g s -> r2a_rel DW (fold_left (r2a_step DW) ins g) (fold_left (r2a_ref_step DW) ins s).
Proof.
  induction ins as [|i ins IH]; intros g s HW H; cbn [fold_left]; [exact H|].
  apply IH; [assumption|]. apply r2a_step_refines; assumption.
Qed.

(* REFINEMENT: for every stream width and every schedule *)
Lemma r2a_refines DW ins : 0 <= DW -> r2a_rel DW (r2a_run DW ins) (r2a_ref_run DW ins).
Proof. intros; apply r2a_fold_refines; [assumption | apply r2a_rel0; assumption]. Qed.

(* KEEP: the constructor's constant, on a KW-bit wire that has room for ceil(W/8) bits *)
Lemma tkeep_const W KW : 1 <= W -> (W + 7) / 8 <= KW -> r2a_tkeep W KW = tkeep_spec W.
Proof.
  intros HW HK. unfold r2a_tkeep, tkeep_val, tkeep_spec, py_shl.
  assert (0 <= (W + 7) / 8) by (apply Z.div_pos; lia).
  rewrite Constant_val by lia. rewrite Z.shiftl_1_l.
  pose proof (pow2_pos ((W + 7) / 8) ltac:(lia)). pose proof (pow2_le ((W + 7) / 8) KW ltac:(lia)).
  apply Z.mod_small; lia.
Qed.

(* the instance the constructor builds: stream.tkeep is DW/8 bits wide, DW a multiple of 8, W <= DW *)
Lemma tkeep_const_stream W DW : 1 <= W <= DW -> DW mod 8 = 0 -> r2a_tkeep W (DW / 8) = tkeep_spec W.
Proof. intros HW HD. apply tkeep_const; [lia|]. lia. Qed.

Lemma r2a_obs_refines W DW KW ins : 1 <= W -> 0 <= DW -> (W + 7) / 8 <= KW ->
  r2a_obs W KW (r2a_run DW ins) = r2a_ref_obs W (r2a_ref_run DW ins).
Proof.
  intros HW HD HK. destruct (r2a_refines DW ins HD) as [_ _ _ _ Htv Htd Hse Hac].
  unfold r2a_obs, r2a_ref_obs, r2a_tvalid, r2a_tdata, r2a_tlast, r2a_sent, r2a_active.
  rewrite Htv, Htd, Hse, Hac, Buf_bit, tkeep_const by assumption. reflexivity.
Qed.

(* LAST = VALID at every point of every schedule *)
Lemma r2a_tlast_is_tvalid DW ins : 0 <= DW -> r2a_tlast (r2a_run DW ins) = r2a_tvalid (r2a_run DW ins).
Proof.
  intros HD. destruct (r2a_refines DW ins HD) as [_ _ _ _ Htv _ _ _].
  unfold r2a_tlast, r2a_tvalid. rewrite Htv. apply Buf_bit.
Qed.

(* ------------------------------------------------------------------ history reading of TDATA *)
Lemma r2a_ref_run_snoc DW ins i : r2a_ref_run DW (ins ++ [i]) = r2a_ref_step DW (r2a_ref_run DW ins) i.
Proof. unfold r2a_ref_run. rewrite fold_left_app. reflexivity. Qed.
Lemma r2a_run_snoc DW ins i : r2a_run DW (ins ++ [i]) = r2a_step DW (r2a_run DW ins) i.
Proof. unfold r2a_run. rewrite fold_left_app. reflexivity. Qed.

Lemma r2a_active_hist_ok DW ins : rb_active (r2a_ref_run DW ins) = active_hist (map r2a_ctl (rev ins)).
Proof.
  induction ins as [|i ins IH] using rev_ind; [reflexivity|].
  rewrite r2a_ref_run_snoc, rev_unit. cbn [map active_hist r2a_ctl r2a_ref_step rb_active].
  unfold next_active. rewrite IH. reflexivity.
Qed.

Lemma r2a_data_hist_ok DW ins : rb_tdata (r2a_ref_run DW ins) = r2a_data_hist DW (rev ins).
Proof.
  induction ins as [|i ins IH] using rev_ind; [reflexivity|].
  rewrite r2a_ref_run_snoc, rev_unit. cbn [r2a_data_hist r2a_ref_step rb_tdata].
  rewrite <- r2a_active_hist_ok with (DW := DW). destruct (r2a_loadp _ i); [reflexivity | exact IH].
Qed.

(* TDATA = the value presented at the most recent load pulse (mod 2^DW), 0 before the first — every schedule *)
Lemma r2a_tdata_latest_load DW ins : 0 <= DW -> r2a_tdata (r2a_run DW ins) = r2a_data_hist DW (rev ins).
Proof.
  intros HD. destruct (r2a_refines DW ins HD) as [_ _ _ _ _ Htd _ _].
  unfold r2a_tdata. rewrite Htd. apply r2a_data_hist_ok.
Qed.

Lemma r2a_active_latest_ctl DW ins : 0 <= DW -> r2a_active (r2a_run DW ins) = b2z (active_hist (map r2a_ctl (rev ins))).
Proof.
  intros HD. destruct (r2a_refines DW ins HD) as [_ _ _ _ _ _ _ Hac].
  unfold r2a_active. rewrite Hac, r2a_active_hist_ok. reflexivity.
Qed.

(* a W-bit register value on a stream at least as wide is offered unchanged *)
Lemma r2a_data_fits W DW x : 0 <= W <= DW -> 0 <= x < 2 ^ W -> x mod 2 ^ DW = x.
Proof. intros HW Hx. pose proof (pow2_le W DW ltac:(lia)). apply Z.mod_small; lia. Qed.

(* ------------------------------------------------------------------ per-cycle clauses on the gate-level block *)
Lemma eqb1_b2z a : (b2z a =? 1) = a.
Proof. destruct a; reflexivity. Qed.

Section Cycle.
Variables (DW : Z) (pre : list r2a_in) (i : r2a_in).
Hypothesis HD : 0 <= DW.
Let s := r2a_run DW pre.
Let s' := r2a_run DW (pre ++ [i]).
Let tv := r2a_valid_now s.
Let act := r2a_active_now s.
Let accepted := r2a_accepted tv i.

Let r := r2a_ref_run DW pre.

Lemma r2a_cycle_bits : tv = rb_tvalid r /\ act = rb_active r /\ r2a_sent s = b2z (rb_sent r) /\ r2a_tdata s = rb_tdata r.
Proof.
  subst tv act s r. destruct (r2a_refines DW pre HD) as [_ _ _ _ Htv Htd Hse Hac].
  unfold r2a_valid_now, r2a_active_now, r2a_tvalid, r2a_active, r2a_sent, r2a_tdata.
  rewrite Htv, Hac, !eqb1_b2z. auto.
Qed.

Lemma r2a_cycle_next :
  r2a_tvalid s' = b2z (rb_tvalid (r2a_ref_step DW r i)) /\ r2a_sent s' = b2z (rb_sent (r2a_ref_step DW r i)) /\
  r2a_tdata s' = rb_tdata (r2a_ref_step DW r i) /\ r2a_active s' = b2z (rb_active (r2a_ref_step DW r i)).
Proof.
  subst s' r. destruct (r2a_refines DW (pre ++ [i]) HD) as [_ _ _ _ Htv Htd Hse Hac].
  rewrite r2a_ref_run_snoc in *. unfold r2a_tvalid, r2a_sent, r2a_tdata, r2a_active. auto.
Qed.

(* VALID never drops early: raised, not accepted in this cycle, not reset -> still raised in the next cycle.
   No assumption on done, load_outs, start is needed. *)
Lemma r2a_valid_held : tv = true -> accepted = false -> b_reset i = false -> r2a_tvalid s' = 1.
Proof.
  destruct r2a_cycle_bits as (Htv & _). destruct r2a_cycle_next as (Hn & _). rewrite Hn.
  subst accepted. rewrite Htv. unfold r2a_accepted. intros H1 H2 H3.
  unfold r2a_ref_step. cbn [rb_tvalid]. unfold r2a_accepted. rewrite H1 in *. cbn [andb] in *. rewrite H2, H3.
  rewrite andb_false_r. cbn [orb]. destruct (r2a_loadp _ _); reflexivity.
Qed.

(* VALID is only ever raised by a load pulse taken while active *)
Lemma r2a_valid_raised_by_load : tv = false -> r2a_tvalid s' = 1 -> r2a_loadp act i = true.
Proof.
  destruct r2a_cycle_bits as (Htv & Hact & _). destruct r2a_cycle_next as (Hn & _). rewrite Hn, Htv, Hact.
  unfold r2a_ref_step. cbn [rb_tvalid]. intros H1. rewrite H1.
  destruct (b_reset i || _); [cbn; lia|]. destruct (r2a_loadp _ _); cbn; [auto | lia].
Qed.

(* TDATA changes only at a load pulse (so it is stable while a beat waits, unless the kernel reloads) *)
Lemma r2a_tdata_stable : r2a_loadp act i = false -> r2a_tdata s' = r2a_tdata s.
Proof.
  destruct r2a_cycle_bits as (_ & Hact & _ & Htd). destruct r2a_cycle_next as (_ & _ & Hn & _). rewrite Hn, Htd, Hact.
  unfold r2a_ref_step. cbn [rb_tdata]. intros ->. reflexivity.
Qed.
Lemma r2a_tdata_loaded : r2a_loadp act i = true -> r2a_tdata s' = b_regin i mod 2 ^ DW.
Proof.
  destruct r2a_cycle_bits as (_ & Hact & _). destruct r2a_cycle_next as (_ & _ & Hn & _). rewrite Hn, Hact.
  unfold r2a_ref_step. cbn [rb_tdata]. intros ->. reflexivity.
Qed.

(* sent rises only in the cycle after an accepted beat (taken while active) *)
Lemma r2a_sent_after_accept : r2a_sent s = 0 -> r2a_sent s' = 1 -> accepted = true /\ act = true.
Proof.
  destruct r2a_cycle_bits as (Htv & Hact & Hse & _). destruct r2a_cycle_next as (_ & Hn & _). rewrite Hn, Hse.
  subst accepted. rewrite Htv, Hact. unfold r2a_ref_step. cbn [rb_sent]. rewrite b2z_false. intros ->.
  destruct (clear_of _ _ _ _); [cbn; lia|].
  destruct (rb_active r); cbn [andb]; [|cbn; lia]. destruct (r2a_accepted _ _); cbn; [auto | lia].
Qed.

(* once set, sent stays until reset, done or a restart *)
Lemma r2a_sent_held : r2a_sent s = 1 -> clear_of act (b_start i) (b_reset i) (b_done i) = false -> r2a_sent s' = 1.
Proof.
  destruct r2a_cycle_bits as (_ & Hact & Hse & _). destruct r2a_cycle_next as (_ & Hn & _). rewrite Hn, Hse, Hact.
  unfold r2a_ref_step. cbn [rb_sent]. rewrite b2z_true. intros -> ->. destruct (_ && _); reflexivity.
Qed.

(* with the adapter active, an accepted beat is withdrawn in the next cycle (offered exactly once) and flagged *)
Lemma r2a_accept_withdraws : act = true -> accepted = true ->
  r2a_tvalid s' = 0 /\ (clear_of act (b_start i) (b_reset i) (b_done i) = false -> r2a_sent s' = 1).
Proof.
  destruct r2a_cycle_bits as (Htv & Hact & _). destruct r2a_cycle_next as (Hn & Hs & _). rewrite Hn, Hs.
  subst accepted. rewrite Htv, Hact. unfold r2a_ref_step. cbn [rb_tvalid rb_sent]. intros -> ->.
  cbn [andb]. rewrite orb_true_r. split; [reflexivity|]. intros ->. reflexivity.
Qed.
(* reset clears VALID, sent and active whatever else happens in the cycle; done clears sent and active *)
Lemma r2a_reset_clears : b_reset i = true -> r2a_tvalid s' = 0 /\ r2a_sent s' = 0 /\ r2a_active s' = 0.
Proof.
  destruct r2a_cycle_next as (Hv & Hs & _ & Ha). rewrite Hv, Hs, Ha.
  unfold r2a_ref_step, clear_of, next_active. cbn [rb_tvalid rb_sent rb_active]. intros ->. cbn [orb]. auto.
Qed.
Lemma r2a_done_clears : b_done i = true -> r2a_sent s' = 0 /\ r2a_active s' = 0.
Proof.
  destruct r2a_cycle_next as (_ & Hs & _ & Ha). rewrite Hs, Ha.
  unfold r2a_ref_step, clear_of, next_active. cbn [rb_sent rb_active]. intros ->. rewrite !orb_true_r. cbn [orb]. auto.
Qed.
End Cycle.

(* ------------------------------------------------------------------ under the property's assumption on done *)
(* reference-level copies of the gate-level schedule predicates *)
Fixpoint ref_env_ok (DW : Z) (s : r2a_ref) (ins : list r2a_in) : Prop :=
  match ins with [] => True | i :: rest => r2a_done_ok (rb_tvalid s) i /\ ref_env_ok DW (r2a_ref_step DW s i) rest end.
Fixpoint ref_env_strict (DW : Z) (s : r2a_ref) (ins : list r2a_in) : Prop :=
  match ins with [] => True | i :: rest => b_reset i = false /\ (rb_tvalid s = true -> b_load i = false) /\ ref_env_strict DW (r2a_ref_step DW s i) rest end.
Fixpoint ref_counts (DW : Z) (s : r2a_ref) (ins : list r2a_in) : Z * Z :=
  match ins with
  | [] => (0, 0)
  | i :: rest => let '(acc, lds) := ref_counts DW (r2a_ref_step DW s i) rest in
                 (acc + b2z (r2a_accepted (rb_tvalid s) i), lds + b2z (r2a_loadp (rb_active s) i))
  end.

Lemma rel_now DW g s : r2a_rel DW g s -> r2a_valid_now g = rb_tvalid s /\ r2a_active_now g = rb_active s.
Proof.
  intros [_ _ _ _ Htv _ _ Hac]. unfold r2a_valid_now, r2a_active_now, r2a_tvalid, r2a_active.
  rewrite Htv, Hac, !eqb1_b2z. auto.
Qed.

Lemma env_ok_transfer DW ins : forall g s, 0 <= DW -> r2a_rel DW g s -> (r2a_env_ok DW g ins <-> ref_env_ok DW s ins).
Proof.
  induction ins as [|i ins IH]; intros g s HD H; cbn [r2a_env_ok ref_env_ok]; [tauto|].
  destruct (rel_now DW g s H) as [-> _]. rewrite (IH _ (r2a_ref_step DW s i) HD (r2a_step_refines DW g s i HD H)). tauto.
Qed.
Lemma env_strict_transfer DW ins : forall g s, 0 <= DW -> r2a_rel DW g s -> (r2a_env_strict DW g ins <-> ref_env_strict DW s ins).
Proof.
  induction ins as [|i ins IH]; intros g s HD H; cbn [r2a_env_strict ref_env_strict]; [tauto|].
  destruct (rel_now DW g s H) as [-> _]. rewrite (IH _ (r2a_ref_step DW s i) HD (r2a_step_refines DW g s i HD H)). tauto.
Qed.
Lemma counts_transfer DW ins : forall g s, 0 <= DW -> r2a_rel DW g s -> r2a_counts DW g ins = ref_counts DW s ins.
Proof.
  induction ins as [|i ins IH]; intros g s HD H; cbn [r2a_counts ref_counts]; [reflexivity|].
  destruct (rel_now DW g s H) as [-> ->]. rewrite (IH _ (r2a_ref_step DW s i) HD (r2a_step_refines DW g s i HD H)). reflexivity.
Qed.

(* invariant kept by the assumption: a pending beat implies the adapter is still active *)
Lemma ref_pending_active_step DW s i :
  r2a_done_ok (rb_tvalid s) i -> (rb_tvalid s = true -> rb_active s = true) ->
  let s' := r2a_ref_step DW s i in rb_tvalid s' = true -> rb_active s' = true.
Proof.
  unfold r2a_done_ok, r2a_ref_step, r2a_accepted, r2a_loadp, next_active. cbn [rb_tvalid rb_active].
  destruct s as [tv td se act]. cbn [rb_tvalid rb_active]. destruct i as [st rs dn ld rdy x].
  cbn [b_start b_reset b_done b_load b_tready]. intros Hd Hinv.
  destruct tv, act, st, rs, dn, ld, rdy; cbn [andb orb negb]; intros Hv; try reflexivity; try discriminate;
    try (specialize (Hinv eq_refl); discriminate); try (destruct (Hd eq_refl eq_refl); discriminate).
Qed.

Lemma ref_pending_active DW ins : forall s, (rb_tvalid s = true -> rb_active s = true) -> ref_env_ok DW s ins ->
  let s' := fold_left (r2a_ref_step DW) ins s in rb_tvalid s' = true -> rb_active s' = true.
Proof.
  induction ins as [|i ins IH]; intros s Hinv Hok; cbn [fold_left]; [exact Hinv|].
  destruct Hok as [Hd Hok]. apply IH; [|exact Hok]. apply ref_pending_active_step; assumption.
Qed.

(* NO DUPLICATION: accepted beats never outnumber the load pulses (a beat that is pending counts for its pulse) *)
Lemma ref_no_dup DW ins : forall s, (rb_tvalid s = true -> rb_active s = true) -> ref_env_ok DW s ins ->
  let '(acc, lds) := ref_counts DW s ins in acc <= lds + b2z (rb_tvalid s).
Proof.
  induction ins as [|i ins IH]; intros s Hinv Hok; cbn [ref_counts]; [destruct (rb_tvalid s); cbn; lia|].
  destruct Hok as [Hd Hok].
  specialize (IH (r2a_ref_step DW s i) (ref_pending_active_step DW s i Hd Hinv) Hok).
  destruct (ref_counts DW (r2a_ref_step DW s i) ins) as [acc lds].
  revert IH. unfold r2a_ref_step, r2a_accepted, r2a_loadp. cbn [rb_tvalid rb_active].
  destruct s as [tv td se act]. cbn [rb_tvalid rb_active] in *.
  destruct tv, act; try (specialize (Hinv eq_refl); discriminate);
    destruct (b_reset i), (b_load i), (b_tready i); cbn [andb orb negb b2z]; lia.
Qed.

(* EXACTLY ONCE: with no reset and no load pulse while a beat is pending, every load pulse is delivered or pending *)
Lemma ref_exactly_once DW ins : forall s, (rb_tvalid s = true -> rb_active s = true) ->
  ref_env_ok DW s ins -> ref_env_strict DW s ins ->
  let '(acc, lds) := ref_counts DW s ins in
  acc + b2z (rb_tvalid (fold_left (r2a_ref_step DW) ins s)) = lds + b2z (rb_tvalid s).
Proof.
  induction ins as [|i ins IH]; intros s Hinv Hok Hst; cbn [ref_counts fold_left]; [lia|].
  destruct Hok as [Hd Hok]. destruct Hst as (Hr & Hl & Hst).
  specialize (IH (r2a_ref_step DW s i) (ref_pending_active_step DW s i Hd Hinv) Hok Hst).
  destruct (ref_counts DW (r2a_ref_step DW s i) ins) as [acc lds].
  revert IH. generalize (rb_tvalid (fold_left (r2a_ref_step DW) ins (r2a_ref_step DW s i))). intros b.
  unfold r2a_ref_step, r2a_accepted, r2a_loadp. cbn [rb_tvalid rb_active].
  destruct s as [tv td se act]. cbn [rb_tvalid rb_active] in *. rewrite Hr.
  destruct tv, act; try (specialize (Hinv eq_refl); discriminate); try (rewrite (Hl eq_refl));
    destruct (b_load i), (b_tready i); cbn [andb orb negb b2z]; lia.
Qed.

(* ---- transferred to the gate-level block, from power-up *)
Lemma r2a_pending_active DW ins : 0 <= DW -> r2a_env_ok DW r2a_st0 ins ->
  r2a_valid_now (r2a_run DW ins) = true -> r2a_active_now (r2a_run DW ins) = true.
Proof.
  intros HD Hok. apply (env_ok_transfer DW ins _ _ HD (r2a_rel0 DW HD)) in Hok.
  destruct (rel_now DW _ _ (r2a_refines DW ins HD)) as [-> ->].
  apply (ref_pending_active DW ins r2a_ref0); [discriminate | exact Hok].
Qed.

Lemma r2a_no_dup DW ins : 0 <= DW -> r2a_env_ok DW r2a_st0 ins ->
  fst (r2a_counts DW r2a_st0 ins) <= snd (r2a_counts DW r2a_st0 ins).
Proof.
  intros HD Hok. apply (env_ok_transfer DW ins _ _ HD (r2a_rel0 DW HD)) in Hok.
  rewrite (counts_transfer DW ins _ _ HD (r2a_rel0 DW HD)).
  pose proof (ref_no_dup DW ins r2a_ref0 ltac:(discriminate) Hok) as H.
  destruct (ref_counts DW r2a_ref0 ins). cbn in *. lia.
Qed.

Lemma r2a_exactly_once DW ins : 0 <= DW -> r2a_env_ok DW r2a_st0 ins -> r2a_env_strict DW r2a_st0 ins ->
  fst (r2a_counts DW r2a_st0 ins) + b2z (r2a_valid_now (r2a_run DW ins)) = snd (r2a_counts DW r2a_st0 ins).
Proof.
  intros HD Hok Hst. apply (env_ok_transfer DW ins _ _ HD (r2a_rel0 DW HD)) in Hok.
  apply (env_strict_transfer DW ins _ _ HD (r2a_rel0 DW HD)) in Hst.
  rewrite (counts_transfer DW ins _ _ HD (r2a_rel0 DW HD)).
  destruct (rel_now DW _ _ (r2a_refines DW ins HD)) as [-> _].
  pose proof (ref_exactly_once DW ins r2a_ref0 ltac:(discriminate) Hok Hst) as H.
  unfold r2a_ref_run. destruct (ref_counts DW r2a_ref0 ins). cbn in *. lia.
Qed.

(* under the assumption, every accepted beat is withdrawn in the next cycle *)
Lemma r2a_accept_withdraws_env DW pre i : 0 <= DW -> r2a_env_ok DW r2a_st0 pre ->
  r2a_accepted (r2a_valid_now (r2a_run DW pre)) i = true -> r2a_tvalid (r2a_run DW (pre ++ [i])) = 0.
Proof.
  intros HD Hok Hacc. apply (r2a_accept_withdraws DW pre i HD); [|exact Hacc].
  apply r2a_pending_active; [assumption..|]. unfold r2a_accepted in Hacc. apply andb_true_iff in Hacc. tauto.
Qed.

(* ------------------------------------------------------------------ refutation outside the assumption *)
(* done in the middle of a transfer: the adapter goes inactive with VALID high; the peer then accepts the beat,
   but VALID is not withdrawn — the same beat is offered (and accepted) again. *)
Definition dup_sched : list r2a_in :=
  [ {| b_start := true;  b_reset := false; b_done := false; b_load := false; b_tready := false; b_regin := 0 |};
    {| b_start := false; b_reset := false; b_done := false; b_load := true;  b_tready := false; b_regin := 5 |};
    {| b_start := false; b_reset := false; b_done := true;  b_load := false; b_tready := false; b_regin := 0 |};
    {| b_start := false; b_reset := false; b_done := false; b_load := false; b_tready := true;  b_regin := 0 |};
    {| b_start := false; b_reset := false; b_done := false; b_load := false; b_tready := true;  b_regin := 0 |} ].

Lemma r2a_dup_witness :
  exists pre i, r2a_accepted (r2a_valid_now (r2a_run 8 pre)) i = true /\ r2a_tvalid (r2a_run 8 (pre ++ [i])) = 1
                /\ r2a_counts 8 r2a_st0 dup_sched = (2, 1).
Proof. exists (firstn 3 dup_sched), (nth 3 dup_sched (mkB (0, 0, 0, 0, 0, 0))). vm_compute. auto. Qed.
