(* C16: characterising lemmas for the REGENERATED primitives used by the AXI adapters, on 1-bit wires
   (values b2z of a boolean) and on the data path.  Everything else in Proofs/C16 uses only these. *)
From V Require Import Base.Bits Gen.WireOps Gen.Helpers Gen.Prims Gen.Seq.

Lemma b2z_inj a b : b2z a = b2z b -> a = b.
Proof. destruct a, b; cbn; intros H; congruence || discriminate || reflexivity. Qed.
Lemma b2z_true a : b2z a = 1 <-> a = true.
Proof. destruct a; cbn; split; intros; congruence || lia. Qed.
Lemma b2z_false a : b2z a = 0 <-> a = false.
Proof. destruct a; cbn; split; intros; congruence || lia. Qed.

Lemma And2_bit a b : And2_propagate 1 (b2z a) (b2z b) = b2z (a && b).
Proof. destruct a, b; reflexivity. Qed.
Lemma Or2_bit a b : Or2_propagate 1 (b2z a) (b2z b) = b2z (a || b).
Proof. destruct a, b; reflexivity. Qed.
Lemma Not_bit a : Not_propagate 1 (b2z a) = b2z (negb a).
Proof. destruct a; reflexivity. Qed.
Lemma Buf_bit a : Buf_propagate 1 (b2z a) = b2z a.
Proof. destruct a; reflexivity. Qed.

(* a 1-bit register with enable and reset, reset value 0, fed with bits *)
Lemma Reg_bit st d e r :
  Reg_clock 1 true true 0 st (b2z d) (b2z e) (b2z r) =
  let v := if r then 0 else if e then b2z d else Reg_s_value st in
  ({| Reg_s_value := v |}, trunc 1 v).
Proof. destruct d, e, r; reflexivity. Qed.

(* a w-bit register with enable and reset (reset value 0): reset has priority, then enable *)
Lemma Reg_er w st d e r :
  Reg_clock w true true 0 st d (b2z e) (b2z r) =
  let v := if r then 0 else if e then d else Reg_s_value st in
  ({| Reg_s_value := v |}, trunc w v).
Proof. destruct e, r; reflexivity. Qed.

(* a w-bit register with enable only *)
Lemma Reg_e w st d e :
  Reg_clock w true false 0 st d (b2z e) 0 =
  let v := if e then d else Reg_s_value st in
  ({| Reg_s_value := v |}, trunc w v).
Proof. destruct e; reflexivity. Qed.

(* ---- shape-tolerant normalisation: every way of writing "keep the low n bits" (x & ((1<<n)-1), ((1<<n)-1) & x,
   x % (1<<n), Wire_put n x, repeated or redundant) becomes  x mod 2^n ; locals are inlined; shifts by 0 vanish *)
Lemma land_pow_mod a n : 0 <= n -> Z.land a (2 ^ n - 1) = a mod 2 ^ n.
Proof. intros. replace (2 ^ n - 1) with (Z.ones n) by (rewrite Z.ones_equiv; lia). apply Z.land_ones; lia. Qed.
Lemma land_pow_mod_l a n : 0 <= n -> Z.land (2 ^ n - 1) a = a mod 2 ^ n.
Proof. intros. rewrite Z.land_comm. apply land_pow_mod; lia. Qed.
Lemma mod_mod_pow a n : 0 <= n -> (a mod 2 ^ n) mod 2 ^ n = a mod 2 ^ n.
Proof. intros. apply Z.mod_mod, Z.pow_nonzero; lia. Qed.

Ltac norm_mod :=
  cbv zeta; unfold Wire_put, Wire_prepare, py_shl, py_shr; cbv zeta;
  rewrite ?Z.shiftr_0_r, ?Z.shiftl_0_r;
  repeat match goal with |- context [Z.shiftl 1 ?n] => rewrite (Z.shiftl_1_l n) end;
  rewrite ?Z.pow_0_r, ?Z.div_1_r;
  rewrite ?land_pow_mod, ?land_pow_mod_l by lia;
  rewrite ?mod_mod_pow by lia.

(* Range [W-1:0] of any integer into a W-bit wire = its low W bits *)
Lemma Range_low W x : 1 <= W -> Range_propagate W (W - 1) 0 x = x mod 2 ^ W.
Proof.
  intros HW. unfold Range_propagate.
  cbv zeta; unfold Wire_put, Wire_prepare, py_shl, py_shr; cbv zeta.
  (* the number of bits, however it is written, is W *)
  repeat match goal with |- context [Z.shiftl 1 ?n] => rewrite (Z.shiftl_1_l n) end.
  repeat match goal with |- context [2 ^ ?n] => progress (replace n with W by lia) end.
  norm_mod. reflexivity.
Qed.

Lemma Constant_val w c : 0 <= w -> Constant_propagate w c = c mod 2 ^ w.
Proof. intros; unfold Constant_propagate. norm_mod. reflexivity. Qed.

Lemma trunc1_b2z a : trunc 1 (b2z a) = b2z a.
Proof. destruct a; reflexivity. Qed.
