(* C16: characterising lemmas for the REGENERATED primitives used by the AXI adapters, on 1-bit wires
   (values b2z of a boolean) and on the data path.  Everything else in Proofs/C16 uses only these. *)
From V Require Import Base.Bits Gen.WireOps Gen.Helpers Gen.Prims Gen.Seq.

Lemma b2z_inj a b : b2z a = b2z b -> a = b.
Proof. destruct a, b; cbn; intros H; congruence || discriminate || reflexivity. Qed.
Lemma b2z_true a : b2z a = 1 <-> a = true.
Proof. destruct a; cbn; split; intros; congruence || lia. Qed.
Lemma b2z_false a : b2z a = 0 <-> a = false.
Proof. destruct a; cbn; split; intros; congruence || lia. Qed.

Lemma And2_bit a b : And2_propagate 1 (b2z a) (b2z b) = b2z (a && b).
Proof. destruct a, b; reflexivity. Qed.
Lemma Or2_bit a b : Or2_propagate 1 (b2z a) (b2z b) = b2z (a || b).
Proof. destruct a, b; reflexivity. Qed.
Lemma Not_bit a : Not_propagate 1 (b2z a) = b2z (negb a).
Proof. destruct a; reflexivity. Qed.
Lemma Buf_bit a : Buf_propagate 1 (b2z a) = b2z a.
Proof. destruct a; reflexivity. Qed.

(* a 1-bit register with enable and reset, reset value 0, fed with bits *)
Lemma Reg_bit st d e r :
  Reg_clock 1 true true 0 st (b2z d) (b2z e) (b2z r) =
  let v := if r then 0 else if e then b2z d else Reg_s_value st in
  ({| Reg_s_value := v |}, trunc 1 v).
Proof. destruct d, e, r; reflexivity. Qed.

(* a w-bit register with enable and reset (reset value 0): reset has priority, then enable *)
Lemma Reg_er w st d e r :
  Reg_clock w true true 0 st d (b2z e) (b2z r) =
  let v := if r then 0 else if e then d else Reg_s_value st in
  ({| Reg_s_value := v |}, trunc w v).
Proof. destruct e, r; reflexivity. Qed.

(* a w-bit register with enable only *)
Lemma Reg_e w st d e :
  Reg_clock w true false 0 st d (b2z e) 0 =
  let v := if e then d else Reg_s_value st in
  ({| Reg_s_value := v |}, trunc w v).
Proof. destruct e; reflexivity. Qed.

(* Range [W-1:0] of any integer into a W-bit wire = its low W bits *)
Lemma Range_low W x : 1 <= W -> Range_propagate W (W - 1) 0 x = x mod 2 ^ W.
Proof.
  intros HW. unfold Range_propagate. cbv zeta.
  change (Wire_put W ?v) with (trunc W v).
  unfold py_shr, py_shl. rewrite Z.shiftr_0_r.
  replace (W - 1 - 0 + 1) with W by lia.
  change (Z.land x (Z.shiftl 1 W - 1)) with (trunc W x).
  rewrite trunc_idem by lia. apply trunc_mod; lia.
Qed.

Lemma Constant_val w c : 0 <= w -> Constant_propagate w c = c mod 2 ^ w.
Proof. intros; unfold Constant_propagate; cbv zeta. change (Wire_put w c) with (trunc w c). apply trunc_mod; lia. Qed.

Lemma trunc1_b2z a : trunc 1 (b2z a) = b2z a.
Proof. destruct a; reflexivity. Qed.
