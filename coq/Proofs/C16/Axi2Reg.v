(* C16: the gate-level Axi2Reg refines the reference machine, the reference machine equals the
   "most recent event" reading of the history, and the READY / payload clauses for every schedule. *)
From V Require Import Base.Bits Gen.WireOps Gen.Helpers Gen.Prims Gen.Seq.
From V Require Import Spec.C16 Model.Axi Proofs.C16.Gates.

(* concretisation: the gate-level state that carries a reference state *)
Definition a2r_conc (s : a2r_ref) : a2r_st :=
  {| ga_rdata := {| Reg_s_value := ra_q s |}; ga_rloaded := {| Reg_s_value := b2z (ra_loaded s) |};
     ga_ractive := {| Reg_s_value := b2z (ra_active s) |};
     ga_q := ra_q s; ga_loaded := b2z (ra_loaded s); ga_active := b2z (ra_active s) |}.

Definition a2r_inv (W : Z) (s : a2r_ref) : Prop := 0 <= ra_q s < 2 ^ W.

Lemma a2r_inv0 W : 1 <= W -> a2r_inv W a2r_ref0.
Proof. intros; unfold a2r_inv; cbn. pose proof (pow2_pos W); lia. Qed.

Lemma a2r_ref_step_inv W s i : 1 <= W -> a2r_inv W s -> a2r_inv W (a2r_ref_step W s i).
Proof.
  unfold a2r_inv, a2r_ref_step; cbn [ra_q]. intros HW Hs.
  pose proof (pow2_pos W ltac:(lia)) as Hp.
  destruct (a2r_clear _ _); [lia|]. destruct (a2r_beat _ _); [|exact Hs].
  apply Z.mod_pos_bound; lia.
Qed.

(* one cycle of the gate network + registers = one step of the reference machine *)
Lemma a2r_step_refines W s i :
  1 <= W -> a2r_inv W s -> a2r_step W (a2r_conc s) i = a2r_conc (a2r_ref_step W s i).
Proof.
  intros HW Hs.
  pose proof (a2r_ref_step_inv W s i HW Hs) as Hs'.
  unfold a2r_inv in *.
  unfold a2r_step, a2r_comb, a2r_conc.
  cbn [ga_rdata ga_rloaded ga_ractive ga_q ga_loaded ga_active
       na_tready na_tdata na_active_handshake na_reset_loaded na_reset_active].
  rewrite Buf_bit, Not_bit, !And2_bit, !Or2_bit, Range_low by lia.
  rewrite Reg_er, !Reg_bit. cbv zeta.
  unfold a2r_ref_step in *. cbn [ra_q ra_loaded ra_active] in *.
  unfold a2r_clear, a2r_beat, clear_of, next_active in *.
  destruct s as [q ld act]. cbn [ra_q ra_loaded ra_active] in *.
  destruct i as [st rs dn tv td]. cbn [a_start a_reset a_done a_tvalid a_tdata] in *.
  destruct act, st, rs, dn, tv, ld; cbn [andb orb negb b2z Reg_s_value] in *;
    rewrite ?trunc1_b2z; cbn [b2z]; try rewrite (trunc_small W _ ltac:(lia) Hs');
    try rewrite (trunc_small W q ltac:(lia) Hs); try reflexivity.
Qed.

Lemma a2r_fold_refines W ins : forall s,
  1 <= W -> a2r_inv W s ->
  fold_left (a2r_step W) ins (a2r_conc s) = a2r_conc (fold_left (a2r_ref_step W) ins s) /\
  a2r_inv W (fold_left (a2r_ref_step W) ins s).
Proof.
  induction ins as [|i ins IH]; intros s HW Hs; cbn [fold_left]; [split; auto|].
  rewrite a2r_step_refines by assumption. apply IH; [assumption|]. apply a2r_ref_step_inv; assumption.
Qed.

(* REFINEMENT: for every width and every schedule *)
Lemma a2r_refines W ins : 1 <= W -> a2r_run W ins = a2r_conc (a2r_ref_run W ins).
Proof.
  intros HW. unfold a2r_run, a2r_ref_run. change a2r_st0 with (a2r_conc a2r_ref0).
  apply a2r_fold_refines; [assumption | apply a2r_inv0; assumption].
Qed.

Lemma a2r_run_inv W ins : 1 <= W -> a2r_inv W (a2r_ref_run W ins).
Proof. intros HW. apply (a2r_fold_refines W ins a2r_ref0 HW (a2r_inv0 W HW)). Qed.

Lemma a2r_obs_refines W ins : 1 <= W -> a2r_obs (a2r_run W ins) = a2r_ref_obs (a2r_ref_run W ins).
Proof.
  intros HW. rewrite a2r_refines by assumption. unfold a2r_obs, a2r_ref_obs, a2r_q, a2r_loaded, a2r_active, a2r_tready, a2r_conc.
  cbn [ga_q ga_loaded ga_active]. rewrite Buf_bit. reflexivity.
Qed.

(* READY is asserted exactly while active — at every point of every schedule *)
Lemma a2r_tready_is_active W ins : 1 <= W -> a2r_tready (a2r_run W ins) = a2r_active (a2r_run W ins).
Proof.
  intros HW. rewrite a2r_refines by assumption. unfold a2r_tready, a2r_active, a2r_conc. cbn [ga_active]. apply Buf_bit.
Qed.

(* ------------------------------------------------------------------ reference machine = history reading *)
Lemma ref_run_snoc W ins i : a2r_ref_run W (ins ++ [i]) = a2r_ref_step W (a2r_ref_run W ins) i.
Proof. unfold a2r_ref_run. rewrite fold_left_app. reflexivity. Qed.

Lemma a2r_active_hist_ok W ins : ra_active (a2r_ref_run W ins) = active_hist (map a2r_ctl (rev ins)).
Proof.
  induction ins as [|i ins IH] using rev_ind; [reflexivity|].
  rewrite ref_run_snoc, rev_unit. cbn [map active_hist a2r_ctl a2r_ref_step ra_active].
  unfold next_active. rewrite IH. reflexivity.
Qed.

Lemma a2r_data_hist_ok W ins :
  (ra_q (a2r_ref_run W ins), ra_loaded (a2r_ref_run W ins)) =
  match a2r_data_hist W (rev ins) with Some v => (v, true) | None => (0, false) end.
Proof.
  induction ins as [|i ins IH] using rev_ind; [reflexivity|].
  rewrite ref_run_snoc, rev_unit. cbn [a2r_data_hist a2r_ref_step ra_q ra_loaded].
  rewrite <- a2r_active_hist_ok with (W := W).
  destruct (a2r_clear _ i); [reflexivity|]. destruct (a2r_beat _ i); [reflexivity|]. exact IH.
Qed.

Lemma a2r_ref_expected W ins : a2r_ref_obs (a2r_ref_run W ins) = a2r_expected W ins.
Proof.
  unfold a2r_ref_obs, a2r_expected. pose proof (a2r_data_hist_ok W ins) as H.
  rewrite <- (a2r_active_hist_ok W). destruct (a2r_data_hist W (rev ins)); injection H as H1 H2; rewrite H1, H2; reflexivity.
Qed.

(* FULL STATEMENT: after every schedule, at every width, the gate-level block shows exactly what the history says *)
Lemma a2r_model_expected W ins : 1 <= W -> a2r_obs (a2r_run W ins) = a2r_expected W ins.
Proof. intros; rewrite a2r_obs_refines by assumption. apply a2r_ref_expected. Qed.

(* ------------------------------------------------------------------ per-cycle clauses on the gate-level block *)
Lemma a2r_run_snoc W ins i : a2r_run W (ins ++ [i]) = a2r_step W (a2r_run W ins) i.
Proof. unfold a2r_run. rewrite fold_left_app. reflexivity. Qed.

Section Cycle.
Variables (W : Z) (pre : list a2r_in) (i : a2r_in).
Hypothesis HW : 1 <= W.
Let s := a2r_run W pre.
Let s' := a2r_run W (pre ++ [i]).
(* what the peer and the kernel see during the cycle *)
Let ready := a2r_tready s =? 1.
Let act := a2r_active s =? 1.
Let clear := a_reset i || a_done i || (a_start i && negb act).
Let beat := ready && a_tvalid i.

Lemma a2r_cycle_bits : a2r_active s = b2z (ra_active (a2r_ref_run W pre)) /\ act = ra_active (a2r_ref_run W pre) /\ ready = act.
Proof.
  subst s s' ready act. rewrite a2r_tready_is_active by assumption. rewrite a2r_refines by assumption.
  unfold a2r_active, a2r_conc; cbn [ga_active]. destruct (ra_active _); cbn; auto.
Qed.

(* a beat transferred in a cycle without a clear is captured: q = low W bits, loaded = 1 *)
Lemma a2r_capture : clear = false -> beat = true ->
  a2r_q s' = a_tdata i mod 2 ^ W /\ a2r_loaded s' = 1.
Proof.
  destruct a2r_cycle_bits as (_ & Ha & Hr). subst beat clear. rewrite Hr, Ha. intros Hc Hb.
  subst s'. rewrite a2r_refines, ref_run_snoc by assumption.
  unfold a2r_q, a2r_loaded, a2r_conc, a2r_ref_step; cbn [ga_q ga_loaded ra_q ra_loaded].
  unfold a2r_clear, a2r_beat, clear_of. rewrite Hc, Hb. auto.
Qed.

(* no beat, no clear: payload and flag are held *)
Lemma a2r_hold : clear = false -> beat = false -> a2r_q s' = a2r_q s /\ a2r_loaded s' = a2r_loaded s.
Proof.
  destruct a2r_cycle_bits as (_ & Ha & Hr). subst beat clear. rewrite Hr, Ha. intros Hc Hb.
  subst s s'. rewrite !a2r_refines, ref_run_snoc by assumption.
  unfold a2r_q, a2r_loaded, a2r_conc, a2r_ref_step; cbn [ga_q ga_loaded ra_q ra_loaded].
  unfold a2r_clear, a2r_beat, clear_of. rewrite Hc, Hb. auto.
Qed.

(* reset, done or a restart clears payload and flag, whatever the stream does *)
Lemma a2r_cleared : clear = true -> a2r_q s' = 0 /\ a2r_loaded s' = 0.
Proof.
  destruct a2r_cycle_bits as (_ & Ha & Hr). subst clear. rewrite Ha. intros Hc.
  subst s'. rewrite a2r_refines, ref_run_snoc by assumption.
  unfold a2r_q, a2r_loaded, a2r_conc, a2r_ref_step; cbn [ga_q ga_loaded ra_q ra_loaded].
  unfold a2r_clear, clear_of. rewrite Hc. auto.
Qed.

Lemma a2r_active_next : a2r_active s' = b2z (next_active act (a_start i) (a_reset i) (a_done i)).
Proof.
  destruct a2r_cycle_bits as (_ & Ha & _). rewrite Ha.
  subst s'. rewrite a2r_refines, ref_run_snoc by assumption. reflexivity.
Qed.
End Cycle.

(* while not active nothing is held: q = 0 and loaded = 0; and loaded = 0 -> q = 0 *)
Lemma a2r_ref_idle_clear W ins :
  let r := a2r_ref_run W ins in (ra_active r = false -> ra_loaded r = false) /\ (ra_loaded r = false -> ra_q r = 0).
Proof.
  induction ins as [|i ins IH] using rev_ind; [cbn; auto|].
  rewrite ref_run_snoc. cbv zeta in *. destruct IH as [IH1 IH2].
  unfold a2r_ref_step, a2r_clear, a2r_beat, clear_of, next_active. cbn [ra_q ra_loaded ra_active].
  destruct (ra_active (a2r_ref_run W ins)), (a_start i), (a_reset i), (a_done i), (a_tvalid i);
    cbn [andb orb negb]; split; intros; auto; try discriminate.
Qed.

Lemma a2r_idle_clear W ins : 1 <= W ->
  let s := a2r_run W ins in (a2r_active s = 0 -> a2r_loaded s = 0) /\ (a2r_loaded s = 0 -> a2r_q s = 0).
Proof.
  intros HW. cbv zeta. rewrite a2r_refines by assumption.
  unfold a2r_active, a2r_loaded, a2r_q, a2r_conc; cbn [ga_active ga_loaded ga_q].
  destruct (a2r_ref_idle_clear W ins) as [H1 H2]. rewrite !b2z_false. auto.
Qed.

(* the stored payload always fits the register *)
Lemma a2r_q_range W ins : 1 <= W -> 0 <= a2r_q (a2r_run W ins) < 2 ^ W.
Proof. intros HW. rewrite a2r_refines by assumption. exact (a2r_run_inv W ins HW). Qed.
