(* C16: the lemmas of Proofs/C16 put in the exact shape of the statements of Properties/C16.v (guards as the real code
   needs them: widths >= 1).  GENERATED together with Properties/C16.v from one list of statements; edit both or neither. *)
From V Require Import Base.Bits Spec.C16 Model.Axi.
From V Require Import Proofs.C16.Gates Proofs.C16.Axi2Reg Proofs.C16.Reg2Axi Proofs.C16.Fsm.

Lemma S_a2r_refines_reference :
  forall W ins, 1 <= W ->
  a2r_obs (a2r_run W ins) = a2r_ref_obs (a2r_ref_run W ins).
Proof. exact a2r_obs_refines. Qed.

Lemma S_a2r_holds_most_recent_beat :
  forall W ins, 1 <= W ->
  a2r_obs (a2r_run W ins) = a2r_expected W ins.
Proof. exact a2r_model_expected. Qed.

Lemma S_a2r_ready_iff_active :
  forall W ins, 1 <= W ->
  a2r_tready (a2r_run W ins) = a2r_active (a2r_run W ins).
Proof. exact a2r_tready_is_active. Qed.

Lemma S_a2r_cycle :
  forall W pre i, 1 <= W ->
  let s := a2r_run W pre in let s' := a2r_run W (pre ++ [i]) in
  let clear := a_reset i || a_done i || (a_start i && negb (a2r_active s =? 1)) in
  let beat := (a2r_tready s =? 1) && a_tvalid i in
  (clear = true -> a2r_q s' = 0 /\ a2r_loaded s' = 0) /\
  (clear = false -> beat = true -> a2r_q s' = a_tdata i mod 2 ^ W /\ a2r_loaded s' = 1) /\
  (clear = false -> beat = false -> a2r_q s' = a2r_q s /\ a2r_loaded s' = a2r_loaded s) /\
  a2r_active s' = b2z (next_active (a2r_active s =? 1) (a_start i) (a_reset i) (a_done i)).
Proof. intros W pre i HW. cbv zeta.
  exact (conj (a2r_cleared W pre i HW) (conj (a2r_capture W pre i HW) (conj (a2r_hold W pre i HW) (a2r_active_next W pre i HW)))). Qed.

Lemma S_a2r_idle_is_clear :
  forall W ins, 1 <= W ->
  let s := a2r_run W ins in
  (a2r_active s = 0 -> a2r_loaded s = 0) /\ (a2r_loaded s = 0 -> a2r_q s = 0) /\ 0 <= a2r_q s < 2 ^ W.
Proof. intros W ins HW. cbv zeta. destruct (a2r_idle_clear W ins HW) as [H1 H2]. exact (conj H1 (conj H2 (a2r_q_range W ins HW))). Qed.

Lemma S_r2a_refines_reference :
  forall W DW KW ins, 1 <= W -> 1 <= DW -> (W + 7) / 8 <= KW ->
  r2a_obs W KW (r2a_run DW ins) = r2a_ref_obs W (r2a_ref_run DW ins).
Proof. intros W DW KW ins HW HD HK. apply r2a_obs_refines; [assumption | lia | assumption]. Qed.

Lemma S_r2a_valid_held_until_accepted_or_reset :
  forall DW pre i, 1 <= DW ->
  r2a_valid_now (r2a_run DW pre) = true ->
  r2a_accepted (r2a_valid_now (r2a_run DW pre)) i = false ->
  b_reset i = false ->
  r2a_tvalid (r2a_run DW (pre ++ [i])) = 1.
Proof. intros DW pre i HD. apply r2a_valid_held; lia. Qed.

Lemma S_r2a_reset_done_clear :
  forall DW pre i, 1 <= DW ->
  (b_reset i = true -> r2a_tvalid (r2a_run DW (pre ++ [i])) = 0 /\ r2a_sent (r2a_run DW (pre ++ [i])) = 0 /\ r2a_active (r2a_run DW (pre ++ [i])) = 0) /\
  (b_done i = true -> r2a_sent (r2a_run DW (pre ++ [i])) = 0 /\ r2a_active (r2a_run DW (pre ++ [i])) = 0).
Proof. intros DW pre i HD. split; [apply r2a_reset_clears | apply r2a_done_clears]; lia. Qed.

Lemma S_r2a_valid_raised_only_by_load :
  forall DW pre i, 1 <= DW ->
  r2a_valid_now (r2a_run DW pre) = false -> r2a_tvalid (r2a_run DW (pre ++ [i])) = 1 ->
  r2a_loadp (r2a_active_now (r2a_run DW pre)) i = true.
Proof. intros DW pre i HD. apply r2a_valid_raised_by_load; lia. Qed.

Lemma S_r2a_tdata_is_latest_load :
  forall DW ins, 1 <= DW ->
  r2a_tdata (r2a_run DW ins) = r2a_data_hist DW (rev ins) /\
  r2a_active (r2a_run DW ins) = b2z (active_hist (map r2a_ctl (rev ins))).
Proof. intros DW ins HD. split; [apply r2a_tdata_latest_load | apply r2a_active_latest_ctl]; lia. Qed.

Lemma S_r2a_tdata_value_preserved :
  forall W DW x, 0 <= W <= DW -> 0 <= x < 2 ^ W -> x mod 2 ^ DW = x.
Proof. exact r2a_data_fits. Qed.

Lemma S_r2a_tdata_moves_only_on_load :
  forall DW pre i, 1 <= DW ->
  (r2a_loadp (r2a_active_now (r2a_run DW pre)) i = false -> r2a_tdata (r2a_run DW (pre ++ [i])) = r2a_tdata (r2a_run DW pre)) /\
  (r2a_loadp (r2a_active_now (r2a_run DW pre)) i = true -> r2a_tdata (r2a_run DW (pre ++ [i])) = b_regin i mod 2 ^ DW).
Proof. intros DW pre i HD. split; [apply r2a_tdata_stable | apply r2a_tdata_loaded]; lia. Qed.

Lemma S_r2a_tlast_is_tvalid :
  forall DW ins, 1 <= DW -> r2a_tlast (r2a_run DW ins) = r2a_tvalid (r2a_run DW ins).
Proof. intros DW ins HD. apply r2a_tlast_is_tvalid; lia. Qed.

Lemma S_r2a_tkeep_constant :
  forall W DW, 1 <= W <= DW -> DW mod 8 = 0 -> r2a_tkeep W (DW / 8) = 2 ^ ((W + 7) / 8) - 1.
Proof. exact tkeep_const_stream. Qed.

Lemma S_r2a_sent_only_after_accepted_beat :
  forall DW pre i, 1 <= DW ->
  r2a_sent (r2a_run DW pre) = 0 -> r2a_sent (r2a_run DW (pre ++ [i])) = 1 ->
  r2a_accepted (r2a_valid_now (r2a_run DW pre)) i = true /\ r2a_active_now (r2a_run DW pre) = true.
Proof. intros DW pre i HD. apply r2a_sent_after_accept; lia. Qed.

Lemma S_r2a_sent_held :
  forall DW pre i, 1 <= DW ->
  r2a_sent (r2a_run DW pre) = 1 ->
  clear_of (r2a_active_now (r2a_run DW pre)) (b_start i) (b_reset i) (b_done i) = false ->
  r2a_sent (r2a_run DW (pre ++ [i])) = 1.
Proof. intros DW pre i HD. apply r2a_sent_held; lia. Qed.

Lemma S_r2a_accepted_beat_withdrawn :
  forall DW pre i, 1 <= DW -> r2a_env_ok DW r2a_st0 pre ->
  r2a_accepted (r2a_valid_now (r2a_run DW pre)) i = true -> r2a_tvalid (r2a_run DW (pre ++ [i])) = 0.
Proof. intros DW pre i HD. apply r2a_accept_withdraws_env; lia. Qed.

Lemma S_r2a_no_duplicate :
  forall DW ins, 1 <= DW -> r2a_env_ok DW r2a_st0 ins ->
  fst (r2a_counts DW r2a_st0 ins) <= snd (r2a_counts DW r2a_st0 ins).
Proof. intros DW ins HD. apply r2a_no_dup; lia. Qed.

Lemma S_r2a_exactly_once :
  forall DW ins, 1 <= DW -> r2a_env_ok DW r2a_st0 ins -> r2a_env_strict DW r2a_st0 ins ->
  fst (r2a_counts DW r2a_st0 ins) + b2z (r2a_valid_now (r2a_run DW ins)) = snd (r2a_counts DW r2a_st0 ins).
Proof. intros DW ins HD. apply r2a_exactly_once; lia. Qed.

Lemma S_r2a_done_mid_transfer_duplicates_refuted :
  exists pre i, r2a_accepted (r2a_valid_now (r2a_run 8 pre)) i = true /\ r2a_tvalid (r2a_run 8 (pre ++ [i])) = 1
                /\ r2a_counts 8 r2a_st0 dup_sched = (2, 1).
Proof. exact r2a_dup_witness. Qed.

Lemma S_kernel_fsm_sequence :
  forall st start load sent, vk_legal (vk_state st) ->
  let '(st', o) := vk_step st start load sent in
  vk_legal (vk_state st') /\
  (vk_done o = Some 1 <-> vk_state st = 2 /\ sent = true) /\
  vk_state st' = vk_next (vk_state st) start load sent.
Proof. exact vk_sequence. Qed.

Lemma S_kernel_fsm_done_pulse :
  forall pre start load sent,
  let s := vk_sys_run pre in let s' := vk_sys_run (pre ++ [(start, load, sent)]) in
  (vs_done s' = 1 <-> vk_state (vs_st s) = 2 /\ sent = true) /\
  (vs_done s' = 1 <-> vk_state (vs_st s') = 3) /\ (vs_done s' = 0 \/ vs_done s' = 1).
Proof. exact vk_done_pulse. Qed.

Lemma S_axi2clk_fsm_pulse_train :
  forall cw (n : nat) c ins, 0 <= cw -> (1 <= n)%nat -> Z.of_nat n < 2 ^ cw -> length ins = (2 * n + 2)%nat ->
  a2c_trace cw (a2c_idle c) ((true, Z.of_nat n) :: ins) = a2c_expected n.
Proof. exact a2c_pulse_train. Qed.

Lemma S_axi2clk_fsm_back_to_back :
  forall cw (n1 n2 : nat) c ins1 ins2,
  0 <= cw -> (1 <= n1)%nat -> (1 <= n2)%nat -> Z.of_nat n1 < 2 ^ cw -> Z.of_nat n2 < 2 ^ cw ->
  length ins1 = (2 * n1 + 1)%nat -> length ins2 = (2 * n2 + 2)%nat ->
  a2c_trace cw (a2c_idle c) ((true, Z.of_nat n1) :: ins1 ++ (true, Z.of_nat n2) :: ins2) =
  (0, 0) :: concat (repeat [(1, 0); (0, 0)] n1) ++ [(0, 1)] ++ a2c_expected n2.
Proof. exact a2c_back_to_back. Qed.
