(* C04 composed with C05: the guard of C04's settling theorems (`ordered` + `single_driver`, Spec/C04.v) implies the
   guard of C05's split theorems (Spec.C05.topo), and both are what the model sorter's output satisfies.  Hence for a
   design whose combinational list IS the sorter's output: settled after init and after every clk(n) (here), and
   clk(m+n) = clk n . clk m with no order hypothesis left (Proofs/C05/Sorted.v).  Also: construction-order
   independence lifted from one propagateAll to init and clk(n). *)
From V Require Import Base.PyInt Gen.WireOps Model.SimKernel Model.Sort Spec.C04.
From V Require Import Proofs.C04.SortLemmas Proofs.C04.Settle Proofs.C04.Main.
From V Require Spec.C05.
From Coq Require Import Permutation PeanoNat Arith.
Local Open Scope nat_scope.

(* ------------------------------------------------------------------ ordered + single_driver  <->  topo *)
Lemma ordered_tail c cs : ordered (c :: cs) -> ordered cs.
Proof.
  intros H i j a b Hi Hj Hf. assert (S i < S j) by (apply (H (S i) (S j) a b Hi Hj Hf)). lia.
Qed.

Lemma single_driver_tail c cs : single_driver (c :: cs) -> single_driver cs.
Proof.
  unfold single_driver. cbn [flat_map]. generalize (flat_map c_out cs). intros b.
  induction (c_out c) as [|x a IH]; cbn [app]; intros H; [exact H|]. inversion H; subst. auto.
Qed.

Lemma ordered_single_driver_topo : forall cs, ordered cs -> single_driver cs -> Spec.C05.topo cs.
Proof.
  induction cs as [|c cs IH]; intros Ho Hs; cbn [Spec.C05.topo]; [exact I|].
  split; [|split].
  - intros w Hin Hout.
    assert (0 < 0) by (apply (Ho 0 0 c c eq_refl eq_refl); exists w; split; assumption). lia.
  - intros c' Hc'. destruct (In_nth_error _ _ Hc') as [k Hk]. split.
    + intros w Hin Hout.
      assert (S k < 0) by (apply (Ho (S k) 0 c' c Hk eq_refl); exists w; split; assumption). lia.
    + intros w Hout Hout'. unfold single_driver in Hs. cbn [flat_map] in Hs.
      apply (NoDup_app_disjoint _ _ w Hs Hout). apply in_flat_map. exists c'. split; assumption.
  - apply IH; [eapply ordered_tail; eauto | eapply single_driver_tail; eauto].
Qed.

(* the converse for the order half (topo does not ask that ONE leaf lists an out-port once, single_driver does) *)
Lemma topo_ordered : forall cs, Spec.C05.topo cs -> ordered cs.
Proof.
  induction cs as [|c cs IH]; intros Ht i j a b Hi Hj Hf.
  - destruct i; discriminate.
  - cbn [Spec.C05.topo] in Ht. destruct Ht as (Hself & Hrest & Ht). destruct Hf as (w & Hout & Hin).
    destruct i as [|i], j as [|j]; cbn [nth_error] in Hi, Hj.
    + injection Hi as <-. injection Hj as <-. exfalso. exact (Hself w Hin Hout).
    + lia.
    + injection Hj as <-. exfalso. apply nth_error_In in Hi. exact (proj1 (Hrest a Hi) w Hin Hout).
    + assert (i < j) by (apply (IH Ht i j a b Hi Hj); exists w; split; assumption). lia.
Qed.

(* ------------------------------------------------------------------ what the sorter's output is *)
Section Sorted.
Context {St : Type}.

Lemma sorted_schedule (d : design St) succ K l :
  represents (combs d) succ -> single_driver (combs d) ->
  sort_fuel succ K (seq 0 (length (combs d))) = Sorted l ->
  Permutation (combs d) (reorder (combs d) l) /\ ordered (reorder (combs d) l) /\ single_driver (reorder (combs d) l).
Proof.
  intros Hrep Hsd H.
  destruct (sort_fuel_sound succ K _ l (seq_NoDup _ _) H) as [P T].
  assert (Hv : forall i, In i l -> i < length (combs d)).
  { intros i Hi. apply (Permutation_in _ (Permutation_sym P)) in Hi. apply in_seq in Hi. lia. }
  assert (Pc : Permutation (combs d) (reorder (combs d) l)) by (apply reorder_perm; exact P).
  split; [exact Pc|]. split; [exact (reorder_ordered (combs d) succ l Hrep Hv T)|].
  eapply single_driver_perm; eauto.
Qed.

Lemma sorted_topo (d : design St) succ K l :
  represents (combs d) succ -> single_driver (combs d) ->
  sort_fuel succ K (seq 0 (length (combs d))) = Sorted l ->
  Spec.C05.topo (combs (with_combs d (reorder (combs d) l))).
Proof.
  intros Hrep Hsd H. destruct (sorted_schedule d succ K l Hrep Hsd H) as (_ & Ho & Hs).
  cbn [combs with_combs]. apply ordered_single_driver_topo; assumption.
Qed.

(* ------------------------------------------------------------------ two designs that differ only in combs *)
Lemma clk_cycle_combs_ext (d : design St) cs1 cs2 :
  (forall vs, propagateAll (with_combs d cs1) vs = propagateAll (with_combs d cs2) vs) ->
  forall s, clk_cycle (with_combs d cs1) s = clk_cycle (with_combs d cs2) s.
Proof. intros H s. unfold clk_cycle. rewrite H. reflexivity. Qed.

Lemma cycles_combs_ext (d : design St) cs1 cs2 :
  (forall vs, propagateAll (with_combs d cs1) vs = propagateAll (with_combs d cs2) vs) ->
  forall n s, cycles (with_combs d cs1) n s = cycles (with_combs d cs2) n s.
Proof.
  intros H. induction n as [|n IH]; intros s; cbn [cycles]; [reflexivity|].
  rewrite (clk_cycle_combs_ext d cs1 cs2 H). apply IH.
Qed.

Lemma clk_combs_ext (d : design St) cs1 cs2 :
  (forall vs, propagateAll (with_combs d cs1) vs = propagateAll (with_combs d cs2) vs) ->
  forall n s, clk (with_combs d cs1) n s = clk (with_combs d cs2) n s.
Proof. intros H n s. unfold clk. rewrite H. apply cycles_combs_ext, H. Qed.

Lemma with_combs_same_frame (d1 d2 : design St) cs :
  widths d1 = widths d2 -> seqs d1 = seqs d2 -> drivers d1 = drivers d2 -> with_combs d2 cs = with_combs d1 cs.
Proof. intros Hw Hs Hd. unfold with_combs. now rewrite Hw, Hs, Hd. Qed.
End Sorted.

(* ------------------------------------------------------------------ the theorems of Properties/C04.v *)
Lemma ordered_single_driver_topo_thm : forall cs, ordered cs -> single_driver cs -> Spec.C05.topo cs.
Proof. exact ordered_single_driver_topo. Qed.

Lemma sorted_settled_after_init_and_clk_thm :
  forall (St : Type) (d : design St) succ K l (st0 : list St) (s : state St) (n : nat),
  represents (combs d) succ -> single_driver (combs d) ->
  closed succ (seq 0 (length (combs d))) ->
  sort_fuel succ K (seq 0 (length (combs d))) = Sorted l ->
  let d' := with_combs d (reorder (combs d) l) in
  settled d' (vals (init d' st0)) /\ settled d' (vals (clk d' n s)).
Proof.
  intros St d succ K l st0 s n Hrep Hsd _ H d'.
  destruct (sorted_schedule d succ K l Hrep Hsd H) as (_ & Ho & Hs).
  split; [apply init_settled | apply clk_settled]; assumption.
Qed.

Lemma construction_order_independent_run_thm :
  forall (St : Type) (d1 d2 : design St) succ1 succ2 K l1 l2 (st0 : list St) (s : state St) (n : nat),
  same_netlist d1 d2 -> seqs d1 = seqs d2 -> drivers d1 = drivers d2 ->
  single_driver (combs d1) -> (forall c, In c (combs d1) -> definite c) ->
  represents (combs d1) succ1 -> represents (combs d2) succ2 ->
  sort_fuel succ1 K (seq 0 (length (combs d1))) = Sorted l1 ->
  sort_fuel succ2 K (seq 0 (length (combs d2))) = Sorted l2 ->
  let d1' := with_combs d1 (reorder (combs d1) l1) in
  let d2' := with_combs d2 (reorder (combs d2) l2) in
  init d1' st0 = init d2' st0 /\ clk d1' n s = clk d2' n s.
Proof.
  intros St d1 d2 succ1 succ2 K l1 l2 st0 s n Hsame Hseq Hdrv Hsd Hdef R1 R2 S1 S2 d1' d2'.
  assert (Hp : forall vs, propagateAll d1' vs = propagateAll d2' vs).
  { intros vs. exact (construction_order_independent_thm St d1 d2 succ1 succ2 K l1 l2 vs Hsame Hsd Hdef R1 R2 S1 S2). }
  destruct Hsame as [Hw _].
  assert (E : d2' = with_combs d1 (reorder (combs d2) l2)) by (apply with_combs_same_frame; assumption).
  rewrite E in *. split.
  - unfold init. rewrite Hp. reflexivity.
  - apply clk_combs_ext. exact Hp.
Qed.

(* ------------------------------------------------------------------ a concrete instance: a toggling register
   wire0 = q, wire1 = NOT q, wire2 = BUF wire1, register d = wire2 -> q = wire0; the two combinational leaves
   instantiated sink first (tog_bad) and source first (tog_good); every leaf writes its out-port on every call *)
Definition dleaf_not : cleaf := {| c_in := [0]; c_out := [1]; c_f := fun ins => [Some (1 - nth 0 ins 0)%Z] |}.
Definition dleaf_buf : cleaf := {| c_in := [1]; c_out := [2]; c_f := fun ins => [Some (nth 0 ins 0%Z)] |}.
Definition tog_reg : sleaf Z :=
  {| s_in := [2]; s_out := [0]; s_f := fun _ ins => (nth 0 ins 0%Z, [Some (nth 0 ins 0%Z)]) |}.
Definition tog_bad : design Z :=
  {| widths := [1; 1; 1]%Z; combs := [dleaf_buf; dleaf_not]; seqs := [tog_reg];
     drivers := [{| d_enable := None; d_leaves := [0] |}] |}.
Definition tog_good : design Z :=
  {| widths := [1; 1; 1]%Z; combs := [dleaf_not; dleaf_buf]; seqs := [tog_reg];
     drivers := [{| d_enable := None; d_leaves := [0] |}] |}.
Definition tog_bad_succ (x : nat) : list nat := match x with 1 => [0] | _ => [] end.
Definition tog_good_succ (x : nat) : list nat := match x with 0 => [1] | _ => [] end.

Lemma tog_bad_represents : represents (combs tog_bad) tog_bad_succ.
Proof.
  intros i j a b Hi Hj.
  destruct i as [|[|i]], j as [|[|j]]; simpl in Hi, Hj; try (destruct i; discriminate); try (destruct j; discriminate);
    injection Hi as <-; injection Hj as <-; unfold feeds; simpl; split.
  all: try (intros []; fail).
  all: try (intros (w & Ho & Hin); simpl in Ho, Hin; intuition; subst; discriminate).
  - intros _. exists 1. auto.
  - intros [E|[]]. discriminate.
Qed.

Lemma tog_good_represents : represents (combs tog_good) tog_good_succ.
Proof.
  intros i j a b Hi Hj.
  destruct i as [|[|i]], j as [|[|j]]; simpl in Hi, Hj; try (destruct i; discriminate); try (destruct j; discriminate);
    injection Hi as <-; injection Hj as <-; unfold feeds; simpl; split.
  all: try (intros []; fail).
  all: try (intros (w & Ho & Hin); simpl in Ho, Hin; intuition; subst; discriminate).
  - intros [E|[]]. discriminate.
  - intros _. exists 1. auto.
Qed.

Lemma tog_bad_single_driver : single_driver (combs tog_bad).
Proof. unfold single_driver. simpl. constructor; [simpl; intuition discriminate|]. constructor; [simpl; tauto|]. constructor. Qed.

Lemma tog_closed : closed tog_bad_succ (seq 0 (length (combs tog_bad))).
Proof. intros x y Hx Hy. destruct x as [|[|x]]; simpl in Hy; intuition; subst; simpl; auto. Qed.

Lemma tog_definite : forall c, In c (combs tog_bad) -> definite c.
Proof.
  intros c [<-|[<-|[]]] ins; simpl; (split; [reflexivity|]); constructor; try discriminate; constructor.
Qed.

(* hypotheses of sorted_settled_after_init_and_clk_thm (and of the C05 split for sorter-ordered designs) hold, the
   sorter really reorders, and the register toggles: q = 1,0,1 after 1,2,3 cycles from power-up *)
Lemma tog_sorted_hyps :
  represents (combs tog_bad) tog_bad_succ /\ single_driver (combs tog_bad) /\
  closed tog_bad_succ (seq 0 (length (combs tog_bad))) /\
  sort_fuel tog_bad_succ py4hw_loop_limit (seq 0 (length (combs tog_bad))) = Sorted [1; 0] /\
  with_combs tog_bad (reorder (combs tog_bad) [1; 0]) = tog_good /\
  map (fun n => vals (clk tog_good n (init tog_good [0%Z]))) [1; 2; 3] = [[1; 0; 0]; [0; 1; 1]; [1; 0; 0]]%Z /\
  ~ settled tog_bad (vals (clk tog_bad 1 (init tog_bad [0%Z]))).
Proof.
  split; [exact tog_bad_represents|]. split; [exact tog_bad_single_driver|]. split; [exact tog_closed|].
  split; [vm_compute; reflexivity|]. split; [reflexivity|]. split; [vm_compute; reflexivity|].
  intros H. specialize (H dleaf_buf (or_introl eq_refl)). vm_compute in H. discriminate.
Qed.

(* hypotheses of construction_order_independent_run_thm *)
Lemma tog_two_orders_hyps :
  same_netlist tog_bad tog_good /\ seqs tog_bad = seqs tog_good /\ drivers tog_bad = drivers tog_good /\
  single_driver (combs tog_bad) /\ (forall c, In c (combs tog_bad) -> definite c) /\
  represents (combs tog_bad) tog_bad_succ /\ represents (combs tog_good) tog_good_succ /\
  sort_fuel tog_bad_succ py4hw_loop_limit (seq 0 (length (combs tog_bad))) = Sorted [1; 0] /\
  sort_fuel tog_good_succ py4hw_loop_limit (seq 0 (length (combs tog_good))) = Sorted [0; 1].
Proof.
  split; [split; [reflexivity|apply perm_swap]|]. split; [reflexivity|]. split; [reflexivity|].
  split; [exact tog_bad_single_driver|]. split; [exact tog_definite|].
  split; [exact tog_bad_represents|]. split; [exact tog_good_represents|].
  split; vm_compute; reflexivity.
Qed.
