(* C04: on a finite closed leaf set, "no leaf reaches itself" (no combinational cycle, self-loops included) is the same
   as "a ranking exists"; so C04_sort_terminates applies to every acyclic netlist in the literal sense.
   Ranking: d x = N - (length of the longest dependency walk from x), N = number of leaves. *)
From Coq Require Import List Arith Lia Bool PeanoNat Permutation.
From V Require Import Model.Sort Spec.C04 Proofs.C04.SortLemmas.
Import ListNotations.
Local Open Scope nat_scope.

Section A.
Variable succ : nat -> list nat.

(* ranking => no cycle *)
Lemma ranking_path l d x y : closed succ l -> ranking succ l d -> In x l -> path succ x y -> d x < d y.
Proof.
  intros Hc Hr Hx P. induction P as [x y E|x y z E P IH]; [now apply Hr|].
  assert (d x < d y) by now apply Hr. assert (In y l) by (eapply Hc; eauto). specialize (IH H0). lia.
Qed.

Lemma ranking_acyclic l d : closed succ l -> ranking succ l d -> forall x, In x l -> ~ path succ x x.
Proof. intros Hc Hr x Hx P. pose proof (ranking_path l d x x Hc Hr Hx P). lia. Qed.

(* walks as vertex lists *)
Fixpoint chain (w : list nat) : Prop :=
  match w with
  | x :: (y :: _) as t => In y (succ x) /\ chain t
  | _ => True
  end.

Lemma chain_suffix : forall a t, chain (a ++ t) -> chain t.
Proof.
  induction a as [|x a IH]; intros t H; [exact H|].
  apply IH. destruct a as [|y a]; cbn [app] in *.
  - destruct t; [exact I|]. exact (proj2 H).
  - exact (proj2 H).
Qed.

Lemma chain_path : forall b v u c, chain (v :: b ++ u :: c) -> path succ v u.
Proof.
  induction b as [|y b IH]; intros v u c H; cbn [app] in H.
  - apply path_edge. exact (proj1 H).
  - destruct H as [E H]. eapply path_step; [exact E|]. eapply IH; exact H.
Qed.

Lemma chain_incl l : closed succ l -> forall w x, In x l -> chain (x :: w) -> incl (x :: w) l.
Proof.
  intros Hc. induction w as [|y w IH]; intros x Hx H z Hz.
  - destruct Hz as [<-|[]]. exact Hx.
  - destruct H as [E H]. destruct Hz as [<-|Hz]; [exact Hx|].
    apply (IH y); auto. eapply Hc; eauto.
Qed.

Lemma dup_split : forall w : list nat, ~ NoDup w -> exists v a b c, w = a ++ v :: b ++ v :: c.
Proof.
  induction w as [|x w IH]; intros H; [exfalso; apply H; constructor|].
  destruct (in_dec Nat.eq_dec x w) as [Hin|Hnot].
  - apply in_split in Hin. destruct Hin as (b & c & ->). exists x, [], b, c. reflexivity.
  - destruct IH as (v & a & b & c & ->); [intros Hnd; apply H; now constructor|].
    exists v, (x :: a), b, c. reflexivity.
Qed.

(* a walk with more vertices than leaves closes a cycle *)
Lemma long_walk_cycle l w x : closed succ l -> In x l -> chain (x :: w) -> length l < length (x :: w) ->
  exists v, In v l /\ path succ v v.
Proof.
  intros Hc Hx H Hlen.
  pose proof (chain_incl l Hc w x Hx H) as Hincl.
  assert (Hnd : ~ NoDup (x :: w)) by (intros Hnd; pose proof (NoDup_incl_length Hnd Hincl); lia).
  destruct (dup_split _ Hnd) as (v & a & b & c & E). rewrite E in H, Hincl.
  exists v. split.
  - apply Hincl. apply in_or_app. right. now left.
  - apply chain_suffix in H. eapply chain_path; exact H.
Qed.

(* longest walk from x using at most k edges *)
Fixpoint H (k x : nat) : nat :=
  match k with
  | 0 => 0
  | S k' => fold_right (fun y m => Nat.max (S (H k' y)) m) 0 (succ x)
  end.

Lemma fold_max_ge (f : nat -> nat) : forall ys y, In y ys -> f y <= fold_right (fun y m => Nat.max (f y) m) 0 ys.
Proof.
  induction ys as [|z ys IH]; intros y Hin; [destruct Hin|].
  destruct Hin as [<-|Hin]; cbn [fold_right]; [lia|]. specialize (IH y Hin). lia.
Qed.

Lemma fold_max_witness (f : nat -> nat) : forall ys j, 0 < j -> j <= fold_right (fun y m => Nat.max (f y) m) 0 ys ->
  exists y, In y ys /\ j <= f y.
Proof.
  induction ys as [|z ys IH]; intros j Hj H; cbn [fold_right] in H; [lia|].
  destruct (Nat.le_gt_cases j (f z)) as [Hle|Hgt]; [exists z; split; [now left|exact Hle]|].
  destruct (IH j Hj ltac:(lia)) as (y & Hin & Hy). exists y. split; [now right|exact Hy].
Qed.

Lemma H_le : forall k x, H k x <= k.
Proof.
  induction k as [|k IH]; intros x; cbn [H]; [lia|].
  induction (succ x) as [|y ys IHy]; cbn [fold_right]; [lia|]. specialize (IH y). lia.
Qed.

Lemma H_step k x y : In y (succ x) -> S (H k y) <= H (S k) x.
Proof. intros Hin. cbn [H]. exact (fold_max_ge (fun y => S (H k y)) (succ x) y Hin). Qed.

Lemma H_walk : forall k x j, j <= H k x -> exists w, chain (x :: w) /\ length w = j.
Proof.
  induction k as [|k IH]; intros x j Hj.
  - cbn [H] in Hj. exists []. split; [exact I|cbn [length]; lia].
  - destruct j as [|j]; [exists []; split; [exact I|reflexivity]|].
    cbn [H] in Hj. destruct (fold_max_witness (fun y => S (H k y)) (succ x) (S j) ltac:(lia) Hj) as (y & Hin & Hy).
    destruct (IH y j ltac:(lia)) as (w & Hw & Hl). exists (y :: w). split; [split; assumption|cbn [length]; lia].
Qed.

Lemma walk_H : forall k x w, chain (x :: w) -> length w <= k -> length w <= H k x.
Proof.
  induction k as [|k IH]; intros x w Hc Hl; [lia|].
  destruct w as [|y w]; [cbn [length]; lia|].
  destruct Hc as [E Hc]. cbn [length] in *. specialize (IH y w Hc ltac:(lia)).
  pose proof (H_step k x y E). lia.
Qed.

(* with no cycle, N edges are never reached, so the (N+1)-bounded height equals the N-bounded one *)
Lemma H_stable l x : closed succ l -> (forall v, In v l -> ~ path succ v v) -> In x l ->
  H (S (length l)) x <= H (length l) x.
Proof.
  intros Hc Hac Hx.
  destruct (H_walk (S (length l)) x (H (S (length l)) x) (le_n _)) as (w & Hw & Hl).
  destruct (Nat.le_gt_cases (length w) (length l)) as [Hle|Hgt].
  - pose proof (walk_H (length l) x w Hw Hle). lia.
  - exfalso. destruct (long_walk_cycle l w x Hc Hx Hw) as (v & Hv & P); [cbn [length]; lia|].
    exact (Hac v Hv P).
Qed.

Lemma acyclic_ranking l : closed succ l -> (forall v, In v l -> ~ path succ v v) ->
  ranking succ l (fun x => length l - H (length l) x).
Proof.
  intros Hc Hac x y Hx Hy.
  pose proof (H_step (length l) x y Hy). pose proof (H_stable l x Hc Hac Hx).
  pose proof (H_le (length l) x). pose proof (H_le (length l) y). lia.
Qed.

Lemma acyclic_iff_ranking l : closed succ l ->
  ((forall v, In v l -> ~ path succ v v) <-> exists d, ranking succ l d).
Proof.
  intros Hc. split.
  - intros Hac. eexists. apply acyclic_ranking; assumption.
  - intros [d Hr]. eapply ranking_acyclic; eauto.
Qed.

Lemma sort_terminates_acyclic l : NoDup l -> closed succ l -> (forall v, In v l -> ~ path succ v v) ->
  exists K0, forall l0, Permutation l l0 -> forall K, K0 <= K -> exists l', sort_fuel succ K l0 = Sorted l'.
Proof.
  intros Hnd Hc Hac. pose proof (acyclic_ranking l Hc Hac) as Hr.
  eexists. intros l0 P K HK. eapply sort_fuel_terminates; eauto.
Qed.
End A.
