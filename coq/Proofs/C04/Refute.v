(* C04: witnesses, by computation on the faithful model, of the two clauses that are FALSE of the real sorter
   (DESIGN.md section 7 #13 and #14), plus non-vacuity instances used by Properties/C04.v. *)
From V Require Import Base.PyInt Gen.WireOps Model.SimKernel Model.Sort Spec.C04.
From Coq Require Import Permutation PeanoNat Arith.
Local Open Scope nat_scope.

(* ---- #13 (repaired in /repo 04873f4): a leaf that feeds itself is now refused with the loop error ---- *)
Definition selfloop_succ (x : nat) : list nat := match x with 0 => [0] | _ => [] end.

Lemma selfloop_refused :
  NoDup [0; 1] /\ closed selfloop_succ [0; 1] /\ self_loop selfloop_succ 0 /\
  sort_fuel selfloop_succ py4hw_loop_limit [0; 1] = LoopError 0 /\
  sort_fuel selfloop_succ py4hw_loop_limit [1; 0] = LoopError 0.
Proof.
  split; [|split; [|split; [|split]]].
  - constructor; [simpl; intuition discriminate|]. constructor; [simpl; tauto|]. constructor.
  - intros x y Hx Hy. destruct x as [|[|x]]; simpl in Hy; intuition; subst; simpl; auto.
  - now left.
  - vm_compute. reflexivity.
  - vm_compute. reflexivity.
Qed.

(* why the refusal matters: a netlist with a self-feeding leaf is NOT settled by propagateAll (inverter on its own output) *)
Definition inv_loop : design unit :=
  {| widths := [1%Z]; combs := [{| c_in := [0]; c_out := [0];
                                   c_f := fun ins => match ins with [a] => [Some (Z.lnot a)] | _ => [] end |}];
     seqs := []; drivers := [] |}.

Lemma selfloop_not_settled : single_driver (combs inv_loop) /\ ~ settled inv_loop (propagateAll inv_loop [0%Z]).
Proof.
  split.
  - unfold single_driver. simpl. repeat constructor. intros [].
  - intros H. specialize (H _ (or_introl eq_refl)). vm_compute in H. discriminate.
Qed.

(* ---- #14: the pass limit rejects acyclic netlists ---- *)
(* a chain of n buffers: leaf x feeds leaf x+1 *)
Definition chain_succ (n x : nat) : list nat := if S x <? n then [S x] else [].
Definition rev_chain (n : nat) : list nat := rev (seq 0 n).

Lemma chain_ranking n l : ranking (chain_succ n) l (fun x => x).
Proof.
  intros x y _ Hy. unfold chain_succ in Hy. destruct (S x <? n); simpl in Hy; [|tauto].
  destruct Hy as [<-|[]]. lia.
Qed.

Lemma chain_closed n : closed (chain_succ n) (rev_chain n).
Proof.
  intros x y _ Hy. unfold chain_succ in Hy. destruct (Nat.ltb_spec (S x) n) as [Hlt|]; simpl in Hy; [|tauto].
  destruct Hy as [<-|[]]. unfold rev_chain. apply -> in_rev. apply in_seq. lia.
Qed.

Lemma rev_chain_nodup n : NoDup (rev_chain n).
Proof. unfold rev_chain. apply NoDup_rev, seq_NoDup. Qed.

(* with K passes allowed, the reversed chain of K+1 leaves is refused, while K+1 passes sort it: checked for every
   K from 1 to 32 by computation (the real constant K = 1000 is replayed on the real simulator by the check) *)
Definition limit_case (K : nat) : bool :=
  match sort_fuel (chain_succ (S K)) K (rev_chain (S K)), sort_fuel (chain_succ (S K)) (S K) (rev_chain (S K)) with
  | LimitError, Sorted l => if list_eq_dec Nat.eq_dec l (seq 0 (S K)) then true else false
  | _, _ => false
  end.

Lemma limit_cases : forallb limit_case (seq 1 32) = true.
Proof. vm_compute. reflexivity. Qed.

Lemma limit_rejects K : 1 <= K <= 32 ->
  sort_fuel (chain_succ (S K)) K (rev_chain (S K)) = LimitError /\
  sort_fuel (chain_succ (S K)) (S K) (rev_chain (S K)) = Sorted (seq 0 (S K)).
Proof.
  intros HK. pose proof limit_cases as H. rewrite forallb_forall in H.
  specialize (H K ltac:(apply in_seq; lia)). unfold limit_case in H.
  destruct (sort_fuel (chain_succ (S K)) K (rev_chain (S K))); try discriminate.
  destruct (sort_fuel (chain_succ (S K)) (S K) (rev_chain (S K))) as [l| |]; try discriminate.
  destruct (list_eq_dec Nat.eq_dec l (seq 0 (S K))) as [->|]; [auto|discriminate].
Qed.

(* ---- non-vacuity instances ---- *)
(* x=0, u=1, y=2 with u -> y -> x : instantiated sinks-first, needs two swapping passes *)
Definition ex_succ (x : nat) : list nat := match x with 1 => [2] | 2 => [0] | _ => [] end.
Lemma ex_sorts : sort_fuel ex_succ py4hw_loop_limit [0; 1; 2] = Sorted [1; 2; 0].
Proof. vm_compute. reflexivity. Qed.

(* two leaves feeding each other *)
Definition cyc_succ (x : nat) : list nat := match x with 0 => [1] | 1 => [0] | _ => [] end.
Lemma cyc_has_cycle : NoDup [0; 1] /\ closed cyc_succ [0; 1] /\ has_cycle2 cyc_succ [0; 1].
Proof.
  repeat split.
  - constructor; [simpl; intuition discriminate|]. constructor; [simpl; tauto|]. constructor.
  - intros x y Hx Hy. destruct x as [|[|x]]; simpl in Hy; intuition; subst; simpl; auto.
  - exists 0, 1. repeat split; [now left | discriminate | apply path_edge; now left | apply path_edge; now left].
Qed.

(* a two-leaf netlist: wire0 -> NOT -> wire1 -> BUF -> wire2, listed sink first / source first *)
Definition leaf_not : cleaf := {| c_in := [0]; c_out := [1]; c_f := fun ins => match ins with [a] => [Some (Z.lnot a)] | _ => [None] end |}.
Definition leaf_buf : cleaf := {| c_in := [1]; c_out := [2]; c_f := fun ins => match ins with [a] => [Some a] | _ => [None] end |}.
Definition two_good : design unit := {| widths := [1; 1; 1]%Z; combs := [leaf_not; leaf_buf]; seqs := []; drivers := [] |}.
Definition two_bad : design unit := {| widths := [1; 1; 1]%Z; combs := [leaf_buf; leaf_not]; seqs := []; drivers := [] |}.

Lemma two_good_ok : ordered (combs two_good) /\ single_driver (combs two_good) /\
  propagateAll two_good [0; 0; 0]%Z = [0; 1; 1]%Z.
Proof.
  repeat split.
  - intros i j a b Hi Hj (w & Ho & Hin).
    destruct i as [|[|i]], j as [|[|j]]; simpl in Hi, Hj; try (destruct i; discriminate); try (destruct j; discriminate);
      injection Hi as <-; injection Hj as <-; simpl in Ho, Hin; intuition; subst; try discriminate; lia.
  - unfold single_driver. simpl. repeat constructor; simpl; intuition discriminate.
Qed.

(* the unsorted list leaves the netlist unsettled: this is what the sorter is for *)
Lemma two_bad_unsettled : ~ settled two_bad (propagateAll two_bad [0; 0; 0]%Z).
Proof. intros H. specialize (H leaf_buf (or_introl eq_refl)). vm_compute in H. discriminate. Qed.

(* the sorter's graph for two_bad (leaf 0 = buf, leaf 1 = not; not feeds buf) and what it does with it *)
Definition two_bad_succ (x : nat) : list nat := match x with 1 => [0] | _ => [] end.

Lemma two_bad_represents : represents (combs two_bad) two_bad_succ /\ (forall i, ~ self_loop two_bad_succ i) /\
  single_driver (combs two_bad) /\
  sort_fuel two_bad_succ py4hw_loop_limit (seq 0 (length (combs two_bad))) = Sorted [1; 0] /\
  reorder (combs two_bad) [1; 0] = combs two_good.
Proof.
  split; [|split; [|split; [|split]]].
  - intros i j a b Hi Hj.
    destruct i as [|[|i]], j as [|[|j]]; simpl in Hi, Hj; try (destruct i; discriminate); try (destruct j; discriminate);
      injection Hi as <-; injection Hj as <-; unfold feeds; simpl; split.
    all: try (intros []; fail).
    all: try (intros (w & Ho & Hin); simpl in Ho, Hin; intuition; subst; discriminate).
    + intros _. exists 1. auto.
    + intros [E|[]]. discriminate.
  - intros [|[|i]]; unfold self_loop; simpl; intuition discriminate.
  - unfold single_driver. simpl. constructor; [simpl; intuition discriminate|]. constructor; [simpl; tauto|]. constructor.
  - vm_compute. reflexivity.
  - reflexivity.
Qed.
