(* C04: the sorter on a chain of n leaves instantiated sink-first needs exactly n passes, for EVERY n.
   Each pass moves one more leaf to its final place:
       R m = [0 .. m-1] ++ [n-1, n-2, .., m]      pass (R m) = (R (m+1), changed)   while n - m >= 2. *)
From Coq Require Import List Arith Lia Bool PeanoNat.
From V Require Import Model.Sort Spec.C04 Proofs.C04.Refute.
Import ListNotations.
Local Open Scope nat_scope.

(* ------------------------------------------------------------------ lists *)
Lemma index_of_seq_app : forall m a R x,
  index_of x (seq a m ++ R) = if (a <=? x) && (x <? a + m) then x - a else m + index_of x R.
Proof.
  induction m as [|m IH]; intros a R x; cbn [seq app index_of].
  - destruct (a <=? x) eqn:E1; cbn [andb]; [|reflexivity].
    destruct (Nat.ltb_spec x (a + 0)); [lia|reflexivity].
  - destruct (Nat.eqb_spec x a) as [->|Hne].
    + rewrite Nat.leb_refl. cbn [andb]. destruct (Nat.ltb_spec a (a + S m)); lia.
    + rewrite IH.
      destruct (Nat.leb_spec (S a) x), (Nat.leb_spec a x), (Nat.ltb_spec x (S a + m)), (Nat.ltb_spec x (a + S m));
        cbn [andb]; lia.
Qed.

Lemma index_of_app_notin : forall P R x, ~ In x P -> index_of x (P ++ R) = length P + index_of x R.
Proof.
  induction P as [|y P IH]; intros R x H; cbn [app index_of length]; [reflexivity|].
  destruct (Nat.eqb_spec x y) as [->|Hne]; [exfalso; apply H; now left|].
  rewrite IH; [lia|]. intros Hin; apply H; now right.
Qed.

Lemma index_of_head x R : index_of x (x :: R) = 0.
Proof. cbn [index_of]. now rewrite Nat.eqb_refl. Qed.

Lemma set_nth_middle : forall P x T v, set_nth (P ++ x :: T) (length P) v = P ++ v :: T.
Proof. induction P as [|y P IH]; intros x T v; cbn [app length set_nth]; [reflexivity|]. now rewrite IH. Qed.

Lemma nth_shape P h A y B : nth (length P + 1 + length A) (P ++ h :: A ++ y :: B) 0 = y.
Proof.
  replace (P ++ h :: A ++ y :: B) with ((P ++ h :: A) ++ y :: B) by (now rewrite <- app_assoc).
  replace (length P + 1 + length A) with (length (P ++ h :: A)) by (rewrite app_length; cbn [length]; lia).
  apply nth_middle.
Qed.

Lemma swap_shape P h A y B :
  swap (P ++ h :: A ++ y :: B) (length P) (length P + 1 + length A) = P ++ y :: A ++ h :: B.
Proof.
  unfold swap. rewrite nth_shape, nth_middle, set_nth_middle.
  replace (P ++ y :: A ++ y :: B) with ((P ++ y :: A) ++ y :: B) by (now rewrite <- app_assoc).
  replace (length P + 1 + length A) with (length (P ++ y :: A)) by (rewrite app_length; cbn [length]; lia).
  rewrite set_nth_middle. now rewrite <- app_assoc.
Qed.

(* ------------------------------------------------------------------ the chain *)
Section Chain.
Variable n : nat.
Let succ := chain_succ n.

Lemma first_dep_chain l x : first_dep succ l x = if S x <? n then Some (index_of (S x) l) else None.
Proof.
  unfold first_dep, succ, chain_succ. destruct (S x <? n); [|reflexivity].
  cbn [fold_left]. now rewrite Nat.min_id.
Qed.

Lemma pass_step k i l ch : pass_from succ (S k) i l ch =
  if S (nth i l 0) <? n
  then if index_of (S (nth i l 0)) l =? i then PassLoop (nth i l 0)
       else if index_of (S (nth i l 0)) l <? i
       then pass_from succ k (S i) (swap l (index_of (S (nth i l 0)) l) i) true
       else pass_from succ k (S i) l ch
  else pass_from succ k (S i) l ch.
Proof. cbn [pass_from]. rewrite first_dep_chain. destruct (S (nth i l 0) <? n); reflexivity. Qed.

(* the already sorted prefix 0..m-1 is left alone *)
Lemma prefix_steps : forall k i m T ch rest, i + k <= m ->
  pass_from succ (k + rest) i (seq 0 m ++ T) ch = pass_from succ rest (i + k) (seq 0 m ++ T) ch.
Proof.
  induction k as [|k IH]; intros i m T ch rest H; [now rewrite Nat.add_0_r|].
  cbn [Nat.add]. rewrite pass_step.
  assert (Hn : nth i (seq 0 m ++ T) 0 = i) by (rewrite app_nth1 by (rewrite seq_length; lia); rewrite seq_nth; lia).
  rewrite Hn.
  assert (Hidx : i < index_of (S i) (seq 0 m ++ T)).
  { rewrite index_of_seq_app. cbn [Nat.leb andb Nat.add]. destruct (Nat.ltb_spec (S i) m); lia. }
  destruct (S i <? n).
  - destruct (Nat.eqb_spec (index_of (S i) (seq 0 m ++ T)) i); [lia|].
    destruct (Nat.ltb_spec (index_of (S i) (seq 0 m ++ T)) i); [lia|].
    rewrite IH by lia. f_equal. lia.
  - rewrite IH by lia. f_equal. lia.
Qed.

(* the tail [c+b-1 .. c] behind the current head c+b: every element is swapped with the head *)
Lemma tail_pass : forall b c P A ch, (forall p, In p P -> p < c) -> c + b < n ->
  pass_from succ b (length P + 1 + length A) (P ++ (c + b) :: A ++ rev (seq c b)) ch
  = PassOk (P ++ c :: A ++ rev (seq (S c) b)) (ch || (0 <? b)).
Proof.
  induction b as [|b IH]; intros c P A ch HP Hn.
  - cbn [pass_from seq rev]. rewrite Nat.add_0_r, orb_false_r. reflexivity.
  - rewrite seq_S, rev_app_distr. cbn [rev app].
    rewrite pass_step.
    pose proof (nth_shape P (c + S b) A (c + b) (rev (seq c b))) as Hnth.
    rewrite Hnth.
    assert (Hidx : index_of (S (c + b)) (P ++ (c + S b) :: A ++ (c + b) :: rev (seq c b)) = length P).
    { rewrite index_of_app_notin by (intros Hin; apply HP in Hin; lia).
      replace (S (c + b)) with (c + S b) by lia. rewrite index_of_head. lia. }
    rewrite Hidx.
    destruct (Nat.ltb_spec (S (c + b)) n) as [_|]; [|lia].
    destruct (Nat.eqb_spec (length P) (length P + 1 + length A)) as [|_]; [lia|].
    destruct (Nat.ltb_spec (length P) (length P + 1 + length A)) as [_|]; [|lia].
    rewrite swap_shape.
    replace (P ++ (c + b) :: A ++ (c + S b) :: rev (seq c b)) with (P ++ (c + b) :: (A ++ [c + S b]) ++ rev (seq c b))
      by (now rewrite <- app_assoc).
    replace (S (length P + 1 + length A)) with (length P + 1 + length (A ++ [c + S b]))
      by (rewrite app_length; cbn [length]; lia).
    rewrite IH by (auto; lia).
    rewrite (seq_S b (S c)), rev_app_distr. cbn [rev app]. rewrite <- app_assoc. cbn [app].
    replace (S c + b) with (c + S b) by lia. change (0 <? S b) with true. rewrite orb_true_r. reflexivity.
Qed.

(* R m = [0 .. m-1] ++ [n-1 .. m] *)
Definition R (m : nat) : list nat := seq 0 m ++ rev (seq m (n - m)).

Lemma R_length m : m <= n -> length (R m) = n.
Proof. intros H. unfold R. rewrite app_length, rev_length, !seq_length. lia. Qed.

Lemma pass_R m b : n - m = S b -> pass succ (R m) = PassOk (R (S m)) (0 <? b).
Proof.
  intros H. unfold pass. rewrite R_length by lia.
  unfold R at 1 2. rewrite H. rewrite seq_S, rev_app_distr. cbn [rev app].
  replace n with (m + (1 + b)) at 1 by lia.
  rewrite prefix_steps by lia. cbn [Nat.add].
  (* index m: the head n-1 has no dependent *)
  rewrite pass_step.
  assert (Hh : nth m (seq 0 m ++ (m + b) :: rev (seq m b)) 0 = m + b).
  { rewrite app_nth2 by (rewrite seq_length; lia). rewrite seq_length, Nat.sub_diag. reflexivity. }
  rewrite Hh.
  destruct (Nat.ltb_spec (S (m + b)) n) as [|_]; [lia|].
  pose proof (tail_pass b m (seq 0 m) [] false) as T. cbn [app length] in T.
  rewrite seq_length, Nat.add_0_r in T. replace (m + 1) with (S m) in T by lia.
  rewrite T; [| intros p Hp; apply in_seq in Hp; lia | lia].
  cbn [orb]. f_equal. unfold R. replace (n - S m) with b by lia.
  rewrite seq_S, <- app_assoc. reflexivity.
Qed.

Lemma R_sorted : R n = seq 0 n.
Proof. unfold R. rewrite Nat.sub_diag. cbn [seq rev]. apply app_nil_r. Qed.

(* exactly n - m passes are needed from R m *)
Lemma sort_R : forall b m K, n - m = S b ->
  sort_fuel succ K (R m) = if K <=? b then LimitError else Sorted (seq 0 n).
Proof.
  induction b as [|b IH]; intros m K H.
  - destruct K as [|K]; [reflexivity|]. cbn [sort_fuel]. rewrite (pass_R m 0 H). cbn [Nat.ltb Nat.leb].
    replace (S m) with n by lia. now rewrite R_sorted.
  - destruct K as [|K]; [reflexivity|]. cbn [sort_fuel]. rewrite (pass_R m (S b) H).
    change (0 <? S b) with true. cbv iota. rewrite (IH (S m) K) by lia. reflexivity.
Qed.
End Chain.

Lemma R_0 n : R n 0 = rev_chain n.
Proof. unfold R, rev_chain. cbn [seq app]. now rewrite Nat.sub_0_r. Qed.

(* for EVERY pass limit K >= 0: the sink-first chain of K+1 leaves is refused with K passes and sorted with K+1 *)
Lemma limit_rejects_all K :
  sort_fuel (chain_succ (S K)) K (rev_chain (S K)) = LimitError /\
  sort_fuel (chain_succ (S K)) (S K) (rev_chain (S K)) = Sorted (seq 0 (S K)).
Proof.
  rewrite <- R_0. split.
  - rewrite (sort_R (S K) K 0 K) by lia. now rewrite Nat.leb_refl.
  - rewrite (sort_R (S K) K 0 (S K)) by lia. destruct (Nat.leb_spec (S K) K); [lia|reflexivity].
Qed.

(* more generally: n leaves sink-first are sorted iff the limit is at least n *)
Lemma chain_passes n K : 1 <= n ->
  sort_fuel (chain_succ n) K (rev_chain n) = if K <? n then LimitError else Sorted (seq 0 n).
Proof.
  intros Hn. rewrite <- R_0. rewrite (sort_R n (n - 1) 0 K) by lia.
  destruct (Nat.leb_spec K (n - 1)), (Nat.ltb_spec K n); try lia; reflexivity.
Qed.
