(* C04: lemmas about the sorter model (Model/Sort.v): permutation, soundness of a no-change pass,
   the swap measure, termination on ranked (acyclic) graphs, rejection of cycles. *)
From Coq Require Import List Arith Lia Bool PeanoNat Permutation.
From V Require Import Model.Sort Spec.C04.
Import ListNotations.
Local Open Scope nat_scope.

(* ------------------------------------------------------------------ lists *)
Lemma set_nth_length l i v : length (set_nth l i v) = length l.
Proof. revert i; induction l as [|y t IH]; intros [|i]; simpl; auto. Qed.

Lemma nth_set_nth_same : forall l i v, i < length l -> nth i (set_nth l i v) 0 = v.
Proof. induction l as [|y t IH]; intros [|i] v H; simpl in *; try lia; auto. apply IH; lia. Qed.

Lemma nth_set_nth_other : forall l i j v, i <> j -> nth j (set_nth l i v) 0 = nth j l 0.
Proof. induction l as [|y t IH]; intros [|i] [|j] v H; simpl; auto; try lia. Qed.

Lemma set_nth_perm : forall l i v, i < length l -> Permutation (v :: l) (nth i l 0 :: set_nth l i v).
Proof.
  induction l as [|y t IH]; intros [|i] v H; simpl in *; try lia.
  - apply perm_swap.
  - eapply perm_trans; [apply perm_swap|].
    eapply perm_trans; [apply perm_skip, (IH i v); lia|]. apply perm_swap.
Qed.

Lemma swap_length l p i : length (swap l p i) = length l.
Proof. unfold swap. now rewrite !set_nth_length. Qed.

Lemma swap_perm l p i : p < i -> i < length l -> Permutation l (swap l p i).
Proof.
  intros Hpi Hi. unfold swap.
  pose proof (set_nth_perm l p (nth i l 0) ltac:(lia)) as H1.
  pose proof (set_nth_perm (set_nth l p (nth i l 0)) i (nth p l 0) ltac:(rewrite set_nth_length; lia)) as H2.
  rewrite nth_set_nth_other in H2 by lia.
  eapply Permutation_cons_inv. eapply perm_trans; [exact H1|exact H2].
Qed.

Lemma index_of_le l x : index_of x l <= length l.
Proof. induction l as [|y t IH]; simpl; [lia|]. destruct (Nat.eqb x y); lia. Qed.

Lemma index_of_in l x : In x l -> index_of x l < length l /\ nth (index_of x l) l 0 = x.
Proof.
  induction l as [|y t IH]; simpl; [tauto|]. intros H.
  destruct (Nat.eqb_spec x y) as [->|Hne]; [split; [lia|reflexivity]|].
  destruct H as [H|H]; [congruence|]. destruct (IH H). split; [lia|assumption].
Qed.

Lemma index_of_nth_error : forall l j y, NoDup l -> nth_error l j = Some y -> index_of y l = j.
Proof.
  induction l as [|z t IH]; intros [|j] y Hnd H; simpl in *; try discriminate.
  - injection H as ->. now rewrite Nat.eqb_refl.
  - inversion Hnd as [|? ? Hnotin Hnd']; subst.
    destruct (Nat.eqb_spec y z) as [->|Hne].
    + exfalso. apply Hnotin. eapply nth_error_In; eauto.
    + f_equal. apply IH; auto.
Qed.

Lemma nth_error_nth' (l : list nat) i x : nth_error l i = Some x -> i < length l /\ nth i l 0 = x.
Proof.
  intros H. split. - apply nth_error_Some. congruence. - now apply nth_error_nth.
Qed.

(* ------------------------------------------------------------------ findFirstDependentPosition *)
Lemma fold_min_spec (f : nat -> nat) : forall ss m0 r,
  fold_left (fun m s => Nat.min m (f s)) ss m0 = r ->
  r <= m0 /\ (forall s, In s ss -> r <= f s) /\ (r = m0 \/ exists s, In s ss /\ r = f s).
Proof.
  induction ss as [|s ss IH]; intros m0 r H; simpl in H.
  - subst. repeat split; auto. intros s [].
  - apply IH in H. destruct H as (H1 & H2 & H3). repeat split.
    + lia.
    + intros s' [<-|Hin]; [lia|auto].
    + destruct H3 as [H3|(s' & Hin & H3)].
      * destruct (Nat.min_spec m0 (f s)) as [[_ E]|[_ E]]; rewrite E in H3; [now left|].
        right. exists s. split; [now left|assumption].
      * right. exists s'. split; [now right|assumption].
Qed.

Section S.
Variable succ : nat -> list nat.

Lemma first_dep_none l x : first_dep succ l x = None -> succ x = [].
Proof. unfold first_dep. destruct (succ x); [auto|discriminate]. Qed.

Lemma first_dep_some l x p : first_dep succ l x = Some p ->
  (exists s, In s (succ x) /\ index_of s l = p) /\ (forall s, In s (succ x) -> p <= index_of s l).
Proof.
  unfold first_dep. destruct (succ x) as [|s0 ss] eqn:E; [discriminate|].
  intros H. injection H as H. cbn [fold_left] in H. rewrite Nat.min_id in H.
  apply fold_min_spec in H. destruct H as (H1 & H2 & H3). split.
  - destruct H3 as [H3|(s & Hin & H3)]; [exists s0; split; [now left|now symmetry]|exists s; split; [now right|now symmetry]].
  - intros s [<-|Hin]; [exact H1|exact (H2 s Hin)].
Qed.

(* the condition under which index i is left alone: every dependent strictly later *)
Definition quiet_at (l : list nat) (k : nat) : Prop :=
  forall s, In s (succ (nth k l 0)) -> k < index_of s l.

(* ------------------------------------------------------------------ one pass *)
Lemma pass_from_true : forall n i l l' ch', pass_from succ n i l true = PassOk l' ch' -> ch' = true.
Proof.
  induction n as [|n IH]; intros i l l' ch' H; simpl in H; [now injection H|].
  destruct (first_dep succ l (nth i l 0)) as [p|]; [|eauto].
  destruct (Nat.eqb p i); [discriminate|]. destruct (Nat.ltb p i); eauto.
Qed.

Lemma pass_from_perm : forall n i l ch l' ch', i + n = length l ->
  pass_from succ n i l ch = PassOk l' ch' -> Permutation l l'.
Proof.
  induction n as [|n IH]; intros i l ch l' ch' Hlen H; simpl in H.
  - injection H as <- _. apply Permutation_refl.
  - destruct (first_dep succ l (nth i l 0)) as [p|].
    + destruct (Nat.eqb p i); [discriminate|].
      destruct (Nat.ltb_spec p i) as [Hlt|Hge].
      * eapply perm_trans; [apply (swap_perm l p i); lia|].
        eapply IH; [|exact H]. rewrite swap_length. lia.
      * eapply IH; [|exact H]. lia.
    + eapply IH; [|exact H]. lia.
Qed.

(* a pass that reports "no change" performed no swap and raised nothing: the list is unchanged and every index was quiet *)
Lemma pass_from_nochange : forall n i l ch l',
  pass_from succ n i l ch = PassOk l' false ->
  ch = false /\ l' = l /\ forall k, i <= k < i + n -> quiet_at l k.
Proof.
  induction n as [|n IH]; intros i l ch l' H; simpl in H.
  - injection H as <- <-. repeat split; auto. intros k Hk. lia.
  - destruct (first_dep succ l (nth i l 0)) as [p|] eqn:E.
    + destruct (Nat.eqb_spec p i) as [Heq|Hne]; [discriminate|].
      destruct (Nat.ltb_spec p i) as [Hlt|Hge].
      * apply pass_from_true in H. discriminate.
      * apply IH in H. destruct H as (H1 & H2 & H3). repeat split; auto.
        intros k Hk. destruct (Nat.eq_dec k i) as [->|Hnk]; [|apply H3; lia].
        intros s Hs. apply first_dep_some in E. destruct E as [_ E]. specialize (E s Hs). lia.
    + apply IH in H. destruct H as (H1 & H2 & H3). repeat split; auto.
      intros k Hk. destruct (Nat.eq_dec k i) as [->|Hnk]; [|apply H3; lia].
      intros s Hs. apply first_dep_none in E. rewrite E in Hs. destruct Hs.
Qed.

(* the loop error names a leaf that really feeds itself *)
Lemma pass_from_loop : forall n i l ch x, i + n = length l -> NoDup l -> closed succ l ->
  pass_from succ n i l ch = PassLoop x -> In x l /\ In x (succ x).
Proof.
  induction n as [|n IH]; intros i l ch x Hlen Hnd Hc H; simpl in H; [discriminate|].
  assert (Hi : i < length l) by lia.
  destruct (first_dep succ l (nth i l 0)) as [p|] eqn:E.
  - destruct (Nat.eqb_spec p i) as [Heq|Hne].
    + injection H as <-. assert (Hx : In (nth i l 0) l) by (apply nth_In; exact Hi). split; [exact Hx|].
      apply first_dep_some in E. destruct E as [(s & Hs & Eidx) _].
      assert (Hsl : In s l) by (eapply Hc; eauto).
      destruct (index_of_in l s Hsl) as [_ En]. rewrite Eidx, Heq in En. rewrite En in Hs |- *. exact Hs.
    + destruct (Nat.ltb_spec p i) as [Hlt|Hge].
      * assert (P : Permutation l (swap l p i)) by (apply swap_perm; lia).
        apply IH in H; [| rewrite swap_length; lia | eapply Permutation_NoDup; eauto
                        | intros a b Ha Hb; eapply Permutation_in; [exact P|];
                          eapply Hc; [eapply Permutation_in; [apply Permutation_sym, P|exact Ha]|exact Hb]].
        destruct H as [Hx Hs]. split; [eapply Permutation_in; [apply Permutation_sym, P|exact Hx]|exact Hs].
      * eapply IH; [| | |exact H]; auto; lia.
  - eapply IH; [| | |exact H]; auto; lia.
Qed.

Lemma closed_perm l l' : Permutation l l' -> closed succ l -> closed succ l'.
Proof.
  intros P H x y Hx Hy. eapply Permutation_in; [exact P|].
  eapply H; [|exact Hy]. eapply Permutation_in; [apply Permutation_sym, P|exact Hx].
Qed.

Lemma quiet_topo l : NoDup l -> (forall k, k < length l -> quiet_at l k) -> strict_topo succ l.
Proof.
  intros Hnd Hq i j x y Hi Hj Hy.
  apply nth_error_nth' in Hi. destruct Hi as [Hlt Hx].
  specialize (Hq i Hlt y). rewrite Hx in Hq. specialize (Hq Hy).
  now rewrite (index_of_nth_error l j y Hnd Hj) in Hq.
Qed.

(* ------------------------------------------------------------------ soundness *)
Lemma sort_fuel_sound : forall K l l', NoDup l ->
  sort_fuel succ K l = Sorted l' -> Permutation l l' /\ strict_topo succ l'.
Proof.
  induction K as [|K IH]; intros l l' Hnd H; simpl in H; [discriminate|].
  unfold pass in H. destruct (pass_from succ (length l) 0 l false) as [l1 ch|x] eqn:E; [|discriminate].
  pose proof (pass_from_perm _ _ _ _ _ _ (eq_refl : 0 + length l = length l) E) as P.
  destruct ch.
  - apply IH in H; [|eapply Permutation_NoDup; eauto].
    destruct H as [P' T]. split; [eapply perm_trans; eauto|exact T].
  - injection H as <-. apply pass_from_nochange in E. destruct E as (_ & -> & Hq).
    split; [apply Permutation_refl|]. apply quiet_topo; auto. intros k Hk. apply Hq. lia.
Qed.

Lemma sort_fuel_loop : forall K l x, NoDup l -> closed succ l ->
  sort_fuel succ K l = LoopError x -> In x l /\ In x (succ x).
Proof.
  induction K as [|K IH]; intros l x Hnd Hc H; simpl in H; [discriminate|].
  unfold pass in H. destruct (pass_from succ (length l) 0 l false) as [l1 ch|y] eqn:E.
  - pose proof (pass_from_perm _ _ _ _ _ _ (eq_refl : 0 + length l = length l) E) as P.
    destruct ch; [|discriminate].
    apply IH in H; [| eapply Permutation_NoDup; eauto | eapply closed_perm; eauto].
    destruct H as [Hx Hs]. split; [eapply Permutation_in; [apply Permutation_sym, P|exact Hx]|exact Hs].
  - injection H as <-. eapply pass_from_loop; [| | |exact E]; auto.
Qed.

Lemma strict_is_topo l : strict_topo succ l -> topo succ l.
Proof. intros T i j x y Hi Hj Hy. specialize (T i j x y Hi Hj Hy). lia. Qed.

(* ------------------------------------------------------------------ cycles are rejected *)
Lemma path_in l x y : closed succ l -> In x l -> path succ x y -> In y l.
Proof.
  intros Hc Hx P. induction P as [x y E|x y z E P IH]; [eapply Hc; eauto|].
  apply IH. eapply Hc; eauto.
Qed.

Lemma strict_topo_path l x y : NoDup l -> closed succ l -> strict_topo succ l -> In x l -> path succ x y ->
  index_of x l < index_of y l.
Proof.
  intros Hnd Hc T Hx P. induction P as [x y E|x y z E P IH].
  - assert (Hy : In y l) by (eapply Hc; eauto).
    destruct (In_nth_error _ _ Hx) as [i Hi]. destruct (In_nth_error _ _ Hy) as [j Hj].
    rewrite (index_of_nth_error _ _ _ Hnd Hi), (index_of_nth_error _ _ _ Hnd Hj). eapply T; eauto.
  - assert (Hy : In y l) by (eapply Hc; eauto).
    specialize (IH Hy).
    destruct (In_nth_error _ _ Hx) as [i Hi]. destruct (In_nth_error _ _ Hy) as [j Hj].
    rewrite (index_of_nth_error _ _ _ Hnd Hi). rewrite (index_of_nth_error _ _ _ Hnd Hj) in IH.
    pose proof (T i j x y Hi Hj E). lia.
Qed.

(* any cycle (a leaf that reaches itself through >= 1 edge: self-loops included) rules out a strict order *)
Lemma cyclic_not_strict l : NoDup l -> closed succ l -> (exists v, In v l /\ path succ v v) -> ~ strict_topo succ l.
Proof.
  intros Hnd Hc (v & Hv & P) T. pose proof (strict_topo_path l v v Hnd Hc T Hv P). lia.
Qed.

Lemma sort_fuel_cyclic K l l' : NoDup l -> closed succ l -> (exists v, In v l /\ path succ v v) ->
  sort_fuel succ K l <> Sorted l'.
Proof.
  intros Hnd Hc (v & Hv & Pv) E. apply sort_fuel_sound in E; auto. destruct E as [P T].
  eapply (cyclic_not_strict l'); eauto.
  - eapply Permutation_NoDup; eauto.
  - eapply closed_perm; eauto.
  - exists v. split; [eapply Permutation_in; eauto|exact Pv].
Qed.

Lemma path_trans x y z : path succ x y -> path succ y z -> path succ x z.
Proof.
  intros P Q. induction P as [x y E|x y w E P IH]; [eapply path_step; eauto|].
  eapply path_step; [exact E|]. apply IH. exact Q.
Qed.

Lemma has_cycle2_cyclic l : has_cycle2 succ l -> exists v, In v l /\ path succ v v.
Proof.
  intros (x & y & Hx & _ & Pxy & Pyx). exists x. split; [exact Hx|]. eapply path_trans; eauto.
Qed.

(* without a self-feeding leaf the refusal of a cycle is always the pass limit *)
Lemma sort_fuel_cycle2_limit K l : NoDup l -> closed succ l -> has_cycle2 succ l ->
  (forall x, In x l -> ~ In x (succ x)) -> sort_fuel succ K l = LimitError.
Proof.
  intros Hnd Hc Hcy Hns. destruct (sort_fuel succ K l) as [l'|x|] eqn:E; [| |reflexivity].
  - exfalso. eapply sort_fuel_cyclic; eauto. now apply has_cycle2_cyclic.
  - exfalso. apply sort_fuel_loop in E; auto. destruct E as [Hx Hs]. exact (Hns x Hx Hs).
Qed.

(* ------------------------------------------------------------------ the swap measure *)
Section Rank.
Variable d : nat -> nat.

Fixpoint Msum (k : nat) (l : list nat) : nat :=
  match l with [] => 0 | x :: t => k * d x + Msum (S k) t end.

Definition sumd (l : list nat) : nat := list_sum (map d l).

Lemma Msum_set_nth : forall l k i v, i < length l ->
  Msum k (set_nth l i v) + (k + i) * d (nth i l 0) = Msum k l + (k + i) * d v.
Proof.
  induction l as [|y t IH]; intros k i v Hi; simpl in Hi; [lia|].
  destruct i as [|i]; simpl.
  - rewrite Nat.add_0_r. lia.
  - specialize (IH (S k) i v ltac:(lia)).
    replace (k + S i) with (S k + i) by lia. lia.
Qed.

Lemma Msum_swap l p i : p < i -> i < length l ->
  Msum 0 (swap l p i) + p * d (nth p l 0) + i * d (nth i l 0)
  = Msum 0 l + p * d (nth i l 0) + i * d (nth p l 0).
Proof.
  intros Hpi Hi. unfold swap.
  pose proof (Msum_set_nth l 0 p (nth i l 0) ltac:(lia)) as H1.
  pose proof (Msum_set_nth (set_nth l p (nth i l 0)) 0 i (nth p l 0)
               ltac:(rewrite set_nth_length; lia)) as H2.
  rewrite nth_set_nth_other in H2 by lia. simpl in H1, H2. lia.
Qed.

Lemma swap_increases l p i : p < i -> i < length l ->
  d (nth i l 0) < d (nth p l 0) -> Msum 0 l < Msum 0 (swap l p i).
Proof. intros Hpi Hi Hd. pose proof (Msum_swap l p i Hpi Hi). nia. Qed.

Lemma Msum_bound : forall l k, Msum k l <= (k + length l) * sumd l.
Proof.
  unfold sumd. induction l as [|x t IH]; intros k; simpl; [lia|].
  specialize (IH (S k)). nia.
Qed.

Lemma sumd_perm l l' : Permutation l l' -> sumd l = sumd l'.
Proof. unfold sumd. induction 1; simpl; lia. Qed.

Lemma ranking_perm l l' : Permutation l l' -> ranking succ l d -> ranking succ l' d.
Proof.
  intros P H x y Hx Hy. apply H; auto. eapply Permutation_in; [apply Permutation_sym, P|exact Hx].
Qed.

(* the swap the code performs at index i strictly increases the measure *)
Lemma step_increases l i p : closed succ l -> ranking succ l d -> i < length l ->
  first_dep succ l (nth i l 0) = Some p -> p < i -> Msum 0 l < Msum 0 (swap l p i).
Proof.
  intros Hc Hr Hi E Hp. apply swap_increases; auto.
  apply first_dep_some in E. destruct E as [(s & Hs & Eidx) _].
  assert (Hx : In (nth i l 0) l) by (apply nth_In; exact Hi).
  assert (Hsl : In s l) by (eapply Hc; eauto).
  destruct (index_of_in l s Hsl) as [_ En]. rewrite Eidx in En. rewrite En. apply Hr; auto.
Qed.

Lemma ranking_no_selfloop l x : ranking succ l d -> In x l -> ~ In x (succ x).
Proof. intros Hr Hx Hs. pose proof (Hr x x Hx Hs). lia. Qed.

Lemma pass_from_measure : forall n i l ch, i + n = length l -> NoDup l -> closed succ l -> ranking succ l d ->
  exists l' ch', pass_from succ n i l ch = PassOk l' ch' /\
  Msum 0 l <= Msum 0 l' /\ (ch = false -> ch' = true -> Msum 0 l < Msum 0 l').
Proof.
  induction n as [|n IH]; intros i l ch Hlen Hnd Hc Hr; simpl.
  - exists l, ch. split; [reflexivity|]. split; [lia|]. intros ->. discriminate.
  - destruct (first_dep succ l (nth i l 0)) as [p|] eqn:E.
    + destruct (Nat.eqb_spec p i) as [Heq|Hne].
      * exfalso. assert (Hp : pass_from succ (S n) i l ch = PassLoop (nth i l 0)) by (simpl; rewrite E, Heq, Nat.eqb_refl; reflexivity).
        apply pass_from_loop in Hp; auto. destruct Hp as [Hx Hs]. exact (ranking_no_selfloop l _ Hr Hx Hs).
      * destruct (Nat.ltb_spec p i) as [Hlt|Hge].
        -- pose proof (step_increases l i p Hc Hr ltac:(lia) E Hlt) as Hinc.
           assert (P : Permutation l (swap l p i)) by (apply swap_perm; lia).
           destruct (IH (S i) (swap l p i) true) as (l' & ch' & H & Hle & _);
             [ rewrite swap_length; lia | eapply Permutation_NoDup; eauto | eapply closed_perm; eauto | eapply ranking_perm; eauto |].
           exists l', ch'. split; [exact H|]. split; [lia|]. intros _ _. lia.
        -- destruct (IH (S i) l ch) as (l' & ch' & H & Hle & Hlt); auto; [lia|]. exists l', ch'. auto.
    + destruct (IH (S i) l ch) as (l' & ch' & H & Hle & Hlt); auto; [lia|]. exists l', ch'. auto.
Qed.

(* ------------------------------------------------------------------ termination *)
Lemma sort_fuel_terminates_aux : forall m l, NoDup l -> closed succ l -> ranking succ l d ->
  length l * sumd l - Msum 0 l < m -> forall K, m <= K -> exists l', sort_fuel succ K l = Sorted l'.
Proof.
  induction m as [|m IH]; intros l Hnd Hc Hr Hm K HK; [lia|].
  destruct K as [|K]; [lia|]. simpl. unfold pass.
  destruct (pass_from_measure (length l) 0 l false eq_refl Hnd Hc Hr) as (l1 & ch & E & _ & Hinc).
  rewrite E. destruct ch; [|eexists; reflexivity].
  pose proof (pass_from_perm _ _ _ _ _ _ (eq_refl : 0 + length l = length l) E) as P.
  specialize (Hinc eq_refl eq_refl).
  apply IH; [eapply Permutation_NoDup; eauto | eapply closed_perm; eauto | eapply ranking_perm; eauto | | lia].
  pose proof (Msum_bound l1 0) as Hb. simpl in Hb.
  rewrite <- (Permutation_length P), <- (sumd_perm _ _ P) in *. lia.
Qed.

Lemma sort_fuel_terminates l : NoDup l -> closed succ l -> ranking succ l d ->
  forall l0, Permutation l l0 -> forall K, S (length l * sumd l) <= K -> exists l', sort_fuel succ K l0 = Sorted l'.
Proof.
  intros Hnd Hc Hr l0 P K HK.
  apply (sort_fuel_terminates_aux (S (length l * sumd l))); auto.
  - eapply Permutation_NoDup; eauto.
  - eapply closed_perm; eauto.
  - eapply ranking_perm; eauto.
  - rewrite <- (Permutation_length P), <- (sumd_perm _ _ P). lia.
Qed.
End Rank.
End S.
