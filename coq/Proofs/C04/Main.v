(* C04: the theorems of Properties/C04.v, assembled from SortLemmas / Acyclic / Settle / Chain / Refute. *)
From V Require Import Base.PyInt Gen.WireOps Model.SimKernel Model.Sort Spec.C04.
From V Require Import Proofs.C04.SortLemmas Proofs.C04.Settle Proofs.C04.Refute Proofs.C04.Chain Proofs.C04.Acyclic Proofs.C04.Limit.
From Coq Require Import Permutation.
Local Open Scope nat_scope.

Lemma sort_sound_thm : forall succ K l l',
  NoDup l -> closed succ l -> sort_fuel succ K l = Sorted l' ->
  Permutation l l' /\ strict_topo succ l'.
Proof.
  intros succ K l l' Hnd _ H. exact (sort_fuel_sound succ K l l' Hnd H).
Qed.

Lemma sort_terminates_thm : forall succ d l,
  NoDup l -> closed succ l -> ranking succ l d ->
  exists K0, forall l0, Permutation l l0 -> forall K, K0 <= K -> exists l', sort_fuel succ K l0 = Sorted l'.
Proof.
  intros succ d l Hnd Hc Hr. exists (S (length l * sumd d l)). intros l0 P K HK.
  exact (sort_fuel_terminates succ d l Hnd Hc Hr l0 P K HK).
Qed.

Lemma acyclic_iff_ranking_thm : forall succ l, closed succ l ->
  ((forall v, In v l -> ~ path succ v v) <-> exists d, ranking succ l d).
Proof.
  exact acyclic_iff_ranking.
Qed.

Lemma sort_terminates_acyclic_thm : forall succ l,
  NoDup l -> closed succ l -> (forall v, In v l -> ~ path succ v v) ->
  exists K0, forall l0, Permutation l l0 -> forall K, K0 <= K -> exists l', sort_fuel succ K l0 = Sorted l'.
Proof.
  exact sort_terminates_acyclic.
Qed.

Lemma swap_increases_measure_thm : forall succ d l i p,
  closed succ l -> ranking succ l d -> i < length l ->
  first_dep succ l (nth i l 0) = Some p -> p < i -> Msum d 0 l < Msum d 0 (swap l p i).
Proof.
  exact step_increases.
Qed.

Lemma cyclic_rejected_thm : forall succ K l l',
  NoDup l -> closed succ l -> (exists v, In v l /\ path succ v v) -> sort_fuel succ K l <> Sorted l'.
Proof.
  intros succ K l l' Hnd Hc Hcy. exact (sort_fuel_cyclic succ K l l' Hnd Hc Hcy).
Qed.

Lemma cycle_rejected_thm : forall succ K l l',
  NoDup l -> closed succ l -> has_cycle2 succ l -> sort_fuel succ K l <> Sorted l'.
Proof.
  intros succ K l l' Hnd Hc Hcy. apply sort_fuel_cyclic; auto. now apply has_cycle2_cyclic.
Qed.

Lemma selfloop_rejected_thm : forall succ K l l' x,
  NoDup l -> closed succ l -> In x l -> self_loop succ x -> sort_fuel succ K l <> Sorted l'.
Proof.
  intros succ K l l' x Hnd Hc Hx Hs. apply sort_fuel_cyclic; auto. exists x. split; [exact Hx|]. apply path_edge. exact Hs.
Qed.

Lemma loop_error_sound_thm : forall succ K l x,
  NoDup l -> closed succ l -> sort_fuel succ K l = LoopError x -> In x l /\ self_loop succ x.
Proof.
  intros succ K l x Hnd Hc H. exact (sort_fuel_loop succ K l x Hnd Hc H).
Qed.

Lemma cycle2_limit_error_thm : forall succ K l,
  NoDup l -> closed succ l -> has_cycle2 succ l -> (forall x, In x l -> ~ self_loop succ x) ->
  sort_fuel succ K l = LimitError.
Proof.
  exact sort_fuel_cycle2_limit.
Qed.

Lemma settle_fixpoint_thm : forall (St : Type) (d : design St) (vs : list Z),
  ordered (combs d) -> single_driver (combs d) -> settled d (propagateAll d vs).
Proof.
  intros St d vs Ho Hs. exact (propagateAll_settled d vs Ho Hs).
Qed.

Lemma settled_after_init_and_clk_thm : forall (St : Type) (d : design St) (st0 : list St) (s : state St) (n : nat),
  ordered (combs d) -> single_driver (combs d) ->
  settled d (vals (init d st0)) /\ settled d (vals (clk d n s)).
Proof.
  intros St d st0 s n Ho Hs. split; [exact (init_settled d st0 Ho Hs) | exact (clk_settled d n s Ho Hs)].
Qed.

Lemma fixpoint_unique_thm : forall (St : Type) (d : design St) (vs1 vs2 : list Z),
  ordered (combs d) -> (forall c, In c (combs d) -> definite c) ->
  settled d vs1 -> settled d vs2 -> length vs1 = length vs2 ->
  (forall w, ~ driven (combs d) w -> nth w vs1 0%Z = nth w vs2 0%Z) -> vs1 = vs2.
Proof.
  intros St d vs1 vs2 Ho Hd H1 H2 Hl Hu. exact (settled_unique d (combs d) vs1 vs2 Ho Hd H1 H2 Hl Hu).
Qed.

Lemma order_independent_thm : forall (St : Type) (d1 d2 : design St) (vs : list Z),
  same_netlist d1 d2 -> ordered (combs d1) -> ordered (combs d2) ->
  single_driver (combs d1) -> (forall c, In c (combs d1) -> definite c) ->
  propagateAll d1 vs = propagateAll d2 vs.
Proof.
  intros St d1 d2 vs Hsame Ho1 Ho2 Hs Hd. apply order_independent; auto.
  destruct Hsame as [_ P]. eapply single_driver_perm; eauto.
Qed.

Lemma sorted_netlist_settles_thm : forall (St : Type) (d : design St) succ K l (vs : list Z),
  represents (combs d) succ -> single_driver (combs d) ->
  closed succ (seq 0 (length (combs d))) ->
  sort_fuel succ K (seq 0 (length (combs d))) = Sorted l ->
  let d' := with_combs d (reorder (combs d) l) in
  same_netlist d d' /\ ordered (combs d') /\ settled d' (propagateAll d' vs).
Proof.
  intros St d succ K l vs Hrep Hsd _ H d'.
  destruct (sort_fuel_sound succ K _ l (seq_NoDup _ _) H) as [P T].
  assert (Hv : forall i, In i l -> i < length (combs d)).
  { intros i Hi. apply (Permutation_in _ (Permutation_sym P)) in Hi. apply in_seq in Hi. lia. }
  assert (Ho : ordered (reorder (combs d) l)) by (exact (reorder_ordered (combs d) succ l Hrep Hv T)).
  assert (Pc : Permutation (combs d) (reorder (combs d) l)) by (apply reorder_perm; exact P).
  split; [split; [reflexivity|exact Pc]|]. split; [exact Ho|].
  apply propagateAll_settled; [exact Ho|]. eapply single_driver_perm; eauto.
Qed.

Lemma construction_order_independent_thm : forall (St : Type) (d1 d2 : design St) succ1 succ2 K l1 l2 (vs : list Z),
  same_netlist d1 d2 -> single_driver (combs d1) -> (forall c, In c (combs d1) -> definite c) ->
  represents (combs d1) succ1 -> represents (combs d2) succ2 ->
  sort_fuel succ1 K (seq 0 (length (combs d1))) = Sorted l1 ->
  sort_fuel succ2 K (seq 0 (length (combs d2))) = Sorted l2 ->
  propagateAll (with_combs d1 (reorder (combs d1) l1)) vs = propagateAll (with_combs d2 (reorder (combs d2) l2)) vs.
Proof.
  intros St d1 d2 succ1 succ2 K l1 l2 vs [Hw P] Hsd Hdef R1 R2 S1 S2.
  assert (Hsd2 : single_driver (combs d2)) by (eapply single_driver_perm; eauto).
  destruct (sort_fuel_sound succ1 K _ l1 (seq_NoDup _ _) S1) as [P1 T1].
  destruct (sort_fuel_sound succ2 K _ l2 (seq_NoDup _ _) S2) as [P2 T2].
  assert (Hv1 : forall i, In i l1 -> i < length (combs d1)).
  { intros i Hi. apply (Permutation_in _ (Permutation_sym P1)) in Hi. apply in_seq in Hi. lia. }
  assert (Hv2 : forall i, In i l2 -> i < length (combs d2)).
  { intros i Hi. apply (Permutation_in _ (Permutation_sym P2)) in Hi. apply in_seq in Hi. lia. }
  assert (O1 : ordered (reorder (combs d1) l1)) by (exact (reorder_ordered (combs d1) succ1 l1 R1 Hv1 T1)).
  assert (O2 : ordered (reorder (combs d2) l2)) by (exact (reorder_ordered (combs d2) succ2 l2 R2 Hv2 T2)).
  assert (Q1 : Permutation (combs d1) (reorder (combs d1) l1)) by (apply reorder_perm; exact P1).
  assert (Q2 : Permutation (combs d2) (reorder (combs d2) l2)) by (apply reorder_perm; exact P2).
  apply order_independent; cbn [combs with_combs]; auto.
  - split; cbn [widths combs with_combs]; [exact Hw|].
    eapply perm_trans; [apply Permutation_sym, Q1|]. eapply perm_trans; [exact P|exact Q2].
  - eapply single_driver_perm; eauto.
  - eapply single_driver_perm; eauto.
  - intros c Hc. apply Hdef. eapply Permutation_in; [apply Permutation_sym, Q1|exact Hc].
Qed.

Lemma limit_refuted_thm : forall K,
  let succ := chain_succ (S K) in let l := rev_chain (S K) in
  NoDup l /\ closed succ l /\ ranking succ l (fun x => x) /\
  sort_fuel succ K l = LimitError /\ sort_fuel succ (S K) l = Sorted (seq 0 (S K)).
Proof.
  intros K succ l. destruct (limit_rejects_all K) as [H1 H2].
  repeat split; [apply rev_chain_nodup | apply chain_closed | apply chain_ranking | exact H1 | exact H2].
Qed.

Lemma limit_1000_refuted_thm :   let n := S py4hw_loop_limit in
  ranking (chain_succ n) (rev_chain n) (fun x => x) /\ sort_fuel (chain_succ n) py4hw_loop_limit (rev_chain n) = LimitError.
Proof.
  intros n. split; [apply chain_ranking|]. exact (proj1 (limit_rejects_all py4hw_loop_limit)).
Qed.

Lemma pass_count_chain_thm : forall n K, 1 <= n ->
  sort_fuel (chain_succ n) K (rev_chain n) = if K <? n then LimitError else Sorted (seq 0 n).
Proof.
  exact chain_passes.
Qed.

Lemma more_passes_never_hurt_thm : forall succ K K' l r,
  K <= K' -> sort_fuel succ K l = r -> r <> LimitError -> sort_fuel succ K' l = r.
Proof. exact fuel_monotone. Qed.

Lemma scaled_limit_no_worse_thm : forall succ n l l',
  sort_fuel succ py4hw_loop_limit l = Sorted l' -> sort_fuel succ (scaled_limit n) l = Sorted l'.
Proof.
  intros succ n l l' H. apply (fuel_monotone succ py4hw_loop_limit); auto; [apply scaled_limit_ge|discriminate].
Qed.

Lemma scaled_limit_accepts_chain_thm : forall n, 1 <= n ->
  sort_fuel (chain_succ n) (scaled_limit n) (rev_chain n) = Sorted (seq 0 n).
Proof. exact scaled_limit_chain. Qed.
