(* C04: facts about the pass limit that hold whatever expression the code uses for it:
   more passes never change an answer that was already given, and a limit of at least n+1 accepts the sink-first
   chain of n leaves (the family that refutes every constant limit). *)
From Coq Require Import List Arith Lia Bool PeanoNat.
From V Require Import Model.Sort Spec.C04 Proofs.C04.Refute Proofs.C04.Chain.
Import ListNotations.
Local Open Scope nat_scope.

Lemma fuel_monotone succ : forall K K' l r, K <= K' -> sort_fuel succ K l = r -> r <> LimitError -> sort_fuel succ K' l = r.
Proof.
  induction K as [|K IH]; intros K' l r HK H Hr; cbn [sort_fuel] in H; [congruence|].
  destruct K' as [|K']; [lia|]. cbn [sort_fuel].
  destruct (pass succ l) as [l1 ch|x]; [|exact H].
  destruct ch; [|exact H]. apply (IH K'); auto. lia.
Qed.

Lemma scaled_limit_ge n : py4hw_loop_limit <= scaled_limit n /\ S n <= scaled_limit n.
Proof. unfold scaled_limit. split; [apply Nat.le_max_l | apply Nat.le_max_r]. Qed.

Lemma scaled_limit_chain n : 1 <= n -> sort_fuel (chain_succ n) (scaled_limit n) (rev_chain n) = Sorted (seq 0 n).
Proof.
  intros Hn. rewrite chain_passes by exact Hn. destruct (scaled_limit_ge n) as [_ H].
  destruct (Nat.ltb_spec (scaled_limit n) n); [lia|reflexivity].
Qed.
