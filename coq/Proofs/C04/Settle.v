(* C04: evaluating the combinational leaves along a dependency-respecting list reaches the fixpoint, the fixpoint
   is unique, hence independent of the order.  Over Model/SimKernel.v's propagateAll.  Wire_put is never unfolded:
   the proofs hold for whatever the regenerated put does. *)
From V Require Import Base.PyInt Gen.WireOps Model.SimKernel Spec.C04.
From Coq Require Import Permutation PeanoNat Arith.
Local Open Scope nat_scope.

(* ------------------------------------------------------------------ lists *)
Lemma set_nth_length {A} (l : list A) i v : length (set_nth l i v) = length l.
Proof. revert i; induction l as [|y t IH]; intros [|i]; simpl; auto. Qed.

Lemma nth_set_nth {A} (dflt : A) : forall (l : list A) i j v, j < length l ->
  nth j (set_nth l i v) dflt = if Nat.eqb i j then v else nth j l dflt.
Proof.
  induction l as [|y t IH]; intros [|i] [|j] v H; simpl in *; try lia; auto.
  apply IH. lia.
Qed.

Lemma NoDup_app_disjoint {A} (a b : list A) x : NoDup (a ++ b) -> In x a -> In x b -> False.
Proof.
  induction a as [|y a IH]; simpl; intros Hnd Ha Hb; [destruct Ha|].
  inversion Hnd as [|? ? Hnotin Hnd']; subst. destruct Ha as [->|Ha]; [|eauto].
  apply Hnotin. apply in_or_app. now right.
Qed.

(* ------------------------------------------------------------------ what write_outs leaves on a wire *)
Section W.
Variable ws : list Z.

Fixpoint final (outs : list nat) (rs : list (option Z)) (w : nat) (old : Z) : Z :=
  match outs, rs with
  | o :: outs', Some v :: rs' => final outs' rs' w (if Nat.eqb o w then Wire_put (nth o ws 0%Z) v else old)
  | _ :: outs', None :: rs' => final outs' rs' w old
  | _, _ => old
  end.

Lemma write_outs_length : forall outs rs vs, length (write_outs ws outs rs vs) = length vs.
Proof.
  induction outs as [|o outs IH]; intros [|[v|] rs] vs; cbn [write_outs]; auto.
  rewrite IH. apply set_nth_length.
Qed.

Lemma nth_write_outs : forall outs rs vs w, w < length vs ->
  nth w (write_outs ws outs rs vs) 0%Z = final outs rs w (nth w vs 0%Z).
Proof.
  induction outs as [|o outs IH]; intros [|[v|] rs] vs w Hw; cbn [write_outs final]; auto.
  rewrite IH by (rewrite set_nth_length; exact Hw). now rewrite nth_set_nth.
Qed.

Lemma final_notin : forall outs rs w old, ~ In w outs -> final outs rs w old = old.
Proof.
  induction outs as [|o outs IH]; intros [|[v|] rs] w old H; cbn [final]; auto.
  - destruct (Nat.eqb_spec o w) as [->|Hne]; [exfalso; apply H; now left|]. apply IH. intros Hin; apply H; now right.
  - apply IH. intros Hin; apply H; now right.
Qed.

Lemma final_const_or_id : forall outs rs w,
  (forall x, final outs rs w x = x) \/ (exists c, forall x, final outs rs w x = c).
Proof.
  induction outs as [|o outs IH]; intros [|[v|] rs] w; cbn [final]; try (left; reflexivity).
  - destruct (IH rs w) as [Hid|[c Hc]].
    + destruct (Nat.eqb o w); [right; eexists; intros x; apply Hid | left; intros x; apply Hid].
    + right. exists c. intros x. apply Hc.
  - apply IH.
Qed.

Lemma final_idem outs rs w x : final outs rs w (final outs rs w x) = final outs rs w x.
Proof. destruct (final_const_or_id outs rs w) as [Hid|[c Hc]]; [now rewrite !Hid | now rewrite !Hc]. Qed.

(* a wire that is written (all results definite) forgets its old value *)
Lemma final_definite : forall outs rs w x y, In w outs -> length rs = length outs ->
  Forall (fun r => r <> None) rs -> final outs rs w x = final outs rs w y.
Proof.
  induction outs as [|o outs IH]; intros [|[v|] rs] w x y Hin Hlen Hdef; cbn [final]; simpl in *; try lia; try tauto.
  - inversion Hdef; subst. destruct (Nat.eqb_spec o w) as [->|Hne]; [reflexivity|].
    destruct Hin as [->|Hin]; [congruence|]. apply IH; auto.
  - inversion Hdef; subst. congruence.
Qed.
End W.

(* ------------------------------------------------------------------ one leaf *)
Section K.
Context {St : Type}.
Variable d : design St.

Definition stable1 (vs : list Z) (c : cleaf) : Prop := propagate1 d vs c = vs.
Definition results (vs : list Z) (c : cleaf) : list (option Z) := c_f c (map (rd vs) (c_in c)).

Lemma propagate1_length vs c : length (propagate1 d vs c) = length vs.
Proof. apply write_outs_length. Qed.

Lemma propagate1_nth vs c w : w < length vs ->
  nth w (propagate1 d vs c) 0%Z = final (widths d) (c_out c) (results vs c) w (nth w vs 0%Z).
Proof. intros H. unfold propagate1. now rewrite nth_write_outs. Qed.

Lemma propagate1_other vs c w : ~ In w (c_out c) -> nth w (propagate1 d vs c) 0%Z = nth w vs 0%Z.
Proof.
  intros H. destruct (Nat.lt_ge_cases w (length vs)) as [Hlt|Hge].
  - rewrite propagate1_nth by exact Hlt. now apply final_notin.
  - rewrite !nth_overflow; auto. now rewrite propagate1_length.
Qed.

Lemma stable1_iff vs c : stable1 vs c <->
  forall w, w < length vs -> final (widths d) (c_out c) (results vs c) w (nth w vs 0%Z) = nth w vs 0%Z.
Proof.
  unfold stable1. split.
  - intros H w Hw. rewrite <- propagate1_nth by exact Hw. now rewrite H.
  - intros H. apply (nth_ext _ _ 0%Z 0%Z); [apply propagate1_length|].
    intros w Hw. rewrite propagate1_length in Hw. rewrite propagate1_nth by exact Hw. now apply H.
Qed.

Lemma results_agree vs vs' c : (forall w, In w (c_in c) -> nth w vs' 0%Z = nth w vs 0%Z) -> results vs' c = results vs c.
Proof. intros H. unfold results. f_equal. apply map_ext_in. intros w Hw. unfold rd. now apply H. Qed.

(* a leaf that is stable stays stable when only wires it neither reads nor drives change *)
Lemma stable1_transfer vs vs' c : stable1 vs c -> length vs' = length vs ->
  (forall w, In w (c_in c) \/ In w (c_out c) -> nth w vs' 0%Z = nth w vs 0%Z) -> stable1 vs' c.
Proof.
  intros Hs Hlen Hag. apply stable1_iff. intros w Hw.
  rewrite (results_agree vs vs' c) by (intros u Hu; apply Hag; now left).
  destruct (in_dec Nat.eq_dec w (c_out c)) as [Hin|Hnot].
  - rewrite (Hag w (or_intror Hin)). apply (proj1 (stable1_iff vs c) Hs). now rewrite <- Hlen.
  - now apply final_notin.
Qed.

(* evaluating a leaf that does not read its own outputs is idempotent *)
Lemma propagate1_idem vs c : (forall w, In w (c_out c) -> ~ In w (c_in c)) -> stable1 (propagate1 d vs c) c.
Proof.
  intros Hdisj. apply stable1_iff. intros w Hw. rewrite propagate1_length in Hw.
  rewrite (results_agree vs (propagate1 d vs c) c).
  - rewrite propagate1_nth by exact Hw. apply final_idem.
  - intros u Hu. apply propagate1_other. intros Hout. exact (Hdisj u Hout Hu).
Qed.

(* ------------------------------------------------------------------ the whole list *)
Lemma fold_length cs vs : length (fold_left (propagate1 d) cs vs) = length vs.
Proof. revert vs; induction cs as [|c cs IH]; intros vs; cbn [fold_left]; auto. now rewrite IH, propagate1_length. Qed.

Lemma fold_undriven cs vs w : ~ driven cs w -> nth w (fold_left (propagate1 d) cs vs) 0%Z = nth w vs 0%Z.
Proof.
  unfold driven. revert vs; induction cs as [|c cs IH]; intros vs H; cbn [fold_left]; auto.
  simpl in H. rewrite IH by (intros Hin; apply H, in_or_app; now right).
  apply propagate1_other. intros Hin; apply H, in_or_app; now left.
Qed.

Lemma fold_settles : forall cs pre vs, ordered (pre ++ cs) -> single_driver (pre ++ cs) ->
  (forall c, In c pre -> stable1 vs c) ->
  forall c, In c (pre ++ cs) -> stable1 (fold_left (propagate1 d) cs vs) c.
Proof.
  induction cs as [|c0 cs IH]; intros pre vs Hord Hsd Hpre c Hc; cbn [fold_left].
  - rewrite app_nil_r in Hc. now apply Hpre.
  - assert (E : pre ++ c0 :: cs = (pre ++ [c0]) ++ cs) by (now rewrite <- app_assoc).
    assert (H0 : nth_error (pre ++ c0 :: cs) (length pre) = Some c0)
      by (rewrite nth_error_app2, Nat.sub_diag by lia; reflexivity).
    rewrite E in Hc. apply (IH (pre ++ [c0])); try (rewrite <- E; assumption); [|exact Hc].
    intros c1 Hc1. apply in_app_or in Hc1. destruct Hc1 as [Hc1|[<-|[]]].
    + (* an earlier leaf: c0 writes nothing it reads or drives *)
      destruct (In_nth_error _ _ Hc1) as [i Hi].
      assert (Hlt : i < length pre) by (apply nth_error_Some; congruence).
      assert (Hi' : nth_error (pre ++ c0 :: cs) i = Some c1) by (rewrite nth_error_app1; assumption).
      apply (stable1_transfer vs); [now apply Hpre | apply propagate1_length |].
      intros w Hw. apply propagate1_other. intros Hout. destruct Hw as [Hw|Hw].
      * assert (length pre < i) by (apply (Hord _ _ c0 c1 H0 Hi'); exists w; split; assumption). lia.
      * unfold single_driver in Hsd. rewrite flat_map_app in Hsd. cbn [flat_map] in Hsd.
        apply (NoDup_app_disjoint _ _ w Hsd).
        -- apply in_flat_map. exists c1. split; assumption.
        -- apply in_or_app. now left.
    + (* c0 itself: it does not read its own outputs *)
      apply propagate1_idem. intros w Hout Hin.
      assert (length pre < length pre) by (apply (Hord _ _ c0 c0 H0 H0); exists w; split; assumption). lia.
Qed.

Lemma propagateAll_settled vs : ordered (combs d) -> single_driver (combs d) -> settled d (propagateAll d vs).
Proof. intros Hord Hsd c Hc. apply (fold_settles (combs d) [] vs); auto. intros c' []. Qed.

Lemma propagateAll_length vs : length (propagateAll d vs) = length vs.
Proof. apply fold_length. Qed.

Lemma propagateAll_undriven vs w : ~ driven (combs d) w -> nth w (propagateAll d vs) 0%Z = nth w vs 0%Z.
Proof. apply fold_undriven. Qed.

(* ------------------------------------------------------------------ uniqueness *)
Lemma settled_unique_on cs vs1 vs2 : ordered cs -> (forall c, In c cs -> definite c) ->
  (forall c, In c cs -> stable1 vs1 c) -> (forall c, In c cs -> stable1 vs2 c) ->
  length vs1 = length vs2 -> (forall w, ~ driven cs w -> nth w vs1 0%Z = nth w vs2 0%Z) ->
  forall k c w, nth_error cs k = Some c -> In w (c_out c) -> nth w vs1 0%Z = nth w vs2 0%Z.
Proof.
  intros Hord Hdef Hs1 Hs2 Hlen Hun.
  induction k as [k IH] using lt_wf_ind. intros c w Hk Hw.
  assert (Hc : In c cs) by (eapply nth_error_In; eauto).
  assert (Hres : results vs1 c = results vs2 c).
  { apply results_agree. intros u Hu.
    destruct (in_dec Nat.eq_dec u (flat_map c_out cs)) as [Hdr|Hnd]; [|apply Hun; exact Hnd].
    apply in_flat_map in Hdr. destruct Hdr as (c' & Hc' & Hu').
    destruct (In_nth_error _ _ Hc') as [k' Hk'].
    assert (k' < k) by (apply (Hord _ _ c' c Hk' Hk); exists u; split; assumption).
    apply (IH k' H c' u Hk' Hu'). }
  destruct (Nat.lt_ge_cases w (length vs1)) as [Hlt|Hge].
  - rewrite <- (proj1 (stable1_iff vs1 c) (Hs1 c Hc) w Hlt).
    rewrite <- (proj1 (stable1_iff vs2 c) (Hs2 c Hc) w ltac:(lia)).
    rewrite Hres. destruct (Hdef c Hc (map (rd vs2) (c_in c))) as [Hl Hf].
    apply final_definite; auto.
  - rewrite !nth_overflow; auto; lia.
Qed.

Lemma settled_unique cs vs1 vs2 : ordered cs -> (forall c, In c cs -> definite c) ->
  (forall c, In c cs -> stable1 vs1 c) -> (forall c, In c cs -> stable1 vs2 c) ->
  length vs1 = length vs2 -> (forall w, ~ driven cs w -> nth w vs1 0%Z = nth w vs2 0%Z) -> vs1 = vs2.
Proof.
  intros Hord Hdef Hs1 Hs2 Hlen Hun. apply (nth_ext _ _ 0%Z 0%Z Hlen). intros w _.
  destruct (in_dec Nat.eq_dec w (flat_map c_out cs)) as [Hdr|Hnd]; [|apply Hun; exact Hnd].
  apply in_flat_map in Hdr. destruct Hdr as (c & Hc & Hw). destruct (In_nth_error _ _ Hc) as [k Hk].
  eapply settled_unique_on; eauto.
Qed.

(* ------------------------------------------------------------------ after construction and after clk *)
Lemma init_settled st0 : ordered (combs d) -> single_driver (combs d) -> settled d (vals (init d st0)).
Proof. intros; cbn. now apply propagateAll_settled. Qed.

Lemma cycles_settled : forall n s, ordered (combs d) -> single_driver (combs d) ->
  settled d (vals s) -> settled d (vals (cycles d n s)).
Proof.
  induction n as [|n IH]; intros s Ho Hs H; cbn [cycles]; auto.
  apply IH; auto. cbn. now apply propagateAll_settled.
Qed.

Lemma clk_settled n s : ordered (combs d) -> single_driver (combs d) -> settled d (vals (clk d n s)).
Proof. intros Ho Hs. unfold clk. apply cycles_settled; auto. cbn. now apply propagateAll_settled. Qed.
End K.

(* ------------------------------------------------------------------ two orders of the same netlist *)
Section Two.
Context {St : Type}.

Lemma propagate1_widths (d1 d2 : design St) vs c : widths d1 = widths d2 -> propagate1 d1 vs c = propagate1 d2 vs c.
Proof. intros H. unfold propagate1. now rewrite H. Qed.

Lemma driven_perm (cs1 cs2 : list cleaf) w : Permutation cs1 cs2 -> driven cs1 w -> driven cs2 w.
Proof.
  unfold driven. intros P H. apply in_flat_map in H. destruct H as (c & Hc & Hw).
  apply in_flat_map. exists c. split; [eapply Permutation_in; eauto|exact Hw].
Qed.

Lemma order_independent (d1 d2 : design St) vs : same_netlist d1 d2 ->
  ordered (combs d1) -> ordered (combs d2) -> single_driver (combs d1) -> single_driver (combs d2) ->
  (forall c, In c (combs d1) -> definite c) ->
  propagateAll d1 vs = propagateAll d2 vs.
Proof.
  intros [Hw P] Ho1 Ho2 Hs1 Hs2 Hdef.
  apply (settled_unique d1 (combs d1)); auto.
  - intros c Hc. apply propagateAll_settled; auto.
  - intros c Hc. unfold stable1. rewrite (propagate1_widths d1 d2 _ _ Hw).
    apply propagateAll_settled; auto. eapply Permutation_in; eauto.
  - now rewrite !propagateAll_length.
  - intros w Hnd. rewrite !propagateAll_undriven; auto.
    intros Hdr. apply Hnd. eapply driven_perm; [apply Permutation_sym, P|exact Hdr].
Qed.
End Two.

(* ------------------------------------------------------------------ from the sorter's output to `ordered` *)
Section Bridge.
Variable cs : list cleaf.

Lemma reorder_nth_error : forall l k a, (forall i, In i l -> i < length cs) ->
  (nth_error (reorder cs l) k = Some a <-> exists i, nth_error l k = Some i /\ nth_error cs i = Some a).
Proof.
  induction l as [|i0 l IH]; intros k a Hv.
  - destruct k; simpl; split; try discriminate; intros (i & H & _); discriminate.
  - assert (Hi0 : i0 < length cs) by (apply Hv; now left).
    destruct (nth_error cs i0) as [c0|] eqn:E0; [|apply nth_error_None in E0; lia].
    unfold reorder. cbn [flat_map]. rewrite E0. cbn [app].
    destruct k as [|k]; cbn [nth_error].
    + split.
      * intros H. injection H as <-. exists i0. split; auto.
      * intros (i & H & Hi). injection H as <-. congruence.
    + apply IH. intros i Hi. apply Hv. now right.
Qed.

Lemma reorder_ordered succ l : represents cs succ -> (forall i, In i l -> i < length cs) ->
  strict_topo succ l -> ordered (reorder cs l).
Proof.
  intros Hrep Hv T k1 k2 a b H1 H2 Hf.
  apply reorder_nth_error in H1; auto. apply reorder_nth_error in H2; auto.
  destruct H1 as (i1 & Hk1 & Ha). destruct H2 as (i2 & Hk2 & Hb).
  apply (T k1 k2 i1 i2 Hk1 Hk2). apply (Hrep i1 i2 a b Ha Hb). exact Hf.
Qed.

Lemma reorder_seq_aux : forall (post pre : list cleaf),
  reorder (pre ++ post) (seq (length pre) (length post)) = post.
Proof.
  induction post as [|c post IH]; intros pre; [reflexivity|].
  cbn [length seq]. unfold reorder. cbn [flat_map].
  rewrite nth_error_app2, Nat.sub_diag by lia. cbn [nth_error app]. f_equal.
  specialize (IH (pre ++ [c])). rewrite <- app_assoc, app_length in IH. cbn [app length] in IH.
  rewrite Nat.add_1_r in IH. exact IH.
Qed.
End Bridge.

Lemma reorder_seq (cs : list cleaf) : reorder cs (seq 0 (length cs)) = cs.
Proof. exact (reorder_seq_aux cs []). Qed.

Lemma reorder_perm (cs : list cleaf) l : Permutation (seq 0 (length cs)) l -> Permutation cs (reorder cs l).
Proof.
  intros P. rewrite <- (reorder_seq cs) at 1. unfold reorder. now apply Permutation_flat_map.
Qed.

Lemma single_driver_perm (cs1 cs2 : list cleaf) : Permutation cs1 cs2 -> single_driver cs1 -> single_driver cs2.
Proof.
  unfold single_driver. intros P H. eapply Permutation_NoDup; [|exact H]. now apply Permutation_flat_map.
Qed.
