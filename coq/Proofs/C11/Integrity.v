(* Proofs/C11/Integrity.v -- checkIntegrity raises exactly when a visited port is undriven (or, for in-ports,
   when the source port is in neither inPorts nor outPorts of its block: the checkPort clause) *)
From Coq Require Import ZArith List Bool Arith Lia Setoid.
From V Require Import Model.Build Spec.C11 Proofs.C11.Tbl Proofs.C11.Inv.
Import ListNotations.

Definition obj_bad_prop (s : state) (o : nat) : Prop :=
  (exists q, In q (oin s o) /\ (undriven s q \/ stray_source s q)) \/
  (exists q, In q (oout s o) /\ undriven s q).

Lemma in_bad_iff : forall s q, in_bad s q = true <-> undriven s q \/ stray_source s q.
Proof.
  intros s q. unfold in_bad, undriven, stray_source.
  destruct (wbidir s (pwire s q)); cbn [orb]; [split; auto|].
  destruct (wsource s (pwire s q)) as [sp|]; [|split; auto].
  rewrite negb_true_iff, !orb_false_iff. split.
  - intros [[A B] C]. right. exists sp. repeat split; auto; intros HI; apply memb_In in HI; congruence.
  - intros [[A|A]|[sp' [E [A [B C]]]]]; try discriminate. inversion E; subst sp'. repeat split.
    + destruct (memb sp (oin s (pparent s sp))) eqn:M; auto. apply memb_In in M. tauto.
    + destruct (memb sp (oout s (pparent s sp))) eqn:M; auto. apply memb_In in M. tauto.
    + destruct (memb sp (oinout s (pparent s sp))) eqn:M; auto. apply memb_In in M. tauto.
Qed.
Lemma out_bad_iff : forall s q, out_bad s q = true <-> undriven s q.
Proof.
  intros s q. unfold out_bad, undriven. destruct (wbidir s (pwire s q)); cbn [orb]; [split; auto|].
  destruct (wsource s (pwire s q)); cbn; split; auto; try discriminate. intros [A|A]; discriminate.
Qed.
Lemma obj_bad_iff : forall s o, obj_bad s o = true <-> obj_bad_prop s o.
Proof.
  intros s o. unfold obj_bad, obj_bad_prop. rewrite orb_true_iff, !existsb_exists.
  split; (intros [[q [A B]]|[q [A B]]]; [left|right]; exists q; split; auto).
  - now apply in_bad_iff.
  - now apply out_bad_iff.
  - now apply in_bad_iff.
  - now apply out_bad_iff.
Qed.

Definition chain (F : nat -> ires) (acc : ires) (c : nat) : ires := match acc with IOk => F c | x => x end.

Lemma chain_raise : forall F cs, fold_left (chain F) cs IRaise = IRaise.
Proof. induction cs; cbn; auto. Qed.

Lemma chain_spec : forall F cs,
  (forall c, In c cs -> F c = IOk \/ F c = IRaise) ->
  let r := fold_left (chain F) cs IOk in
  (r = IOk \/ r = IRaise) /\ (r = IRaise <-> exists c, In c cs /\ F c = IRaise).
Proof.
  induction cs as [|c cs IH]; cbn; intros HF.
  - split; auto. split; [discriminate | intros [c [[] _]]].
  - destruct (HF c (or_introl eq_refl)) as [E|E]; rewrite E.
    + destruct IH as [A B]; [intros; apply HF; auto|]. split; auto.
      rewrite B. split; intros [c' [H1 H2]]; exists c'; split; auto.
      destruct H1 as [H1|H1]; auto. subst c'. congruence.
    + rewrite chain_raise. split; auto. split; auto. intros _. exists c. auto.
Qed.

Lemma below_lt : forall s, tree_ok s -> forall h o, below s h o -> h < nobj s -> h <= o /\ o < nobj s.
Proof.
  intros s T h o B. induction B as [o|o n c o' Hin B IH]; intros Hh; [lia|].
  destruct (T _ _ _ Hh Hin). destruct IH; lia.
Qed.

Lemma check_spec : forall s, tree_ok s -> forall fuel o,
  o < nobj s -> nobj s <= fuel + o ->
  (check fuel s o = IOk \/ check fuel s o = IRaise) /\
  (check fuel s o = IRaise <-> exists o', below s o o' /\ obj_bad s o' = true).
Proof.
  intros s T. induction fuel as [|f IH]; intros o Ho Hf; [lia|].
  cbn [check]. destruct (obj_bad s o) eqn:Hb.
  - split; auto. split; auto. intros _. exists o. split; [constructor | auto].
  - change (fun acc c => match acc with IOk => check f s c | x => x end) with (chain (fun c => check f s c)).
    assert (CH : forall c, In c (map snd (ochildren s o)) -> o < c /\ c < nobj s).
    { intros c Hc. apply in_map_iff in Hc. destruct Hc as [[n c'] [E Hin]]. cbn in E; subst c'. eapply T; eauto. }
    destruct (chain_spec (fun c => check f s c) (map snd (ochildren s o))) as [A B].
    { intros c Hc. destruct (CH c Hc). apply IH; lia. }
    split; auto. rewrite B. split.
    + intros [c [Hc Hr]]. destruct (CH c Hc). apply IH in Hr; try lia. destruct Hr as [o' [B1 B2]].
      exists o'. split; auto. apply in_map_iff in Hc. destruct Hc as [[n c'] [E Hin]]. cbn in E; subst c'.
      econstructor; eauto.
    + intros [o' [B1 B2]]. inversion B1 as [|? n c ? Hin B3]; subst; [congruence|].
      exists c. assert (Hc : In c (map snd (ochildren s o))) by (apply in_map_iff; exists (n, c); auto).
      split; auto. destruct (CH c Hc). apply IH; try lia. exists o'. auto.
Qed.

(* the general statement, for any state whose children tables form a forest (children are created after
   their parent): in particular for hierarchies read off real py4hw objects *)
Lemma integrity_iff : forall s h, tree_ok s -> h < nobj s ->
  checkIntegrity s h <> IFuel /\
  (checkIntegrity s h = IRaise <-> exists o, below s h o /\ obj_bad_prop s o).
Proof.
  intros s h T Hh. unfold checkIntegrity.
  destruct (check_spec s T (nobj s) h Hh) as [A B]; [lia|]. split.
  - destruct A as [A|A]; rewrite A; discriminate.
  - rewrite B. split; intros [o [B1 B2]]; exists o; split; auto; now apply obj_bad_iff.
Qed.

Lemma inv_tree_ok : forall s, Inv s -> tree_ok s.
Proof.
  intros s Hinv p n c Hp Hin. destruct (i_child s Hinv) as [_ [C2 _]]. destruct (C2 _ _ _ Hp Hin) as [? [? _]]. auto.
Qed.

(* in a constructed netlist the source of a wire is always listed in outPorts or inOutPorts of its block:
   the checkPort clause never fires *)
Lemma no_stray : forall s o q,
  Inv s -> o < nobj s -> In q (oin s o) -> wbidir s (pwire s q) = false -> ~ stray_source s q.
Proof.
  intros s o q Hinv Ho Hin Hb [sp [Hs [N1 [N2 N3]]]].
  destruct (i_ports s Hinv) as [P1 [P2 [P3 P4]]].
  apply P2 in Hin; auto. destruct Hin as [Hq _]. destruct (P1 q Hq) as [_ Hw].
  apply (i_src s Hinv) in Hs; auto. destruct Hs as [Hsp [_ [_ Hd]]].
  destruct (P1 sp Hsp) as [Hpo _].
  destruct (pkind s sp) eqn:K; cbn in Hd; [discriminate | apply N2; apply P3; auto | apply N3; apply P4; auto].
Qed.

Lemma integrity_clean : forall s h,
  Inv s -> h < nobj s ->
  (checkIntegrity s h = IRaise <-> exists q, visited s h q /\ undriven s q) /\
  (checkIntegrity s h = IOk <-> forall q, visited s h q -> ~ undriven s q).
Proof.
  intros s h Hinv Hh.
  pose proof (inv_tree_ok s Hinv) as T.
  destruct (integrity_iff s h T Hh) as [NF IFF].
  assert (R : checkIntegrity s h = IRaise <-> exists q, visited s h q /\ undriven s q).
  { rewrite IFF. unfold visited, obj_bad_prop. split.
    - intros [o [B [[q [Hin [U|S]]]|[q [Hin U]]]]].
      + exists q. split; auto. exists o. auto.
      + destruct (wbidir s (pwire s q)) eqn:Hb.
        * exists q. split; [exists o; auto | left; exact Hb].
        * exfalso. destruct (below_lt s T h o B Hh). eapply no_stray; eauto.
      + exists q. split; auto. exists o. auto.
    - intros [q [[o [B [Hin|Hin]]] U]]; exists o; split; auto; [left|right]; exists q; auto. }
  split; auto. split.
  - intros E q V U. assert (X : checkIntegrity s h = IRaise) by (apply R; eauto). congruence.
  - intros H. destruct (checkIntegrity s h) eqn:E; auto; [|congruence].
    exfalso. destruct R as [R _]. destruct (R eq_refl) as [q [V U]]. eapply H; eauto.
Qed.

(* the former counter-example: a wire driven by an InOutPort of a primitive block and read by an in-port is accepted *)
Definition ops_inout : list op :=
  [NewLogic None 0%Z false; NewWire 0 0%Z 1%Z; NewLogic (Some 0) 1%Z true; NewLogic (Some 0) 2%Z true;
   AddInOut 1 0%Z 0; AddIn 2 0%Z 0].
Lemma inout_driver_accepted : checkIntegrity (run ops_inout) 0 = IOk.
Proof. vm_compute. reflexivity. Qed.

(* what the check does NOT look at: an InOutPort of a structural block on an undriven wire is accepted
   (inOutPorts are not visited; in the library such ports are the external pins of platform shells) *)
Definition ops_inout_unvisited : list op :=
  [NewLogic None 0%Z false; NewWire 0 0%Z 1%Z; NewLogic (Some 0) 1%Z false; AddInOut 1 0%Z 0].
Lemma inout_port_not_visited :
  checkIntegrity (run ops_inout_unvisited) 0 = IOk /\ wsource (run ops_inout_unvisited) 0 = None /\
  oinout (run ops_inout_unvisited) 1 = [0] /\ pwire (run ops_inout_unvisited) 0 = 0.
Proof. vm_compute. repeat split; reflexivity. Qed.

(* in terms of the property's own notion "a wire that no block drives" (no_driver): exact as long as no visited
   in/out port is attached to a BidirWire *)
Lemma integrity_spec : forall s h,
  Inv s -> h < nobj s -> (forall q, visited s h q -> ~ on_bidir s q) ->
  (checkIntegrity s h = IRaise <-> exists q, visited s h q /\ no_driver s q) /\
  (checkIntegrity s h = IOk <-> forall q, visited s h q -> ~ no_driver s q).
Proof.
  intros s h Hinv Hh NB. destruct (integrity_clean s h Hinv Hh) as [R A].
  assert (E : forall q, visited s h q -> (undriven s q <-> no_driver s q)).
  { intros q V. specialize (NB q V). unfold on_bidir in NB. unfold undriven, no_driver.
    destruct (wbidir s (pwire s q)); [exfalso; auto|]. split; [intros [X|X]; [discriminate|auto] | auto]. }
  split.
  - rewrite R. split; intros [q [V U]]; exists q; split; auto; apply (E q V); auto.
  - rewrite A. split; intros H q V U; apply (H q V); apply (E q V); auto.
Qed.

(* refutation of the unguarded clause (finding F3): a BidirWire with a driver, read by an in-port of a primitive block:
   every wire has a driver, yet the check raises (BidirWire.getSource reads the non-existent attribute `source`) *)
Definition ops_bidir : list op :=
  [NewLogic None 0%Z false; NewBidir 0 0%Z 1%Z; NewLogic (Some 0) 1%Z true; NewLogic (Some 0) 2%Z true;
   AddOut 1 0%Z 0; AddIn 2 0%Z 0].
Lemma integrity_bidir_refuted :
  exists ops h, h < nobj (run ops) /\ checkIntegrity (run ops) h = IRaise /\
                forall q, q < nport (run ops) -> ~ no_driver (run ops) q.
Proof.
  exists ops_bidir, 0. split; [vm_compute; lia|]. split; [vm_compute; reflexivity|].
  intros q Hq. assert (E : q = 0 \/ q = 1) by (vm_compute in Hq; lia).
  destruct E; subst q; vm_compute; discriminate.
Qed.
