(* Proofs/C11/Conflict.v -- the conflicting call raises, every raising call leaves the state untouched,
   the earlier driver / child / wire stays in place, every wire stays registered *)
From Coq Require Import ZArith List Bool Arith Lia Setoid.
From V Require Import Model.Build Spec.C11 Proofs.C11.Tbl Proofs.C11.Inv.
Import ListNotations.

Lemma tget_upd_tput_keep : forall (T : nat -> tbl) p0 n v p k x,
  tget (T p) k = Some x -> tget (upd T p0 (tput (T p0) n v) p) k = Some x.
Proof.
  intros T p0 n v p k x H. unfold upd. destruct (Nat.eqb_spec p p0) as [E|E]; [subst|auto].
  rewrite tget_tput, H. reflexivity.
Qed.

(* deleting a key never makes another key appear: appendWire's own duplicate test cannot fire after the pre-check *)
Lemma tmem_after_del : forall (T : nat -> tbl) p n p' n',
  tmem (T p') n' = false -> tmem (upd T p (tdel (T p) n) p') n' = false.
Proof.
  intros T p n p' n' H. unfold upd. destruct (Nat.eqb_spec p' p) as [E|E]; [subst p'|exact H].
  unfold tmem in *. rewrite tget_tdel. destruct (Z.eqb n' n); auto.
Qed.

(* after the pre-check the destination slot is free once the wire's own entry has been deleted (the slot was empty,
   or it held the moved wire itself -- and then it IS the wire's own entry, by the table invariant) *)
Lemma post_del_free : forall s w p' n',
  Inv s -> p' < nobj s -> holds_other (owires s p') n' w = false ->
  tmem (upd (owires s) (wparent s w) (tdel (owires s (wparent s w)) (wname s w)) p') n' = false.
Proof.
  intros s w p' n' Hinv Hp' Hpre. unfold holds_other in Hpre.
  destruct (tget (owires s p') n') as [w'|] eqn:Ht.
  - destruct (Nat.eqb_spec w' w) as [E|E]; [subst w'|discriminate].
    destruct (i_wires s Hinv) as [_ W2]. destruct (W2 _ _ _ Hp' (tget_In _ _ _ Ht)) as [_ [Ep En]].
    rewrite Ep, En, upd_same. unfold tmem. rewrite tget_tdel, Z.eqb_refl. reflexivity.
  - apply tmem_after_del. unfold tmem. now rewrite Ht.
Qed.

(* parts of the state no rename / reparent ever touches *)
Lemma move_frame : forall s w np nn,
  let s' := fst (move s w np nn) in
  nobj s' = nobj s /\ nwire s' = nwire s /\ nport s' = nport s /\ ochildren s' = ochildren s /\
  wsource s' = wsource s /\ wsinks s' = wsinks s /\ oprim s' = oprim s /\
  pkind s' = pkind s /\ pparent s' = pparent s /\ pwire s' = pwire s /\ wbidir s' = wbidir s /\ wsources s' = wsources s.
Proof.
  intros s w np nn. unfold move.
  destruct (negb _); [cbn; repeat split|]. destruct (negb _); [cbn; repeat split|].
  destruct (holds_other _ _ _); [cbn; repeat split|]. destruct (negb _); [cbn; repeat split|].
  cbn. destruct (tmem _ _); cbn; repeat split.
Qed.

(* in a constructed netlist a move either changes nothing (and does not return Ok) or succeeds *)
Lemma move_cases : forall s w np nn s' out,
  Inv s -> move s w np nn = (s', out) ->
  (s' = s /\ out <> Ok) \/
  (out = Ok /\ w < nwire s /\
   let p := wparent s w in let n := wname s w in
   let p' := match np with Some x => x | None => p end in
   let n' := match nn with Some x => x | None => n end in
   p' < nobj s /\ holds_other (owires s p') n' w = false /\ tmem (owires s p) n = true /\
   let T1 := upd (owires s) p (tdel (owires s p) n) in
   tmem (T1 p') n' = false /\
   s' = set_owires (set_wparent (set_wname (set_owires s T1) (upd (wname s) w n')) (upd (wparent s) w p'))
                   (upd T1 p' (tput (T1 p') n' w))).
Proof.
  intros s w np nn s' out Hinv H. unfold move in H.
  destruct (Nat.ltb_spec w (nwire s)) as [Hw|Hw]; cbn [negb] in H; [|inversion H; left; split; auto; discriminate].
  destruct (Nat.ltb_spec (match np with Some x => x | None => wparent s w end) (nobj s)) as [Hp|Hp]; cbn [negb] in H;
    [|inversion H; left; split; auto; discriminate].
  destruct (holds_other _ _ _) eqn:Hpre in H; [inversion H; left; split; auto; discriminate|].
  destruct (tmem (owires s (wparent s w)) (wname s w)) eqn:Hm; cbn [negb] in H; [|inversion H; left; split; auto; discriminate].
  cbn in H. pose proof (post_del_free s w _ _ Hinv Hp Hpre) as Hfree. rewrite Hfree in H.
  inversion H; subst. right. cbn. repeat split; auto.
Qed.

(* the ways addIn / addOut / addInOut can end (stated without ever looking inside the successor state) *)
Lemma add_port_cases : forall s k o n w s' out,
  add_port s k o n w = (s', out) ->
  (s' = s /\ out = BadRef) \/
  (s' = s /\ out = Raise (CDriver w) /\ exists q, wsource s w = Some q) \/
  out = Ok.
Proof.
  intros s k o n w s' out H. unfold add_port in H.
  destruct (negb _); [injection H as E1 E2; left; auto|].
  destruct (oprim s o && drives k && negb (wbidir s w) && is_some (wsource s w)) eqn:Hc.
  - injection H as E1 E2. right; left. repeat split; auto.
    apply andb_true_iff in Hc. destruct Hc as [_ Hc]. destruct (wsource s w); [eauto | discriminate].
  - injection H as _ E2. right; right; auto.
Qed.

Lemma raise_unchanged : forall s o s' c, Inv s -> step s o = (s', Raise c) -> s' = s.
Proof.
  intros s o s' c Hinv H.
  assert (MV : forall w np nn, move s w np nn = (s', Raise c) -> s' = s).
  { intros w np nn HM. apply move_cases in HM; auto. destruct HM as [[E _]|[E _]]; [auto|discriminate]. }
  destruct o as [[p|] n prim|p n width|p n width|o n w|o n w|o n w|w n|w p|w p n]; cbn [step] in H; eauto.
  - unfold new_logic in H. destruct (negb (p <? nobj s)); [inversion H; subst; auto|].
    destruct (tmem (ochildren s p) n); inversion H; subst; auto.
  - unfold new_logic in H. inversion H.
  - unfold new_wire in H. destruct (negb (p <? nobj s)); [inversion H; subst; auto|].
    destruct (tmem (owires s p) n); inversion H; subst; auto.
  - unfold new_wire in H. destruct (negb (p <? nobj s)); [inversion H; subst; auto|].
    destruct (tmem (owires s p) n); inversion H; subst; auto.
  - apply add_port_cases in H. destruct H as [[E _]|[[E _]|E]]; auto; discriminate.
  - apply add_port_cases in H. destruct H as [[E _]|[[E _]|E]]; auto; discriminate.
  - apply add_port_cases in H. destruct H as [[E _]|[[E _]|E]]; auto; discriminate.
Qed.

(* ---------------------------------------------------------------- the conflicting call raises *)
Lemma conflict_raises : forall s o c,
  Inv s -> valid_op s o -> conflict_of s o = Some c -> snd (step s o) = Raise c.
Proof.
  intros s o c Hinv Hv Hc.
  assert (MV : forall w np nn p' n',
             w < nwire s -> p' < nobj s ->
             p' = match np with Some x => x | None => wparent s w end ->
             n' = match nn with Some x => x | None => wname s w end ->
             wire_conflict s w p' n' = Some c -> snd (move s w np nn) = Raise c).
  { intros w np nn p' n' Hw Hp' Ep En Hwc. unfold move.
    destruct (Nat.ltb_spec w (nwire s)); [|lia]. cbn [negb].
    rewrite <- Ep, <- En.
    destruct (Nat.ltb_spec p' (nobj s)); [|lia]. cbn [negb].
    unfold wire_conflict in Hwc. unfold holds_other. destruct (tget (owires s p') n') as [w'|] eqn:Ht; [|discriminate].
    destruct (Nat.eqb w' w); [discriminate|]. cbn [negb]. inversion Hwc; reflexivity. }
  destruct o as [[p|] n prim|p n width|p n width|o n w|o n w|o n w|w n|w p|w p n]; cbn [step conflict_of valid_op] in *.
  - unfold new_logic. destruct (Nat.ltb_spec p (nobj s)); [|lia]. cbn [negb].
    destruct (tmem (ochildren s p) n); [inversion Hc; reflexivity | discriminate].
  - discriminate.
  - unfold new_wire. destruct (Nat.ltb_spec p (nobj s)); [|lia]. cbn [negb].
    destruct (tmem (owires s p) n); [inversion Hc; reflexivity | discriminate].
  - unfold new_wire. destruct (Nat.ltb_spec p (nobj s)); [|lia]. cbn [negb].
    destruct (tmem (owires s p) n); [inversion Hc; reflexivity | discriminate].
  - discriminate.
  - unfold add_port. destruct Hv as [Ho Hw].
    destruct (Nat.ltb_spec o (nobj s)); [|lia]. destruct (Nat.ltb_spec w (nwire s)); [|lia]. cbn [negb andb drives].
    rewrite andb_true_r. destruct (oprim s o && negb (wbidir s w) && is_some (wsource s w)); [inversion Hc; reflexivity | discriminate].
  - unfold add_port. destruct Hv as [Ho Hw].
    destruct (Nat.ltb_spec o (nobj s)); [|lia]. destruct (Nat.ltb_spec w (nwire s)); [|lia]. cbn [negb andb drives].
    rewrite andb_true_r. destruct (oprim s o && negb (wbidir s w) && is_some (wsource s w)); [inversion Hc; reflexivity | discriminate].
  - eapply (MV w None (Some n)); eauto. apply (i_wpar s Hinv); auto.
  - destruct Hv. eapply (MV w (Some p) None); eauto.
  - destruct Hv. eapply (MV w (Some p) (Some n)); eauto.
Qed.

(* ---------------------------------------------------------------- a raising call names an existing item *)
Lemma raise_names_existing : forall s o s' c,
  Inv s -> all_registered s -> step s o = (s', Raise c) -> names_existing s c.
Proof.
  intros s o s' c Hinv Hreg H.
  assert (MV : forall w np nn, move s w np nn = (s', Raise c) -> names_existing s c).
  { intros w np nn HM. unfold move in HM.
    destruct (Nat.ltb_spec w (nwire s)) as [Hw|Hw]; cbn [negb] in HM; [|inversion HM].
    destruct (Nat.ltb_spec (match np with Some x => x | None => wparent s w end) (nobj s)) as [Hp|Hp]; cbn [negb] in HM; [|inversion HM].
    destruct (holds_other _ _ _) eqn:Hpre in HM.
    - inversion HM; subst. cbn. unfold holds_other in Hpre. destruct (tget _ _) as [w'|]; [eauto|discriminate].
    - destruct (tmem (owires s (wparent s w)) (wname s w)) eqn:Hm; cbn [negb] in HM.
      + cbn in HM. rewrite (post_del_free s w _ _ Hinv Hp Hpre) in HM. inversion HM.
      + exfalso. specialize (Hreg w Hw). unfold registered in Hreg. unfold tmem in Hm. rewrite Hreg in Hm. discriminate. }
  assert (AP : forall k o0 n w0, add_port s k o0 n w0 = (s', Raise c) -> names_existing s c).
  { intros k o0 n w0 HA. apply add_port_cases in HA. destruct HA as [[_ E]|[[_ [E X]]|E]]; try discriminate.
    injection E as E; subst c. exact X. }
  destruct o as [[p|] n prim|p n width|p n width|o n w|o n w|o n w|w n|w p|w p n]; cbn [step] in H; eauto.
  - unfold new_logic in H. destruct (negb _); [inversion H|].
    destruct (tmem (ochildren s p) n) eqn:Hm; inversion H; subst. cbn. now apply tmem_true.
  - inversion H.
  - unfold new_wire in H. destruct (negb _); [inversion H|].
    destruct (tmem (owires s p) n) eqn:Hm; inversion H; subst. cbn. now apply tmem_true.
  - unfold new_wire in H. destruct (negb _); [inversion H|].
    destruct (tmem (owires s p) n) eqn:Hm; inversion H; subst. cbn. now apply tmem_true.
Qed.

(* ---------------------------------------------------------------- earlier items stay in place, for EVERY call *)
Lemma children_stay_step : forall s o, children_stay s (exec s o).
Proof.
  intros s o p k c Hp Ht. unfold exec.
  assert (AP : forall kd o0 n w, tget (ochildren (fst (add_port s kd o0 n w)) p) k = Some c).
  { intros. unfold add_port. destruct (negb _); [exact Ht|]. destruct (_ && _ && _); exact Ht. }
  assert (MV : forall w np nn, tget (ochildren (fst (move s w np nn)) p) k = Some c).
  { intros. destruct (move_frame s w np nn) as [_ [_ [_ [E _]]]]. rewrite E. exact Ht. }
  destruct o as [[p0|] n0 prim|p0 n0 width|p0 n0 width|o n0 w|o n0 w|o n0 w|w n0|w p0|w p0 n0]; cbn [step]; auto.
  - unfold new_logic. destruct (negb _); [exact Ht|]. destruct (tmem _ _); [exact Ht|]. cbn.
    rewrite upd_other by lia. now apply tget_upd_tput_keep.
  - cbn. rewrite upd_other by lia. exact Ht.
  - unfold new_wire. destruct (negb _); [exact Ht|]. destruct (tmem _ _); exact Ht.
  - unfold new_wire. destruct (negb _); [exact Ht|]. destruct (tmem _ _); exact Ht.
Qed.

Lemma drivers_stay_step : forall s o, drivers_stay s (exec s o).
Proof.
  intros s o x q Hx Hs. unfold exec.
  assert (AP : forall kd o0 n w, wsource (fst (add_port s kd o0 n w)) x = Some q).
  { intros. unfold add_port. destruct (negb _); [exact Hs|].
    destruct (oprim s o0 && drives kd && negb (wbidir s w) && is_some (wsource s w)) eqn:Hc; [exact Hs|]. cbn.
    unfold upd. destruct (Nat.eqb_spec x w) as [E|E]; [subst x|exact Hs].
    rewrite Hs in *. cbn in Hc. rewrite andb_true_r in Hc. rewrite Hc. reflexivity. }
  assert (MV : forall w np nn, wsource (fst (move s w np nn)) x = Some q).
  { intros. destruct (move_frame s w np nn) as [_ [_ [_ [_ [E _]]]]]. rewrite E. exact Hs. }
  destruct o as [[p0|] n0 prim|p0 n0 width|p0 n0 width|o n0 w|o n0 w|o n0 w|w n0|w p0|w p0 n0]; cbn [step]; auto.
  - unfold new_logic. destruct (negb _); [exact Hs|]. destruct (tmem _ _); exact Hs.
  - unfold new_wire. destruct (negb _); [exact Hs|]. destruct (tmem _ _); [exact Hs|]. cbn.
    rewrite upd_other by lia. exact Hs.
  - unfold new_wire. destruct (negb _); [exact Hs|]. destruct (tmem _ _); [exact Hs|]. cbn.
    rewrite upd_other by lia. exact Hs.
Qed.

Lemma wires_stay_step : forall s o, Inv s -> subject_registered s o -> wires_stay s o (exec s o).
Proof.
  intros s o Hinv Hreg p k x Hp Ht Hsub. unfold exec.
  assert (AP : forall kd o0 n w, tget (owires (fst (add_port s kd o0 n w)) p) k = Some x).
  { intros. unfold add_port. destruct (negb _); [exact Ht|]. destruct (_ && _ && _); exact Ht. }
  assert (MV : forall w np nn, registered s w -> Some w <> Some x -> tget (owires (fst (move s w np nn)) p) k = Some x).
  { intros w np nn Hr Hne. destruct (move s w np nn) as [s' out] eqn:E. apply move_cases in E; auto.
    destruct E as [[E _]|[_ [_ E]]]; cbn [fst]; [subst; exact Ht|].
    cbn in E. destruct E as [_ [_ [_ [_ E]]]]. subst s'. cbn.
    apply tget_upd_tput_keep. unfold upd. destruct (Nat.eqb_spec p (wparent s w)) as [E|E]; [|exact Ht].
    rewrite tget_tdel. destruct (Z.eqb_spec k (wname s w)) as [E2|E2]; [|rewrite <- E; exact Ht].
    exfalso. apply Hne. unfold registered in Hr. rewrite <- E, <- E2 in Hr. congruence. }
  destruct o as [[p0|] n0 prim|p0 n0 width|p0 n0 width|o n0 w|o n0 w|o n0 w|w n0|w p0|w p0 n0]; cbn [step subject_registered subject] in *; auto.
  - unfold new_logic. destruct (negb _); [exact Ht|]. destruct (tmem _ _); [exact Ht|]. cbn.
    rewrite upd_other by lia. exact Ht.
  - cbn. rewrite upd_other by lia. exact Ht.
  - unfold new_wire. destruct (negb _); [exact Ht|]. destruct (tmem _ _); [exact Ht|]. cbn.
    now apply tget_upd_tput_keep.
  - unfold new_wire. destruct (negb _); [exact Ht|]. destruct (tmem _ _); [exact Ht|]. cbn.
    now apply tget_upd_tput_keep.
Qed.

(* ---------------------------------------------------------------- sizes only grow; permanence along a run *)
Lemma counters_grow : forall s o, nobj s <= nobj (exec s o) /\ nwire s <= nwire (exec s o).
Proof.
  intros s o. unfold exec.
  assert (AP : forall kd o0 n w, nobj s <= nobj (fst (add_port s kd o0 n w)) /\ nwire s <= nwire (fst (add_port s kd o0 n w))).
  { intros. unfold add_port. destruct (negb _); [cbn; lia|]. destruct (_ && _ && _); cbn; lia. }
  assert (MV : forall w np nn, nobj s <= nobj (fst (move s w np nn)) /\ nwire s <= nwire (fst (move s w np nn))).
  { intros. destruct (move_frame s w np nn) as [E1 [E2 _]]. rewrite E1, E2. lia. }
  destruct o as [[p0|] n0 prim|p0 n0 width|p0 n0 width|o n0 w|o n0 w|o n0 w|w n0|w p0|w p0 n0]; cbn [step]; auto.
  - unfold new_logic. destruct (negb _); [cbn; lia|]. destruct (tmem _ _); cbn; lia.
  - cbn. lia.
  - unfold new_wire. destruct (negb _); [cbn; lia|]. destruct (tmem _ _); cbn; lia.
  - unfold new_wire. destruct (negb _); [cbn; lia|]. destruct (tmem _ _); cbn; lia.
Qed.

Lemma driver_permanent : forall ops s w q,
  w < nwire s -> wsource s w = Some q -> wsource (run_from s ops) w = Some q.
Proof.
  induction ops as [|o ops IH]; intros s w q Hw Hs; [exact Hs|].
  unfold run_from in *. cbn. apply IH.
  - pose proof (counters_grow s o). lia.
  - now apply drivers_stay_step.
Qed.
Lemma child_permanent : forall ops s p n c,
  p < nobj s -> tget (ochildren s p) n = Some c -> tget (ochildren (run_from s ops) p) n = Some c.
Proof.
  induction ops as [|o ops IH]; intros s p n c Hp Ht; [exact Ht|].
  unfold run_from in *. cbn. apply IH.
  - pose proof (counters_grow s o). lia.
  - now apply children_stay_step.
Qed.

Lemma run_from_app : forall a b s, run_from s (a ++ b) = run_from (run_from s a) b.
Proof. intros. unfold run_from. now rewrite fold_left_app. Qed.
