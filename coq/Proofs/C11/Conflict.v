(* Proofs/C11/Conflict.v -- the conflicting call raises, the earlier driver / child / wire stays in place,
   what a failed call leaves behind, and the refutations around wires whose rename / reparent failed *)
From Coq Require Import ZArith List Bool Arith Lia Setoid.
From V Require Import Model.Build Spec.C11 Proofs.C11.Tbl Proofs.C11.Inv.
Import ListNotations.

Lemma tget_upd_tput_keep : forall (T : nat -> tbl) p0 n v p k x,
  tget (T p) k = Some x -> tget (upd T p0 (tput (T p0) n v) p) k = Some x.
Proof.
  intros T p0 n v p k x H. unfold upd. destruct (Nat.eqb_spec p p0) as [E|E]; [subst|auto].
  rewrite tget_tput, H. reflexivity.
Qed.

(* ---------------------------------------------------------------- the conflicting call raises *)
Lemma conflict_raises : forall s o c,
  Inv s -> valid_op s o -> subject_registered s o -> conflict_of s o = Some c -> snd (step s o) = Raise c.
Proof.
  intros s o c Hinv Hv Hreg Hc.
  assert (MV : forall w np nn p' n',
             w < nwire s -> p' < nobj s -> registered s w ->
             p' = match np with Some x => x | None => wparent s w end ->
             n' = match nn with Some x => x | None => wname s w end ->
             wire_conflict s w p' n' = Some c -> snd (move s w np nn) = Raise c).
  { intros w np nn p' n' Hw Hp' Hr Ep En Hwc. unfold move.
    destruct (Nat.ltb_spec w (nwire s)); [|lia]. cbn [negb].
    rewrite <- Ep, <- En.
    destruct (Nat.ltb_spec p' (nobj s)); [|lia]. cbn [negb].
    unfold registered in Hr. unfold tmem at 1. rewrite Hr. cbn [negb].
    unfold wire_conflict in Hwc. destruct (tget (owires s p') n') as [w'|] eqn:Ht; [|discriminate].
    destruct (Nat.eqb_spec w' w) as [E|E]; [discriminate|]. inversion Hwc; subst c; clear Hwc.
    cbn.
    assert (Ht1 : tget (upd (owires s) (wparent s w) (tdel (owires s (wparent s w)) (wname s w)) p') n' = Some w').
    { unfold upd. destruct (Nat.eqb_spec p' (wparent s w)) as [E1|E1]; [|exact Ht].
      rewrite tget_tdel. destruct (Z.eqb_spec n' (wname s w)) as [E2|E2].
      - exfalso. apply E. rewrite E1, E2 in Ht. congruence.
      - rewrite <- E1. exact Ht. }
    unfold tmem. rewrite Ht1. reflexivity. }
  destruct o as [[p|] n prim|p n width|o n w|o n w|o n w|w n|w p|w p n]; cbn [step conflict_of valid_op subject_registered subject] in *.
  - unfold new_logic. destruct (Nat.ltb_spec p (nobj s)); [|lia]. cbn [negb].
    destruct (tmem (ochildren s p) n); [inversion Hc; reflexivity | discriminate].
  - discriminate.
  - unfold new_wire. destruct (Nat.ltb_spec p (nobj s)); [|lia]. cbn [negb].
    destruct (tmem (owires s p) n); [inversion Hc; reflexivity | discriminate].
  - discriminate.
  - unfold add_port. destruct Hv as [Ho Hw].
    destruct (Nat.ltb_spec o (nobj s)); [|lia]. destruct (Nat.ltb_spec w (nwire s)); [|lia]. cbn [negb andb drives].
    rewrite andb_true_r. destruct (oprim s o && is_some (wsource s w)); [inversion Hc; reflexivity | discriminate].
  - unfold add_port. destruct Hv as [Ho Hw].
    destruct (Nat.ltb_spec o (nobj s)); [|lia]. destruct (Nat.ltb_spec w (nwire s)); [|lia]. cbn [negb andb drives].
    rewrite andb_true_r. destruct (oprim s o && is_some (wsource s w)); [inversion Hc; reflexivity | discriminate].
  - eapply (MV w None (Some n)); eauto. apply (i_wpar s Hinv); auto.
  - destruct Hv. eapply (MV w (Some p) None); eauto.
  - destruct Hv. eapply (MV w (Some p) (Some n)); eauto.
Qed.

(* ---------------------------------------------------------------- what a raising call leaves behind *)
Lemma raise_unchanged : forall s o s' c,
  step s o = (s', Raise c) -> subject o = None -> s' = s.
Proof.
  intros s o s' c H Hs.
  destruct o as [[p|] n prim|p n width|o n w|o n w|o n w|w n|w p|w p n]; cbn [step subject] in *; try discriminate.
  - unfold new_logic in H. destruct (negb (p <? nobj s)); [inversion H; subst; auto|].
    destruct (tmem (ochildren s p) n); inversion H; subst; auto.
  - unfold new_wire in H. destruct (negb (p <? nobj s)); [inversion H; subst; auto|].
    destruct (tmem (owires s p) n); inversion H; subst; auto.
  - unfold add_port in H. destruct (negb _); [inversion H; subst; auto|]. destruct (_ && _ && _); inversion H; subst; auto.
  - unfold add_port in H. destruct (negb _); [inversion H; subst; auto|]. destruct (_ && _ && _); inversion H; subst; auto.
  - unfold add_port in H. destruct (negb _); [inversion H; subst; auto|]. destruct (_ && _ && _); inversion H; subst; auto.
Qed.

(* a raising call names its conflict truthfully: the earlier item is there before and after *)
Lemma raise_child_kept : forall s o s' p n,
  step s o = (s', Raise (CChild p n)) -> s' = s /\ exists c, tget (ochildren s p) n = Some c.
Proof.
  intros s o s' p n H.
  destruct o as [[p0|] n0 prim|p0 n0 width|o n0 w|o n0 w|o n0 w|w n0|w p0|w p0 n0]; cbn [step] in H.
  - unfold new_logic in H. destruct (negb (p0 <? nobj s)); [inversion H|].
    destruct (tmem (ochildren s p0) n0) eqn:Hm; inversion H; subst. split; auto. now apply tmem_true.
  - inversion H.
  - unfold new_wire in H. destruct (negb _); [inversion H|]. destruct (tmem _ _); inversion H.
  - unfold add_port in H. destruct (negb _); [inversion H|]. destruct (_ && _ && _); inversion H.
  - unfold add_port in H. destruct (negb _); [inversion H|]. destruct (_ && _ && _); inversion H.
  - unfold add_port in H. destruct (negb _); [inversion H|]. destruct (_ && _ && _); inversion H.
  - unfold move in H. destruct (negb _); [inversion H|]. destruct (negb _); [inversion H|].
    destruct (negb _); [inversion H|]. cbn in H. destruct (tmem _ _); inversion H.
  - unfold move in H. destruct (negb _); [inversion H|]. destruct (negb _); [inversion H|].
    destruct (negb _); [inversion H|]. cbn in H. destruct (tmem _ _); inversion H.
  - unfold move in H. destruct (negb _); [inversion H|]. destruct (negb _); [inversion H|].
    destruct (negb _); [inversion H|]. cbn in H. destruct (tmem _ _); inversion H.
Qed.

Lemma raise_driver_kept : forall s o s' w,
  step s o = (s', Raise (CDriver w)) -> s' = s /\ exists q, wsource s w = Some q.
Proof.
  intros s o s' w H.
  assert (AP : forall k o n w0, add_port s k o n w0 = (s', Raise (CDriver w)) -> s' = s /\ exists q, wsource s w = Some q).
  { intros k o0 n w0 HA. unfold add_port in HA. destruct (negb _); [inversion HA|].
    destruct (oprim s o0 && drives k && is_some (wsource s w0)) eqn:Hc; inversion HA; subst. split; auto.
    apply andb_true_iff in Hc. destruct Hc as [_ Hc]. destruct (wsource _ w); [eauto | discriminate]. }
  destruct o as [[p0|] n0 prim|p0 n0 width|o n0 w0|o n0 w0|o n0 w0|w0 n0|w0 p0|w0 p0 n0]; cbn [step] in H; eauto.
  - unfold new_logic in H. destruct (negb _); [inversion H|]. destruct (tmem _ _); inversion H.
  - inversion H.
  - unfold new_wire in H. destruct (negb _); [inversion H|]. destruct (tmem _ _); inversion H.
  - unfold move in H. destruct (negb _); [inversion H|]. destruct (negb _); [inversion H|].
    destruct (negb _); [inversion H|]. cbn in H. destruct (tmem _ _); inversion H.
  - unfold move in H. destruct (negb _); [inversion H|]. destruct (negb _); [inversion H|].
    destruct (negb _); [inversion H|]. cbn in H. destruct (tmem _ _); inversion H.
  - unfold move in H. destruct (negb _); [inversion H|]. destruct (negb _); [inversion H|].
    destruct (negb _); [inversion H|]. cbn in H. destruct (tmem _ _); inversion H.
Qed.

(* a duplicate-wire error: the wire registered under that name is the same before and after the call, and it
   is not the wire that was being created / moved (which is now in no table) *)
Lemma raise_wire_kept : forall s o s' p n,
  Inv s -> step s o = (s', Raise (CWire p n)) ->
  exists w', tget (owires s p) n = Some w' /\ tget (owires s' p) n = Some w' /\ subject o <> Some w'.
Proof.
  intros s o s' p n Hinv H.
  assert (MV : forall w np nn, move s w np nn = (s', Raise (CWire p n)) ->
               exists w', tget (owires s p) n = Some w' /\ tget (owires s' p) n = Some w' /\ Some w <> Some w').
  { intros w np nn HM. unfold move in HM.
    destruct (Nat.ltb_spec w (nwire s)) as [Hw|Hw]; cbn [negb] in HM; [|inversion HM].
    set (p0 := wparent s w) in *. set (n0 := wname s w) in *.
    set (p' := match np with Some x => x | None => p0 end) in *.
    set (n' := match nn with Some x => x | None => n0 end) in *.
    destruct (Nat.ltb_spec p' (nobj s)) as [Hp'|Hp']; cbn [negb] in HM; [|inversion HM].
    destruct (tmem (owires s p0) n0) eqn:Hreg; cbn [negb] in HM; [|inversion HM].
    cbn in HM.
    match type of HM with (if ?c then _ else _) = _ => destruct c eqn:Hm2 end; [|inversion HM].
    injection HM as Es Ep En. rewrite <- Es, <- Ep, <- En. cbn.
    apply tmem_true in Hm2. destruct Hm2 as [w' Hw'].
    exists w'. rewrite Hw'.
    pose proof (i_wires s Hinv) as [W1 W2]. pose proof (i_wpar s Hinv w Hw) as Hp0. fold p0 in Hp0.
    revert Hw'. unfold upd.
    destruct (Nat.eqb_spec p' p0) as [E|E].
    - rewrite tget_tdel. destruct (Z.eqb_spec n' n0) as [E2|E2]; [discriminate|].
      intros Ht. rewrite E. repeat split; auto.
      intros Ew; injection Ew as Ew; subst w'. apply tget_In in Ht.
      destruct (W2 _ _ _ Hp0 Ht) as [_ [_ En0]]. fold n0 in En0. congruence.
    - intros Ht. repeat split; auto. intros Ew; injection Ew as Ew; subst w'.
      apply tget_In in Ht. destruct (W2 _ _ _ Hp' Ht) as [_ [Ep0 _]]. fold p0 in Ep0. congruence. }
  destruct o as [[p0|] n0 prim|p0 n0 width|o n0 w|o n0 w|o n0 w|w n0|w p0|w p0 n0]; cbn [step subject] in *; eauto.
  - unfold new_logic in H. destruct (negb _); [inversion H|]. destruct (tmem _ _); inversion H.
  - inversion H.
  - unfold new_wire in H. destruct (negb _); [inversion H|].
    destruct (tmem (owires s p0) n0) eqn:Hm; inversion H; subst.
    apply tmem_true in Hm. destruct Hm as [w' Hw']. exists w'. repeat split; auto. discriminate.
  - unfold add_port in H. destruct (negb _); [inversion H|]. destruct (_ && _ && _); inversion H.
  - unfold add_port in H. destruct (negb _); [inversion H|]. destruct (_ && _ && _); inversion H.
  - unfold add_port in H. destruct (negb _); [inversion H|]. destruct (_ && _ && _); inversion H.
Qed.

(* ---------------------------------------------------------------- earlier items stay in place, for EVERY call *)
Lemma children_stay_step : forall s o, children_stay s (exec s o).
Proof.
  intros s o p k c Hp Ht. unfold exec.
  assert (AP : forall kd o0 n w, tget (ochildren (fst (add_port s kd o0 n w)) p) k = Some c).
  { intros. unfold add_port. destruct (negb _); [exact Ht|]. destruct (_ && _ && _); exact Ht. }
  assert (MV : forall w np nn, tget (ochildren (fst (move s w np nn)) p) k = Some c).
  { intros. unfold move. destruct (negb _); [exact Ht|]. destruct (negb _); [exact Ht|].
    destruct (negb _); [exact Ht|]. cbn. destruct (tmem _ _); exact Ht. }
  destruct o as [[p0|] n0 prim|p0 n0 width|o n0 w|o n0 w|o n0 w|w n0|w p0|w p0 n0]; cbn [step]; auto.
  - unfold new_logic. destruct (negb _); [exact Ht|]. destruct (tmem _ _); [exact Ht|]. cbn.
    rewrite upd_other by lia. now apply tget_upd_tput_keep.
  - cbn. rewrite upd_other by lia. exact Ht.
  - unfold new_wire. destruct (negb _); [exact Ht|]. destruct (tmem _ _); exact Ht.
Qed.

Lemma drivers_stay_step : forall s o, drivers_stay s (exec s o).
Proof.
  intros s o x q Hx Hs. unfold exec.
  assert (AP : forall kd o0 n w, wsource (fst (add_port s kd o0 n w)) x = Some q).
  { intros. unfold add_port. destruct (negb _); [exact Hs|].
    destruct (oprim s o0 && drives kd && is_some (wsource s w)) eqn:Hc; [exact Hs|]. cbn.
    unfold upd. destruct (Nat.eqb_spec x w) as [E|E]; [subst x|exact Hs].
    rewrite Hs in *. cbn in Hc. rewrite andb_true_r in Hc. rewrite Hc. reflexivity. }
  assert (MV : forall w np nn, wsource (fst (move s w np nn)) x = Some q).
  { intros. unfold move. destruct (negb _); [exact Hs|]. destruct (negb _); [exact Hs|].
    destruct (negb _); [exact Hs|]. cbn. destruct (tmem _ _); exact Hs. }
  destruct o as [[p0|] n0 prim|p0 n0 width|o n0 w|o n0 w|o n0 w|w n0|w p0|w p0 n0]; cbn [step]; auto.
  - unfold new_logic. destruct (negb _); [exact Hs|]. destruct (tmem _ _); exact Hs.
  - unfold new_wire. destruct (negb _); [exact Hs|]. destruct (tmem _ _); [exact Hs|]. cbn.
    rewrite upd_other by lia. exact Hs.
Qed.

Lemma wires_stay_step : forall s o, subject_registered s o -> wires_stay s o (exec s o).
Proof.
  intros s o Hreg p k x Hp Ht Hsub. unfold exec.
  assert (AP : forall kd o0 n w, tget (owires (fst (add_port s kd o0 n w)) p) k = Some x).
  { intros. unfold add_port. destruct (negb _); [exact Ht|]. destruct (_ && _ && _); exact Ht. }
  assert (MV : forall w np nn, registered s w -> Some w <> Some x -> tget (owires (fst (move s w np nn)) p) k = Some x).
  { intros w np nn Hr Hne. unfold move. destruct (negb _); [exact Ht|]. destruct (negb _); [exact Ht|].
    destruct (negb _); [exact Ht|]. cbn.
    assert (K : tget (upd (owires s) (wparent s w) (tdel (owires s (wparent s w)) (wname s w)) p) k = Some x).
    { unfold upd. destruct (Nat.eqb_spec p (wparent s w)) as [E|E]; [|exact Ht].
      rewrite tget_tdel. destruct (Z.eqb_spec k (wname s w)) as [E2|E2]; [|rewrite <- E; exact Ht].
      exfalso. apply Hne. unfold registered in Hr. rewrite <- E, <- E2 in Hr. congruence. }
    destruct (tmem _ _); cbn; [exact K|].
    apply tget_upd_tput_keep. exact K. }
  destruct o as [[p0|] n0 prim|p0 n0 width|o n0 w|o n0 w|o n0 w|w n0|w p0|w p0 n0]; cbn [step subject_registered subject] in *; auto.
  - unfold new_logic. destruct (negb _); [exact Ht|]. destruct (tmem _ _); [exact Ht|]. cbn.
    rewrite upd_other by lia. exact Ht.
  - cbn. rewrite upd_other by lia. exact Ht.
  - unfold new_wire. destruct (negb _); [exact Ht|]. destruct (tmem _ _); [exact Ht|]. cbn.
    now apply tget_upd_tput_keep.
Qed.

(* ---------------------------------------------------------------- sizes only grow; permanence along a run *)
Lemma counters_grow : forall s o, nobj s <= nobj (exec s o) /\ nwire s <= nwire (exec s o).
Proof.
  intros s o. unfold exec.
  assert (AP : forall kd o0 n w, nobj s <= nobj (fst (add_port s kd o0 n w)) /\ nwire s <= nwire (fst (add_port s kd o0 n w))).
  { intros. unfold add_port. destruct (negb _); [cbn; lia|]. destruct (_ && _ && _); cbn; lia. }
  assert (MV : forall w np nn, nobj s <= nobj (fst (move s w np nn)) /\ nwire s <= nwire (fst (move s w np nn))).
  { intros. unfold move. destruct (negb _); [cbn; lia|]. destruct (negb _); [cbn; lia|].
    destruct (negb _); [cbn; lia|]. cbn. destruct (tmem _ _); cbn; lia. }
  destruct o as [[p0|] n0 prim|p0 n0 width|o n0 w|o n0 w|o n0 w|w n0|w p0|w p0 n0]; cbn [step]; auto.
  - unfold new_logic. destruct (negb _); [cbn; lia|]. destruct (tmem _ _); cbn; lia.
  - cbn. lia.
  - unfold new_wire. destruct (negb _); [cbn; lia|]. destruct (tmem _ _); cbn; lia.
Qed.

Lemma driver_permanent : forall ops s w q,
  w < nwire s -> wsource s w = Some q -> wsource (run_from s ops) w = Some q.
Proof.
  induction ops as [|o ops IH]; intros s w q Hw Hs; [exact Hs|].
  unfold run_from in *. cbn. apply IH.
  - pose proof (counters_grow s o). lia.
  - now apply drivers_stay_step.
Qed.
Lemma child_permanent : forall ops s p n c,
  p < nobj s -> tget (ochildren s p) n = Some c -> tget (ochildren (run_from s ops) p) n = Some c.
Proof.
  induction ops as [|o ops IH]; intros s p n c Hp Ht; [exact Ht|].
  unfold run_from in *. cbn. apply IH.
  - pose proof (counters_grow s o). lia.
  - now apply children_stay_step.
Qed.

Lemma run_from_app : forall a b s, run_from s (a ++ b) = run_from (run_from s a) b.
Proof. intros. unfold run_from. now rewrite fold_left_app. Qed.
