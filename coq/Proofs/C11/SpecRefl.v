(* Proofs/C11/SpecRefl.v -- the executable transcriptions of Spec/C11.v (the *_b functions the correspondence
   check evaluates on REAL states) are equivalent to the declarative predicates *)
From Coq Require Import ZArith List Bool Arith Lia Setoid.
From V Require Import Model.Build Spec.C11 Proofs.C11.Tbl.
Import ListNotations.

Lemma forallb_seq : forall f n, forallb f (seq 0 n) = true <-> forall i, i < n -> f i = true.
Proof.
  intros. rewrite forallb_forall. split; intros H i Hi.
  - apply H. apply in_seq. lia.
  - apply in_seq in Hi. apply H. lia.
Qed.
Lemma existsb_seq : forall f n, existsb f (seq 0 n) = true <-> exists i, i < n /\ f i = true.
Proof.
  intros. rewrite existsb_exists. split; intros [i [A B]]; exists i; split; auto.
  - apply in_seq in A. lia.
  - apply in_seq. lia.
Qed.
Lemma list_eqb_nat : forall a b, list_eqb Nat.eqb a b = true <-> a = b.
Proof.
  induction a as [|x a IH]; destruct b as [|y b]; cbn; split; intros H; try discriminate; auto.
  - apply andb_true_iff in H. destruct H as [E H]. apply Nat.eqb_eq in E. apply IH in H. congruence.
  - inversion H; subst. rewrite Nat.eqb_refl. cbn. now apply IH.
Qed.
Lemma oeqb_eq : forall a b, oeqb a b = true <-> a = b.
Proof.
  destruct a, b; cbn; split; intros H; try discriminate; auto.
  - apply Nat.eqb_eq in H. congruence.
  - inversion H. apply Nat.eqb_refl.
Qed.
Lemma nodup_keys_iff : forall t, nodup_keys t = true <-> NoDup (map fst t).
Proof.
  induction t as [|[k v] r IH]; cbn; split; intros H; auto; try constructor.
  - apply andb_true_iff in H. destruct H as [A B]. apply negb_true_iff, tmem_false in A. auto.
  - apply andb_true_iff in H. destruct H as [A B]. now apply IH.
  - inversion H; subst. apply andb_true_iff. split; [apply negb_true_iff, tmem_false; auto | now apply IH].
Qed.
Lemma forallb_pairs : forall (f : name * nat -> bool) t, forallb f t = true <-> forall n v, In (n, v) t -> f (n, v) = true.
Proof.
  intros. rewrite forallb_forall. split; intros H.
  - intros n v Hin. now apply H.
  - intros [n v] Hin. now apply H.
Qed.

Lemma singleton_list : forall (l : list nat) a, NoDup l -> (forall x, In x l <-> x = a) -> l = [a].
Proof.
  intros l a Hnd H. destruct l as [|x l].
  - exfalso. apply (H a). reflexivity.
  - assert (x = a) by (apply H; now left). subst x. f_equal.
    destruct l as [|y l]; auto. exfalso.
    assert (y = a) by (apply H; right; now left). subst y.
    inversion Hnd as [|? ? Hn _]; subst. apply Hn. now left.
Qed.
Lemma NoDup_filter_seq : forall f n, NoDup (filter f (seq 0 n)).
Proof. intros. apply NoDup_filter, seq_NoDup. Qed.
Lemma In_filter_seq : forall f n x, In x (filter f (seq 0 n)) <-> x < n /\ f x = true.
Proof. intros. rewrite filter_In, in_seq. intuition lia. Qed.

Lemma driver_b_iff : forall s w q, q < nport s -> (driver_b s w q = true <-> driver s q w).
Proof.
  intros s w q Hq. unfold driver_b, driver. rewrite !andb_true_iff, Nat.eqb_eq. intuition.
Qed.

Lemma single_driver_b_iff : forall s, single_driver_b s = true <-> single_driver s.
Proof.
  intros s. unfold single_driver_b, single_driver. rewrite forallb_seq. split; intros H w.
  - intros q Hw Hb. specialize (H w Hw). rewrite Hb in H. cbn [orb] in H. apply list_eqb_nat in H.
    assert (M : In q (filter (driver_b s w) (seq 0 (nport s))) <-> driver s q w).
    { rewrite In_filter_seq. split.
      - intros [A B]. now apply driver_b_iff.
      - intros D. split; [apply D | apply driver_b_iff; auto; apply D]. }
    rewrite <- M, H. destruct (wsource s w) as [q0|]; cbn; split; intros X; try tauto; try discriminate.
    + destruct X as [X|[]]. congruence.
    + inversion X. auto.
  - intros Hw. destruct (wbidir s w) eqn:Hb; [reflexivity|]. cbn [orb]. apply list_eqb_nat.
    assert (H' : forall q, driver s q w <-> wsource s w = Some q) by (intros q; apply H; auto). clear H. rename H' into H.
    destruct (wsource s w) as [q0|] eqn:E.
    + apply singleton_list; [apply NoDup_filter_seq|]. intros x. rewrite In_filter_seq. split.
      * intros [A B]. apply driver_b_iff in B; auto. apply H in B. congruence.
      * intros ->. assert (D : driver s q0 w) by (apply H; auto). split; [apply D | apply driver_b_iff; auto; apply D].
    + destruct (filter (driver_b s w) (seq 0 (nport s))) as [|x l] eqn:F; auto. exfalso.
      assert (X : In x (filter (driver_b s w) (seq 0 (nport s)))) by (rewrite F; now left).
      apply In_filter_seq in X. destruct X as [A B]. apply driver_b_iff in B; auto. apply H in B. congruence.
Qed.

Lemma unique_children_b_iff : forall s, unique_children_b s = true <-> unique_children s.
Proof.
  intros s. unfold unique_children_b, unique_children. rewrite andb_true_iff, !forallb_seq. split.
  - intros [A B].
    assert (A1 : forall p, p < nobj s -> NoDup (map fst (ochildren s p))).
    { intros p Hp. specialize (A p Hp). apply andb_true_iff in A. destruct A as [A _]. now apply nodup_keys_iff. }
    split; [exact A1|]. split.
    + intros p n c Hp Hin. specialize (A p Hp). apply andb_true_iff in A. destruct A as [_ A].
      rewrite forallb_pairs in A. specialize (A n c Hin). cbn in A.
      rewrite !andb_true_iff in A. destruct A as [[[X1 X2] X3] X4].
      apply Nat.ltb_lt in X1, X2. apply oeqb_eq in X3. apply Z.eqb_eq in X4. auto.
    + intros c p Hc Hp. specialize (B c Hc). rewrite Hp in B. apply andb_true_iff in B. destruct B as [X1 X2].
      apply Nat.ltb_lt in X1. apply oeqb_eq in X2. split; auto. now apply tget_In.
  - intros [C1 [C2 C3]]. split.
    + intros p Hp. apply andb_true_iff. split; [apply nodup_keys_iff; auto|].
      apply forallb_pairs. intros n c Hin. destruct (C2 _ _ _ Hp Hin) as [X1 [X2 [X3 X4]]].
      rewrite !andb_true_iff. repeat split; [now apply Nat.ltb_lt | now apply Nat.ltb_lt | now apply oeqb_eq | now apply Z.eqb_eq].
    + intros c Hc. destruct (oparent s c) as [p|] eqn:E; auto.
      destruct (C3 _ _ Hc E) as [X1 X2]. apply andb_true_iff. split; [now apply Nat.ltb_lt|].
      apply oeqb_eq. apply In_tget; auto. apply C1. lia.
Qed.

Lemma unique_wires_b_iff : forall s, unique_wires_b s = true <-> unique_wires s.
Proof.
  intros s. unfold unique_wires_b, unique_wires. rewrite forallb_seq. split.
  - intros A. split.
    + intros p Hp. specialize (A p Hp). apply andb_true_iff in A. destruct A as [A _]. now apply nodup_keys_iff.
    + intros p n w Hp Hin. specialize (A p Hp). apply andb_true_iff in A. destruct A as [_ A].
      rewrite forallb_pairs in A. specialize (A n w Hin). cbn in A.
      rewrite !andb_true_iff in A. destruct A as [[X1 X2] X3].
      apply Nat.ltb_lt in X1. apply Nat.eqb_eq in X2. apply Z.eqb_eq in X3. auto.
  - intros [W1 W2] p Hp. apply andb_true_iff. split; [apply nodup_keys_iff; auto|].
    apply forallb_pairs. intros n w Hin. destruct (W2 _ _ _ Hp Hin) as [X1 [X2 X3]].
    rewrite !andb_true_iff. repeat split; [now apply Nat.ltb_lt | now apply Nat.eqb_eq | now apply Z.eqb_eq].
Qed.

Lemma children_stay_b_iff : forall s s',
  (forall p, p < nobj s -> NoDup (map fst (ochildren s p))) ->
  (children_stay_b s s' = true <-> children_stay s s').
Proof.
  intros s s' ND. unfold children_stay_b, children_stay. rewrite forallb_seq. split.
  - intros A p n c Hp Ht. specialize (A p Hp). rewrite forallb_pairs in A.
    specialize (A n c (tget_In _ _ _ Ht)). now apply oeqb_eq in A.
  - intros A p Hp. apply forallb_pairs. intros n c Hin. apply oeqb_eq. apply A; auto. apply In_tget; auto.
Qed.
Lemma drivers_stay_b_iff : forall s s', drivers_stay_b s s' = true <-> drivers_stay s s'.
Proof.
  intros s s'. unfold drivers_stay_b, drivers_stay. rewrite forallb_seq. split.
  - intros A w q Hw Hs. specialize (A w Hw). rewrite Hs in A. now apply oeqb_eq in A.
  - intros A w Hw. destruct (wsource s w) as [q|] eqn:E; auto. apply oeqb_eq. auto.
Qed.
Lemma wires_stay_b_iff : forall s o s',
  (forall p, p < nobj s -> NoDup (map fst (owires s p))) ->
  (wires_stay_b s o s' = true <-> wires_stay s o s').
Proof.
  intros s o s' ND. unfold wires_stay_b, wires_stay. rewrite forallb_seq. split.
  - intros A p n w Hp Ht Hs. specialize (A p Hp). rewrite forallb_pairs in A.
    specialize (A n w (tget_In _ _ _ Ht)). cbn in A. apply orb_true_iff in A. destruct A as [A|A]; apply oeqb_eq in A; congruence.
  - intros A p Hp. apply forallb_pairs. intros n w Hin. cbn. apply orb_true_iff.
    destruct (oeqb (subject o) (Some w)) eqn:E; auto. right. apply oeqb_eq. apply A; auto.
    + apply In_tget; auto.
    + intros X. apply oeqb_eq in X. congruence.
Qed.
Lemma registered_b_iff : forall s w, registered_b s w = true <-> registered s w.
Proof. intros. unfold registered_b, registered. apply oeqb_eq. Qed.
Lemma all_registered_b_iff : forall s, all_registered_b s = true <-> all_registered s.
Proof.
  intros s. unfold all_registered_b, all_registered. rewrite forallb_seq.
  split; intros H w Hw; apply registered_b_iff; auto.
Qed.
Lemma subject_registered_b_iff : forall s o, subject_registered_b s o = true <-> subject_registered s o.
Proof.
  intros. unfold subject_registered_b, subject_registered. destruct (subject o); [apply registered_b_iff | tauto].
Qed.

(* ---------------------------------------------------------------- below <-> parent chains *)
Lemma below_trans : forall s a b c, below s a b -> below s b c -> below s a c.
Proof. intros s a b c H. induction H; intros; auto. econstructor; eauto. Qed.

Lemma below_last : forall s, unique_children s -> forall h o, h < nobj s -> below s h o ->
  o = h \/ exists p, p < o /\ oparent s o = Some p /\ below s h p.
Proof.
  intros s [_ [C2 _]] h o Hh B. induction B as [o|o n c o' Hin B IH]; auto.
  destruct (C2 _ _ _ Hh Hin) as [Hc [Hlt [Hp Hn]]].
  destruct (IH Hc) as [E|[p [P1 [P2 P3]]]].
  - subst o'. right. exists o. repeat split; auto. constructor.
  - right. exists p. repeat split; auto. econstructor; eauto.
Qed.
Lemma below_le : forall s, unique_children s -> forall h o, h < nobj s -> below s h o -> h <= o /\ o < nobj s.
Proof.
  intros s [_ [C2 _]] h o Hh B. induction B as [o|o n c o' Hin B IH]; [lia|].
  destruct (C2 _ _ _ Hh Hin) as [Hc [Hlt _]]. destruct (IH Hc). lia.
Qed.

Lemma anc_b_below : forall s, unique_children s -> forall fuel h o,
  h < nobj s -> o < nobj s -> anc_b fuel s h o = true -> below s h o.
Proof.
  intros s UC. destruct UC as [C1 [C2 C3]].
  induction fuel as [|f IH]; intros h o Hh Ho H; cbn in H; apply orb_true_iff in H; destruct H as [H|H];
    try (apply Nat.eqb_eq in H; subst; constructor); try discriminate.
  destruct (oparent s o) as [p|] eqn:E; [|discriminate].
  destruct (C3 _ _ Ho E) as [Hlt Hin].
  apply below_trans with p; [apply IH; auto; lia | econstructor; [exact Hin | constructor]].
Qed.
Lemma below_anc_b : forall s, unique_children s -> forall fuel h o,
  h < nobj s -> below s h o -> o <= fuel + h -> anc_b fuel s h o = true.
Proof.
  intros s UC. induction fuel as [|f IH]; intros h o Hh B Hf.
  - destruct (below_le s UC h o Hh B). assert (o = h) by lia. subst. cbn. now rewrite Nat.eqb_refl.
  - cbn. destruct (Nat.eqb_spec o h) as [E|E]; auto. cbn.
    destruct (below_last s UC h o Hh B) as [E2|[p [P1 [P2 P3]]]]; [congruence|].
    rewrite P2. apply IH; auto. lia.
Qed.
Lemma anc_b_iff : forall s, unique_children s -> forall h o,
  h < nobj s -> o < nobj s -> (anc_b (nobj s) s h o = true <-> below s h o).
Proof.
  intros s UC h o Hh Ho. split; [now apply anc_b_below | intros B; apply below_anc_b; auto; lia].
Qed.

Lemma undriven_port_b_iff : forall s h, unique_children s -> h < nobj s ->
  (undriven_port_b s h = true <-> exists q, visited s h q /\ no_driver s q).
Proof.
  intros s h UC Hh. unfold undriven_port_b, visited, no_driver. rewrite existsb_seq. split.
  - intros [o [Ho H]]. apply andb_true_iff in H. destruct H as [A B].
    apply anc_b_iff in A; auto. apply existsb_exists in B. destruct B as [q [Hin Hq]].
    exists q. split.
    + exists o. split; auto. now apply in_app_iff.
    + destruct (wbidir s (pwire s q)).
      * destruct (wsources s (pwire s q)); [reflexivity | discriminate].
      * apply negb_true_iff in Hq. destruct (wsource s (pwire s q)); [discriminate | reflexivity].
  - intros [q [[o [B Hin]] U]]. exists o. destruct (below_le s UC h o Hh B) as [_ Ho]. split; auto.
    apply andb_true_iff. split; [now apply anc_b_iff|].
    apply existsb_exists. exists q. split; [now apply in_app_iff|].
    destruct (wbidir s (pwire s q)); now rewrite U.
Qed.
