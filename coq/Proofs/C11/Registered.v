(* Proofs/C11/Registered.v -- every wire stays registered under its own (parent, name) as long as no
   rename / reparent has raised; and what goes wrong afterwards (refutations, by computation) *)
From Coq Require Import ZArith List Bool Arith Lia Setoid.
From V Require Import Model.Build Spec.C11 Proofs.C11.Tbl Proofs.C11.Inv Proofs.C11.Conflict.
Import ListNotations.

Lemma registered_step : forall s o,
  Inv s -> all_registered s -> (subject o <> None -> snd (step s o) = Ok) -> all_registered (exec s o).
Proof.
  intros s o Hinv Hreg Hok. unfold exec.
  pose proof (i_wpar s Hinv) as WP.
  assert (AP : forall kd o0 n w, all_registered (fst (add_port s kd o0 n w))).
  { intros. unfold add_port. destruct (negb _); [exact Hreg|]. destruct (_ && _ && _); exact Hreg. }
  assert (MV : forall w np nn, snd (move s w np nn) = Ok -> all_registered (fst (move s w np nn))).
  { intros w np nn. unfold move.
    destruct (Nat.ltb_spec w (nwire s)) as [Hw|Hw]; cbn [negb]; [|discriminate].
    destruct (negb _); [discriminate|].
    destruct (negb (tmem _ _)) eqn:Hm; [discriminate|]. cbn.
    match goal with |- snd (if ?c then _ else _) = _ -> _ => destruct c eqn:Hm2 end; [discriminate|].
    intros _ x Hx. cbn in Hx. unfold registered. cbn.
    set (p := wparent s w) in *. set (n := wname s w) in *.
    set (p' := match np with Some y => y | None => p end) in *.
    set (n' := match nn with Some y => y | None => n end) in *.
    set (T1 := upd (owires s) p (tdel (owires s p) n)) in *.
    change (T1 p' ++ [(n', w)]) with (tput (T1 p') n' w).
    apply negb_false_iff in Hm. apply tmem_true in Hm. destruct Hm as [w0 Hw0].
    assert (Ew0 : w0 = w) by (specialize (Hreg w Hw); unfold registered in Hreg; fold p n in Hreg; congruence).
    subst w0.
    unfold upd at 2 3. destruct (Nat.eqb_spec x w) as [E|E].
    - subst x. rewrite upd_same, tget_tput.
      unfold tmem in Hm2. destruct (tget (T1 p') n'); [discriminate|]. now rewrite Z.eqb_refl.
    - apply tget_upd_tput_keep. specialize (Hreg x Hx). unfold registered in Hreg.
      unfold T1, upd. destruct (Nat.eqb_spec (wparent s x) p) as [E1|E1]; [|exact Hreg].
      rewrite tget_tdel. destruct (Z.eqb_spec (wname s x) n) as [E2|E2]; [|rewrite <- E1; exact Hreg].
      exfalso. apply E. rewrite E1, E2 in Hreg. congruence. }
  destruct o as [[p0|] n0 prim|p0 n0 width|o n0 w|o n0 w|o n0 w|w n0|w p0|w p0 n0]; cbn [step subject] in *; auto;
    try (apply MV; apply Hok; discriminate).
  - unfold new_logic. destruct (negb _); [exact Hreg|]. destruct (tmem _ _); [exact Hreg|].
    intros x Hx. cbn in Hx. unfold registered. cbn. rewrite upd_other; [apply Hreg; auto | specialize (WP x Hx); lia].
  - intros x Hx. cbn in Hx. unfold registered. cbn. rewrite upd_other; [apply Hreg; auto | specialize (WP x Hx); lia].
  - unfold new_wire. destruct (negb _); [exact Hreg|]. destruct (tmem (owires s p0) n0) eqn:Hm; [exact Hreg|].
    intros x Hx. cbn in Hx. unfold registered. cbn.
    change (owires s p0 ++ [(n0, nwire s)]) with (tput (owires s p0) n0 (nwire s)).
    unfold upd at 2 3. destruct (Nat.eqb_spec x (nwire s)) as [E|E].
    + subst x. rewrite upd_same, tget_tput. unfold tmem in Hm. destruct (tget (owires s p0) n0); [discriminate|].
      now rewrite Z.eqb_refl.
    + apply tget_upd_tput_keep. apply Hreg. lia.
Qed.

Lemma registered_run : forall ops s,
  Inv s -> all_registered s -> moves_succeed s ops -> all_registered (run_from s ops).
Proof.
  induction ops as [|o ops IH]; intros s Hinv Hreg Hm; [exact Hreg|].
  destruct Hm as [Hm1 Hm2]. unfold run_from in *. cbn. apply IH; auto.
  - unfold exec. destruct (step s o) as [s' out] eqn:E. cbn. eapply step_inv; eauto.
  - apply registered_step; auto.
Qed.
Lemma registered_init : all_registered init.
Proof. intros w Hw. cbn in Hw. lia. Qed.

(* ---------------------------------------------------------------- refutations (computed on the model; replayed on the real classes) *)
Definition ops_evict : list op :=
  [NewLogic None 0%Z false; NewWire 0 1%Z 1%Z; NewWire 0 2%Z 1%Z; Rename 0 2%Z].

(* after a rename that raised, renaming the same wire again removes ANOTHER wire (never touched by any call)
   from the parent's table *)
Lemma evict_witness :
  let s := run ops_evict in
  snd (step (run [NewLogic None 0%Z false; NewWire 0 1%Z 1%Z; NewWire 0 2%Z 1%Z]) (Rename 0 2%Z)) = Raise (CWire 0 2%Z) /\
  tget (owires s 0) 2%Z = Some 1 /\ registered s 1 /\
  snd (step s (Rename 0 3%Z)) = Ok /\
  tget (owires (exec s (Rename 0 3%Z)) 0) 2%Z = None.
Proof. vm_compute. repeat split; reflexivity. Qed.

Lemma wires_stay_refuted : exists ops o, valid_op (run ops) o /\ ~ wires_stay (run ops) o (exec (run ops) o).
Proof.
  exists ops_evict, (Rename 0 3%Z). split; [vm_compute; lia|].
  intros H. specialize (H 0 2%Z 1). vm_compute in H.
  assert (X : @None nat = Some 1) by (apply H; [lia | reflexivity | discriminate]). discriminate.
Qed.

(* ... and renaming it to the name it collided with now SUCCEEDS and replaces the earlier wire *)
Lemma conflict_raises_refuted :
  exists ops o c, valid_op (run ops) o /\ conflict_of (run ops) o = Some c /\ snd (step (run ops) o) = Ok /\
                  tget (owires (run ops) 0) 2%Z = Some 1 /\ tget (owires (exec (run ops) o) 0) 2%Z = Some 0.
Proof.
  exists ops_evict, (Rename 0 2%Z), (CWire 0 2%Z). vm_compute. repeat split; auto.
Qed.
