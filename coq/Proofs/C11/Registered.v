(* Proofs/C11/Registered.v -- every wire is registered under its own (parent, name) after EVERY call sequence
   (a failed rename / reparent no longer unregisters the wire), hence `del` never raises KeyError; and the
   former counter-examples (witnesses of the repaired defect) now behave *)
From Coq Require Import ZArith List Bool Arith Lia Setoid.
From V Require Import Model.Build Spec.C11 Proofs.C11.Tbl Proofs.C11.Inv Proofs.C11.Conflict.
Import ListNotations.

Lemma registered_step : forall s o, Inv s -> all_registered s -> all_registered (exec s o).
Proof.
  intros s o Hinv Hreg. unfold exec.
  pose proof (i_wpar s Hinv) as WP.
  assert (AP : forall kd o0 n w, all_registered (fst (add_port s kd o0 n w))).
  { intros. unfold add_port. destruct (negb _); [exact Hreg|]. destruct (_ && _ && _); exact Hreg. }
  assert (MV : forall w np nn, all_registered (fst (move s w np nn))).
  { intros w np nn. destruct (move s w np nn) as [s' out] eqn:E. apply move_cases in E; auto.
    destruct E as [[E _]|[_ [Hw E]]]; cbn [fst]; [subst; exact Hreg|].
    cbn in E. destruct E as [Hp' [Hpre [Hm [Hm2 E]]]]. subst s'.
    set (p := wparent s w) in *. set (n := wname s w) in *.
    set (p' := match np with Some y => y | None => p end) in *.
    set (n' := match nn with Some y => y | None => n end) in *.
    set (T1 := upd (owires s) p (tdel (owires s p) n)) in *.
    intros x Hx. cbn in Hx. unfold registered. cbn.
    unfold upd at 2 3. destruct (Nat.eqb_spec x w) as [E|E].
    - subst x. rewrite upd_same, tget_tput.
      unfold tmem in Hm2. destruct (tget (T1 p') n'); [discriminate|]. now rewrite Z.eqb_refl.
    - apply tget_upd_tput_keep. pose proof (Hreg x Hx) as Hrx. pose proof (Hreg w Hw) as Hrw.
      unfold registered in Hrx, Hrw. fold p n in Hrw.
      unfold T1, upd. destruct (Nat.eqb_spec (wparent s x) p) as [E1|E1]; [|exact Hrx].
      rewrite tget_tdel. destruct (Z.eqb_spec (wname s x) n) as [E2|E2]; [|rewrite <- E1; exact Hrx].
      exfalso. apply E. rewrite E1, E2 in Hrx. congruence. }
  destruct o as [[p0|] n0 prim|p0 n0 width|p0 n0 width|o n0 w|o n0 w|o n0 w|w n0|w p0|w p0 n0]; cbn [step] in *; auto.
  - unfold new_logic. destruct (negb _); [exact Hreg|]. destruct (tmem _ _); [exact Hreg|].
    intros x Hx. cbn in Hx. unfold registered. cbn. rewrite upd_other; [apply Hreg; auto | specialize (WP x Hx); lia].
  - intros x Hx. cbn in Hx. unfold registered. cbn. rewrite upd_other; [apply Hreg; auto | specialize (WP x Hx); lia].
  - unfold new_wire. destruct (negb _); [exact Hreg|]. destruct (tmem (owires s p0) n0) eqn:Hm; [exact Hreg|].
    intros x Hx. cbn in Hx. unfold registered. cbn.
    change (owires s p0 ++ [(n0, nwire s)]) with (tput (owires s p0) n0 (nwire s)).
    unfold upd at 2 3. destruct (Nat.eqb_spec x (nwire s)) as [E|E].
    + subst x. rewrite upd_same, tget_tput. unfold tmem in Hm. destruct (tget (owires s p0) n0); [discriminate|].
      now rewrite Z.eqb_refl.
    + apply tget_upd_tput_keep. apply Hreg. lia.
  - unfold new_wire. destruct (negb _); [exact Hreg|]. destruct (tmem (owires s p0) n0) eqn:Hm; [exact Hreg|].
    intros x Hx. cbn in Hx. unfold registered. cbn.
    change (owires s p0 ++ [(n0, nwire s)]) with (tput (owires s p0) n0 (nwire s)).
    unfold upd at 2 3. destruct (Nat.eqb_spec x (nwire s)) as [E|E].
    + subst x. rewrite upd_same, tget_tput. unfold tmem in Hm. destruct (tget (owires s p0) n0); [discriminate|].
      now rewrite Z.eqb_refl.
    + apply tget_upd_tput_keep. apply Hreg. lia.
Qed.

Lemma registered_run_from : forall ops s, Inv s -> all_registered s -> all_registered (run_from s ops).
Proof.
  induction ops as [|o ops IH]; intros s Hinv Hreg; [exact Hreg|].
  unfold run_from in *. cbn. apply IH.
  - unfold exec. destruct (step s o) as [s' out] eqn:E. cbn. eapply step_inv; eauto.
  - apply registered_step; auto.
Qed.
Lemma registered_run : forall ops, all_registered (run ops).
Proof.
  intros. apply registered_run_from; [exact inv_init|]. intros w Hw. cbn in Hw. lia.
Qed.

Lemma subject_registered_all : forall s o, all_registered s -> valid_op s o -> subject_registered s o.
Proof.
  intros s o A V. unfold subject_registered.
  destruct o; cbn in *; auto; apply A; tauto.
Qed.

(* ---------------------------------------------------------------- the former counter-example, on the repaired model *)
Definition ops_failed_rename : list op :=
  [NewLogic None 0%Z false; NewWire 0 1%Z 1%Z; NewWire 0 2%Z 1%Z; Rename 0 2%Z].

(* a.rename('b') raises and changes nothing; a.rename('c') then moves a only, wire b stays; a.rename('b') still raises *)
Lemma failed_rename_harmless :
  let s0 := run [NewLogic None 0%Z false; NewWire 0 1%Z 1%Z; NewWire 0 2%Z 1%Z] in
  let s := run ops_failed_rename in
  snd (step s0 (Rename 0 2%Z)) = Raise (CWire 0 2%Z) /\
  dump s = dump s0 /\
  snd (step s (Rename 0 3%Z)) = Ok /\
  tget (owires (exec s (Rename 0 3%Z)) 0) 2%Z = Some 1 /\ tget (owires (exec s (Rename 0 3%Z)) 0) 3%Z = Some 0 /\
  snd (step s (Rename 0 2%Z)) = Raise (CWire 0 2%Z) /\
  (* moving a wire onto its own slot is not a collision: rename to the current name, reparent to the current parent *)
  snd (step s (Rename 0 1%Z)) = Ok /\ snd (step s (Reparent 1 0)) = Ok /\ snd (step s (ReparentAndRename 1 0 2%Z)) = Ok /\
  dump (exec s (Reparent 1 0)) = dump s.
Proof. vm_compute. repeat split; reflexivity. Qed.
