(* Proofs/C11/Inv.v -- the construction invariant and its preservation by every operation of Model/Build.v *)
From Coq Require Import ZArith List Bool Arith Lia Setoid.
From V Require Import Model.Build Spec.C11 Proofs.C11.Tbl.
Import ListNotations.

Definition ports_ok (s : state) : Prop :=
  (forall q, q < nport s -> pparent s q < nobj s /\ pwire s q < nwire s) /\
  (forall o q, o < nobj s -> (In q (oin s o) <-> q < nport s /\ pkind s q = PIn /\ pparent s q = o)) /\
  (forall o q, o < nobj s -> (In q (oout s o) <-> q < nport s /\ pkind s q = POut /\ pparent s q = o)) /\
  (forall o q, o < nobj s -> (In q (oinout s o) <-> q < nport s /\ pkind s q = PInOut /\ pparent s q = o)).

Record Inv (s : state) : Prop := mkInv {
  i_child : unique_children s;
  i_wires : unique_wires s;
  i_wpar : forall w, w < nwire s -> wparent s w < nobj s;
  i_ports : ports_ok s;
  i_src : single_driver s }.

Lemma inv_init : Inv init.
Proof.
  constructor; unfold unique_children, unique_wires, ports_ok, single_driver, driver; cbn;
    repeat split; intros; try lia.
Qed.

Ltac eqb_cases :=
  repeat match goal with
  | |- context [Nat.eqb ?a ?b] => destruct (Nat.eqb_spec a b); subst
  | H : context [Nat.eqb ?a ?b] |- _ => destruct (Nat.eqb_spec a b); subst
  end.

Ltac crush :=
  repeat (match goal with
  | H : _ /\ _ |- _ => destruct H
  | H : Some _ = Some _ |- _ => inversion H; subst; clear H
  | H : (_, _) = (_, _) |- _ => inversion H; subst; clear H
  | H : In _ (tput _ _ _) |- _ => apply In_tput in H; destruct H as [H|[? ?]]; subst
  | H : In _ [] |- _ => destruct H
  end); try lia; try congruence; auto.

(* ---------------------------------------------------------------- Logic.__init__ *)
Section NewLogic.
Variables (s : state) (n : name) (prim : bool).
Hypothesis Hinv : Inv s.

Lemma children_facts : forall p k c, p < nobj s -> In (k, c) (ochildren s p) ->
  c < nobj s /\ p < c /\ oparent s c = Some p /\ oname s c = k.
Proof. destruct Hinv as [[_ [C2 _]] _ _ _ _]. exact C2. Qed.

Lemma alloc_children_some : forall p, p < nobj s -> tmem (ochildren s p) n = false ->
  unique_children (alloc_obj (set_ochildren s (upd (ochildren s) p (tput (ochildren s p) n (nobj s)))) (Some p) n prim).
Proof.
  intros p Hp Hm. destruct Hinv as [[C1 [C2 C3]] _ _ _ _].
  unfold unique_children; cbn. split; [|split].
  - intros p' Hp'. unfold upd. eqb_cases; cbn; try constructor.
    + apply NoDup_tput; auto.
    + apply C1; lia.
  - intros p' k c Hp' Hin. unfold upd in *.
    destruct (Nat.eqb_spec p' (nobj s)) as [E|E]; [subst; destruct Hin|].
    assert (Hp'' : p' < nobj s) by lia.
    destruct (Nat.eqb_spec p' p) as [E2|E2].
    + subst p'. apply In_tput in Hin. destruct Hin as [Hin|[? ?]].
      * destruct (C2 _ _ _ Hp Hin) as [? [? [? ?]]]. eqb_cases; crush.
      * subst. eqb_cases; crush.
    + destruct (C2 _ _ _ Hp'' Hin) as [? [? [? ?]]]. eqb_cases; crush.
  - intros c p' Hc Hpar. unfold upd in *.
    destruct (Nat.eqb_spec c (nobj s)) as [E|E].
    + subst c. inversion Hpar; subst p'. split; [lia|]. eqb_cases; try lia. apply In_tput. auto.
    + assert (Hc' : c < nobj s) by lia. destruct (C3 _ _ Hc' Hpar) as [Hlt Hin]. split; [lia|].
      eqb_cases; try lia; auto. apply In_tput; auto.
Qed.

Lemma alloc_children_none : unique_children (alloc_obj s None n prim).
Proof.
  destruct Hinv as [[C1 [C2 C3]] _ _ _ _].
  unfold unique_children; cbn. split; [|split].
  - intros p' Hp'. unfold upd. eqb_cases; cbn; try constructor. apply C1; lia.
  - intros p' k c Hp' Hin. unfold upd in *.
    destruct (Nat.eqb_spec p' (nobj s)) as [E|E]; [subst; destruct Hin|].
    assert (Hp'' : p' < nobj s) by lia.
    destruct (C2 _ _ _ Hp'' Hin) as [? [? [? ?]]]. eqb_cases; crush.
  - intros c p' Hc Hpar. unfold upd in *.
    destruct (Nat.eqb_spec c (nobj s)) as [E|E]; [discriminate|].
    assert (Hc' : c < nobj s) by lia. destruct (C3 _ _ Hc' Hpar) as [Hlt Hin]. split; [lia|].
    eqb_cases; try lia; auto.
Qed.

(* everything except the children tables: the new block has empty tables and no port points to it *)
Lemma alloc_rest : forall s0 par,
  nobj s0 = nobj s -> nwire s0 = nwire s -> nport s0 = nport s -> owires s0 = owires s ->
  oin s0 = oin s -> oout s0 = oout s -> oinout s0 = oinout s -> oprim s0 = oprim s ->
  wparent s0 = wparent s -> wname s0 = wname s -> wsource s0 = wsource s ->
  pkind s0 = pkind s -> pparent s0 = pparent s -> pwire s0 = pwire s ->
  let s' := alloc_obj s0 par n prim in
  unique_wires s' /\ (forall w, w < nwire s' -> wparent s' w < nobj s') /\ ports_ok s'.
Proof.
  intros s0 par E1 E2 E3 E4 E5 E6 E7 E8 E9 E10 E11 E12 E13 E14 s'.
  destruct Hinv as [_ [W1 W2] WP [P1 [P2 [P3 P4]]] SD].
  subst s'. unfold unique_wires, ports_ok. cbn.
  rewrite ?E1, ?E2, ?E3, ?E4, ?E5, ?E6, ?E7, ?E8, ?E9, ?E10, ?E11, ?E12, ?E13, ?E14.
  assert (PP : forall q, q < nport s -> pparent s q <> nobj s) by (intros q Hq; destruct (P1 q Hq); lia).
  repeat split.
  - intros p Hp. unfold upd. eqb_cases; cbn; [constructor | apply W1; lia].
  - revert H0. unfold upd. eqb_cases; cbn; [tauto|]. intros Hin. assert (Hp : p < nobj s) by lia. destruct (W2 _ _ _ Hp Hin); auto.
  - revert H0. unfold upd. eqb_cases; cbn; [tauto|]. intros Hin. assert (Hp : p < nobj s) by lia. destruct (W2 _ _ _ Hp Hin) as [? [? ?]]; auto.
  - revert H0. unfold upd. eqb_cases; cbn; [tauto|]. intros Hin. assert (Hp : p < nobj s) by lia. destruct (W2 _ _ _ Hp Hin) as [? [? ?]]; auto.
  - intros w Hw. specialize (WP w Hw). lia.
  - destruct (P1 q H); lia.
  - destruct (P1 q H); lia.
  - revert H0. unfold upd. eqb_cases; cbn; [tauto|]. intros Hin. apply P2 in Hin; [tauto|lia].
  - revert H0. unfold upd. eqb_cases; cbn; [tauto|]. intros Hin. apply P2 in Hin; [tauto|lia].
  - revert H0. unfold upd. eqb_cases; cbn; [tauto|]. intros Hin. apply P2 in Hin; [tauto|lia].
  - intros [Hq [Hk Hpp]]. unfold upd. eqb_cases; [exfalso; eapply PP; eauto|]. apply P2; [lia|auto].
  - revert H0. unfold upd. eqb_cases; cbn; [tauto|]. intros Hin. apply P3 in Hin; [tauto|lia].
  - revert H0. unfold upd. eqb_cases; cbn; [tauto|]. intros Hin. apply P3 in Hin; [tauto|lia].
  - revert H0. unfold upd. eqb_cases; cbn; [tauto|]. intros Hin. apply P3 in Hin; [tauto|lia].
  - intros [Hq [Hk Hpp]]. unfold upd. eqb_cases; [exfalso; eapply PP; eauto|]. apply P3; [lia|auto].
  - revert H0. unfold upd. eqb_cases; cbn; [tauto|]. intros Hin. apply P4 in Hin; [tauto|lia].
  - revert H0. unfold upd. eqb_cases; cbn; [tauto|]. intros Hin. apply P4 in Hin; [tauto|lia].
  - revert H0. unfold upd. eqb_cases; cbn; [tauto|]. intros Hin. apply P4 in Hin; [tauto|lia].
  - intros [Hq [Hk Hpp]]. unfold upd. eqb_cases; [exfalso; eapply PP; eauto|]. apply P4; [lia|auto].
Qed.

Lemma alloc_sd : forall s0 par,
  nobj s0 = nobj s -> nwire s0 = nwire s -> nport s0 = nport s -> oprim s0 = oprim s -> wsource s0 = wsource s -> wbidir s0 = wbidir s ->
  pkind s0 = pkind s -> pparent s0 = pparent s -> pwire s0 = pwire s ->
  single_driver (alloc_obj s0 par n prim).
Proof.
  intros s0 par E1 E2 E3 E8 E11 E15 E12 E13 E14.
  destruct Hinv as [_ _ _ [P1 _] SD].
  unfold single_driver, driver. cbn. rewrite E1, E2, E3, E8, E11, E15, E12, E13, E14.
  assert (PP : forall q, q < nport s -> pparent s q <> nobj s) by (intros q Hq; destruct (P1 q Hq); lia).
  intros w q Hw Hb. rewrite <- (SD w q Hw Hb). unfold driver. split.
  - intros [Hq [Hpw [Hpr Hd]]]. rewrite upd_other in Hpr by (apply PP; auto). repeat split; auto.
  - intros [Hq [Hpw [Hpr Hd]]]. rewrite upd_other by (apply PP; auto). repeat split; auto.
Qed.
End NewLogic.

Lemma new_logic_inv : forall s par n prim s' out,
  Inv s -> new_logic s par n prim = (s', out) -> Inv s'.
Proof.
  intros s par n prim s' out Hinv H.
  unfold new_logic in H.
  destruct par as [p|].
  - destruct (Nat.ltb_spec p (nobj s)) as [Hp|Hp]; cbn [negb] in H; [|inversion H; subst; auto].
    destruct (tmem (ochildren s p) n) eqn:Hm; [inversion H; subst; auto|].
    inversion H; subst; clear H.
    destruct (alloc_rest s n prim Hinv (set_ochildren s (upd (ochildren s) p (tput (ochildren s p) n (nobj s)))) (Some p))
      as [A [B C]]; try reflexivity.
    constructor; auto; [apply alloc_children_some; auto | apply (alloc_sd s n prim Hinv); reflexivity].
  - inversion H; subst; clear H.
    destruct (alloc_rest s n prim Hinv s None) as [A [B C]]; try reflexivity.
    constructor; auto; [apply alloc_children_none; auto | apply (alloc_sd s n prim Hinv); reflexivity].
Qed.

(* ---------------------------------------------------------------- Wire.__init__ *)
Lemma new_wire_inv : forall s p n width bd s' out,
  Inv s -> new_wire s p n width bd = (s', out) -> Inv s'.
Proof.
  intros s p n width bd s' out Hinv H. unfold new_wire in H.
  destruct (Nat.ltb_spec p (nobj s)) as [Hp|Hp]; cbn [negb] in H; [|inversion H; subst; auto].
  destruct (tmem (owires s p) n) eqn:Hm; [inversion H; subst; auto|].
  inversion H; subst; clear H.
  destruct Hinv as [HC [W1 W2] WP [P1 [P2 [P3 P4]]] SD].
  constructor.
  - exact HC.
  - unfold unique_wires; cbn. split.
    + intros p' Hp'. unfold upd. eqb_cases; [apply NoDup_tput; auto | auto].
    + intros p' k x Hp' Hin. unfold upd in *.
      destruct (Nat.eqb_spec p' p) as [E|E].
      * subst p'. apply In_tput in Hin. destruct Hin as [Hin|[? ?]].
        -- destruct (W2 _ _ _ Hp Hin) as [? [? ?]]. eqb_cases; crush.
        -- subst. eqb_cases; crush.
      * destruct (W2 _ _ _ Hp' Hin) as [? [? ?]]. eqb_cases; crush.
  - cbn. intros x Hx. unfold upd. eqb_cases; auto. apply WP; lia.
  - unfold ports_ok; cbn. split; [|split; [|split]]; auto.
    intros q Hq. destruct (P1 q Hq). split; auto; lia.
  - unfold single_driver, driver; cbn. intros x q Hx.
    assert (PW : forall q, q < nport s -> pwire s q <> nwire s) by (intros q0 Hq0; destruct (P1 q0 Hq0); lia).
    unfold upd. destruct (Nat.eqb_spec x (nwire s)) as [E|E].
    + subst x. intros _. split; [|discriminate]. intros [Hq [Hw _]]. exfalso; eapply PW; eauto.
    + apply SD. lia.
Qed.

(* ---------------------------------------------------------------- addIn / addOut / addInOut *)
Lemma port_list_app : forall s (L : state -> nat -> list nat) kk o,
  o < nobj s ->
  (forall o' q, o' < nobj s -> (In q (L s o') <-> q < nport s /\ pkind s q = kk /\ pparent s q = o')) ->
  forall o' q, o' < nobj s ->
    (In q (upd (L s) o (L s o ++ [nport s]) o') <->
     q < S (nport s) /\ upd (pkind s) (nport s) kk q = kk /\ upd (pparent s) (nport s) o q = o').
Proof.
  intros s L kk o Ho HL o' q Ho'. unfold upd.
  destruct (Nat.eqb_spec q (nport s)) as [Eq|Eq].
  - subst q. destruct (Nat.eqb_spec o' o) as [Eo|Eo].
    + subst. rewrite in_app_iff. cbn. intuition.
    + rewrite HL; auto. split; [lia|]. intros [_ [_ E]]. congruence.
  - destruct (Nat.eqb_spec o' o) as [Eo|Eo].
    + subst. rewrite in_app_iff. cbn. rewrite HL; auto. intuition; lia.
    + rewrite HL; auto. intuition; lia.
Qed.
Lemma port_list_same : forall s (L : state -> nat -> list nat) kk k o,
  k <> kk -> o < nobj s ->
  (forall o' q, o' < nobj s -> (In q (L s o') <-> q < nport s /\ pkind s q = kk /\ pparent s q = o')) ->
  forall o' q, o' < nobj s ->
    (In q (upd (L s) o (L s o) o') <->
     q < S (nport s) /\ upd (pkind s) (nport s) k q = kk /\ upd (pparent s) (nport s) o q = o').
Proof.
  intros s L kk k o Hk Ho HL o' q Ho'.
  assert (E : upd (L s) o (L s o) o' = L s o') by (unfold upd; destruct (Nat.eqb_spec o' o); subst; auto).
  rewrite E, HL; auto. unfold upd.
  destruct (Nat.eqb_spec q (nport s)) as [Eq|Eq]; [subst; intuition; try lia; congruence | intuition; lia].
Qed.

Lemma add_port_inv : forall s k o n w s' out,
  Inv s -> add_port s k o n w = (s', out) -> Inv s'.
Proof.
  intros s k o n w s' out Hinv H. unfold add_port in H.
  destruct (Nat.ltb_spec o (nobj s)) as [Ho|Ho]; cbn [negb andb] in H; [|inversion H; subst; auto].
  destruct (Nat.ltb_spec w (nwire s)) as [Hw|Hw]; cbn [negb andb] in H; [|inversion H; subst; auto].
  destruct (oprim s o && drives k && negb (wbidir s w) && is_some (wsource s w)) eqn:Hc; [inversion H; subst; auto|].
  inversion H; subst; clear H.
  destruct Hinv as [HC HW WP [P1 [P2 [P3 P4]]] SD].
  constructor.
  - exact HC.
  - exact HW.
  - exact WP.
  - unfold ports_ok; cbn. split; [|split; [|split]].
    + intros q Hq. unfold upd. eqb_cases; auto. apply P1; lia.
    + destruct k; first [apply (port_list_app s oin PIn); auto | apply (port_list_same s oin PIn); auto; discriminate].
    + destruct k; first [apply (port_list_app s oout POut); auto | apply (port_list_same s oout POut); auto; discriminate].
    + destruct k; first [apply (port_list_app s oinout PInOut); auto | apply (port_list_same s oinout PInOut); auto; discriminate].
  - unfold single_driver, driver; cbn. intros x q Hx Hbx.
    unfold single_driver in SD.
    assert (NEW : forall x', x' < nwire s -> wbidir s x' = false -> wsource s x' <> Some (nport s)).
    { intros x' Hx' Hb' E. apply SD in E; auto. destruct E; lia. }
    unfold upd.
    destruct (Nat.eqb_spec q (nport s)) as [Eq|Eq].
    + subst q. destruct (Nat.eqb_spec x w) as [Ex|Ex].
      * subst x. rewrite Hbx in *. cbn [negb] in *. rewrite andb_true_r in *.
        destruct (oprim s o && drives k) eqn:Hd.
        -- apply andb_true_iff in Hd. intuition.
        -- split; [|intros E; exfalso; eapply NEW; eauto].
           intros [_ [_ [A B]]]. rewrite A, B in Hd. discriminate.
      * split; [intros [_ [A _]]; congruence | intros E; exfalso; eapply NEW; eauto].
    + destruct (Nat.eqb_spec x w) as [Ex|Ex].
      * subst x. rewrite Hbx in *. cbn [negb] in *. rewrite andb_true_r in *.
        destruct (oprim s o && drives k) eqn:Hd.
        -- cbn in Hc. destruct (wsource s w) eqn:Hs; [discriminate|].
           split; [|intros E; inversion E; congruence].
           intros [Hq [A [B C]]]. exfalso.
           assert (D : driver s q w) by (unfold driver; repeat split; auto; lia).
           apply SD in D; auto. congruence.
        -- rewrite <- SD; auto. unfold driver. intuition; lia.
      * rewrite <- SD; auto. unfold driver. intuition; lia.
Qed.

(* ---------------------------------------------------------------- rename / reparent / reparentAndRename *)
Lemma move_inv : forall s w np nn s' out,
  Inv s -> move s w np nn = (s', out) -> Inv s'.
Proof.
  intros s w np nn s' out Hinv H. unfold move in H.
  destruct (Nat.ltb_spec w (nwire s)) as [Hw|Hw]; cbn [negb] in H; [|inversion H; subst; auto].
  set (p := wparent s w) in *. set (n := wname s w) in *.
  set (p' := match np with Some x => x | None => p end) in *.
  set (n' := match nn with Some x => x | None => n end) in *.
  destruct (Nat.ltb_spec p' (nobj s)) as [Hp'|Hp']; cbn [negb] in H; [|inversion H; subst; auto].
  destruct (holds_other (owires s p') n' w) eqn:Hpre; [inversion H; subst; auto|].
  destruct (tmem (owires s p) n) eqn:Hm; cbn [negb] in H; [|inversion H; subst; auto].
  destruct Hinv as [HC [W1 W2] WP HP SD].
  assert (Hp : p < nobj s) by (apply WP; auto).
  (* the intermediate state: w is in no table *)
  assert (S1 : forall p0 k x, p0 < nobj s -> In (k, x) (upd (owires s) p (tdel (owires s p) n) p0) ->
               x <> w /\ x < nwire s /\ wparent s x = p0 /\ wname s x = k).
  { intros p0 k x Hp0 Hin. unfold upd in Hin. destruct (Nat.eqb_spec p0 p) as [E|E].
    - subst p0. apply In_tdel in Hin. destruct Hin as [Hin Hk].
      destruct (W2 _ _ _ Hp Hin) as [? [? ?]]. repeat split; auto. intros Ex; subst x. apply Hk. subst n. auto.
    - destruct (W2 _ _ _ Hp0 Hin) as [? [? ?]]. repeat split; auto. intros Ex; subst x. apply E. subst p. auto. }
  assert (N1 : forall p0, p0 < nobj s -> NoDup (map fst (upd (owires s) p (tdel (owires s p) n) p0))).
  { intros p0 Hp0. unfold upd. destruct (Nat.eqb_spec p0 p); [subst; apply NoDup_tdel; auto | auto]. }
  cbn in H.
  match type of H with (if ?c then _ else _) = _ => destruct c eqn:Hm2 end; inversion H; subst; clear H.
  - (* appendWire raised: the wire stays out of every table *)
    constructor; auto.
    + unfold unique_wires; cbn. split; auto.
      intros p0 k x Hp0 Hin. destruct (S1 _ _ _ Hp0 Hin) as [Hx [? [? ?]]].
      unfold upd. eqb_cases; try congruence. auto.
    + cbn. intros x Hx. unfold upd. eqb_cases; auto.
  - constructor; auto.
    + unfold unique_wires; cbn. split.
      * intros p0 Hp0. unfold upd at 1. destruct (Nat.eqb_spec p0 p') as [E|E]; [|auto].
        subst p0. apply NoDup_tput; auto.
      * intros p0 k x Hp0 Hin. unfold upd at 1 in Hin.
        destruct (Nat.eqb_spec p0 p') as [E|E].
        -- subst p0. apply In_tput in Hin. destruct Hin as [Hin|[? ?]].
           ++ destruct (S1 _ _ _ Hp0 Hin) as [Hx [? [? ?]]]. unfold upd. eqb_cases; try congruence. auto.
           ++ subst. unfold upd. rewrite !Nat.eqb_refl. auto.
        -- destruct (S1 _ _ _ Hp0 Hin) as [Hx [? [? ?]]]. unfold upd. eqb_cases; try congruence. auto.
    + cbn. intros x Hx. unfold upd. eqb_cases; auto.
Qed.

Lemma step_inv : forall s o s' out, Inv s -> step s o = (s', out) -> Inv s'.
Proof.
  intros s o s' out Hinv H. destruct o; cbn in H;
    eauto using new_logic_inv, new_wire_inv, add_port_inv, move_inv.
Qed.

Lemma run_from_inv : forall ops s, Inv s -> Inv (run_from s ops).
Proof.
  induction ops as [|o ops IH]; intros s Hinv; [exact Hinv|].
  unfold run_from in *. cbn. apply IH. unfold exec.
  destruct (step s o) as [s' out] eqn:E. cbn. eapply step_inv; eauto.
Qed.
Lemma run_inv : forall ops, Inv (run ops).
Proof. intros. apply run_from_inv. exact inv_init. Qed.
