(* Proofs/C11/Main.v -- the lemmas in the exact form Properties/C11.v states them *)
From Coq Require Import ZArith List Bool Arith Lia Setoid.
From V Require Import Model.Build Spec.C11 Proofs.C11.Tbl Proofs.C11.Inv Proofs.C11.Conflict
     Proofs.C11.Registered Proofs.C11.Integrity Proofs.C11.SpecRefl Proofs.C11.Sinks.
Import ListNotations.

Lemma single_driver_run : forall ops, single_driver (run ops).
Proof. intros. apply (i_src _ (run_inv ops)). Qed.
Lemma one_driver_run : forall ops w q q',
  w < nwire (run ops) -> wbidir (run ops) w = false -> driver (run ops) q w -> driver (run ops) q' w -> q = q'.
Proof.
  intros ops w q q' Hw Hb D1 D2. pose proof (single_driver_run ops) as SD.
  apply SD in D1; auto. apply SD in D2; auto. congruence.
Qed.
Lemma unique_children_run : forall ops, unique_children (run ops).
Proof. intros. apply (i_child _ (run_inv ops)). Qed.
Lemma unique_wires_run : forall ops, unique_wires (run ops).
Proof. intros. apply (i_wires _ (run_inv ops)). Qed.
Lemma wires_registered_run : forall ops, all_registered (run ops).
Proof. exact registered_run. Qed.
Lemma sinks_exact_run : forall ops, sinks_exact (run ops).
Proof. exact sinks_run. Qed.

Lemma sources_exact_run : forall ops, sources_exact (run ops).
Proof. exact sources_run. Qed.

Lemma conflict_raises_run : forall ops o c,
  valid_op (run ops) o -> conflict_of (run ops) o = Some c -> snd (step (run ops) o) = Raise c.
Proof. intros. apply conflict_raises; auto. apply run_inv. Qed.

Lemma raise_unchanged_run : forall ops o s' c,
  step (run ops) o = (s', Raise c) -> s' = run ops /\ names_existing (run ops) c.
Proof.
  intros ops o s' c H. split; [eapply raise_unchanged; eauto; apply run_inv|].
  eapply raise_names_existing; eauto; [apply run_inv | apply registered_run].
Qed.

Lemma earlier_stays_run : forall ops o,
  valid_op (run ops) o ->
  children_stay (run ops) (exec (run ops) o) /\
  drivers_stay (run ops) (exec (run ops) o) /\
  wires_stay (run ops) o (exec (run ops) o).
Proof.
  intros ops o V. split; [apply children_stay_step | split; [apply drivers_stay_step | apply wires_stay_step]].
  - apply run_inv.
  - apply subject_registered_all; auto. apply registered_run.
Qed.

Lemma driver_permanent_run : forall ops1 ops2 w q,
  w < nwire (run ops1) -> wsource (run ops1) w = Some q -> wsource (run (ops1 ++ ops2)) w = Some q.
Proof. intros. unfold run. rewrite run_from_app. now apply driver_permanent. Qed.
Lemma child_permanent_run : forall ops1 ops2 p n c,
  p < nobj (run ops1) -> tget (ochildren (run ops1) p) n = Some c -> tget (ochildren (run (ops1 ++ ops2)) p) n = Some c.
Proof. intros. unfold run. rewrite run_from_app. now apply child_permanent. Qed.

Lemma integrity_constructed : forall ops h,
  h < nobj (run ops) ->
  (checkIntegrity (run ops) h = IRaise <-> exists q, visited (run ops) h q /\ undriven (run ops) q) /\
  (checkIntegrity (run ops) h = IOk <-> forall q, visited (run ops) h q -> ~ undriven (run ops) q).
Proof. intros. apply integrity_clean; auto. apply run_inv. Qed.

Lemma integrity_spec_run : forall ops h,
  h < nobj (run ops) -> (forall q, visited (run ops) h q -> ~ on_bidir (run ops) q) ->
  (checkIntegrity (run ops) h = IRaise <-> exists q, visited (run ops) h q /\ no_driver (run ops) q) /\
  (checkIntegrity (run ops) h = IOk <-> forall q, visited (run ops) h q -> ~ no_driver (run ops) q).
Proof. intros. apply integrity_spec; auto. apply run_inv. Qed.

Lemma tree_ok_run : forall ops, tree_ok (run ops).
Proof. intros. apply inv_tree_ok, run_inv. Qed.

(* the executable predicates evaluated on real states are the declarative ones *)
Lemma checked_predicates_exact : forall s,
  (single_driver_b s = true <-> single_driver s) /\ (unique_children_b s = true <-> unique_children s) /\
  (unique_wires_b s = true <-> unique_wires s) /\ (sinks_exact_b s = true <-> sinks_exact s) /\
  (all_registered_b s = true <-> all_registered s) /\ (sources_exact_b s = true <-> sources_exact s).
Proof.
  intros s. split; [apply single_driver_b_iff|]. split; [apply unique_children_b_iff|].
  split; [apply unique_wires_b_iff|]. split; [apply sinks_exact_b_iff|]. split; [apply all_registered_b_iff | apply sources_exact_b_iff].
Qed.
Lemma checked_frames_exact : forall s o s', unique_children s -> unique_wires s ->
  (children_stay_b s s' = true <-> children_stay s s') /\ (drivers_stay_b s s' = true <-> drivers_stay s s') /\
  (wires_stay_b s o s' = true <-> wires_stay s o s').
Proof.
  intros s o s' [C1 _] [W1 _]. split; [apply children_stay_b_iff; auto|].
  split; [apply drivers_stay_b_iff | apply wires_stay_b_iff; auto].
Qed.
Lemma checked_integrity_exact : forall s h, unique_children s -> h < nobj s ->
  (undriven_port_b s h = true <-> exists q, visited s h q /\ no_driver s q).
Proof. exact undriven_port_b_iff. Qed.
