(* Proofs/C11/Main.v -- the lemmas in the exact form Properties/C11.v states them *)
From Coq Require Import ZArith List Bool Arith Lia Setoid.
From V Require Import Model.Build Spec.C11 Proofs.C11.Tbl Proofs.C11.Inv Proofs.C11.Conflict
     Proofs.C11.Registered Proofs.C11.Integrity Proofs.C11.SpecRefl Proofs.C11.Sinks.
Import ListNotations.

Lemma single_driver_run : forall ops, single_driver (run ops).
Proof. intros. apply (i_src _ (run_inv ops)). Qed.
Lemma one_driver_run : forall ops w q q',
  w < nwire (run ops) -> driver (run ops) q w -> driver (run ops) q' w -> q = q'.
Proof.
  intros ops w q q' Hw D1 D2. pose proof (single_driver_run ops) as SD.
  apply SD in D1; auto. apply SD in D2; auto. congruence.
Qed.
Lemma unique_children_run : forall ops, unique_children (run ops).
Proof. intros. apply (i_child _ (run_inv ops)). Qed.
Lemma unique_wires_run : forall ops, unique_wires (run ops).
Proof. intros. apply (i_wires _ (run_inv ops)). Qed.

Lemma conflict_raises_run : forall ops o c,
  valid_op (run ops) o -> subject_registered (run ops) o ->
  conflict_of (run ops) o = Some c -> snd (step (run ops) o) = Raise c.
Proof. intros. apply conflict_raises; auto. apply run_inv. Qed.

Lemma earlier_stays_run : forall ops o,
  children_stay (run ops) (exec (run ops) o) /\
  drivers_stay (run ops) (exec (run ops) o) /\
  (subject_registered (run ops) o -> wires_stay (run ops) o (exec (run ops) o)).
Proof.
  intros. split; [apply children_stay_step | split; [apply drivers_stay_step | apply wires_stay_step]].
Qed.

Lemma raise_key_unchanged : forall s o s' p n, step s o = (s', Raise (CKey p n)) -> s' = s.
Proof.
  intros s o s' p n H.
  assert (MV : forall w np nn, move s w np nn = (s', Raise (CKey p n)) -> s' = s).
  { intros w np nn HM. unfold move in HM. destruct (negb _); [inversion HM|]. destruct (negb _); [inversion HM|].
    destruct (negb _); [inversion HM; auto|]. cbn in HM. destruct (tmem _ _); inversion HM. }
  destruct o as [[p0|] n0 prim|p0 n0 width|o n0 w|o n0 w|o n0 w|w n0|w p0|w p0 n0]; cbn [step] in H; eauto.
  - unfold new_logic in H. destruct (negb _); [inversion H|]. destruct (tmem _ _); inversion H.
  - inversion H.
  - unfold new_wire in H. destruct (negb _); [inversion H|]. destruct (tmem _ _); inversion H.
  - unfold add_port in H. destruct (negb _); [inversion H|]. destruct (_ && _ && _); inversion H.
  - unfold add_port in H. destruct (negb _); [inversion H|]. destruct (_ && _ && _); inversion H.
  - unfold add_port in H. destruct (negb _); [inversion H|]. destruct (_ && _ && _); inversion H.
Qed.

Lemma raise_keeps_run : forall ops o s' c,
  step (run ops) o = (s', Raise c) -> kept (run ops) o s' c /\ (subject o = None -> s' = run ops).
Proof.
  intros ops o s' c H. split.
  - destruct c; cbn.
    + eapply raise_child_kept; eauto.
    + eapply raise_wire_kept; eauto. apply run_inv.
    + eapply raise_driver_kept; eauto.
    + eapply raise_key_unchanged; eauto.
  - eapply raise_unchanged; eauto.
Qed.

Lemma driver_permanent_run : forall ops1 ops2 w q,
  w < nwire (run ops1) -> wsource (run ops1) w = Some q -> wsource (run (ops1 ++ ops2)) w = Some q.
Proof. intros. unfold run. rewrite run_from_app. now apply driver_permanent. Qed.
Lemma child_permanent_run : forall ops1 ops2 p n c,
  p < nobj (run ops1) -> tget (ochildren (run ops1) p) n = Some c -> tget (ochildren (run (ops1 ++ ops2)) p) n = Some c.
Proof. intros. unfold run. rewrite run_from_app. now apply child_permanent. Qed.

Lemma wires_registered_run : forall ops, moves_succeed init ops -> all_registered (run ops).
Proof. intros. apply registered_run; auto using inv_init, registered_init. Qed.

Lemma subject_registered_all : forall s o, all_registered s -> valid_op s o -> subject_registered s o.
Proof.
  intros s o A V. unfold subject_registered.
  destruct o; cbn in *; auto; apply A; tauto.
Qed.

Lemma conflict_rule_clean_run : forall ops o,
  moves_succeed init ops -> valid_op (run ops) o ->
  (forall c, conflict_of (run ops) o = Some c -> snd (step (run ops) o) = Raise c) /\
  wires_stay (run ops) o (exec (run ops) o).
Proof.
  intros ops o M V. pose proof (subject_registered_all _ _ (wires_registered_run ops M) V) as R. split.
  - intros c Hc. apply conflict_raises_run; auto.
  - now apply wires_stay_step.
Qed.

Lemma integrity_constructed : forall ops h,
  (forall w sp, w < nwire (run ops) -> wsource (run ops) w = Some sp -> pkind (run ops) sp = POut) ->
  h < nobj (run ops) ->
  (checkIntegrity (run ops) h = IRaise <-> exists q, visited (run ops) h q /\ undriven (run ops) q) /\
  (checkIntegrity (run ops) h = IOk <-> forall q, visited (run ops) h q -> ~ undriven (run ops) q).
Proof. intros. apply integrity_clean; auto. apply run_inv. Qed.

Lemma tree_ok_run : forall ops, tree_ok (run ops).
Proof. intros. apply inv_tree_ok, run_inv. Qed.

Lemma sinks_exact_run : forall ops, sinks_exact (run ops).
Proof. exact sinks_run. Qed.

(* the executable predicates evaluated on real states are the declarative ones *)
Lemma checked_predicates_exact : forall s,
  (single_driver_b s = true <-> single_driver s) /\ (unique_children_b s = true <-> unique_children s) /\
  (unique_wires_b s = true <-> unique_wires s) /\ (sinks_exact_b s = true <-> sinks_exact s).
Proof.
  intros s. split; [apply single_driver_b_iff|]. split; [apply unique_children_b_iff|].
  split; [apply unique_wires_b_iff | apply sinks_exact_b_iff].
Qed.
Lemma checked_frames_exact : forall s o s', unique_children s -> unique_wires s ->
  (children_stay_b s s' = true <-> children_stay s s') /\ (drivers_stay_b s s' = true <-> drivers_stay s s') /\
  (wires_stay_b s o s' = true <-> wires_stay s o s') /\ (subject_registered_b s o = true <-> subject_registered s o).
Proof.
  intros s o s' [C1 _] [W1 _]. split; [apply children_stay_b_iff; auto|].
  split; [apply drivers_stay_b_iff|]. split; [apply wires_stay_b_iff; auto | apply subject_registered_b_iff].
Qed.
Lemma checked_integrity_exact : forall s h, unique_children s -> h < nobj s ->
  (undriven_port_b s h = true <-> exists q, visited s h q /\ undriven s q).
Proof. exact undriven_port_b_iff. Qed.
