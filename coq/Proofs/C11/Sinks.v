(* Proofs/C11/Sinks.v -- wire.sinks is exactly the list of reader ports of primitive blocks, for every call sequence *)
From Coq Require Import ZArith List Bool Arith Lia Setoid.
From V Require Import Model.Build Spec.C11 Proofs.C11.Tbl Proofs.C11.Inv Proofs.C11.Conflict Proofs.C11.SpecRefl.
Import ListNotations.
Local Arguments seq : simpl never.
Local Arguments filter : simpl never.

Lemma filter_seq_ext : forall f g n, (forall q, q < n -> f q = g q) -> filter f (seq 0 n) = filter g (seq 0 n).
Proof. intros f g n H. apply filter_ext_in. intros q Hq. apply in_seq in Hq. apply H. lia. Qed.

Lemma sinks_step : forall s o, Inv s -> sinks_exact s -> sinks_exact (exec s o).
Proof.
  intros s o Hinv HS. unfold exec.
  destruct (i_ports s Hinv) as [P1 _].
  assert (MV : forall w np nn, sinks_exact (fst (move s w np nn))).
  { intros w np nn x Hx. destruct (move_frame s w np nn) as [_ [E2 [E3 [_ [_ [E6 [E7 [E8 [E9 [E10 _]]]]]]]]]].
    rewrite E2 in Hx. rewrite E6, E3, (HS x Hx). apply filter_seq_ext. intros q Hq. unfold reader_b. now rewrite E7, E8, E9, E10. }
  assert (AP : forall k o0 n w0, sinks_exact (fst (add_port s k o0 n w0))).
  { intros k o0 n w0. unfold add_port.
    destruct (negb _); [exact HS|]. destruct (_ && _ && _); [exact HS|].
    intros w Hw. cbn in Hw. cbn.
    match goal with |- _ = filter (reader_b ?S _) _ => set (S' := S) end.
    rewrite seq_S, filter_app. cbn [filter Nat.add].
    assert (OLD : filter (reader_b S' w) (seq 0 (nport s)) = filter (reader_b s w) (seq 0 (nport s))).
    { apply filter_seq_ext. intros q Hq. unfold reader_b, S'. cbn. rewrite !upd_other by lia. reflexivity. }
    rewrite OLD, <- (HS w Hw). unfold reader_b, S'. cbn. unfold filter. rewrite !upd_same.
    unfold upd. destruct (Nat.eqb_spec w w0) as [E|E].
    - subst w0. rewrite Nat.eqb_refl. cbn. destruct (oprim s o0 && reads k); [reflexivity | now rewrite app_nil_r].
    - destruct (Nat.eqb_spec w0 w) as [E2|E2]; [congruence|]. cbn. now rewrite app_nil_r. }
  destruct o as [[p0|] n0 prim|p0 n0 width|p0 n0 width|o n0 w|o n0 w|o n0 w|w n0|w p0|w p0 n0]; cbn [step]; auto.
  - unfold new_logic. destruct (negb _); [exact HS|]. destruct (tmem _ _); [exact HS|].
    intros w Hw. cbn in Hw. cbn. rewrite (HS w Hw). apply filter_seq_ext. intros q Hq. unfold reader_b. cbn.
    rewrite upd_other; auto. destruct (P1 q Hq). lia.
  - intros w Hw. cbn in Hw. cbn. rewrite (HS w Hw). apply filter_seq_ext. intros q Hq. unfold reader_b. cbn.
    rewrite upd_other; auto. destruct (P1 q Hq). lia.
  - unfold new_wire. destruct (negb _); [exact HS|]. destruct (tmem _ _); [exact HS|].
    intros w Hw. cbn in Hw. cbn. unfold upd at 1. destruct (Nat.eqb_spec w (nwire s)) as [E|E].
    + subst w. symmetry. destruct (filter _ _) as [|x l] eqn:F; auto. exfalso.
      assert (X : In x (x :: l)) by now left. rewrite <- F in X. apply In_filter_seq in X. destruct X as [A B].
      unfold reader_b in B. cbn in B. destruct (P1 x A) as [_ Hlt]. destruct (Nat.eqb_spec (pwire s x) (nwire s)); [lia | discriminate].
    + rewrite (HS w) by lia. apply filter_seq_ext. intros q Hq. reflexivity.
  - unfold new_wire. destruct (negb _); [exact HS|]. destruct (tmem _ _); [exact HS|].
    intros w Hw. cbn in Hw. cbn. unfold upd at 1. destruct (Nat.eqb_spec w (nwire s)) as [E|E].
    + subst w. symmetry. destruct (filter _ _) as [|x l] eqn:F; auto. exfalso.
      assert (X : In x (x :: l)) by now left. rewrite <- F in X. apply In_filter_seq in X. destruct X as [A B].
      unfold reader_b in B. cbn in B. destruct (P1 x A) as [_ Hlt]. destruct (Nat.eqb_spec (pwire s x) (nwire s)); [lia | discriminate].
    + rewrite (HS w) by lia. apply filter_seq_ext. intros q Hq. reflexivity.
Qed.

Lemma sinks_run : forall ops, sinks_exact (run ops).
Proof.
  intros ops. unfold run.
  assert (G : forall ops s, Inv s -> sinks_exact s -> sinks_exact (run_from s ops)).
  { induction ops0 as [|o ops0 IH]; intros s Hinv HS; [exact HS|].
    unfold run_from in *. cbn. apply IH.
    - unfold exec. destruct (step s o) as [s' out] eqn:E. cbn. eapply step_inv; eauto.
    - now apply sinks_step. }
  apply G; [exact inv_init|]. intros w Hw. cbn in Hw. lia.
Qed.

Lemma sinks_exact_b_iff : forall s, sinks_exact_b s = true <-> sinks_exact s.
Proof.
  intros s. unfold sinks_exact_b, sinks_exact. rewrite forallb_seq.
  split; intros H w Hw; [apply list_eqb_nat | apply list_eqb_nat]; auto.
Qed.

(* ---------------------------------------------------------------- BidirWire.sources *)
Lemma sources_step : forall s o, Inv s -> sources_exact s -> sources_exact (exec s o).
Proof.
  intros s o Hinv HS. unfold exec.
  destruct (i_ports s Hinv) as [P1 _].
  assert (MV : forall w np nn, sources_exact (fst (move s w np nn))).
  { intros w np nn x Hx. destruct (move_frame s w np nn) as [_ [E2 [E3 [_ [E5 [_ [E7 [E8 [E9 [E10 [E11 E12]]]]]]]]]]].
    rewrite E2 in Hx. rewrite E12, E11, E5, E3. destruct (HS x Hx) as [A B]. split; auto. rewrite A.
    destruct (wbidir s x); auto. apply filter_seq_ext. intros q Hq. unfold driver_b. now rewrite E7, E8, E9, E10. }
  assert (NL : forall s0 par n prim, nwire s0 = nwire s -> nport s0 = nport s -> nobj s0 = nobj s -> oprim s0 = oprim s ->
               wsource s0 = wsource s -> wsources s0 = wsources s -> wbidir s0 = wbidir s ->
               pkind s0 = pkind s -> pparent s0 = pparent s -> pwire s0 = pwire s -> sources_exact (alloc_obj s0 par n prim)).
  { intros s0 par n prim E2 E3 E1 E8 E11 E12 E15 E16 E17 E18 w Hw. cbn in Hw. rewrite E2 in Hw. cbn.
    rewrite ?E3, ?E1, ?E8, ?E11, ?E12, ?E15. destruct (HS w Hw) as [A B]. split; auto. rewrite A.
    destruct (wbidir s w); auto. apply filter_seq_ext. intros q Hq. unfold driver_b. cbn. rewrite ?E16, ?E17, ?E18, ?E8, ?E1.
    rewrite upd_other; auto. destruct (P1 q Hq). lia. }
  assert (NW : forall p n width bd, sources_exact (fst (new_wire s p n width bd))).
  { intros p n width bd. unfold new_wire. destruct (negb _); [exact HS|]. destruct (tmem _ _); [exact HS|].
    intros w Hw. cbn in Hw. cbn. unfold upd. destruct (Nat.eqb_spec w (nwire s)) as [E|E].
    - subst w. split; auto. destruct bd; auto. symmetry. destruct (filter _ _) as [|x l] eqn:F; auto. exfalso.
      assert (X : In x (x :: l)) by now left. rewrite <- F in X. apply In_filter_seq in X. destruct X as [A B].
      unfold driver_b in B. cbn in B. destruct (P1 x A) as [_ Hlt]. destruct (Nat.eqb_spec (pwire s x) (nwire s)); [lia | discriminate].
    - destruct (HS w) as [A B]; [lia|]. split; auto. }
  assert (AP : forall k o0 n w0, sources_exact (fst (add_port s k o0 n w0))).
  { intros k o0 n w0. unfold add_port.
    destruct (negb _); [exact HS|]. destruct (_ && _ && _ && _); [exact HS|].
    intros w Hw. cbn in Hw. destruct (HS w Hw) as [A B]. cbn. split.
    - match goal with |- _ = (if _ then filter (driver_b ?S _) _ else _) => set (S' := S) end.
      rewrite seq_S, filter_app. cbn [filter Nat.add].
      assert (OLD : filter (driver_b S' w) (seq 0 (nport s)) = filter (driver_b s w) (seq 0 (nport s))).
      { apply filter_seq_ext. intros q Hq. unfold driver_b, S'. cbn. rewrite !upd_other by lia. reflexivity. }
      rewrite OLD. unfold driver_b, S'. cbn. unfold filter at 2. rewrite !upd_same.
      unfold upd. destruct (Nat.eqb_spec w w0) as [E|E].
      + subst w0. rewrite Nat.eqb_refl. cbn. rewrite A. destruct (wbidir s w).
        * rewrite andb_true_r. destruct (oprim s o0 && drives k); [reflexivity | now rewrite app_nil_r].
        * rewrite andb_false_r. reflexivity.
      + destruct (Nat.eqb_spec w0 w) as [E2|E2]; [congruence|]. cbn. rewrite A. destruct (wbidir s w); auto. now rewrite app_nil_r.
    - intros Hb. unfold upd. destruct (Nat.eqb_spec w w0) as [E|E]; auto. subst w0. rewrite Hb. cbn. rewrite andb_false_r. auto. }
  destruct o as [[p0|] n0 prim|p0 n0 width|p0 n0 width|o n0 w|o n0 w|o n0 w|w n0|w p0|w p0 n0]; cbn [step]; auto.
  - unfold new_logic. destruct (negb _); [exact HS|]. destruct (tmem _ _); [exact HS|]. apply NL; reflexivity.
  - apply NL; reflexivity.
Qed.

Lemma sources_run : forall ops, sources_exact (run ops).
Proof.
  intros ops. unfold run.
  assert (G : forall ops s, Inv s -> sources_exact s -> sources_exact (run_from s ops)).
  { induction ops0 as [|o ops0 IH]; intros s Hinv HS; [exact HS|].
    unfold run_from in *. cbn. apply IH.
    - unfold exec. destruct (step s o) as [s' out] eqn:E. cbn. eapply step_inv; eauto.
    - now apply sources_step. }
  apply G; [exact inv_init|]. intros w Hw. cbn in Hw. lia.
Qed.

Lemma sources_exact_b_iff : forall s, sources_exact_b s = true <-> sources_exact s.
Proof.
  intros s. unfold sources_exact_b, sources_exact. rewrite forallb_seq. split; intros H w Hw.
  - specialize (H w Hw). apply andb_true_iff in H. destruct H as [A B]. apply list_eqb_nat in A. split; auto.
    intros Hb. rewrite Hb in B. cbn in B. destruct (wsource s w); [discriminate | reflexivity].
  - destruct (H w Hw) as [A B]. apply andb_true_iff. split; [now apply list_eqb_nat|].
    destruct (wbidir s w); auto. cbn. rewrite B; auto.
Qed.
