(* Proofs/C11/Interface.v -- interface calls (Model/BuildIface.v: addInterfaceSource / addInterfaceSink as derived
   operation lists over AddOut / AddIn of Model/Build.v):
     * every state reached with interface calls is `run ops` for some list of primitive calls, hence every invariant
       of Properties/C11.v holds of it;
     * the ports the two calls create (direction mapping, duality);
     * a second source / sink on a driven interface is rejected like a second driver (primitive blocks), accepted
       without registering anything (structural blocks). *)
From Coq Require Import ZArith List Bool Arith Lia.
From V Require Import Model.Build Model.BuildIface Spec.C11 Proofs.C11.Tbl Proofs.C11.Inv Proofs.C11.Conflict
     Proofs.C11.Registered Proofs.C11.Sinks Proofs.C11.Integrity Proofs.C11.Main.
Import ListNotations.

(* ---------------------------------------------------------------- the port-name scheme is injective *)
Lemma port_name_inj : forall pre sg sg', port_name pre sg = port_name pre sg' -> sg = sg'.
Proof. intros [a|] sg sg' H; cbn in H; lia. Qed.
Lemma port_name_inj_prefix : forall a a' sg sg',
  (0 <= sg < BUNDLE)%Z -> (0 <= sg' < BUNDLE)%Z ->
  port_name (Some a) sg = port_name (Some a') sg' -> a = a' /\ sg = sg'.
Proof. unfold port_name, BUNDLE. intros a a' sg sg' H1 H2 H. lia. Qed.

Lemma port_names_distinct :
  (forall pre sg sg', port_name pre sg = port_name pre sg' -> sg = sg') /\
  (forall a a' sg sg', (0 <= sg < BUNDLE)%Z -> (0 <= sg' < BUNDLE)%Z ->
                       port_name (Some a) sg = port_name (Some a') sg' -> a = a' /\ sg = sg').
Proof. exact (conj port_name_inj port_name_inj_prefix). Qed.

(* ---------------------------------------------------------------- an interface call is a list of primitive calls *)
Lemma run_abort_prefix : forall ops s,
  exists pre suf, ops = pre ++ suf /\ fst (run_abort s ops) = run_from s pre /\
                  (snd (run_abort s ops) = Ok -> suf = []).
Proof.
  induction ops as [|o r IH]; intros s.
  - exists [], []. cbn. auto.
  - cbn [run_abort]. destruct (step s o) as [s' out] eqn:E.
    assert (Es : s' = exec s o) by (unfold exec; rewrite E; reflexivity).
    destruct out as [|c|].
    + destruct (IH s') as [pre [suf [E1 [E2 E3]]]]. exists (o :: pre), suf.
      split; [rewrite E1; reflexivity|]. split; [|exact E3].
      rewrite E2, Es. reflexivity.
    + exists [o], r. split; [reflexivity|]. split; [rewrite Es; reflexivity | intros X; discriminate X].
    + exists [o], r. split; [reflexivity|]. split; [rewrite Es; reflexivity | intros X; discriminate X].
Qed.

Lemma iexec_is_run_from : forall s x, exists ops, iexec s x = run_from s ops.
Proof.
  intros s [o|o pre i|o pre i]; unfold iexec; cbn [istep].
  - exists [o]. reflexivity.
  - destruct (run_abort_prefix (add_interface_source o pre i) s) as [p [_ [_ [E _]]]]. eauto.
  - destruct (run_abort_prefix (add_interface_sink o pre i) s) as [p [_ [_ [E _]]]]. eauto.
Qed.

Lemma irun_from_is_run_from : forall xs s, exists ops, irun_from s xs = run_from s ops.
Proof.
  induction xs as [|x xs IH]; intros s.
  - exists []. reflexivity.
  - destruct (iexec_is_run_from s x) as [a Ea]. destruct (IH (iexec s x)) as [b Eb].
    exists (a ++ b). rewrite run_from_app, <- Ea, <- Eb. reflexivity.
Qed.

Lemma irun_is_run : forall xs, exists ops, irun xs = run ops.
Proof. intros xs. exact (irun_from_is_run_from xs init). Qed.

Lemma irun_inv : forall xs, Inv (irun xs).
Proof. intros xs. destruct (irun_is_run xs) as [ops E]. rewrite E. apply run_inv. Qed.

Lemma irun_app : forall xs ys, irun (xs ++ ys) = irun_from (irun xs) ys.
Proof. intros. unfold irun, irun_from. apply fold_left_app. Qed.
Lemma irun_snoc : forall xs x, irun (xs ++ [x]) = iexec (irun xs) x.
Proof. intros. rewrite irun_app. reflexivity. Qed.

(* every invariant of Properties/C11.v, for every sequence of calls that may contain interface calls (successful,
   raising half-way, or naming objects that do not exist) *)
Lemma interface_ops_preserve_invariants : forall xs,
  (exists ops, irun xs = run ops) /\
  single_driver (irun xs) /\ unique_children (irun xs) /\ unique_wires (irun xs) /\ all_registered (irun xs) /\
  sinks_exact (irun xs) /\ sources_exact (irun xs) /\ tree_ok (irun xs) /\
  (forall w q q', w < nwire (irun xs) -> wbidir (irun xs) w = false ->
                  driver (irun xs) q w -> driver (irun xs) q' w -> q = q').
Proof.
  intros xs. destruct (irun_is_run xs) as [ops E]. split; [eauto|]. rewrite E.
  split; [apply single_driver_run|]. split; [apply unique_children_run|]. split; [apply unique_wires_run|].
  split; [apply wires_registered_run|]. split; [apply sinks_exact_run|]. split; [apply sources_exact_run|].
  split; [apply tree_ok_run | apply one_driver_run].
Qed.

(* ---------------------------------------------------------------- lists of port constructions *)
Notation row := (portkind * nat * name * nat)%type (only parsing).
Definition op_of_row (r : row) : op :=
  match r with
  | (k, o, n, w) => match k with PIn => AddIn o n w | POut => AddOut o n w | PInOut => AddInOut o n w end
  end.

Lemma source_ops_rows : forall o pre i, add_interface_source o pre i = map op_of_row (source_rows o pre i).
Proof. intros. unfold add_interface_source, source_rows. rewrite map_app, !map_map. reflexivity. Qed.
Lemma sink_ops_rows : forall o pre i, add_interface_sink o pre i = map op_of_row (sink_rows o pre i).
Proof. intros. unfold add_interface_sink, sink_rows. rewrite map_app, !map_map. reflexivity. Qed.

Lemma step_row : forall s k o n w, step s (op_of_row (k, o, n, w)) = add_port s k o n w.
Proof. intros s [| |] o n w; reflexivity. Qed.

Lemma source_rows_length : forall o pre i,
  length (source_rows o pre i) = length (sourceToSink i) + length (sinkToSource i).
Proof. intros. unfold source_rows. now rewrite app_length, !map_length. Qed.
Lemma sink_rows_length : forall o pre i,
  length (sink_rows o pre i) = length (sourceToSink i) + length (sinkToSource i).
Proof. intros. unfold sink_rows. now rewrite app_length, !map_length. Qed.

Lemma source_rows_In : forall B pre i k o n w, In (k, o, n, w) (source_rows B pre i) ->
  o = B /\ ((k = POut /\ exists sg, In (sg, w) (sourceToSink i) /\ n = port_name pre sg) \/
            (k = PIn /\ exists sg, In (sg, w) (sinkToSource i) /\ n = port_name pre sg)).
Proof.
  intros B pre i k o n w H. unfold source_rows in H. apply in_app_or in H.
  destruct H as [H|H]; apply in_map_iff in H; destruct H as [[sg w'] [E H]]; cbn in E; inversion E; subst;
    (split; [reflexivity|]); [left|right]; split; eauto.
Qed.
Lemma sink_rows_In : forall B pre i k o n w, In (k, o, n, w) (sink_rows B pre i) ->
  o = B /\ ((k = PIn /\ exists sg, In (sg, w) (sourceToSink i) /\ n = port_name pre sg) \/
            (k = POut /\ exists sg, In (sg, w) (sinkToSource i) /\ n = port_name pre sg)).
Proof.
  intros B pre i k o n w H. unfold sink_rows in H. apply in_app_or in H.
  destruct H as [H|H]; apply in_map_iff in H; destruct H as [[sg w'] [E H]]; cbn in E; inversion E; subst;
    (split; [reflexivity|]); [left|right]; split; eauto.
Qed.

Lemma add_port_Ok : forall s k o n w s',
  add_port s k o n w = (s', Ok) ->
  s' = add_port_ok s k o n w /\ o < nobj s /\ w < nwire s /\
  (oprim s o = true -> drives k = true -> wbidir s w = false -> wsource s w = None).
Proof.
  intros s k o n w s' H. unfold add_port in H.
  destruct (Nat.ltb_spec o (nobj s)) as [Ho|Ho]; cbn [negb andb] in H; [|discriminate H].
  destruct (Nat.ltb_spec w (nwire s)) as [Hw|Hw]; cbn [negb andb] in H; [|discriminate H].
  destruct (oprim s o && drives k && negb (wbidir s w) && is_some (wsource s w)) eqn:Hc; [discriminate H|].
  inversion H. repeat split; auto.
  intros A B C. rewrite A, B, C in Hc. cbn in Hc. destruct (wsource s w); [discriminate Hc | reflexivity].
Qed.

Lemma upd_self : forall A (f : nat -> A) i j, upd f i (f i) j = f j.
Proof. intros. unfold upd. destruct (Nat.eqb_spec j i); subst; reflexivity. Qed.

(* what ONE successful port construction leaves behind *)
Lemma add_port_ok_facts : forall s k o n w,
  let s1 := add_port_ok s k o n w in
  nport s1 = S (nport s) /\ nobj s1 = nobj s /\ nwire s1 = nwire s /\ oprim s1 = oprim s /\ wbidir s1 = wbidir s /\
  (forall q, q < nport s -> prow s1 q = prow s q) /\ prow s1 (nport s) = (k, o, n, w) /\
  (oprim s o = false -> forall x, wsource s1 x = wsource s x /\ wsinks s1 x = wsinks s x /\ wsources s1 x = wsources s x).
Proof.
  intros s k o n w s1. subst s1. repeat split; try reflexivity.
  - intros q Hq. unfold prow. cbn. rewrite !upd_other by lia. reflexivity.
  - unfold prow. cbn. rewrite !upd_same. reflexivity.
  - cbn. rewrite H. cbn. apply upd_self.
  - cbn. rewrite H. cbn. apply upd_self.
  - cbn. rewrite H. cbn. apply upd_self.
Qed.

Lemma run_abort_cons : forall s o r s1, step s o = (s1, Ok) -> run_abort s (o :: r) = run_abort s1 r.
Proof. intros s o r s1 H. cbn [run_abort]. rewrite H. reflexivity. Qed.
Lemma run_abort_stop : forall s o r s1 out, step s o = (s1, out) -> out <> Ok -> run_abort s (o :: r) = (s1, out).
Proof. intros s o r s1 out H N. cbn [run_abort]. rewrite H. destruct out; [congruence | reflexivity | reflexivity]. Qed.

(* a call whose every construction returned: exactly these ports, in this order, nothing else touched in the port
   tables; every block / wire it names exists; none of its driving constructions met a registered source *)
Lemma run_abort_rows : forall rows s s',
  run_abort s (map op_of_row rows) = (s', Ok) ->
  nport s' = nport s + length rows /\ nobj s' = nobj s /\ nwire s' = nwire s /\ oprim s' = oprim s /\ wbidir s' = wbidir s /\
  (forall q, q < nport s -> prow s' q = prow s q) /\
  map (prow s') (seq (nport s) (length rows)) = rows /\
  (forall k o n w, In (k, o, n, w) rows -> o < nobj s /\ w < nwire s /\
     (oprim s o = true -> drives k = true -> wbidir s w = false -> wsource s w = None)) /\
  ((forall k o n w, In (k, o, n, w) rows -> oprim s o = false) ->
   forall x, wsource s' x = wsource s x /\ wsinks s' x = wsinks s x /\ wsources s' x = wsources s x).
Proof.
  induction rows as [|[[[k o] n] w] rows IH]; intros s s' H.
  - cbn in H. inversion H; subst. cbn. repeat split; auto; try lia.
  - cbn [map] in H. destruct (step s (op_of_row (k, o, n, w))) as [s1 out] eqn:E.
    destruct out as [|c|]; [| rewrite (run_abort_stop _ _ _ _ _ E) in H by discriminate; discriminate H
                            | rewrite (run_abort_stop _ _ _ _ _ E) in H by discriminate; discriminate H].
    rewrite (run_abort_cons _ _ _ _ E) in H. rewrite step_row in E.
    apply add_port_Ok in E. destruct E as [E [Ho [Hw Hnc]]].
    destruct (add_port_ok_facts s k o n w) as (N1 & O1 & W1 & P1 & B1 & OLD1 & NEW1 & FR1). rewrite <- E in *.
    destruct (IH _ _ H) as (N & O & W & P & B & OLD & NEW & VAL & FR).
    split; [cbn [length]; lia|]. split; [congruence|]. split; [congruence|]. split; [congruence|]. split; [congruence|].
    split; [intros q Hq; rewrite OLD by lia; apply OLD1; exact Hq|].
    split; [cbn [length seq map]; f_equal; [rewrite OLD by lia; exact NEW1 | rewrite <- N1; exact NEW]|].
    split.
    + intros k' o' n' w' [Hin|Hin].
      * inversion Hin; subst. auto.
      * destruct (VAL _ _ _ _ Hin) as [Ho' [Hw' Hnc']]. split; [lia|]. split; [lia|].
        intros A1 A2 A3. rewrite P1, B1 in Hnc'. specialize (Hnc' A1 A2 A3).
        destruct (wsource s w') as [q|] eqn:Hs; [|reflexivity].
        assert (D : wsource (exec s (op_of_row (k, o, n, w))) w' = Some q) by (apply drivers_stay_step; [lia | exact Hs]).
        unfold exec in D. rewrite step_row in D.
        assert (E2 : fst (add_port s k o n w) = s1).
        { unfold add_port. destruct (Nat.ltb_spec o (nobj s)); [|lia]. destruct (Nat.ltb_spec w (nwire s)); [|lia].
          cbn [negb andb]. destruct (oprim s o && drives k && negb (wbidir s w) && is_some (wsource s w)) eqn:Hc; [|cbn; auto].
          exfalso. apply andb_true_iff in Hc. destruct Hc as [Hc Hi]. apply andb_true_iff in Hc. destruct Hc as [Hc Hb].
          apply andb_true_iff in Hc. destruct Hc as [Hp Hd]. apply negb_true_iff in Hb.
          rewrite (Hnc Hp Hd Hb) in Hi. discriminate Hi. }
        rewrite E2 in D. congruence.
    + intros ST x. assert (So : oprim s o = false) by (apply (ST k o n w); left; reflexivity).
      destruct (FR1 So x) as [F1 [F2 F3]].
      assert (ST' : forall k0 o0 n0 w0, In (k0, o0, n0, w0) rows -> oprim s1 o0 = false)
        by (intros k0 o0 n0 w0 Hin; rewrite P1; apply (ST k0 o0 n0 w0); right; exact Hin).
      destruct (FR ST' x) as [G1 [G2 G3]]. repeat split; congruence.
Qed.

(* how a call over existing blocks / wires can end: it returns, or its first failing construction is a DRIVING port of a
   primitive block on an ordinary wire that has a registered source *)
Lemma rows_outcome : forall rows s,
  (forall k o n w, In (k, o, n, w) rows -> o < nobj s /\ w < nwire s) ->
  snd (run_abort s (map op_of_row rows)) = Ok \/
  exists k o n w q, In (k, o, n, w) rows /\ drives k = true /\ oprim s o = true /\ wbidir s w = false /\
                  wsource (fst (run_abort s (map op_of_row rows))) w = Some q /\
                  snd (run_abort s (map op_of_row rows)) = Raise (CDriver w).
Proof.
  induction rows as [|[[[k o] n] w] rows IH]; intros s VAL; [left; reflexivity|].
  cbn [map]. destruct (step s (op_of_row (k, o, n, w))) as [s1 out] eqn:E.
  pose proof E as E0. rewrite step_row in E.
  destruct (VAL k o n w (or_introl eq_refl)) as [Ho Hw].
  destruct out as [|c|].
  - rewrite (run_abort_cons _ _ _ _ E0).
    apply add_port_Ok in E. destruct E as [E _].
    destruct (add_port_ok_facts s k o n w) as (N1 & O1 & W1 & P1 & B1 & _). rewrite <- E in *.
    destruct (IH s1) as [OK|(k' & o' & n' & w' & q & Hin & D & Pr & Bd & Src & R)].
    + intros k' o' n' w' Hin. rewrite O1, W1. apply (VAL k' o' n' w'). right; exact Hin.
    + left; exact OK.
    + right. exists k', o', n', w', q. rewrite P1 in Pr. rewrite B1 in Bd. repeat split; auto. right; exact Hin.
  - rewrite (run_abort_stop _ _ _ _ _ E0) by discriminate. right.
    unfold add_port in E. destruct (Nat.ltb_spec o (nobj s)); [|lia]. destruct (Nat.ltb_spec w (nwire s)); [|lia].
    cbn [negb andb] in E. destruct (oprim s o && drives k && negb (wbidir s w) && is_some (wsource s w)) eqn:Hc; [|discriminate E].
    inversion E; subst s1 c.
    apply andb_true_iff in Hc. destruct Hc as [Hc Hi]. apply andb_true_iff in Hc. destruct Hc as [Hc Hb].
    apply andb_true_iff in Hc. destruct Hc as [Hp Hd]. apply negb_true_iff in Hb.
    destruct (wsource s w) as [q|] eqn:Hs; [|discriminate Hi].
    exists k, o, n, w, q. cbn [fst snd]. repeat split; auto. left; reflexivity.
  - exfalso. unfold add_port in E. destruct (Nat.ltb_spec o (nobj s)); [|lia]. destruct (Nat.ltb_spec w (nwire s)); [|lia].
    cbn [negb andb] in E. destruct (oprim s o && drives k && negb (wbidir s w) && is_some (wsource s w)); discriminate E.
Qed.

(* a call that contains a driving construction of a primitive block on a driven ordinary wire does not return *)
Lemma rows_rejected : forall rows s k o n w q,
  (forall k o n w, In (k, o, n, w) rows -> o < nobj s /\ w < nwire s) ->
  In (k, o, n, w) rows -> drives k = true -> oprim s o = true -> wbidir s w = false -> wsource s w = Some q ->
  exists k' o' n' w' q', In (k', o', n', w') rows /\ drives k' = true /\ oprim s o' = true /\ wbidir s w' = false /\
     wsource (fst (run_abort s (map op_of_row rows))) w' = Some q' /\
     snd (run_abort s (map op_of_row rows)) = Raise (CDriver w').
Proof.
  intros rows s k o n w q VAL Hin D P B S.
  destruct (rows_outcome rows s VAL) as [OK|R]; [|exact R].
  exfalso. destruct (run_abort s (map op_of_row rows)) as [s' out] eqn:E. cbn in OK. subst out.
  apply run_abort_rows in E. destruct E as (_ & _ & _ & _ & _ & _ & _ & NC & _).
  destruct (NC _ _ _ _ Hin) as [_ [_ X]]. rewrite (X P D B) in S. discriminate S.
Qed.

(* ---------------------------------------------------------------- ports of a constructed state *)
Lemma port_in_list : forall s q k o n w, Inv s -> q < nport s -> prow s q = (k, o, n, w) ->
  In q (match k with PIn => oin s o | POut => oout s o | PInOut => oinout s o end).
Proof.
  intros s q k o n w Hinv Hq E. unfold prow in E. inversion E as [[Ek Eo En Ew]].
  destruct (i_ports s Hinv) as [P1 [P2 [P3 P4]]]. destruct (P1 q Hq) as [Hpo _].
  destruct (pkind s q) eqn:K; [apply P2 | apply P3 | apply P4]; auto.
Qed.

Lemma rows_port : forall s a m L r, map (prow s) (seq a m) = L -> In r L -> exists q, a <= q < a + m /\ prow s q = r.
Proof.
  intros s a m L r E Hin. rewrite <- E in Hin. apply in_map_iff in Hin. destruct Hin as [q [Eq Hq]].
  apply in_seq in Hq. eauto.
Qed.

(* ---------------------------------------------------------------- (1) the direction mapping: exact ports, duality *)
Lemma interface_ports_exact : forall xs A B preA preB i s1 s2,
  istep (irun xs) (AddIfaceSource A preA i) = (s1, Ok) ->
  istep s1 (AddIfaceSink B preB i) = (s2, Ok) ->
  nport s2 = nport (irun xs) + 2 * (length (sourceToSink i) + length (sinkToSource i)) /\
  map (prow s2) (seq (nport (irun xs)) (nport s2 - nport (irun xs))) = source_rows A preA i ++ sink_rows B preB i /\
  (forall q, q < nport (irun xs) -> prow s2 q = prow (irun xs) q) /\
  nobj s2 = nobj (irun xs) /\ nwire s2 = nwire (irun xs).
Proof.
  intros xs A B preA preB i s1 s2 H1 H2. set (s := irun xs) in *. cbn [istep] in H1, H2.
  rewrite source_ops_rows in H1. rewrite sink_ops_rows in H2.
  pose proof (source_rows_length A preA i) as LA. pose proof (sink_rows_length B preB i) as LB.
  apply run_abort_rows in H1. destruct H1 as (N1 & O1 & W1 & _ & _ & OLD1 & NEW1 & _ & _).
  apply run_abort_rows in H2. destruct H2 as (N2 & O2 & W2 & _ & _ & OLD2 & NEW2 & _ & _).
  split; [lia|]. split.
  - replace (nport s2 - nport s) with (length (source_rows A preA i) + length (sink_rows B preB i)) by lia.
    rewrite seq_app, map_app. f_equal.
    + rewrite <- NEW1 at 2. apply map_ext_in. intros q Hq. apply in_seq in Hq. apply OLD2. lia.
    + rewrite <- N1. exact NEW2.
  - split; [intros q Hq; rewrite OLD2 by lia; apply OLD1; exact Hq|]. split; congruence.
Qed.

Lemma two_calls_state : forall xs a b s1 s2,
  istep (irun xs) a = (s1, Ok) -> istep s1 b = (s2, Ok) -> s1 = irun (xs ++ [a]) /\ s2 = irun ((xs ++ [a]) ++ [b]).
Proof.
  intros xs a b s1 s2 H1 H2. rewrite !irun_snoc. unfold iexec. rewrite H1. cbn [fst]. rewrite H2. auto.
Qed.

(* duality: every sourceToSink signal is an OUT port of the source block and an IN port of the sink block ON THE SAME
   WIRE, every sinkToSource signal the converse; the ports are named <prefix>_<signal>; every port created by the two
   calls is one of these; ports that existed keep their attributes and stay in exactly the lists they were in *)
Lemma interface_directions_dual : forall xs A B preA preB i s1 s2,
  istep (irun xs) (AddIfaceSource A preA i) = (s1, Ok) ->
  istep s1 (AddIfaceSink B preB i) = (s2, Ok) ->
  let s := irun xs in
  (forall sg w, In (sg, w) (sourceToSink i) ->
     (exists qa, nport s <= qa < nport s2 /\ In qa (oout s2 A) /\ prow s2 qa = (POut, A, port_name preA sg, w)) /\
     (exists qb, nport s <= qb < nport s2 /\ In qb (oin s2 B) /\ prow s2 qb = (PIn, B, port_name preB sg, w))) /\
  (forall sg w, In (sg, w) (sinkToSource i) ->
     (exists qa, nport s <= qa < nport s2 /\ In qa (oin s2 A) /\ prow s2 qa = (PIn, A, port_name preA sg, w)) /\
     (exists qb, nport s <= qb < nport s2 /\ In qb (oout s2 B) /\ prow s2 qb = (POut, B, port_name preB sg, w))) /\
  (forall q, nport s <= q < nport s2 -> In (prow s2 q) (source_rows A preA i ++ sink_rows B preB i)) /\
  (forall q, q < nport s -> prow s2 q = prow s q) /\
  (forall o q, o < nobj s -> q < nport s ->
     (In q (oin s2 o) <-> In q (oin s o)) /\ (In q (oout s2 o) <-> In q (oout s o)) /\ (In q (oinout s2 o) <-> In q (oinout s o))) /\
  (forall o q, In q (oinout s2 o) -> o < nobj s -> q < nport s).
Proof.
  intros xs A B preA preB i s1 s2 H1 H2 s.
  destruct (interface_ports_exact _ _ _ _ _ _ _ _ H1 H2) as (N & ROWS & OLD & NO & NW). fold s in N, ROWS, OLD, NO, NW.
  destruct (two_calls_state _ _ _ _ _ H1 H2) as [_ E2].
  assert (I2 : Inv s2) by (rewrite E2; apply irun_inv).
  assert (I0 : Inv s) by apply irun_inv.
  assert (PORT : forall r, In r (source_rows A preA i ++ sink_rows B preB i) ->
                 exists q, nport s <= q < nport s2 /\ prow s2 q = r).
  { intros r Hr. destruct (rows_port _ _ _ _ _ ROWS Hr) as [q [Hq Eq]]. exists q. split; [lia | exact Eq]. }
  assert (MK : forall k o n w, In (k, o, n, w) (source_rows A preA i ++ sink_rows B preB i) ->
               exists q, nport s <= q < nport s2 /\
                         In q (match k with PIn => oin s2 o | POut => oout s2 o | PInOut => oinout s2 o end) /\
                         prow s2 q = (k, o, n, w)).
  { intros k o n w Hr. destruct (PORT _ Hr) as [q [Hq Eq]]. exists q. split; [exact Hq|]. split; [|exact Eq].
    apply (port_in_list s2 q k o n w I2); [lia | exact Eq]. }
  split; [|split; [|split; [|split; [exact OLD|split]]]].
  - intros sg w Hin. split.
    + apply (MK POut A (port_name preA sg) w). apply in_or_app. left. unfold source_rows. apply in_or_app. left.
      apply in_map_iff. exists (sg, w). auto.
    + apply (MK PIn B (port_name preB sg) w). apply in_or_app. right. unfold sink_rows. apply in_or_app. left.
      apply in_map_iff. exists (sg, w). auto.
  - intros sg w Hin. split.
    + apply (MK PIn A (port_name preA sg) w). apply in_or_app. left. unfold source_rows. apply in_or_app. right.
      apply in_map_iff. exists (sg, w). auto.
    + apply (MK POut B (port_name preB sg) w). apply in_or_app. right. unfold sink_rows. apply in_or_app. right.
      apply in_map_iff. exists (sg, w). auto.
  - intros q Hq. rewrite <- ROWS. apply in_map. apply in_seq. lia.
  - intros o q Ho Hq.
    destruct (i_ports s I0) as [_ [P2 [P3 P4]]]. destruct (i_ports s2 I2) as [_ [Q2 [Q3 Q4]]].
    assert (Ho2 : o < nobj s2) by lia. pose proof (OLD q Hq) as E. unfold prow in E. inversion E as [[Ek Eo En Ew]].
    rewrite (P2 o q Ho), (P3 o q Ho), (P4 o q Ho), (Q2 o q Ho2), (Q3 o q Ho2), (Q4 o q Ho2), Ek, Eo.
    intuition lia.
  - intros o q Hin Ho. destruct (i_ports s2 I2) as [_ [_ [_ Q4]]].
    apply Q4 in Hin; [|lia]. destruct Hin as [Hq [Hk _]].
    destruct (Nat.lt_ge_cases q (nport s)) as [L|G]; [exact L|exfalso].
    assert (R : In (prow s2 q) (source_rows A preA i ++ sink_rows B preB i))
      by (rewrite <- ROWS; apply in_map; apply in_seq; lia).
    destruct (prow s2 q) as [[[k o'] n'] w'] eqn:Eq. unfold prow in Eq. inversion Eq as [[Ek Eo En Ew]].
    apply in_app_or in R. destruct R as [R|R]; [apply source_rows_In in R | apply sink_rows_In in R];
      destruct R as [_ [[K _]|[K _]]]; congruence.
Qed.

(* ---------------------------------------------------------------- what no call changes: class of a block, class of a wire *)
Lemma kinds_stay_step : forall s o,
  (forall b, b < nobj s -> oprim (exec s o) b = oprim s b) /\ (forall w, w < nwire s -> wbidir (exec s o) w = wbidir s w).
Proof.
  intros s o. unfold exec.
  assert (AP : forall kd o0 n w, (forall b, b < nobj s -> oprim (fst (add_port s kd o0 n w)) b = oprim s b) /\
                                 (forall x, x < nwire s -> wbidir (fst (add_port s kd o0 n w)) x = wbidir s x)).
  { intros. unfold add_port. destruct (negb _); [cbn; auto|]. destruct (_ && _ && _ && _); cbn; auto. }
  assert (MV : forall w np nn, (forall b, b < nobj s -> oprim (fst (move s w np nn)) b = oprim s b) /\
                               (forall x, x < nwire s -> wbidir (fst (move s w np nn)) x = wbidir s x)).
  { intros. destruct (move_frame s w np nn) as (_ & _ & _ & _ & _ & _ & E1 & _ & _ & _ & E2 & _). rewrite E1, E2. auto. }
  assert (NW : forall p n width bd, (forall b, b < nobj s -> oprim (fst (new_wire s p n width bd)) b = oprim s b) /\
                                    (forall x, x < nwire s -> wbidir (fst (new_wire s p n width bd)) x = wbidir s x)).
  { intros. unfold new_wire. destruct (negb _); [cbn; auto|]. destruct (tmem _ _); [cbn; auto|]. cbn.
    split; [auto|]. intros x Hx. rewrite upd_other by lia. reflexivity. }
  destruct o as [[p0|] n0 prim|p0 n0 width|p0 n0 width|o n0 w|o n0 w|o n0 w|w n0|w p0|w p0 n0]; cbn [step]; auto.
  - unfold new_logic. destruct (negb _); [cbn; auto|]. destruct (tmem _ _); [cbn; auto|]. cbn.
    split; [|auto]. intros b Hb. rewrite upd_other by lia. reflexivity.
  - cbn. split; [|auto]. intros b Hb. rewrite upd_other by lia. reflexivity.
Qed.

Lemma kinds_stay_run : forall ops s,
  nobj s <= nobj (run_from s ops) /\ nwire s <= nwire (run_from s ops) /\
  (forall b, b < nobj s -> oprim (run_from s ops) b = oprim s b) /\
  (forall w, w < nwire s -> wbidir (run_from s ops) w = wbidir s w).
Proof.
  induction ops as [|o ops IH]; intros s; [cbn; auto|].
  unfold run_from in *. cbn [fold_left].
  destruct (IH (exec s o)) as (A & B & C & D). destruct (counters_grow s o) as [G1 G2].
  destruct (kinds_stay_step s o) as [K1 K2].
  split; [lia|]. split; [lia|]. split.
  - intros b Hb. rewrite C by lia. apply K1; exact Hb.
  - intros w Hw. rewrite D by lia. apply K2; exact Hw.
Qed.

(* ---------------------------------------------------------------- (2) a second source / sink on a driven interface *)
(* after a source call that returned on a PRIMITIVE block, every sourceToSink wire that is an ordinary Wire has that
   block's new out-port as its registered source (likewise the sinkToSource wires after a sink call) *)
Lemma source_call_registers : forall xs A preA i s1,
  istep (irun xs) (AddIfaceSource A preA i) = (s1, Ok) -> oprim (irun xs) A = true ->
  forall sg w, In (sg, w) (sourceToSink i) -> wbidir (irun xs) w = false ->
  w < nwire (irun xs) /\ A < nobj (irun xs) /\
  exists qa, nport (irun xs) <= qa < nport s1 /\ prow s1 qa = (POut, A, port_name preA sg, w) /\ wsource s1 w = Some qa.
Proof.
  intros xs A preA i s1 H1 PA sg w Hin Hb. set (s := irun xs) in *.
  assert (I1 : Inv s1). { replace s1 with (irun (xs ++ [AddIfaceSource A preA i])); [apply irun_inv|].
                          rewrite irun_snoc. unfold iexec. fold s. rewrite H1. reflexivity. }
  cbn [istep] in H1. rewrite source_ops_rows in H1. apply run_abort_rows in H1.
  destruct H1 as (N1 & O1 & W1 & P1 & B1 & OLD1 & NEW1 & VAL1 & _).
  assert (R : In (POut, A, port_name preA sg, w) (source_rows A preA i)).
  { unfold source_rows. apply in_or_app. left. apply in_map_iff. exists (sg, w). auto. }
  destruct (VAL1 _ _ _ _ R) as [HA [Hw _]]. split; [exact Hw|]. split; [exact HA|].
  destruct (rows_port _ _ _ _ _ NEW1 R) as [qa [Hq Eq]]. exists qa. split; [lia|]. split; [exact Eq|].
  unfold prow in Eq. injection Eq as Ek Eo En Ew.
  apply (i_src s1 I1 w qa); [lia | rewrite B1; exact Hb |].
  unfold driver. rewrite Ek, Eo, P1. repeat split; auto. lia.
Qed.

Lemma sink_call_registers : forall xs B preB i s1,
  istep (irun xs) (AddIfaceSink B preB i) = (s1, Ok) -> oprim (irun xs) B = true ->
  forall sg w, In (sg, w) (sinkToSource i) -> wbidir (irun xs) w = false ->
  w < nwire (irun xs) /\ B < nobj (irun xs) /\
  exists qb, nport (irun xs) <= qb < nport s1 /\ prow s1 qb = (POut, B, port_name preB sg, w) /\ wsource s1 w = Some qb.
Proof.
  intros xs B preB i s1 H1 PA sg w Hin Hb. set (s := irun xs) in *.
  assert (I1 : Inv s1). { replace s1 with (irun (xs ++ [AddIfaceSink B preB i])); [apply irun_inv|].
                          rewrite irun_snoc. unfold iexec. fold s. rewrite H1. reflexivity. }
  cbn [istep] in H1. rewrite sink_ops_rows in H1. apply run_abort_rows in H1.
  destruct H1 as (N1 & O1 & W1 & P1 & B1 & OLD1 & NEW1 & VAL1 & _).
  assert (R : In (POut, B, port_name preB sg, w) (sink_rows B preB i)).
  { unfold sink_rows. apply in_or_app. right. apply in_map_iff. exists (sg, w). auto. }
  destruct (VAL1 _ _ _ _ R) as [HA [Hw _]]. split; [exact Hw|]. split; [exact HA|].
  destruct (rows_port _ _ _ _ _ NEW1 R) as [qb [Hq Eq]]. exists qb. split; [lia|]. split; [exact Eq|].
  unfold prow in Eq. injection Eq as Ek Eo En Ew.
  apply (i_src s1 I1 w qb); [lia | rewrite B1; exact Hb |].
  unfold driver. rewrite Ek, Eo, P1. repeat split; auto. lia.
Qed.

(* whatever calls follow (ys), a source call of a PRIMITIVE block C on an interface one of whose sourceToSink wires is an
   ordinary wire with a registered source RAISES the second-driver error of Wire.setSource, naming a sourceToSink wire that
   is driven in the state the call leaves; if the FIRST sourceToSink wire is such a wire the call changes nothing *)
Lemma source_on_driven_rejected : forall xs C preC i sg w q,
  let s := irun xs in
  C < nobj s -> oprim s C = true ->
  (forall e, In e (sourceToSink i ++ sinkToSource i) -> snd e < nwire s) ->
  In (sg, w) (sourceToSink i) -> wbidir s w = false -> wsource s w = Some q ->
  (exists sg' w' q', In (sg', w') (sourceToSink i) /\ wbidir s w' = false /\
                     wsource (iexec s (AddIfaceSource C preC i)) w' = Some q' /\
                     snd (istep s (AddIfaceSource C preC i)) = Raise (CDriver w')) /\
  (forall rest, sourceToSink i = (sg, w) :: rest -> istep s (AddIfaceSource C preC i) = (s, Raise (CDriver w))).
Proof.
  intros xs C preC i sg w q s HC PC VAL Hin Hb Hs. split.
  - unfold iexec. cbn [istep]. rewrite source_ops_rows.
    destruct (rows_rejected (source_rows C preC i) s POut C (port_name preC sg) w q) as (k' & o' & n' & w' & q' & R & D & P & Bd & S & X); auto.
    + intros k o n w0 Hr. apply source_rows_In in Hr. destruct Hr as [Eo [[_ [sg0 [H0 _]]]|[_ [sg0 [H0 _]]]]]; subst o;
        (split; [exact HC|]); apply (VAL (sg0, w0)); apply in_or_app; auto.
    + unfold source_rows. apply in_or_app. left. apply in_map_iff. exists (sg, w). auto.
    + apply source_rows_In in R. destruct R as [_ [[_ [sg' [H0 _]]]|[K _]]]; [|subst k'; discriminate D].
      exists sg', w', q'. auto.
  - intros rest L. cbn [istep]. unfold add_interface_source. rewrite L. cbn [map app fst snd].
    apply run_abort_stop; [|discriminate]. cbn [step]. unfold add_port.
    assert (Hw : w < nwire s) by (apply (VAL (sg, w)); apply in_or_app; auto).
    destruct (Nat.ltb_spec C (nobj s)); [|lia]. destruct (Nat.ltb_spec w (nwire s)); [|lia].
    cbn [negb andb drives]. rewrite PC, Hb, Hs. reflexivity.
Qed.

Lemma sink_on_driven_rejected : forall xs C preC i sg w q,
  let s := irun xs in
  C < nobj s -> oprim s C = true ->
  (forall e, In e (sourceToSink i ++ sinkToSource i) -> snd e < nwire s) ->
  In (sg, w) (sinkToSource i) -> wbidir s w = false -> wsource s w = Some q ->
  exists sg' w' q', In (sg', w') (sinkToSource i) /\ wbidir s w' = false /\
                    wsource (iexec s (AddIfaceSink C preC i)) w' = Some q' /\
                    snd (istep s (AddIfaceSink C preC i)) = Raise (CDriver w').
Proof.
  intros xs C preC i sg w q s HC PC VAL Hin Hb Hs.
  unfold iexec. cbn [istep]. rewrite sink_ops_rows.
  destruct (rows_rejected (sink_rows C preC i) s POut C (port_name preC sg) w q) as (k' & o' & n' & w' & q' & R & D & P & Bd & S & X); auto.
  - intros k o n w0 Hr. apply sink_rows_In in Hr. destruct Hr as [Eo [[_ [sg0 [H0 _]]]|[_ [sg0 [H0 _]]]]]; subst o;
      (split; [exact HC|]); apply (VAL (sg0, w0)); apply in_or_app; auto.
  - unfold sink_rows. apply in_or_app. right. apply in_map_iff. exists (sg, w). auto.
  - apply sink_rows_In in R. destruct R as [_ [[K _]|[_ [sg' [H0 _]]]]]; [subst k'; discriminate D|].
    exists sg', w', q'. auto.
Qed.

(* the second source: block A's source call returned, then ANY calls ys, then primitive block C's source call *)
Lemma second_source_rejected : forall xs ys A C preA preC i s1 sg w,
  istep (irun xs) (AddIfaceSource A preA i) = (s1, Ok) ->
  oprim (irun xs) A = true -> C < nobj (irun xs) -> oprim (irun xs) C = true ->
  (forall e, In e (sinkToSource i) -> snd e < nwire (irun xs)) ->
  In (sg, w) (sourceToSink i) -> wbidir (irun xs) w = false ->
  let s2 := irun (xs ++ AddIfaceSource A preA i :: ys) in
  (exists sg' w', In (sg', w') (sourceToSink i) /\ snd (istep s2 (AddIfaceSource C preC i)) = Raise (CDriver w')) /\
  (forall rest, sourceToSink i = (sg, w) :: rest -> istep s2 (AddIfaceSource C preC i) = (s2, Raise (CDriver w))).
Proof.
  intros xs ys A C preA preC i s1 sg w H1 PA HC PC VK Hin Hb s2.
  destruct (source_call_registers _ _ _ _ _ H1 PA sg w Hin Hb) as (Hw & HA & qa & Hqa & Eqa & Sa).
  assert (E1 : s1 = irun (xs ++ [AddIfaceSource A preA i])) by (rewrite irun_snoc; unfold iexec; rewrite H1; reflexivity).
  assert (E2 : s2 = irun_from s1 ys).
  { unfold s2. replace (xs ++ AddIfaceSource A preA i :: ys) with ((xs ++ [AddIfaceSource A preA i]) ++ ys)
      by (rewrite <- app_assoc; reflexivity). rewrite irun_app, <- E1. reflexivity. }
  pose proof H1 as H1'. cbn [istep] in H1'. rewrite source_ops_rows in H1'. apply run_abort_rows in H1'.
  destruct H1' as (N1 & O1 & W1 & P1 & B1 & _ & _ & VAL1 & _).
  destruct (irun_from_is_run_from ys s1) as [ops Eo]. rewrite Eo in E2.
  destruct (kinds_stay_run ops s1) as (G1 & G2 & K1 & K2). rewrite <- E2 in G1, G2, K1, K2.
  assert (S2 : wsource s2 w = Some qa) by (rewrite E2; apply driver_permanent; [lia | exact Sa]).
  assert (X : forall xs', s2 = irun xs' ->
     (exists sg' w', In (sg', w') (sourceToSink i) /\ snd (istep s2 (AddIfaceSource C preC i)) = Raise (CDriver w')) /\
     (forall rest, sourceToSink i = (sg, w) :: rest -> istep s2 (AddIfaceSource C preC i) = (s2, Raise (CDriver w)))).
  { intros xs' Ex.
    destruct (source_on_driven_rejected xs' C preC i sg w qa) as [R1 R2]; rewrite <- ?Ex.
    - lia.
    - rewrite K1 by lia. rewrite P1. exact PC.
    - intros e He. apply in_app_or in He. destruct He as [He|He].
      + destruct e as [sg0 w0]. assert (R : In (POut, A, port_name preA sg0, w0) (source_rows A preA i)).
        { unfold source_rows. apply in_or_app. left. apply in_map_iff. exists (sg0, w0). auto. }
        destruct (VAL1 _ _ _ _ R) as [_ [Y _]]. cbn. lia.
      + specialize (VK e He). lia.
    - exact Hin.
    - rewrite K2 by lia. rewrite B1. exact Hb.
    - exact S2.
    - rewrite <- Ex in R1, R2. split; [|exact R2].
      destruct R1 as (sg' & w' & q' & I' & _ & _ & R'). eauto. }
  apply (X (xs ++ AddIfaceSource A preA i :: ys)). reflexivity.
Qed.

(* STRUCTURAL block (no propagate / clock): the same calls are accepted however many sources the interface already has;
   they create the ports and register NOTHING on the wires (source, sinks, sources unchanged) *)
Lemma structural_interface_accepted : forall xs C preC i,
  let s := irun xs in
  C < nobj s -> oprim s C = false ->
  (forall e, In e (sourceToSink i ++ sinkToSource i) -> snd e < nwire s) ->
  (snd (istep s (AddIfaceSource C preC i)) = Ok /\
   forall x, wsource (iexec s (AddIfaceSource C preC i)) x = wsource s x /\
             wsinks (iexec s (AddIfaceSource C preC i)) x = wsinks s x /\
             wsources (iexec s (AddIfaceSource C preC i)) x = wsources s x) /\
  (snd (istep s (AddIfaceSink C preC i)) = Ok /\
   forall x, wsource (iexec s (AddIfaceSink C preC i)) x = wsource s x /\
             wsinks (iexec s (AddIfaceSink C preC i)) x = wsinks s x /\
             wsources (iexec s (AddIfaceSink C preC i)) x = wsources s x).
Proof.
  intros xs C preC i s HC PC VAL.
  assert (G : forall rows, (forall k o n w, In (k, o, n, w) rows -> o = C /\ w < nwire s) ->
              snd (run_abort s (map op_of_row rows)) = Ok /\
              forall x, wsource (fst (run_abort s (map op_of_row rows))) x = wsource s x /\
                        wsinks (fst (run_abort s (map op_of_row rows))) x = wsinks s x /\
                        wsources (fst (run_abort s (map op_of_row rows))) x = wsources s x).
  { intros rows HR.
    assert (OK : snd (run_abort s (map op_of_row rows)) = Ok).
    { destruct (rows_outcome rows s) as [OK|(k & o & n & w & q & Hr & _ & P & _)]; [|exact OK|].
      - intros k o n w Hr. destruct (HR _ _ _ _ Hr) as [Eo Hw]. subst o. auto.
      - destruct (HR _ _ _ _ Hr) as [Eo _]. subst o. congruence. }
    split; [exact OK|]. destruct (run_abort s (map op_of_row rows)) as [s' out] eqn:E. cbn in OK. subst out.
    apply run_abort_rows in E. destruct E as (_ & _ & _ & _ & _ & _ & _ & _ & FR). cbn [fst].
    apply FR. intros k o n w Hr. destruct (HR _ _ _ _ Hr) as [Eo _]. subst o. exact PC. }
  unfold iexec. cbn [istep]. rewrite source_ops_rows, sink_ops_rows. split; apply G.
  - intros k o n w Hr. apply source_rows_In in Hr. destruct Hr as [Eo [[_ [sg0 [H0 _]]]|[_ [sg0 [H0 _]]]]];
      (split; [exact Eo|]); apply (VAL (sg0, w)); apply in_or_app; auto.
  - intros k o n w Hr. apply sink_rows_In in Hr. destruct Hr as [Eo [[_ [sg0 [H0 _]]]|[_ [sg0 [H0 _]]]]];
      (split; [exact Eo|]); apply (VAL (sg0, w)); apply in_or_app; auto.
Qed.

(* ---------------------------------------------------------------- concrete instances (AXI4-Stream-like interface) *)
Definition axis_calls : list iop := [AddIfaceSource 1 (Some 5%Z) axis; AddIfaceSink 2 None axis].

Lemma axis_example :
  let s := irun axis_pre in
  let s2 := irun (axis_pre ++ axis_calls) in
  istep s (AddIfaceSource 1 (Some 5%Z) axis) = (iexec s (AddIfaceSource 1 (Some 5%Z) axis), Ok) /\
  istep (iexec s (AddIfaceSource 1 (Some 5%Z) axis)) (AddIfaceSink 2 None axis) = (s2, Ok) /\
  nport s = 0 /\
  map (prow s2) (seq 0 (nport s2)) =
    [(POut, 1, 6000%Z, 0); (POut, 1, 6002%Z, 2); (PIn, 1, 6001%Z, 1);       (* source: drives tvalid, tdata; reads tready *)
     (PIn, 2, 0%Z, 0); (PIn, 2, 2%Z, 2); (POut, 2, 1%Z, 1)] /\               (* sink: reads tvalid, tdata; drives tready *)
  oout s2 1 = [0; 1] /\ oin s2 1 = [2] /\ oin s2 2 = [3; 4] /\ oout s2 2 = [5] /\
  map (wsource s2) [0; 1; 2] = [Some 0; Some 5; Some 1] /\ map (wsinks s2) [0; 1; 2] = [[3]; [2]; [4]] /\
  checkIntegrity s2 0 = IOk /\
  (* a second primitive source on the same interface: rejected like a second driver, nothing changed *)
  istep s2 (AddIfaceSource 3 (Some 9%Z) axis) = (s2, Raise (CDriver 0)) /\
  (* a second primitive sink: rejected at tready, AFTER its two in-ports were created *)
  snd (istep s2 (AddIfaceSink 3 (Some 9%Z) axis)) = Raise (CDriver 1) /\
  nport (iexec s2 (AddIfaceSink 3 (Some 9%Z) axis)) = 8 /\
  (* structural blocks: any number of sources accepted, nothing registered *)
  snd (istep s2 (AddIfaceSource 4 (Some 9%Z) axis)) = Ok /\
  snd (istep (iexec s2 (AddIfaceSource 4 (Some 9%Z) axis)) (AddIfaceSource 5 (Some 9%Z) axis)) = Ok /\
  map (wsource (iexec (iexec s2 (AddIfaceSource 4 (Some 9%Z) axis)) (AddIfaceSource 5 (Some 9%Z) axis))) [0; 1; 2] =
    [Some 0; Some 5; Some 1].
Proof. vm_compute. repeat split; reflexivity. Qed.

(* the interface CALL is not atomic: when the conflict is met at a later signal, the ports of the earlier signals stay.
   tdata (wire 2) already driven by block 3; block 1's source call raises at tdata, but its tvalid out-port exists and is
   the registered source of wire 0 (reproduced on the real classes, docs/C11.md) *)
Lemma source_conflict_not_atomic :
  let s := irun (axis_pre ++ [Prim (AddOut 3 0%Z 2)]) in
  let s' := iexec s (AddIfaceSource 1 None axis) in
  snd (istep s (AddIfaceSource 1 None axis)) = Raise (CDriver 2) /\
  nport s = 1 /\ nport s' = 2 /\ prow s' 1 = (POut, 1, 0%Z, 0) /\ oout s' 1 = [1] /\
  wsource s 0 = None /\ wsource s' 0 = Some 1 /\ wsource s' 2 = Some 0.
Proof. vm_compute. repeat split; reflexivity. Qed.
