(* Proofs/C11/Tbl.v -- association-list (Python dict) and map-update lemmas used by the C11 proofs *)
From Coq Require Import ZArith List Bool Arith Lia.
From V Require Import Model.Build.
Import ListNotations.

Lemma upd_same : forall A (f : nat -> A) i v, upd f i v i = v.
Proof. intros. unfold upd. now rewrite Nat.eqb_refl. Qed.
Lemma upd_other : forall A (f : nat -> A) i v j, j <> i -> upd f i v j = f j.
Proof. intros A f i v j Hne. unfold upd. destruct (Nat.eqb_spec j i); congruence. Qed.

Lemma tget_In : forall t n v, tget t n = Some v -> In (n, v) t.
Proof.
  induction t as [|[k x] r IH]; cbn; intros n v H; [discriminate|].
  destruct (Z.eqb_spec k n); [inversion H; subst; now left | right; auto].
Qed.
Lemma tget_None : forall t n, tget t n = None <-> ~ In n (map fst t).
Proof.
  induction t as [|[k x] r IH]; cbn; intros n; [tauto|].
  destruct (Z.eqb_spec k n); split; intros H; try discriminate.
  - exfalso; apply H; now left.
  - intros [E|E]; [congruence | now apply IH in H].
  - apply IH. intros E; apply H; now right.
Qed.
Lemma In_tget : forall t n v, NoDup (map fst t) -> In (n, v) t -> tget t n = Some v.
Proof.
  induction t as [|[k x] r IH]; cbn; intros n v Hnd Hin; [tauto|].
  inversion Hnd as [|? ? Hnotin Hnd']; subst.
  destruct Hin as [E|Hin].
  - inversion E; subst. now rewrite Z.eqb_refl.
  - destruct (Z.eqb_spec k n); [subst; exfalso; apply Hnotin; now apply (in_map fst) in Hin | auto].
Qed.
Lemma tmem_true : forall t n, tmem t n = true <-> exists v, tget t n = Some v.
Proof. intros. unfold tmem. destruct (tget t n); split; intros H; eauto; try discriminate. destruct H; discriminate. Qed.
Lemma tmem_false : forall t n, tmem t n = false <-> ~ In n (map fst t).
Proof. intros. rewrite <- tget_None. unfold tmem. destruct (tget t n); split; intros; congruence. Qed.

Lemma tget_tput : forall t n v k,
  tget (tput t n v) k = match tget t k with Some x => Some x | None => if Z.eqb n k then Some v else None end.
Proof.
  unfold tput. induction t as [|[a x] r IH]; cbn; intros; [reflexivity|].
  destruct (Z.eqb a k); auto.
Qed.
Lemma NoDup_snoc : forall A (l : list A) x, NoDup l -> ~ In x l -> NoDup (l ++ [x]).
Proof.
  induction l as [|a l IH]; cbn; intros x Hnd Hx; [constructor; auto; constructor|].
  inversion Hnd; subst. constructor.
  - rewrite in_app_iff. cbn. intuition.
  - apply IH; auto.
Qed.
Lemma NoDup_tput : forall t n v, NoDup (map fst t) -> tmem t n = false -> NoDup (map fst (tput t n v)).
Proof.
  intros t n v Hnd Hm. unfold tput. rewrite map_app. cbn.
  apply tmem_false in Hm. now apply NoDup_snoc.
Qed.
Lemma In_tput : forall t n v k x, In (k, x) (tput t n v) <-> In (k, x) t \/ (k = n /\ x = v).
Proof.
  intros. unfold tput. rewrite in_app_iff. cbn. split; intros [H|H]; auto.
  - destruct H as [H|[]]. inversion H; auto.
  - destruct H; subst; auto.
Qed.

Lemma In_tdel : forall t n k x, In (k, x) (tdel t n) <-> In (k, x) t /\ k <> n.
Proof.
  induction t as [|[a y] r IH]; cbn; intros; [tauto|].
  destruct (Z.eqb_spec a n); cbn; rewrite IH; split.
  - intros [H1 H2]; auto.
  - intros [[E|H1] H2]; [inversion E; subst; congruence | auto].
  - intros [E|[H1 H2]]; [inversion E; subst; auto | auto].
  - intros [[E|H1] H2]; auto.
Qed.
Lemma keys_tdel : forall t n k, In k (map fst (tdel t n)) -> In k (map fst t).
Proof.
  intros t n k H. apply in_map_iff in H. destruct H as [[a x] [E H]]. cbn in E; subst.
  apply In_tdel in H. apply in_map_iff. exists (k, x). tauto.
Qed.
Lemma NoDup_tdel : forall t n, NoDup (map fst t) -> NoDup (map fst (tdel t n)).
Proof.
  induction t as [|[a y] r IH]; cbn; intros n Hnd; [constructor|].
  inversion Hnd; subst. destruct (Z.eqb a n); cbn; auto.
  constructor; auto. intros H; apply keys_tdel in H; auto.
Qed.
Lemma tget_tdel : forall t n k, tget (tdel t n) k = if Z.eqb k n then None else tget t k.
Proof.
  induction t as [|[a y] r IH]; cbn; intros.
  - now destruct (Z.eqb k n).
  - destruct (Z.eqb_spec a n); cbn.
    + rewrite IH. destruct (Z.eqb_spec k n); auto. destruct (Z.eqb_spec a k); auto. congruence.
    + rewrite IH. destruct (Z.eqb_spec a k); auto. destruct (Z.eqb_spec k n); auto. congruence.
Qed.

Lemma memb_In : forall x l, memb x l = true <-> In x l.
Proof.
  intros. unfold memb. rewrite existsb_exists. split.
  - intros [y [H1 H2]]. apply Nat.eqb_eq in H2. now subst.
  - intros H. exists x. split; auto. apply Nat.eqb_refl.
Qed.
