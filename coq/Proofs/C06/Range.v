(* C06: wire values always fit their declared width. *)
From V Require Import Base.Bits Gen.WireOps Model.SimKernel Model.Trace.

Lemma Wire_put_trunc w v : Wire_put w v = trunc w v.
Proof. reflexivity. Qed.
Lemma Wire_prepare_trunc w v : Wire_prepare w v = trunc w v.
Proof. reflexivity. Qed.
Lemma BidirWire_put_trunc w v : BidirWire_put w v = trunc w v.
Proof. reflexivity. Qed.
Lemma BidirWire_prepare_trunc w v : BidirWire_prepare w v = trunc w v.
Proof. reflexivity. Qed.

Lemma put_range w v : 0 <= w -> 0 <= Wire_put w v < 2 ^ w.
Proof. intros; rewrite Wire_put_trunc; apply trunc_range; lia. Qed.
Lemma prepare_range w v : 0 <= w -> 0 <= Wire_prepare w v < 2 ^ w.
Proof. intros; rewrite Wire_prepare_trunc; apply trunc_range; lia. Qed.
Lemma bidir_put_range w v : 0 <= w -> 0 <= BidirWire_put w v < 2 ^ w.
Proof. intros; rewrite BidirWire_put_trunc; apply trunc_range; lia. Qed.
Lemma bidir_prepare_range w v : 0 <= w -> 0 <= BidirWire_prepare w v < 2 ^ w.
Proof. intros; rewrite BidirWire_prepare_trunc; apply trunc_range; lia. Qed.

(* every wire holds a value inside its width *)
Definition fits (w v : Z) : Prop := 0 <= v < 2 ^ w.
Definition ranged (ws vs : list Z) : Prop := Forall2 fits ws vs.
Definition pend_ranged (ws : list Z) (p : list (nat * Z)) : Prop :=
  Forall (fun '(i, v) => fits (nth i ws 0) v) p.

Lemma ranged_set_nth ws vs o v :
  ranged ws vs -> fits (nth o ws 0) v -> ranged ws (set_nth vs o v).
Proof.
  unfold ranged. intros H; revert o. induction H as [|w x ws vs Hwx H IH]; intros o Hv.
  - destruct o; constructor.
  - destruct o as [|o]; cbn [set_nth nth] in *; constructor; auto.
Qed.

Section Inv.
Context {St : Type}.
Variable d : design St.
Hypothesis widths_nonneg : Forall (fun w => 0 <= w) (widths d).

Lemma width_nonneg o : 0 <= nth o (widths d) 0.
Proof.
  destruct (nth_in_or_default o (widths d) 0) as [Hin | ->]; [|lia].
  eapply Forall_forall in widths_nonneg; eauto.
Qed.

Lemma write_outs_ranged outs rs vs :
  ranged (widths d) vs -> ranged (widths d) (write_outs (widths d) outs rs vs).
Proof.
  revert rs vs. induction outs as [|o outs IH]; intros [|[v|] rs] vs H; cbn [write_outs]; auto.
  apply IH, ranged_set_nth; auto. apply put_range, width_nonneg.
Qed.

Lemma propagateAll_ranged vs : ranged (widths d) vs -> ranged (widths d) (propagateAll d vs).
Proof.
  unfold propagateAll. generalize (combs d). intros cs; revert vs.
  induction cs as [|c cs IH]; intros vs H; cbn [fold_left]; auto.
  apply IH. apply write_outs_ranged; auto.
Qed.

Lemma prep_ranged outs rs : pend_ranged (widths d) (prep (widths d) outs rs).
Proof.
  revert rs. induction outs as [|o outs IH]; intros [|[v|] rs]; cbn [prep]; try (constructor; fail).
  - constructor; [apply prepare_range, width_nonneg | apply IH].
  - apply IH.
Qed.

Definition Inv (s : state St) : Prop := ranged (widths d) (vals s) /\ pend_ranged (widths d) (pend s).

Lemma clock1_inv s k : Inv s -> Inv (clock1 d s k).
Proof.
  intros [Hv Hp]. unfold clock1.
  destruct (nth_error (seqs d) k) as [l|]; [|split; auto].
  destruct (nth_error (sts s) k) as [st|]; [|split; auto].
  destruct (s_f l st _) as [st' rs]. split; cbn; auto.
  apply Forall_app; split; auto. apply prep_ranged.
Qed.

Lemma clockAll_inv s drv : Inv s -> Inv (clockAll d s drv).
Proof.
  unfold clockAll. generalize (d_leaves drv). intros ks; revert s.
  induction ks as [|k ks IH]; intros s H; cbn [fold_left]; auto. apply IH, clock1_inv, H.
Qed.

Lemma clock_drivers_inv s : Inv s -> Inv (clock_drivers d s).
Proof.
  unfold clock_drivers. generalize (drivers d). intros ds; revert s.
  induction ds as [|drv ds IH]; intros s H; cbn [fold_left]; auto.
  apply IH. destruct (enabled (vals s) drv); auto. apply clockAll_inv, H.
Qed.

Lemma settle_fold_ranged p vs :
  ranged (widths d) vs -> pend_ranged (widths d) p -> ranged (widths d) (fold_left settle p vs).
Proof.
  revert vs. induction p as [|[i v] p IH]; intros vs Hv Hp; cbn [fold_left]; auto.
  inversion Hp; subst. apply IH; auto. unfold settle; cbn. apply ranged_set_nth; auto.
Qed.

Lemma settleAll_inv s : Inv s -> Inv (settleAll s).
Proof.
  intros [Hv Hp]. split; cbn.
  - apply settle_fold_ranged; auto.
  - constructor.
Qed.

Lemma clk_cycle_inv s : Inv s -> Inv (clk_cycle d s).
Proof.
  intros H. pose proof (settleAll_inv _ (clock_drivers_inv _ H)) as [Hv Hp].
  split; cbn in *; auto. apply propagateAll_ranged; auto.
Qed.

Lemma cycles_inv n s : Inv s -> Inv (cycles d n s).
Proof. revert s; induction n as [|n IH]; intros s H; cbn [cycles]; auto. apply IH, clk_cycle_inv, H. Qed.

Lemma clk_inv n s : Inv s -> Inv (clk d n s).
Proof.
  intros [Hv Hp]. unfold clk. apply cycles_inv. split; cbn; auto. apply propagateAll_ranged; auto.
Qed.

Lemma poke_inv s w v : Inv s -> Inv (poke d s w v).
Proof.
  intros [Hv Hp]. split; cbn; auto. apply ranged_set_nth; auto. apply put_range, width_nonneg.
Qed.

Lemma zeros_ranged : ranged (widths d) (map (fun _ => 0) (widths d)).
Proof.
  unfold ranged. induction widths_nonneg as [|w ws Hw Hws IH]; cbn; constructor; auto.
  split; [lia | apply pow2_pos; lia].
Qed.

Lemma init_inv st0 : Inv (init d st0).
Proof. split; cbn; [apply propagateAll_ranged, zeros_ranged | constructor]. Qed.

(* user-visible operations after construction *)
Inductive op := OpClk (n : nat) | OpPoke (w : nat) (v : Z) | OpPropagate.
Definition run_op (s : state St) (o : op) : state St :=
  match o with
  | OpClk n => clk d n s
  | OpPoke w v => poke d s w v
  | OpPropagate => {| vals := propagateAll d (vals s); pend := pend s; sts := sts s; total := total s |}
  end.

Lemma run_op_inv s o : Inv s -> Inv (run_op s o).
Proof.
  destruct o; cbn [run_op]; intros H.
  - apply clk_inv, H.
  - apply poke_inv, H.
  - destruct H; split; cbn; auto. apply propagateAll_ranged; auto.
Qed.

Lemma history_inv st0 ops : Inv (fold_left run_op ops (init d st0)).
Proof.
  generalize (init_inv st0). generalize (init d st0). intros s; revert s.
  induction ops as [|o ops IH]; intros s H; cbn [fold_left]; auto. apply IH, run_op_inv, H.
Qed.

(* construction with constructor-time puts (registers showing their initial value at power-up) *)
Lemma init_poked_inv st0 pokes : Inv (init_poked d st0 pokes).
Proof.
  unfold init_poked. set (z := {| vals := map (fun _ => 0) (widths d); pend := []; sts := st0; total := O |}).
  assert (Hz : Inv z) by (split; cbn; [apply zeros_ranged | constructor]).
  assert (Hf : Inv (fold_left (fun s p => poke d s (fst p) (snd p)) pokes z)).
  { clear -Hz widths_nonneg. revert Hz. generalize z. induction pokes as [|p ps IH]; intros s Hs; cbn [fold_left]; auto.
    apply IH, poke_inv, Hs. }
  destruct Hf as [Hv _]. split; cbn; [apply propagateAll_ranged, Hv | constructor].
Qed.

Lemma history_poked_inv st0 pokes ops : Inv (fold_left run_op ops (init_poked d st0 pokes)).
Proof.
  generalize (init_poked_inv st0 pokes). generalize (init_poked d st0 pokes). intros s; revert s.
  induction ops as [|o ops IH]; intros s H; cbn [fold_left]; auto. apply IH, run_op_inv, H.
Qed.

(* reading the invariant at one wire *)
Lemma ranged_nth ws vs i : ranged ws vs -> (i < length vs)%nat -> 0 <= nth i vs 0 < 2 ^ nth i ws 0.
Proof.
  unfold ranged. intros H; revert i. induction H as [|w x ws vs Hwx H IH]; intros [|i] Hi; cbn in *; try lia; auto.
  apply IH; lia.
Qed.
End Inv.
