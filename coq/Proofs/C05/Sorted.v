(* C05 composed with C04: the guard of the split theorems (Spec.C05.topo) follows from C04's guard
   (Spec.C04.ordered + single_driver: Proofs/C04/Compose.v), which is what the model sorter's output satisfies.
   Hence clk(m+n) = clk n . clk m, clk n = n single steps and idempotence of propagateAll for every design whose
   combinational list is the sorter's output, with no order hypothesis left. *)
From V Require Import Base.Bits Gen.WireOps Model.SimKernel Model.Sort Spec.C04.
From V Require Import Proofs.C04.Compose.
From V Require Import Spec.C05 Proofs.C05.ListAux Proofs.C05.Split.

Lemma topo_of_ordered_thm : forall cs, ordered cs -> single_driver cs -> topo cs.
Proof. exact ordered_single_driver_topo. Qed.

Lemma ordered_of_topo_thm : forall cs, topo cs -> ordered cs.
Proof. exact topo_ordered. Qed.

Lemma propagateAll_idempotent_sorted_thm :
  forall (St : Type) (d : design St) succ K l (v : list Z),
  represents (combs d) succ -> single_driver (combs d) ->
  closed succ (seq 0 (length (combs d))) ->
  sort_fuel succ K (seq 0 (length (combs d))) = Sorted l ->
  let d' := with_combs d (reorder (combs d) l) in
  propagateAll d' (propagateAll d' v) = propagateAll d' v.
Proof.
  intros St d succ K l v Hrep Hsd _ H d'. apply propagateAll_idem. exact (sorted_topo d succ K l Hrep Hsd H).
Qed.

Lemma clk_split_sorted_thm :
  forall (St : Type) (d : design St) succ K l (m n : nat) (s : state St),
  represents (combs d) succ -> single_driver (combs d) ->
  closed succ (seq 0 (length (combs d))) ->
  sort_fuel succ K (seq 0 (length (combs d))) = Sorted l ->
  let d' := with_combs d (reorder (combs d) l) in
  clk d' (m + n) s = clk d' n (clk d' m s).
Proof.
  intros St d succ K l m n s Hrep Hsd _ H d'. apply clk_split. exact (sorted_topo d succ K l Hrep Hsd H).
Qed.

Lemma clk_single_steps_sorted_thm :
  forall (St : Type) (d : design St) succ K l (n : nat) (s : state St),
  represents (combs d) succ -> single_driver (combs d) ->
  closed succ (seq 0 (length (combs d))) ->
  sort_fuel succ K (seq 0 (length (combs d))) = Sorted l ->
  (0 < n)%nat ->
  let d' := with_combs d (reorder (combs d) l) in
  clk d' n s = clk1_times d' n s.
Proof.
  intros St d succ K l n s Hrep Hsd _ H Hn d'. apply clk_as_singles; [|exact Hn]. exact (sorted_topo d succ K l Hrep Hsd H).
Qed.

(* the split is NOT available for the unsorted instantiation order of the same leaves: the toggling register of
   Proofs/C04/Compose.v listed sink first *)
Lemma tog_bad_split_fails : clk tog_bad (1 + 1) (init tog_bad [0]) <> clk tog_bad 1 (clk tog_bad 1 (init tog_bad [0])).
Proof. intros E. apply (f_equal vals) in E. vm_compute in E. discriminate. Qed.
