(* C05: clk (m+n) = clk n . clk m  when propagateAll is idempotent; idempotence for evaluation lists
   in dependency order (Spec.C05.topo). *)
From V Require Import Base.Bits Gen.WireOps Model.SimKernel Spec.C05 Proofs.C05.ListAux.

Section Split.
Context {St : Type}.
Variable d : design St.

Definition P (cs : list cleaf) (vs : list Z) : list Z := fold_left (propagate1 d) cs vs.

Lemma propagate1_length vs c : length (propagate1 d vs c) = length vs.
Proof. apply write_outs_length. Qed.

Lemma P_length cs vs : length (P cs vs) = length vs.
Proof. revert vs; induction cs as [|c cs IH]; intros vs; cbn [P fold_left]; auto. fold (P cs). rewrite IH. apply propagate1_length. Qed.

(* a wire no listed leaf writes keeps its value *)
Lemma P_frame cs vs w : (forall c, In c cs -> ~ In w (c_out c)) -> rd (P cs vs) w = rd vs w.
Proof.
  revert vs; induction cs as [|c cs IH]; intros vs H; cbn [P fold_left]; auto. fold (P cs).
  rewrite IH by (intros c' Hc'; apply H; now right).
  apply rd_write_outs_notin. apply H. now left.
Qed.

(* re-evaluating leaf c after the rest of the list ran changes nothing *)
Lemma propagate1_absorbed c cs v :
  (forall w, In w (c_in c) -> ~ In w (c_out c)) ->
  (forall c', In c' cs -> (forall w, In w (c_in c) -> ~ In w (c_out c')) /\
                          (forall w, In w (c_out c) -> ~ In w (c_out c'))) ->
  propagate1 d (P cs (propagate1 d v c)) c = P cs (propagate1 d v c).
Proof.
  intros Hself Hrest. set (v1 := propagate1 d v c). set (v' := P cs v1).
  assert (Hins : map (rd v') (c_in c) = map (rd v) (c_in c)).
  { apply map_ext_in. intros w Hw. unfold v'. rewrite P_frame by (intros c' Hc'; apply (proj1 (Hrest c' Hc')), Hw).
    unfold v1, propagate1. apply rd_write_outs_notin, Hself, Hw. }
  unfold propagate1 at 1. rewrite Hins.
  set (rs := c_f c (map (rd v) (c_in c))).
  apply rd_ext; [apply write_outs_length|].
  intros i Hi. rewrite write_outs_length in Hi.
  rewrite rd_write_outs by exact Hi.
  destruct (wr (widths d) (c_out c) rs i) as [x|] eqn:E; auto.
  assert (Hio : In i (c_out c)) by (eapply wr_in, E).
  unfold v'. rewrite P_frame by (intros c' Hc'; apply (proj2 (Hrest c' Hc')), Hio).
  unfold v1, propagate1. fold rs.
  rewrite rd_write_outs, E; auto.
  unfold v', v1 in Hi. rewrite P_length, propagate1_length in Hi. exact Hi.
Qed.

Lemma topo_app_inv pre l : topo (pre ++ l) -> topo l.
Proof. induction pre as [|c pre IH]; cbn [app topo]; auto. intros (_ & _ & H). apply IH, H. Qed.

Lemma P_app a b vs : P (a ++ b) vs = P b (P a vs).
Proof. apply fold_left_app. Qed.

Lemma P_fixed_each cs v c : topo cs -> In c cs -> propagate1 d (P cs v) c = P cs v.
Proof.
  intros Ht Hin. apply in_split in Hin as (pre & post & ->).
  apply topo_app_inv in Ht. cbn [topo] in Ht. destruct Ht as (Hself & Hrest & _).
  rewrite P_app. cbn [P fold_left]. fold (P post).
  apply propagate1_absorbed; auto.
Qed.

Lemma P_id cs v : (forall c, In c cs -> propagate1 d v c = v) -> P cs v = v.
Proof.
  induction cs as [|c cs IH]; intros H; cbn [P fold_left]; auto. fold (P cs).
  rewrite (H c) by now left. apply IH. intros c' Hc'. apply H. now right.
Qed.

(* one more pass over a dependency-ordered list changes nothing *)
Lemma propagateAll_idem v : topo (combs d) -> propagateAll d (propagateAll d v) = propagateAll d v.
Proof.
  intros Ht. unfold propagateAll. fold (P (combs d)). apply P_id. intros c Hc. apply P_fixed_each; auto.
Qed.

Definition idempotent : Prop := forall v, propagateAll d (propagateAll d v) = propagateAll d v.

Definition pre (s : state St) : state St :=
  {| vals := propagateAll d (vals s); pend := pend s; sts := sts s; total := total s |}.

Definition propagated (s : state St) : Prop := exists v, vals s = propagateAll d v.

Lemma cycles_propagated n s : propagated s -> propagated (cycles d n s).
Proof.
  revert s; induction n as [|n IH]; intros s H; cbn [cycles]; auto.
  apply IH. unfold clk_cycle. eexists. cbn [vals]. reflexivity.
Qed.

Lemma pre_fixed s : idempotent -> propagated s -> pre s = s.
Proof. intros Hi (v & Hv). unfold pre. rewrite Hv, Hi, <- Hv. destruct s; reflexivity. Qed.

Lemma cycles_add m n s : cycles d (m + n) s = cycles d n (cycles d m s).
Proof. revert s; induction m as [|m IH]; intros s; cbn [Nat.add cycles]; auto. Qed.

Lemma clk_split_idem m n s : idempotent -> clk d (m + n) s = clk d n (clk d m s).
Proof.
  intros Hi. unfold clk. fold (pre s). fold (pre (cycles d m (pre s))).
  rewrite cycles_add. rewrite (pre_fixed (cycles d m (pre s))); auto.
  apply cycles_propagated. eexists. reflexivity.
Qed.

Lemma clk_split m n s : topo (combs d) -> clk d (m + n) s = clk d n (clk d m s).
Proof. intros Ht. apply clk_split_idem. intros v. apply propagateAll_idem, Ht. Qed.

(* n single-cycle calls *)
Fixpoint clk1_times (n : nat) (s : state St) : state St :=
  match n with O => s | S n' => clk1_times n' (clk d 1 s) end.

Lemma clk_as_singles n s : topo (combs d) -> (0 < n)%nat -> clk d n s = clk1_times n s.
Proof.
  intros Ht. revert s; induction n as [|n IH]; intros s Hn; [lia|].
  cbn [clk1_times]. destruct n as [|n].
  - reflexivity.
  - change (S (S n)) with (1 + S n)%nat. rewrite clk_split by exact Ht. apply IH. lia.
Qed.

End Split.
