(* C05/C10: list lemmas about set_nth / rd / settle / write_outs / prep and the boolean checkers. *)
From V Require Import Base.Bits Gen.WireOps Model.SimKernel Spec.C05.

Lemma set_nth_length {A} (l : list A) i v : length (set_nth l i v) = length l.
Proof. revert i; induction l as [|x l IH]; intros [|i]; cbn; auto. Qed.

Lemma set_nth_comm {A} (l : list A) i j a b :
  i <> j -> set_nth (set_nth l i a) j b = set_nth (set_nth l j b) i a.
Proof.
  revert i j; induction l as [|x l IH]; intros [|i] [|j] H; cbn; auto; try (now elim H); try (f_equal; apply IH; intros E; apply H; now f_equal).
Qed.

Lemma set_nth_twice {A} (l : list A) i a b : set_nth (set_nth l i a) i b = set_nth l i b.
Proof. revert i; induction l as [|x l IH]; intros [|i]; cbn; auto. f_equal; apply IH. Qed.

Lemma nth_error_set_nth_ne {A} (l : list A) i j a : i <> j -> nth_error (set_nth l i a) j = nth_error l j.
Proof.
  revert i j; induction l as [|x l IH]; intros [|i] [|j] H; cbn; auto; try (now elim H); try (apply IH; intros E; apply H; now f_equal).
Qed.

Lemma nth_error_set_nth_eq {A} (l : list A) i a : (i < length l)%nat -> nth_error (set_nth l i a) i = Some a.
Proof.
  revert i; induction l as [|x l IH]; intros [|i] H; cbn in *; auto; try lia. apply IH; lia.
Qed.

Lemma nth_set_nth_ne {A} (l : list A) i j a dflt : i <> j -> nth j (set_nth l i a) dflt = nth j l dflt.
Proof.
  revert i j; induction l as [|x l IH]; intros [|i] [|j] H; cbn; auto; try (now elim H); try (apply IH; intros E; apply H; now f_equal).
Qed.

Lemma nth_set_nth_eq {A} (l : list A) i a dflt : (i < length l)%nat -> nth i (set_nth l i a) dflt = a.
Proof.
  revert i; induction l as [|x l IH]; intros [|i] H; cbn in *; auto; try lia. apply IH; lia.
Qed.

Lemma rd_set_nth_ne l i j a : i <> j -> rd (set_nth l i a) j = rd l j.
Proof. apply nth_set_nth_ne. Qed.
Lemma rd_set_nth_eq l i a : (i < length l)%nat -> rd (set_nth l i a) i = a.
Proof. apply nth_set_nth_eq. Qed.

Lemma rd_ext (u v : list Z) : length u = length v -> (forall i, (i < length u)%nat -> rd u i = rd v i) -> u = v.
Proof. intros Hl H. apply (nth_ext u v 0 0 Hl). exact H. Qed.

(* ------------------------------------------------------------------ settle *)
Lemma settle_length vs p : length (settle vs p) = length vs.
Proof. apply set_nth_length. Qed.

Lemma fold_settle_length p vs : length (fold_left settle p vs) = length vs.
Proof. revert vs; induction p as [|a p IH]; intros vs; cbn [fold_left]; auto. rewrite IH. apply settle_length. Qed.

Lemma settle_comm vs p q : fst p <> fst q -> settle (settle vs p) q = settle (settle vs q) p.
Proof. unfold settle. apply set_nth_comm. Qed.

Lemma fold_settle_comm1 Q vs p :
  ~ In (fst p) (map fst Q) -> fold_left settle Q (settle vs p) = settle (fold_left settle Q vs) p.
Proof.
  revert vs; induction Q as [|q Q IH]; intros vs H; cbn [fold_left]; auto.
  cbn [map In] in H. rewrite settle_comm by (intros E; apply H; left; now symmetry).
  apply IH. intros E; apply H; now right.
Qed.

Lemma fold_settle_comm P Q vs :
  (forall w, In w (map fst P) -> ~ In w (map fst Q)) ->
  fold_left settle (P ++ Q) vs = fold_left settle (Q ++ P) vs.
Proof.
  revert vs; induction P as [|p P IH]; intros vs H.
  - now rewrite app_nil_r.
  - cbn [app fold_left]. rewrite IH by (intros w Hw; apply H; right; exact Hw).
    rewrite !fold_left_app. cbn [fold_left]. f_equal.
    apply fold_settle_comm1. apply H. now left.
Qed.

Lemma rd_fold_settle_notin p vs w : ~ In w (map fst p) -> rd (fold_left settle p vs) w = rd vs w.
Proof.
  revert vs; induction p as [|[i v] p IH]; intros vs H; cbn [fold_left]; auto.
  cbn [map In fst] in H. rewrite IH by (intros E; apply H; now right).
  unfold settle; cbn [fst snd]. apply rd_set_nth_ne. intros E; apply H; now left.
Qed.

Lemma rd_fold_settle p vs w :
  (w < length vs)%nat ->
  rd (fold_left settle p vs) w = match last_for w p with Some x => x | None => rd vs w end.
Proof.
  revert vs; induction p as [|[i v] p IH]; intros vs H; cbn [fold_left last_for]; auto.
  rewrite IH by (rewrite settle_length; exact H).
  destruct (last_for w p) as [x|]; auto.
  unfold settle; cbn [fst snd].
  destruct (Nat.eqb_spec i w) as [->|Hne].
  - apply rd_set_nth_eq, H.
  - apply rd_set_nth_ne, Hne.
Qed.

Lemma last_for_notin w p : ~ In w (map fst p) -> last_for w p = None.
Proof.
  induction p as [|[i v] p IH]; intros H; cbn [last_for]; auto.
  cbn [map In fst] in H. rewrite IH by (intros E; apply H; now right).
  destruct (Nat.eqb_spec i w) as [->|]; auto. elim H; now left.
Qed.

Lemma last_for_in w p x : last_for w p = Some x -> In (w, x) p.
Proof.
  induction p as [|[i v] p IH]; cbn [last_for]; intros H; [discriminate|].
  destruct (last_for w p) as [y|].
  - right. apply IH. exact H.
  - destruct (Nat.eqb_spec i w) as [->|]; [|discriminate]. left. congruence.
Qed.

Lemma last_for_nodup w v p : NoDup (map fst p) -> In (w, v) p -> last_for w p = Some v.
Proof.
  induction p as [|[i x] p IH]; intros Hn Hin; [destruct Hin|].
  cbn [map fst] in Hn. inversion Hn as [|? ? Hni Hn']; subst. cbn [last_for].
  destruct Hin as [E|Hin].
  - inversion E; subst. rewrite last_for_notin by exact Hni. now rewrite Nat.eqb_refl.
  - now rewrite (IH Hn' Hin).
Qed.

(* ------------------------------------------------------------------ write_outs (combinational writes) *)
Lemma write_outs_length ws outs rs vs : length (write_outs ws outs rs vs) = length vs.
Proof.
  revert rs vs; induction outs as [|o outs IH]; intros [|[v|] rs] vs; cbn [write_outs]; auto.
  rewrite IH. apply set_nth_length.
Qed.

Lemma rd_write_outs_notin ws outs rs vs w : ~ In w outs -> rd (write_outs ws outs rs vs) w = rd vs w.
Proof.
  revert rs vs; induction outs as [|o outs IH]; intros [|[v|] rs] vs H; cbn [write_outs]; auto.
  - rewrite IH by (intros E; apply H; now right). apply rd_set_nth_ne. intros E; apply H; now left.
  - apply IH. intros E; apply H; now right.
Qed.

(* the value the write list gives wire w: the last write to it, if any *)
Fixpoint wr (ws : list Z) (outs : list nat) (rs : list (option Z)) (w : nat) : option Z :=
  match outs, rs with
  | o :: outs', Some v :: rs' =>
      match wr ws outs' rs' w with
      | Some x => Some x
      | None => if Nat.eqb o w then Some (Wire_put (nth o ws 0) v) else None
      end
  | _ :: outs', None :: rs' => wr ws outs' rs' w
  | _, _ => None
  end.

Lemma wr_in ws outs rs w x : wr ws outs rs w = Some x -> In w outs.
Proof.
  revert rs x; induction outs as [|o outs IH]; intros [|[v|] rs] x; cbn [wr]; try discriminate.
  - destruct (wr ws outs rs w) eqn:E.
    + intros _. right. eapply IH, E.
    + destruct (Nat.eqb_spec o w) as [->|]; [now left | discriminate].
  - intros H. right. eapply IH, H.
Qed.

Lemma rd_write_outs ws outs rs vs w :
  (w < length vs)%nat ->
  rd (write_outs ws outs rs vs) w = match wr ws outs rs w with Some x => x | None => rd vs w end.
Proof.
  revert rs vs; induction outs as [|o outs IH]; intros [|[v|] rs] vs H; cbn [write_outs wr]; auto.
  rewrite IH by (rewrite set_nth_length; exact H).
  destruct (wr ws outs rs w) as [x|]; auto.
  destruct (Nat.eqb_spec o w) as [->|Hne].
  - apply rd_set_nth_eq, H.
  - apply rd_set_nth_ne, Hne.
Qed.

(* ------------------------------------------------------------------ prep (sequential prepares) *)
Lemma prep_wires ws outs rs w : In w (map fst (prep ws outs rs)) -> In w outs.
Proof.
  revert rs; induction outs as [|o outs IH]; intros [|[v|] rs]; cbn [prep map In fst]; try tauto.
  - intros [E|H]; [now left | right; eapply IH, H].
  - intros H. right; eapply IH, H.
Qed.

Lemma prep_nodup ws outs rs : NoDup outs -> NoDup (map fst (prep ws outs rs)).
Proof.
  revert rs; induction outs as [|o outs IH]; intros [|[v|] rs] H; cbn [prep map fst]; try constructor;
    inversion H as [|? ? Hni Hn]; subst.
  - intros E. apply Hni. eapply prep_wires, E.
  - apply IH, Hn.
  - apply IH, Hn.
Qed.

(* ------------------------------------------------------------------ NoDup / flat_map *)
Lemma nodup_app_inv {A} (a b : list A) :
  NoDup (a ++ b) -> NoDup a /\ NoDup b /\ (forall x, In x a -> ~ In x b).
Proof.
  induction a as [|x a IH]; cbn [app]; intros H.
  - repeat split; auto. constructor.
  - inversion H as [|? ? Hni Hn]; subst. destruct (IH Hn) as (Ha & Hb & Hd).
    repeat split; auto.
    + constructor; auto. intros E; apply Hni, in_or_app; now left.
    + intros y [->|Hy]; [intros E; apply Hni, in_or_app; now right | now apply Hd].
Qed.

Lemma nodup_app_intro {A} (a b : list A) :
  NoDup a -> NoDup b -> (forall x, In x a -> ~ In x b) -> NoDup (a ++ b).
Proof.
  induction a as [|x a IH]; cbn [app]; intros Ha Hb Hd; auto.
  inversion Ha as [|? ? Hni Hn]; subst. constructor.
  - intros E. apply in_app_or in E as [E|E]; [now apply Hni | apply (Hd x); [now left | exact E]].
  - apply IH; auto. intros y Hy. apply Hd. now right.
Qed.

Lemma nodup_flat_map_filter {A} (f : A -> list nat) (b : A -> bool) (l : list A) :
  NoDup (flat_map f l) -> NoDup (flat_map (fun x => if b x then f x else []) l).
Proof.
  induction l as [|x l IH]; cbn [flat_map]; intros H; [constructor|].
  apply nodup_app_inv in H as (Ha & Hb & Hd).
  destruct (b x); cbn [app]; [|now apply IH].
  apply nodup_app_intro; auto.
  intros y Hy E. apply (Hd y Hy).
  apply in_flat_map in E as (z & Hz & Hyz). apply in_flat_map. exists z; split; auto.
  destruct (b z); [exact Hyz | destruct Hyz].
Qed.

Lemma in_flat_map_filter {A} (f : A -> list nat) (b : A -> bool) (l : list A) y :
  In y (flat_map (fun x => if b x then f x else []) l) -> In y (flat_map f l).
Proof.
  intros E. apply in_flat_map in E as (z & Hz & Hyz). apply in_flat_map. exists z; split; auto.
  destruct (b z); [exact Hyz | destruct Hyz].
Qed.

(* ------------------------------------------------------------------ soundness of the boolean checkers *)
Lemma mem_b_spec x l : mem_b x l = true <-> In x l.
Proof.
  unfold mem_b. rewrite existsb_exists. split.
  - intros (y & Hy & E). apply Nat.eqb_eq in E. now subst.
  - intros H. exists x. split; auto. apply Nat.eqb_refl.
Qed.

Lemma disj_b_spec a b : disj_b a b = true -> forall w, In w a -> ~ In w b.
Proof.
  unfold disj_b. rewrite forallb_forall. intros H w Hw E.
  specialize (H w Hw). apply mem_b_spec in E. rewrite E in H. discriminate.
Qed.

Lemma nodup_b_spec l : nodup_b l = true -> NoDup l.
Proof.
  induction l as [|x l IH]; cbn [nodup_b]; intros H; constructor;
    apply andb_prop in H as [H1 H2].
  - intros E. apply mem_b_spec in E. rewrite E in H1. discriminate.
  - now apply IH.
Qed.

Lemma pairwise_disj_b_lt ls :
  pairwise_disj_b ls = true ->
  forall a b xa xb, (a < b)%nat -> nth_error ls a = Some xa -> nth_error ls b = Some xb ->
                    forall w, In w xa -> ~ In w xb.
Proof.
  induction ls as [|x ls IH]; cbn [pairwise_disj_b]; intros H a b xa xb Hab Ha Hb.
  - destruct a; discriminate.
  - apply andb_prop in H as [H1 H2].
    destruct b as [|b]; [lia|]. cbn [nth_error] in Hb.
    destruct a as [|a]; cbn [nth_error] in Ha.
    + inversion Ha; subst. rewrite forallb_forall in H1.
      apply disj_b_spec, H1. eapply nth_error_In, Hb.
    + apply (IH H2 a b xa xb); auto. lia.
Qed.

Lemma pairwise_disj_b_spec ls :
  pairwise_disj_b ls = true ->
  forall a b xa xb, a <> b -> nth_error ls a = Some xa -> nth_error ls b = Some xb ->
                    forall w, In w xa -> ~ In w xb.
Proof.
  intros H a b xa xb Hab Ha Hb w Hwa Hwb.
  destruct (Nat.lt_total a b) as [L|[E|L]]; [|now apply Hab|].
  - exact (pairwise_disj_b_lt ls H a b xa xb L Ha Hb w Hwa Hwb).
  - exact (pairwise_disj_b_lt ls H b a xb xa L Hb Ha w Hwb Hwa).
Qed.

Lemma topo_b_spec cs : topo_b cs = true -> topo cs.
Proof.
  induction cs as [|c cs IH]; cbn [topo_b topo]; auto. intros H.
  apply andb_prop in H as [H H3]. apply andb_prop in H as [H1 H2].
  split; [apply disj_b_spec, H1|]. split; [|apply IH, H3].
  intros c' Hc'. rewrite forallb_forall in H2. specialize (H2 c' Hc').
  apply andb_prop in H2 as [Ha Hb]. split; apply disj_b_spec; assumption.
Qed.

Lemma single_writer_b_spec {St} (d : design St) : single_writer_b d = true -> single_writer d.
Proof.
  unfold single_writer_b, single_writer. intros H a b la lb Hab Ha Hb.
  apply (pairwise_disj_b_spec _ H a b); auto.
  - rewrite nth_error_map, Ha. reflexivity.
  - rewrite nth_error_map, Hb. reflexivity.
Qed.

Lemma registered_once_b_spec {St} (d : design St) : registered_once_b d = true -> registered_once d.
Proof. apply nodup_b_spec. Qed.

Lemma outs_nodup_b_spec {St} (d : design St) : outs_nodup_b d = true -> outs_nodup d.
Proof.
  unfold outs_nodup_b, outs_nodup. rewrite forallb_forall. intros H k l Hk.
  apply nodup_b_spec, H. eapply nth_error_In, Hk.
Qed.
