(* C05 / C06: the stimulus block `Sequence` (py4hw/logic/simulation.py), REGENERATED as Gen.Seq.Sequence_clock.
   From power-up (i = 0) the k-th edge (k = 0, 1, ...) prepares values[k mod n] (wrapping) resp. values[min k (n-1)] (once),
   always reduced into the output wire's range by Wire.prepare; the index never leaves [0, n). *)
From Coq Require Import ZArith List Lia Bool.
Import ListNotations.
From V Require Import Base.PyInt Base.Bits Gen.WireOps Gen.Helpers Gen.Seq.
Open Scope Z_scope.

Fixpoint seq_run (w : Z) (vals : list Z) (n once : Z) (k : nat) (st : Sequence_state) : Sequence_state * list Z :=
  match k with
  | O => (st, [])
  | S k' => let '(st', o) := Sequence_clock w vals n once st in
            let '(st'', os) := seq_run w vals n once k' st' in (st'', o :: os)
  end.

Definition seq_index (once n i : Z) : Z := if py_truth once then (if i <? n - 1 then i + 1 else i) else (i + 1) mod n.

Lemma seq_step : forall w vals n once st,
  Sequence_clock w vals n once st = ({| Sequence_s_i := seq_index once n (Sequence_s_i st) |}, Wire_prepare w (getZ vals (Sequence_s_i st))).
Proof. intros w vals n once st. unfold Sequence_clock, seq_index. destruct (py_truth once); [destruct (Sequence_s_i st <? n - 1)|]; reflexivity. Qed.

(* closed form of the index after k edges starting at i0 *)
Definition seq_index_after (once n i0 : Z) (k : nat) : Z :=
  if py_truth once then Z.min (i0 + Z.of_nat k) (Z.max i0 (n - 1)) else if (k =? 0)%nat then i0 else (i0 + Z.of_nat k) mod n.

Lemma seq_index_bound : forall once n i0, 0 < n -> 0 <= i0 < n -> 0 <= seq_index once n i0 < n.
Proof. intros once n i0 Hn Hi. unfold seq_index. destruct (py_truth once); [destruct (i0 <? n - 1) eqn:L; lia|]. apply Z.mod_pos_bound; lia. Qed.

Lemma seq_index_after_0 : forall once n i0, seq_index_after once n i0 0 = i0.
Proof. intros. unfold seq_index_after. destruct (py_truth once); cbn; lia. Qed.

Lemma seq_index_after_S : forall once n i0 j, 0 < n -> 0 <= i0 < n ->
  seq_index_after once n i0 (S j) = seq_index_after once n (seq_index once n i0) j.
Proof.
  intros once n i0 j Hn Hi. unfold seq_index_after, seq_index. destruct (py_truth once).
  - destruct (i0 <? n - 1) eqn:L; lia.
  - destruct j as [|j']; cbn [Nat.eqb].
    + f_equal; lia.
    + rewrite Zplus_mod_idemp_l. f_equal; lia.
Qed.

Lemma seq_run_closed : forall w vals once n, 0 < n -> forall k i0, 0 <= i0 < n ->
  seq_run w vals n once k {| Sequence_s_i := i0 |} =
  ({| Sequence_s_i := seq_index_after once n i0 k |},
   map (fun j => Wire_prepare w (getZ vals (seq_index_after once n i0 j))) (seq 0 k)).
Proof.
  intros w vals once n Hn k. induction k as [|k IH]; intros i0 Hi.
  - cbn [seq_run seq map]. rewrite seq_index_after_0. reflexivity.
  - cbn [seq_run]. rewrite seq_step. cbn [Sequence_s_i].
    rewrite (IH (seq_index once n i0) (seq_index_bound once n i0 Hn Hi)).
    rewrite <- seq_index_after_S by assumption.
    cbn [seq map]. rewrite seq_index_after_0. f_equal. f_equal.
    rewrite <- seq_shift, map_map. apply map_ext. intros j. rewrite seq_index_after_S by assumption. reflexivity.
Qed.

(* the statement in the user's terms: from power-up *)
Lemma sequence_wrapping : forall w vals n k, 0 < n ->
  seq_run w vals n 0 k {| Sequence_s_i := 0 |} =
  ({| Sequence_s_i := Z.of_nat k mod n |}, map (fun j => Wire_prepare w (getZ vals (Z.of_nat j mod n))) (seq 0 k)).
Proof.
  intros w vals n k Hn. rewrite (seq_run_closed w vals 0 n Hn k 0) by lia. f_equal.
  - f_equal. unfold seq_index_after. cbn [py_truth Z.eqb negb]. destruct k; cbn [Nat.eqb]; [rewrite Z.mod_0_l; lia|reflexivity].
  - apply map_ext. intros j. unfold seq_index_after. cbn [py_truth Z.eqb negb]. destruct j; cbn [Nat.eqb]; [rewrite Z.mod_0_l; [reflexivity|lia]|reflexivity].
Qed.

Lemma sequence_once : forall w vals n once k, 0 < n -> once <> 0 ->
  seq_run w vals n once k {| Sequence_s_i := 0 |} =
  ({| Sequence_s_i := Z.min (Z.of_nat k) (n - 1) |}, map (fun j => Wire_prepare w (getZ vals (Z.min (Z.of_nat j) (n - 1)))) (seq 0 k)).
Proof.
  intros w vals n once k Hn Ho. rewrite (seq_run_closed w vals once n Hn k 0) by lia.
  assert (Ht : py_truth once = true) by (unfold py_truth; destruct (once =? 0) eqn:E; [lia|reflexivity]).
  f_equal.
  - f_equal. unfold seq_index_after. rewrite Ht. lia.
  - apply map_ext. intros j. unfold seq_index_after. rewrite Ht. f_equal. f_equal. lia.
Qed.

Example sequence_example :
  snd (seq_run 4 [3; 17; 5; -1] 4 0 6 {| Sequence_s_i := 0 |}) = [3; 1; 5; 15; 3; 1] /\
  snd (seq_run 3 [1; 2; 9] 3 1 5 {| Sequence_s_i := 0 |}) = [1; 2; 1; 1; 1].
Proof. split; vm_compute; reflexivity. Qed.

From V Require Import Proofs.C06.Range.
Lemma sequence_outputs_in_range : forall w vals once n k i0, 0 <= w -> 0 < n -> 0 <= i0 < n ->
  Forall (fun v => 0 <= v < 2 ^ w) (snd (seq_run w vals n once k {| Sequence_s_i := i0 |})) /\
  0 <= Sequence_s_i (fst (seq_run w vals n once k {| Sequence_s_i := i0 |})) < n.
Proof.
  intros w vals once n k i0 Hw Hn Hi. rewrite (seq_run_closed w vals once n Hn k i0 Hi). cbn [fst snd Sequence_s_i]. split.
  - apply Forall_forall. intros v Hv. apply in_map_iff in Hv. destruct Hv as [j [Hj _]]. subst v. apply prepare_range; assumption.
  - unfold seq_index_after. destruct (py_truth once); [lia|]. destruct (k =? 0)%nat; [assumption|]. apply Z.mod_pos_bound; lia.
Qed.
