(* C05: concrete instances showing that the hypotheses of the theorems are satisfiable by non-trivial designs,
   and that the guard of the split theorem is necessary. *)
From V Require Import Base.Bits Gen.WireOps Model.SimKernel Spec.C05 Proofs.C05.ListAux Proofs.C05.Edge Proofs.C05.Split.

(* two registers exchanging their values (q0 -> d1, q1 -> d0) and a third one in a second, gated driver *)
Definition reg_leaf (din q : nat) : sleaf Z :=
  {| s_in := [din]; s_out := [q]; s_f := fun _ ins => (nth 0 ins 0, [Some (nth 0 ins 0)]) |}.

Definition ex_swap : design Z :=
  {| widths := [4; 4; 4; 1];
     combs := [];
     seqs := [reg_leaf 1 0; reg_leaf 0 1; reg_leaf 0 2];
     drivers := [ {| d_enable := None; d_leaves := [0%nat; 1%nat] |};
                  {| d_enable := Some 3%nat; d_leaves := [2%nat] |} ] |}.

Definition ex_swap_resched : list driver :=
  [ {| d_enable := Some 3%nat; d_leaves := [2%nat] |}; {| d_enable := None; d_leaves := [1%nat; 0%nat] |} ].

Definition ex_s0 : state Z := {| vals := [1; 2; 0; 1]; pend := []; sts := [0; 0; 0]; total := O |}.

Lemma ex_swap_single_writer : single_writer ex_swap.
Proof. apply single_writer_b_spec. vm_compute. reflexivity. Qed.
Lemma ex_swap_registered_once : registered_once ex_swap.
Proof. apply registered_once_b_spec. vm_compute. reflexivity. Qed.
Lemma ex_swap_outs_nodup : outs_nodup ex_swap.
Proof. apply outs_nodup_b_spec. vm_compute. reflexivity. Qed.

Lemma ex_swap_resched_ok : resched (drivers ex_swap) ex_swap_resched.
Proof.
  exists [ {| d_enable := None; d_leaves := [1%nat; 0%nat] |}; {| d_enable := Some 3%nat; d_leaves := [2%nat] |} ].
  split.
  - repeat constructor.
  - apply perm_swap.
Qed.

(* the exchange really happens (a register that wrote q immediately would give [2;2;..] or [1;1;..]) *)
Lemma ex_swap_runs :
  vals (clk_cycle ex_swap ex_s0) = [2; 1; 1; 1] /\
  vals (clk_cycle (with_drivers ex_swap ex_swap_resched) ex_s0) = [2; 1; 1; 1] /\
  sts (clk_cycle ex_swap ex_s0) = [2; 1; 1].
Proof. vm_compute. auto. Qed.

(* a combinational part in dependency order: w1 := w0 + 1, w2 := w1 * 2 *)
Definition ex_comb : design unit :=
  {| widths := [4; 4; 4];
     combs := [ {| c_in := [0%nat]; c_out := [1%nat]; c_f := fun ins => [Some (nth 0 ins 0 + 1)] |};
                {| c_in := [1%nat]; c_out := [2%nat]; c_f := fun ins => [Some (nth 0 ins 0 * 2)] |} ];
     seqs := []; drivers := [] |}.
Lemma ex_comb_topo : topo (combs ex_comb).
Proof. apply topo_b_spec. vm_compute. reflexivity. Qed.

(* the guard of clk_split is needed: an inverter whose output wire is its own input (a combinational
   self-loop) makes every extra propagateAll visible *)
Definition ex_loop : design unit :=
  {| widths := [1];
     combs := [ {| c_in := [0%nat]; c_out := [0%nat]; c_f := fun ins => [Some (1 - nth 0 ins 0)] |} ];
     seqs := []; drivers := [] |}.
Definition ex_loop_s0 : state unit := {| vals := [0]; pend := []; sts := []; total := O |}.

Lemma ex_loop_split_fails :
  vals (clk ex_loop 2 ex_loop_s0) = [1] /\ vals (clk ex_loop 1 (clk ex_loop 1 ex_loop_s0)) = [0].
Proof. vm_compute. auto. Qed.

Lemma split_needs_guard : exists (d : design unit) s, clk d (1 + 1) s <> clk d 1 (clk d 1 s).
Proof.
  exists ex_loop, ex_loop_s0. intros E. apply (f_equal vals) in E.
  destruct ex_loop_split_fails as [A B]. cbn [Nat.add] in E. rewrite A, B in E. discriminate.
Qed.

(* without the single-writer hypothesis the visit order IS observable: two leaves preparing the same wire *)
Definition const_leaf (q : nat) (v : Z) : sleaf Z :=
  {| s_in := []; s_out := [q]; s_f := fun st _ => (st, [Some v]) |}.
Definition ex_clash : design Z :=
  {| widths := [4]; combs := []; seqs := [const_leaf 0 5; const_leaf 0 9];
     drivers := [ {| d_enable := None; d_leaves := [0%nat; 1%nat] |} ] |}.
Definition ex_clash_s0 : state Z := {| vals := [0]; pend := []; sts := [0; 0]; total := O |}.

Lemma order_needs_single_writer :
  exists (d : design Z) ds' s, registered_once d /\ resched (drivers d) ds' /\
                               clk_cycle (with_drivers d ds') s <> clk_cycle d s.
Proof.
  exists ex_clash, [ {| d_enable := None; d_leaves := [1%nat; 0%nat] |} ], ex_clash_s0.
  split; [apply registered_once_b_spec; vm_compute; reflexivity|]. split.
  - exists [ {| d_enable := None; d_leaves := [1%nat; 0%nat] |} ]. split; [repeat constructor | apply Permutation_refl].
  - intros E. apply (f_equal vals) in E. vm_compute in E. discriminate.
Qed.
