(* C05: the kernel's clock edge refines the snapshot-then-apply reference, and the reference does not
   depend on the visit order. *)
From V Require Import Base.Bits Gen.WireOps Model.SimKernel Spec.C05 Proofs.C05.ListAux.

Section Edge.
Context {St : Type}.
Variable d : design St.

(* ------------------------------------------------------------------ clock functions never touch wire values *)
Lemma clock1_vals s k : vals (clock1 d s k) = vals s.
Proof.
  unfold clock1. destruct (nth_error (seqs d) k); auto. destruct (nth_error (sts s) k); auto.
  destruct (s_f _ _ _); reflexivity.
Qed.

Lemma clock1_total s k : total (clock1 d s k) = total s.
Proof.
  unfold clock1. destruct (nth_error (seqs d) k); auto. destruct (nth_error (sts s) k); auto.
  destruct (s_f _ _ _); reflexivity.
Qed.

Lemma fold_clock1_vals ks s : vals (fold_left (clock1 d) ks s) = vals s.
Proof. revert s; induction ks as [|k ks IH]; intros s; cbn [fold_left]; auto. rewrite IH. apply clock1_vals. Qed.

Lemma clockAll_vals s drv : vals (clockAll d s drv) = vals s.
Proof. apply fold_clock1_vals. Qed.

(* the per-driver loop with its enable test = one pass over the leaves of the drivers enabled BEFORE the edge *)
Lemma drivers_flat ds s :
  fold_left (fun s drv => if enabled (vals s) drv then clockAll d s drv else s) ds s =
  fold_left (clock1 d) (flat_map (fun drv => if enabled (vals s) drv then d_leaves drv else []) ds) s.
Proof.
  revert s; induction ds as [|drv ds IH]; intros s; cbn [fold_left flat_map]; auto.
  rewrite fold_left_app.
  destruct (enabled (vals s) drv) eqn:E.
  - rewrite IH. unfold clockAll at 2. rewrite clockAll_vals. reflexivity.
  - cbn [fold_left]. apply IH.
Qed.

Lemma clock_drivers_flat s : clock_drivers d s = fold_left (clock1 d) (active d (vals s)) s.
Proof. apply drivers_flat. Qed.

Lemma clock_drivers_vals s : vals (clock_drivers d s) = vals s.
Proof. rewrite clock_drivers_flat. apply fold_clock1_vals. Qed.

Lemma clock_drivers_total s : total (clock_drivers d s) = total s.
Proof.
  rewrite clock_drivers_flat. generalize (active d (vals s)). intros ks. revert s.
  induction ks as [|k ks IH]; intros s; cbn [fold_left]; auto. rewrite IH. apply clock1_total.
Qed.

(* ------------------------------------------------------------------ one visit = the snapshot computation *)
Lemma clock1_snap s0 s k :
  vals s = vals s0 -> nth_error (sts s) k = nth_error (sts s0) k ->
  clock1 d s k = {| vals := vals s; pend := pend s ++ snap_upd d s0 k; sts := snap_st d s0 (sts s) k; total := total s |}.
Proof.
  intros Hv Hk. unfold clock1, snap_upd, snap_st, snap. rewrite Hk, <- Hv.
  destruct (nth_error (seqs d) k) as [l|].
  - destruct (nth_error (sts s0) k) as [st|].
    + destruct (s_f l st _) as [st' rs]. reflexivity.
    + rewrite app_nil_r. destruct s; reflexivity.
  - rewrite app_nil_r. destruct s; reflexivity.
Qed.

Lemma snap_st_other s0 acc k j : k <> j -> nth_error (snap_st d s0 acc k) j = nth_error acc j.
Proof.
  intros H. unfold snap_st. destruct (snap d s0 k) as [[st' p]|]; auto. apply nth_error_set_nth_ne, H.
Qed.

Lemma fold_clock1_ref s0 ks :
  NoDup ks -> forall s,
  vals s = vals s0 -> (forall k, In k ks -> nth_error (sts s) k = nth_error (sts s0) k) ->
  fold_left (clock1 d) ks s =
  {| vals := vals s; pend := pend s ++ flat_map (snap_upd d s0) ks;
     sts := fold_left (snap_st d s0) ks (sts s); total := total s |}.
Proof.
  induction 1 as [|k ks Hni Hnd IH]; intros s Hv Hs; cbn [fold_left flat_map].
  - rewrite app_nil_r. destruct s; reflexivity.
  - rewrite (clock1_snap s0 s k Hv) by (apply Hs; now left).
    rewrite IH; cbn [vals pend sts total]; auto.
    + now rewrite app_assoc.
    + intros j Hj. rewrite snap_st_other by (intros E; subst; contradiction). apply Hs. now right.
Qed.

(* the edge, as the kernel computes it, IS the reference edge over the active leaves *)
Lemma edge_ref s :
  NoDup (active d (vals s)) -> settleAll (clock_drivers d s) = ref_edge d s (active d (vals s)).
Proof.
  intros H. rewrite clock_drivers_flat. rewrite (fold_clock1_ref s _ H s); auto.
Qed.

Lemma active_nodup vs : registered_once d -> NoDup (active d vs).
Proof. unfold registered_once, all_leaves, active. apply nodup_flat_map_filter. Qed.

Lemma cycle_ref s : registered_once d -> clk_cycle d s = ref_cycle d s.
Proof.
  intros H. unfold clk_cycle, ref_cycle. rewrite edge_ref by (apply active_nodup, H). reflexivity.
Qed.

Lemma cycles_ref n s : registered_once d -> cycles d n s = ref_cycles d n s.
Proof.
  intros H. revert s; induction n as [|n IH]; intros s; cbn [cycles ref_cycles]; auto.
  rewrite cycle_ref by exact H. apply IH.
Qed.

Lemma clk_ref n s : registered_once d -> clk d n s = ref_clk d n s.
Proof. intros H. unfold clk, ref_clk. apply cycles_ref, H. Qed.

(* ------------------------------------------------------------------ the reference is order-independent *)
Lemma snap_upd_wires s k w :
  In w (map fst (snap_upd d s k)) -> exists l, nth_error (seqs d) k = Some l /\ In w (s_out l).
Proof.
  unfold snap_upd, snap. destruct (nth_error (seqs d) k) as [l|]; [|intros []].
  destruct (nth_error (sts s) k) as [st|]; [|intros []].
  destruct (s_f l st _) as [st' rs]. intros H. exists l. split; auto. eapply prep_wires, H.
Qed.

Lemma snap_upd_disjoint s a b :
  single_writer d -> a <> b ->
  forall w, In w (map fst (snap_upd d s a)) -> ~ In w (map fst (snap_upd d s b)).
Proof.
  intros Hsw Hab w Ha Hb.
  apply snap_upd_wires in Ha as (la & Hla & Hwa). apply snap_upd_wires in Hb as (lb & Hlb & Hwb).
  exact (Hsw a b la lb Hab Hla Hlb w Hwa Hwb).
Qed.

Lemma settle_flat_perm (f : nat -> list (nat * Z)) ks ks' :
  (forall a b, a <> b -> forall w, In w (map fst (f a)) -> ~ In w (map fst (f b))) ->
  Permutation ks ks' ->
  forall vs, fold_left settle (flat_map f ks) vs = fold_left settle (flat_map f ks') vs.
Proof.
  intros Hd. induction 1 as [|x l l' HP IH|x y l|l l' l'' HP1 IH1 HP2 IH2]; intros vs; auto.
  - cbn [flat_map]. rewrite !fold_left_app. apply IH.
  - cbn [flat_map]. rewrite !app_assoc, !(fold_left_app _ _ (flat_map f l)). f_equal.
    destruct (Nat.eq_dec y x) as [->|Hne]; auto.
    apply fold_settle_comm. apply Hd, Hne.
  - rewrite IH1. apply IH2.
Qed.

Lemma snap_st_perm s ks ks' :
  Permutation ks ks' -> forall acc, fold_left (snap_st d s) ks acc = fold_left (snap_st d s) ks' acc.
Proof.
  induction 1 as [|x l l' HP IH|x y l|l l' l'' HP1 IH1 HP2 IH2]; intros acc; auto.
  - cbn [fold_left]. apply IH.
  - cbn [fold_left]. f_equal.
    destruct (Nat.eq_dec y x) as [->|Hne]; auto.
    unfold snap_st. destruct (snap d s y) as [[sy py]|], (snap d s x) as [[sx px]|]; auto.
    apply set_nth_comm, Hne.
  - rewrite IH1. apply IH2.
Qed.

Lemma ref_edge_perm s ks ks' :
  single_writer d -> Permutation ks ks' -> ref_edge d s ks = ref_edge d s ks'.
Proof.
  intros Hsw HP. unfold ref_edge. f_equal.
  - rewrite !fold_left_app. apply settle_flat_perm; auto. intros a b Hab. apply snap_upd_disjoint; auto.
  - apply snap_st_perm, HP.
Qed.

(* ANY interleaving of the active leaves (also across drivers) gives the same edge *)
Lemma edge_any_order s ks' :
  single_writer d -> registered_once d -> Permutation (active d (vals s)) ks' ->
  settleAll (fold_left (clock1 d) ks' s) = settleAll (clock_drivers d s).
Proof.
  intros Hsw Hro HP.
  rewrite edge_ref by (apply active_nodup, Hro).
  assert (Hn : NoDup ks') by (eapply Permutation_NoDup; [exact HP | apply active_nodup, Hro]).
  rewrite (fold_clock1_ref s _ Hn s); auto.
  symmetry. apply (ref_edge_perm s _ _ Hsw HP).
Qed.

End Edge.

(* ------------------------------------------------------------------ re-scheduled designs *)
Section Resched.
Context {St : Type}.

Lemma resched_active_perm ds ds' vs :
  resched ds ds' ->
  Permutation (flat_map (fun drv => if enabled vs drv then d_leaves drv else []) ds)
              (flat_map (fun drv => if enabled vs drv then d_leaves drv else []) ds').
Proof.
  intros (mid & HF & HP).
  apply Permutation_trans with (flat_map (fun drv => if enabled vs drv then d_leaves drv else []) mid).
  - clear HP. induction HF as [|a b la lb [He Hl] HF IH]; cbn [flat_map]; auto.
    apply Permutation_app; auto.
    unfold enabled. rewrite <- He. destruct (match d_enable a with Some w => _ | None => _ end); auto.
  - apply Permutation_flat_map, HP.
Qed.

Lemma resched_all_leaves_perm ds ds' :
  resched ds ds' -> Permutation (flat_map d_leaves ds) (flat_map d_leaves ds').
Proof.
  intros (mid & HF & HP).
  apply Permutation_trans with (flat_map d_leaves mid).
  - clear HP. induction HF as [|a b la lb [He Hl] HF IH]; cbn [flat_map]; auto. apply Permutation_app; auto.
  - apply Permutation_flat_map, HP.
Qed.

Lemma ref_edge_with_drivers (d : design St) ds s ks : ref_edge (with_drivers d ds) s ks = ref_edge d s ks.
Proof. reflexivity. Qed.

Lemma cycle_resched (d : design St) ds' s :
  single_writer d -> registered_once d -> resched (drivers d) ds' ->
  clk_cycle (with_drivers d ds') s = clk_cycle d s.
Proof.
  intros Hsw Hro HR.
  assert (Hro' : registered_once (with_drivers d ds')).
  { unfold registered_once, all_leaves. cbn [drivers with_drivers].
    eapply Permutation_NoDup; [apply resched_all_leaves_perm, HR | exact Hro]. }
  unfold clk_cycle.
  rewrite (edge_ref (with_drivers d ds')) by (apply active_nodup, Hro').
  rewrite (edge_ref d) by (apply active_nodup, Hro).
  rewrite ref_edge_with_drivers.
  rewrite (ref_edge_perm d s (active (with_drivers d ds') (vals s)) (active d (vals s)) Hsw).
  - reflexivity.
  - apply Permutation_sym. apply resched_active_perm, HR.
Qed.

Lemma cycles_resched (d : design St) ds' n s :
  single_writer d -> registered_once d -> resched (drivers d) ds' ->
  cycles (with_drivers d ds') n s = cycles d n s.
Proof.
  intros Hsw Hro HR. revert s; induction n as [|n IH]; intros s; cbn [cycles]; auto.
  rewrite cycle_resched by assumption. apply IH.
Qed.

Lemma clk_resched (d : design St) ds' n s :
  single_writer d -> registered_once d -> resched (drivers d) ds' ->
  clk (with_drivers d ds') n s = clk d n s.
Proof. intros. unfold clk. rewrite cycles_resched by assumption. reflexivity. Qed.

End Resched.

(* ------------------------------------------------------------------ prepared list drained; nothing lost or carried over *)
Section Drained.
Context {St : Type}.
Variable d : design St.

Lemma pend_cycle s : pend (clk_cycle d s) = [].
Proof. reflexivity. Qed.

Lemma pend_cycles n s : pend s = [] -> pend (cycles d n s) = [].
Proof. revert s; induction n as [|n IH]; intros s H; cbn [cycles]; auto. Qed.

Lemma pend_clk n s : pend s = [] \/ (0 < n)%nat -> pend (clk d n s) = [].
Proof.
  unfold clk. intros [H|H].
  - apply pend_cycles. exact H.
  - destruct n as [|n]; [lia|]. cbn [cycles]. apply pend_cycles. reflexivity.
Qed.

(* all updates prepared at the edge become visible together: the value of every wire after the settle is the
   last value prepared for it (pending-before ++ prepared-at-this-edge), or its pre-edge value *)
Lemma settled_value s w :
  (w < length (vals s))%nat ->
  rd (vals (settleAll (clock_drivers d s))) w =
  match last_for w (pend (clock_drivers d s)) with Some x => x | None => rd (vals s) w end.
Proof.
  intros H. cbn [settleAll vals]. rewrite clock_drivers_vals. apply rd_fold_settle, H.
Qed.

Lemma pend_edge s :
  registered_once d -> pend (clock_drivers d s) = pend s ++ flat_map (snap_upd d s) (active d (vals s)).
Proof.
  intros H. rewrite clock_drivers_flat. rewrite (fold_clock1_ref d s _ (active_nodup d _ H) s); auto.
Qed.

Lemma flat_nodup (f : nat -> list (nat * Z)) ks :
  (forall a b, a <> b -> forall w, In w (map fst (f a)) -> ~ In w (map fst (f b))) ->
  (forall k, NoDup (map fst (f k))) -> NoDup ks -> NoDup (map fst (flat_map f ks)).
Proof.
  intros Hd Hk. induction 1 as [|k ks Hni Hn IH]; cbn [flat_map map]; [constructor|].
  rewrite map_app. apply nodup_app_intro; auto.
  intros w Hw E.
  apply in_map_iff in E as ((w', x) & Ew & E). cbn [fst] in Ew; subst w'.
  apply in_flat_map in E as (j & Hj & E).
  apply (Hd k j) with (w := w); auto.
  - intros ->. contradiction.
  - apply in_map_iff. exists (w, x); auto.
Qed.

Lemma snap_upd_nodup s k : outs_nodup d -> NoDup (map fst (snap_upd d s k)).
Proof.
  intros H. unfold snap_upd, snap. destruct (nth_error (seqs d) k) as [l|] eqn:E; [|constructor].
  destruct (nth_error (sts s) k) as [st|]; [|constructor].
  destruct (s_f l st _) as [st' rs]. apply prep_nodup. eapply H, E.
Qed.

(* under the single-driver discipline no wire is prepared twice at an edge ... *)
Lemma pend_edge_nodup s :
  single_writer d -> registered_once d -> outs_nodup d -> pend s = [] ->
  NoDup (map fst (pend (clock_drivers d s))).
Proof.
  intros Hsw Hro Hon Hp. rewrite pend_edge, Hp by exact Hro. cbn [app].
  apply flat_nodup.
  - intros a b Hab. apply snap_upd_disjoint; auto.
  - intros k. apply snap_upd_nodup, Hon.
  - apply active_nodup, Hro.
Qed.

(* ... hence every prepared value is the post-edge value of its wire: none is lost *)
Lemma none_lost s w v :
  single_writer d -> registered_once d -> outs_nodup d -> pend s = [] ->
  (w < length (vals s))%nat ->
  In (w, v) (pend (clock_drivers d s)) -> rd (vals (settleAll (clock_drivers d s))) w = v.
Proof.
  intros Hsw Hro Hon Hp Hw Hin. rewrite settled_value by exact Hw.
  rewrite (last_for_nodup w v); auto. apply pend_edge_nodup; auto.
Qed.

(* and a wire nobody prepared at this edge keeps its value: nothing is carried over from an earlier edge *)
Lemma untouched_kept s w :
  pend s = [] -> registered_once d ->
  ~ In w (map fst (flat_map (snap_upd d s) (active d (vals s)))) ->
  rd (vals (settleAll (clock_drivers d s))) w = rd (vals s) w.
Proof.
  intros Hp Hro H. cbn [settleAll vals]. rewrite clock_drivers_vals, pend_edge, Hp by exact Hro. cbn [app].
  apply rd_fold_settle_notin, H.
Qed.

End Drained.

(* ------------------------------------------------------------------ what each clock() saw *)
Section Seen.
Context {St : Type}.
Variable d : design St.

Lemma clock1_log_fst sl k : fst (clock1_log d sl k) = clock1 d (fst sl) k.
Proof.
  destruct sl as [s log]. cbn [clock1_log fst].
  destruct (nth_error (seqs d) k); [destruct (nth_error (sts s) k)|]; reflexivity.
Qed.

Lemma fold_clock1_log_fst ks sl : fst (fold_left (clock1_log d) ks sl) = fold_left (clock1 d) ks (fst sl).
Proof.
  revert sl; induction ks as [|k ks IH]; intros sl; cbn [fold_left]; auto. rewrite IH, clock1_log_fst. reflexivity.
Qed.

(* erasing the log gives back the kernel's edge *)
Lemma clock_drivers_log_fst s : fst (clock_drivers_log d s) = clock_drivers d s.
Proof.
  unfold clock_drivers_log, clock_drivers.
  change s with (fst (s, @nil (seen (St:=St)))) at 2. generalize (s, @nil (seen (St:=St))). intros sl.
  generalize (drivers d). intros ds. revert sl.
  induction ds as [|drv ds IH]; intros sl; cbn [fold_left]; auto.
  rewrite IH. f_equal. destruct (enabled (vals (fst sl)) drv); auto.
  unfold clockAll. apply fold_clock1_log_fst.
Qed.

(* invariant of the instrumented loop relative to the pre-edge state s0 *)
Definition log_ok (s0 : state St) (visited : list nat) (sl : state St * list (seen (St:=St))) : Prop :=
  vals (fst sl) = vals s0 /\
  (forall k, ~ In k visited -> nth_error (sts (fst sl)) k = nth_error (sts s0) k) /\
  (forall k st ins, In (k, st, ins) (snd sl) ->
      In k visited /\ nth_error (sts s0) k = Some st /\
      exists l, nth_error (seqs d) k = Some l /\ ins = map (rd (vals s0)) (s_in l)).

Lemma clock1_log_ok s0 visited sl k :
  ~ In k visited -> log_ok s0 visited sl -> log_ok s0 (visited ++ [k]) (clock1_log d sl k).
Proof.
  intros Hk (Hv & Hs & Hl). destruct sl as [s log]. cbn [fst snd] in *.
  assert (Hlog : forall k0 st ins, In (k0, st, ins) log ->
            In k0 (visited ++ [k]) /\ nth_error (sts s0) k0 = Some st /\
            exists l, nth_error (seqs d) k0 = Some l /\ ins = map (rd (vals s0)) (s_in l)).
  { intros k0 st ins H. destruct (Hl k0 st ins H) as (A & B & C). split; [apply in_or_app; now left | auto]. }
  assert (Hst : forall j, ~ In j (visited ++ [k]) -> nth_error (sts (clock1 d s k)) j = nth_error (sts s0) j).
  { intros j Hj. rewrite (clock1_snap d s0 s k Hv (Hs k Hk)). cbn [sts].
    rewrite snap_st_other.
    - apply Hs. intros E; apply Hj, in_or_app; now left.
    - intros ->. apply Hj, in_or_app. right; now left. }
  unfold clock1_log.
  destruct (nth_error (seqs d) k) as [l|] eqn:El; [destruct (nth_error (sts s) k) as [st|] eqn:Es|];
    (split; [cbn [fst]; rewrite clock1_vals; exact Hv | split; [exact Hst|]]); cbn [snd]; auto.
  intros k0 st0 ins H. apply in_app_or in H as [H|[H|[]]]; [now apply Hlog|].
  inversion H; subst. split; [apply in_or_app; right; now left|].
  split; [rewrite <- (Hs k0 Hk); exact Es|]. exists l. split; auto. now rewrite Hv.
Qed.

Lemma fold_clock1_log_ok s0 ks : NoDup ks -> forall visited sl,
  (forall k, In k ks -> ~ In k visited) -> log_ok s0 visited sl ->
  log_ok s0 (visited ++ ks) (fold_left (clock1_log d) ks sl).
Proof.
  induction 1 as [|k ks Hni Hn IH]; intros visited sl Hdis Hok; cbn [fold_left].
  - now rewrite app_nil_r.
  - replace (visited ++ k :: ks) with ((visited ++ [k]) ++ ks) by (rewrite <- app_assoc; reflexivity).
    apply IH.
    + intros j Hj E. apply in_app_or in E as [E|[E|[]]].
      * apply (Hdis j); [now right | exact E].
      * subst. contradiction.
    + apply clock1_log_ok; auto. apply Hdis. now left.
Qed.

Lemma clock_drivers_log_ok s :
  registered_once d ->
  forall k st ins, In (k, st, ins) (snd (clock_drivers_log d s)) ->
    nth_error (sts s) k = Some st /\
    exists l, nth_error (seqs d) k = Some l /\ ins = map (rd (vals s)) (s_in l).
Proof.
  intros Hro.
  assert (G : forall ds visited sl, NoDup (flat_map d_leaves ds) ->
            (forall k, In k (flat_map d_leaves ds) -> ~ In k visited) -> log_ok s visited sl ->
            exists visited', log_ok s visited'
              (fold_left (fun sl drv => if enabled (vals (fst sl)) drv then fold_left (clock1_log d) (d_leaves drv) sl else sl) ds sl)).
  { induction ds as [|drv ds IH]; intros visited sl Hn Hdis Hok; cbn [fold_left].
    - exists visited; exact Hok.
    - cbn [flat_map] in Hn, Hdis. apply nodup_app_inv in Hn as (Ha & Hb & Hd).
      destruct (enabled (vals (fst sl)) drv).
      + apply (IH (visited ++ d_leaves drv)); auto.
        * intros k Hk E. apply in_app_or in E as [E|E].
          -- apply (Hdis k); [apply in_or_app; now right | exact E].
          -- exact (Hd k E Hk).
        * apply fold_clock1_log_ok; auto. intros k Hk. apply Hdis, in_or_app. now left.
      + apply (IH visited); auto. intros k Hk. apply Hdis, in_or_app. now right. }
  destruct (G (drivers d) [] (s, []) Hro) as (visited' & Hv & Hs & Hl).
  - intros k _ [].
  - split; [reflexivity | split; [reflexivity | intros k st ins []]].
  - intros k st ins H. destruct (Hl k st ins H) as (_ & A & B). split; auto.
Qed.

End Seen.
