(* C14: characterisations of the generated primitives the fixed-point blocks are made of.
   Each lemma sits next to the unfolding of the generated definition; nothing else in Proofs/C14
   depends on the shape of the generated code. *)
From V Require Import Base.Bits Gen.WireOps Gen.Helpers Gen.Prims.

Lemma Wire_put_trunc w v : Wire_put w v = trunc w v.
Proof. reflexivity. Qed.

(* ---- shape-tolerant normalisation of the translated code.
   masks:  x & ((1<<w)-1),  x % (1<<w),  Wire_put w x   ->  trunc w x   (nested same-width truncations collapse);
   bits:   (v >> k) & 1,  (v >> k) % 2,  (v // 2**k) % 2,  (v // (1<<k)) % 2   ->  bitZ v k;
   locals: cbv zeta.  The lemmas below state WHAT each leaf computes and are proved through these tactics, so renamed or
   introduced locals, `%` instead of `&`, a missing or doubled mask, and commuted arithmetic do not break them. *)
Lemma mod_shiftl_trunc x w : 0 <= w -> x mod Z.shiftl 1 w = trunc w x.
Proof. intros; rewrite Z.shiftl_1_l, trunc_mod by lia; reflexivity. Qed.
Lemma mod_pow_trunc x w : 0 <= w -> x mod 2 ^ w = trunc w x.
Proof. intros; rewrite trunc_mod by lia; reflexivity. Qed.

Ltac norm_masks :=
  unfold Wire_put, py_shl, py_shr in *; cbv zeta;
  repeat match goal with |- context [Z.land ?x (Z.shiftl 1 ?w - 1)] => change (Z.land x (Z.shiftl 1 w - 1)) with (trunc w x) end;
  rewrite ?mod_shiftl_trunc, ?mod_pow_trunc by lia;
  rewrite ?trunc_idem by lia.

Lemma bit_shr_mod2 v k : 0 <= k -> Z.shiftr v k mod 2 = bitZ v k.
Proof. intros. unfold bitZ. change 1 with (Z.ones 1). rewrite Z.land_ones by lia. reflexivity. Qed.
Lemma bit_div_mod2 v k : 0 <= k -> (v / 2 ^ k) mod 2 = bitZ v k.
Proof. intros. rewrite <- shiftr_div by lia. apply bit_shr_mod2; lia. Qed.
Lemma bit_divshl_mod2 v k : 0 <= k -> (v / Z.shiftl 1 k) mod 2 = bitZ v k.
Proof. intros. rewrite Z.shiftl_1_l. apply bit_div_mod2; lia. Qed.
Lemma trunc1_bit v k : 0 <= k -> trunc 1 (bitZ v k) = bitZ v k.
Proof. intros. apply trunc_small; [lia|]. pose proof (bitZ_range v k ltac:(lia)). change (2 ^ 1) with 2. lia. Qed.

Ltac norm_bits :=
  unfold py_shl, py_shr in *;
  repeat match goal with |- context [Z.land (Z.shiftr ?v ?k) 1] => change (Z.land (Z.shiftr v k) 1) with (bitZ v k) end;
  rewrite ?bit_shr_mod2, ?bit_div_mod2, ?bit_divshl_mod2 by lia;
  rewrite ?trunc1_bit by lia.

Ltac finish_arith := first [ reflexivity | f_equal; ring | f_equal; lia ].

Lemma Constant_char w c : 0 <= w -> Constant_propagate w c = trunc w c.
Proof. intros Hw. unfold Constant_propagate. norm_masks. finish_arith. Qed.

Lemma Sub_char w a b : 0 <= w -> Sub_propagate w a b = trunc w (a - b).
Proof. intros Hw. unfold Sub_propagate. norm_masks. finish_arith. Qed.

Lemma Mul_char w a b : 0 <= w -> Mul_propagate w a b = trunc w (a * b).
Proof. intros Hw. unfold Mul_propagate. norm_masks. finish_arith. Qed.

Lemma Bit_char k a : 0 <= k -> Bit_propagate 1 k a = bitZ a k.
Proof. intros Hk. unfold Bit_propagate. norm_masks. norm_bits. finish_arith. Qed.

Lemma Buf_char w a : 0 <= w -> Buf_propagate w a = trunc w a.
Proof. intros Hw. unfold Buf_propagate. norm_masks. finish_arith. Qed.

(* Not / And2 on one-bit wires: by evaluation on the four bit patterns (any formulation of ~ and & computes the same) *)
Lemma Not_bit b : 0 <= b <= 1 -> Not_propagate 1 b = 1 - b.
Proof. intros Hb. assert (Hc : b = 0 \/ b = 1) by lia. destruct Hc as [-> | ->]; vm_compute; reflexivity. Qed.

Lemma And2_bit x y : 0 <= x <= 1 -> 0 <= y <= 1 -> And2_propagate 1 x y = x * y.
Proof.
  intros Hx Hy. assert (Hc : x = 0 \/ x = 1) by lia. assert (Hd : y = 0 \/ y = 1) by lia.
  destruct Hc as [-> | ->], Hd as [-> | ->]; vm_compute; reflexivity.
Qed.

(* what FixedPointMult needs from Range: high = low + wr asks for wr+1 bits, the wr-bit wire keeps wr of them.
   Proved from the unfolding so that it only depends on the mask being at least wr bits wide. *)
Lemma Range_window wr low a : 0 <= wr -> 0 <= low ->
  Range_propagate wr (low + wr) low a = trunc wr (a / 2 ^ low).
Proof.
  intros Hw Hl. unfold Range_propagate. norm_masks. rewrite ?shiftr_div by lia.
  (* trunc wr (trunc k (a / 2^low)) with k = high-low+1 (or any k >= wr), or no inner mask at all *)
  rewrite ?trunc_trunc_le by lia. finish_arith.
Qed.

(* ---- lists of bits *)
Lemma in_seqZ a b i : In i (seqZ a b) <-> a <= i < b.
Proof.
  unfold seqZ. rewrite in_map_iff. split.
  - intros [k [<- Hk]]. apply in_seq in Hk. lia.
  - intros Hi. exists (Z.to_nat (i - a)). split; [lia|]. apply in_seq. lia.
Qed.

Lemma seqZ_nil a b : b <= a -> seqZ a b = [].
Proof. intros H. unfold seqZ. replace (Z.to_nat (b - a)) with 0%nat by lia. reflexivity. Qed.

Lemma seqZ_snoc a b : a <= b -> seqZ a (b + 1) = seqZ a b ++ [b].
Proof.
  intros H. unfold seqZ. replace (Z.to_nat (b + 1 - a)) with (S (Z.to_nat (b - a))) by lia.
  rewrite seq_S, map_app. cbn [map]. do 2 f_equal. lia.
Qed.

Lemma nth_repeat1 n k : (k < n)%nat -> nth k (repeat 1 n) 0 = 1.
Proof. revert k; induction n as [|n IH]; intros [|k] H; cbn [repeat nth]; try lia; auto. apply IH; lia. Qed.

(* BitsLSBF into w one-bit wires: the list of the w low bits, least significant first *)
Lemma BitsLSBF_char w a : 0 <= w ->
  BitsLSBF_propagate w (repeat 1 (Z.to_nat w)) a = map (fun i => bitZ a i) (seqZ 0 w).
Proof.
  intros Hw. unfold BitsLSBF_propagate. cbv zeta. apply map_ext_in. intros i Hi. apply in_seqZ in Hi. cbv beta.
  unfold getZ. rewrite nth_repeat1 by lia. norm_masks. norm_bits. finish_arith.
Qed.

(* the OR-accumulation may start from the value itself or from 0 and be merged afterwards: both are v | E *)
Lemma fold_lor_acc (g : Z -> Z) (l : list Z) acc :
  fold_left (fun a i => Z.lor a (g i)) l acc = Z.lor acc (fold_left (fun a i => Z.lor a (g i)) l 0).
Proof.
  revert acc. induction l as [|x l IH]; intros acc; cbn [fold_left]; [rewrite Z.lor_0_r; reflexivity|].
  rewrite IH, (IH (Z.lor 0 (g x))). rewrite Z.lor_0_l, Z.lor_assoc. reflexivity.
Qed.

(* ORing a bit hb into positions wa .. k-1 *)
Lemma fill_loop hb wa (n : nat) : 0 <= hb <= 1 -> 0 <= wa ->
  fold_left (fun v i => Z.lor v (Z.shiftl hb i)) (seqZ wa (wa + Z.of_nat n)) 0 = hb * (2 ^ (wa + Z.of_nat n) - 2 ^ wa).
Proof.
  intros Hhb Hwa. induction n as [|n IH].
  - rewrite seqZ_nil by lia. cbn [fold_left]. replace (wa + Z.of_nat 0) with wa by lia. lia.
  - replace (wa + Z.of_nat (S n)) with (wa + Z.of_nat n + 1) by lia.
    rewrite seqZ_snoc by lia. rewrite fold_left_app, IH. cbn [fold_left].
    set (k := wa + Z.of_nat n).
    assert (Hk : 2 ^ wa <= 2 ^ k) by (apply pow2_le; lia).
    pose proof (pow2_pos wa Hwa).
    rewrite Z.lor_comm, lor_add_disjoint by nia.
    rewrite Z.pow_add_r by lia. change (2 ^ 1) with 2. lia.
Qed.

(* SignExtend: the loop ORs the top bit of a into positions wa .. wr-1.  Accepted shapes: accumulator starting at the value
   or at 0 and merged with `|` afterwards in either order; top bit as `a >> (wa-1)` with or without `& 1` / `% 2`. *)
Lemma SignExtend_char wa wr a : 0 < wa <= wr -> 0 <= a < 2 ^ wa ->
  SignExtend_propagate wa wr a = trunc wr (sgn wa a).
Proof.
  intros Hw Ha. unfold SignExtend_propagate. norm_masks. norm_bits.
  assert (Hpw : 2 ^ wa = 2 * 2 ^ (wa - 1)).
  { replace wa with (1 + (wa - 1)) at 1 by lia. rewrite Z.pow_add_r by lia. reflexivity. }
  pose proof (pow2_pos (wa - 1) ltac:(lia)) as Hp1.
  assert (Hshr : Z.shiftr a (wa - 1) = if a <? 2 ^ (wa - 1) then 0 else 1).
  { rewrite shiftr_div by lia. destruct (Z.ltb_spec a (2 ^ (wa - 1))).
    - apply Z.div_small; lia.
    - symmetry. apply Z.div_unique with (a - 2 ^ (wa - 1)); lia. }
  assert (Hbit : bitZ a (wa - 1) = Z.shiftr a (wa - 1)).
  { rewrite bitZ_b2z, testbit_high, Hshr by lia.
    destruct (Z.leb_spec (2 ^ (wa - 1)) a), (Z.ltb_spec a (2 ^ (wa - 1))); cbn [b2z]; lia. }
  rewrite ?Hbit.
  set (hb := Z.shiftr a (wa - 1)) in *.
  assert (Hhb : 0 <= hb <= 1) by (rewrite Hshr; destruct (a <? 2 ^ (wa - 1)); lia).
  (* bring the accumulation to  a | (fold from 0) *)
  try rewrite (fold_lor_acc (fun i => Z.shiftl hb i) _ a).
  try match goal with |- context [Z.lor (fold_left ?f ?l 0) a] => rewrite (Z.lor_comm (fold_left f l 0) a) end.
  replace (seqZ wa wr) with (seqZ wa (wa + Z.of_nat (Z.to_nat (wr - wa)))) by (f_equal; lia).
  rewrite (fill_loop hb wa) by lia. replace (wa + Z.of_nat (Z.to_nat (wr - wa))) with wr by lia.
  (* a | hb*(2^wr - 2^wa): disjoint bits, so it is a sum *)
  assert (Hsplit : 2 ^ wr = 2 ^ (wr - wa) * 2 ^ wa) by (rewrite <- Z.pow_add_r by lia; f_equal; lia).
  pose proof (pow2_pos (wr - wa) ltac:(lia)) as Hp2.
  replace (hb * (2 ^ wr - 2 ^ wa)) with (Z.shiftl (hb * (2 ^ (wr - wa) - 1)) wa)
    by (rewrite Z.shiftl_mul_pow2 by lia; rewrite Hsplit; ring).
  rewrite Z.lor_comm, lor_add_disjoint by lia.
  unfold sgn. subst hb. rewrite Hshr. destruct (Z.ltb_spec a (2 ^ (wa - 1))).
  - f_equal; lia.
  - replace (1 * (2 ^ (wr - wa) - 1) * 2 ^ wa + a) with (a - 2 ^ wa + 1 * 2 ^ wr) by (rewrite Hsplit; ring).
    apply trunc_add_pow; lia.
Qed.

(* the helper function signExtend(v, w, nw) of helper.py.
   The proof does not follow the generated if-structure: it normalises the masks (`&((1<<w)-1)` or `%(1<<w)`) to trunc,
   rewrites the sign-bit expression to b2z (2^(w-1) <=? v), splits on THAT comparison, evaluates whatever closed tests
   (`1 =? 1`, `0 =? 0`, `1 =? 0`, ...) the translated code makes on it, and simplifies `x | (0 << w)`.  So it survives
   renamed / introduced locals, swapped branches, early returns and a fill pattern computed on one path only. *)
Ltac eval_closed_tests :=
  repeat match goal with
  | |- context [if ?c then _ else _] =>
      let c' := eval vm_compute in c in
      match c' with true => idtac | false => idtac end; progress change c with c'; cbv iota
  end.

Lemma signExtend_char w nw v : 0 < w <= nw -> 0 <= v < 2 ^ w ->
  signExtend v w nw = trunc nw (sgn w v) /\ 0 <= signExtend v w nw < 2 ^ nw.
Proof.
  intros Hw Hv. unfold signExtend. norm_masks. rewrite !(trunc_small w v) by lia.
  repeat match goal with |- context [Z.land (Z.shiftr v (w - 1)) 1] => change (Z.land (Z.shiftr v (w - 1)) 1) with (bitZ v (w - 1)) end.
  rewrite ?bitZ_b2z, ?testbit_high by lia.
  assert (Hpw : 2 ^ w = 2 * 2 ^ (w - 1)).
  { replace w with (1 + (w - 1)) at 1 by lia. rewrite Z.pow_add_r by lia. reflexivity. }
  pose proof (pow2_pos (w - 1) ltac:(lia)) as Hp1.
  pose proof (pow2_le w nw ltac:(lia)) as Hle.
  assert (Hnw : 2 ^ nw = 2 ^ (nw - w) * 2 ^ w).
  { rewrite <- Z.pow_add_r by lia. f_equal; lia. }
  pose proof (pow2_pos (nw - w) ltac:(lia)) as Hp2.
  assert (Hsg : sgn w v = if 2 ^ (w - 1) <=? v then v - 2 ^ w else v).
  { unfold sgn. destruct (Z.leb_spec (2 ^ (w - 1)) v), (Z.ltb_spec v (2 ^ (w - 1))); lia. }
  rewrite Hsg. clear Hsg.
  destruct (Z.leb_spec (2 ^ (w - 1)) v) as [Hge | Hlt]; cbn [b2z]; eval_closed_tests;
    rewrite ?Z.shiftl_0_l, ?Z.lor_0_r, ?Z.lor_0_l, ?Z.shiftl_1_l.
  - (* negative: v | (((1 << (nw-w)) - 1) << w), in either operand order *)
    first [ rewrite lor_add_disjoint by lia | rewrite Z.lor_comm, lor_add_disjoint by lia ].
    replace (v - 2 ^ w) with (v - 2 ^ w + 2 ^ nw + (-1) * 2 ^ nw) by lia.
    rewrite trunc_add_pow by lia. rewrite trunc_small by nia. nia.
  - rewrite trunc_small by lia. lia.
Qed.
