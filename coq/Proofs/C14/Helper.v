(* C14: the software reference helper.FixedPoint agrees with the blocks; the integer specification of the
   product is the floor of the rational product; witnesses outside the guards. *)
From V Require Import Base.Bits Gen.WireOps Gen.Helpers Gen.Prims Model.Fxp Model.FxpHelper Spec.C14 Spec.C14Q
  Proofs.C14.Prims Proofs.C14.Blocks.
From Coq Require Import QArith Qround.
Open Scope Z_scope.

Lemma fxh_ok F : 0 <= fint F -> fxh_new_ok F = true.
Proof. intros H. unfold fxh_new_ok. destruct (Z.ltb_spec (fint F) 0); [lia | reflexivity]. Qed.

Lemma fxh_raises F a b : fint F < 0 -> fxh_add F a b = None /\ fxh_sub F a b = None /\ fxh_mult F a b = None.
Proof.
  intros H. unfold fxh_add, fxh_sub, fxh_mult, fxh_new_ok.
  destruct (Z.ltb_spec (fint F) 0); [cbn [negb]; auto | lia].
Qed.

Lemma fxh_add_agrees F a b : wf F -> fxh_add F a b = fxadd F F F a b.
Proof.
  intros HF. destruct (wf_width F HF) as [Hw _]. pose proof HF as [_ [Hi _]]. unfold fxh_add, fxadd.
  rewrite fxh_ok, fmt_eqb_refl by lia. cbn [andb]. cbv zeta. f_equal.
  rewrite add_block_char by lia. reflexivity.
Qed.

Lemma fxh_sub_agrees F a b : wf F -> fxh_sub F a b = fxsub F F F a b.
Proof.
  intros HF. destruct (wf_width F HF) as [Hw _]. pose proof HF as [_ [Hi _]]. unfold fxh_sub, fxsub.
  rewrite fxh_ok, fmt_eqb_refl by lia. cbn [andb]. cbv zeta. f_equal.
  rewrite Sub_char by lia. reflexivity.
Qed.

Lemma fxh_mult_spec F a b : wf F -> enc F a -> enc F b ->
  fxh_mult F a b = Some (spec_mul (fwidth F) (ffrac F) (fwidth F) (ffrac F) (fwidth F) (ffrac F) a b).
Proof.
  intros HF Ea Eb. destruct (wf_width F HF) as [Hw Hif]. unfold enc in *.
  destruct HF as [Hs [Hi Hf]].
  unfold fxh_mult. rewrite fxh_ok by lia. cbv zeta. f_equal.
  change (fsign F + fint F + ffrac F) with (fwidth F). set (w := fwidth F) in *.
  destruct (signExtend_char w (w * 2) a ltac:(lia) Ea) as [-> _].
  destruct (signExtend_char w (w * 2) b ltac:(lia) Eb) as [-> _].
  change (Z.land ?x (py_shl 1 w - 1)) with (trunc w x). unfold py_shr. rewrite shiftr_div by lia.
  rewrite trunc_mod by lia.
  rewrite <- (window_div (trunc (w * 2) (sgn w a) * trunc (w * 2) (sgn w b)) (w * 2)) by lia.
  assert (Hm : (trunc (w * 2) (sgn w a) * trunc (w * 2) (sgn w b)) mod 2 ^ (w * 2) = (sgn w a * sgn w b) mod 2 ^ (w * 2)).
  { rewrite <- !trunc_mod by lia. rewrite trunc_mul_l, trunc_mul_r by lia. reflexivity. }
  rewrite Hm. rewrite window_div by lia. unfold spec_mul, fxint. do 3 f_equal. lia.
Qed.

Lemma fxh_mult_agrees F a b : wf F -> enc F a -> enc F b ->
  fxh_mult F a b = fxmul F F F a b.
Proof.
  intros HF Ea Eb. destruct (wf_width F HF) as [Hw Hif]. pose proof HF as [_ [Hi Hf]].
  rewrite fxh_mult_spec by assumption. symmetry. apply fxmul_spec; try assumption; unfold mul_low; lia.
Qed.

Lemma fxh_mult_agrees_fixed F a b : wf F -> enc F a -> enc F b ->
  fxh_mult F a b = fxmul_fixed F F F a b.
Proof.
  intros HF Ea Eb. destruct (wf_width F HF) as [Hw Hif]. pose proof HF as [_ [Hi Hf]].
  rewrite fxmul_fixed_same by (unfold mul_low; lia). apply fxh_mult_agrees; assumption.
Qed.

(* ---- the integer spec of the product is the floor of the rational product *)
Lemma spec_mul_rational wa fa wb fb wr fr a b : 0 <= fa -> 0 <= fb -> 0 <= fr -> 0 <= fa + fb - fr ->
  spec_mul_Q wa fa wb fb wr fr a b = spec_mul wa fa wb fb wr fr a b.
Proof.
  intros Ha Hb Hr Hl. unfold spec_mul_Q, spec_mul, fxQ. f_equal.
  unfold Qmult, inject_Z, Qfloor. cbn [Qnum Qden].
  rewrite !Pos2Z.inj_mul. rewrite !Z2Pos.id by (apply pow2_pos; lia).
  rewrite Z.mul_1_r.
  assert (Hp : 2 ^ fa * 2 ^ fb = 2 ^ (fa + fb - fr) * 2 ^ fr).
  { rewrite <- !Z.pow_add_r by lia. f_equal; lia. }
  rewrite Hp. pose proof (pow2_pos fr Hr). pose proof (pow2_pos (fa + fb - fr) Hl).
  apply Z.div_mul_cancel_r; lia.
Qed.

(* ---- outside the guards *)
(* comparator: difference not representable ( -2.0 vs +0.5 in format (1,1,1) ): reports gt *)
Lemma fxcmp_refuted : exists F a b, wf F /\ enc F a /\ enc F b /\ ~ diff_representable (fwidth F) a b /\
  fxcmp F F a b = Some (1, 0, 0) /\ spec_cmp (fwidth F) a b = (0, 0, 1).
Proof.
  exists (1, 1, 1), 4, 1. unfold wf, enc, diff_representable. cbn [fsign fint ffrac fwidth].
  repeat split; try lia; try (vm_compute; congruence).
  vm_compute. intros [H1 H2]. apply H1. reflexivity.
Qed.

(* mult: result window reaches above the double-width product (low + wr > wa + wb): the missing bits are
   zero-filled, not sign-filled.  -0.5 * 0.5 into an integer format (1,4,0): floor(-0.25) = -1 = 31, block says 3 *)
Lemma fxmul_wide_window_refuted : exists af bf rf a b, wf af /\ wf bf /\ wf rf /\ enc af a /\ enc bf b /\
  0 <= mul_low af bf rf /\ fwidth af + fwidth bf < mul_low af bf rf + fwidth rf /\
  fxmul af bf rf a b = Some 3 /\
  spec_mul (fwidth af) (ffrac af) (fwidth bf) (ffrac bf) (fwidth rf) (ffrac rf) a b = 31.
Proof.
  exists (1, 0, 1), (1, 0, 1), (1, 4, 0), 3, 1. unfold wf, enc, mul_low. cbn [fsign fint ffrac fwidth].
  repeat split; try lia; vm_compute; reflexivity.
Qed.

(* most negative times most negative, the one product that needs bit 2w-2:  (-4.0)*(-4.0) = 16.0 in (1,2,2) <- (1,2,2)x(1,2,2) wraps to 0,
   and is exact in the wider (1,5,2) *)
Lemma mostneg_examples :
  fxmul (1, 2, 2) (1, 2, 2) (1, 2, 2) 16 16 = Some 0 /\
  fxmul (1, 2, 2) (1, 2, 2) (1, 5, 2) 16 16 = Some 64 /\
  fxmul (1, 2, 2) (1, 2, 2) (1, 5, 4) 16 16 = Some 256.
Proof. vm_compute. auto. Qed.

(* the repaired wiring on the witness of C14-F1 and on a "full precision" accumulator format *)
Lemma fixed_examples :
  fxmul_fixed (1, 0, 1) (1, 0, 1) (1, 4, 0) 3 1 = Some 31 /\
  fxmul_fixed (1, 1, 2) (1, 1, 2) (1, 4, 4) 15 1 = Some 511 /\
  fxmul_fixed (1, 2, 2) (1, 2, 2) (1, 5, 4) 16 16 = Some 256.
Proof. vm_compute. auto. Qed.
