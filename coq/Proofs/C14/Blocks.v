(* C14: the fixed-point block models against the exact specification. *)
From V Require Import Base.Bits Gen.WireOps Gen.Helpers Gen.Prims Model.Fxp Spec.C14 Proofs.C14.Prims.

(* a signed format: exactly one sign bit, non-negative integer / fraction sizes *)
Definition wf (F : fmt) : Prop := fsign F = 1 /\ 0 <= fint F /\ 0 <= ffrac F.
Definition enc (F : fmt) (v : Z) : Prop := 0 <= v < 2 ^ fwidth F.

Lemma wf_width F : wf F -> 0 < fwidth F /\ fint F + ffrac F = fwidth F - 1.
Proof. destruct F as [[s i] f]. unfold wf, fwidth; cbn [fsign fint ffrac]. lia. Qed.

Lemma fmt_eqb_refl F : fmt_eqb F F = true.
Proof. unfold fmt_eqb. rewrite !Z.eqb_refl. reflexivity. Qed.

Lemma fmt_eqb_eq F G : fmt_eqb F G = true <-> F = G.
Proof.
  destruct F as [[s i] f], G as [[s' i'] f']. unfold fmt_eqb; cbn [fsign fint ffrac]. split.
  - intros H. apply andb_prop in H as [H H3]. apply andb_prop in H as [H1 H2].
    apply Z.eqb_eq in H1, H2, H3. congruence.
  - intros [= -> -> ->]. rewrite !Z.eqb_refl. reflexivity.
Qed.

(* ---- two's complement reading is a congruence mod 2^w *)
Lemma sgn_shift w v : exists k, sgn w v = v + k * 2 ^ w.
Proof. unfold sgn. destruct (v <? 2 ^ (w - 1)); [exists 0 | exists (-1)]; lia. Qed.

Lemma trunc_sgn_add w a b : 0 <= w -> trunc w (sgn w a + sgn w b) = trunc w (a + b).
Proof.
  intros Hw. destruct (sgn_shift w a) as [ka ->], (sgn_shift w b) as [kb ->].
  replace (a + ka * 2 ^ w + (b + kb * 2 ^ w)) with (a + b + (ka + kb) * 2 ^ w) by lia.
  apply trunc_add_pow; lia.
Qed.

Lemma trunc_sgn_sub w a b : 0 <= w -> trunc w (sgn w a - sgn w b) = trunc w (a - b).
Proof.
  intros Hw. destruct (sgn_shift w a) as [ka ->], (sgn_shift w b) as [kb ->].
  replace (a + ka * 2 ^ w - (b + kb * 2 ^ w)) with (a - b + (ka - kb) * 2 ^ w) by lia.
  apply trunc_add_pow; lia.
Qed.

(* ---- add / sub *)
Lemma add_block_char w a b : 0 <= w -> add_block w a b = trunc w (a + b).
Proof.
  (* unfolds the generated AddCarryIn / Constant here: the carry-in wire is the constant 0 *)
  intros Hw. unfold add_block, AddCarryIn_propagate, Constant_propagate. norm_masks.
  try change (trunc 1 0) with 0. finish_arith.
Qed.

Lemma fxadd_spec F a b : wf F -> fxadd F F F a b = Some (spec_add (fwidth F) a b).
Proof.
  intros HF. destruct (wf_width F HF) as [Hw _]. unfold fxadd. rewrite fmt_eqb_refl. cbn [andb].
  f_equal. rewrite add_block_char by lia. unfold spec_add, fxint.
  rewrite <- trunc_mod by lia. symmetry. apply trunc_sgn_add; lia.
Qed.

Lemma fxsub_spec F a b : wf F -> fxsub F F F a b = Some (spec_sub (fwidth F) a b).
Proof.
  intros HF. destruct (wf_width F HF) as [Hw _]. unfold fxsub. rewrite fmt_eqb_refl. cbn [andb].
  f_equal. rewrite Sub_char by lia. unfold spec_sub, fxint.
  rewrite <- trunc_mod by lia. symmetry. apply trunc_sgn_sub; lia.
Qed.

(* the constructors reject mixed formats (AssertionError) *)
Lemma fxadd_mixed af bf rf a b : ~ (af = bf /\ af = rf) -> fxadd af bf rf a b = None.
Proof.
  intros H. unfold fxadd. destruct (fmt_eqb af bf) eqn:E1; [|reflexivity].
  destruct (fmt_eqb af rf) eqn:E2; [|reflexivity]. apply fmt_eqb_eq in E1, E2. tauto.
Qed.
Lemma fxsub_mixed af bf rf a b : ~ (af = bf /\ af = rf) -> fxsub af bf rf a b = None.
Proof.
  intros H. unfold fxsub. destruct (fmt_eqb af bf) eqn:E1; [|reflexivity].
  destruct (fmt_eqb af rf) eqn:E2; [|reflexivity]. apply fmt_eqb_eq in E1, E2. tauto.
Qed.

(* no overflow: the decoded result IS the exact sum / difference *)
Lemma sgn_trunc_small w x : 0 < w -> - 2 ^ (w - 1) <= x < 2 ^ (w - 1) -> sgn w (trunc w x) = x.
Proof.
  intros Hw Hx.
  assert (Hpw : 2 ^ w = 2 * 2 ^ (w - 1)).
  { replace w with (1 + (w - 1)) at 1 by lia. rewrite Z.pow_add_r by lia. reflexivity. }
  pose proof (pow2_pos (w - 1) ltac:(lia)) as Hp1.
  destruct (Z.lt_ge_cases x 0) as [Hneg | Hpos].
  - replace x with (x + 2 ^ w + (-1) * 2 ^ w) at 1 by lia. rewrite trunc_add_pow by lia.
    rewrite trunc_small by lia. unfold sgn. destruct (Z.ltb_spec (x + 2 ^ w) (2 ^ (w - 1))); lia.
  - rewrite trunc_small by lia. unfold sgn. destruct (Z.ltb_spec x (2 ^ (w - 1))); lia.
Qed.

Lemma spec_add_exact w a b : 0 < w ->
  - 2 ^ (w - 1) <= fxint w a + fxint w b < 2 ^ (w - 1) ->
  fxint w (spec_add w a b) = fxint w a + fxint w b.
Proof. intros Hw H. unfold spec_add. rewrite <- trunc_mod by lia. apply sgn_trunc_small; assumption. Qed.

Lemma spec_sub_exact w a b : 0 < w ->
  - 2 ^ (w - 1) <= fxint w a - fxint w b < 2 ^ (w - 1) ->
  fxint w (spec_sub w a b) = fxint w a - fxint w b.
Proof. intros Hw H. unfold spec_sub. rewrite <- trunc_mod by lia. apply sgn_trunc_small; assumption. Qed.

(* ---- sign *)
Lemma fxsign_spec F a : wf F -> enc F a -> fxsign F a = Some (spec_sign (fwidth F) a).
Proof.
  intros HF Ha. destruct (wf_width F HF) as [Hw Hif]. destruct HF as [Hs [Hi Hf]]. unfold enc in Ha.
  unfold fxsign. rewrite Hs. cbn [Z.eqb Pos.eqb]. f_equal.
  rewrite Bit_char by lia. rewrite Hif, bitZ_b2z, testbit_high by lia.
  unfold spec_sign, fxint, sgn.
  pose proof (pow2_pos (fwidth F - 1) ltac:(lia)).
  assert (Hpw : 2 ^ fwidth F = 2 * 2 ^ (fwidth F - 1)).
  { replace (fwidth F) with (1 + (fwidth F - 1)) at 1 by lia. rewrite Z.pow_add_r by lia. reflexivity. }
  destruct (Z.leb_spec (2 ^ (fwidth F - 1)) a), (Z.ltb_spec a (2 ^ (fwidth F - 1))); try lia; cbn [b2z].
  - destruct (Z.ltb_spec (a - 2 ^ fwidth F) 0); lia.
  - destruct (Z.ltb_spec a 0); lia.
Qed.

Lemma fxsign_is_bit F a : wf F -> fxsign F a = Some (bitZ a (fint F + ffrac F)).
Proof.
  intros HF. destruct (wf_width F HF) as [Hw Hif]. destruct HF as [Hs [Hi Hf]].
  unfold fxsign. rewrite Hs. cbn [Z.eqb Pos.eqb]. f_equal. apply Bit_char; lia.
Qed.

Lemma fxsign_both F a : wf F -> enc F a ->
  fxsign F a = Some (bitZ a (fint F + ffrac F)) /\ fxsign F a = Some (spec_sign (fwidth F) a).
Proof. intros HF Ha. exact (conj (fxsign_is_bit F a HF) (fxsign_spec F a HF Ha)). Qed.

(* ---- mult *)
Lemma window_div x ww low wr : 0 <= low -> 0 <= wr -> low + wr <= ww ->
  ((x mod 2 ^ ww) / 2 ^ low) mod 2 ^ wr = (x / 2 ^ low) mod 2 ^ wr.
Proof.
  intros Hl Hr Hw.
  assert (Hpw : 2 ^ ww = 2 ^ (ww - low - wr) * 2 ^ wr * 2 ^ low).
  { rewrite <- !Z.pow_add_r by lia. f_equal; lia. }
  pose proof (pow2_pos low Hl) as Hp1. pose proof (pow2_pos wr Hr) as Hp2.
  rewrite (Z.mod_eq x (2 ^ ww)) by lia.
  replace (x - 2 ^ ww * (x / 2 ^ ww)) with (x + (- (x / 2 ^ ww) * 2 ^ (ww - low - wr) * 2 ^ wr) * 2 ^ low).
  2:{ rewrite Hpw at 2. ring. }
  rewrite Z.div_add by lia. apply Z.mod_add; lia.
Qed.

Definition mul_low (af bf rf : fmt) : Z := ffrac af + ffrac bf - ffrac rf.

Lemma fxmul_spec af bf rf a b : wf af -> wf bf -> wf rf -> enc af a -> enc bf b ->
  0 <= mul_low af bf rf -> mul_low af bf rf + fwidth rf <= fwidth af + fwidth bf ->
  fxmul af bf rf a b = Some (spec_mul (fwidth af) (ffrac af) (fwidth bf) (ffrac bf) (fwidth rf) (ffrac rf) a b).
Proof.
  intros Ha Hb Hr Ea Eb Hlow Hwin. unfold mul_low in *. unfold enc in *.
  destruct (wf_width _ Ha) as [Hwa _], (wf_width _ Hb) as [Hwb _], (wf_width _ Hr) as [Hwr _].
  unfold fxmul, fxmul_v, mul_pw, fxmul_w. cbv zeta iota. destruct (Z.ltb_spec (ffrac af + ffrac bf - ffrac rf) 0) as [Hc|_]; [lia|]. f_equal.
  set (low := ffrac af + ffrac bf - ffrac rf) in *.
  rewrite Range_window by lia. rewrite !SignExtend_char by lia. rewrite Mul_char by lia.
  rewrite trunc_mul_l, trunc_mul_r by lia. rewrite !trunc_mod by lia.
  unfold spec_mul, fxint. apply window_div; lia.
Qed.

(* no guard on the top of the window when the product is non-negative: the bits above the product are zero anyway *)
Lemma fxmul_spec_nonneg af bf rf a b : wf af -> wf bf -> wf rf -> enc af a -> enc bf b ->
  0 <= mul_low af bf rf -> 0 <= fxint (fwidth af) a * fxint (fwidth bf) b ->
  fxmul af bf rf a b = Some (spec_mul (fwidth af) (ffrac af) (fwidth bf) (ffrac bf) (fwidth rf) (ffrac rf) a b).
Proof.
  intros Ha Hb Hr Ea Eb Hlow Hp. unfold mul_low in *. unfold enc, fxint in *.
  destruct (wf_width _ Ha) as [Hwa _], (wf_width _ Hb) as [Hwb _], (wf_width _ Hr) as [Hwr _].
  unfold fxmul, fxmul_v, mul_pw, fxmul_w. cbv zeta iota. destruct (Z.ltb_spec (ffrac af + ffrac bf - ffrac rf) 0) as [Hc|_]; [lia|]. f_equal.
  set (low := ffrac af + ffrac bf - ffrac rf) in *.
  rewrite Range_window by lia. rewrite !SignExtend_char by lia. rewrite Mul_char by lia.
  rewrite trunc_mul_l, trunc_mul_r by lia.
  pose proof (sgn_range (fwidth af) a Hwa Ea) as Ra. pose proof (sgn_range (fwidth bf) b Hwb Eb) as Rb.
  set (sa := sgn (fwidth af) a) in *. set (sb := sgn (fwidth bf) b) in *.
  pose proof (pow2_pos (fwidth af - 1) ltac:(lia)) as Pa. pose proof (pow2_pos (fwidth bf - 1) ltac:(lia)) as Pb.
  assert (Hpw : 2 ^ (fwidth af + fwidth bf) = 4 * (2 ^ (fwidth af - 1) * 2 ^ (fwidth bf - 1))).
  { rewrite <- Z.pow_add_r by lia. change 4 with (2 ^ 2). rewrite <- Z.pow_add_r by lia. f_equal; lia. }
  assert (Hle : sa * sb <= 2 ^ (fwidth af - 1) * 2 ^ (fwidth bf - 1)) by nia.
  rewrite (trunc_small (fwidth af + fwidth bf)) by lia.
  unfold spec_mul, fxint. fold sa sb. rewrite trunc_mod by lia. reflexivity.
Qed.

(* ... and with a NEGATIVE product a window that reaches above bit wa+wb-1 is always wrong: this is exactly finding C14-F1 *)
Lemma fxmul_wide_window_neg af bf rf a b : wf af -> wf bf -> wf rf -> enc af a -> enc bf b ->
  0 <= mul_low af bf rf -> fwidth af + fwidth bf < mul_low af bf rf + fwidth rf ->
  fxint (fwidth af) a * fxint (fwidth bf) b < 0 ->
  fxmul af bf rf a b <> Some (spec_mul (fwidth af) (ffrac af) (fwidth bf) (ffrac bf) (fwidth rf) (ffrac rf) a b).
Proof.
  intros Ha Hb Hr Ea Eb Hlow Hwide Hp. unfold mul_low in *. unfold enc, fxint in *.
  destruct (wf_width _ Ha) as [Hwa _], (wf_width _ Hb) as [Hwb _], (wf_width _ Hr) as [Hwr _].
  unfold fxmul, fxmul_v, mul_pw, fxmul_w. cbv zeta iota. destruct (Z.ltb_spec (ffrac af + ffrac bf - ffrac rf) 0) as [Hc|_]; [lia|].
  set (low := ffrac af + ffrac bf - ffrac rf) in *.
  rewrite Range_window by lia. rewrite !SignExtend_char by lia. rewrite Mul_char by lia.
  rewrite trunc_mul_l, trunc_mul_r by lia.
  pose proof (sgn_range (fwidth af) a Hwa Ea) as Ra. pose proof (sgn_range (fwidth bf) b Hwb Eb) as Rb.
  unfold spec_mul, fxint. fold low.
  set (sa := sgn (fwidth af) a) in *. set (sb := sgn (fwidth bf) b) in *.
  set (ww := fwidth af + fwidth bf) in *. set (wr := fwidth rf) in *.
  pose proof (pow2_pos (fwidth af - 1) ltac:(lia)) as Pa. pose proof (pow2_pos (fwidth bf - 1) ltac:(lia)) as Pb.
  assert (Hpw : 2 ^ ww = 4 * (2 ^ (fwidth af - 1) * 2 ^ (fwidth bf - 1))).
  { unfold ww. rewrite <- Z.pow_add_r by lia. change 4 with (2 ^ 2). rewrite <- Z.pow_add_r by lia. f_equal; lia. }
  assert (Hge : - (2 ^ (fwidth af - 1) * 2 ^ (fwidth bf - 1)) <= sa * sb) by nia.
  assert (Ht : trunc ww (sa * sb) = sa * sb + 2 ^ ww).
  { replace (sa * sb) with (sa * sb + 2 ^ ww + (-1) * 2 ^ ww) at 1 by lia.
    rewrite trunc_add_pow by lia. apply trunc_small; lia. }
  rewrite Ht. rewrite trunc_mod by lia.
  pose proof (pow2_pos low Hlow) as Pl. pose proof (pow2_pos wr ltac:(lia)) as Pr.
  intros Heq. injection Heq as Heq.
  destruct (Z.le_gt_cases low ww) as [Hle | Hgt].
  - assert (Hsplit : 2 ^ ww = 2 ^ (ww - low) * 2 ^ low) by (rewrite <- Z.pow_add_r by lia; f_equal; lia).
    rewrite Hsplit in Heq. rewrite Z.div_add in Heq by lia.
    set (q := sa * sb / 2 ^ low) in *. set (k := 2 ^ (ww - low)) in *.
    assert (Hk : 0 < k < 2 ^ wr).
    { unfold k. split; [apply pow2_pos; lia | apply pow2_lt; lia]. }
    assert (Hz : k mod 2 ^ wr = 0).
    { replace k with (q + k - q) by lia. rewrite Zminus_mod, Heq, Z.sub_diag. apply Z.mod_0_l; lia. }
    rewrite Z.mod_small in Hz by lia. lia.
  - assert (Hlt : 2 ^ ww < 2 ^ low) by (apply pow2_lt; unfold ww; lia).
    rewrite Z.div_small in Heq by lia.
    assert (Hq : sa * sb / 2 ^ low = -1) by (symmetry; apply Z.div_unique with (sa * sb + 2 ^ low); lia).
    rewrite Hq in Heq. rewrite Z.mod_0_l in Heq by lia.
    assert (Hm : (-1) mod 2 ^ wr = 2 ^ wr - 1) by (symmetry; apply Z.mod_unique with (-1); lia).
    assert (2 ^ 1 <= 2 ^ wr) by (apply pow2_le; lia). change (2 ^ 1) with 2 in *. lia.
Qed.

(* ---- any product width pw that holds both operands and the whole window: this is what the repair of C14-F1 relies on *)
Lemma fxmul_w_spec pw af bf rf a b : wf af -> wf bf -> wf rf -> enc af a -> enc bf b ->
  fwidth af <= pw -> fwidth bf <= pw ->
  0 <= mul_low af bf rf -> mul_low af bf rf + fwidth rf <= pw ->
  fxmul_w pw af bf rf a b = Some (spec_mul (fwidth af) (ffrac af) (fwidth bf) (ffrac bf) (fwidth rf) (ffrac rf) a b).
Proof.
  intros Ha Hb Hr Ea Eb Hpa Hpb Hlow Hwin. unfold mul_low in *. unfold enc in *.
  destruct (wf_width _ Ha) as [Hwa _], (wf_width _ Hb) as [Hwb _], (wf_width _ Hr) as [Hwr _].
  unfold fxmul_w. cbv zeta. destruct (Z.ltb_spec (ffrac af + ffrac bf - ffrac rf) 0) as [Hc|_]; [lia|]. f_equal.
  set (low := ffrac af + ffrac bf - ffrac rf) in *.
  rewrite Range_window by lia. rewrite !SignExtend_char by lia. rewrite Mul_char by lia.
  rewrite trunc_mul_l, trunc_mul_r by lia.
  rewrite !trunc_mod by lia.
  unfold spec_mul, fxint. apply window_div; lia.
Qed.

(* repaired wiring: no guard on the top of the window *)
Lemma fxmul_fixed_spec af bf rf a b : wf af -> wf bf -> wf rf -> enc af a -> enc bf b ->
  0 <= mul_low af bf rf ->
  fxmul_fixed af bf rf a b = Some (spec_mul (fwidth af) (ffrac af) (fwidth bf) (ffrac bf) (fwidth rf) (ffrac rf) a b).
Proof.
  intros Ha Hb Hr Ea Eb Hlow. unfold fxmul_fixed, fxmul_v, mul_pw.
  destruct (wf_width _ Ha) as [Hwa _], (wf_width _ Hb) as [Hwb _].
  apply fxmul_w_spec; try assumption; unfold mul_low in *; lia.
Qed.

Lemma fxmul_fixed_window_below af bf rf a b : mul_low af bf rf < 0 -> fxmul_fixed af bf rf a b = None.
Proof.
  intros H. unfold mul_low in H. unfold fxmul_fixed, fxmul_v, fxmul_w. cbv zeta.
  destruct (Z.ltb_spec (ffrac af + ffrac bf - ffrac rf) 0); [reflexivity | lia].
Qed.

(* the repair changes nothing for configurations whose window already lies inside wa+wb bits *)
Lemma fxmul_fixed_same af bf rf a b : mul_low af bf rf + fwidth rf <= fwidth af + fwidth bf ->
  fxmul_fixed af bf rf a b = fxmul af bf rf a b.
Proof.
  intros H. unfold mul_low in H. unfold fxmul_fixed, fxmul, fxmul_v, mul_pw. rewrite Z.max_l by lia. reflexivity.
Qed.

Lemma fxmul_window_below af bf rf a b : mul_low af bf rf < 0 -> fxmul af bf rf a b = None.
Proof.
  intros H. unfold mul_low in H. unfold fxmul, fxmul_v, fxmul_w. cbv zeta.
  destruct (Z.ltb_spec (ffrac af + ffrac bf - ffrac rf) 0); [reflexivity | lia].
Qed.

(* ---- comparator *)
Definition allones (l : list Z) : bool := forallb (fun x => x =? 1) l.
Definition bits (l : list Z) : Prop := forall x, In x l -> 0 <= x <= 1.

Lemma forallb_map' {A B} (f : B -> bool) (g : A -> B) l : forallb f (map g l) = forallb (fun x => f (g x)) l.
Proof. induction l as [|x l IH]; cbn [map forallb]; [reflexivity | rewrite IH; reflexivity]. Qed.

Lemma and_ladder_char l acc : bits l -> 0 <= acc <= 1 ->
  fold_left (fun x y => And2_propagate 1 x y) l acc = b2z ((acc =? 1) && allones l).
Proof.
  revert acc. induction l as [|y l IH]; intros acc Hl Hacc; cbn [fold_left allones forallb].
  - assert (Hc : acc = 0 \/ acc = 1) by lia. destruct Hc as [-> | ->]; reflexivity.
  - assert (Hy : 0 <= y <= 1) by (apply Hl; left; reflexivity).
    rewrite And2_bit by lia. rewrite IH.
    + assert (Hc : acc = 0 \/ acc = 1) by lia. assert (Hd : y = 0 \/ y = 1) by lia.
      destruct Hc as [-> | ->], Hd as [-> | ->]; reflexivity.
    + intros x Hx. apply Hl. right; exact Hx.
    + nia.
Qed.

Lemma and_block_char l : l <> [] -> bits l -> and_block 1 l = b2z (allones l).
Proof.
  intros Hne Hl. destruct l as [|x rest]; [congruence|].
  assert (Hx : 0 <= x <= 1) by (apply Hl; left; reflexivity).
  assert (Hrest : bits rest) by (intros y Hy; apply Hl; right; exact Hy).
  destruct rest as [|y rest].
  - cbn [and_block allones forallb]. rewrite Buf_char by lia. rewrite trunc_small by (change (2 ^ 1) with 2; lia).
    assert (Hc : x = 0 \/ x = 1) by lia. destruct Hc as [-> | ->]; reflexivity.
  - unfold and_block. rewrite and_ladder_char by assumption. reflexivity.
Qed.

Lemma eqconst0_char w v : 0 < w -> 0 <= v < 2 ^ w -> eqconst0_block w v = b2z (v =? 0).
Proof.
  intros Hw Hv. unfold eqconst0_block. destruct (Z.eqb_spec w 1) as [-> | Hw1].
  - change (2 ^ 1) with 2 in Hv. rewrite Not_bit by lia.
    assert (Hc : v = 0 \/ v = 1) by lia. destruct Hc as [-> | ->]; reflexivity.
  - cbv zeta. rewrite BitsLSBF_char by lia. rewrite map_map.
    assert (Hmap : map (fun i => Not_propagate 1 (bitZ v i)) (seqZ 0 w) = map (fun i => 1 - bitZ v i) (seqZ 0 w)).
    { apply map_ext_in. intros i Hi. apply in_seqZ in Hi. apply Not_bit. apply bitZ_range; lia. }
    rewrite Hmap. rewrite and_block_char.
    + f_equal. unfold allones. rewrite forallb_map'.
      destruct (Z.eqb_spec v 0) as [-> | Hne].
      * apply forallb_forall. intros i Hi. apply in_seqZ in Hi. rewrite bitZ_b2z by lia.
        rewrite Z.bits_0. reflexivity.
      * apply not_true_is_false. intros Hall. apply Hne.
        rewrite forallb_forall in Hall.
        apply Z.bits_inj'. intros k Hk. rewrite Z.bits_0.
        destruct (Z.ltb_spec k w) as [Hlt | Hge].
        -- specialize (Hall k). rewrite in_seqZ in Hall. specialize (Hall ltac:(lia)).
           rewrite bitZ_b2z in Hall by lia. destruct (Z.testbit v k); [discriminate Hall | reflexivity].
        -- rewrite <- (Z.mod_small v (2 ^ w)) by lia. apply Z.mod_pow2_bits_high; lia.
    + unfold seqZ. replace (Z.to_nat (w - 0)) with (S (Z.to_nat (w - 1))) by lia. cbn [seq map]. discriminate.
    + intros x Hx. apply in_map_iff in Hx as [i [<- Hi]]. apply in_seqZ in Hi.
      pose proof (bitZ_range v i ltac:(lia)). lia.
Qed.

Lemma sgn_inj w a b : 0 < w -> 0 <= a < 2 ^ w -> 0 <= b < 2 ^ w -> sgn w a = sgn w b -> a = b.
Proof. intros Hw Ha Hb H. rewrite <- (trunc_sgn w a), <- (trunc_sgn w b) by lia. rewrite H. reflexivity. Qed.

(* shape of the comparator outputs, for all encodings (no guard) *)
Lemma fxcmp_char F a b : wf F -> enc F a -> enc F b ->
  let w := fwidth F in
  let d := trunc w (a - b) in
  fxcmp F F a b = Some (b2z (negb (d =? 0) && (d <? 2 ^ (w - 1))), b2z (d =? 0), b2z (2 ^ (w - 1) <=? d)).
Proof.
  intros HF Ea Eb w d. destruct (wf_width F HF) as [Hw Hif]. unfold enc in *. fold w in Hw, Hif, Ea, Eb.
  unfold fxcmp. unfold fxsub. rewrite fmt_eqb_refl. cbn [andb]. rewrite Sub_char by lia. fold w. fold d.
  assert (Hd : 0 <= d < 2 ^ w) by (apply trunc_range; lia).
  rewrite fxsign_is_bit by exact HF. rewrite Hif, bitZ_b2z, testbit_high by lia.
  rewrite eqconst0_char by lia.
  rewrite !Not_bit by (destruct (d =? 0), (2 ^ (w - 1) <=? d); cbn [b2z]; lia).
  rewrite And2_bit by (destruct (d =? 0), (2 ^ (w - 1) <=? d); cbn [b2z]; lia).
  do 2 f_equal. f_equal.
  destruct (d =? 0), (Z.leb_spec (2 ^ (w - 1)) d), (Z.ltb_spec d (2 ^ (w - 1))); cbn [b2z negb andb]; lia.
Qed.

(* eq is exact for all encodings *)
Lemma fxcmp_eq F a b : wf F -> enc F a -> enc F b ->
  exists gt lt, fxcmp F F a b = Some (gt, b2z (fxint (fwidth F) a =? fxint (fwidth F) b), lt).
Proof.
  intros HF Ea Eb. destruct (wf_width F HF) as [Hw _]. unfold enc in *.
  rewrite (fxcmp_char F a b HF Ea Eb). cbv zeta. eexists; eexists. do 2 f_equal. f_equal. f_equal.
  unfold fxint.
  destruct (Z.eqb_spec (trunc (fwidth F) (a - b)) 0) as [H0 | Hn0];
  destruct (Z.eqb_spec (sgn (fwidth F) a) (sgn (fwidth F) b)) as [He | Hne]; try reflexivity; exfalso.
  - apply Hne. f_equal. rewrite <- (trunc_small (fwidth F) a), <- (trunc_small (fwidth F) b) by lia.
    replace a with (b + (a - b)) at 1 by lia. rewrite <- trunc_add_r, H0 by lia. f_equal; lia.
  - apply sgn_inj in He; try lia. subst b. apply Hn0. replace (a - a) with 0 by lia. reflexivity.
Qed.

(* gt/eq/lt order the denoted values when the exact difference is representable *)
Lemma fxcmp_spec F a b : wf F -> enc F a -> enc F b -> diff_representable (fwidth F) a b ->
  fxcmp F F a b = Some (spec_cmp (fwidth F) a b).
Proof.
  intros HF Ea Eb Hrep. destruct (wf_width F HF) as [Hw _]. unfold enc in *.
  rewrite (fxcmp_char F a b HF Ea Eb). cbv zeta. f_equal.
  unfold diff_representable, fxint in Hrep. unfold spec_cmp, fxint.
  set (w := fwidth F) in *.
  assert (Hpw : 2 ^ w = 2 * 2 ^ (w - 1)).
  { replace w with (1 + (w - 1)) at 1 by lia. rewrite Z.pow_add_r by lia. reflexivity. }
  pose proof (pow2_pos (w - 1) ltac:(lia)) as Hp1.
  rewrite <- trunc_sgn_sub by lia.
  set (x := sgn w a - sgn w b) in *.
  assert (Hx : sgn w (trunc w x) = x) by (apply sgn_trunc_small; lia).
  assert (Ht : 0 <= trunc w x < 2 ^ w) by (apply trunc_range; lia).
  unfold sgn in Hx at 1.
  destruct (Z.ltb_spec (trunc w x) (2 ^ (w - 1))) as [Hlt | Hge];
  destruct (Z.eqb_spec (trunc w x) 0), (Z.leb_spec (2 ^ (w - 1)) (trunc w x)),
           (Z.ltb_spec (sgn w b) (sgn w a)), (Z.eqb_spec (sgn w a) (sgn w b)), (Z.ltb_spec (sgn w a) (sgn w b));
  cbn [b2z negb andb]; try reflexivity; exfalso; lia.
Qed.
