(* C01 composition with memories: a concrete design on which the hypotheses hold (non-vacuity). *)
From V Require Import Base.Bits Gen.WireOps Gen.Helpers Gen.Prims Gen.Seq Model.VSyntax Model.VSem Model.Inline Model.SimKernel Model.Trace
  Model.C01Prim Model.C01Mem Model.C01Seq.
Local Open Scope string_scope.

Definition ex_mem : meminst :=
  {| mi_base := 6; mi_aw := 1; mi_rr := (8%nat, 3); mi_rd := (5%nat, 3); mi_ra := (1%nat, 1); mi_wa := (2%nat, 1); mi_we := (3%nat, 1); mi_wd := (4%nat, 3) |}.
Definition ex_mem_flat : flat :=
  {| f_nets := [mk_net "clk" 1 false 0 false; mk_net "ra" 1 false 0 false; mk_net "wa" 1 false 0 false; mk_net "we" 1 false 0 false;
                mk_net "wd" 3 false 0 false; mk_net "rd" 3 false 0 false;
                mk_net "i_x.mem[]" 3 false 0 true; mk_net "i_x.mem[]" 3 false 0 true; mk_net "i_x.rreaddata" 3 false 0 true];
     f_assigns := [(RLId 5 3, RId 8 3 false)];
     f_procs := [(TPos 0, si_proc (SMem ex_mem))] |}.

Lemma ex_mem_ok :
  match_seq [] [SMem ex_mem] 0 [1%nat; 2%nat; 3%nat; 4%nat] ex_mem_flat = true /\
  vsim ex_mem_flat "clk" [([("wa", 1); ("we", 1); ("wd", 5)], 1%nat); ([("ra", 1); ("we", 0)], 1%nat)] ["rd"] = ([[0]; [0]; [5]], true).
Proof. split; vm_compute; reflexivity. Qed.
