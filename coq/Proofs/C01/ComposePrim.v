(* C01 composition, step 1: every primitive instance's emitted assign stores what the instance's simulator leaf stores
   (one statement over the reflective `prim`, by case analysis from the per-emitter theorems). *)
From V Require Import Base.Bits Gen.WireOps Gen.Helpers Gen.Prims Model.VSyntax Model.VSem Model.Inline Model.SimKernel Model.C01Prim
  Proofs.C01.InlineSound Proofs.C01.InlineSound2.
From V Require Import Spec.C08 Model.StructLogic Properties.C08.

Lemma combine_widths_vals env (ins : list nid) :
  combine (map snd ins) (map (getv env) (map fst ins)) = map (fun n => (snd n, getv env (fst n))) ins.
Proof. induction ins as [|n t IH]; cbn [map combine]; [reflexivity | now rewrite IH]. Qed.

(* ---- glue between the emitter lemmas (bitwise folds, b2z) and C08's specifications of the structural ladders *)
Lemma trunc_lnot_spec w x : 0 <= w -> trunc w (Z.lnot x) = (2 ^ w - 1 - x) mod 2 ^ w.
Proof.
  intros Hw. rewrite trunc_mod by exact Hw. unfold Z.lnot.
  replace (2 ^ w - 1 - x) with (Z.pred (- x) + 1 * 2 ^ w) by lia. now rewrite Z_mod_plus_full.
Qed.

Lemma fold_land_all {A} (g : A -> Z) : forall t acc,
  fold_left (fun acc n => Z.land acc (g n)) t acc = Z.land acc (land_all (map g t)).
Proof.
  induction t as [|a t IH]; intros acc; cbn [fold_left map land_all fold_right]; [now rewrite Z.land_m1_r|].
  rewrite IH. unfold land_all. now rewrite Z.land_assoc.
Qed.

Lemma fold_lor_all {A} (g : A -> Z) : forall t acc,
  fold_left (fun acc n => Z.lor acc (g n)) t acc = Z.lor acc (lor_all (map g t)).
Proof.
  induction t as [|a t IH]; intros acc; cbn [fold_left map lor_all fold_right]; [now rewrite Z.lor_0_r|].
  rewrite IH. unfold lor_all. now rewrite Z.lor_assoc.
Qed.

Lemma nth_map_combine_seq {A B} (f : nat * A -> B) : forall (l : list A) s k d0 dflt, (k < length l)%nat ->
  nth k (map f (combine (seq s (length l)) l)) dflt = f ((s + k)%nat, nth k l d0).
Proof.
  induction l as [|x l IH]; intros s k d0 dflt Hk; cbn [length] in Hk; [lia|].
  cbn [length seq combine map]. destruct k as [|k]; cbn [nth]; [now rewrite Nat.add_0_r|].
  rewrite (IH (S s) k d0 dflt) by lia. f_equal. f_equal. lia.
Qed.

(* the k-th assign of a Bits block *)
Lemma inl_bits_nth a bits k dflt : (k < length bits)%nat ->
  nth k (inl_bits a bits) dflt =
  (whole (nth k bits (O, 0)), match bits with [_] => rid a | _ => RBit (fst a) (snd a) (RNum (Z.of_nat k)) end).
Proof.
  intros Hk. destruct bits as [|b0 [|b1 t]]; cbn [length] in Hk; [lia | |].
  - assert (k = O) by lia. subst. reflexivity.
  - unfold inl_bits. rewrite (nth_map_combine_seq _ (b0 :: b1 :: t) 0 k (O, 0) dflt Hk). reflexivity.
Qed.

Lemma div_rnd_irrelevant w rnd a b : b <> 0 ->
  Div_propagate w rnd a b = Div_propagate w 0 a b /\ Mod_propagate w rnd a b = Mod_propagate w 0 a b.
Proof. intros H. unfold Div_propagate, Mod_propagate. destruct (Z.eqb_spec b 0); [contradiction|]. split; reflexivity. Qed.

Section S.
Variable env : list Z.

Definition ins_vals (p : prim) : list Z := map (getv env) (map fst (prim_ins p)).

Ltac inv_forall :=
  repeat match goal with H : Forall _ (_ :: _) |- _ => inversion H; subst; clear H end.
Ltac split_wf H :=
  unfold prim_wf in H; cbn [prim_out prim_ins prim_guard forallb] in H;
  repeat (apply andb_prop in H; let H2 := fresh "Hg" in destruct H as [H H2]).
Ltac first3 := do 2 eexists; split; [reflexivity | split; [reflexivity | split; [reflexivity|]]].
(* emitters that choose between two texts still print one assign to the whole result net *)
Lemma inl_range_shape r a hi lo : exists e, inl_range r a hi lo = [(whole r, e)].
Proof. unfold inl_range. destruct ((snd a =? 1) && (hi =? 0) && (lo =? 0)); eexists; reflexivity. Qed.
Lemma inl_signextend_shape r a : exists e, inl_signextend r a = [(whole r, e)].
Proof. unfold inl_signextend. destruct (snd r <=? snd a); eexists; reflexivity. Qed.
Ltac shaped Hs := let e := fresh "e" in let He := fresh "He" in
  destruct Hs as [e He]; match type of He with _ = [(?l, _)] => exists l, e end; split; [exact He | split; [reflexivity | split; [reflexivity|]]].

Theorem prim_sound p : prim_wf p = true -> Forall (okn env) (prim_ins p) ->
  exists l e, prim_assigns p = [(l, e)] /\
              ltarget env l = Some (fst (prim_out p), 0, snd (prim_out p)) /\
              lnet l = fst (prim_out p) /\
              assign_value env l e = prim_fn p (ins_vals p).
Proof.
  intros Hwf Hok. destruct p; cbn [prim_ins] in Hok; inv_forall; split_wf Hwf;
    unfold ins_vals; cbn [prim_ins prim_out prim_assigns prim_fn map nth].
  - first3. apply inl_and2_sound; auto; lia.
  - first3. apply inl_or2_sound; auto; lia.
  - first3. apply inl_not_sound; auto; lia.
  - first3. apply inl_buf_sound; auto; lia.
  - first3. apply inl_zeroextend_sound; auto; lia.
  - first3. apply inl_sub_sound; auto; lia.
  - first3. apply inl_mul_sound; auto; lia.
  - first3. apply inl_addci_sound; auto; lia.
  - first3. apply inl_shl_sound; auto; lia.
  - first3. apply inl_shr_sound; auto; lia.
  - first3. apply inl_mux2_sound; auto; lia.
  - shaped (inl_range_shape r a hi lo). apply (inl_range_sound env r a hi lo); auto; lia.
  - first3. apply inl_bit_sound; auto; lia.
  - (* constant: the l-value is r[w-1:0] for w > 1 *)
    destruct (inl_constant_sound env r v ltac:(lia) ltac:(lia) _ _ eq_refl) as [Hlw Hv].
    do 2 eexists. split; [reflexivity|]. split; [|split; [|exact Hv]].
    + destruct (1 <? snd r); cbn [ltarget whole]; [|reflexivity]. do 2 f_equal. lia.
    + destruct (1 <? snd r); reflexivity.
  - first3. apply inl_smul_sound; auto; lia.
  - shaped (inl_signextend_shape r a). apply (inl_signextend_sound env r a); auto; lia.
  - first3. rewrite combine_widths_vals.
    apply (inl_concat_sound env r ins); auto; lia.
  - first3. rewrite combine_widths_vals.
    apply (inl_concat_sound env r ins); auto; lia.
  - first3. apply inl_repeat_sound; auto; lia.
  - (* Xor2: a ^ b  =  the 4-NAND network with max-wide internal wires (C08_xor2_mid_max): ANY widths *)
    assert (Ha : okn env a) by assumption. assert (Hb : okn env b) by assumption.
    first3. rewrite (bin_ctx env r a b BXor eq_refl) by (first [assumption | discriminate | lia]). cbn [bop].
    rewrite C08_xor2_mid_max; [unfold xor2_spec; apply trunc_mod; lia | destruct Ha; lia | destruct Hb; lia | lia | exact (proj2 Ha) | exact (proj2 Hb)].
  - (* Nand2: ~(a & b)  =  Not(And2) with Mid of a's width (C08_nand2) *)
    assert (Ha : okn env a) by assumption. assert (Hb : okn env b) by assumption.
    first3. match goal with |- assign_value env ?l0 ?e0 = _ => rewrite (inl_nnary_sound env BAnd r a [b] eq_refl Ha (Forall_cons _ Hb (Forall_nil _)) ltac:(lia) l0 e0 eq_refl) end.
    cbn [fold_left bop].
    rewrite C08_nand2; [unfold nand2_spec; apply trunc_lnot_spec; lia | destruct Ha; lia | lia | exact (proj2 Ha)].
  - (* Nor2 *)
    assert (Ha : okn env a) by assumption. assert (Hb : okn env b) by assumption.
    first3. match goal with |- assign_value env ?l0 ?e0 = _ => rewrite (inl_nnary_sound env BOr r a [b] eq_refl Ha (Forall_cons _ Hb (Forall_nil _)) ltac:(lia) l0 e0 eq_refl) end.
    cbn [fold_left bop].
    rewrite C08_nor2_any_mid by lia. unfold nor2_spec; apply trunc_lnot_spec; lia.
  - (* And: a0 & a1 & ...  =  the And2 ladder (C08_and) *)
    destruct ins as [|x t]; [discriminate|]. inv_forall.
    assert (Hx : okn env x) by assumption. assert (Ht : Forall (okn env) t) by assumption.
    first3. match goal with |- assign_value env ?l0 ?e0 = _ => rewrite (inl_nary_sound env BAnd r x t eq_refl Hx Ht ltac:(lia) l0 e0 eq_refl) end. cbn [bop].
    rewrite C08_and by (try lia; discriminate). unfold and_spec. cbn [map land_all fold_right]. rewrite map_map.
    rewrite (fold_land_all (fun n => getv env (fst n))). unfold land_all. apply trunc_mod. lia.
  - (* Or *)
    destruct ins as [|x t]; [discriminate|]. inv_forall.
    assert (Hx : okn env x) by assumption. assert (Ht : Forall (okn env) t) by assumption.
    first3. match goal with |- assign_value env ?l0 ?e0 = _ => rewrite (inl_nary_sound env BOr r x t eq_refl Hx Ht ltac:(lia) l0 e0 eq_refl) end. cbn [bop].
    rewrite C08_or by (try lia; discriminate). unfold or_spec. cbn [map lor_all fold_right]. rewrite map_map.
    rewrite (fold_lor_all (fun n => getv env (fst n))). unfold lor_all. apply trunc_mod. lia.
  - (* Nor: ~(a0 | a1 | ...)  =  Not(Or ladder) with Mid as wide as the result (C08_nor_any_mid): ANY operand widths *)
    destruct ins as [|x t]; [discriminate|]. inv_forall.
    assert (Hx : okn env x) by assumption. assert (Ht : Forall (okn env) t) by assumption.
    first3. match goal with |- assign_value env ?l0 ?e0 = _ => rewrite (inl_nnary_sound env BOr r x t eq_refl Hx Ht ltac:(lia) l0 e0 eq_refl) end. cbn [bop].
    rewrite C08_nor_any_mid; [| lia | discriminate].
    unfold nor_spec. cbn [map lor_all fold_right]. rewrite map_map.
    rewrite (fold_lor_all (fun n => getv env (fst n))). unfold lor_all. apply trunc_lnot_spec. lia.
  - (* Equal: (a == b) ? 1 : 0  =  Xor2 + BitsLSBF + Nor (C08_equal_eqw_max): ANY operand widths *)
    assert (Ha : okn env a) by assumption. assert (Hb : okn env b) by assumption.
    first3. match goal with |- assign_value env ?l0 ?e0 = _ => rewrite (inl_equal_sound env r a b Ha Hb ltac:(lia) l0 e0 eq_refl) end.
    rewrite C08_equal_eqw_max; [reflexivity | destruct Ha; lia | destruct Hb; lia | exact (proj2 Ha) | exact (proj2 Hb)].
  - (* EqualConstant: (a == K) ? 1 : 0  =  Minterm over the bits of a (C08_equal_constant), 0 <= K < 2^w *)
    assert (Ha : okn env a) by assumption.
    first3. match goal with |- assign_value env ?l0 ?e0 = _ => rewrite (inl_equalconst_sound env r a v Ha ltac:(lia) ltac:(lia) l0 e0 eq_refl) end.
    replace (snd r) with 1 by lia. rewrite C08_equal_constant; [reflexivity | destruct Ha; lia | exact (proj2 Ha) | unfold fits; lia].
  - (* Div: b <> 0 by the emitter theorem; b = 0: both sides are 0 (VSem's a / 0, the leaf's rnd := 0) *)
    assert (Ha : okn env a) by assumption. assert (Hb : okn env b) by assumption.
    first3. destruct (Z.eq_dec (getv env (fst b)) 0) as [E|Hnz].
    + unfold assign_value, Div_propagate. cbn [lwidth whole rid rsize rsigned arith_op shift_op fst snd andb].
      cbn [reval arith_op]. fold (rid a) (rid b). rewrite !reval_rid by (auto; lia). rewrite E. cbn [Z.eqb]. cbv zeta.
      replace (Z.quot (getv env (fst a)) 0) with 0 by (destruct (getv env (fst a)); reflexivity).
      unfold vtrunc. rewrite !Z.mod_0_l by (apply Z.pow_nonzero; lia). reflexivity.
    + apply inl_div_sound; auto. lia.
  - (* Mod: b = 0: VSem's a % 0 = a, truncated to r *)
    assert (Ha : okn env a) by assumption. assert (Hb : okn env b) by assumption.
    first3. destruct (Z.eqb_spec (getv env (fst b)) 0) as [E|Hnz].
    + unfold assign_value. cbn [lwidth whole rid rsize rsigned arith_op shift_op fst snd andb].
      cbn [reval arith_op]. fold (rid a) (rid b). rewrite !reval_rid by (auto; lia). rewrite E.
      replace (Z.rem (getv env (fst a)) 0) with (getv env (fst a)) by (destruct (getv env (fst a)); reflexivity).
      rewrite vtrunc_vtrunc_le by lia. rewrite put_trunc. apply vtrunc_trunc. lia.
    + apply inl_mod_sound; auto. lia.
  - (* the k-th wire of a Bits block *)
    assert (Ha : okn env a) by assumption.
    assert (Hk : (k < length bits)%nat) by lia.
    set (b := nth k bits (O, 0)) in *.
    assert (Hlw : nth k (map snd bits) 0 = snd b) by (change 0 with (snd (O, 0)) at 1; apply map_nth).
    rewrite (inl_bits_nth a bits k _ Hk). fold b.
    do 2 eexists. split; [reflexivity|]. split; [reflexivity|]. split; [reflexivity|].
    assert (Ewa : snd a = Z.of_nat (length bits)) by lia.
    destruct (bits_propagate_nth (length bits) (map snd bits) (getv env (fst a)) k Hk) as [PL PM].
    rewrite <- Ewa, Hlw in PL, PM.
    assert (Hval : forall e, (match bits with [_] => rid a | _ => RBit (fst a) (snd a) (RNum (Z.of_nat k)) end) = e ->
                   assign_value env (whole b) e = Wire_put (snd b) (Z.land (py_shr (getv env (fst a)) (Z.of_nat k)) 1)).
    { intros e <-. destruct bits as [|b0 [|b1 t]]; cbn [length] in *; [lia | |].
      - assert (k = O) by lia. subst k. cbn [nth] in b. subst b.
        exact (inl_bits1_sound env a b0 Ha ltac:(lia) ltac:(lia) _ _ eq_refl).
      - apply inl_bits_sound; auto; lia. }
    rewrite (Hval _ eq_refl). destruct msb; [now rewrite PM | now rewrite PL].
Qed.
End S.
