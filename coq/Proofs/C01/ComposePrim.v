(* C01 composition, step 1: every primitive instance's emitted assign stores what the instance's simulator leaf stores
   (one statement over the reflective `prim`, by case analysis from the per-emitter theorems). *)
From V Require Import Base.Bits Gen.WireOps Gen.Helpers Gen.Prims Model.VSyntax Model.VSem Model.Inline Model.SimKernel Model.C01Prim
  Proofs.C01.InlineSound Proofs.C01.InlineSound2.

Lemma combine_widths_vals env (ins : list nid) :
  combine (map snd ins) (map (getv env) (map fst ins)) = map (fun n => (snd n, getv env (fst n))) ins.
Proof. induction ins as [|n t IH]; cbn [map combine]; [reflexivity | now rewrite IH]. Qed.

Section S.
Variable env : list Z.

Definition ins_vals (p : prim) : list Z := map (getv env) (map fst (prim_ins p)).

Ltac inv_forall :=
  repeat match goal with H : Forall _ (_ :: _) |- _ => inversion H; subst; clear H end.
Ltac split_wf H :=
  unfold prim_wf in H; cbn [prim_out prim_ins prim_guard forallb] in H;
  repeat (apply andb_prop in H; let H2 := fresh "Hg" in destruct H as [H H2]).
Ltac first3 := do 2 eexists; split; [reflexivity | split; [reflexivity | split; [reflexivity|]]].

Theorem prim_sound p : prim_wf p = true -> Forall (okn env) (prim_ins p) ->
  exists l e, prim_assigns p = [(l, e)] /\
              ltarget env l = Some (fst (prim_out p), 0, snd (prim_out p)) /\
              lnet l = fst (prim_out p) /\
              assign_value env l e = prim_fn p (ins_vals p).
Proof.
  intros Hwf Hok. destruct p; cbn [prim_ins] in Hok; inv_forall; split_wf Hwf;
    unfold ins_vals; cbn [prim_ins prim_out prim_assigns prim_fn map nth].
  - first3. apply inl_and2_sound; auto; lia.
  - first3. apply inl_or2_sound; auto; lia.
  - first3. apply inl_not_sound; auto; lia.
  - first3. apply inl_buf_sound; auto; lia.
  - first3. apply inl_zeroextend_sound; auto; lia.
  - first3. apply inl_sub_sound; auto; lia.
  - first3. apply inl_mul_sound; auto; lia.
  - first3. apply inl_addci_sound; auto; lia.
  - first3. apply inl_shl_sound; auto; lia.
  - first3. apply inl_shr_sound; auto; lia.
  - first3. apply inl_mux2_sound; auto; lia.
  - first3. apply inl_range_sound; auto; lia.
  - first3. apply inl_bit_sound; auto; lia.
  - (* constant: the l-value is r[w-1:0] for w > 1 *)
    destruct (inl_constant_sound env r v ltac:(lia) ltac:(lia) _ _ eq_refl) as [Hlw Hv].
    do 2 eexists. split; [reflexivity|]. split; [|split; [|exact Hv]].
    + destruct (1 <? snd r); cbn [ltarget whole]; [|reflexivity]. do 2 f_equal. lia.
    + destruct (1 <? snd r); reflexivity.
  - first3. apply inl_smul_sound; auto; lia.
  - first3. apply inl_signextend_sound; auto; lia.
  - first3. rewrite combine_widths_vals.
    apply (inl_concat_sound env r ins); auto; [destruct ins; [discriminate|congruence] | lia].
  - first3. rewrite combine_widths_vals.
    apply (inl_concat_sound env r ins); auto; [destruct ins; [discriminate|congruence] | lia].
  - first3. apply inl_repeat_sound; auto; lia.
Qed.
End S.
