(* C01 composition, step 4b: one simulator step of the flat design (set inputs, settle, [edge, NBAs, settle]^n) and of the kernel
   (pokes, clk n) preserve "every wire holds the value of its net, every register state shows on rq (= q)"; hence equal
   observable traces over EVERY stimulus, from power-up. *)
From V Require Import Base.Bits Gen.WireOps Gen.Helpers Gen.Prims Gen.Seq Model.VSyntax Model.VSem Model.Inline Model.SimKernel Model.Trace
  Model.C01Prim Spec.C04 Proofs.C04.Settle Proofs.C01.InlineSound Proofs.C01.RegSound Proofs.C01.ComposePrim Proofs.C01.ComposeKernel
  Proofs.C01.ComposeComb Proofs.C01.ComposeEdge.
From Coq Require Import PeanoNat Arith.

(* ------------------------------------------------------------------ lists *)
Lemma nth_error_set_nth_eq {A} : forall (l : list A) i v, (i < length l)%nat -> nth_error (set_nth l i v) i = Some v.
Proof. induction l as [|y t IH]; intros [|i] v H; cbn in *; try lia; auto. apply IH. lia. Qed.

Lemma nth_error_set_nth_ne {A} : forall (l : list A) i j v, i <> j -> nth_error (set_nth l i v) j = nth_error l j.
Proof. induction l as [|y t IH]; intros [|i] [|j] v H; cbn; auto; try congruence. Qed.

Lemma map_nth_seq {A B} (h : A -> B) (dflt : A) : forall l, map (fun j => h (nth j l dflt)) (seq 0 (length l)) = map h l.
Proof.
  induction l as [|x l IH]; [reflexivity|]. cbn [length seq map nth]. f_equal.
  rewrite <- seq_shift, map_map. exact IH.
Qed.

Lemma NoDup_app_l {A} (a b : list A) : NoDup (a ++ b) -> NoDup a.
Proof.
  induction a as [|x a IH]; cbn; intros H; [constructor|]. inversion H; subst. constructor; auto.
  intros Hin. apply H2. apply in_or_app. now left.
Qed.

(* pending values applied by settleAll, pointwise *)
Lemma settle_fold_length : forall pd vs, length (fold_left SimKernel.settle pd vs) = length vs.
Proof. induction pd as [|p pd IH]; intros vs; cbn [fold_left]; auto. rewrite IH. apply Settle.set_nth_length. Qed.

Lemma settle_fold_other : forall pd vs w, ~ In w (map fst pd) -> nth w (fold_left SimKernel.settle pd vs) 0 = nth w vs 0.
Proof.
  induction pd as [|[w0 v0] pd IH]; intros vs w H; cbn [fold_left]; auto. cbn [map fst In] in H.
  rewrite IH by tauto. unfold SimKernel.settle. cbn [fst snd]. apply (getv_set_nth_ne vs w0 w v0). tauto.
Qed.

Lemma settle_fold_at : forall pd vs w v, NoDup (map fst pd) -> In (w, v) pd -> (w < length vs)%nat ->
  nth w (fold_left SimKernel.settle pd vs) 0 = v.
Proof.
  induction pd as [|[w0 v0] pd IH]; intros vs w v Hnd Hin Hw; [destruct Hin|]. cbn [fold_left map fst] in *.
  inversion Hnd as [|? ? Hnot Hnd']; subst. destruct Hin as [E|Hin].
  - injection E as -> ->. rewrite settle_fold_other by exact Hnot. unfold SimKernel.settle. cbn [fst snd].
    now apply (getv_set_nth_eq vs w v).
  - apply IH; auto. unfold SimKernel.settle. now rewrite Settle.set_nth_length.
Qed.

(* ------------------------------------------------------------------ agreement outside a set of wires *)
Definition agree_out (X : list nat) (a b : list Z) : Prop :=
  length a = length b /\ forall w, ~ In w X -> nth w a 0 = nth w b 0.

Section AgreeOut.
Context {St : Type}.
Variable d : design St.

Lemma propagate1_agree_out X a b c : agree_out X a b -> (forall w, In w (c_in c) -> ~ In w X) ->
  agree_out X (propagate1 d a c) (propagate1 d b c).
Proof.
  intros [Hl Hag] Hin. split; [now rewrite !propagate1_length|]. intros w Hw.
  destruct (Nat.lt_ge_cases w (length a)) as [Hlt|Hge].
  - rewrite !propagate1_nth by lia. rewrite (results_agree b a c) by (intros u Hu; apply Hag; now apply Hin).
    now rewrite (Hag w Hw).
  - rewrite !nth_overflow; auto; rewrite propagate1_length; lia.
Qed.

Lemma fold_agree_out X : forall cs a b, agree_out X a b -> (forall c, In c cs -> forall w, In w (c_in c) -> ~ In w X) ->
  agree_out X (fold_left (propagate1 d) cs a) (fold_left (propagate1 d) cs b).
Proof.
  induction cs as [|c cs IH]; intros a b Hag Hin; [exact Hag|]. cbn [fold_left].
  apply IH; [|intros c' Hc'; apply Hin; now right]. apply propagate1_agree_out; auto. apply Hin. now left.
Qed.
End AgreeOut.

(* ------------------------------------------------------------------ the design *)
Section Seq.
Variable f : flat.
Variable ps : list prim.
Variable gs : list reginst.
Variable clk : nat.
Variable ins : list nat.

Let rqs := map (fun g => fst (rg_rq g)) gs.
Let qs := map (fun g => fst (rg_q g)) gs.
Let all := map reg_buf gs ++ ps.
Let d := comp_design f ps gs.
Let dplus := comb_design Reg_state f all.

Hypothesis Hcomb : match_comb all f = true.
Hypothesis Hwf : forallb prim_wf all = true.
Hypothesis Hpo : pordered all = true.
Hypothesis Hgs : forall g, In g gs -> reg_ok f g.
Hypothesis Hprocs : procs_match clk (f_procs f) gs = true.
Hypothesis Hrqs : NoDup rqs.
Hypothesis Hps_rq : forall p, In p ps -> forall n, In n (prim_nids p) -> ~ In (fst n) rqs.
Hypothesis Hgs_rq : forall g, In g gs -> forall n, In n (rg_q g :: reg_ins g) -> ~ In (fst n) rqs.
Hypothesis Hins : forall i, In i ins -> ~ In i rqs /\ ~ In i (map (fun p => fst (prim_out p)) all) /\ (i < length (f_nets f))%nat.
Hypothesis Hwidths : forall n, In n (f_nets f) -> 0 < fn_width n.

Lemma outs_all : map (fun p => fst (prim_out p)) all = qs ++ map (fun p => fst (prim_out p)) ps.
Proof. unfold all, qs. rewrite map_app, map_map. reflexivity. Qed.

Lemma nodup_outs : NoDup (qs ++ map (fun p => fst (prim_out p)) ps).
Proof. rewrite <- outs_all. destruct (match_parts f all Hcomb Hwf) as (_ & _ & H & _). exact H. Qed.

Lemma nodup_qs : NoDup qs.
Proof. exact (NoDup_app_l _ _ nodup_outs). Qed.

Lemma q_not_out g p : In g gs -> In p ps -> fst (rg_q g) <> fst (prim_out p).
Proof.
  intros Hg Hp E. apply (NoDup_app_disjoint _ _ (fst (rg_q g)) nodup_outs).
  - unfold qs. now apply (in_map (fun g => fst (rg_q g))).
  - rewrite E. now apply (in_map (fun p => fst (prim_out p))).
Qed.

Lemma all_ok p : In p all -> prim_ok f p.
Proof. destruct (match_parts f all Hcomb Hwf) as (_ & _ & _ & _ & H & _). apply H. Qed.

Lemma q_notin_rqs g : In g gs -> ~ In (fst (rg_q g)) rqs.
Proof. intros Hg. apply (Hgs_rq g Hg). now left. Qed.

Lemma rq_notin_qs g : In g gs -> ~ In (fst (rg_rq g)) qs.
Proof.
  intros Hg Hin. unfold qs in Hin. apply in_map_iff in Hin. destruct Hin as (g' & E & Hg').
  apply (q_notin_rqs g' Hg'). rewrite E. unfold rqs. now apply (in_map (fun g => fst (rg_rq g))).
Qed.

Lemma widths_d : widths d = map fn_width (f_nets f). Proof. reflexivity. Qed.
Lemma widths_dplus : widths dplus = map fn_width (f_nets f). Proof. reflexivity. Qed.

Lemma p1_same vs c : propagate1 dplus vs c = propagate1 d vs c.
Proof. apply propagate1_widths. reflexivity. Qed.

Lemma fold_same : forall cs vs, fold_left (propagate1 dplus) cs vs = fold_left (propagate1 d) cs vs.
Proof. induction cs as [|c cs IH]; intros vs; [reflexivity|]. cbn [fold_left]. rewrite p1_same. apply IH. Qed.

Lemma q_width g : In g gs -> nth (fst (rg_q g)) (widths d) 0 = snd (rg_q g) /\ (fst (rg_q g) < length (f_nets f))%nat.
Proof.
  intros Hg. destruct (Hgs g Hg) as [_ Hn]. unfold reg_nids in Hn. cbn [forallb] in Hn.
  apply andb_prop in Hn. destruct Hn as [_ Hn]. apply andb_prop in Hn. destruct Hn as [Hq _].
  destruct (nid_ok_spec f _ Hq) as (x & Hx & E). split.
  - change (widths d) with (map fn_width (f_nets f)). rewrite (nth_width f _ x Hx). exact E.
  - apply nth_error_Some. congruence.
Qed.

(* ------------------------------------------------------------------ the relation *)
(* before a settle: the registers' values sit on rq (flat) and on q (kernel); q of the flat side may be stale *)
Definition Rpre (env vals : list Z) : Prop :=
  env_ok f env /\ length vals = length env /\
  (forall w, ~ In w rqs -> ~ In w qs -> nth w vals 0 = getv env w) /\
  (forall g, In g gs -> getv env (fst (rg_rq g)) = nth (fst (rg_q g)) vals 0).
(* after a settle: every kernel wire holds the value of its net (rq nets are private to the text), q = rq *)
Definition R (env vals : list Z) : Prop :=
  env_ok f env /\ length vals = length env /\
  (forall w, ~ In w rqs -> nth w vals 0 = getv env w) /\
  (forall g, In g gs -> getv env (fst (rg_rq g)) = getv env (fst (rg_q g))).

Lemma R_Rpre env vals : R env vals -> Rpre env vals.
Proof.
  intros (He & Hl & Hag & Hq). split; [exact He|]. split; [exact Hl|]. split; [intros w Hw _; now apply Hag|].
  intros g Hg. rewrite (Hq g Hg). symmetry. apply Hag. now apply q_notin_rqs.
Qed.

(* the `assign q = rq` leaves, evaluated first *)
Lemma leaf_eval env p : env_ok f env -> prim_ok f p ->
  propagate1 dplus env (prim_leaf p) = set_nth env (fst (prim_out p)) (trunc (snd (prim_out p)) (prim_fn p (ins_vals env p))).
Proof.
  intros He [Hw Hn]. cbn [prim_nids forallb] in Hn. apply andb_prop in Hn. destruct Hn as [Hr _].
  destruct (nid_ok_spec f _ Hr) as (x & Hx & Ew).
  unfold propagate1. cbn [prim_leaf c_out c_in c_f write_outs]. change (widths dplus) with (map fn_width (f_nets f)). rewrite (nth_width f _ x Hx), Ew. reflexivity.
Qed.

Lemma bufs_fold : forall L env, env_ok f env -> incl L gs -> NoDup (map (fun g => fst (rg_q g)) L) ->
  let env' := fold_left (propagate1 dplus) (map prim_leaf (map reg_buf L)) env in
  env_ok f env' /\
  (forall w, ~ In w (map (fun g => fst (rg_q g)) L) -> getv env' w = getv env w) /\
  (forall g, In g L -> getv env' (fst (rg_q g)) = getv env (fst (rg_rq g))).
Proof.
  induction L as [|g L IH]; intros env He Hin Hnd; cbn zeta.
  - split; [exact He|]. split; [reflexivity | intros g []].
  - cbn [map fold_left]. inversion Hnd as [|? ? Hnot Hnd']; subst.
    assert (Hg : In g gs) by (apply Hin; now left).
    assert (Hpk : prim_ok f (reg_buf g)).
    { apply all_ok. unfold all. apply in_or_app. left. now apply in_map. }
    destruct (assign_is_leaf f dplus eq_refl env (reg_buf g) He Hpk) as [_ He1].
    pose proof (leaf_eval env (reg_buf g) He Hpk) as E1. cbn [reg_buf prim_out] in E1.
    set (env1 := propagate1 dplus env (prim_leaf (reg_buf g))) in *.
    destruct (reg_ok_parts f env g He (Hgs g Hg)) as (Hi & [Hwrq Hrrq] & _ & [Hwq _] & _ & _ & _ & _ & Ew).
    assert (Hv : trunc (snd (rg_q g)) (prim_fn (PBuf (rg_q g) (rg_rq g)) (ins_vals env (PBuf (rg_q g) (rg_rq g)))) = getv env (fst (rg_rq g))).
    { unfold ins_vals. cbn [prim_fn prim_ins map nth]. unfold Buf_propagate. cbv zeta. rewrite (put_trunc (snd (rg_q g)) (getv env (fst (rg_rq g)))). rewrite trunc_idem by lia.
      apply trunc_small; [lia|]. rewrite <- Ew. exact Hrrq. }
    unfold reg_buf in E1. rewrite Hv in E1.
    assert (Hqlt : (fst (rg_q g) < length env)%nat) by (rewrite (proj1 He); apply (proj2 (q_width g Hg))).
    destruct (IH env1 He1 (fun x Hx => Hin x (or_intror Hx)) Hnd') as (He' & Hoth & Hat).
    split; [exact He'|]. split.
    + intros w Hw. cbn [map In] in Hw. rewrite Hoth by tauto. rewrite E1. apply getv_set_nth_ne. tauto.
    + intros g' [<-|Hg'].
      * rewrite Hoth by exact Hnot. rewrite E1. now apply getv_set_nth_eq.
      * rewrite (Hat g' Hg'). rewrite E1. apply getv_set_nth_ne.
        intros E. apply (rq_notin_qs g' (Hin g' (or_intror Hg'))). rewrite <- E. unfold qs. now apply (in_map (fun g => fst (rg_q g))).
Qed.

Lemma ordered_all : ordered (map prim_leaf all).
Proof. now apply pordered_sound. Qed.

(* one settle of the flat design against one propagateAll of the kernel *)
Lemma phase env vals : Rpre env vals ->
  exists env', VSem.settle f (settle_fuel f) env = (env', true) /\ R env' (propagateAll d vals) /\
               (forall g, In g gs -> getv env' (fst (rg_rq g)) = getv env (fst (rg_rq g))).
Proof.
  intros (He & Hl & Hag & Hq).
  exists (propagateAll dplus env). split; [exact (comb_settles Reg_state f all Hcomb Hwf ordered_all env He)|].
  unfold propagateAll. cbn [dplus comb_design combs]. unfold all. rewrite map_app, fold_left_app. fold dplus.
  destruct (bufs_fold gs env He (incl_refl _) nodup_qs) as (Heq & Hoth & Hat). cbv zeta in Heq, Hoth, Hat.
  set (envq := fold_left (propagate1 dplus) (map prim_leaf (map reg_buf gs)) env) in *.
  assert (Hps_ok : forall p, In p ps -> prim_ok f p) by (intros p Hp; apply all_ok; unfold all; apply in_or_app; now right).
  destruct (assigns_are_leaves f dplus eq_refl ps envq Heq Hps_ok) as [_ He'].
  set (env' := fold_left (propagate1 dplus) (map prim_leaf ps) envq) in *.
  (* envq and vals agree outside the rq nets *)
  assert (Hagq : agree_out rqs envq vals).
  { split; [unfold envq; rewrite fold_length; lia|]. intros w Hw.
    destruct (in_dec Nat.eq_dec w qs) as [Hin|Hnot].
    - unfold qs in Hin. apply in_map_iff in Hin. destruct Hin as (g & <- & Hg).
      change (getv envq (fst (rg_q g)) = nth (fst (rg_q g)) vals 0). rewrite (Hat g Hg). now apply Hq.
    - change (getv envq w = nth w vals 0). rewrite (Hoth w Hnot). symmetry. now apply Hag. }
  assert (Hag' : agree_out rqs env' (fold_left (propagate1 dplus) (map prim_leaf ps) vals)).
  { apply fold_agree_out; [exact Hagq|]. intros c Hc w Hw. apply in_map_iff in Hc. destruct Hc as (p & <- & Hp).
    cbn [prim_leaf c_in] in Hw. apply in_map_iff in Hw. destruct Hw as (n & <- & Hn). apply (Hps_rq p Hp). now right. }
  assert (Esame : fold_left (propagate1 dplus) (map prim_leaf ps) vals = fold_left (propagate1 d) (combs d) vals).
  { change (combs d) with (map prim_leaf ps). apply fold_same. }
  rewrite Esame in Hag'. destruct Hag' as [Hl' Hw'].
  (* rq and q nets are not outputs of the primitives *)
  assert (Hund : forall w, ~ In w (map (fun p => fst (prim_out p)) ps) -> getv env' w = getv envq w).
  { intros w Hw. unfold env'. apply (fold_undriven dplus). unfold driven. now rewrite leaf_outs. }
  assert (Hrq_und : forall g, In g gs -> ~ In (fst (rg_rq g)) (map (fun p => fst (prim_out p)) ps)).
  { intros g Hg Hin. apply in_map_iff in Hin. destruct Hin as (p & E & Hp). apply (Hps_rq p Hp (prim_out p) (or_introl eq_refl)).
    rewrite E. unfold rqs. now apply (in_map (fun g => fst (rg_rq g))). }
  assert (Hq_und : forall g, In g gs -> ~ In (fst (rg_q g)) (map (fun p => fst (prim_out p)) ps)).
  { intros g Hg Hin. apply in_map_iff in Hin. destruct Hin as (p & E & Hp). now apply (q_not_out g p Hg Hp). }
  assert (Hrq' : forall g, In g gs -> getv env' (fst (rg_rq g)) = getv env (fst (rg_rq g))).
  { intros g Hg. rewrite Hund by now apply Hrq_und. apply Hoth. now apply rq_notin_qs. }
  split; [|exact Hrq'].
  split; [exact He'|]. split; [unfold propagateAll; lia|]. split.
  - intros w Hw. symmetry. now apply Hw'.
  - intros g Hg. rewrite (Hrq' g Hg). rewrite Hund by now apply Hq_und. symmetry. now apply Hat.
Qed.

(* ------------------------------------------------------------------ the kernel's clock phase *)
Definition g0 : reginst := {| rg_rq := (O, 0); rg_q := (O, 0); rg_d := (O, 0); rg_e := None; rg_r := None; rg_rv := 0 |}.
Definition st0 : Reg_state := {| Reg_s_value := 0 |}.

Section Clock.
Variable s : state Reg_state.
Hypothesis Hpend : pend s = [].
Hypothesis Hlen : length (sts s) = length gs.

Definition Gk (j : nat) : Reg_state * Z :=
  reg_clock (nth j gs g0) (nth j (sts s) st0) (map (rd (vals s)) (map fst (reg_ins (nth j gs g0)))).
Definition Pk (j : nat) : nat * Z :=
  (fst (rg_q (nth j gs g0)), Wire_prepare (nth (fst (rg_q (nth j gs g0))) (widths d) 0) (snd (Gk j))).

Lemma clock_prefix : forall k, (k <= length gs)%nat ->
  let sk := fold_left (clock1 d) (seq 0 k) s in
  vals sk = vals s /\ length (sts sk) = length gs /\
  (forall j, (j < k)%nat -> nth_error (sts sk) j = Some (fst (Gk j))) /\
  (forall j, (k <= j)%nat -> nth_error (sts sk) j = nth_error (sts s) j) /\
  pend sk = map Pk (seq 0 k).
Proof.
  induction k as [|k IH]; intros Hk; cbv zeta.
  - cbn [seq fold_left map]. repeat split; auto. intros j Hj. lia.
  - rewrite seq_S, fold_left_app. cbn [fold_left plus].
    destruct (IH ltac:(lia)) as (Hv & Hl & Hlt & Hge & Hp). cbv zeta in Hv, Hl, Hlt, Hge, Hp.
    set (sk := fold_left (clock1 d) (seq 0 k) s) in *.
    assert (Hleaf : nth_error (seqs d) k = Some (reg_leaf (nth k gs g0))).
    { cbn [d comp_design seqs]. rewrite nth_error_map. rewrite (nth_error_nth' gs g0) by lia. reflexivity. }
    assert (Hst : nth_error (sts sk) k = Some (nth k (sts s) st0)).
    { rewrite Hge by lia. apply nth_error_nth'. lia. }
    destruct (Gk k) as [st' q] eqn:EG.
    assert (Ec : clock1 d sk k = {| vals := vals sk;
                                    pend := pend sk ++ [(fst (rg_q (nth k gs g0)), Wire_prepare (nth (fst (rg_q (nth k gs g0))) (widths d) 0) q)];
                                    sts := set_nth (sts sk) k st'; total := total sk |}).
    { unfold clock1. rewrite Hleaf, Hst. cbn [reg_leaf s_f s_in s_out]. rewrite Hv. fold (Gk k). rewrite EG. reflexivity. }
    rewrite Ec. cbn [vals pend sts].
    split; [exact Hv|]. split; [now rewrite Settle.set_nth_length|]. split; [|split].
    + intros j Hj. destruct (Nat.eq_dec j k) as [->|Hne].
      * rewrite nth_error_set_nth_eq by lia. now rewrite EG.
      * rewrite nth_error_set_nth_ne by auto. apply Hlt. lia.
    + intros j Hj. rewrite nth_error_set_nth_ne by lia. apply Hge. lia.
    + rewrite Hp, map_app. cbn [map]. unfold Pk at 3. now rewrite EG.
Qed.

Lemma clock_all :
  let s1 := clock_drivers d s in
  vals s1 = vals s /\ length (sts s1) = length gs /\
  (forall j, (j < length gs)%nat -> nth_error (sts s1) j = Some (fst (Gk j))) /\
  pend s1 = map Pk (seq 0 (length gs)).
Proof.
  cbv zeta. unfold clock_drivers. cbn [d comp_design drivers fold_left]. fold d.
  unfold enabled. cbn [d_enable]. unfold clockAll. cbn [d_leaves].
  destruct (clock_prefix (length gs) (le_n _)) as (Hv & Hl & Hlt & _ & Hp). auto.
Qed.
End Clock.

(* ------------------------------------------------------------------ the invariant between two steps *)
Definition Inv (env : list Z) (s : state Reg_state) : Prop :=
  R env (vals s) /\ pend s = [] /\ length (sts s) = length gs /\
  (forall j g st, nth_error gs j = Some g -> nth_error (sts s) j = Some st ->
                  getv env (fst (rg_rq g)) = trunc (snd (rg_q g)) (Reg_s_value st)).

Lemma ins_vals_same env vals g : In g gs -> (forall w, ~ In w rqs -> nth w vals 0 = getv env w) ->
  map (rd vals) (map fst (reg_ins g)) = map (getv env) (map fst (reg_ins g)).
Proof.
  intros Hg Hag. apply map_ext_in. intros w Hw. apply in_map_iff in Hw. destruct Hw as (n & <- & Hn).
  unfold rd. apply Hag. apply (Hgs_rq g Hg). now right.
Qed.

(* one clock cycle: edge + NBAs + settle  against  clock_drivers + settleAll + propagateAll *)
Lemma cycle env s : Inv env s ->
  exists env2, VSem.settle f (settle_fuel f) (edge f clk env) = (env2, true) /\ Inv env2 (clk_cycle d s).
Proof.
  intros ((He & Hl & Hag & Hq) & Hpend & Hlen & Hst).
  destruct (edge_values f gs clk Hprocs Hrqs env He Hgs) as (Hel & Herq & Heoth).
  destruct (clock_all s Hpend Hlen) as (Hv1 & Hl1 & Hst1 & Hp1). cbv zeta in Hv1, Hl1, Hst1, Hp1.
  set (s1 := clock_drivers d s) in *.
  (* per register: index, state, new value *)
  assert (Hreg : forall j g, nth_error gs j = Some g ->
            exists st, nth_error (sts s) j = Some st /\ Gk s j = reg_sim env g st /\
                       getv (edge f clk env) (fst (rg_rq g)) = snd (reg_sim env g st) /\
                       snd (reg_sim env g st) = trunc (snd (rg_q g)) (Reg_s_value (fst (reg_sim env g st)))).
  { intros j g Hj. assert (Hjl : (j < length gs)%nat) by (apply nth_error_Some; congruence).
    assert (Hg : In g gs) by (eapply nth_error_In; eauto).
    exists (nth j (sts s) st0). assert (Hsj : nth_error (sts s) j = Some (nth j (sts s) st0)) by (apply nth_error_nth'; lia).
    split; [exact Hsj|].
    assert (Eg : nth j gs g0 = g) by (now apply nth_error_nth).
    destruct (reg_edge_value f env g (nth j (sts s) st0) He (Hgs g Hg) (Hst j g _ Hj Hsj)) as [E1 E2].
    split; [|split; [|exact E2]].
    - unfold Gk. rewrite Eg. rewrite (ins_vals_same env (vals s) g Hg Hag). apply reg_clock_sim.
    - rewrite (Herq g Hg). exact E1. }
  (* the kernel's q wires after settleAll *)
  set (s2 := settleAll s1).
  assert (Hpfst : map fst (pend s1) = qs).
  { rewrite Hp1, map_map. cbn [Pk fst]. unfold qs. apply (map_nth_seq (fun g => fst (rg_q g)) g0). }
  assert (Hv2len : length (vals s2) = length env) by (cbn [s2 settleAll vals]; rewrite settle_fold_length, Hv1; exact Hl).
  assert (Hv2oth : forall w, ~ In w qs -> nth w (vals s2) 0 = nth w (vals s) 0).
  { intros w Hw. cbn [s2 settleAll vals]. rewrite settle_fold_other by (now rewrite Hpfst). now rewrite Hv1. }
  assert (Hv2q : forall j g st, nth_error gs j = Some g -> nth_error (sts s) j = Some st ->
                   nth (fst (rg_q g)) (vals s2) 0 = snd (reg_sim env g st)).
  { intros j g st Hj Hsj. destruct (Hreg j g Hj) as (st' & Hsj' & EG & _ & E2). assert (st' = st) by congruence. subst st'.
    assert (Hg : In g gs) by (eapply nth_error_In; eauto). destruct (q_width g Hg) as [Ewq Hqlt].
    cbn [s2 settleAll vals].
    rewrite (settle_fold_at (pend s1) (vals s1) (fst (rg_q g)) (Wire_prepare (snd (rg_q g)) (snd (reg_sim env g st)))).
    - rewrite Wire_prepare_is_trunc, E2, trunc_idem; [reflexivity|]. destruct (reg_ok_parts f env g He (Hgs g Hg)) as (_ & _ & _ & [Hw _] & _). lia.
    - rewrite Hpfst. exact nodup_qs.
    - rewrite Hp1. apply in_map_iff. exists j. split; [|apply in_seq; split; [lia|]; cbn; apply nth_error_Some; congruence].
      unfold Pk. rewrite (nth_error_nth gs j g0 Hj), Ewq, EG. reflexivity.
    - rewrite Hv1, Hl, (proj1 He). exact Hqlt. }
  (* Rpre between the two sides after the edge *)
  assert (Hpre : Rpre (edge f clk env) (vals s2)).
  { split; [|split; [lia|split]].
    - split; [rewrite Hel; exact (proj1 He)|]. intros i n Hn.
      destruct (in_dec Nat.eq_dec i rqs) as [Hin|Hnot].
      + unfold rqs in Hin. apply in_map_iff in Hin. destruct Hin as (g & <- & Hg).
        destruct (In_nth_error _ _ Hg) as [j Hj]. destruct (Hreg j g Hj) as (st & _ & _ & E1 & E2). rewrite E1, E2.
        destruct (reg_ok_parts f env g He (Hgs g Hg)) as (_ & _ & _ & [Hw _] & _ & _ & _ & _ & Ew).
        destruct (Hgs g Hg) as [_ Hnid]. unfold reg_nids in Hnid. cbn [forallb] in Hnid. apply andb_prop in Hnid. destruct Hnid as [Hnrq _].
        destruct (nid_ok_spec f _ Hnrq) as (x & Hx & Ex). assert (x = n) by congruence. subst x. rewrite Ex, Ew. apply trunc_range. lia.
      + rewrite (Heoth i Hnot). now apply (proj2 He).
    - intros w Hw1 Hw2. rewrite (Hv2oth w Hw2), (Heoth w Hw1). now apply Hag.
    - intros g Hg. destruct (In_nth_error _ _ Hg) as [j Hj]. destruct (Hreg j g Hj) as (st & Hsj & _ & E1 & _).
      rewrite E1. symmetry. exact (Hv2q j g st Hj Hsj). }
  destruct (phase (edge f clk env) (vals s2) Hpre) as (env2 & Hsettle & HR & Hkeep).
  exists env2. split; [exact Hsettle|]. split; [exact HR|]. split; [reflexivity|]. split; [exact Hl1|].
  intros j g st' Hj Hsj'. cbn [clk_cycle settleAll sts] in Hsj'. fold s1 in Hsj'.
  assert (Hg : In g gs) by (eapply nth_error_In; eauto).
  assert (Hjl : (j < length gs)%nat) by (apply nth_error_Some; congruence).
  destruct (Hreg j g Hj) as (st & Hsj & EG & E1 & E2).
  rewrite (Hst1 j Hjl), EG in Hsj'. injection Hsj' as <-.
  rewrite (Hkeep g Hg), E1. exact E2.
Qed.

Lemma cycles_compose : forall n env s, Inv env s ->
  exists env', vcycles f (Some clk) n env true = (env', true) /\ Inv env' (cycles d n s).
Proof.
  induction n as [|n IH]; intros env s HI; [exists env; split; [reflexivity | exact HI]|].
  cbn [vcycles cycles]. destruct (cycle env s HI) as (env2 & Hs & HI2). rewrite Hs. cbn [andb]. now apply IH.
Qed.

(* ------------------------------------------------------------------ pokes *)
Definition dnet := {| fn_name := ""; fn_width := 0; fn_signed := false; fn_init := 0; fn_isreg := false |}.

Lemma poke_inv env s i v : Inv env s -> In i ins ->
  Inv (set_nth env i (vtrunc (fn_width (nth i (f_nets f) dnet)) v)) (poke d s i v).
Proof.
  intros ((He & Hl & Hag & Hq) & Hpend & Hlen & Hst) Hi. destruct (Hins i Hi) as (Hnrq & Hnout & Hilt).
  destruct (nth_error (f_nets f) i) as [n|] eqn:Hn; [|apply nth_error_None in Hn; lia].
  assert (Hwn : 0 < fn_width n) by (apply Hwidths; eapply nth_error_In; eauto).
  rewrite (nth_error_nth (f_nets f) i dnet Hn).
  assert (Hnq : ~ In i qs) by (intros Hin; apply Hnout; rewrite outs_all; apply in_or_app; now left).
  assert (Eput : Wire_put (nth i (widths d) 0) v = vtrunc (fn_width n) v).
  { change (widths d) with (map fn_width (f_nets f)). rewrite (nth_width f i n Hn), put_trunc, vtrunc_trunc by lia. reflexivity. }
  split; [|split; [exact Hpend|split; [exact Hlen|]]].
  - cbn [poke vals]. rewrite Eput. split; [|split; [now rewrite !Settle.set_nth_length|split]].
    + apply (env_ok_set f env i n); auto. unfold vtrunc. apply Z.mod_pos_bound. apply pow2_pos. lia.
    + intros w Hw. destruct (Nat.eq_dec i w) as [->|Hne].
      * change (getv (set_nth (vals s) w (vtrunc (fn_width n) v)) w = getv (set_nth env w (vtrunc (fn_width n) v)) w).
        rewrite !getv_set_nth_eq; auto; [rewrite (proj1 He); exact Hilt | rewrite Hl, (proj1 He); exact Hilt].
      * change (getv (set_nth (vals s) i (vtrunc (fn_width n) v)) w = getv (set_nth env i (vtrunc (fn_width n) v)) w).
        rewrite !getv_set_nth_ne by exact Hne. now apply Hag.
    + intros g Hg. rewrite !getv_set_nth_ne; [now apply Hq | |].
      * intros ->. apply Hnq. unfold qs. now apply (in_map (fun g => fst (rg_q g))).
      * intros ->. apply Hnrq. unfold rqs. now apply (in_map (fun g => fst (rg_rq g))).
  - intros j g st Hj Hsj. cbn [poke sts] in Hsj. rewrite getv_set_nth_ne; [now apply (Hst j g st)|].
    intros ->. apply Hnrq. unfold rqs. apply (in_map (fun g => fst (rg_rq g))). eapply nth_error_In; eauto.
Qed.

Lemma pokes_inv : forall pk env s, Inv env s -> (forall p, In p pk -> In (fst p) ins) ->
  Inv (set_inputs f env pk) (fold_left (fun s p => poke d s (fst p) (snd p)) pk s).
Proof.
  induction pk as [|p pk IH]; intros env s HI Hpk; [exact HI|].
  unfold set_inputs. cbn [fold_left]. apply IH; [|intros q Hq; apply Hpk; now right].
  apply poke_inv; auto. apply Hpk. now left.
Qed.

(* ------------------------------------------------------------------ one simulator step *)
Theorem step_compose env s pk n : Inv env s -> (forall p, In p pk -> In (fst p) ins) ->
  exists env', vstep f (Some clk) env pk n = (env', true) /\ Inv env' (do_step d s (pk, n)).
Proof.
  intros HI Hpk. pose proof (pokes_inv pk env s HI Hpk) as HI1.
  set (s1 := fold_left (fun s p => poke d s (fst p) (snd p)) pk s) in *.
  destruct HI1 as (HR & Hpend & Hlen & Hst).
  destruct (phase _ _ (R_Rpre _ _ HR)) as (e1 & Hs & HR1 & Hkeep).
  unfold vstep. rewrite Hs. unfold do_step, SimKernel.clk. cbn [fst snd]. fold s1.
  apply cycles_compose. split; [exact HR1|]. split; [exact Hpend|]. split; [exact Hlen|].
  intros j g st Hj Hsj. cbn [sts] in Hsj. rewrite (Hkeep g ltac:(eapply nth_error_In; eauto)). now apply (Hst j g st).
Qed.

(* ------------------------------------------------------------------ streams *)
Notation res := (net_of f).
Notation kstep := (C01Prim.kstep f).
Notation legal := (legal_steps f ins).

Lemma obs_same env s obs : Inv env s -> (forall o, In o obs -> ~ In o rqs) -> map (getv env) obs = map (rd (vals s)) obs.
Proof.
  intros ((_ & _ & Hag & _) & _) Hobs. apply map_ext_in. intros o Ho. unfold rd. symmetry. apply Hag. now apply Hobs.
Qed.

Lemma run_states_head s l : run_states d s l = s :: tl (run_states d s l).
Proof. destruct l; reflexivity. Qed.

Theorem stream_compose obs : (forall o, In o obs -> ~ In o rqs) -> forall steps env s, Inv env s -> legal steps ->
  vrun f (Some clk) env true steps obs = (map (fun s' => map (rd (vals s')) obs) (tl (run_states d s (map kstep steps))), true).
Proof.
  intros Hobs. induction steps as [|[pk n] steps IH]; intros env s HI Hleg; [reflexivity|].
  cbn [vrun map run_states tl].
  assert (Hpk : forall p, In p (map (fun p => (res (fst p), snd p)) pk) -> In (fst p) ins).
  { intros p Hp. apply in_map_iff in Hp. destruct Hp as (p0 & <- & Hp0). cbn [fst]. exact (Hleg (pk, n) (or_introl eq_refl) p0 Hp0). }
  destruct (step_compose env s _ n HI Hpk) as (env' & Hs & HI').
  change (map (fun p : string * Z => (match net_index (f_nets f) (fst p) 0 with Some i => i | None => length (f_nets f) end, snd p)) pk)
    with (map (fun p => (res (fst p), snd p)) pk).
  rewrite Hs. cbn [andb]. rewrite (IH env' _ HI' (fun st Hst => Hleg st (or_intror Hst))).
  change (map (fun p => (res (fst p), snd p)) pk, n) with (C01Prim.kstep f (pk, n)) in HI' |- *.
  set (s' := do_step d s (kstep (pk, n))) in *.
  rewrite (run_states_head s' (map kstep steps)). cbn [tl map]. now rewrite (obs_same env' s' obs HI' Hobs).
Qed.
End Seq.
