(* C01 finding `shared-module-aliased-ports`, as a machine-checked refutation.  py4hw renders a module shared by structureName() once, from
   the first instance met; if that instance has two ports on one wire the shared body reads one port twice.  The text below is what
   /repo's VerilogGenerator emits for   Add(x, x, r1); Add(a, b, r2)   (4-bit wires) in one parent:
     module Top(x,a,b,r1,r2);  Add4 i_add1(.a(x),.b(x),.r(r1));  Add4 i_add2(.a(a),.b(b),.r(r2));  endmodule
     module Add4(a,b,r);  wire w_ci;  assign w_ci = 0;  assign r = b + b + w_ci;  endmodule
   The kernel netlist of the same py4hw design (what the simulator runs): Constant 0 -> ci, AddCarryIn(a, b, ci) per instance, with the
   REGENERATED Constant_propagate / AddCarryIn_propagate leaves. *)
From V Require Import Base.Bits Gen.WireOps Gen.Helpers Gen.Prims Gen.Seq Model.VSyntax Model.VSem Model.Inline Model.SimKernel Model.Trace
  Model.C01Prim.
Local Open Scope string_scope.

Definition alias_port (d : dir) (n : string) : port := {| p_dir := d; p_reg := false; p_width := 4; p_name := n |}.
Definition alias_design : VSyntax.design :=
  [ {| m_name := "Top"; m_params := [];
       m_ports := [alias_port DIn "x"; alias_port DIn "a"; alias_port DIn "b"; alias_port DOut "r1"; alias_port DOut "r2"];
       m_items := [IInst "Add4" [] "i_add1" [("a", EId "x"); ("b", EId "x"); ("r", EId "r1")];
                   IInst "Add4" [] "i_add2" [("a", EId "a"); ("b", EId "b"); ("r", EId "r2")]] |};
    {| m_name := "Add4"; m_params := [];
       m_ports := [alias_port DIn "a"; alias_port DIn "b"; alias_port DOut "r"];
       m_items := [IWire "w_ci" 1; IAssign (LId "w_ci") (ENum 0);
                   IAssign (LId "r") (EBin BAdd (EBin BAdd (EId "b") (EId "b")) (EId "w_ci"))] |} ].

(* the elaborated text: nets x a b r1 r2 i_add1.w_ci i_add2.w_ci *)
Definition alias_flat : flat :=
  {| f_nets := [mk_net "x" 4 false 0 false; mk_net "a" 4 false 0 false; mk_net "b" 4 false 0 false; mk_net "r1" 4 false 0 false;
                mk_net "r2" 4 false 0 false; mk_net "i_add1.w_ci" 1 false 0 false; mk_net "i_add2.w_ci" 1 false 0 false];
     f_assigns := [(RLId 5 1, RNum 0); (RLId 3 4, RBin BAdd (RBin BAdd (RId 0 4 false) (RId 0 4 false)) (RId 5 1 false));
                   (RLId 6 1, RNum 0); (RLId 4 4, RBin BAdd (RBin BAdd (RId 2 4 false) (RId 2 4 false)) (RId 6 1 false))];
     f_procs := [] |}.

(* the simulator's netlist on the same nets *)
Definition alias_prims : list prim :=
  [PConstant (5%nat, 1) 0; PAddCI (3%nat, 4) (0%nat, 4) (0%nat, 4) (5%nat, 1);
   PConstant (6%nat, 1) 0; PAddCI (4%nat, 4) (1%nat, 4) (2%nat, 4) (6%nat, 1)].

Definition alias_steps : list (list (string * Z) * nat) := [([("x", 3); ("a", 1); ("b", 2)], 0%nat)].

Lemma alias_witness :
  elaborate alias_design 10 "Top" = inr alias_flat /\
  net_index (f_nets alias_flat) "clk" 0 = None /\
  legal_steps alias_flat [0%nat; 1%nat; 2%nat] alias_steps /\
  let kernel := comp_design alias_flat alias_prims [] in
  let ktrace := map (fun s => map (rd (vals s)) (resolve_names alias_flat ["r1"; "r2"]))
                    (run_states kernel (init_poked kernel (reg_st0 []) (reg_pokes [])) (map (kstep alias_flat) alias_steps)) in
  vsim alias_flat "clk" alias_steps ["r1"; "r2"] = ([[0; 0]; [6; 4]], true) /\
  ktrace = [[0; 0]; [6; 3]] /\
  vsim alias_flat "clk" alias_steps ["r1"; "r2"] <> (ktrace, true) /\
  match_flat alias_prims [] 0 [0%nat; 1%nat; 2%nat] alias_flat = false.
Proof.
  split; [vm_compute; reflexivity|]. split; [vm_compute; reflexivity|]. split.
  - intros st Hst p Hp. cbn in Hst. destruct Hst as [<-|[]]. cbn in Hp. destruct Hp as [<-|[<-|[<-|[]]]]; vm_compute; auto.
  - cbv zeta. split; [vm_compute; reflexivity|]. split; [vm_compute; reflexivity|]. split; [vm_compute; discriminate | vm_compute; reflexivity].
Qed.
