(* C01 composition with memories, step 1: what the generic proof needs to know about ONE sequential instance (register or
   synchronous memory): its process only queues writes to its own private nets; after the queue is applied the private nets show
   the state the regenerated clock() returns and `src` holds the value it prepares for the output. *)
From V Require Import Base.Bits Gen.WireOps Gen.Helpers Gen.Prims Gen.Seq Model.VSyntax Model.VSem Model.Inline Model.SimKernel
  Model.C01Prim Model.C01Mem Model.C01Seq Proofs.C04.Settle Proofs.C01.InlineSound Proofs.C01.RegSound Proofs.C01.ComposeComb
  Proofs.C01.ComposeEdge Proofs.C01.MemSound.
From Coq Require Import PeanoNat Arith.

Definition si_ok (f : flat) (s : sinst) : Prop := si_wf s = true /\ si_nets_ok f s = true.
Definition si_qof (env : list Z) (s : sinst) : list (target * Z) := snd (exec (si_proc s) (env, [])).

(* the regenerated clock() on the values the flat environment holds on the instance's input nets *)
Definition si_sim (env : list Z) (s : sinst) (st : sstate) : sstate * Z :=
  match s, st with
  | SReg g, StReg r => let '(r', q) := reg_sim env g r in (StReg r', q)
  | SMem m, StMem d =>
      let '(d', q) := SynchronousMemory_clock (snd (mi_rd m)) d (getv env (fst (mi_ra m))) (getv env (fst (mi_wa m)))
                                              (getv env (fst (mi_we m))) (getv env (fst (mi_wd m))) in (StMem d', q)
  | _, _ => (st, 0)
  end.

Lemma si_leaf_sim env s st : sinv s env st ->
  s_f (si_leaf s) st (map (getv env) (map fst (si_ins s))) = (fst (si_sim env s st), [Some (snd (si_sim env s st))]).
Proof.
  destruct s as [g|m], st as [r|d]; cbn [sinv]; intros H; try contradiction; cbn [si_leaf s_f si_sim si_ins].
  - rewrite reg_clock_sim. destruct (reg_sim env g r) as [r' q]. reflexivity.
  - unfold mem_clock. cbn [map nth fst].
    destruct (SynchronousMemory_clock _ _ _ _ _ _) as [d' q]. reflexivity.
Qed.

(* sinv looks at the private nets only *)
Lemma sinv_ext s E E' st : (forall p, In p (si_priv s) -> getv E' p = getv E p) -> sinv s E st -> sinv s E' st.
Proof.
  intros Hag. destruct s as [g|m], st as [r|d]; cbn [sinv]; auto.
  - intros H. rewrite Hag; [exact H | now left].
  - intros H. rewrite <- H. unfold mem_cells. apply map_ext_in. intros j Hj. apply Hag. right. cbn [si_cells]. now apply in_map.
Qed.

(* equal processes belong to instances with the same src net *)
Lemma si_proc_src s0 s : si_proc s0 = si_proc s -> fst (si_src s0) = fst (si_src s).
Proof.
  destruct s0 as [g0|m0], s as [g|m]; cbn [si_proc si_src]; intros H.
  - unfold reg_proc, body_reg_proc in H. destruct (rg_e g0), (rg_r g0), (rg_e g), (rg_r g); inversion H; congruence.
  - unfold reg_proc, body_reg_proc, body_syncmem_proc, mem_port_proc in H. destruct (rg_e g0), (rg_r g0); discriminate.
  - unfold reg_proc, body_reg_proc, body_syncmem_proc, mem_port_proc in H. destruct (rg_e g), (rg_r g); discriminate.
  - unfold body_syncmem_proc, mem_port_proc in H. inversion H. reflexivity.
Qed.

Lemma mem_nets_spec f base w d : mem_nets_ok f base w d = true ->
  forall j, (j < d)%nat -> exists x, nth_error (f_nets f) (base + j) = Some x /\ fn_width x = w.
Proof.
  unfold mem_nets_ok. rewrite forallb_forall. intros H j Hj. specialize (H j ltac:(apply in_seq; lia)).
  destruct (nth_error (f_nets f) (base + j)) as [x|]; [|discriminate]. exists x. split; [reflexivity|]. lia.
Qed.

(* everything the body theorem of the memory needs, from the per-design check *)
Lemma mem_ok_parts f env m : env_ok f env -> si_ok f (SMem m) -> NoDup (si_priv (SMem m)) ->
  0 < mi_w m /\ 0 < mi_aw m <= 31 /\ snd (mi_rd m) = mi_w m /\ snd (mi_ra m) = mi_aw m /\ snd (mi_wa m) = mi_aw m /\
  okn env (mi_rr m) /\ okn env (mi_ra m) /\ okn env (mi_wa m) /\ okn env (mi_we m) /\ okn env (mi_wd m) /\
  (mi_base m + mi_d m <= length env)%nat /\ (fst (mi_rr m) < length env)%nat /\
  ~ (mi_base m <= fst (mi_rr m) < mi_base m + mi_d m)%nat /\
  (forall j, (j < mi_d m)%nat -> 0 <= getv env (mi_base m + j) < 2 ^ mi_w m).
Proof.
  intros He [Hwf Hn] Hnd. cbn [si_wf] in Hwf.
  repeat (apply andb_prop in Hwf; let H := fresh "Hw" in destruct Hwf as [Hwf H]).
  unfold si_nets_ok in Hn. apply andb_prop in Hn. destruct Hn as [Hn Hcells]. cbn [si_nids si_src si_out si_ins forallb] in Hn.
  repeat (apply andb_prop in Hn; let H := fresh "Hn" in destruct Hn as [H Hn]).
  pose proof (mem_nets_spec f _ _ _ Hcells) as Hc.
  assert (Hd : (0 < mi_d m)%nat) by (unfold mi_d; pose proof (pow2_pos (mi_aw m) ltac:(lia)); lia).
  split; [lia|]. split; [lia|]. split; [lia|]. split; [lia|]. split; [lia|].
  split; [apply (env_ok_okn f); auto; unfold mi_w in *; lia|].
  split; [apply (env_ok_okn f); auto; lia|]. split; [apply (env_ok_okn f); auto; lia|].
  split; [apply (env_ok_okn f); auto; lia|]. split; [apply (env_ok_okn f); auto; lia|].
  split.
  { destruct (Hc (mi_d m - 1)%nat ltac:(lia)) as (x & Hx & _). rewrite (proj1 He).
    assert ((mi_base m + (mi_d m - 1) < length (f_nets f))%nat) by (apply nth_error_Some; congruence). lia. }
  split.
  { destruct (nid_ok_spec f _ Hn0) as (x & Hx & _). rewrite (proj1 He). apply nth_error_Some. cbn [si_src] in Hx. congruence. }
  split.
  { intros Hin. cbn [si_priv si_src si_cells] in Hnd. inversion Hnd as [|? ? Hnot _]; subst. apply Hnot.
    apply in_map_iff. exists (fst (mi_rr m) - mi_base m)%nat. split; [lia|]. apply in_seq. lia. }
  intros j Hj. destruct (Hc j Hj) as (x & Hx & Ex). rewrite <- Ex. now apply (proj2 He).
Qed.

Lemma in_cells m j : In j (si_cells (SMem m)) <-> (mi_base m <= j < mi_base m + mi_d m)%nat.
Proof.
  cbn [si_cells]. rewrite in_map_iff. split.
  - intros (k & <- & Hk). apply in_seq in Hk. lia.
  - intros H. exists (j - mi_base m)%nat. split; [lia|]. apply in_seq. lia.
Qed.

(* the process leaves the environment alone and queues whole-net writes to private nets only *)
Lemma si_exec f env s : env_ok f env -> si_ok f s -> NoDup (si_priv s) ->
  (forall Q, exec (si_proc s) (env, Q) = (env, Q ++ si_qof env s)) /\
  Forall (fun p => exists x, In (tnet (fst p)) (si_priv s) /\ nth_error (f_nets f) (tnet (fst p)) = Some x /\
                             fst p = (tnet (fst p), 0, fn_width x)) (si_qof env s).
Proof.
  intros He Hok Hnd. destruct s as [g|m].
  - split; [intros Q; exact (proj1 (reg_exec env g Q))|].
    destruct (reg_exec env g []) as [_ F]. destruct Hok as [_ Hn]. unfold si_nets_ok in Hn. apply andb_prop in Hn. destruct Hn as [Hn _].
    cbn [si_nids si_src forallb] in Hn. apply andb_prop in Hn. destruct Hn as [Hrq _]. destruct (nid_ok_spec f _ Hrq) as (x & Hx & Ex).
    eapply Forall_impl; [|exact F]. intros [t v] Ht. cbn [fst] in Ht |- *. subst t. unfold tnet. cbn [fst].
    exists x. split; [now left|]. split; [exact Hx|]. now rewrite Ex.
  - destruct (mem_ok_parts f env m He Hok Hnd) as (Hw & Haw & Hrdw & Hraw & Hwaw & Hrr & Hra & Hwa & Hwe & Hwd & Hlen & Hrl & Hrn & Hcells).
    destruct (addr_depth (mi_aw m) Haw) as (Hd & Hdz & Hlit). fold (mi_d m) in Hd, Hdz, Hlit.
    assert (Hwai : getv env (fst (mi_wa m)) < Z.of_nat (mi_d m)) by (destruct Hwa as [_ ?]; rewrite Hwaw in *; lia).
    pose proof (port_exec env (mi_base m) (mi_w m) (mi_d m) (mi_rr m) (mi_ra m) (mi_wa m) (mi_we m) (mi_wd m) Hd Hlit Hwa Hwe Hwai) as Ex.
    assert (Eq : si_qof env (SMem m) = mem_port_queue env (mi_base m) (mi_w m) (mi_d m) (mi_rr m) (mi_ra m) (mi_wa m) (mi_we m) (mi_wd m)).
    { unfold si_qof. cbn [si_proc]. unfold body_syncmem_proc. rewrite (Ex []). reflexivity. }
    split; [intros Q; rewrite Eq; exact (Ex Q)|]. rewrite Eq. unfold mem_port_queue.
    destruct Hok as [_ Hn]. unfold si_nets_ok in Hn. apply andb_prop in Hn. destruct Hn as [Hn Hmem].
    cbn [si_nids si_src forallb] in Hn. apply andb_prop in Hn. destruct Hn as [Hnrr _]. destruct (nid_ok_spec f _ Hnrr) as (xr & Hxr & Exr).
    apply Forall_app. split.
    + destruct (getv env (fst (mi_wa m)) =? 0); destruct (getv env (fst (mi_we m)) =? 0); try constructor; try constructor.
      all: set (k := Z.to_nat (getv env (fst (mi_wa m))));
           assert (Hk : (k < mi_d m)%nat) by (unfold k; destruct Hwa as [_ ?]; lia);
           destruct (mem_nets_spec f _ _ _ Hmem k Hk) as (x & Hx & Ex');
           unfold tnet; cbn [fst]; exists x; (split; [right; apply in_cells; lia|]); (split; [exact Hx|]); now rewrite Ex'.
    + constructor; [|constructor]. unfold tnet. cbn [fst]. exists xr. split; [now left|]. split; [exact Hxr|]. now rewrite Exr.
Qed.

(* after the instance's own queue: src holds the prepared output, the private nets show the new state, nothing else moved *)
Lemma si_edge f env s st : env_ok f env -> si_ok f s -> NoDup (si_priv s) -> sinv s env st ->
  let E' := apply_nbas env (si_qof env s) in
  length E' = length env /\
  getv E' (fst (si_src s)) = snd (si_sim env s st) /\
  sinv s E' (fst (si_sim env s st)) /\
  (forall j, ~ In j (si_priv s) -> getv E' j = getv env j) /\
  (forall p x, In p (si_priv s) -> nth_error (f_nets f) p = Some x -> 0 <= getv E' p < 2 ^ fn_width x) /\
  Wire_prepare (snd (si_out s)) (snd (si_sim env s st)) = snd (si_sim env s st).
Proof.
  intros He Hok Hnd Hinv. cbv zeta. destruct (si_exec f env s He Hok Hnd) as [Hex HF].
  destruct s as [g|m], st as [r|d]; cbn [sinv] in Hinv; try contradiction.
  - assert (Hg : reg_ok f g).
    { destruct Hok as [Hwf Hn]. split; [exact Hwf|]. unfold si_nets_ok in Hn. apply andb_prop in Hn. exact (proj1 Hn). }
    destruct (reg_edge_value f env g r He Hg Hinv) as [E1 E2].
    destruct (reg_ok_parts f env g He Hg) as (_ & _ & _ & [Hwq _] & _ & _ & _ & _ & Ew).
    cbn [si_sim si_src si_out si_priv si_cells]. change (si_qof env (SReg g)) with (reg_qof env g) in *.
    destruct (reg_sim env g r) as [r' q] eqn:Es. cbn [fst snd] in *.
    split; [apply apply_nbas_length|]. split; [exact E1|]. split; [cbn [sinv]; exact (eq_trans E1 E2)|]. split; [|split].
    + intros j Hj. apply apply_nbas_other. eapply Forall_impl; [|exact HF]. intros [t v] (x & Hin & _). cbn [fst] in *.
      intros E. apply Hj. rewrite <- E. exact Hin.
    + intros p x [Hp|[]] Hx. subst p. cbn [si_src] in Hx |- *. rewrite (eq_trans E1 E2).
      destruct Hg as [_ Hn]. unfold reg_nids in Hn. cbn [forallb] in Hn. apply andb_prop in Hn. destruct Hn as [Hnrq _].
      destruct (nid_ok_spec f _ Hnrq) as (x' & Hx' & Ex'). assert (x' = x) by congruence. subst x'. rewrite Ex', Ew. apply trunc_range. lia.
    + rewrite E2. rewrite Wire_prepare_is_trunc. apply trunc_idem. lia.
  - destruct (mem_ok_parts f env m He Hok Hnd) as (Hw & Haw & Hrdw & Hraw & Hwaw & Hrr & Hra & Hwa & Hwe & Hwd & Hlen & Hrl & Hrn & Hcells).
    pose proof (syncmem_sound env (mi_base m) (mi_aw m) (mi_w m) (mi_rr m) (mi_ra m) (mi_wa m) (mi_we m) (mi_wd m) d) as S.
    cbv zeta in S. fold (mi_d m) in S.
    specialize (S Hw Haw eq_refl Hraw Hwaw Hrr Hra Hwa Hwe Hwd Hlen Hrl Hrn Hinv).
    change (body_syncmem_proc (mi_base m) (mi_w m) (mi_d m) (mi_rr m) (mi_ra m) (mi_wa m) (mi_we m) (mi_wd m)) with (si_proc (SMem m)) in S.
    rewrite (Hex []) in S. cbn [app] in S.
    cbn [si_sim si_src si_out]. rewrite Hrdw.
    destruct (SynchronousMemory_clock (mi_w m) d _ _ _ _) as [d' q] eqn:Ec. cbn [fst snd].
    destruct S as (_ & Hl' & Hc' & Hr' & Ho').
    split; [exact Hl'|]. split; [exact Hr'|]. split; [exact Hc'|]. split; [|split].
    + intros j Hj. apply Ho'; [intros Hin; apply Hj; right; now apply in_cells | intros ->; apply Hj; now left].
    + assert (Hq : 0 <= q < 2 ^ mi_w m).
      { unfold SynchronousMemory_clock in Ec. cbv zeta in Ec. injection Ec as _ <-. rewrite Wire_prepare_is_trunc. apply trunc_range. lia. }
      intros p x [Hp0|Hp] Hx.
      * subst p. cbn [si_src] in Hx |- *. rewrite Hr'. destruct Hok as [_ Hn]. unfold si_nets_ok in Hn. apply andb_prop in Hn. destruct Hn as [Hn _].
        cbn [si_nids si_src forallb] in Hn. apply andb_prop in Hn. destruct Hn as [Hnrr _]. destruct (nid_ok_spec f _ Hnrr) as (x' & Hx' & Ex').
        assert (x' = x) by congruence. subst x'. rewrite Ex'. exact Hq.
      * apply in_cells in Hp. destruct (cells_in_range _ (mi_base m) (mi_d m) (mi_w m) _ ltac:(lia) Hc') as [_ Hr2].
        destruct Hok as [_ Hn]. unfold si_nets_ok in Hn. apply andb_prop in Hn. destruct Hn as [_ Hmem].
        destruct (mem_nets_spec f _ _ _ Hmem (p - mi_base m)%nat ltac:(lia)) as (x' & Hx' & Ex').
        replace (mi_base m + (p - mi_base m))%nat with p in Hx' by lia. assert (x' = x) by congruence. subst x'. rewrite Ex'.
        specialize (Hr2 (p - mi_base m)%nat ltac:(lia)). replace (mi_base m + (p - mi_base m))%nat with p in Hr2 by lia. exact Hr2.
    + unfold SynchronousMemory_clock in Ec. cbv zeta in Ec. injection Ec as _ <-. rewrite !Wire_prepare_is_trunc. apply trunc_idem. lia.
Qed.
