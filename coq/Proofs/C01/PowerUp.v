(* C01: power-up of a register.  The emitted `reg [w-1:0] rq = rv; assign q = rq;` shows trunc w rv on q once the continuous assignment has
   settled, before any clock edge: what Reg.__init__ puts on q (self.value = reset_value; q.put(self.value)).  Every width, every rv. *)
From V Require Import Base.Bits Gen.WireOps Model.VSyntax Model.VSem Model.Inline Proofs.C01.InlineSound Proofs.C01.ComposeComb.
Local Open Scope string_scope.

Definition reg_powerup_flat (w rv : Z) : flat :=
  {| f_nets := [mk_net "q" w false 0 false; mk_net "rq" w false rv true]; f_assigns := [(RLId 0 w, RId 1 w false)]; f_procs := [] |}.

Lemma powerup_pass w v x : 0 < w -> 0 <= v < 2 ^ w -> 0 <= x < 2 ^ w -> settle_pass (reg_powerup_flat w 0) [x; v] = [v; v].
Proof.
  intros Hw Hv Hx. unfold settle_pass, run_star. cbn [reg_powerup_flat f_assigns f_procs fold_left]. unfold do_assign. cbn [fst snd ltarget].
  rewrite write_whole_eq by (unfold getv; cbn [nth]; lia). cbn [set_nth]. f_equal.
  unfold assign_value. cbn [lwidth rsize rsigned reval extend]. unfold getv. cbn [nth]. rewrite Z.max_id.
  repeat rewrite (vtrunc_small w v) by lia. reflexivity.
Qed.

Theorem reg_powerup_shows_reset w rv : 0 < w ->
  VSem.settle (reg_powerup_flat w rv) (settle_fuel (reg_powerup_flat w rv)) (power_up (reg_powerup_flat w rv)) = ([trunc w rv; trunc w rv], true).
Proof.
  intros Hw. unfold power_up. cbn [reg_powerup_flat f_nets f_procs map fold_left fn_width fn_init mk_net].
  set (v := vtrunc w rv). assert (Hv : 0 <= v < 2 ^ w) by (unfold v, vtrunc; apply Z.mod_pos_bound, pow2_pos; lia).
  assert (Ev : trunc w rv = v) by (unfold v; symmetry; apply vtrunc_trunc; lia).
  assert (E0 : vtrunc w 0 = 0) by (unfold vtrunc; apply Z.mod_0_l, Z.pow_nonzero; lia). rewrite E0, Ev.
  assert (Hpass : forall x, 0 <= x < 2 ^ w -> settle_pass (reg_powerup_flat w rv) [x; v] = [v; v]) by (intros x Hx; exact (powerup_pass w v x Hw Hv Hx)).
  change (settle_fuel (reg_powerup_flat w rv)) with 3%nat. cbn [VSem.settle]. rewrite (Hpass 0) by lia.
  cbn [VSem.list_eqb]. destruct (Z.eqb_spec 0 v) as [<-|Hne].
  - reflexivity.
  - cbn [andb]. rewrite (Hpass v Hv). rewrite !Z.eqb_refl. reflexivity.
Qed.
