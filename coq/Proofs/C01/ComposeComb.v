(* C01 composition, step 3: the continuous assignments of a matched flat design, iterated by VSem.settle in TEXT order,
   stop (within settle_fuel passes) exactly at the valuation Simulator.propagateAll computes over the leaves. *)
From V Require Import Base.Bits Gen.WireOps Gen.Helpers Gen.Prims Model.VSyntax Model.VSem Model.Inline Model.SimKernel Model.C01Prim
  Spec.C04 Proofs.C04.Settle Proofs.C01.InlineSound Proofs.C01.ComposePrim Proofs.C01.ComposeKernel.
From Coq Require Import PeanoNat Arith.

(* ------------------------------------------------------------------ decidable equalities are sound *)
Lemma binop_tag_inj a b : binop_tag a = binop_tag b -> a = b.
Proof. destruct a, b; cbn; intros H; try reflexivity; discriminate. Qed.
Lemma unop_eqb_eq a b : unop_eqb a b = true -> a = b.
Proof. destruct a, b; cbn; intros H; try reflexivity; discriminate. Qed.

Ltac split_and H := repeat (apply andb_prop in H; let H2 := fresh "Hb" in destruct H as [H H2]).

Lemma rexpr_eqb_eq : forall a b, rexpr_eqb a b = true -> a = b.
Proof.
  induction a; destruct b; cbn [rexpr_eqb]; try discriminate; intros H; split_and H;
    repeat match goal with
           | H : (_ =? _)%Z = true |- _ => apply Z.eqb_eq in H
           | H : Nat.eqb _ _ = true |- _ => apply Nat.eqb_eq in H
           | H : Bool.eqb _ _ = true |- _ => apply eqb_prop in H
           | H : unop_eqb _ _ = true |- _ => apply unop_eqb_eq in H
           | H : binop_tag _ = binop_tag _ |- _ => apply binop_tag_inj in H
           | IH : forall b, rexpr_eqb ?a b = true -> ?a = b, H : rexpr_eqb ?a _ = true |- _ => apply IH in H
           end; subst; reflexivity.
Qed.

Lemma rlval_eqb_eq a b : rlval_eqb a b = true -> a = b.
Proof.
  destruct a, b; cbn [rlval_eqb]; try discriminate; intros H; split_and H;
    repeat match goal with
           | H : (_ =? _)%Z = true |- _ => apply Z.eqb_eq in H
           | H : Nat.eqb _ _ = true |- _ => apply Nat.eqb_eq in H
           | H : rexpr_eqb _ _ = true |- _ => apply rexpr_eqb_eq in H
           end; subst; reflexivity.
Qed.

Lemma assign_eqb_eq a b : assign_eqb a b = true -> a = b.
Proof.
  destruct a, b. unfold assign_eqb. cbn [fst snd]. intros H. split_and H.
  apply rlval_eqb_eq in H. apply rexpr_eqb_eq in Hb. now subst.
Qed.

Lemma mem_nat_In x l : mem_nat x l = true <-> In x l.
Proof.
  unfold mem_nat. rewrite existsb_exists. split.
  - intros (y & Hy & E). apply Nat.eqb_eq in E. now subst.
  - intros H. exists x. split; [exact H | apply Nat.eqb_refl].
Qed.

Lemma nodup_nat_NoDup l : nodup_nat l = true -> NoDup l.
Proof.
  induction l as [|x t IH]; cbn [nodup_nat]; intros H; [constructor|].
  apply andb_prop in H. destruct H as [H1 H2]. constructor; [|now apply IH].
  intros Hin. apply mem_nat_In in Hin. unfold mem_nat in Hin. rewrite Hin in H1. discriminate.
Qed.

Lemma NoDup_map_inj {A B} (g : A -> B) (l : list A) x y : NoDup (map g l) -> In x l -> In y l -> g x = g y -> x = y.
Proof.
  induction l as [|z t IH]; cbn [map]; intros Hnd Hx Hy E; [destruct Hx|].
  inversion Hnd as [|? ? Hnot Hnd']; subst.
  destruct Hx as [->|Hx], Hy as [->|Hy]; auto.
  - exfalso. apply Hnot. rewrite E. now apply in_map.
  - exfalso. apply Hnot. rewrite <- E. now apply in_map.
Qed.

Lemma vlist_eqb_eq : forall a b, VSem.list_eqb a b = true <-> a = b.
Proof.
  induction a as [|x a IH]; destruct b as [|y b]; cbn [VSem.list_eqb]; split; intros H; try discriminate; auto.
  - apply andb_prop in H. destruct H as [H1 H2]. apply Z.eqb_eq in H1. apply IH in H2. now subst.
  - injection H as -> ->. rewrite Z.eqb_refl. cbn. now apply IH.
Qed.

(* ------------------------------------------------------------------ shape of a primitive's text (no guards needed) *)
Lemma inl_bits_length a bits : length (inl_bits a bits) = length bits.
Proof.
  destruct bits as [|b0 [|b1 t]]; [reflexivity | reflexivity |].
  unfold inl_bits. rewrite map_length, combine_length, seq_length. apply Nat.min_id.
Qed.

Lemma prim_assigns_shape p : exists l e, prim_assigns p = [(l, e)] /\ lnet l = fst (prim_out p).
Proof.
  destruct p; cbn [prim_assigns prim_out]; try (do 2 eexists; split; reflexivity);
    try (destruct ins as [|x t]; do 2 eexists; split; reflexivity);
    try (match goal with |- context [inl_range] => unfold inl_range | |- context [inl_signextend] => unfold inl_signextend end;
         match goal with |- context [if ?c then _ else _] => destruct c end; do 2 eexists; split; reflexivity).
  - unfold inl_constant. destruct (1 <? snd r); do 2 eexists; split; reflexivity.
  - destruct (nth k (inl_bits a bits) (whole (nth k bits (O, 0)), RNum 0)) as [l e] eqn:E. exists l, e. split; [reflexivity|].
    destruct (Nat.lt_ge_cases k (length bits)) as [Hlt|Hge].
    + rewrite inl_bits_nth in E by exact Hlt. injection E as <- _. reflexivity.
    + rewrite nth_overflow in E by (rewrite inl_bits_length; exact Hge). injection E as <- _. reflexivity.
Qed.

Lemma leaf_outs ps : flat_map c_out (map prim_leaf ps) = map (fun p => fst (prim_out p)) ps.
Proof. induction ps as [|p t IH]; cbn; [reflexivity | now rewrite IH]. Qed.

Lemma assigns_nets ps : map (fun a => lnet (fst a)) (flat_map prim_assigns ps) = map (fun p => fst (prim_out p)) ps.
Proof.
  induction ps as [|p t IH]; cbn [flat_map map]; [reflexivity|].
  destruct (prim_assigns_shape p) as (l & e & E & Hl). rewrite E. cbn [app map fst]. now rewrite Hl, IH.
Qed.

Lemma prim_leaf_definite p : definite (prim_leaf p).
Proof. intros ins. cbn. split; [reflexivity|]. constructor; [discriminate|constructor]. Qed.

(* ------------------------------------------------------------------ `pordered` decides C04's `ordered` *)
Lemma feeds_pfeeds a b : feeds (prim_leaf a) (prim_leaf b) -> pfeeds a b = true.
Proof.
  intros (w & Hout & Hin). cbn in Hout. destruct Hout as [<-|[]]. unfold pfeeds. now apply mem_nat_In.
Qed.

Lemma pordered_sound ps : pordered ps = true -> ordered (map prim_leaf ps).
Proof.
  induction ps as [|b rest IH]; intros H i j x y Hi Hj Hf; [destruct i; discriminate|].
  cbn [pordered] in H. apply andb_prop in H. destruct H as [H H3]. apply andb_prop in H. destruct H as [H1 H2].
  cbn [map] in Hi, Hj. destruct i as [|i], j as [|j]; cbn [nth_error] in Hi, Hj.
  - injection Hi as <-. injection Hj as <-. apply feeds_pfeeds in Hf. rewrite Hf in H1. discriminate.
  - apply Nat.lt_0_succ.
  - injection Hj as <-. exfalso. apply nth_error_In in Hi. apply in_map_iff in Hi. destruct Hi as (a & <- & Ha).
    apply feeds_pfeeds in Hf. rewrite forallb_forall in H2. specialize (H2 a Ha). rewrite Hf in H2. discriminate.
  - apply -> Nat.succ_lt_mono. exact (IH H3 i j x y Hi Hj Hf).
Qed.

(* ------------------------------------------------------------------ environments *)
Lemma getv_set_nth_eq env i x : (i < length env)%nat -> getv (set_nth env i x) i = x.
Proof. unfold getv. revert i; induction env as [|y t IH]; intros [|i] H; cbn in *; try lia; auto. apply IH; lia. Qed.

Lemma getv_set_nth_ne env i j x : i <> j -> getv (set_nth env i x) j = getv env j.
Proof. unfold getv. revert i j; induction env as [|y t IH]; intros [|i] [|j] H; cbn; auto; try congruence. Qed.

Lemma nth_width f i n : nth_error (f_nets f) i = Some n -> nth i (map fn_width (f_nets f)) 0 = fn_width n.
Proof. intros H. apply nth_error_nth. now rewrite nth_error_map, H. Qed.

Lemma nid_ok_spec f n : nid_ok f n = true -> exists x, nth_error (f_nets f) (fst n) = Some x /\ fn_width x = snd n.
Proof.
  unfold nid_ok. destruct (nth_error (f_nets f) (fst n)) as [x|]; [|discriminate].
  intros H. apply Z.eqb_eq in H. eauto.
Qed.

Lemma env_ok_okn f env n : env_ok f env -> nid_ok f n = true -> 0 < snd n -> okn env n.
Proof.
  intros [_ Hr] Hn Hw. destruct (nid_ok_spec f n Hn) as (x & Hx & E). split; [exact Hw|]. rewrite <- E. now apply Hr.
Qed.

Lemma env_ok_set f env i n v : env_ok f env -> nth_error (f_nets f) i = Some n -> 0 <= v < 2 ^ fn_width n ->
  env_ok f (set_nth env i v).
Proof.
  intros [Hl Hr] Hi Hv. split; [now rewrite set_nth_length|]. intros j m Hj.
  destruct (Nat.eq_dec i j) as [->|Hne].
  - rewrite getv_set_nth_eq; [congruence|]. rewrite Hl. apply nth_error_Some. congruence.
  - rewrite getv_set_nth_ne by exact Hne. now apply Hr.
Qed.

(* a whole-net write of an in-range net stores the truncated value *)
Lemma write_whole_eq env i w v : 0 <= w -> 0 <= getv env i < 2 ^ w -> write env (i, 0, w) v = set_nth env i (vtrunc w v).
Proof.
  intros Hw Hv. unfold write. rewrite !Z.shiftl_0_r, Z.shiftr_0_r. rewrite (vtrunc_small w (getv env i)) by lia.
  f_equal. lia.
Qed.

(* ------------------------------------------------------------------ one assign = one leaf evaluation *)
Section Bridge.
Context {St : Type}.
Variable f : flat.
Variable d : design St.
Hypothesis Hwd : widths d = map fn_width (f_nets f).

Definition prim_ok (p : prim) : Prop := prim_wf p = true /\ forallb (nid_ok f) (prim_nids p) = true.

Lemma prim_ok_okn env p : env_ok f env -> prim_ok p -> Forall (okn env) (prim_ins p).
Proof.
  intros He [Hwf Hn]. cbn [prim_nids forallb] in Hn. apply andb_prop in Hn. destruct Hn as [_ Hn].
  unfold prim_wf in Hwf. apply andb_prop in Hwf. destruct Hwf as [Hwf _]. apply andb_prop in Hwf. destruct Hwf as [_ Hwi].
  rewrite forallb_forall in Hn, Hwi. apply Forall_forall. intros n Hin.
  apply (env_ok_okn f); auto. specialize (Hwi n Hin). lia.
Qed.

Lemma assign_is_leaf env p : env_ok f env -> prim_ok p ->
  fold_left do_assign (prim_assigns p) env = propagate1 d env (prim_leaf p) /\
  env_ok f (propagate1 d env (prim_leaf p)).
Proof.
  intros He Hp. pose proof (prim_ok_okn env p He Hp) as Hok. destruct Hp as [Hwf Hn].
  destruct (prim_sound env p Hwf Hok) as (l & e & E & Ht & _ & Hv).
  cbn [prim_nids forallb] in Hn. apply andb_prop in Hn. destruct Hn as [Hr _].
  destruct (nid_ok_spec f _ Hr) as (x & Hx & Ew).
  assert (Hw : 0 < snd (prim_out p)).
  { unfold prim_wf in Hwf. apply andb_prop in Hwf. destruct Hwf as [Hwf _]. apply andb_prop in Hwf. destruct Hwf as [Hwf _]. lia. }
  assert (Hrange : 0 <= getv env (fst (prim_out p)) < 2 ^ snd (prim_out p)) by (rewrite <- Ew; now apply (proj2 He)).
  assert (Hleaf : propagate1 d env (prim_leaf p) = set_nth env (fst (prim_out p)) (trunc (snd (prim_out p)) (prim_fn p (ins_vals env p)))).
  { unfold propagate1. cbn [prim_leaf c_out c_in c_f write_outs]. rewrite Hwd, (nth_width f _ x Hx), Ew. reflexivity. }
  split.
  - rewrite E. cbn [fold_left]. unfold do_assign. cbn [fst snd]. rewrite Ht.
    rewrite write_whole_eq by (auto; lia). rewrite Hv, vtrunc_trunc by lia. now rewrite Hleaf.
  - rewrite Hleaf. apply (env_ok_set f env _ x); auto. rewrite Ew. apply trunc_range. lia.
Qed.

Lemma assigns_are_leaves : forall ps env, env_ok f env -> (forall p, In p ps -> prim_ok p) ->
  fold_left do_assign (flat_map prim_assigns ps) env = fold_left (propagate1 d) (map prim_leaf ps) env /\
  env_ok f (fold_left (propagate1 d) (map prim_leaf ps) env).
Proof.
  induction ps as [|p ps IH]; intros env He Hps; [split; [reflexivity | exact He]|].
  cbn [flat_map map fold_left]. rewrite fold_left_app.
  destruct (assign_is_leaf env p He (Hps p (or_introl eq_refl))) as [E He'].
  rewrite E. apply IH; auto. intros q Hq. apply Hps. now right.
Qed.
End Bridge.

Lemma no_star_run f env : no_star f = true -> run_star f env = env.
Proof.
  unfold no_star, run_star. revert env. induction (f_procs f) as [|p t IH]; intros env H; [reflexivity|].
  cbn [forallb] in H. apply andb_prop in H. destruct H as [H1 H2]. cbn [fold_left].
  destruct (fst p); try discriminate; now apply IH.
Qed.

(* ------------------------------------------------------------------ the settle loop *)
Section Loop.
Context {St : Type}.
Variable f : flat.
Variables ps ps_t : list prim.
Let d : design St := comb_design St f ps.
Let cs_k := map prim_leaf ps.
Let cs_t := map prim_leaf ps_t.
Hypothesis Hasg : f_assigns f = flat_map prim_assigns ps_t.
Hypothesis Hstar : no_star f = true.
Hypothesis Hok : forall p, In p ps_t -> prim_ok f p.
Hypothesis Hord : ordered cs_k.
Hypothesis Hsd : single_driver cs_k.
Hypothesis Hsdt : single_driver cs_t.
Hypothesis Htk : incl cs_t cs_k.
Hypothesis Hkt : incl cs_k cs_t.
Variable env0 : list Z.

Lemma Hdef : forall c, In c cs_k -> definite c.
Proof. intros c Hc. apply in_map_iff in Hc. destruct Hc as (p & <- & _). apply prim_leaf_definite. Qed.

Lemma pass_is_fold env : env_ok f env ->
  settle_pass f env = fold_left (propagate1 d) cs_t env /\ env_ok f (settle_pass f env).
Proof.
  intros He. unfold settle_pass. rewrite no_star_run by exact Hstar. rewrite Hasg.
  destruct (assigns_are_leaves f d eq_refl ps_t env He Hok) as [E He']. rewrite E. split; [reflexivity | exact He'].
Qed.

Notation vstar := (propagateAll d env0).

Lemma settle_partial : forall fuel k env env', agree d cs_k env0 k env -> env_ok f env ->
  VSem.settle f fuel env = (env', true) -> env' = vstar.
Proof.
  induction fuel as [|m IH]; intros k env env' Hag He Hs; cbn [VSem.settle] in Hs; [discriminate|].
  destruct (pass_is_fold env He) as [Ep He']. cbv zeta in Hs.
  destruct (VSem.list_eqb env (settle_pass f env)) eqn:Eq.
  - injection Hs as <-. apply vlist_eqb_eq in Eq.
    apply (fix_is_vstar d cs_k Hord Hsd Hdef env0 cs_t Hkt Hsdt k env Hag). now rewrite <- Ep.
  - apply (IH (S k) (settle_pass f env) env'); auto. rewrite Ep.
    exact (agree_pass d cs_k Hord Hsd Hdef env0 cs_t Htk Hkt k env Hag).
Qed.

Lemma settle_total : forall fuel k env, agree d cs_k env0 k env -> env_ok f env ->
  (k <= length cs_k)%nat -> (length cs_k < fuel + k)%nat -> VSem.settle f fuel env = (vstar, true).
Proof.
  induction fuel as [|m IH]; intros k env Hag He Hk Hfuel; [lia|]. cbn [VSem.settle].
  destruct (pass_is_fold env He) as [Ep He']. cbv zeta.
  destruct (VSem.list_eqb env (settle_pass f env)) eqn:Eq.
  - apply vlist_eqb_eq in Eq. f_equal.
    apply (fix_is_vstar d cs_k Hord Hsd Hdef env0 cs_t Hkt Hsdt k env Hag). now rewrite <- Ep.
  - destruct (Nat.eq_dec k (length cs_k)) as [->|Hne].
    + (* already final: the pass is the identity, so the comparison cannot fail *)
      exfalso. assert (Ev : env = vstar) by (apply (agree_all d cs_k env0 env Hag)).
      assert (Eid : settle_pass f env = env).
      { rewrite Ep, Ev. exact (vstar_pass_id d cs_k Hord Hsd env0 cs_t Htk). }
      rewrite Eid in Eq. assert (VSem.list_eqb env env = true) by (now apply vlist_eqb_eq). congruence.
    + apply (IH (S k)); auto; try lia. rewrite Ep.
      exact (agree_pass d cs_k Hord Hsd Hdef env0 cs_t Htk Hkt k env Hag).
Qed.
End Loop.

(* ------------------------------------------------------------------ from the decidable check to the hypotheses *)
Section Match.
Variable f : flat.
Variable ps : list prim.
Hypothesis Hm : match_comb ps f = true.
Hypothesis Hwf : forallb prim_wf ps = true.

Lemma match_parts :
  (forall a, In a (f_assigns f) -> exists p, In p ps /\ In a (prim_assigns p)) /\
  (forall p, In p ps -> forall a, In a (prim_assigns p) -> In a (f_assigns f)) /\
  NoDup (map (fun p => fst (prim_out p)) ps) /\
  NoDup (map (fun a => lnet (fst a)) (f_assigns f)) /\
  (forall p, In p ps -> prim_ok f p) /\
  no_star f = true.
Proof.
  unfold match_comb in Hm.
  apply andb_prop in Hm. destruct Hm as [Hm1 H6]. apply andb_prop in Hm1. destruct Hm1 as [Hm1 H5].
  apply andb_prop in Hm1. destruct Hm1 as [Hm1 H4]. apply andb_prop in Hm1. destruct Hm1 as [Hm1 H3].
  apply andb_prop in Hm1. destruct Hm1 as [H1 H2].
  repeat split.
  - intros a Ha. rewrite forallb_forall in H1. specialize (H1 a Ha). apply existsb_exists in H1.
    destruct H1 as (p & Hp & Hx). apply existsb_exists in Hx. destruct Hx as (a' & Ha' & E).
    apply assign_eqb_eq in E. subst a'. eauto.
  - intros p Hp a Ha. rewrite forallb_forall in H2. specialize (H2 p Hp). unfold has_assigns in H2.
    rewrite forallb_forall in H2. specialize (H2 a Ha). unfold has_assign in H2. apply existsb_exists in H2.
    destruct H2 as (a' & Ha' & E). apply assign_eqb_eq in E. now subst.
  - now apply nodup_nat_NoDup.
  - now apply nodup_nat_NoDup.
  - rewrite forallb_forall in Hwf. now apply Hwf.
  - rewrite forallb_forall in H5. now apply H5.
  - exact H6.
Qed.

(* the primitives in the order their assigns appear in the text *)
Lemma text_order : exists ps_t, f_assigns f = flat_map prim_assigns ps_t /\ incl ps_t ps /\ incl ps ps_t.
Proof.
  destruct match_parts as (H1 & H2 & Hnk & Hnt & _ & _).
  assert (Hex : forall l, (forall a, In a l -> exists p, In p ps /\ In a (prim_assigns p)) ->
                          exists pt, l = flat_map prim_assigns pt /\ incl pt ps).
  { induction l as [|a l IH]; intros Hl.
    - exists []. split; [reflexivity | intros x []].
    - destruct (Hl a (or_introl eq_refl)) as (p & Hp & Ha).
      destruct IH as (pt & E & Hi); [intros b Hb; apply Hl; now right|].
      exists (p :: pt). split.
      + cbn [flat_map]. destruct (prim_assigns_shape p) as (l0 & e0 & Es & _). rewrite Es in Ha |- *.
        destruct Ha as [<-|[]]. cbn [app]. now rewrite E.
      + intros x [<-|Hx]; auto. }
  destruct (Hex (f_assigns f) H1) as (pt & E & Hi). exists pt. split; [exact E|]. split; [exact Hi|].
  intros p Hp. destruct (prim_assigns_shape p) as (l & e & Es & Hl).
  assert (Ha : In (l, e) (f_assigns f)) by (apply (H2 p Hp); rewrite Es; now left).
  rewrite E in Ha. apply in_flat_map in Ha. destruct Ha as (p' & Hp' & Ha').
  destruct (prim_assigns_shape p') as (l' & e' & Es' & Hl'). rewrite Es' in Ha'. destruct Ha' as [Ea|[]].
  injection Ea as -> ->.
  assert (p' = p).
  { apply (NoDup_map_inj (fun p => fst (prim_out p)) ps); auto. cbn beta. congruence. }
  now subst.
Qed.
End Match.

(* ------------------------------------------------------------------ the theorems *)
Section Main.
Context (St : Type).
Variable f : flat.
Variable ps : list prim.

Theorem comb_compose_both : match_comb ps f = true -> forallb prim_wf ps = true -> ordered (map prim_leaf ps) ->
  forall env0, env_ok f env0 ->
  (forall fuel env', VSem.settle f fuel env0 = (env', true) -> env' = propagateAll (comb_design St f ps) env0) /\
  (forall fuel, (length ps < fuel)%nat -> VSem.settle f fuel env0 = (propagateAll (comb_design St f ps) env0, true)) /\
  (length ps < settle_fuel f)%nat.
Proof.
  intros Hm Hwf Hord env0 He.
  destruct (match_parts f ps Hm Hwf) as (H1 & H2 & Hnk & Hnt & Hok & Hstar).
  destruct (text_order f ps Hm Hwf) as (ps_t & Easg & Htk & Hkt).
  assert (Hsd : single_driver (map prim_leaf ps)) by (unfold single_driver; now rewrite leaf_outs).
  assert (Hsdt : single_driver (map prim_leaf ps_t)).
  { unfold single_driver. rewrite leaf_outs, <- assigns_nets, <- Easg. exact Hnt. }
  assert (Hokt : forall p, In p ps_t -> prim_ok f p) by (intros p Hp; apply Hok, Htk, Hp).
  assert (Hi1 : incl (map prim_leaf ps_t) (map prim_leaf ps)) by (now apply incl_map).
  assert (Hi2 : incl (map prim_leaf ps) (map prim_leaf ps_t)) by (now apply incl_map).
  pose proof (agree_start (comb_design St f ps) (map prim_leaf ps) env0) as Hag0.
  split; [|split].
  - intros fuel env' Hs.
    exact (settle_partial f ps ps_t Easg Hstar Hokt Hord Hsd Hsdt Hi1 Hi2 env0 fuel 0%nat env0 env' Hag0 He Hs).
  - intros fuel Hfuel.
    apply (settle_total f ps ps_t Easg Hstar Hokt Hord Hsd Hsdt Hi1 Hi2 env0 fuel 0%nat env0 Hag0 He); rewrite ?map_length; lia.
  - unfold settle_fuel. rewrite Easg.
    assert (Hle : (length ps <= length ps_t)%nat).
    { apply NoDup_incl_length; [|exact Hkt]. eapply NoDup_map_inv; exact Hnk. }
    assert (Hlen : length (flat_map prim_assigns ps_t) = length ps_t).
    { rewrite <- (map_length (fun a => lnet (fst a))), assigns_nets. apply map_length. }
    rewrite Hlen. lia.
Qed.

(* whatever order the assigns appear in the text: IF the settle loop reports a fixpoint, it is the simulator's valuation *)
Theorem comb_compose : match_comb ps f = true -> forallb prim_wf ps = true -> ordered (map prim_leaf ps) ->
  forall env0, env_ok f env0 ->
  forall fuel env', VSem.settle f fuel env0 = (env', true) -> env' = propagateAll (comb_design St f ps) env0.
Proof. intros Hm Hwf Hord env0 He. exact (proj1 (comb_compose_both Hm Hwf Hord env0 He)). Qed.

(* ... and it DOES report one within the fuel VSem uses *)
Theorem comb_settles : match_comb ps f = true -> forallb prim_wf ps = true -> ordered (map prim_leaf ps) ->
  forall env0, env_ok f env0 ->
  VSem.settle f (settle_fuel f) env0 = (propagateAll (comb_design St f ps) env0, true).
Proof.
  intros Hm Hwf Hord env0 He. destruct (comb_compose_both Hm Hwf Hord env0 He) as (_ & H & Hf). now apply H.
Qed.

(* the decidable per-design check implies the hypotheses *)
Theorem match_flat_comb_sound : match_flat_comb ps f = true ->
  forall env0, env_ok f env0 ->
  VSem.settle f (settle_fuel f) env0 = (propagateAll (comb_design St f ps) env0, true).
Proof.
  unfold match_flat_comb. intros H env0 He. apply andb_prop in H. destruct H as [H H3]. apply andb_prop in H. destruct H as [H1 H2].
  apply comb_settles; auto. now apply pordered_sound.
Qed.
End Main.
