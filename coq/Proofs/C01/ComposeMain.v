(* C01 composition, step 5: from the decidable per-design check `match_flat` to the hypotheses of the composition lemmas;
   power-up; the end-to-end statement about VSem.vsim. *)
From V Require Import Base.Bits Gen.WireOps Gen.Helpers Gen.Prims Gen.Seq Model.VSyntax Model.VSem Model.Inline Model.SimKernel Model.Trace
  Model.C01Prim Spec.C04 Proofs.C04.Settle Proofs.C01.InlineSound Proofs.C01.RegSound Proofs.C01.ComposePrim Proofs.C01.ComposeKernel
  Proofs.C01.ComposeComb Proofs.C01.ComposeEdge Proofs.C01.ComposeSeq.
From Coq Require Import PeanoNat Arith.

Lemma sim_rel_Inv f gs env s : sim_rel f gs env s <-> Inv f gs env s.
Proof. reflexivity. Qed.

Lemma in_combine_seq {A} : forall (l : list A) a i x, nth_error l i = Some x -> In ((a + i)%nat, x) (combine (seq a (length l)) l).
Proof.
  induction l as [|y l IH]; intros a [|i] x H; cbn in *; try discriminate.
  - injection H as ->. left. f_equal. lia.
  - right. replace (a + S i)%nat with (S a + i)%nat by lia. now apply IH.
Qed.

Lemma nth_zeros {A} (l : list A) w : nth w (map (fun _ => 0) l) 0 = 0.
Proof. revert w; induction l as [|x l IH]; intros [|w]; cbn; auto. Qed.

Section Main.
Variable f : flat.
Variable ps : list prim.
Variable gs : list reginst.
Variable clk : nat.
Variable ins : list nat.
Hypothesis Hm : match_flat ps gs clk ins f = true.

Let rqs := map (fun g => fst (rg_rq g)) gs.
Let qs := map (fun g => fst (rg_q g)) gs.
Let all := map reg_buf gs ++ ps.
Let d := comp_design f ps gs.

Lemma negb_mem x l : negb (mem_nat x l) = true -> ~ In x l.
Proof. intros H Hin. apply mem_nat_In in Hin. rewrite Hin in H. discriminate. Qed.

Lemma parts :
  match_comb all f = true /\ forallb prim_wf all = true /\ pordered all = true /\
  (forall g, In g gs -> reg_ok f g) /\ procs_match clk (f_procs f) gs = true /\ NoDup rqs /\
  (forall p, In p ps -> forall n, In n (prim_nids p) -> ~ In (fst n) rqs) /\
  (forall g, In g gs -> forall n, In n (rg_q g :: reg_ins g) -> ~ In (fst n) rqs) /\
  (forall i, In i ins -> ~ In i rqs /\ ~ In i (map (fun p => fst (prim_out p)) all) /\ (i < length (f_nets f))%nat) /\
  init_ok f gs = true.
Proof.
  unfold match_flat in Hm. fold rqs in Hm. fold all in Hm.
  apply andb_prop in Hm. destruct Hm as [H H11]. apply andb_prop in H. destruct H as [H H10].
  apply andb_prop in H. destruct H as [H H9]. apply andb_prop in H. destruct H as [H H8].
  apply andb_prop in H. destruct H as [H H7]. apply andb_prop in H. destruct H as [H H6].
  apply andb_prop in H. destruct H as [H H5]. apply andb_prop in H. destruct H as [H H4].
  apply andb_prop in H. destruct H as [H H3]. apply andb_prop in H. destruct H as [H1 H2].
  split; [exact H1|]. split; [exact H2|]. split; [exact H3|]. split.
  { intros g Hg. rewrite forallb_forall in H4, H5. split; [now apply H4 | now apply H5]. }
  split; [exact H6|]. split; [now apply nodup_nat_NoDup|]. split.
  { intros p Hp n Hn. rewrite forallb_forall in H8. specialize (H8 p Hp). rewrite forallb_forall in H8. apply negb_mem. now apply H8. }
  split.
  { intros g Hg n Hn. rewrite forallb_forall in H9. specialize (H9 g Hg). rewrite forallb_forall in H9. apply negb_mem. now apply H9. }
  split; [|exact H11].
  intros i Hi. rewrite forallb_forall in H10. specialize (H10 i Hi).
  apply andb_prop in H10. destruct H10 as [Ha Hc]. apply andb_prop in Ha. destruct Ha as [Ha Hb].
  split; [now apply negb_mem|]. split; [now apply negb_mem|]. now apply Nat.ltb_lt.
Qed.

Lemma init_parts :
  (forall n, In n (f_nets f) -> 0 < fn_width n) /\
  (forall g, In g gs -> exists x, nth_error (f_nets f) (fst (rg_rq g)) = Some x /\ fn_init x = rg_rv g) /\
  (forall i n, nth_error (f_nets f) i = Some n -> ~ In i rqs -> fn_init n = 0).
Proof.
  destruct parts as (_ & _ & _ & _ & _ & _ & _ & _ & _ & Hi). unfold init_ok in Hi.
  apply andb_prop in Hi. destruct Hi as [Hi H3]. apply andb_prop in Hi. destruct Hi as [H1 H2].
  split; [|split].
  - intros n Hn. rewrite forallb_forall in H1. specialize (H1 n Hn). lia.
  - intros g Hg. rewrite forallb_forall in H2. specialize (H2 g Hg).
    destruct (nth_error (f_nets f) (fst (rg_rq g))) as [x|]; [|discriminate]. exists x. split; [reflexivity | lia].
  - intros i n Hn Hnot. rewrite forallb_forall in H3. specialize (H3 (i, n) (in_combine_seq (f_nets f) 0 i n Hn)).
    cbn [fst snd] in H3. apply orb_prop in H3. destruct H3 as [H3|H3]; [|lia].
    exfalso. apply Hnot. now apply mem_nat_In.
Qed.

(* ---------------------------------------------------------------- the step and stream theorems under the check *)
Theorem step_under_match env s pk n : sim_rel f gs env s -> (forall p, In p pk -> In (fst p) ins) ->
  exists env', vstep f (Some clk) env pk n = (env', true) /\ sim_rel f gs env' (do_step d s (pk, n)).
Proof.
  destruct parts as (H1 & H2 & H3 & H4 & H5 & H6 & H7 & H8 & H9 & _). destruct init_parts as (Hw & _).
  exact (step_compose f ps gs clk ins H1 H2 H3 H4 H5 H6 H7 H8 H9 Hw env s pk n).
Qed.

Theorem stream_under_match obs : (forall o, In o obs -> ~ In o rqs) -> forall steps env s, sim_rel f gs env s -> legal_steps f ins steps ->
  vrun f (Some clk) env true steps obs = (map (fun s' => map (rd (vals s')) obs) (tl (run_states d s (map (kstep f) steps))), true).
Proof.
  destruct parts as (H1 & H2 & H3 & H4 & H5 & H6 & H7 & H8 & H9 & _). destruct init_parts as (Hw & _).
  exact (stream_compose f ps gs clk ins H1 H2 H3 H4 H5 H6 H7 H8 H9 Hw obs).
Qed.

(* ---------------------------------------------------------------- power-up *)
Lemma init_fold_id : forall (procs : list (ptrig * rstmt)) (env : list Z),
  (forall p, In p procs -> exists c s, p = (TPos c, s)) ->
  fold_left (fun env p => match fst p with
                          | TInit => let '(e1, q) := exec (snd p) (env, []) in apply_nbas e1 q
                          | _ => env end) procs env = env.
Proof.
  induction procs as [|p t IH]; intros env Hall; [reflexivity|]. cbn [fold_left].
  destruct (Hall p (or_introl eq_refl)) as (c & s & ->). cbn [fst]. apply IH. intros q Hq. apply Hall. now right.
Qed.

Lemma power_up_env : power_up f = map (fun n => vtrunc (fn_width n) (fn_init n)) (f_nets f).
Proof.
  destruct parts as (_ & _ & _ & _ & Hp & _). destruct (procs_parts f gs clk Hp) as [Hall _].
  unfold power_up. apply init_fold_id. intros p Hp'. destruct (Hall p Hp') as (g & _ & ->). eauto.
Qed.

Lemma getv_power_up i n : nth_error (f_nets f) i = Some n -> getv (power_up f) i = vtrunc (fn_width n) (fn_init n).
Proof.
  intros H. rewrite power_up_env. unfold getv. apply nth_error_nth. now rewrite nth_error_map, H.
Qed.

Lemma poke_fold_vals : forall pk (s : state Reg_state),
  let s' := fold_left (fun s p => poke d s (fst p) (snd p)) pk s in
  vals s' = fold_left SimKernel.settle (map (fun p => (fst p, Wire_put (nth (fst p) (widths d) 0) (snd p))) pk) (vals s) /\
  pend s' = pend s /\ sts s' = sts s.
Proof.
  induction pk as [|p pk IH]; intros s; cbv zeta; [auto|]. cbn [fold_left map].
  destruct (IH (poke d s (fst p) (snd p))) as (Hv & Hp & Hs). cbv zeta in Hv, Hp, Hs. rewrite Hv, Hp, Hs. auto.
Qed.

Theorem power_up_rel :
  exists e1, VSem.settle f (settle_fuel f) (power_up f) = (e1, true) /\ sim_rel f gs e1 (init_poked d (reg_st0 gs) (reg_pokes gs)).
Proof.
  destruct parts as (H1 & H2 & H3 & H4 & H5 & H6 & H7 & H8 & H9 & _). destruct init_parts as (Hw & Hirq & Hi0).
  set (z := {| vals := map (fun _ => 0) (widths d); pend := []; sts := reg_st0 gs; total := O |} : state Reg_state).
  destruct (poke_fold_vals (reg_pokes gs) z) as (Hv & Hp & Hs). cbv zeta in Hv, Hp, Hs.
  set (sp := fold_left (fun s p => poke d s (fst p) (snd p)) (reg_pokes gs) z) in *.
  set (pd := map (fun p => (fst p, Wire_put (nth (fst p) (widths d) 0) (snd p))) (reg_pokes gs)) in *.
  assert (Hpfst : map fst pd = qs).
  { unfold pd, reg_pokes. rewrite !map_map. reflexivity. }
  assert (Hnq : NoDup qs) by (exact (nodup_qs f ps gs H1 H2)).
  assert (Hlen0 : length (power_up f) = length (f_nets f)) by (rewrite power_up_env; apply map_length).
  assert (He0 : env_ok f (power_up f)).
  { split; [exact Hlen0|]. intros i n Hn. rewrite (getv_power_up i n Hn). unfold vtrunc. apply Z.mod_pos_bound. apply pow2_pos.
    specialize (Hw n (nth_error_In _ _ Hn)). lia. }
  assert (Hpre : Rpre f gs (power_up f) (vals sp)).
  { split; [exact He0|]. split; [|split].
    - rewrite Hv, settle_fold_length. cbn [z vals]. rewrite Hlen0. change (widths d) with (map fn_width (f_nets f)). now rewrite !map_length.
    - intros w Hw1 Hw2. rewrite Hv, settle_fold_other by (now rewrite Hpfst). cbn [z vals]. rewrite nth_zeros.
      destruct (nth_error (f_nets f) w) as [n|] eqn:Hn.
      + rewrite (getv_power_up w n Hn), (Hi0 w n Hn Hw1). unfold vtrunc. now rewrite Z.mod_0_l by (apply Z.pow_nonzero; specialize (Hw n (nth_error_In _ _ Hn)); lia).
      + unfold getv. rewrite nth_overflow; [reflexivity|]. rewrite Hlen0. now apply nth_error_None.
    - intros g Hg. destruct (Hirq g Hg) as (x & Hx & Ex). rewrite (getv_power_up _ x Hx), Ex.
      destruct (q_width f ps gs H4 g Hg) as [Ewq Hqlt]. fold d in Ewq.
      destruct (reg_ok_parts f (power_up f) g He0 (H4 g Hg)) as (_ & _ & _ & [Hwq _] & _ & _ & _ & _ & Ew).
      destruct (H4 g Hg) as [_ Hnid]. unfold reg_nids in Hnid. cbn [forallb] in Hnid. apply andb_prop in Hnid. destruct Hnid as [Hnrq _].
      destruct (nid_ok_spec f _ Hnrq) as (x' & Hx' & Ex'). assert (x' = x) by congruence. subst x'.
      rewrite Hv. rewrite (settle_fold_at pd (vals z) (fst (rg_q g)) (Wire_put (snd (rg_q g)) (rg_rv g))).
      + rewrite put_trunc, Ex', Ew, vtrunc_trunc by lia. reflexivity.
      + now rewrite Hpfst.
      + unfold pd, reg_pokes. rewrite map_map. apply in_map_iff. exists g. split; [|exact Hg]. cbn [fst snd]. now rewrite Ewq.
      + cbn [z vals]. change (widths d) with (map fn_width (f_nets f)). now rewrite !map_length. }
  destruct (phase f ps gs clk ins H1 H2 H3 H4 H7 H8 H9 (power_up f) (vals sp) Hpre) as (e1 & Hs1 & HR & Hkeep).
  exists e1. split; [exact Hs1|].
  split; [exact HR|]. split; [reflexivity|]. split; [unfold reg_st0; apply map_length|].
  intros j g st Hj Hsj. cbn [init_poked sts] in Hsj. unfold reg_st0 in Hsj. rewrite nth_error_map, Hj in Hsj. injection Hsj as <-. cbn [Reg_s_value].
  assert (Hg : In g gs) by (eapply nth_error_In; eauto).
  rewrite (Hkeep g Hg). destruct (Hirq g Hg) as (x & Hx & Ex). rewrite (getv_power_up _ x Hx), Ex.
  destruct (reg_ok_parts f (power_up f) g He0 (H4 g Hg)) as (_ & _ & _ & [Hwq _] & _ & _ & _ & _ & Ew).
  destruct (H4 g Hg) as [_ Hnid]. unfold reg_nids in Hnid. cbn [forallb] in Hnid. apply andb_prop in Hnid. destruct Hnid as [Hnrq _].
  destruct (nid_ok_spec f _ Hnrq) as (x' & Hx' & Ex'). assert (x' = x) by congruence. subst x'.
  rewrite Ex', Ew, vtrunc_trunc by lia. reflexivity.
Qed.

(* ---------------------------------------------------------------- end to end: VSem.vsim against the kernel from power-up *)
Theorem vsim_compose clkname steps outs :
  net_index (f_nets f) clkname 0 = Some clk ->
  (forall o, In o (resolve_names f outs) -> ~ In o rqs) ->
  legal_steps f ins steps ->
  vsim f clkname steps outs =
  (map (fun s => map (rd (vals s)) (resolve_names f outs))
       (run_states d (init_poked d (reg_st0 gs) (reg_pokes gs)) (map (kstep f) steps)), true).
Proof.
  intros Hclk Hobs Hleg. destruct power_up_rel as (e1 & Hs1 & HI).
  unfold vsim. rewrite Hs1, Hclk.
  rewrite (stream_under_match (resolve_names f outs) Hobs steps e1 _ HI Hleg).
  unfold d. rewrite (run_states_head f ps gs (init_poked (comp_design f ps gs) (reg_st0 gs) (reg_pokes gs)) (map (kstep f) steps)).
  cbn [tl map]. f_equal. f_equal.
  apply (obs_same f gs e1 _ (resolve_names f outs) HI Hobs).
Qed.

(* ---------------------------------------------------------------- designs without registers: the emitted top has no clock port,
   VSem.vsim then runs with no clock (every step is "set inputs, settle"); the kernel's clk(n) re-evaluates a settled netlist *)
Section NoRegs.
Hypothesis Hgs0 : gs = [].

Lemma no_procs : f_procs f = [].
Proof.
  destruct parts as (_ & _ & _ & _ & Hp & _). destruct (procs_parts f gs clk Hp) as [Hall _].
  destruct (f_procs f) as [|p t]; [reflexivity|]. destruct (Hall p (or_introl eq_refl)) as (g & Hg & _). rewrite Hgs0 in Hg. destruct Hg.
Qed.

Lemma settled_again e0 : env_ok f e0 ->
  let e1 := propagateAll (comb_design Reg_state f all) e0 in
  VSem.settle f (settle_fuel f) e0 = (e1, true) /\ env_ok f e1 /\ VSem.settle f (settle_fuel f) (edge f clk e1) = (e1, true).
Proof.
  intros He0. cbv zeta. destruct parts as (H1 & H2 & H3 & _).
  pose proof (pordered_sound all H3) as Hord.
  pose proof (comb_settles Reg_state f all H1 H2 Hord) as Hset.
  set (dp := comb_design Reg_state f all) in *. set (e1 := propagateAll dp e0).
  assert (Hsd : single_driver (combs dp)).
  { unfold single_driver. cbn [dp comb_design combs]. rewrite leaf_outs. destruct (match_parts f all H1 H2) as (_ & _ & H & _). exact H. }
  assert (He1 : env_ok f e1).
  { destruct (match_parts f all H1 H2) as (_ & _ & _ & _ & Hok & _).
    exact (proj2 (assigns_are_leaves f dp eq_refl all e0 He0 Hok)). }
  split; [apply Hset; exact He0|]. split; [exact He1|].
  assert (Eedge : edge f clk e1 = e1) by (unfold edge; rewrite no_procs; reflexivity).
  rewrite Eedge, (Hset e1 He1). f_equal.
  apply (settled_pass_id dp (combs dp) e1). intros c Hc. exact (propagateAll_settled dp e0 Hord Hsd c Hc).
Qed.

Lemma vstep_noclock env s pk n : sim_rel f gs env s -> (forall p, In p pk -> In (fst p) ins) ->
  vstep f None env pk n = vstep f (Some clk) env pk n.
Proof.
  intros HI Hpk. destruct parts as (_ & _ & _ & _ & _ & _ & _ & _ & H9 & _). destruct init_parts as (Hw & _).
  pose proof (pokes_inv f ps gs clk ins H9 Hw pk env s HI Hpk) as ((He & _) & _).
  destruct (settled_again (set_inputs f env pk) He) as (Hs & He1 & Hagain). cbv zeta in Hs, He1, Hagain.
  unfold vstep. rewrite Hs. set (e1 := propagateAll (comb_design Reg_state f all) (set_inputs f env pk)) in *.
  (* the first cycle re-settles to the same environment; by induction so do all *)
  assert (Hcyc : forall m, vcycles f (Some clk) m e1 true = (e1, true)).
  { induction m as [|m IH]; [reflexivity|]. cbn [vcycles]. rewrite Hagain. exact IH. }
  rewrite Hcyc. destruct n; reflexivity.
Qed.

Lemma vrun_noclock obs : forall steps env s, sim_rel f gs env s -> legal_steps f ins steps ->
  vrun f None env true steps obs = vrun f (Some clk) env true steps obs.
Proof.
  induction steps as [|[pk n] steps IH]; intros env s HI Hleg; [reflexivity|]. cbn [vrun].
  assert (Hpk : forall p, In p (map (fun p => (net_of f (fst p), snd p)) pk) -> In (fst p) ins).
  { intros p Hp. apply in_map_iff in Hp. destruct Hp as (p0 & <- & Hp0). cbn [fst]. exact (Hleg (pk, n) (or_introl eq_refl) p0 Hp0). }
  change (map (fun p : string * Z => (match net_index (f_nets f) (fst p) 0 with Some i => i | None => length (f_nets f) end, snd p)) pk)
    with (map (fun p => (net_of f (fst p), snd p)) pk).
  rewrite (vstep_noclock env s _ n HI Hpk).
  destruct (step_under_match env s _ n HI Hpk) as (env' & Hs & HI'). rewrite Hs. cbn [andb].
  now rewrite (IH env' _ HI' (fun st Hst => Hleg st (or_intror Hst))).
Qed.

Theorem vsim_compose_noclock clkname steps outs :
  net_index (f_nets f) clkname 0 = None ->
  legal_steps f ins steps ->
  vsim f clkname steps outs =
  (map (fun s => map (rd (vals s)) (resolve_names f outs))
       (run_states d (init_poked d (reg_st0 gs) (reg_pokes gs)) (map (kstep f) steps)), true).
Proof.
  intros Hclk Hleg. destruct power_up_rel as (e1 & Hs1 & HI).
  assert (Hobs : forall o, In o (resolve_names f outs) -> ~ In o rqs) by (intros o _; unfold rqs; rewrite Hgs0; intros []).
  unfold vsim. rewrite Hs1, Hclk. rewrite (vrun_noclock (resolve_names f outs) steps e1 _ HI Hleg).
  rewrite (stream_under_match (resolve_names f outs) Hobs steps e1 _ HI Hleg).
  unfold d. rewrite (run_states_head f ps gs (init_poked (comp_design f ps gs) (reg_st0 gs) (reg_pokes gs)) (map (kstep f) steps)).
  cbn [tl map]. f_equal. f_equal.
  apply (obs_same f gs e1 _ (resolve_names f outs) HI Hobs).
Qed.
End NoRegs.
End Main.
