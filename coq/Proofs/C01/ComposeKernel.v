(* C01 composition, step 2 (kernel level, arbitrary leaf functions): evaluating the leaves of a netlist REPEATEDLY IN ANY ORDER
   (what the continuous assignments of the emitted text do) reaches, in at most n passes, exactly the valuation one pass in
   a dependency-respecting order (Simulator.propagateAll) computes; and a pass that changes nothing is that valuation.
   Builds on C04's lemmas (Proofs/C04/Settle.v).  cs_t: the leaves in text order; cs_k: the same leaves in the simulator's order. *)
From V Require Import Base.PyInt Gen.WireOps Model.SimKernel Spec.C04 Proofs.C04.Settle.
From Coq Require Import PeanoNat Arith.
Local Open Scope nat_scope.

Lemma NoDup_app_r {A} (a b : list A) : NoDup (a ++ b) -> NoDup b.
Proof. induction a as [|x a IH]; cbn; auto. intros H. inversion H; subst. auto. Qed.

Section K.
Context {St : Type}.
Variable d : design St.

Notation pass cs vs := (fold_left (propagate1 d) cs vs).

(* ------------------------------------------------------------------ a pass that is the identity fixes every leaf *)
Lemma pass_fix_each : forall cs vs, NoDup (flat_map c_out cs) -> pass cs vs = vs -> forall c, In c cs -> stable1 d vs c.
Proof.
  induction cs as [|c0 cs IH]; intros vs Hnd Hfix c Hc; [destruct Hc|].
  cbn [fold_left flat_map] in *.
  assert (H1 : propagate1 d vs c0 = vs).
  { apply (nth_ext _ _ 0%Z 0%Z); [apply propagate1_length|]. intros w _.
    destruct (in_dec Nat.eq_dec w (c_out c0)) as [Hin|Hnot]; [|now apply propagate1_other].
    rewrite <- Hfix at 2. symmetry. apply fold_undriven. unfold driven. intros Hdr.
    exact (NoDup_app_disjoint _ _ w Hnd Hin Hdr). }
  rewrite H1 in Hfix. destruct Hc as [<-|Hc]; [exact H1|].
  apply IH; auto. apply NoDup_app_r in Hnd. exact Hnd.
Qed.

Lemma settled_pass_id : forall cs vs, (forall c, In c cs -> stable1 d vs c) -> pass cs vs = vs.
Proof.
  induction cs as [|c0 cs IH]; intros vs H; [reflexivity|]. cbn [fold_left].
  rewrite (H c0 (or_introl eq_refl)). apply IH. intros c Hc. apply H. now right.
Qed.

(* ------------------------------------------------------------------ convergence *)
Variable cs_k : list cleaf.                   (* simulator order *)
Hypothesis Hord : ordered cs_k.
Hypothesis Hsd : single_driver cs_k.
Hypothesis Hdef : forall c, In c cs_k -> definite c.
Variable vs0 : list Z.
Let vstar := pass cs_k vs0.

Lemma vstar_stable c : In c cs_k -> stable1 d vstar c.
Proof. intros Hc. apply (fold_settles d cs_k [] vs0); auto. intros c' []. Qed.

(* vs agrees with the final valuation on the undriven wires and on the outputs of the first k leaves *)
Definition agree (k : nat) (vs : list Z) : Prop :=
  length vs = length vs0 /\
  (forall w, ~ driven cs_k w -> nth w vs 0%Z = nth w vs0 0%Z) /\
  (forall j c w, j < k -> nth_error cs_k j = Some c -> In w (c_out c) -> nth w vs 0%Z = nth w vstar 0%Z).

Lemma same_driver i j a b w : nth_error cs_k i = Some a -> nth_error cs_k j = Some b -> In w (c_out a) -> In w (c_out b) -> i = j.
Proof.
  unfold single_driver in Hsd. revert i j Hsd. clear Hord Hdef vstar.
  induction cs_k as [|c cs IH]; intros i j Hnd Hi Hj Ha Hb; [destruct i; discriminate|].
  cbn [flat_map] in Hnd.
  destruct i as [|i], j as [|j]; cbn [nth_error] in *; auto.
  - injection Hi as <-. exfalso. apply (NoDup_app_disjoint _ _ w Hnd Ha).
    apply in_flat_map. exists b. split; [eapply nth_error_In; eauto | exact Hb].
  - injection Hj as <-. exfalso. apply (NoDup_app_disjoint _ _ w Hnd Hb).
    apply in_flat_map. exists a. split; [eapply nth_error_In; eauto | exact Ha].
  - f_equal. apply IH; auto. now apply NoDup_app_r in Hnd.
Qed.

(* a leaf at position j <= k, evaluated in a valuation that agrees up to k, writes the final values *)
Lemma eval_final k vs j c w : agree k vs -> nth_error cs_k j = Some c -> j <= k -> In w (c_out c) ->
  nth w (propagate1 d vs c) 0%Z = nth w vstar 0%Z.
Proof.
  intros (Hlen & Hun & Hpre) Hj Hle Hw.
  assert (Hc : In c cs_k) by (eapply nth_error_In; eauto).
  assert (Hres : results vs c = results vstar c).
  { apply results_agree. intros u Hu.
    destruct (in_dec Nat.eq_dec u (flat_map c_out cs_k)) as [Hdr|Hnd].
    - apply in_flat_map in Hdr. destruct Hdr as (c' & Hc' & Hu'). destruct (In_nth_error _ _ Hc') as [i Hi].
      assert (i < j) by (apply (Hord _ _ c' c Hi Hj); exists u; split; assumption).
      apply (Hpre i c' u); auto. lia.
    - rewrite (Hun u Hnd). unfold vstar. symmetry. now apply fold_undriven. }
  assert (Hlv : length vstar = length vs0) by apply fold_length.
  destruct (Nat.lt_ge_cases w (length vs)) as [Hlt|Hge].
  - rewrite propagate1_nth by exact Hlt. rewrite Hres.
    transitivity (final (widths d) (c_out c) (results vstar c) w (nth w vstar 0%Z)).
    + destruct (Hdef c Hc (map (rd vstar) (c_in c))) as [Hl Hf]. apply final_definite; auto.
    + apply (proj1 (stable1_iff d vstar c) (vstar_stable c Hc) w). lia.
  - rewrite !nth_overflow; auto; [lia | rewrite propagate1_length; lia].
Qed.

Lemma agree_preserve k vs c : agree k vs -> In c cs_k -> agree k (propagate1 d vs c).
Proof.
  intros Hag Hc. destruct (In_nth_error _ _ Hc) as [j Hj].
  pose proof Hag as (Hlen & Hun & Hpre). split; [|split].
  - now rewrite propagate1_length.
  - intros w Hnd. rewrite propagate1_other; [now apply Hun|]. intros Hin. apply Hnd. apply in_flat_map. eauto.
  - intros j' c' w Hlt Hj' Hw. destruct (in_dec Nat.eq_dec w (c_out c)) as [Hin|Hnot].
    + assert (j = j') by (eapply same_driver; eauto). subst j'. apply (eval_final k vs j c w); auto. lia.
    + rewrite propagate1_other by exact Hnot. eapply Hpre; eauto.
Qed.

Lemma agree_advance k vs c : agree k vs -> nth_error cs_k k = Some c -> agree (S k) (propagate1 d vs c).
Proof.
  intros Hag Hk. assert (Hc : In c cs_k) by (eapply nth_error_In; eauto).
  destruct (agree_preserve k vs c Hag Hc) as (Hlen & Hun & Hpre). split; [|split]; auto.
  intros j' c' w Hlt Hj' Hw. destruct (Nat.eq_dec j' k) as [->|Hne].
  - assert (c' = c) by congruence. subst c'. apply (eval_final k vs k c w); auto.
  - eapply Hpre; eauto. lia.
Qed.

Lemma agree_fold k : forall cs vs, incl cs cs_k -> agree k vs -> agree k (pass cs vs).
Proof.
  induction cs as [|c cs IH]; intros vs Hin Hag; [exact Hag|]. cbn [fold_left].
  apply IH; [intros x Hx; apply Hin; now right|]. apply agree_preserve; auto. apply Hin. now left.
Qed.

Lemma agree_beyond k vs : length cs_k <= k -> agree k vs -> agree (S k) vs.
Proof.
  intros Hk (Hlen & Hun & Hpre). split; [|split]; auto.
  intros j c w Hlt Hj Hw. destruct (Nat.eq_dec j k) as [->|Hne]; [|eapply Hpre; eauto; lia].
  assert (k < length cs_k) by (apply nth_error_Some; congruence). lia.
Qed.

(* one full pass in ANY order over the same leaves fixes at least the next leaf of the simulator's order *)
Variable cs_t : list cleaf.                   (* text order *)
Hypothesis Htk : incl cs_t cs_k.
Hypothesis Hkt : incl cs_k cs_t.

Lemma agree_pass k vs : agree k vs -> agree (S k) (pass cs_t vs).
Proof.
  intros Hag. destruct (nth_error cs_k k) as [c|] eqn:Hk.
  - assert (Hc : In c cs_t) by (apply Hkt; eapply nth_error_In; eauto).
    destruct (in_split _ _ Hc) as (pre & post & E). rewrite E, fold_left_app. cbn [fold_left].
    apply agree_fold; [intros x Hx; apply Htk; rewrite E; apply in_or_app; right; now right|].
    apply agree_advance; auto.
    apply agree_fold; auto. intros x Hx; apply Htk; rewrite E; apply in_or_app; now left.
  - apply agree_beyond; [now apply nth_error_None|]. now apply agree_fold.
Qed.

Lemma agree_all vs : agree (length cs_k) vs -> vs = vstar.
Proof.
  intros (Hlen & Hun & Hpre). assert (Hlv : length vstar = length vs0) by apply fold_length.
  apply (nth_ext _ _ 0%Z 0%Z); [lia|]. intros w _.
  destruct (in_dec Nat.eq_dec w (flat_map c_out cs_k)) as [Hdr|Hnd].
  - apply in_flat_map in Hdr. destruct Hdr as (c & Hc & Hw). destruct (In_nth_error _ _ Hc) as [j Hj].
    apply (Hpre j c w); auto. apply nth_error_Some. congruence.
  - rewrite (Hun w Hnd). unfold vstar. symmetry. now apply fold_undriven.
Qed.

Lemma agree_mono k vs : agree (S k) vs -> agree k vs.
Proof. intros (Hlen & Hun & Hpre). split; [|split]; auto. intros j c w Hlt. apply Hpre. lia. Qed.

Lemma agree_start : agree 0 vs0.
Proof. split; [|split]; auto. intros j c w Hlt. lia. Qed.

(* the final valuation is a fixpoint of the text-order pass *)
Lemma vstar_pass_id : pass cs_t vstar = vstar.
Proof. apply settled_pass_id. intros c Hc. apply vstar_stable. now apply Htk. Qed.

(* and the only one among the valuations reachable from vs0 *)
Hypothesis Hsdt : single_driver cs_t.
Lemma fix_is_vstar k vs : agree k vs -> pass cs_t vs = vs -> vs = vstar.
Proof.
  intros (Hlen & Hun & _) Hfix.
  apply (settled_unique d cs_k); auto.
  - intros c Hc. apply (pass_fix_each cs_t vs Hsdt Hfix). now apply Hkt.
  - apply vstar_stable.
  - unfold vstar. rewrite fold_length. exact Hlen.
  - intros w Hnd. rewrite (Hun w Hnd). unfold vstar. symmetry. now apply fold_undriven.
Qed.
End K.
