(* C01 composition, step 6: multi-output leaves.  A BitsLSBF / BitsMSBF block is ONE simulator leaf writing all its listed wires and
   n assigns in the text.  The composition lemmas work on its n single-output projections (PBitOf); here: evaluating the one leaf
   is evaluating the projections in order (the block does not read its own outputs), so the kernel design with the merged leaves
   has the same propagateAll, hence the same runs. *)
From V Require Import Base.Bits Gen.WireOps Gen.Helpers Gen.Prims Gen.Seq Model.VSyntax Model.VSem Model.Inline Model.SimKernel Model.Trace
  Model.C01Prim Proofs.C04.Settle Proofs.C01.ComposeComb Proofs.C01.ComposeMain.
From Coq Require Import PeanoNat Arith.

Lemma fold_left_map {A B C} (f : A -> B -> A) (g : C -> B) : forall l a, fold_left f (map g l) a = fold_left (fun a x => f a (g x)) l a.
Proof. induction l as [|x l IH]; intros a; cbn; auto. Qed.

Lemma fold_left_ext_inv {A B} (P : A -> Prop) (g h : A -> B -> A) : forall l a,
  P a -> (forall a x, In x l -> P a -> g a x = h a x /\ P (h a x)) -> fold_left g l a = fold_left h l a.
Proof.
  induction l as [|x l IH]; intros a Pa H; [reflexivity|]. cbn [fold_left].
  destruct (H a x (or_introl eq_refl) Pa) as [E Pn]. rewrite E. apply IH; auto. intros a' x' Hx'. apply H. now right.
Qed.

Lemma fold_left_ext {A B} (g h : A -> B -> A) : (forall a x, g a x = h a x) -> forall l a, fold_left g l a = fold_left h l a.
Proof. intros H. induction l as [|x l IH]; intros a; [reflexivity|]. cbn [fold_left]. now rewrite H, IH. Qed.

Section Merge.
Variable ws : list Z.

Lemma write_outs_seq : forall outs R vs, (length outs <= length R)%nat ->
  write_outs ws outs (map Some R) vs =
  fold_left (fun v k => set_nth v (nth k outs O) (Wire_put (nth (nth k outs O) ws 0) (nth k R 0))) (seq 0 (length outs)) vs.
Proof.
  induction outs as [|o outs IH]; intros R vs H; [destruct R; reflexivity|].
  destruct R as [|r R]; cbn [length] in H; [lia|].
  cbn [map write_outs length seq fold_left nth]. rewrite <- seq_shift, fold_left_map. apply IH. lia.
Qed.
End Merge.

Section Items.
Context {St : Type}.
Variable d : design St.

Definition bits_fn (msb : bool) := if msb then BitsMSBF_propagate else BitsLSBF_propagate.

Lemma bits_fn_length msb wa lw v : length (bits_fn msb wa lw v) = Z.to_nat wa.
Proof.
  unfold bits_fn, BitsMSBF_propagate, BitsLSBF_propagate. destruct msb; cbv zeta; rewrite map_length; unfold seqZ;
    rewrite map_length, seq_length; f_equal; lia.
Qed.

Lemma bits_split msb a bits vs : item_ok (IBits msb a bits) = true ->
  fold_left (propagate1 d) (map prim_leaf (item_prims (IBits msb a bits))) vs = propagate1 d vs (item_leaf (IBits msb a bits)).
Proof.
  intros Hok. cbn [item_ok] in Hok. apply andb_prop in Hok. destruct Hok as [Hna Hlen]. apply Z.eqb_eq in Hlen.
  assert (Hnotin : ~ In (fst a) (map fst bits)).
  { intros Hin. apply mem_nat_In in Hin. unfold mem_nat in Hin. rewrite Hin in Hna. discriminate. }
  cbn [item_prims item_leaf]. rewrite map_map, fold_left_map.
  unfold propagate1 at 2. cbn [c_in c_out c_f map]. fold (bits_fn msb).
  assert (Hlen2 : (length (map fst bits) <= length (bits_fn msb (snd a) (map snd bits) (nth 0 [rd vs (fst a)] 0%Z)))%nat).
  { rewrite bits_fn_length, map_length, <- Hlen, Nat2Z.id. apply le_n. }
  rewrite write_outs_seq by exact Hlen2. rewrite map_length.
  apply (fold_left_ext_inv (fun v => rd v (fst a) = rd vs (fst a))); [reflexivity|].
  intros v k Hk Hinv. apply in_seq in Hk.
  assert (Eout : nth k (map fst bits) O = fst (nth k bits (O, 0))) by (change O with (fst (O, 0)) at 1; apply map_nth).
  split.
  - unfold propagate1. cbn [prim_leaf c_in c_out c_f prim_ins prim_out prim_fn map write_outs nth]. fold (bits_fn msb).
    rewrite Hinv, Eout. reflexivity.
  - rewrite <- Hinv. unfold rd. apply (getv_set_nth_ne v). intros E. apply Hnotin. rewrite <- E. apply nth_In. rewrite map_length. lia.
Qed.

Lemma items_fold : forall items vs, forallb item_ok items = true ->
  fold_left (propagate1 d) (map item_leaf items) vs = fold_left (propagate1 d) (map prim_leaf (flat_map item_prims items)) vs.
Proof.
  induction items as [|it items IH]; intros vs Hok; [reflexivity|]. cbn [forallb] in Hok. apply andb_prop in Hok. destruct Hok as [H1 H2].
  cbn [map flat_map fold_left]. rewrite map_app, fold_left_app.
  destruct it as [p|msb a bits].
  - cbn [item_prims item_leaf map fold_left]. now apply IH.
  - rewrite (bits_split msb a bits vs H1). now apply IH.
Qed.
End Items.

(* ---------------------------------------------------------------- the kernel only looks at combs through propagateAll *)
Section Ext.
Context {St : Type}.
Variables d1 d2 : design St.
Hypothesis Hw : widths d1 = widths d2.
Hypothesis Hs : seqs d1 = seqs d2.
Hypothesis Hd : drivers d1 = drivers d2.
Hypothesis Hp : forall vs, propagateAll d1 vs = propagateAll d2 vs.

Lemma clock1_ext s k : clock1 d1 s k = clock1 d2 s k.
Proof. unfold clock1. now rewrite Hs, Hw. Qed.
Lemma clockAll_ext drv : forall s, clockAll d1 s drv = clockAll d2 s drv.
Proof. unfold clockAll. induction (d_leaves drv) as [|k l IH]; intros s; [reflexivity|]. cbn [fold_left]. now rewrite clock1_ext, IH. Qed.
Lemma clock_drivers_ext s : clock_drivers d1 s = clock_drivers d2 s.
Proof.
  unfold clock_drivers. rewrite Hd. apply fold_left_ext. intros s' drv. now rewrite clockAll_ext.
Qed.
Lemma clk_cycle_ext s : clk_cycle d1 s = clk_cycle d2 s.
Proof. unfold clk_cycle. now rewrite clock_drivers_ext, Hp. Qed.
Lemma cycles_ext : forall n s, cycles d1 n s = cycles d2 n s.
Proof. induction n as [|n IH]; intros s; [reflexivity|]. cbn [cycles]. now rewrite clk_cycle_ext, IH. Qed.
Lemma clk_ext n s : SimKernel.clk d1 n s = SimKernel.clk d2 n s.
Proof. unfold SimKernel.clk. now rewrite Hp, cycles_ext. Qed.
Lemma pokes_ext : forall pk s, fold_left (fun s p => poke d1 s (fst p) (snd p)) pk s = fold_left (fun s p => poke d2 s (fst p) (snd p)) pk s.
Proof. induction pk as [|p pk IH]; intros s; [reflexivity|]. cbn [fold_left]. unfold poke at 2 4. rewrite Hw. apply IH. Qed.
Lemma do_step_ext s st : do_step d1 s st = do_step d2 s st.
Proof. unfold do_step. now rewrite pokes_ext, clk_ext. Qed.
Lemma run_states_ext : forall steps s, run_states d1 s steps = run_states d2 s steps.
Proof. induction steps as [|st steps IH]; intros s; [reflexivity|]. cbn [run_states]. now rewrite do_step_ext, IH. Qed.
Lemma init_poked_ext st0 pk : init_poked d1 st0 pk = init_poked d2 st0 pk.
Proof. unfold init_poked. now rewrite pokes_ext, Hp, Hw. Qed.
End Ext.

(* ---------------------------------------------------------------- the theorems on items *)
Section Main.
Variable f : flat.
Variable items : list citem.
Variable gs : list reginst.
Variable clk : nat.
Variable ins : list nat.
Hypothesis Hm : match_items items gs clk ins f = true.

Let ps := flat_map item_prims items.
Let dm := comp_design_items f items gs.
Let ds := comp_design f ps gs.

Lemma Hitems : forallb item_ok items = true /\ match_flat ps gs clk ins f = true.
Proof. unfold match_items in Hm. now apply andb_prop in Hm. Qed.

Lemma propagateAll_items vs : propagateAll dm vs = propagateAll ds vs.
Proof.
  unfold propagateAll. change (combs dm) with (map item_leaf items). change (combs ds) with (map prim_leaf ps).
  rewrite (items_fold dm items vs (proj1 Hitems)). fold ps.
  generalize (map prim_leaf ps) vs. induction l as [|c l IH]; intros v; [reflexivity|]. cbn [fold_left].
  rewrite (propagate1_widths dm ds v c eq_refl). apply IH.
Qed.

Theorem vsim_compose_items clkname steps outs :
  net_index (f_nets f) clkname 0 = Some clk ->
  (forall o, In o (resolve_names f outs) -> ~ In o (map (fun g => fst (rg_rq g)) gs)) ->
  legal_steps f ins steps ->
  vsim f clkname steps outs =
  (map (fun s => map (rd (vals s)) (resolve_names f outs))
       (run_states dm (init_poked dm (reg_st0 gs) (reg_pokes gs)) (map (kstep f) steps)), true).
Proof.
  intros Hclk Hobs Hleg. rewrite (vsim_compose f ps gs clk ins (proj2 Hitems) clkname steps outs Hclk Hobs Hleg).
  fold ds. rewrite (init_poked_ext dm ds eq_refl propagateAll_items), (run_states_ext dm ds eq_refl eq_refl eq_refl propagateAll_items).
  reflexivity.
Qed.

Theorem vsim_compose_items_noclock clkname steps outs : gs = [] ->
  net_index (f_nets f) clkname 0 = None ->
  legal_steps f ins steps ->
  vsim f clkname steps outs =
  (map (fun s => map (rd (vals s)) (resolve_names f outs))
       (run_states dm (init_poked dm (reg_st0 gs) (reg_pokes gs)) (map (kstep f) steps)), true).
Proof.
  intros Hg Hclk Hleg. rewrite (vsim_compose_noclock f ps gs clk ins (proj2 Hitems) Hg clkname steps outs Hclk Hleg).
  fold ds. rewrite (init_poked_ext dm ds eq_refl propagateAll_items), (run_states_ext dm ds eq_refl eq_refl eq_refl propagateAll_items).
  reflexivity.
Qed.
End Main.
