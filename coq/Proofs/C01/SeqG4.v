(* C01 composition with memories, step 4: from the decidable per-design check `match_seq` / `match_items_s` to the hypotheses of SeqG3;
   power-up; the end-to-end statements about VSem.vsim. *)
From V Require Import Base.Bits Gen.WireOps Gen.Helpers Gen.Prims Gen.Seq Model.VSyntax Model.VSem Model.Inline Model.SimKernel Model.Trace
  Model.C01Prim Model.C01Mem Model.C01Seq Spec.C04 Proofs.C04.Settle Proofs.C01.InlineSound Proofs.C01.ComposePrim Proofs.C01.ComposeKernel
  Proofs.C01.ComposeComb Proofs.C01.ComposeEdge Proofs.C01.ComposeSeq Proofs.C01.ComposeMain Proofs.C01.ComposeItems Proofs.C01.MemSound
  Proofs.C01.SeqG1 Proofs.C01.SeqG2 Proofs.C01.SeqG3.
From Coq Require Import PeanoNat Arith.

Section Main.
Variable f : flat.
Variable ps : list prim.
Variable gs : list sinst.
Variable clk : nat.
Variable ins : list nat.
Hypothesis Hm : match_seq ps gs clk ins f = true.

Let priv := flat_map si_priv gs.
Let qs := map (fun s => fst (si_out s)) gs.
Let all := map si_buf gs ++ ps.
Let d := comp_design_s f ps gs.
Let rql := flat_map (fun s => match s with SReg g => [fst (rg_rq g)] | SMem _ => [] end) gs.

Lemma snegb_mem x l : negb (mem_nat x l) = true -> ~ In x l.
Proof. intros H Hin. apply mem_nat_In in Hin. rewrite Hin in H. discriminate. Qed.

Lemma sparts :
  match_comb all f = true /\ forallb prim_wf all = true /\ pordered all = true /\
  (forall s, In s gs -> si_ok f s) /\ sprocs_match clk (f_procs f) gs = true /\ NoDup priv /\
  (forall p, In p ps -> forall n, In n (prim_nids p) -> ~ In (fst n) priv) /\
  (forall s, In s gs -> forall n, In n (si_out s :: si_ins s) -> ~ In (fst n) priv) /\
  (forall i, In i ins -> ~ In i priv /\ ~ In i (map (fun p => fst (prim_out p)) all) /\ (i < length (f_nets f))%nat) /\
  sinit_ok f gs = true.
Proof.
  unfold match_seq in Hm. fold priv in Hm. fold all in Hm.
  apply andb_prop in Hm. destruct Hm as [H H11]. apply andb_prop in H. destruct H as [H H10].
  apply andb_prop in H. destruct H as [H H9]. apply andb_prop in H. destruct H as [H H8].
  apply andb_prop in H. destruct H as [H H7]. apply andb_prop in H. destruct H as [H H6].
  apply andb_prop in H. destruct H as [H H5]. apply andb_prop in H. destruct H as [H H4].
  apply andb_prop in H. destruct H as [H H3]. apply andb_prop in H. destruct H as [H1 H2].
  split; [exact H1|]. split; [exact H2|]. split; [exact H3|]. split.
  { intros s Hs. rewrite forallb_forall in H4, H5. split; [now apply H4 | now apply H5]. }
  split; [exact H6|]. split; [now apply nodup_nat_NoDup|]. split.
  { intros p Hp n Hn. rewrite forallb_forall in H8. specialize (H8 p Hp). rewrite forallb_forall in H8. apply snegb_mem. now apply H8. }
  split.
  { intros s Hs n Hn. rewrite forallb_forall in H9. specialize (H9 s Hs). rewrite forallb_forall in H9. apply snegb_mem. now apply H9. }
  split; [|exact H11].
  intros i Hi. rewrite forallb_forall in H10. specialize (H10 i Hi).
  apply andb_prop in H10. destruct H10 as [Ha Hc]. apply andb_prop in Ha. destruct Ha as [Ha Hb].
  split; [now apply snegb_mem|]. split; [now apply snegb_mem|]. now apply Nat.ltb_lt.
Qed.

Lemma sinit_parts :
  (forall n, In n (f_nets f) -> 0 < fn_width n) /\
  (forall g, In (SReg g) gs -> exists x, nth_error (f_nets f) (fst (rg_rq g)) = Some x /\ fn_init x = rg_rv g) /\
  (forall i n, nth_error (f_nets f) i = Some n -> ~ In i rql -> fn_init n = 0).
Proof.
  destruct sparts as (_ & _ & _ & _ & _ & _ & _ & _ & _ & Hi). unfold sinit_ok in Hi. fold rql in Hi.
  apply andb_prop in Hi. destruct Hi as [Hi H3]. apply andb_prop in Hi. destruct Hi as [H1 H2].
  split; [|split].
  - intros n Hn. rewrite forallb_forall in H1. specialize (H1 n Hn). lia.
  - intros g Hg. rewrite forallb_forall in H2. specialize (H2 _ Hg). cbn beta iota in H2.
    destruct (nth_error (f_nets f) (fst (rg_rq g))) as [x|]; [|discriminate]. exists x. split; [reflexivity | lia].
  - intros i n Hn Hnot. rewrite forallb_forall in H3. specialize (H3 (i, n) (in_combine_seq (f_nets f) 0 i n Hn)).
    cbn [fst snd] in H3. apply orb_prop in H3. destruct H3 as [H3|H3]; [|lia].
    exfalso. apply Hnot. now apply mem_nat_In.
Qed.

(* ---------------------------------------------------------------- step and stream under the check *)
Theorem sstep_under_match env s pk n : ssim_rel f gs env s -> (forall p, In p pk -> In (fst p) ins) ->
  exists env', vstep f (Some clk) env pk n = (env', true) /\ ssim_rel f gs env' (do_step d s (pk, n)).
Proof.
  destruct sparts as (H1 & H2 & H3 & H4 & H5 & H6 & H7 & H8 & H9 & _). destruct sinit_parts as (Hw & _).
  exact (sstep_compose f ps gs clk ins H1 H2 H3 H4 H5 H6 H7 H8 H9 Hw env s pk n).
Qed.

Theorem sstream_under_match obs : (forall o, In o obs -> ~ In o priv) -> forall steps env s, ssim_rel f gs env s -> legal_steps f ins steps ->
  vrun f (Some clk) env true steps obs = (map (fun s' => map (rd (vals s')) obs) (tl (run_states d s (map (kstep f) steps))), true).
Proof.
  destruct sparts as (H1 & H2 & H3 & H4 & H5 & H6 & H7 & H8 & H9 & _). destruct sinit_parts as (Hw & _).
  exact (sstream_compose f ps gs clk ins H1 H2 H3 H4 H5 H6 H7 H8 H9 Hw obs).
Qed.

(* ---------------------------------------------------------------- power-up *)
Lemma spower_up_env : power_up f = map (fun n => vtrunc (fn_width n) (fn_init n)) (f_nets f).
Proof.
  destruct sparts as (_ & _ & _ & H4 & Hp & H6 & _). destruct (sprocs_parts f gs clk Hp) as [Hall _].
  unfold power_up. apply init_fold_id. intros p Hp'. destruct (Hall p Hp') as (s & _ & ->). eauto.
Qed.

Lemma sgetv_power_up i n : nth_error (f_nets f) i = Some n -> getv (power_up f) i = vtrunc (fn_width n) (fn_init n).
Proof. intros H. rewrite spower_up_env. unfold getv. apply nth_error_nth. now rewrite nth_error_map, H. Qed.

Lemma rql_priv p : In p rql -> exists g, In (SReg g) gs /\ p = fst (rg_rq g).
Proof.
  unfold rql. intros H. apply in_flat_map in H. destruct H as ([g|m] & Hs & Hp); [|destruct Hp].
  destruct Hp as [<-|[]]. eauto.
Qed.

Lemma spokes_fst : forall l, map fst (si_pokes l) = flat_map (fun s => match s with SReg g => [fst (rg_q g)] | SMem _ => [] end) l.
Proof. induction l as [|[g|m] l IH]; cbn [si_pokes flat_map map app fst]; [reflexivity | f_equal; exact IH | exact IH]. Qed.

Lemma spokes_nodup : forall l, NoDup (map (fun s => fst (si_out s)) l) -> NoDup (map fst (si_pokes l)) /\ incl (map fst (si_pokes l)) (map (fun s => fst (si_out s)) l).
Proof.
  induction l as [|[g|m] l IH]; intros Hnd; [split; [constructor | intros x []]|..]; cbn [map si_out] in Hnd; inversion Hnd as [|? ? Hnot Hnd']; subst;
    destruct (IH Hnd') as [Hn Hi]; cbn [si_pokes flat_map map app fst].
  - fold (si_pokes l). split.
    + constructor; [|exact Hn]. intros Hin. apply Hnot. now apply Hi.
    + intros x [<-|Hx]; [now left | right; now apply Hi].
  - fold (si_pokes l). split; [exact Hn|]. intros x Hx. right. now apply Hi.
Qed.

Theorem spower_up_rel :
  exists e1, VSem.settle f (settle_fuel f) (power_up f) = (e1, true) /\
             ssim_rel f gs e1 (init_poked d (map si_st0 gs) (si_pokes gs)).
Proof.
  destruct sparts as (H1 & H2 & H3 & H4 & H5 & H6 & H7 & H8 & H9 & _). destruct sinit_parts as (Hw & Hirq & Hi0).
  set (z := {| vals := map (fun _ => 0) (widths d); pend := []; sts := map si_st0 gs; total := O |} : state sstate).
  assert (Hfold : forall pk (s : state sstate),
            let s' := fold_left (fun s p => poke d s (fst p) (snd p)) pk s in
            vals s' = fold_left SimKernel.settle (map (fun p => (fst p, Wire_put (nth (fst p) (widths d) 0) (snd p))) pk) (vals s) /\
            pend s' = pend s /\ sts s' = sts s).
  { induction pk as [|p pk IH]; intros s; cbv zeta; [auto|]. cbn [fold_left map].
    destruct (IH (poke d s (fst p) (snd p))) as (Hv & Hp & Hs). cbv zeta in Hv, Hp, Hs. rewrite Hv, Hp, Hs. auto. }
  destruct (Hfold (si_pokes gs) z) as (Hv & Hpz & Hsz). cbv zeta in Hv, Hpz, Hsz.
  set (sp := fold_left (fun s p => poke d s (fst p) (snd p)) (si_pokes gs) z) in *.
  set (pd := map (fun p => (fst p, Wire_put (nth (fst p) (widths d) 0) (snd p))) (si_pokes gs)) in *.
  assert (Hnq : NoDup qs) by (exact (snodup_qs f ps gs H1 H2)).
  assert (Hpfst : map fst pd = map fst (si_pokes gs)) by (unfold pd; rewrite map_map; reflexivity).
  destruct (spokes_nodup gs Hnq) as [Hpnd Hpincl].
  assert (Hlen0 : length (power_up f) = length (f_nets f)) by (rewrite spower_up_env; apply map_length).
  assert (He0 : env_ok f (power_up f)).
  { split; [exact Hlen0|]. intros i n Hn. rewrite (sgetv_power_up i n Hn). unfold vtrunc. apply Z.mod_pos_bound. apply pow2_pos.
    specialize (Hw n (nth_error_In _ _ Hn)). lia. }
  assert (Hzero : forall i, ~ In i rql -> getv (power_up f) i = 0).
  { intros i Hi. destruct (nth_error (f_nets f) i) as [n|] eqn:Hn.
    - rewrite (sgetv_power_up i n Hn), (Hi0 i n Hn Hi). unfold vtrunc. apply Z.mod_0_l. apply Z.pow_nonzero; [lia|]. specialize (Hw n (nth_error_In _ _ Hn)). lia.
    - unfold getv. rewrite nth_overflow; [reflexivity|]. rewrite Hlen0. now apply nth_error_None. }
  assert (Hrql_priv : forall i, In i rql -> In i priv).
  { intros i Hi. destruct (rql_priv i Hi) as (g & Hg & ->). exact (src_in_priv gs (SReg g) Hg). }
  assert (Hmem_not_rql : forall m p, In (SMem m) gs -> In p (si_priv (SMem m)) -> ~ In p rql).
  { intros m p Hm' Hpp Hin. destruct (rql_priv p Hin) as (g & Hg & ->).
    assert (E : SReg g = SMem m) by (apply (same_inst gs H6 (SReg g) (SMem m) (fst (rg_rq g))); auto; now left). discriminate. }
  assert (Hpre : SRpre f gs (power_up f) (vals sp)).
  { split; [exact He0|]. split; [|split].
    - rewrite Hv, settle_fold_length. cbn [z vals]. rewrite Hlen0. change (widths d) with (map fn_width (f_nets f)). now rewrite !map_length.
    - intros w Hw1 Hw2. rewrite Hv, settle_fold_other by (rewrite Hpfst; intros Hin; apply Hw2; now apply Hpincl). cbn [z vals]. rewrite nth_zeros.
      symmetry. apply Hzero. intros Hin. apply Hw1. now apply Hrql_priv.
    - intros s Hs. destruct s as [g|m].
      + cbn [si_src si_out]. destruct (Hirq g Hs) as (x & Hx & Ex). rewrite (sgetv_power_up _ x Hx), Ex.
        destruct (si_buf_parts f ps gs clk ins H4 H6 H9 Hw (power_up f) (SReg g) He0 Hs) as (_ & Ew & Hwq & Ewq & Hqlt). cbn [si_src si_out] in Ew, Hwq, Ewq, Hqlt. fold d in Ewq.
        destruct (H4 _ Hs) as [_ Hn]. unfold si_nets_ok in Hn. apply andb_prop in Hn. destruct Hn as [Hn _].
        cbn [si_nids si_src forallb] in Hn. apply andb_prop in Hn. destruct Hn as [Hnrq _].
        destruct (nid_ok_spec f _ Hnrq) as (x' & Hx' & Ex'). assert (x' = x) by congruence. subst x'.
        rewrite Hv. rewrite (settle_fold_at pd (vals z) (fst (rg_q g)) (Wire_put (snd (rg_q g)) (rg_rv g))).
        * rewrite put_trunc, Ex', Ew, vtrunc_trunc by lia. reflexivity.
        * now rewrite Hpfst.
        * unfold pd. apply in_map_iff. exists (fst (rg_q g), rg_rv g). split; [cbn [fst snd]; now rewrite Ewq|].
          unfold si_pokes. apply in_flat_map. exists (SReg g). split; [exact Hs | now left].
        * cbn [z vals]. change (widths d) with (map fn_width (f_nets f)). now rewrite !map_length.
      + cbn [si_src si_out]. rewrite Hzero by (apply (Hmem_not_rql m); auto; now left).
        rewrite Hv, settle_fold_other; [cbn [z vals]; now rewrite nth_zeros|].
        rewrite Hpfst, spokes_fst. intros Hin. apply in_flat_map in Hin. destruct Hin as ([g|m'] & Hs' & Hp'); [|destruct Hp'].
        destruct Hp' as [E|[]].
        assert (E2 : SReg g = SMem m) by (apply (NoDup_map_inj (fun s => fst (si_out s)) gs); auto). discriminate. }
  destruct (sphase f ps gs clk ins H1 H2 H3 H4 H6 H7 H8 H9 Hw (power_up f) (vals sp) Hpre) as (e1 & Hs1 & HR & Hkeep).
  exists e1. split; [exact Hs1|].
  split; [exact HR|]. split; [reflexivity|]. split; [apply map_length|].
  intros j g st Hj Hsj. cbn [init_poked sts] in Hsj. rewrite nth_error_map, Hj in Hsj. injection Hsj as <-.
  assert (Hg : In g gs) by (eapply nth_error_In; eauto).
  apply (sinv_ext g (power_up f)); [intros p Hp; apply Hkeep; apply in_flat_map; eauto|].
  destruct g as [g|m]; cbn [sinv si_st0 Reg_s_value SynchronousMemory_s_data].
  - destruct (Hirq g Hg) as (x & Hx & Ex). rewrite (sgetv_power_up _ x Hx), Ex.
    destruct (si_buf_parts f ps gs clk ins H4 H6 H9 Hw (power_up f) (SReg g) He0 Hg) as (_ & Ew & Hwq & _). cbn [si_src si_out] in Ew, Hwq.
    destruct (H4 _ Hg) as [_ Hn]. unfold si_nets_ok in Hn. apply andb_prop in Hn. destruct Hn as [Hn _].
    cbn [si_nids si_src forallb] in Hn. apply andb_prop in Hn. destruct Hn as [Hnrq _].
    destruct (nid_ok_spec f _ Hnrq) as (x' & Hx' & Ex'). assert (x' = x) by congruence. subst x'.
    rewrite Ex', Ew, vtrunc_trunc by lia. reflexivity.
  - apply (nth_ext _ _ 0 0); [now rewrite mem_cells_length, map_length, repeat_length|].
    intros k Hk. rewrite mem_cells_length in Hk. rewrite nth_mem_cells by exact Hk.
    rewrite Hzero by (apply (Hmem_not_rql m); auto; right; apply in_cells; lia).
    rewrite nth_map_trunc. replace (nth k (repeat 0 (mi_d m)) 0) with 0 by (symmetry; apply nth_repeat). reflexivity.
Qed.

(* ---------------------------------------------------------------- end to end *)
Theorem svsim_compose clkname steps outs :
  net_index (f_nets f) clkname 0 = Some clk ->
  (forall o, In o (resolve_names f outs) -> ~ In o priv) ->
  legal_steps f ins steps ->
  vsim f clkname steps outs =
  (map (fun s => map (rd (vals s)) (resolve_names f outs))
       (run_states d (init_poked d (map si_st0 gs) (si_pokes gs)) (map (kstep f) steps)), true).
Proof.
  intros Hclk Hobs Hleg. destruct spower_up_rel as (e1 & Hs1 & HI).
  unfold vsim. rewrite Hs1, Hclk.
  rewrite (sstream_under_match (resolve_names f outs) Hobs steps e1 _ HI Hleg).
  unfold d. rewrite (srun_states_head f ps gs (init_poked (comp_design_s f ps gs) (map si_st0 gs) (si_pokes gs)) (map (kstep f) steps)).
  cbn [tl map]. f_equal. f_equal.
  destruct sparts as (H1 & H2 & H3 & H4 & H5 & H6 & H7 & H8 & H9 & _).
  apply (sobs_same f gs e1 _ (resolve_names f outs) HI Hobs).
Qed.
End Main.

(* ---------------------------------------------------------------- with merged Bits leaves *)
Section Items.
Variable f : flat.
Variable items : list citem.
Variable gs : list sinst.
Variable clk : nat.
Variable ins : list nat.
Hypothesis Hm : match_items_s items gs clk ins f = true.

Let ps := flat_map item_prims items.
Let dm := comp_design_items_s f items gs.
Let ds := comp_design_s f ps gs.

Lemma sHitems : forallb item_ok items = true /\ match_seq ps gs clk ins f = true.
Proof. unfold match_items_s in Hm. now apply andb_prop in Hm. Qed.

Lemma spropagateAll_items vs : propagateAll dm vs = propagateAll ds vs.
Proof.
  unfold propagateAll. change (combs dm) with (map item_leaf items). change (combs ds) with (map prim_leaf ps).
  rewrite (items_fold dm items vs (proj1 sHitems)). fold ps.
  generalize (map prim_leaf ps) vs. induction l as [|c l IH]; intros v; [reflexivity|]. cbn [fold_left].
  rewrite (propagate1_widths dm ds v c eq_refl). apply IH.
Qed.

Theorem svsim_compose_items clkname steps outs :
  net_index (f_nets f) clkname 0 = Some clk ->
  (forall o, In o (resolve_names f outs) -> ~ In o (flat_map si_priv gs)) ->
  legal_steps f ins steps ->
  vsim f clkname steps outs =
  (map (fun s => map (rd (vals s)) (resolve_names f outs))
       (run_states dm (init_poked dm (map si_st0 gs) (si_pokes gs)) (map (kstep f) steps)), true).
Proof.
  intros Hclk Hobs Hleg. rewrite (svsim_compose f ps gs clk ins (proj2 sHitems) clkname steps outs Hclk Hobs Hleg).
  fold ds. rewrite (init_poked_ext dm ds eq_refl spropagateAll_items), (run_states_ext dm ds eq_refl eq_refl eq_refl spropagateAll_items).
  reflexivity.
Qed.
End Items.
