(* C01: every Inline* emitter's assign, read under the IEEE-1364 expression semantics of Model/VSem.v, stores
   exactly what the primitive's (regenerated) propagate() stores — for all widths, constants and values. *)
From V Require Import Base.Bits Gen.WireOps Gen.Helpers Gen.Prims Model.VSyntax Model.VSem Model.Inline.

Lemma vtrunc_trunc w v : 0 <= w -> vtrunc w v = trunc w v.
Proof. intros; unfold vtrunc; rewrite trunc_mod by lia; reflexivity. Qed.

Lemma put_trunc w v : Wire_put w v = trunc w v.
Proof. reflexivity. Qed.

Lemma vtrunc_small w v : 0 <= w -> 0 <= v < 2 ^ w -> vtrunc w v = v.
Proof. intros; unfold vtrunc; apply Z.mod_small; lia. Qed.

Lemma vtrunc_vtrunc_le a b v : 0 <= a <= b -> vtrunc a (vtrunc b v) = vtrunc a v.
Proof. intros; unfold vtrunc; apply mod_mod_le; lia. Qed.

Lemma small_in_wider v a b : 0 <= a <= b -> 0 <= v < 2 ^ a -> 0 <= v < 2 ^ b.
Proof. intros H Hv; pose proof (pow2_le a b H); lia. Qed.

(* masks written as `x & ((1<<w)-1)` anywhere in a generated definition are truncations; nested ones collapse:
   proofs below normalise with this instead of depending on how many times the Python code masks *)
Lemma mod_shiftl_trunc x w : 0 <= w -> x mod Z.shiftl 1 w = trunc w x.
Proof. intros; rewrite Z.shiftl_1_l, trunc_mod by lia; reflexivity. Qed.

Ltac norm_trunc :=
  unfold Wire_put, Wire_prepare, py_shl, py_shr in *; cbv zeta;
  repeat match goal with |- context [Z.land ?x (Z.shiftl 1 ?w - 1)] => change (Z.land x (Z.shiftl 1 w - 1)) with (trunc w x) end;
  rewrite ?mod_shiftl_trunc by lia;        (* `x % (1<<w)` is the same truncation *)
  rewrite ?trunc_idem by lia.

Section Sound.
Variable env : list Z.
Definition okn (n : nid) : Prop := 0 < snd n /\ 0 <= getv env (fst n) < 2 ^ snd n.
Notation val n := (getv env (fst n)).

(* an unsigned identifier in a context at least as wide as itself evaluates to its value *)
Lemma reval_rid n w : okn n -> snd n <= w -> reval env w false (rid n) = val n.
Proof.
  intros [Hw Hv] Hle. unfold rid; cbn [reval extend]. apply vtrunc_small; [lia|].
  eapply small_in_wider; [|exact Hv]; lia.
Qed.

Ltac ctx := cbn [assign_value lwidth whole rid rsize rsigned arith_op shift_op fst snd andb].

(* ---- assign r = a;   (Buf, ZeroExtend) *)
Theorem inl_buf_sound r a : okn a -> 0 < snd r ->
  forall l e, inl_buf r a = [(l, e)] -> assign_value env l e = Buf_propagate (snd r) (val a).
Proof.
  intros Ha Hr l e H; inversion H; subst; clear H. unfold assign_value, Buf_propagate. ctx.
  rewrite put_trunc, reval_rid by (auto; lia). apply vtrunc_trunc; lia.
Qed.
Theorem inl_zeroextend_sound r a : okn a -> 0 < snd r ->
  forall l e, inl_buf r a = [(l, e)] -> assign_value env l e = ZeroExtend_propagate (snd r) (val a).
Proof. exact (inl_buf_sound r a). Qed.

(* ---- assign r = ~a; *)
Theorem inl_not_sound r a : okn a -> 0 < snd r ->
  forall l e, inl_not r a = [(l, e)] -> assign_value env l e = Not_propagate (snd r) (val a).
Proof.
  intros Ha Hr l e H; inversion H; subst; clear H. unfold assign_value, Not_propagate. ctx.
  cbn [reval]. fold (rid a). rewrite put_trunc, reval_rid by (auto; lia).
  rewrite vtrunc_vtrunc_le by lia. apply vtrunc_trunc; lia.
Qed.

(* ---- bitwise and arithmetic binary operators on two unsigned nets *)
Lemma bin_ctx r a b o : arith_op o = true -> o <> BDiv -> o <> BMod -> okn a -> okn b -> 0 < snd r ->
  assign_value env (whole r) (RBin o (rid a) (rid b)) = trunc (snd r) (bop o (val a) (val b)).
Proof.
  intros Ho Hd Hm Ha Hb Hr. unfold assign_value. ctx. rewrite Ho.
  set (w := Z.max (snd r) (Z.max (snd a) (snd b))).
  assert (Hw : snd r <= w /\ snd a <= w /\ snd b <= w) by lia.
  cbn [reval]. rewrite Ho. fold (rid a) (rid b).
  rewrite !reval_rid by (auto; lia).
  destruct o; try discriminate; try congruence; rewrite vtrunc_vtrunc_le by lia; apply vtrunc_trunc; lia.
Qed.

Ltac binrw := rewrite bin_ctx; [ | reflexivity | discriminate | discriminate | assumption | assumption | assumption].

Theorem inl_and2_sound r a b : okn a -> okn b -> 0 < snd r ->
  forall l e, inl_bin BAnd r a b = [(l, e)] -> assign_value env l e = And2_propagate (snd r) (val a) (val b).
Proof. intros Ha Hb Hr l e H; inversion H; subst. binrw. reflexivity. Qed.
Theorem inl_or2_sound r a b : okn a -> okn b -> 0 < snd r ->
  forall l e, inl_bin BOr r a b = [(l, e)] -> assign_value env l e = Or2_propagate (snd r) (val a) (val b).
Proof. intros Ha Hb Hr l e H; inversion H; subst. binrw. reflexivity. Qed.
Theorem inl_mul_sound r a b : okn a -> okn b -> 0 < snd r ->
  forall l e, inl_bin BMul r a b = [(l, e)] -> assign_value env l e = Mul_propagate (snd r) (val a) (val b).
Proof. intros Ha Hb Hr l e H; inversion H; subst. binrw. reflexivity. Qed.
Theorem inl_sub_sound r a b : okn a -> okn b -> 0 < snd r ->
  forall l e, inl_bin BSub r a b = [(l, e)] -> assign_value env l e = Sub_propagate (snd r) (val a) (val b).
Proof.
  intros Ha Hb Hr l e H; inversion H; subst. binrw.
  unfold Sub_propagate. norm_trunc. reflexivity.
Qed.

(* ---- assign r = a + b + ci; *)
Theorem inl_addci_sound r a b ci : okn a -> okn b -> okn ci -> 0 < snd r ->
  forall l e, inl_addci r a b ci = [(l, e)] ->
  assign_value env l e = AddCarryIn_propagate (snd r) (val a) (val b) (val ci).
Proof.
  intros Ha Hb Hc Hr l e H; inversion H; subst; clear H. unfold assign_value, AddCarryIn_propagate. ctx.
  set (w := Z.max (snd r) (Z.max (Z.max (snd a) (snd b)) (snd ci))).
  assert (Hw : snd r <= w /\ snd a <= w /\ snd b <= w /\ snd ci <= w) by lia.
  cbn [reval arith_op]. fold (rid a) (rid b) (rid ci). rewrite !reval_rid by (auto; lia). cbn [bop].
  rewrite put_trunc, vtrunc_vtrunc_le by lia. rewrite !vtrunc_trunc by lia.
  rewrite <- (trunc_trunc_le (snd r) w) by lia. rewrite trunc_add_l by lia. rewrite trunc_trunc_le by lia. reflexivity.
Qed.

(* ---- shifts by a constant: assign r = a << n;   assign r = a >> n;    (0 <= n) *)
Lemma self_pynum n : 0 <= n < 2 ^ 31 -> rself env (pynum n) = n.
Proof.
  intros Hn. unfold pynum. destruct (Z.ltb_spec n 0); [lia|]. unfold rself. cbn [rsize rsigned reval extend].
  unfold vtrunc, to_signed. rewrite (Z.mod_small n (2 ^ 32)) by lia. change (2 ^ (32 - 1)) with (2 ^ 31).
  destruct (Z.leb_spec (2 ^ 31) n); [lia|]. apply Z.mod_small; lia.
Qed.

Theorem inl_shl_sound r a n : okn a -> 0 < snd r -> 0 <= n < 2 ^ 31 ->
  forall l e, inl_shl r a n = [(l, e)] -> assign_value env l e = ShiftLeftConstant_propagate (snd r) n (val a).
Proof.
  intros Ha Hr Hn l e H; inversion H; subst; clear H. unfold assign_value, ShiftLeftConstant_propagate. ctx.
  set (w := Z.max (snd r) (snd a)). assert (Hw : snd r <= w /\ snd a <= w) by lia.
  cbn [reval arith_op shift_op]. fold (rid a). rewrite reval_rid by (auto; lia).
  fold (rself env (pynum n)). rewrite self_pynum by lia.
  rewrite put_trunc, vtrunc_vtrunc_le by lia. apply vtrunc_trunc; lia.
Qed.

Theorem inl_shr_sound r a n : okn a -> 0 < snd r -> 0 <= n < 2 ^ 31 ->
  forall l e, inl_shr r a n = [(l, e)] -> assign_value env l e = ShiftRightConstant_propagate (snd r) n (val a).
Proof.
  intros Ha Hr Hn l e H; inversion H; subst; clear H. unfold assign_value, ShiftRightConstant_propagate. ctx.
  set (w := Z.max (snd r) (snd a)). assert (Hw : snd r <= w /\ snd a <= w) by lia.
  cbn [reval arith_op shift_op]. fold (rid a). rewrite reval_rid by (auto; lia).
  fold (rself env (pynum n)). rewrite self_pynum by lia.
  rewrite put_trunc, vtrunc_vtrunc_le by lia. apply vtrunc_trunc; lia.
Qed.

(* ---- assign r = (sel & 1)? sel1 : sel0;    bit 0 of the select decides, as in Mux2.propagate: EVERY select width *)
Lemma and_one_cond sel : okn sel -> rself env (RBin BAnd (rid sel) (RNum 1)) = Z.land (val sel) 1.
Proof.
  intros [Hw Hv]. unfold rself. cbn [rsize rsigned arith_op shift_op reval rid andb bop extend].
  set (cw := Z.max (snd sel) 32). assert (Hc : snd sel <= cw /\ 32 <= cw) by lia.
  assert (Hv' : 0 <= getv env (fst sel) < 2 ^ cw) by (eapply small_in_wider; [|exact Hv]; lia).
  assert (H1 : 0 <= 1 < 2 ^ cw).
  { split; [lia|]. apply Z.lt_le_trans with (2 ^ 32); [lia|]. apply pow2_le; lia. }
  rewrite (vtrunc_small cw (getv env (fst sel))) by lia.
  rewrite (vtrunc_small 32 1) by lia. rewrite (vtrunc_small cw 1) by lia.
  apply vtrunc_small; [lia|].
  assert (Hb : 0 <= Z.land (getv env (fst sel)) 1 <= 1).
  { pose proof (Z.land_ones (getv env (fst sel)) 1 ltac:(lia)) as E. change (Z.ones 1) with 1 in E. change (2 ^ 1) with 2 in E.
    rewrite E. lia. }
  lia.
Qed.

Lemma reval_cond w sg c a b : reval env w sg (RCond c a b) = if rself env c =? 0 then reval env w sg b else reval env w sg a.
Proof. reflexivity. Qed.

Theorem inl_mux2_sound r sel s0 s1 : okn sel -> okn s0 -> okn s1 -> 0 < snd r ->
  forall l e, inl_mux2 r sel s0 s1 = [(l, e)] ->
  assign_value env l e = Mux2_propagate (snd r) (val sel) (val s0) (val s1).
Proof.
  intros Hs H0 H1 Hr l e H; inversion H; subst; clear H. unfold assign_value, Mux2_propagate.
  cbn [lwidth whole rsize rsigned fst snd]. cbn [rid rsize rsigned andb].
  set (w := Z.max (snd r) (Z.max (snd s1) (snd s0))).
  assert (Hw : snd r <= w /\ snd s1 <= w /\ snd s0 <= w) by lia.
  rewrite reval_cond, (and_one_cond sel Hs).
  rewrite !reval_rid by (auto; lia).
  cbv zeta. rewrite !put_trunc. unfold py_truth.
  destruct (Z.land (val sel) 1 =? 0); cbn [negb]; apply vtrunc_trunc; lia.
Qed.

(* a 1-bit value is its own bit 0 *)
Lemma land_one_bit v : 0 <= v < 2 -> Z.land v 1 = v.
Proof. intros H. assert (Hc : v = 0 \/ v = 1) by lia. destruct Hc as [-> | ->]; reflexivity. Qed.

(* ---- assign r = a[hi:lo];   (0 <= lo <= hi);   `assign r = a;` when a is a scalar net (1 bit, hi = lo = 0) *)
Theorem rpart_sound r a hi lo : okn a -> 0 < snd r -> 0 <= lo <= hi ->
  assign_value env (whole r) (RPart (fst a) hi lo) = Range_propagate (snd r) hi lo (val a).
Proof.
  intros Ha Hr Hl. unfold assign_value, Range_propagate. ctx.
  cbn [reval]. norm_trunc.
  (* the number of kept bits may be written hi-lo+1, hi+1-lo, ... *)
  match goal with |- context [trunc ?n (Z.shiftr (val a) lo)] => replace n with (hi - lo + 1) by lia end.
  rewrite vtrunc_vtrunc_le by lia. rewrite !vtrunc_trunc by lia. reflexivity.
Qed.
Theorem inl_range_sound r a hi lo : okn a -> 0 < snd r -> 0 <= lo <= hi ->
  forall l e, inl_range r a hi lo = [(l, e)] -> assign_value env l e = Range_propagate (snd r) hi lo (val a).
Proof.
  intros Ha Hr Hl l e H. unfold inl_range in H.
  destruct ((snd a =? 1) && (hi =? 0) && (lo =? 0)) eqn:Hs; inversion H; subst; clear H.
  - assert (Hs' : snd a = 1 /\ hi = 0 /\ lo = 0) by lia. destruct Hs' as (Ha1 & -> & ->).
    rewrite (inl_buf_sound r a Ha Hr _ _ eq_refl). unfold Buf_propagate, Range_propagate, py_shr, py_shl. cbv zeta.
    destruct Ha as [_ Hv]. rewrite Ha1 in Hv. change (2 ^ 1) with 2 in Hv.
    rewrite Z.shiftr_0_r. change (Z.shiftl 1 (0 - 0 + 1) - 1) with 1. rewrite land_one_bit by lia. reflexivity.
  - apply rpart_sound; auto.
Qed.

(* ---- assign r = a[k];   (0 <= k < width a : the emitter's legal case; k >= width reads x in Verilog);
        `assign r = a;` when a is a scalar net *)
Theorem rbit_sound r a k : okn a -> 0 < snd r -> 0 <= k < snd a -> k < 2 ^ 31 ->
  assign_value env (whole r) (RBit (fst a) (snd a) (pynum k)) = Bit_propagate (snd r) k (val a).
Proof.
  intros Ha Hr Hk Hk2. unfold assign_value, Bit_propagate. ctx.
  cbn [reval]. fold (rself env (pynum k)). rewrite self_pynum by lia.
  replace ((0 <=? k) && (k <? snd a)) with true by lia.
  cbv zeta. unfold Wire_put, py_shl, py_shr.
  change (Z.land (Z.land (Z.shiftr (val a) k) 1) (Z.shiftl 1 (snd r) - 1)) with (trunc (snd r) (Z.land (Z.shiftr (val a) k) 1)).
  rewrite vtrunc_vtrunc_le by lia. apply vtrunc_trunc; lia.
Qed.
Theorem inl_bit_sound r a k : okn a -> 0 < snd r -> 0 <= k < snd a -> k < 2 ^ 31 ->
  forall l e, inl_bit r a k = [(l, e)] -> assign_value env l e = Bit_propagate (snd r) k (val a).
Proof.
  intros Ha Hr Hk Hk2 l e H. unfold inl_bit, bit_select in H.
  destruct ((snd a =? 1) && (k =? 0)) eqn:Hs; inversion H; subst; clear H.
  - assert (Hs' : snd a = 1 /\ k = 0) by lia. destruct Hs' as (Ha1 & ->).
    rewrite (inl_buf_sound r a Ha Hr _ _ eq_refl). unfold Buf_propagate, Bit_propagate, py_shr. cbv zeta.
    destruct Ha as [_ Hv]. rewrite Ha1 in Hv. change (2 ^ 1) with 2 in Hv.
    rewrite Z.shiftr_0_r, land_one_bit by lia. reflexivity.
  - apply rbit_sound; auto.
Qed.

(* ---- assign r[w-1:0] = v;  /  assign r = v;     (|v| < 2^31: the literal is a 32-bit signed decimal) *)
Theorem inl_constant_sound r v : 0 < snd r -> - 2 ^ 31 < v < 2 ^ 31 ->
  forall l e, inl_constant r v = [(l, e)] ->
  lwidth l = snd r /\ assign_value env l e = Constant_propagate (snd r) v.
Proof.
  intros Hr Hv l e H; inversion H; subst; clear H.
  assert (Hlw : lwidth (if 1 <? snd r then RLPart (fst r) (snd r - 1) 0 else whole r) = snd r).
  { destruct (1 <? snd r); cbn [lwidth whole]; lia. }
  split; [exact Hlw|]. unfold assign_value. rewrite Hlw. unfold Constant_propagate. rewrite put_trunc.
  assert (Hp : 2 ^ 32 = 2 * 2 ^ 31) by reflexivity.
  unfold pynum. destruct (Z.ltb_spec v 0) as [Hneg | Hpos].
  - cbn [rsize rsigned reval extend].
    set (w := Z.max (snd r) 32). assert (Hw : snd r <= w /\ 32 <= w) by lia.
    rewrite vtrunc_vtrunc_le by lia.
    (* -v as a 32-bit signed literal sign-extended to w, negated, truncated to w, then to r *)
    unfold vtrunc at 3. rewrite (Z.mod_small (- v) (2 ^ 32)) by lia.
    unfold to_signed. change (2 ^ (32 - 1)) with (2 ^ 31). destruct (Z.leb_spec (2 ^ 31) (- v)); [lia|].
    rewrite !vtrunc_trunc by lia. rewrite <- (trunc_trunc_le (snd r) w) by lia.
    replace (- trunc w (- v)) with (0 - trunc w (- v)) by lia. rewrite trunc_sub_r by lia.
    rewrite trunc_trunc_le by lia. f_equal. lia.
  - cbn [rsize rsigned reval extend].
    set (w := Z.max (snd r) 32). assert (Hw : snd r <= w /\ 32 <= w) by lia.
    unfold vtrunc at 3. rewrite (Z.mod_small v (2 ^ 32)) by lia.
    unfold to_signed. change (2 ^ (32 - 1)) with (2 ^ 31). destruct (Z.leb_spec (2 ^ 31) v); [lia|].
    rewrite vtrunc_vtrunc_le by lia. apply vtrunc_trunc; lia.
Qed.

(* ---- assign r = a / b;   assign r = a % b;    (b <> 0: the only inputs the property excludes) *)
Theorem inl_div_sound r a b rnd : okn a -> okn b -> 0 < snd r -> val b <> 0 ->
  forall l e, inl_bin BDiv r a b = [(l, e)] -> assign_value env l e = Div_propagate (snd r) rnd (val a) (val b).
Proof.
  intros Ha Hb Hr Hnz l e H; inversion H; subst; clear H. unfold assign_value, Div_propagate. ctx.
  set (w := Z.max (snd r) (Z.max (snd a) (snd b))).
  assert (Hw : snd r <= w /\ snd a <= w /\ snd b <= w) by lia.
  cbn [reval arith_op]. fold (rid a) (rid b). rewrite !reval_rid by (auto; lia).
  destruct (Z.eqb_spec (val b) 0); [contradiction|]. cbv zeta. rewrite put_trunc.
  destruct Ha as [_ Hva], Hb as [_ Hvb].
  rewrite Z.quot_div_nonneg by lia. rewrite vtrunc_vtrunc_le by lia. apply vtrunc_trunc; lia.
Qed.

Theorem inl_mod_sound r a b rnd : okn a -> okn b -> 0 < snd r -> val b <> 0 ->
  forall l e, inl_bin BMod r a b = [(l, e)] -> assign_value env l e = Mod_propagate (snd r) rnd (val a) (val b).
Proof.
  intros Ha Hb Hr Hnz l e H; inversion H; subst; clear H. unfold assign_value, Mod_propagate. ctx.
  set (w := Z.max (snd r) (Z.max (snd a) (snd b))).
  assert (Hw : snd r <= w /\ snd a <= w /\ snd b <= w) by lia.
  cbn [reval arith_op]. fold (rid a) (rid b). rewrite !reval_rid by (auto; lia).
  destruct (Z.eqb_spec (val b) 0); [contradiction|]. cbv zeta. rewrite put_trunc.
  destruct Ha as [_ Hva], Hb as [_ Hvb].
  rewrite Z.rem_mod_nonneg by lia. rewrite vtrunc_vtrunc_le by lia. apply vtrunc_trunc; lia.
Qed.

(* ---- assign r = $signed(a) * $signed(b); *)
Lemma land_pow2 v k : 0 <= k -> Z.land v (2 ^ k) = if Z.testbit v k then 2 ^ k else 0.
Proof.
  intros Hk. apply Z.bits_inj'; intros n Hn. rewrite Z.land_spec, Z.pow2_bits_eqb by lia.
  destruct (Z.eqb_spec k n) as [->|Hne].
  - destruct (Z.testbit v n); [rewrite Z.pow2_bits_true by lia | rewrite Z.bits_0]; reflexivity.
  - rewrite andb_false_r. destruct (Z.testbit v k); [rewrite Z.pow2_bits_false by lia | rewrite Z.bits_0]; reflexivity.
Qed.

Lemma c2_to_signed_spec v w : 0 < w -> 0 <= v < 2 ^ w -> IntegerHelper_c2_to_signed v w = to_signed w v.
Proof.
  intros Hw Hv. unfold IntegerHelper_c2_to_signed, py_shl. cbv zeta.
  change (Z.land v (Z.shiftl 1 w - 1)) with (trunc w v). rewrite trunc_small by lia.
  rewrite !Z.shiftl_1_l. rewrite land_pow2 by lia. rewrite testbit_high by lia. unfold to_signed.
  pose proof (pow2_pos (w - 1) ltac:(lia)).
  destruct (Z.leb_spec (2 ^ (w - 1)) v); destruct (Z.gtb_spec (2 ^ (w - 1)) 0); destruct (Z.gtb_spec 0 0); try lia; reflexivity.
Qed.

Theorem inl_smul_sound r a b : okn a -> okn b -> 0 < snd r ->
  forall l e, inl_smul r a b = [(l, e)] ->
  assign_value env l e = SignedMul_propagate (snd a) (snd b) (snd r) (val a) (val b).
Proof.
  intros Ha Hb Hr l e H; inversion H; subst; clear H. unfold assign_value, SignedMul_propagate. ctx.
  set (w := Z.max (snd r) (Z.max (snd a) (snd b))).
  assert (Hw : snd r <= w /\ snd a <= w /\ snd b <= w) by lia.
  cbn [reval arith_op]. fold (rid a) (rid b).
  change (rsize (rid a)) with (snd a). change (rsize (rid b)) with (snd b).
  change (rsigned (rid a)) with false. change (rsigned (rid b)) with false.
  rewrite !reval_rid by (auto; lia). cbn [bop extend].
  destruct Ha as [Hwa Hva], Hb as [Hwb Hvb].
  rewrite !c2_to_signed_spec by lia. norm_trunc. rewrite vtrunc_vtrunc_le by lia. rewrite !vtrunc_trunc by lia.
  rewrite <- (trunc_trunc_le (snd r) w) by lia. rewrite trunc_mul_l, trunc_mul_r by lia.
  rewrite trunc_trunc_le by lia. f_equal; ring.
Qed.
End Sound.

Lemma Wire_prepare_is_trunc w v : Wire_prepare w v = trunc w v.
Proof. reflexivity. Qed.
