(* C01: memories.  VSem elaborates `reg [w-1:0] mem [0:d-1]` into d word nets; a word read is the chain `mem_read`, a procedural word
   write the sequence `mem_write`.  General lemmas about both, then the hand-written bodies of SynchronousMemory /
   DualPortSynchronousMemory against the REGENERATED clock() functions (Gen/Seq.v), for every address width, data width, state and input. *)
From V Require Import Base.Bits Gen.WireOps Gen.Helpers Gen.Prims Gen.Seq Model.VSyntax Model.VSem Model.Inline Model.C01Mem
  Proofs.C01.InlineSound Proofs.C01.ComposeComb Proofs.C01.ComposeEdge.
From Coq Require Import PeanoNat Arith.

Section Mem.
Variable env : list Z.
Notation val n := (getv env (fst n)).

(* ------------------------------------------------------------------ index expressions *)
(* an unsigned net used as index *)
Lemma idx_is_rid n : okn env n -> idx_is env (rid n) (val n).
Proof.
  intros [Hw Hv] k Hk. unfold rself. cbn [rsize rsigned arith_op shift_op reval rid andb].
  set (cw := Z.max (snd n) 32). assert (Hc : snd n <= cw /\ 32 <= cw) by lia.
  cbn [extend].
  assert (Hv' : 0 <= getv env (fst n) < 2 ^ cw) by (eapply small_in_wider; [|exact Hv]; lia).
  assert (H32 : 2 ^ 31 < 2 ^ 32) by (apply pow2_lt; lia).
  assert (Hk' : 0 <= k < 2 ^ cw).
  { split; [lia|]. apply Z.lt_le_trans with (2 ^ 32); [lia|]. apply pow2_le; lia. }
  rewrite (vtrunc_small cw (getv env (fst n))) by lia.
  rewrite (vtrunc_small 32 k) by lia. rewrite (vtrunc_small cw k) by lia.
  apply vtrunc_small; [lia|]. destruct (val n =? k); cbn; lia.
Qed.

(* ------------------------------------------------------------------ word read *)
Lemma mem_read_size base w : forall n k idx, rsize (mem_read base w k n idx) = w /\ rsigned (mem_read base w k n idx) = false.
Proof.
  induction n as [|n IH]; intros k idx; cbn [mem_read rsize rsigned]; [split; reflexivity|].
  destruct (IH (S k) idx) as [E1 E2]. rewrite E1, E2. split; [lia | reflexivity].
Qed.

(* in a context at least as wide as the words, the chain evaluates to the addressed word; an index beyond the last word reads the last one *)
Lemma mem_read_sound base w W idx i : idx_is env idx i -> 0 <= w <= W ->
  forall n k, Z.of_nat (k + n) < 2 ^ 31 -> Z.of_nat k <= i <= Z.of_nat (k + n) ->
  (forall j, (k <= j <= k + n)%nat -> 0 <= getv env (base + j) < 2 ^ w) ->
  reval env W false (mem_read base w k n idx) = getv env (base + Z.to_nat i).
Proof.
  intros Hidx Hw. induction n as [|n IH]; intros k Hlit Hi Hcells.
  - cbn [mem_read reval extend]. replace (Z.to_nat i) with k by lia.
    apply vtrunc_small; [lia|]. eapply small_in_wider; [|apply Hcells; lia]. lia.
  - cbn [mem_read]. rewrite reval_cond. rewrite (Hidx (Z.of_nat k)) by lia.
    destruct (Z.eqb_spec i (Z.of_nat k)) as [E|Hne]; cbn [b2z Z.eqb].
    + cbn [reval extend]. replace (Z.to_nat i) with k by lia.
      apply vtrunc_small; [lia|]. eapply small_in_wider; [|apply Hcells; lia]. lia.
    + apply IH; [lia | lia |]. intros j Hj. apply Hcells. lia.
Qed.

(* the value a registered read `rr <= mem[ra]` queues *)
Lemma mem_read_assign base w d rr idx i : idx_is env idx i -> 0 < w -> snd rr = w -> (0 < d)%nat -> Z.of_nat d <= 2 ^ 31 ->
  0 <= i < Z.of_nat d -> (forall j, (j < d)%nat -> 0 <= getv env (base + j) < 2 ^ w) ->
  assign_value env (whole rr) (mem_read base w 0 (d - 1) idx) = getv env (base + Z.to_nat i).
Proof.
  intros Hidx Hw Hrr Hd Hlit Hi Hcells. unfold assign_value. cbn [lwidth whole].
  destruct (mem_read_size base w (d - 1) 0 idx) as [E1 E2]. rewrite E1, E2, Hrr, Z.max_id.
  rewrite (mem_read_sound base w w idx i Hidx ltac:(lia) (d - 1) 0) by (try lia; intros j Hj; apply Hcells; lia).
  apply vtrunc_small; [lia|]. apply Hcells. lia.
Qed.

(* ------------------------------------------------------------------ word write, non-blocking: exactly one queued write to the addressed word *)
Lemma mem_write_nba base w idx e i : idx_is env idx i ->
  forall n k q, Z.of_nat (k + n) <= 2 ^ 31 ->
  exec (mem_write true base w k n idx e) (env, q) =
  (env, q ++ (if (Z.of_nat k <=? i) && (i <? Z.of_nat (k + n))
              then [(((base + Z.to_nat i)%nat, 0, w), assign_value env (RLId (base + Z.to_nat i) w) e)] else [])).
Proof.
  intros Hidx. induction n as [|n IH]; intros k q Hlit.
  - cbn [mem_write exec]. replace ((Z.of_nat k <=? i) && (i <? Z.of_nat (k + 0))) with false by lia. now rewrite app_nil_r.
  - cbn [mem_write exec fst]. rewrite (Hidx (Z.of_nat k)) by lia.
    destruct (Z.eqb_spec i (Z.of_nat k)) as [E|Hne]; cbn [b2z Z.eqb exec fst snd ltarget].
    + rewrite IH by lia.
      replace ((Z.of_nat (S k) <=? i) && (i <? Z.of_nat (S k + n))) with false by lia.
      replace ((Z.of_nat k <=? i) && (i <? Z.of_nat (k + S n))) with true by lia.
      rewrite app_nil_r. replace (Z.to_nat i) with k by lia. reflexivity.
    + rewrite IH by lia.
      replace ((Z.of_nat (S k) <=? i) && (i <? Z.of_nat (S k + n))) with ((Z.of_nat k <=? i) && (i <? Z.of_nat (k + S n))) by lia.
      reflexivity.
Qed.
End Mem.

(* ------------------------------------------------------------------ the words of a memory under writes *)
Lemma mem_cells_length E base d : length (mem_cells E base d) = d.
Proof. unfold mem_cells. now rewrite map_length, seq_length. Qed.

Lemma nth_mem_cells E base d k : (k < d)%nat -> nth k (mem_cells E base d) 0 = getv E (base + k).
Proof.
  intros Hk. unfold mem_cells. rewrite (nth_indep _ 0 (getv E (base + 0))) by (rewrite map_length, seq_length; exact Hk).
  rewrite (map_nth (fun j => getv E (base + j)) (seq 0 d) 0%nat k), seq_nth by exact Hk. reflexivity.
Qed.

Lemma mem_cells_set_cell E base d i v : (i < d)%nat -> (base + i < length E)%nat ->
  mem_cells (set_nth E (base + i) v) base d = set_nth (mem_cells E base d) i v.
Proof.
  intros Hi Hl. apply (nth_ext _ _ 0 0); [now rewrite Settle.set_nth_length, !mem_cells_length|].
  intros k Hk. rewrite mem_cells_length in Hk. rewrite nth_mem_cells by exact Hk.
  rewrite (Settle.nth_set_nth 0) by (rewrite mem_cells_length; exact Hk). rewrite nth_mem_cells by exact Hk.
  destruct (Nat.eqb_spec i k) as [->|Hne]; [now apply getv_set_nth_eq | apply getv_set_nth_ne; lia].
Qed.

Lemma mem_cells_set_other E base d j v : ~ (base <= j < base + d)%nat -> mem_cells (set_nth E j v) base d = mem_cells E base d.
Proof. intros Hj. unfold mem_cells. apply map_ext_in. intros k Hk. apply in_seq in Hk. apply getv_set_nth_ne. lia. Qed.

Lemma map_set_nth {A B} (g : A -> B) : forall (l : list A) i v, map g (set_nth l i v) = set_nth (map g l) i (g v).
Proof. induction l as [|x l IH]; intros [|i] v; cbn; auto. now rewrite IH. Qed.

(* ------------------------------------------------------------------ one memory port *)
Section Port.
Variable env : list Z.
Variables (base : nat) (w : Z) (d : nat) (rr ra wa we wd : nid).
Notation val n := (getv env (fst n)).
Hypothesis Hw : 0 < w.
Hypothesis Hrrw : snd rr = w.
Hypothesis Hd : (0 < d)%nat.
Hypothesis Hlit : Z.of_nat d <= 2 ^ 31.
Hypothesis Hra : okn env ra.
Hypothesis Hwa : okn env wa.
Hypothesis Hwe : okn env we.
Hypothesis Hwd : okn env wd.
Hypothesis Hrai : val ra < Z.of_nat d.          (* addresses inside the memory: always so for d = 2^aw and aw-bit address nets *)
Hypothesis Hwai : val wa < Z.of_nat d.

(* the process does not change the environment and queues `mem_port_queue` *)
Lemma port_exec q : exec (mem_port_proc base w d rr ra wa we wd) (env, q) = (env, q ++ mem_port_queue env base w d rr ra wa we wd).
Proof.
  unfold mem_port_proc, mem_port_queue. cbn [exec fst].
  assert (Ec : rself env (rid we) = val we) by (unfold rself; cbn [rid rsize rsigned]; fold (rid we); apply reval_rid; [exact Hwe | lia]).
  rewrite Ec. destruct (val we =? 0).
  - cbn [exec fst snd ltarget whole app]. reflexivity.
  - rewrite (mem_write_nba env base w (rid wa) (rid wd) (val wa) (idx_is_rid env wa Hwa) d 0 q) by (cbn; lia).
    replace ((Z.of_nat 0 <=? val wa) && (val wa <? Z.of_nat (0 + d))) with true by (destruct Hwa as [_ ?]; cbn [Nat.add]; lia).
    cbn [exec fst snd ltarget whole]. now rewrite <- app_assoc.
Qed.

(* the two queued values *)
Lemma port_write_value : vtrunc w (assign_value env (RLId (base + Z.to_nat (val wa)) w) (rid wd)) = trunc w (val wd).
Proof.
  unfold assign_value. cbn [lwidth rid rsize rsigned]. fold (rid wd). rewrite reval_rid by (auto; lia).
  rewrite vtrunc_vtrunc_le by lia. apply vtrunc_trunc. lia.
Qed.

Lemma port_read_value : (forall j, (j < d)%nat -> 0 <= getv env (base + j) < 2 ^ w) ->
  assign_value env (whole rr) (mem_read base w 0 (d - 1) (rid ra)) = nth (Z.to_nat (val ra)) (mem_cells env base d) 0.
Proof.
  intros Hcells. rewrite (mem_read_assign env base w d rr (rid ra) (val ra) (idx_is_rid env ra Hra)); auto.
  - rewrite nth_mem_cells; [reflexivity|]. destruct Hra as [_ ?]. lia.
  - destruct Hra as [_ ?]. lia.
Qed.

(* applying the port's queue to a (later) environment E *)
Lemma port_apply E : (base + d <= length E)%nat -> (fst rr < length E)%nat -> ~ (base <= fst rr < base + d)%nat ->
  (forall j, (j < d)%nat -> 0 <= getv E (base + j) < 2 ^ w) -> 0 <= getv E (fst rr) < 2 ^ w ->
  (forall j, (j < d)%nat -> 0 <= getv env (base + j) < 2 ^ w) ->
  let E' := apply_nbas E (mem_port_queue env base w d rr ra wa we wd) in
  length E' = length E /\
  mem_cells E' base d = (if val we =? 0 then mem_cells E base d
                         else set_nth (mem_cells E base d) (Z.to_nat (val wa)) (trunc w (val wd))) /\
  getv E' (fst rr) = nth (Z.to_nat (val ra)) (mem_cells env base d) 0 /\
  (forall j, ~ (base <= j < base + d)%nat -> j <> fst rr -> getv E' j = getv E j) /\
  (forall j, (j < d)%nat -> 0 <= getv E' (base + j) < 2 ^ w).
Proof.
  intros Hlen Hrl Hrn HcE HrE Hcenv. cbv zeta. unfold mem_port_queue, apply_nbas. rewrite fold_left_app.
  set (E1 := fold_left (fun env p => write env (fst p) (snd p))
                       (if val we =? 0 then [] else [(((base + Z.to_nat (val wa))%nat, 0, w), assign_value env (RLId (base + Z.to_nat (val wa)) w) (rid wd))]) E).
  assert (Hwan : (Z.to_nat (val wa) < d)%nat) by (destruct Hwa as [_ ?]; lia).
  assert (H1 : length E1 = length E /\
               mem_cells E1 base d = (if val we =? 0 then mem_cells E base d else set_nth (mem_cells E base d) (Z.to_nat (val wa)) (trunc w (val wd))) /\
               (forall j, ~ (base <= j < base + d)%nat -> getv E1 j = getv E j) /\
               (forall j, (j < d)%nat -> 0 <= getv E1 (base + j) < 2 ^ w)).
  { unfold E1. destruct (val we =? 0); cbn [fold_left fst snd]; [split; [reflexivity|]; split; [reflexivity|]; split; [reflexivity | exact HcE]|].
    rewrite write_whole_eq by (try lia; apply HcE; exact Hwan). rewrite port_write_value.
    split; [apply Settle.set_nth_length|]. split; [apply mem_cells_set_cell; lia|]. split.
    - intros j Hj. apply getv_set_nth_ne. lia.
    - intros j Hj. destruct (Nat.eq_dec (Z.to_nat (val wa)) j) as [<-|Hne].
      + rewrite getv_set_nth_eq by lia. apply trunc_range. lia.
      + rewrite getv_set_nth_ne by lia. now apply HcE. }
  destruct H1 as (Hl1 & Hc1 & Ho1 & Hr1). cbn [fold_left fst snd].
  replace (fst rr, 0, snd rr) with (fst rr, 0, w) by (now rewrite Hrrw).
  rewrite write_whole_eq by (try lia; rewrite Ho1 by exact Hrn; exact HrE).
  rewrite port_read_value by exact Hcenv.
  assert (Hv : vtrunc w (nth (Z.to_nat (val ra)) (mem_cells env base d) 0) = nth (Z.to_nat (val ra)) (mem_cells env base d) 0).
  { apply vtrunc_small; [lia|]. rewrite nth_mem_cells by (destruct Hra as [_ ?]; lia). apply Hcenv. destruct Hra as [_ ?]. lia. }
  rewrite Hv.
  split; [rewrite Settle.set_nth_length; exact Hl1|]. split; [rewrite mem_cells_set_other by exact Hrn; exact Hc1|].
  assert (Hx : (fst rr < length E1)%nat) by (rewrite Hl1; exact Hrl).
  split; [apply getv_set_nth_eq; exact Hx|]. split.
  - intros j Hj Hne. rewrite getv_set_nth_ne by auto. now apply Ho1.
  - intros j Hj. rewrite getv_set_nth_ne by lia. now apply Hr1.
Qed.
End Port.

(* ------------------------------------------------------------------ SynchronousMemory: one posedge of the emitted body vs the regenerated clock() *)
Lemma cells_in_range env base d w data : 0 <= w -> mem_cells env base d = map (trunc w) data ->
  length data = d /\ forall j, (j < d)%nat -> 0 <= getv env (base + j) < 2 ^ w.
Proof.
  intros Hw E. assert (Hl : length data = d) by (rewrite <- (map_length (trunc w) data), <- E; apply mem_cells_length).
  split; [exact Hl|]. intros j Hj. rewrite <- (nth_mem_cells env base d j Hj), E.
  rewrite (nth_indep _ 0 (trunc w 0)) by (rewrite map_length; lia). rewrite map_nth. apply trunc_range. exact Hw.
Qed.

Lemma nth_map_trunc w data k : nth k (map (trunc w) data) 0 = trunc w (nth k data 0).
Proof. change 0 with (trunc w 0) at 1. apply map_nth. Qed.

Lemma addr_depth aw : 0 < aw <= 31 -> let d := Z.to_nat (2 ^ aw) in (0 < d)%nat /\ Z.of_nat d = 2 ^ aw /\ Z.of_nat d <= 2 ^ 31.
Proof.
  intros H. cbv zeta. pose proof (pow2_pos aw ltac:(lia)). pose proof (pow2_le aw 31 ltac:(lia)). lia.
Qed.

Theorem syncmem_sound env base aw w rr ra wa we wd st :
  let d := Z.to_nat (2 ^ aw) in
  0 < w -> 0 < aw <= 31 -> snd rr = w -> snd ra = aw -> snd wa = aw ->
  okn env rr -> okn env ra -> okn env wa -> okn env we -> okn env wd ->
  (base + d <= length env)%nat -> (fst rr < length env)%nat -> ~ (base <= fst rr < base + d)%nat ->
  mem_cells env base d = map (trunc w) (SynchronousMemory_s_data st) ->
  let '(env1, q) := exec (body_syncmem_proc base w d rr ra wa we wd) (env, []) in
  let env' := apply_nbas env1 q in
  let '(st', rd) := SynchronousMemory_clock w st (getv env (fst ra)) (getv env (fst wa)) (getv env (fst we)) (getv env (fst wd)) in
  env1 = env /\ length env' = length env /\
  mem_cells env' base d = map (trunc w) (SynchronousMemory_s_data st') /\
  getv env' (fst rr) = rd /\
  (forall j, ~ (base <= j < base + d)%nat -> j <> fst rr -> getv env' j = getv env j).
Proof.
  intros d Hw Haw Hrrw Hraw Hwaw Hrr Hra Hwa Hwe Hwd Hlen Hrl Hrn Hrel.
  destruct (addr_depth aw Haw) as (Hd & Hdz & Hlit). fold d in Hd, Hdz, Hlit.
  destruct (cells_in_range env base d w _ ltac:(lia) Hrel) as [Hdl Hcells].
  assert (Hrai : getv env (fst ra) < Z.of_nat d) by (destruct Hra as [_ ?]; rewrite Hraw in *; lia).
  assert (Hwai : getv env (fst wa) < Z.of_nat d) by (destruct Hwa as [_ ?]; rewrite Hwaw in *; lia).
  unfold body_syncmem_proc. rewrite (port_exec env base w d rr ra wa we wd Hd Hlit Hwa Hwe Hwai []). cbn [app].
  destruct (port_apply env base w d rr ra wa we wd Hw Hrrw Hd Hlit Hra Hwa Hwd Hrai Hwai env Hlen Hrl Hrn Hcells
              ltac:(destruct Hrr as [_ ?]; rewrite Hrrw in *; assumption) Hcells) as (Hl' & Hc' & Hr' & Ho' & _).
  cbv zeta in Hl', Hc', Hr', Ho'.
  unfold SynchronousMemory_clock. cbv zeta. unfold py_truth.
  split; [reflexivity|]. split; [exact Hl'|]. split; [|split; [|exact Ho']].
  - rewrite Hc', Hrel. destruct (getv env (fst we) =? 0); cbn [negb SynchronousMemory_s_data]; [reflexivity|].
    unfold setZ. destruct (Z.ltb_spec (getv env (fst wa)) 0); [destruct Hwa as [_ ?]; lia|]. now rewrite map_set_nth.
  - rewrite Hr', Hrel, nth_map_trunc. reflexivity.
Qed.

(* ------------------------------------------------------------------ DualPortSynchronousMemory: two always blocks; both read the old words,
   the queue applies port a's write before port b's, as the regenerated clock() does (b wins on equal addresses) *)
Theorem dualmem_sound env base aw w rra raa waa wea wda rrb rab wab web wdb st :
  let d := Z.to_nat (2 ^ aw) in
  0 < w -> 0 < aw <= 31 -> snd rra = w -> snd rrb = w -> snd raa = aw -> snd waa = aw -> snd rab = aw -> snd wab = aw ->
  okn env rra -> okn env raa -> okn env waa -> okn env wea -> okn env wda ->
  okn env rrb -> okn env rab -> okn env wab -> okn env web -> okn env wdb ->
  (base + d <= length env)%nat -> (fst rra < length env)%nat -> (fst rrb < length env)%nat -> fst rra <> fst rrb ->
  ~ (base <= fst rra < base + d)%nat -> ~ (base <= fst rrb < base + d)%nat ->
  mem_cells env base d = map (trunc w) (DualPortSynchronousMemory_s_data st) ->
  let '(e1, q1) := exec (mem_port_proc base w d rra raa waa wea wda) (env, []) in
  let '(e2, q2) := exec (mem_port_proc base w d rrb rab wab web wdb) (e1, q1) in
  let env' := apply_nbas e2 q2 in
  let '(st', o) := DualPortSynchronousMemory_clock w w st (getv env (fst raa)) (getv env (fst waa)) (getv env (fst wea)) (getv env (fst wda))
                                                   (getv env (fst rab)) (getv env (fst wab)) (getv env (fst web)) (getv env (fst wdb)) in
  e2 = env /\ length env' = length env /\
  mem_cells env' base d = map (trunc w) (DualPortSynchronousMemory_s_data st') /\
  getv env' (fst rra) = DualPortSynchronousMemory_o_readdata_a o /\
  getv env' (fst rrb) = DualPortSynchronousMemory_o_readdata_b o /\
  (forall j, ~ (base <= j < base + d)%nat -> j <> fst rra -> j <> fst rrb -> getv env' j = getv env j).
Proof.
  intros d Hw Haw Hrraw Hrrbw Hraaw Hwaaw Hrabw Hwabw Hrra Hraa Hwaa Hwea Hwda Hrrb Hrab Hwab Hweb Hwdb Hlen Hral Hrbl Hab Hran Hrbn Hrel.
  destruct (addr_depth aw Haw) as (Hd & Hdz & Hlit). fold d in Hd, Hdz, Hlit.
  destruct (cells_in_range env base d w _ ltac:(lia) Hrel) as [Hdl Hcells].
  assert (Ha1 : getv env (fst raa) < Z.of_nat d) by (destruct Hraa as [_ ?]; rewrite Hraaw in *; lia).
  assert (Ha2 : getv env (fst waa) < Z.of_nat d) by (destruct Hwaa as [_ ?]; rewrite Hwaaw in *; lia).
  assert (Hb1 : getv env (fst rab) < Z.of_nat d) by (destruct Hrab as [_ ?]; rewrite Hrabw in *; lia).
  assert (Hb2 : getv env (fst wab) < Z.of_nat d) by (destruct Hwab as [_ ?]; rewrite Hwabw in *; lia).
  rewrite (port_exec env base w d rra raa waa wea wda Hd Hlit Hwaa Hwea Ha2 []). cbn [app].
  rewrite (port_exec env base w d rrb rab wab web wdb Hd Hlit Hwab Hweb Hb2).
  cbv zeta. unfold apply_nbas. rewrite fold_left_app.
  fold (apply_nbas env (mem_port_queue env base w d rra raa waa wea wda)).
  set (E1 := apply_nbas env (mem_port_queue env base w d rra raa waa wea wda)).
  fold (apply_nbas E1 (mem_port_queue env base w d rrb rab wab web wdb)).
  destruct (port_apply env base w d rra raa waa wea wda Hw Hrraw Hd Hlit Hraa Hwaa Hwda Ha1 Ha2 env Hlen Hral Hran Hcells
              ltac:(destruct Hrra as [_ ?]; rewrite Hrraw in *; assumption) Hcells) as (Hl1 & Hc1 & Hr1 & Ho1 & Hk1).
  cbv zeta in Hl1, Hc1, Hr1, Ho1, Hk1. fold E1 in Hl1, Hc1, Hr1, Ho1, Hk1.
  assert (HrbE1 : 0 <= getv E1 (fst rrb) < 2 ^ w).
  { rewrite Ho1 by auto. destruct Hrrb as [_ ?]. rewrite Hrrbw in *. assumption. }
  destruct (port_apply env base w d rrb rab wab web wdb Hw Hrrbw Hd Hlit Hrab Hwab Hwdb Hb1 Hb2 E1
              ltac:(rewrite Hl1; exact Hlen) ltac:(rewrite Hl1; exact Hrbl) Hrbn Hk1 HrbE1 Hcells) as (Hl2 & Hc2 & Hr2 & Ho2 & _).
  cbv zeta in Hl2, Hc2, Hr2, Ho2.
  unfold DualPortSynchronousMemory_clock. cbv zeta. unfold py_truth.
  cbn [DualPortSynchronousMemory_s_data DualPortSynchronousMemory_o_readdata_a DualPortSynchronousMemory_o_readdata_b].
  split; [reflexivity|]. split; [rewrite Hl2; exact Hl1|]. split; [|split; [|split]].
  - rewrite Hc2, Hc1, Hrel.
    assert (Hset : forall l a v, 0 <= a -> map (trunc w) (setZ l a v) = set_nth (map (trunc w) l) (Z.to_nat a) (trunc w v)).
    { intros l a v Ha. unfold setZ. destruct (Z.ltb_spec a 0); [lia|]. apply map_set_nth. }
    destruct (getv env (fst wea) =? 0), (getv env (fst web) =? 0); cbn [negb]; rewrite ?Hset; try reflexivity;
      try (destruct Hwaa as [_ ?]; lia); try (destruct Hwab as [_ ?]; lia).
  - rewrite Ho2 by auto. rewrite Hr1, Hrel, nth_map_trunc. reflexivity.
  - rewrite Hr2, Hrel, nth_map_trunc. reflexivity.
  - intros j Hj Hna Hnb. rewrite Ho2 by auto. now apply Ho1.
Qed.

(* ------------------------------------------------------------------ word write, blocking (AsynchronousMemory's `mem[wa] = wd`): the addressed
   word is written at once, the others are untouched; index and data are nets outside the memory, so the write does not disturb them *)
Lemma okn_set_other E n j v : okn E n -> j <> fst n -> okn (set_nth E j v) n /\ getv (set_nth E j v) (fst n) = getv E (fst n).
Proof. intros [Hw Hv] Hne. unfold okn. rewrite getv_set_nth_ne by exact Hne. auto. Qed.

Lemma mem_write_blk base w a v : 0 <= w -> forall n k E q,
  okn E a -> Z.of_nat (k + n) <= 2 ^ 31 ->
  ~ (base + k <= fst a < base + k + n)%nat ->
  (forall j, (k <= j < k + n)%nat -> 0 <= getv E (base + j) < 2 ^ w) ->
  let i := getv E (fst a) in
  exec (mem_write false base w k n (rid a) (rid v)) (E, q) =
  ((if (Z.of_nat k <=? i) && (i <? Z.of_nat (k + n))
    then set_nth E (base + Z.to_nat i) (vtrunc w (assign_value E (RLId (base + Z.to_nat i) w) (rid v))) else E), q).
Proof.
  intros Hw. induction n as [|n IH]; intros k E q Ha Hlit Hna Hcells; cbv zeta.
  - cbn [mem_write exec]. replace ((Z.of_nat k <=? getv E (fst a)) && (getv E (fst a) <? Z.of_nat (k + 0))) with false by lia. reflexivity.
  - cbn [mem_write exec fst]. rewrite (idx_is_rid E a Ha (Z.of_nat k)) by lia.
    destruct (Z.eqb_spec (getv E (fst a)) (Z.of_nat k)) as [Ei|Hne]; cbn [b2z Z.eqb exec fst snd ltarget].
    + rewrite write_whole_eq by (try lia; apply Hcells; lia).
      set (E2 := set_nth E (base + k) (vtrunc w (assign_value E (RLId (base + k) w) (rid v)))).
      destruct (okn_set_other E a (base + k) (vtrunc w (assign_value E (RLId (base + k) w) (rid v))) Ha ltac:(lia)) as [Ha2 Ev2].
      fold E2 in Ha2, Ev2.
      rewrite (IH (S k) E2 q Ha2 ltac:(lia) ltac:(lia)).
      * cbv zeta. rewrite Ev2.
        replace ((Z.of_nat (S k) <=? getv E (fst a)) && (getv E (fst a) <? Z.of_nat (S k + n))) with false by lia.
        replace ((Z.of_nat k <=? getv E (fst a)) && (getv E (fst a) <? Z.of_nat (k + S n))) with true by lia.
        unfold E2. replace (Z.to_nat (getv E (fst a))) with k by lia. reflexivity.
      * intros j Hj. unfold E2. rewrite getv_set_nth_ne by lia. apply Hcells. lia.
    + rewrite (IH (S k) E q Ha ltac:(lia) ltac:(lia)) by (intros j Hj; apply Hcells; lia). cbv zeta.
      replace ((Z.of_nat (S k) <=? getv E (fst a)) && (getv E (fst a) <? Z.of_nat (S k + n)))
        with ((Z.of_nat k <=? getv E (fst a)) && (getv E (fst a) <? Z.of_nat (k + S n))) by lia.
      reflexivity.
Qed.

Lemma syncmem_example :
  let env := [0; 1; 1; 1; 7; 5; 2; 0] in
  mem_cells env 5 2 = map (trunc 3) [5; 2] /\
  (let '(env1, q) := exec (body_syncmem_proc 5 3 2 (7%nat, 3) (1%nat, 1) (2%nat, 1) (3%nat, 1) (4%nat, 3)) (env, []) in apply_nbas env1 q)
    = [0; 1; 1; 1; 7; 5; 7; 2] /\
  SynchronousMemory_clock 3 {| SynchronousMemory_s_data := [5; 2] |} 1 1 1 7 = ({| SynchronousMemory_s_data := [5; 7] |}, 2).
Proof. cbv zeta. split; [vm_compute; reflexivity|]. split; vm_compute; reflexivity. Qed.

(* ------------------------------------------------------------------ SynchronousMemory over EVERY input history *)
Lemma mem_cells_app pre cells : mem_cells (pre ++ cells) (length pre) (length cells) = cells.
Proof.
  apply (nth_ext _ _ 0 0); [apply mem_cells_length|]. intros k Hk. rewrite mem_cells_length in Hk.
  rewrite nth_mem_cells by exact Hk. unfold getv. rewrite app_nth2 by lia. f_equal. lia.
Qed.

Theorem syncmem_history aw w wwe wwd ins : 0 < w -> 0 < aw <= 31 -> 0 < wwe -> 0 < wwd -> Forall (mem_in_ok aw wwe wwd) ins ->
  forall st cells rrv, cells = map (trunc w) (SynchronousMemory_s_data st) -> length cells = Z.to_nat (2 ^ aw) -> 0 <= rrv < 2 ^ w ->
  vmem_traj aw w wwe wwd (cells, rrv) ins = smem_traj w st ins.
Proof.
  intros Hw Haw Hwe Hwd Hins. induction Hins as [|[[[ra wa] we] wd] ins Hi Hins IH]; intros st cells rrv Hrel Hlen Hrr; [reflexivity|].
  cbn [vmem_traj smem_traj]. destruct Hi as (Hra & Hwa & Hwen & Hwdn).
  set (d := Z.to_nat (2 ^ aw)) in *.
  set (env := smem_env (ra, wa, we, wd) rrv cells).
  assert (Hcells : mem_cells env 5 d = cells).
  { unfold env, smem_env. rewrite <- Hlen. exact (mem_cells_app [ra; wa; we; wd; rrv] cells). }
  assert (Henvlen : length env = (5 + d)%nat) by (unfold env, smem_env; rewrite app_length; cbn [length]; lia).
  pose proof (syncmem_sound env 5 aw w (4%nat, w) (0%nat, aw) (1%nat, aw) (2%nat, wwe) (3%nat, wwd) st) as S.
  cbv zeta in S. fold d in S. cbn [fst snd] in S.
  specialize (S Hw Haw eq_refl eq_refl eq_refl
                ltac:(unfold okn, env, smem_env; cbn; lia) ltac:(unfold okn, env, smem_env; cbn; lia) ltac:(unfold okn, env, smem_env; cbn; lia)
                ltac:(unfold okn, env, smem_env; cbn; lia) ltac:(unfold okn, env, smem_env; cbn; lia)
                ltac:(lia) ltac:(lia) ltac:(lia) ltac:(rewrite Hcells; exact Hrel)).
  unfold vmem_next. cbn [fst snd]. fold d. fold env.
  destruct (exec (body_syncmem_proc 5 w d (4%nat, w) (0%nat, aw) (1%nat, aw) (2%nat, wwe) (3%nat, wwd)) (env, [])) as [env1 q] eqn:Ex.
  change (getv env 0) with ra in S. change (getv env 1) with wa in S. change (getv env 2) with we in S. change (getv env 3) with wd in S.
  destruct (SynchronousMemory_clock w st ra wa we wd) as [st' rd] eqn:Ec.
  destruct S as (_ & Hl' & Hc' & Hr' & _). cbn [snd]. rewrite Hr'. f_equal.
  apply IH; [exact Hc' | rewrite Hc', map_length | ].
  - (* the simulator's memory keeps its depth *)
    unfold SynchronousMemory_clock in Ec. cbv zeta in Ec. injection Ec as <- _. cbn [SynchronousMemory_s_data].
    assert (Hdl : length (SynchronousMemory_s_data st) = d) by (rewrite <- (map_length (trunc w)), <- Hrel; exact Hlen).
    destruct (py_truth we); [|exact Hdl]. unfold setZ. destruct (wa <? 0); [exact Hdl|]. rewrite Settle.set_nth_length. exact Hdl.
  - rewrite <- Hr'. unfold SynchronousMemory_clock in Ec. cbv zeta in Ec. injection Ec as _ <-. rewrite Hr'.
    rewrite Wire_prepare_is_trunc. apply trunc_range. lia.
Qed.
