(* C01, continued: emitters whose models fold over bit positions or operand lists (SignExtend, Repeat, Concatenate, Bits). *)
From V Require Import Base.Bits Gen.WireOps Gen.Helpers Gen.Prims Model.VSyntax Model.VSem Model.Inline Proofs.C01.InlineSound.

Lemma lor_shift_add hi lo n : 0 <= n -> 0 <= lo < 2 ^ n -> Z.lor lo (Z.shiftl hi n) = lo + hi * 2 ^ n.
Proof. intros. rewrite Z.lor_comm, lor_add_disjoint by lia. lia. Qed.

(* k copies of a bit, as RRepl computes them *)
Lemma repl_fold bit : 0 <= bit <= 1 -> forall (l : list nat) acc k, 0 <= k -> acc = bit * (2 ^ k - 1) ->
  fold_left (fun a (_ : nat) => Z.lor (Z.shiftl a 1) bit) l acc = bit * (2 ^ (k + Z.of_nat (length l)) - 1).
Proof.
  intros Hb l. induction l as [|x l IH]; intros acc k Hk Hacc; cbn [fold_left length].
  - rewrite Z.add_0_r. exact Hacc.
  - rewrite (IH _ (k + 1)); [f_equal; f_equal; f_equal; lia | lia |].
    rewrite lor_add_disjoint by lia. subst acc. rewrite Z.pow_add_r by lia. change (2 ^ 1) with 2.
    pose proof (pow2_pos k Hk). nia.
Qed.

(* the simulator's SignExtend loop *)
Lemma sext_fold hb v wa : 0 <= hb <= 1 -> 0 <= wa -> 0 <= v < 2 ^ wa -> forall (l : list nat) acc k, 0 <= k ->
  acc = v + hb * (2 ^ (wa + k) - 2 ^ wa) ->
  fold_left (fun a i => Z.lor a (py_shl hb i)) (map (fun j => wa + k + Z.of_nat j) (seq 0 (length l))) acc
  = v + hb * (2 ^ (wa + k + Z.of_nat (length l)) - 2 ^ wa).
Proof.
  intros Hb Hwa Hv l. induction l as [|x l IH]; intros acc k Hk Hacc.
  - cbn. rewrite Z.add_0_r. exact Hacc.
  - cbn [length seq map fold_left]. rewrite Z.add_0_r.
    rewrite <- seq_shift, map_map.
    rewrite (map_ext _ (fun j => wa + (k + 1) + Z.of_nat j)) by (intros; lia).
    rewrite (IH _ (k + 1)); [f_equal; f_equal; f_equal; f_equal; lia | lia |].
    unfold py_shl.
    assert (Hp : 2 ^ wa <= 2 ^ (wa + k)) by (apply pow2_le; lia).
    rewrite lor_shift_add; [| lia |].
    + subst acc. replace (wa + (k + 1)) with (wa + k + 1) by lia. rewrite (Z.pow_add_r 2 (wa + k) 1) by lia. change (2 ^ 1) with 2. nia.
    + subst acc. pose proof (pow2_pos (wa + k) ltac:(lia)). nia.
Qed.

Section Sound2.
Variable env : list Z.
Notation val n := (getv env (fst n)).

(* ---- assign r = { {k{a[wa-1]}}, a };   k = wr - wa > 0   (k = 0 is illegal Verilog: C03 finding) *)
Theorem inl_signextend_sound r a : okn env a -> snd a < snd r -> snd a - 1 < 2 ^ 31 ->
  forall l e, inl_signextend r a = [(l, e)] -> assign_value env l e = SignExtend_propagate (snd a) (snd r) (val a).
Proof.
  intros [Hwa Hva] Hlt Hlit l e H; inversion H; subst; clear H.
  set (wa := snd a) in *. set (wr := snd r) in *. set (v := val a) in *.
  unfold assign_value. cbn [lwidth whole rsize rsigned rid fst snd]. fold wa wr.
  replace (Z.max wr ((wr - wa) * 1 + wa)) with wr by lia.
  cbn [reval rsize rsigned rid]. fold wa wr.
  (* the selected bit *)
  fold (rself env (pynum (wa - 1))). rewrite self_pynum by lia.
  replace ((0 <=? wa - 1) && (wa - 1 <? wa)) with true by lia.
  fold v.
  set (hb := Z.land (Z.shiftr v (wa - 1)) 1).
  assert (Hhb : hb = Z.shiftr v (wa - 1) /\ 0 <= hb <= 1).
  { unfold hb. rewrite Z.shiftr_div_pow2 by lia.
    assert (Hd : 0 <= v / 2 ^ (wa - 1) <= 1).
    { pose proof (pow2_pos (wa - 1) ltac:(lia)).
      assert (2 ^ wa = 2 * 2 ^ (wa - 1)) by (replace wa with (1 + (wa - 1)) at 1 by lia; rewrite Z.pow_add_r by lia; reflexivity).
      split; [apply Z.div_pos; lia | apply Z.lt_succ_r; apply Z.div_lt_upper_bound; lia]. }
    assert (Hc : v / 2 ^ (wa - 1) = 0 \/ v / 2 ^ (wa - 1) = 1) by lia.
    destruct Hc as [-> | ->]; cbn; lia. }
  destruct Hhb as [Hhbv Hhb].
  rewrite (vtrunc_small 1 hb) by (change (2 ^ 1) with 2; lia).
  (* Verilog side: replication then concatenation *)
  pose proof (repl_fold hb Hhb (seq 0 (Z.to_nat (wr - wa))) 0 0 ltac:(lia) ltac:(cbn; lia)) as Hrep.
  rewrite seq_length in Hrep. rewrite Z2Nat.id in Hrep by lia. cbn [Z.add] in Hrep.
  replace ((wr - wa) * 1) with (wr - wa) by lia. cbn [extend].
  rewrite (vtrunc_small (wr - wa)), Hrep.
  2: lia. 2: { rewrite Hrep. pose proof (pow2_pos (wr - wa) ltac:(lia)). nia. }
  rewrite (vtrunc_small wa v) by lia.
  rewrite lor_add_disjoint by lia.
  (* simulator side *)
  unfold SignExtend_propagate, py_shr. cbv zeta. fold wa wr v. rewrite <- Hhbv.
  unfold seqZ.
  pose proof (sext_fold hb v wa Hhb ltac:(lia) Hva (seq 0 (Z.to_nat (wr - wa))) v 0 ltac:(lia)) as Hs.
  rewrite seq_length in Hs. rewrite Z2Nat.id in Hs by lia.
  rewrite (map_ext (fun k => wa + Z.of_nat k) (fun j => wa + 0 + Z.of_nat j)) by (intros; lia).
  rewrite Hs by (rewrite Z.add_0_r; lia).
  rewrite put_trunc. replace (wa + 0 + (wr - wa)) with wr by lia.
  rewrite !vtrunc_trunc by lia. rewrite trunc_idem by lia. f_equal.
  replace wr with ((wr - wa) + wa) at 2 by lia. rewrite Z.pow_add_r by lia. nia.
Qed.
End Sound2.

(* ---------------- concatenation *)
Fixpoint tw (l : list nid) : Z := match l with [] => 0 | n :: t => snd n + tw t end.
Section Concat.
Variable env : list Z.
Notation val n := (getv env (fst n)).
Fixpoint cval (l : list nid) : Z := match l with [] => 0 | n :: t => val n * 2 ^ tw t + cval t end.

Lemma tw_nonneg l : Forall (okn env) l -> 0 <= tw l.
Proof. induction 1 as [|n t [Hn _] _ IH]; cbn [tw]; lia. Qed.

Lemma cval_range l : Forall (okn env) l -> 0 <= cval l < 2 ^ tw l.
Proof.
  induction 1 as [|n t [Hn Hv] Ht IH]; cbn [tw cval]; [cbn; lia|].
  pose proof (tw_nonneg t Ht). rewrite Z.pow_add_r by lia.
  pose proof (pow2_pos (tw t) H). nia.
Qed.

(* the simulator's loop *)
Lemma sim_concat_fold l : Forall (okn env) l -> forall acc,
  fold_left (fun value '(w, v) => Z.lor (py_shl value w) v) (map (fun n => (snd n, val n)) l) acc = acc * 2 ^ tw l + cval l.
Proof.
  induction 1 as [|n t [Hn Hv] Ht IH]; intros acc; cbn [map fold_left tw cval]; [lia|].
  rewrite IH. unfold py_shl. rewrite lor_add_disjoint by lia.
  pose proof (tw_nonneg t Ht). rewrite Z.pow_add_r by lia. nia.
Qed.

(* the emitted concatenation, self-determined *)
Lemma rsize_concat l : l <> [] -> rsize (concat_of (map rid l)) = tw l.
Proof.
  induction l as [|n t IH]; [congruence|]. intros _. destruct t as [|m t].
  - cbn [map concat_of rsize rid tw]. lia.
  - cbn [map concat_of rsize tw] in *. rewrite IH by congruence. cbn [rid rsize]. lia.
Qed.

Lemma rself_concat l : l <> [] -> Forall (okn env) l -> rself env (concat_of (map rid l)) = cval l.
Proof.
  induction l as [|n t IH]; [congruence|]. intros _ Hall. inversion Hall as [|? ? Hn Ht]; subst.
  destruct t as [|m t].
  - cbn [map concat_of cval tw]. unfold rself. cbn [rsize rsigned rid]. fold (rid n).
    rewrite reval_rid by (auto; lia). cbn; lia.
  - assert (Hne : m :: t <> []) by congruence.
    specialize (IH Hne Ht). pose proof (rsize_concat (m :: t) Hne) as Hsz.
    change (concat_of (map rid (n :: m :: t))) with (RConcat (rid n) (concat_of (map rid (m :: t)))).
    set (rest := concat_of (map rid (m :: t))) in *.
    unfold rself in *. cbn [rsize rsigned reval]. rewrite IH. rewrite Hsz.
    change (rsize (rid n)) with (snd n). change (rsigned (rid n)) with false.
    rewrite reval_rid by (auto; lia).
    pose proof (cval_range (m :: t) Ht) as Hr. pose proof (tw_nonneg (m :: t) Ht) as Htw.
    rewrite lor_add_disjoint by lia.
    destruct Hn as [Hwn Hvn].
    change (cval (n :: m :: t)) with (val n * 2 ^ tw (m :: t) + cval (m :: t)).
    apply vtrunc_small; [lia|]. rewrite Z.pow_add_r by lia. pose proof (pow2_pos (tw (m :: t)) Htw). nia.
Qed.

Lemma rsigned_concat l : rsigned (concat_of (map rid l)) = match l with [] => true | _ => false end.
Proof. destruct l as [|n [|m t]]; reflexivity. Qed.

Lemma reval_concat_ctx l w : l <> [] -> Forall (okn env) l -> tw l <= w ->
  reval env w false (concat_of (map rid l)) = cval l.
Proof.
  intros Hne Hall Hw. pose proof (cval_range l Hall) as Hc. pose proof (tw_nonneg l Hall) as Htw.
  destruct l as [|n [|m t]]; [congruence| |].
  - cbn [map concat_of]. inversion Hall; subst. rewrite reval_rid by (auto; cbn [tw] in Hw; lia). cbn; lia.
  - assert (Hne' : m :: t <> []) by congruence. inversion Hall as [|? ? Hn Ht]; subst.
    change (concat_of (map rid (n :: m :: t))) with (RConcat (rid n) (concat_of (map rid (m :: t)))).
    cbn [reval].
    fold (rself env (concat_of (map rid (m :: t)))). fold (rself env (rid n)).
    rewrite (rself_concat (m :: t) Hne' Ht). rewrite (rsize_concat (m :: t) Hne').
    unfold rself. change (rsize (rid n)) with (snd n). change (rsigned (rid n)) with false.
    rewrite reval_rid by (auto; lia).
    pose proof (cval_range (m :: t) Ht). pose proof (tw_nonneg (m :: t) Ht).
    rewrite lor_add_disjoint by lia.
    change (cval (n :: m :: t)) with (val n * 2 ^ tw (m :: t) + cval (m :: t)) in *.
    apply vtrunc_small; [lia|]. eapply small_in_wider; [|exact Hc]. lia.
Qed.

(* ---- assign r = {i0, i1, ...};  (both ConcatenateMSBF and ConcatenateLSBF: same emitter, same propagate) *)
Theorem inl_concat_sound r ins : ins <> [] -> Forall (okn env) ins -> 0 < snd r ->
  forall l e, inl_concat r ins = [(l, e)] ->
  assign_value env l e = ConcatenateMSBF_propagate (snd r) (map (fun n => (snd n, val n)) ins) /\
  assign_value env l e = ConcatenateLSBF_propagate (snd r) (map (fun n => (snd n, val n)) ins).
Proof.
  intros Hne Hall Hr l e H; inversion H; subst; clear H.
  assert (Hm : assign_value env (whole r) (concat_of (map rid ins)) = trunc (snd r) (cval ins)).
  { unfold assign_value. cbn [lwidth whole]. rewrite rsigned_concat, rsize_concat by exact Hne.
    destruct ins as [|n0 t0]; [congruence|].
    rewrite reval_concat_ctx by (auto; lia). apply vtrunc_trunc; lia. }
  rewrite Hm. unfold ConcatenateMSBF_propagate, ConcatenateLSBF_propagate. cbv zeta.
  rewrite !sim_concat_fold by exact Hall. rewrite Z.mul_0_l, Z.add_0_l. split; reflexivity.
Qed.
End Concat.

(* ---------------- Repeat: assign r = i;  (w = 1)   /   assign r = {i, i, ..., i};  (w > 1), i is one bit *)
Section Repeat.
Variable env : list Z.
Notation val n := (getv env (fst n)).

Lemma tw_repeat i k : tw (repeat i k) = Z.of_nat k * snd i.
Proof. induction k as [|k IH]; cbn [repeat tw]; [lia|]. rewrite IH. lia. Qed.

Lemma cval_repeat i k : snd i = 1 -> cval env (repeat i k) = val i * (2 ^ Z.of_nat k - 1).
Proof.
  intros Hw. induction k as [|k IH]; cbn [repeat cval]; [cbn; lia|].
  rewrite IH, tw_repeat, Hw. replace (Z.of_nat (S k)) with (Z.of_nat k + 1) by lia.
  rewrite Z.pow_add_r by lia. change (2 ^ 1) with 2. rewrite Z.mul_1_r. nia.
Qed.

Theorem inl_repeat_sound r i : okn env i -> snd i = 1 -> 0 < snd r ->
  forall l e, inl_repeat r i = [(l, e)] -> assign_value env l e = Repeat_propagate (snd r) (val i).
Proof.
  intros Hi Hw1 Hr l e H; inversion H; subst; clear H.
  assert (Hv : val i = 0 \/ val i = 1) by (destruct Hi as [_ Hv]; rewrite Hw1 in Hv; change (2 ^ 1) with 2 in Hv; lia).
  assert (Hsim : Repeat_propagate (snd r) (val i) = val i * (2 ^ snd r - 1)).
  { unfold Repeat_propagate, py_truth, py_shl. cbv zeta. rewrite Z.shiftl_1_l.
    destruct Hv as [-> | ->]; cbn [Z.eqb negb]; rewrite put_trunc.
    - rewrite trunc_small by (try lia; pose proof (pow2_pos (snd r) ltac:(lia)); lia). lia.
    - rewrite trunc_small by (try lia; pose proof (pow2_pos (snd r) ltac:(lia)); lia). lia. }
  rewrite Hsim. destruct (Z.eqb_spec (snd r) 1) as [E|E].
  - unfold assign_value. cbn [lwidth whole rsize rsigned rid]. fold (rid i).
    rewrite reval_rid by (auto; lia). rewrite E. change (2 ^ 1 - 1) with 1.
    rewrite vtrunc_small by (change (2 ^ 1) with 2; lia). lia.
  - set (k := Z.to_nat (snd r)).
    assert (Hk : Z.of_nat k = snd r) by (unfold k; lia).
    replace (repeat (rid i) k) with (map rid (repeat i k)) by (clear; induction k; cbn; congruence).
    assert (Hne : repeat i k <> []) by (destruct k; [lia | discriminate]).
    assert (Hall : Forall (okn env) (repeat i k)) by (apply Forall_forall; intros x Hx; apply repeat_spec in Hx; subst; exact Hi).
    unfold assign_value. cbn [lwidth whole]. rewrite rsigned_concat, rsize_concat by exact Hne.
    destruct (repeat i k) as [|n0 t0] eqn:Erep; [congruence|]. rewrite <- Erep in *.
    rewrite reval_concat_ctx by (auto; rewrite tw_repeat; lia).
    rewrite cval_repeat by exact Hw1. rewrite Hk.
    apply vtrunc_small; [lia|]. pose proof (pow2_pos (snd r) ltac:(lia)). destruct Hv as [-> | ->]; lia.
Qed.
End Repeat.
