(* C01, continued: emitters whose models fold over bit positions or operand lists (SignExtend, Repeat, Concatenate, Bits). *)
From V Require Import Base.Bits Gen.WireOps Gen.Helpers Gen.Prims Model.VSyntax Model.VSem Model.Inline Proofs.C01.InlineSound.

Lemma lor_shift_add hi lo n : 0 <= n -> 0 <= lo < 2 ^ n -> Z.lor lo (Z.shiftl hi n) = lo + hi * 2 ^ n.
Proof. intros. rewrite Z.lor_comm, lor_add_disjoint by lia. lia. Qed.

(* k copies of a bit, as RRepl computes them *)
Lemma repl_fold bit : 0 <= bit <= 1 -> forall (l : list nat) acc k, 0 <= k -> acc = bit * (2 ^ k - 1) ->
  fold_left (fun a (_ : nat) => Z.lor (Z.shiftl a 1) bit) l acc = bit * (2 ^ (k + Z.of_nat (length l)) - 1).
Proof.
  intros Hb l. induction l as [|x l IH]; intros acc k Hk Hacc; cbn [fold_left length].
  - rewrite Z.add_0_r. exact Hacc.
  - rewrite (IH _ (k + 1)); [f_equal; f_equal; f_equal; lia | lia |].
    rewrite lor_add_disjoint by lia. subst acc. rewrite Z.pow_add_r by lia. change (2 ^ 1) with 2.
    pose proof (pow2_pos k Hk). nia.
Qed.

(* the simulator's SignExtend loop *)
Lemma sext_fold hb v wa : 0 <= hb <= 1 -> 0 <= wa -> 0 <= v < 2 ^ wa -> forall (l : list nat) acc k, 0 <= k ->
  acc = v + hb * (2 ^ (wa + k) - 2 ^ wa) ->
  fold_left (fun a i => Z.lor a (py_shl hb i)) (map (fun j => wa + k + Z.of_nat j) (seq 0 (length l))) acc
  = v + hb * (2 ^ (wa + k + Z.of_nat (length l)) - 2 ^ wa).
Proof.
  intros Hb Hwa Hv l. induction l as [|x l IH]; intros acc k Hk Hacc.
  - cbn. rewrite Z.add_0_r. exact Hacc.
  - cbn [length seq map fold_left]. rewrite Z.add_0_r.
    rewrite <- seq_shift, map_map.
    rewrite (map_ext _ (fun j => wa + (k + 1) + Z.of_nat j)) by (intros; lia).
    rewrite (IH _ (k + 1)); [f_equal; f_equal; f_equal; f_equal; lia | lia |].
    unfold py_shl.
    assert (Hp : 2 ^ wa <= 2 ^ (wa + k)) by (apply pow2_le; lia).
    rewrite lor_shift_add; [| lia |].
    + subst acc. replace (wa + (k + 1)) with (wa + k + 1) by lia. rewrite (Z.pow_add_r 2 (wa + k) 1) by lia. change (2 ^ 1) with 2. nia.
    + subst acc. pose proof (pow2_pos (wa + k) ltac:(lia)). nia.
Qed.

(* the OR-accumulation may start from the value itself or from 0 and be merged afterwards: both are v | E *)
Lemma fold_lor_acc (g : Z -> Z) (l : list Z) acc :
  fold_left (fun a i => Z.lor a (g i)) l acc = Z.lor acc (fold_left (fun a i => Z.lor a (g i)) l 0).
Proof.
  revert acc. induction l as [|x l IH]; intros acc; cbn [fold_left]; [rewrite Z.lor_0_r; reflexivity|].
  rewrite IH, (IH (Z.lor 0 (g x))). rewrite Z.lor_0_l, Z.lor_assoc. reflexivity.
Qed.

Section Sound2.
Variable env : list Z.
Notation val n := (getv env (fst n)).

(* ---- assign r = { {k{a[wa-1]}}, a };   k = wr - wa > 0;   the bit is written `a` when a is a scalar net;
        `assign r = a;` when wr <= wa (nothing to replicate) *)
Lemma bit_select_top a : okn env a -> snd a - 1 < 2 ^ 31 ->
  rsize (bit_select a (snd a - 1)) = 1 /\ rsigned (bit_select a (snd a - 1)) = false /\
  reval env 1 false (bit_select a (snd a - 1)) = vtrunc 1 (Z.land (Z.shiftr (val a) (snd a - 1)) 1).
Proof.
  intros [Hwa Hva] Hlit. unfold bit_select.
  destruct ((snd a =? 1) && (snd a - 1 =? 0)) eqn:Hs.
  - assert (Ha1 : snd a = 1) by lia. cbn [rid rsize rsigned reval extend]. rewrite Ha1. repeat split.
    rewrite Ha1 in Hva. change (2 ^ 1) with 2 in Hva. cbn [Z.sub Z.pos_sub]. rewrite Z.shiftr_0_r.
    assert (Hc : val a = 0 \/ val a = 1) by lia. destruct Hc as [-> | ->]; reflexivity.
  - cbn [rsize rsigned reval]. repeat split.
    fold (rself env (pynum (snd a - 1))). rewrite self_pynum by lia.
    replace ((0 <=? snd a - 1) && (snd a - 1 <? snd a)) with true by lia. reflexivity.
Qed.

Lemma sext_core r a b : okn env a -> snd a < snd r ->
  rsize b = 1 -> rsigned b = false -> reval env 1 false b = vtrunc 1 (Z.land (Z.shiftr (val a) (snd a - 1)) 1) ->
  assign_value env (whole r) (RConcat (RRepl (snd r - snd a) b) (rid a)) = SignExtend_propagate (snd a) (snd r) (val a).
Proof.
  intros [Hwa Hva] Hlt Hsz Hsg Hb.
  set (wa := snd a) in *. set (wr := snd r) in *. set (v := val a) in *.
  unfold assign_value. cbn [lwidth whole rsize rsigned rid fst snd]. fold wa wr. rewrite Hsz.
  replace (Z.max wr ((wr - wa) * 1 + wa)) with wr by lia.
  cbn [reval rsize rsigned rid]. fold wa wr. rewrite Hsz, Hsg, Hb.
  fold v.
  set (hb := Z.land (Z.shiftr v (wa - 1)) 1).
  assert (Hhb : hb = Z.shiftr v (wa - 1) /\ 0 <= hb <= 1).
  { unfold hb. rewrite Z.shiftr_div_pow2 by lia.
    assert (Hd : 0 <= v / 2 ^ (wa - 1) <= 1).
    { pose proof (pow2_pos (wa - 1) ltac:(lia)).
      assert (2 ^ wa = 2 * 2 ^ (wa - 1)) by (replace wa with (1 + (wa - 1)) at 1 by lia; rewrite Z.pow_add_r by lia; reflexivity).
      split; [apply Z.div_pos; lia | apply Z.lt_succ_r; apply Z.div_lt_upper_bound; lia]. }
    assert (Hc : v / 2 ^ (wa - 1) = 0 \/ v / 2 ^ (wa - 1) = 1) by lia.
    destruct Hc as [-> | ->]; cbn; lia. }
  destruct Hhb as [Hhbv Hhb].
  rewrite (vtrunc_small 1 hb) by (change (2 ^ 1) with 2; lia).
  (* Verilog side: replication then concatenation *)
  pose proof (repl_fold hb Hhb (seq 0 (Z.to_nat (wr - wa))) 0 0 ltac:(lia) ltac:(cbn; lia)) as Hrep.
  rewrite seq_length in Hrep. rewrite Z2Nat.id in Hrep by lia. cbn [Z.add] in Hrep.
  replace ((wr - wa) * 1) with (wr - wa) by lia. cbn [extend].
  rewrite (vtrunc_small (wr - wa)), Hrep.
  2: lia. 2: { rewrite Hrep. pose proof (pow2_pos (wr - wa) ltac:(lia)). nia. }
  rewrite (vtrunc_small wa v) by lia.
  rewrite lor_add_disjoint by lia.
  (* simulator side: normalise `fold from v` / `(fold from 0) | v` to  v | E  with E the accumulated extension *)
  unfold SignExtend_propagate, py_shr. cbv zeta. fold wa wr v. rewrite <- Hhbv.
  unfold seqZ.
  try rewrite (fold_lor_acc (fun i => py_shl hb i) _ v).
  rewrite ?(Z.lor_comm _ v).
  pose proof (sext_fold hb 0 wa Hhb ltac:(lia) ltac:(split; [lia | apply pow2_pos; lia]) (seq 0 (Z.to_nat (wr - wa))) 0 0 ltac:(lia)) as Hs.
  rewrite seq_length in Hs. rewrite Z2Nat.id in Hs by lia.
  rewrite (map_ext (fun k => wa + Z.of_nat k) (fun j => wa + 0 + Z.of_nat j)) by (intros; lia).
  rewrite Hs by (rewrite Z.add_0_r; lia).
  replace (wa + 0 + (wr - wa)) with wr by lia. rewrite Z.add_0_l.
  (* v | hb*(2^wr - 2^wa): disjoint bits, so it is a sum *)
  assert (Hdis : Z.lor v (hb * (2 ^ wr - 2 ^ wa)) = v + hb * (2 ^ wr - 2 ^ wa)).
  { replace (hb * (2 ^ wr - 2 ^ wa)) with (Z.shiftl (hb * (2 ^ (wr - wa) - 1)) wa).
    - rewrite lor_shift_add by lia. rewrite Z.shiftl_mul_pow2 by lia. reflexivity.
    - rewrite Z.shiftl_mul_pow2 by lia. replace wr with ((wr - wa) + wa) at 2 by lia. rewrite Z.pow_add_r by lia. ring. }
  rewrite Hdis. rewrite put_trunc. rewrite !vtrunc_trunc by lia. rewrite trunc_idem by lia. f_equal.
  replace wr with ((wr - wa) + wa) at 2 by lia. rewrite Z.pow_add_r by lia. nia.
Qed.

Theorem inl_signextend_sound r a : okn env a -> 0 < snd r -> snd a - 1 < 2 ^ 31 ->
  forall l e, inl_signextend r a = [(l, e)] -> assign_value env l e = SignExtend_propagate (snd a) (snd r) (val a).
Proof.
  intros Ha Hr Hlit l e H. unfold inl_signextend in H.
  destruct (snd r <=? snd a) eqn:Hle; inversion H; subst; clear H.
  - (* nothing to extend: the simulator's loop over range(wa, wr) is empty *)
    rewrite (inl_buf_sound env r a Ha Hr _ _ eq_refl). unfold Buf_propagate, SignExtend_propagate. cbv zeta.
    replace (seqZ (snd a) (snd r)) with (@nil Z); [reflexivity|].
    unfold seqZ. replace (Z.to_nat (snd r - snd a)) with O by lia. reflexivity.
  - destruct (bit_select_top a Ha Hlit) as (Hsz & Hsg & Hb). apply sext_core; auto. lia.
Qed.
End Sound2.

(* ---------------- concatenation *)
Fixpoint tw (l : list nid) : Z := match l with [] => 0 | n :: t => snd n + tw t end.
Section Concat.
Variable env : list Z.
Notation val n := (getv env (fst n)).
Fixpoint cval (l : list nid) : Z := match l with [] => 0 | n :: t => val n * 2 ^ tw t + cval t end.

Lemma tw_nonneg l : Forall (okn env) l -> 0 <= tw l.
Proof. induction 1 as [|n t [Hn _] _ IH]; cbn [tw]; lia. Qed.

Lemma cval_range l : Forall (okn env) l -> 0 <= cval l < 2 ^ tw l.
Proof.
  induction 1 as [|n t [Hn Hv] Ht IH]; cbn [tw cval]; [cbn; lia|].
  pose proof (tw_nonneg t Ht). rewrite Z.pow_add_r by lia.
  pose proof (pow2_pos (tw t) H). nia.
Qed.

(* the simulator's loop *)
Lemma sim_concat_fold l : Forall (okn env) l -> forall acc,
  fold_left (fun value '(w, v) => Z.lor (py_shl value w) v) (map (fun n => (snd n, val n)) l) acc = acc * 2 ^ tw l + cval l.
Proof.
  induction 1 as [|n t [Hn Hv] Ht IH]; intros acc; cbn [map fold_left tw cval]; [lia|].
  rewrite IH. unfold py_shl. rewrite lor_add_disjoint by lia.
  pose proof (tw_nonneg t Ht). rewrite Z.pow_add_r by lia. nia.
Qed.

(* the emitted concatenation, self-determined *)
Lemma rsize_concat l : l <> [] -> rsize (concat_of (map rid l)) = tw l.
Proof.
  induction l as [|n t IH]; [congruence|]. intros _. destruct t as [|m t].
  - cbn [map concat_of rsize rid tw]. lia.
  - cbn [map concat_of rsize tw] in *. rewrite IH by congruence. cbn [rid rsize]. lia.
Qed.

Lemma rself_concat l : l <> [] -> Forall (okn env) l -> rself env (concat_of (map rid l)) = cval l.
Proof.
  induction l as [|n t IH]; [congruence|]. intros _ Hall. inversion Hall as [|? ? Hn Ht]; subst.
  destruct t as [|m t].
  - cbn [map concat_of cval tw]. unfold rself. cbn [rsize rsigned rid]. fold (rid n).
    rewrite reval_rid by (auto; lia). cbn; lia.
  - assert (Hne : m :: t <> []) by congruence.
    specialize (IH Hne Ht). pose proof (rsize_concat (m :: t) Hne) as Hsz.
    change (concat_of (map rid (n :: m :: t))) with (RConcat (rid n) (concat_of (map rid (m :: t)))).
    set (rest := concat_of (map rid (m :: t))) in *.
    unfold rself in *. cbn [rsize rsigned reval]. rewrite IH. rewrite Hsz.
    change (rsize (rid n)) with (snd n). change (rsigned (rid n)) with false.
    rewrite reval_rid by (auto; lia).
    pose proof (cval_range (m :: t) Ht) as Hr. pose proof (tw_nonneg (m :: t) Ht) as Htw.
    rewrite lor_add_disjoint by lia.
    destruct Hn as [Hwn Hvn].
    change (cval (n :: m :: t)) with (val n * 2 ^ tw (m :: t) + cval (m :: t)).
    apply vtrunc_small; [lia|]. rewrite Z.pow_add_r by lia. pose proof (pow2_pos (tw (m :: t)) Htw). nia.
Qed.

Lemma rsigned_concat l : rsigned (concat_of (map rid l)) = match l with [] => true | _ => false end.
Proof. destruct l as [|n [|m t]]; reflexivity. Qed.

Lemma reval_concat_ctx l w : l <> [] -> Forall (okn env) l -> tw l <= w ->
  reval env w false (concat_of (map rid l)) = cval l.
Proof.
  intros Hne Hall Hw. pose proof (cval_range l Hall) as Hc. pose proof (tw_nonneg l Hall) as Htw.
  destruct l as [|n [|m t]]; [congruence| |].
  - cbn [map concat_of]. inversion Hall; subst. rewrite reval_rid by (auto; cbn [tw] in Hw; lia). cbn; lia.
  - assert (Hne' : m :: t <> []) by congruence. inversion Hall as [|? ? Hn Ht]; subst.
    change (concat_of (map rid (n :: m :: t))) with (RConcat (rid n) (concat_of (map rid (m :: t)))).
    cbn [reval].
    fold (rself env (concat_of (map rid (m :: t)))). fold (rself env (rid n)).
    rewrite (rself_concat (m :: t) Hne' Ht). rewrite (rsize_concat (m :: t) Hne').
    unfold rself. change (rsize (rid n)) with (snd n). change (rsigned (rid n)) with false.
    rewrite reval_rid by (auto; lia).
    pose proof (cval_range (m :: t) Ht). pose proof (tw_nonneg (m :: t) Ht).
    rewrite lor_add_disjoint by lia.
    change (cval (n :: m :: t)) with (val n * 2 ^ tw (m :: t) + cval (m :: t)) in *.
    apply vtrunc_small; [lia|]. eapply small_in_wider; [|exact Hc]. lia.
Qed.

(* ---- assign r = {i0, i1, ...};  (both ConcatenateMSBF and ConcatenateLSBF: same emitter, same propagate) *)
Theorem inl_concat_sound r ins : Forall (okn env) ins -> 0 < snd r ->
  forall l e, inl_concat r ins = [(l, e)] ->
  assign_value env l e = ConcatenateMSBF_propagate (snd r) (map (fun n => (snd n, val n)) ins) /\
  assign_value env l e = ConcatenateLSBF_propagate (snd r) (map (fun n => (snd n, val n)) ins).
Proof.
  intros Hall Hr l e H; inversion H; subst; clear H.
  assert (Hm : assign_value env (whole r) (concat_of (map rid ins)) = trunc (snd r) (cval ins)).
  { destruct ins as [|n0 t0].
    - (* no operand: the emitter prints `assign r = 0;` *)
      unfold assign_value. cbn [map concat_of lwidth whole rsize rsigned reval cval fst snd].
      change (vtrunc 32 0) with 0. unfold extend. change (to_signed 32 0) with 0. unfold vtrunc, trunc.
      rewrite !Z.mod_0_l by (apply Z.pow_nonzero; lia). now rewrite Z.land_0_l.
    - assert (Hne : n0 :: t0 <> []) by discriminate.
      unfold assign_value. cbn [lwidth whole]. rewrite rsigned_concat, rsize_concat by exact Hne.
      rewrite reval_concat_ctx by (auto; lia). apply vtrunc_trunc; lia. }
  rewrite Hm. unfold ConcatenateMSBF_propagate, ConcatenateLSBF_propagate. cbv zeta.
  rewrite !sim_concat_fold by exact Hall. rewrite Z.mul_0_l, Z.add_0_l. split; reflexivity.
Qed.
End Concat.

(* ---------------- Repeat: assign r = i;  (w = 1)   /   assign r = {i, i, ..., i};  (w > 1), i is one bit *)
Section Repeat.
Variable env : list Z.
Notation val n := (getv env (fst n)).

Lemma tw_repeat i k : tw (repeat i k) = Z.of_nat k * snd i.
Proof. induction k as [|k IH]; cbn [repeat tw]; [lia|]. rewrite IH. lia. Qed.

Lemma cval_repeat i k : snd i = 1 -> cval env (repeat i k) = val i * (2 ^ Z.of_nat k - 1).
Proof.
  intros Hw. induction k as [|k IH]; cbn [repeat cval]; [cbn; lia|].
  rewrite IH, tw_repeat, Hw. replace (Z.of_nat (S k)) with (Z.of_nat k + 1) by lia.
  rewrite Z.pow_add_r by lia. change (2 ^ 1) with 2. rewrite Z.mul_1_r. nia.
Qed.

Theorem inl_repeat_sound r i : okn env i -> snd i = 1 -> 0 < snd r ->
  forall l e, inl_repeat r i = [(l, e)] -> assign_value env l e = Repeat_propagate (snd r) (val i).
Proof.
  intros Hi Hw1 Hr l e H; inversion H; subst; clear H.
  assert (Hv : val i = 0 \/ val i = 1) by (destruct Hi as [_ Hv]; rewrite Hw1 in Hv; change (2 ^ 1) with 2 in Hv; lia).
  assert (Hsim : Repeat_propagate (snd r) (val i) = val i * (2 ^ snd r - 1)).
  { unfold Repeat_propagate, py_truth, py_shl. cbv zeta. rewrite Z.shiftl_1_l.
    destruct Hv as [-> | ->]; cbn [Z.eqb negb]; rewrite put_trunc.
    - rewrite trunc_small by (try lia; pose proof (pow2_pos (snd r) ltac:(lia)); lia). lia.
    - rewrite trunc_small by (try lia; pose proof (pow2_pos (snd r) ltac:(lia)); lia). lia. }
  rewrite Hsim. destruct (Z.eqb_spec (snd r) 1) as [E|E].
  - unfold assign_value. cbn [lwidth whole rsize rsigned rid]. fold (rid i).
    rewrite reval_rid by (auto; lia). rewrite E. change (2 ^ 1 - 1) with 1.
    rewrite vtrunc_small by (change (2 ^ 1) with 2; lia). lia.
  - set (k := Z.to_nat (snd r)).
    assert (Hk : Z.of_nat k = snd r) by (unfold k; lia).
    replace (repeat (rid i) k) with (map rid (repeat i k)) by (clear; induction k; cbn; congruence).
    assert (Hne : repeat i k <> []) by (destruct k; [lia | discriminate]).
    assert (Hall : Forall (okn env) (repeat i k)) by (apply Forall_forall; intros x Hx; apply repeat_spec in Hx; subst; exact Hi).
    unfold assign_value. cbn [lwidth whole]. rewrite rsigned_concat, rsize_concat by exact Hne.
    destruct (repeat i k) as [|n0 t0] eqn:Erep; [congruence|]. rewrite <- Erep in *.
    rewrite reval_concat_ctx by (auto; rewrite tw_repeat; lia).
    rewrite cval_repeat by exact Hw1. rewrite Hk.
    apply vtrunc_small; [lia|]. pose proof (pow2_pos (snd r) ltac:(lia)). destruct Hv as [-> | ->]; lia.
Qed.
End Repeat.

(* ---------------- n-ary bitwise chains  a0 & a1 & ... & an   (InlineAnd / InlineOr / InlineNor, and the 2-input
   Nand2 / Nor2 / Xor2 / Xor blocks that the simulator builds structurally): the assign computes the bitwise fold.
   The simulator side of these STRUCTURAL blocks is C08's theorems (model = the same fold). *)
Section Nary.
Variable env : list Z.
Notation val n := (getv env (fst n)).

Definition bitop (o : binop) : bool := match o with BAnd | BOr | BXor => true | _ => false end.

Lemma bop_closed o W x y : bitop o = true -> 0 <= W -> 0 <= x < 2 ^ W -> 0 <= y < 2 ^ W -> 0 <= bop o x y < 2 ^ W.
Proof.
  intros Ho HW Hx Hy.
  assert (Hb : forall z, 0 <= z -> (forall k, W <= k -> Z.testbit z k = false) -> 0 <= z < 2 ^ W).
  { intros z Hz Hk. split; [lia|]. destruct (Z.eq_dec z 0) as [->|Hn]; [apply pow2_pos; lia|].
    apply Z.log2_lt_pow2; [lia|]. destruct (Z.lt_ge_cases (Z.log2 z) W) as [|Hge]; [lia|].
    specialize (Hk _ Hge). rewrite Z.bit_log2 in Hk by lia. discriminate. }
  assert (Hhi : forall z k, 0 <= z < 2 ^ W -> W <= k -> Z.testbit z k = false).
  { intros z k Hz Hk. rewrite <- (Z.mod_small z (2 ^ W)) by lia. apply Z.mod_pow2_bits_high; lia. }
  destruct o; try discriminate; cbn [bop]; apply Hb.
  - apply Z.land_nonneg; lia.
  - intros k Hk. rewrite Z.land_spec, (Hhi x), (Hhi y) by lia. reflexivity.
  - apply Z.lor_nonneg; lia.
  - intros k Hk. rewrite Z.lor_spec, (Hhi x), (Hhi y) by lia. reflexivity.
  - apply Z.lxor_nonneg; lia.
  - intros k Hk. rewrite Z.lxor_spec, (Hhi x), (Hhi y) by lia. reflexivity.
Qed.

(* an unsigned expression of size <= W whose value does not depend on how wide (>= W) the context is *)
Definition good (e : rexpr) (v W : Z) : Prop :=
  rsigned e = false /\ rsize e <= W /\ 0 <= v < 2 ^ W /\ forall w, W <= w -> reval env w false e = v.

Lemma good_rid n W : okn env n -> snd n <= W -> good (rid n) (val n) W.
Proof.
  intros [Hw Hv] Hle. split; [|split; [|split]]; cbn [rid rsigned rsize]; try lia; try reflexivity.
  - eapply small_in_wider; [|exact Hv]; lia.
  - intros w Hw'. apply reval_rid; [split; assumption | lia].
Qed.

Lemma good_chain o W : bitop o = true -> 0 <= W -> forall l e v, good e v W -> Forall (fun n => okn env n /\ snd n <= W) l ->
  good (chain o e (map rid l)) (fold_left (fun acc n => bop o acc (val n)) l v) W.
Proof.
  intros Ho HW l. induction l as [|n t IH]; intros e v Hg Hall; cbn [map chain fold_left]; [exact Hg|].
  inversion Hall as [|? ? [Hn Hle] Ht]; subst. apply IH; [|exact Ht].
  destruct Hg as (Hsg & Hsz & Hv & Hev). pose proof (good_rid n W Hn Hle) as (Hsg' & Hsz' & Hv' & Hev').
  assert (Ha : arith_op o = true) by (destruct o; try discriminate; reflexivity).
  split; [|split; [|split]].
  - cbn [rsigned]. rewrite Ha, Hsg. reflexivity.
  - cbn [rsize]. rewrite Ha. lia.
  - apply bop_closed; auto; lia.
  - intros w Hw. cbn [reval]. rewrite Ha. rewrite Hev, Hev' by lia.
    destruct o; try discriminate; apply vtrunc_small; try lia;
      (eapply small_in_wider; [|apply (bop_closed _ W); [reflexivity | lia | exact Hv | exact Hv']]; lia).
Qed.

Definition maxw (l : list nid) : Z := fold_right (fun n m => Z.max (snd n) m) 0 l.
Lemma maxw_all l : Forall (okn env) l -> Forall (fun n => okn env n /\ snd n <= maxw l) l.
Proof.
  induction 1 as [|n t Hn Ht IH]; constructor; cbn [maxw fold_right].
  - split; [exact Hn | lia].
  - eapply Forall_impl; [|exact IH]. cbn. intros a [Ha Hle]. split; [exact Ha|]. fold (maxw t). lia.
Qed.

Lemma rsize_chain o : arith_op o = true -> forall l e, 0 <= rsize e -> rsize (chain o e (map rid l)) = Z.max (rsize e) (maxw l).
Proof.
  intros Ha l. induction l as [|n l IH]; intros e He; cbn [map chain maxw fold_right].
  - lia.
  - rewrite IH by (cbn [rsize]; rewrite Ha; lia). cbn [rsize]. rewrite Ha. cbn [rid rsize]. fold (maxw l). lia.
Qed.

(* assign r = a0 o a1 o ... o an;       o in {&, |, ^} *)
Theorem inl_nary_sound o r x t : bitop o = true -> okn env x -> Forall (okn env) t -> 0 < snd r ->
  forall l e, inl_nary o r (x :: t) = [(l, e)] ->
  assign_value env l e = trunc (snd r) (fold_left (fun acc n => bop o acc (val n)) t (val x)).
Proof.
  intros Ho Hx Ht Hr l e H; inversion H; subst; clear H.
  set (W := maxw (x :: t)). assert (HW : 0 <= W) by (unfold W; cbn [maxw fold_right]; destruct Hx; lia).
  pose proof (maxw_all (x :: t) (Forall_cons _ Hx Ht)) as Hall. fold W in Hall. inversion Hall as [|? ? [_ Hxle] Htle]; subst.
  pose proof (good_chain o W Ho HW t (rid x) (val x) (good_rid x W Hx Hxle) Htle) as (Hsg & Hsz & Hv & Hev).
  unfold assign_value. cbn [lwidth whole]. rewrite Hsg.
  set (ee := chain o (rid x) (map rid t)) in *.
  destruct (Z.le_ge_cases W (Z.max (snd r) (rsize ee))) as [Hle | Hge].
  - rewrite Hev by exact Hle. apply vtrunc_trunc; lia.
  - (* context narrower than W cannot happen unless all operands are narrower: then re-run with that bound *)
    assert (Hrs : rsize ee = W).
    { unfold ee, W. rewrite rsize_chain by (try (destruct o; try discriminate; reflexivity); cbn [rid rsize]; destruct Hx; lia).
      cbn [rid rsize maxw fold_right]. fold (maxw t). reflexivity. }
    rewrite Hev by lia. apply vtrunc_trunc; lia.
Qed.

(* assign r = ~(a0 | a1 | ... );   and the 2-input  ~(a & b) / ~(a | b) *)
Theorem inl_nnary_sound o r x t : bitop o = true -> okn env x -> Forall (okn env) t -> 0 < snd r ->
  forall l e, inl_nnary o r (x :: t) = [(l, e)] ->
  assign_value env l e = trunc (snd r) (Z.lnot (fold_left (fun acc n => bop o acc (val n)) t (val x))).
Proof.
  intros Ho Hx Ht Hr l e H; inversion H; subst; clear H.
  set (W := maxw (x :: t)). assert (HW : 0 <= W) by (unfold W; cbn [maxw fold_right]; destruct Hx; lia).
  pose proof (maxw_all (x :: t) (Forall_cons _ Hx Ht)) as Hall. fold W in Hall. inversion Hall as [|? ? [_ Hxle] Htle]; subst.
  pose proof (good_chain o W Ho HW t (rid x) (val x) (good_rid x W Hx Hxle) Htle) as (Hsg & Hsz & Hv & Hev).
  unfold assign_value. cbn [lwidth whole rsigned rsize]. rewrite Hsg.
  set (ee := chain o (rid x) (map rid t)) in *.
  assert (Hrs : rsize ee = W).
  { unfold ee, W. rewrite rsize_chain by (try (destruct o; try discriminate; reflexivity); cbn [rid rsize]; destruct Hx; lia).
    cbn [rid rsize maxw fold_right]. fold (maxw t). reflexivity. }
  cbn [reval]. rewrite Hev by lia. rewrite vtrunc_vtrunc_le by lia. apply vtrunc_trunc; lia.
Qed.
End Nary.

(* ---------------- equality comparators:  assign r = (a == b)? 1 : 0;    assign r = (a == K)? 1 : 0; *)
Section Eq.
Variable env : list Z.
Notation val n := (getv env (fst n)).

Lemma cond10 w (c : bool) : 0 < w -> vtrunc w (if c then extend true 32 (Z.max w 32) (vtrunc 32 1) else extend true 32 (Z.max w 32) (vtrunc 32 0)) = b2z c.
Proof.
  intros Hw. set (W := Z.max w 32). assert (HW : 32 <= W) by lia.
  assert (H1 : extend true 32 W (vtrunc 32 1) = 1).
  { unfold extend, to_signed, vtrunc. change (1 mod 2 ^ 32) with 1. change (2 ^ (32 - 1) <=? 1) with false. cbn [negb].
    apply Z.mod_small. split; [lia|]. apply Z.lt_le_trans with (2 ^ 32); [reflexivity | apply pow2_le; lia]. }
  assert (H0 : extend true 32 W (vtrunc 32 0) = 0).
  { unfold extend, to_signed, vtrunc. change (0 mod 2 ^ 32) with 0. change (2 ^ (32 - 1) <=? 0) with false.
    apply Z.mod_small. split; [lia|]. apply pow2_pos; lia. }
  assert (P1 : 0 <= 1 < 2 ^ w) by (split; [lia|]; apply Z.lt_le_trans with (2 ^ 1); [reflexivity | apply pow2_le; lia]).
  assert (P0 : 0 <= 0 < 2 ^ w) by (split; [lia|]; apply pow2_pos; lia).
  destruct c; rewrite ?H1, ?H0; cbn [b2z]; apply vtrunc_small; lia.
Qed.

Lemma ext_val n w : okn env n -> snd n <= w -> vtrunc w (val n) = val n.
Proof. intros [Hw Hv] Hle. apply vtrunc_small; [lia|]. eapply small_in_wider; [|exact Hv]; lia. Qed.

Theorem inl_equal_sound r a b : okn env a -> okn env b -> 0 < snd r ->
  forall l e, inl_equal r a b = [(l, e)] -> assign_value env l e = b2z (val a =? val b).
Proof.
  intros Ha Hb Hr l e H; inversion H; subst; clear H.
  unfold assign_value. cbn [lwidth whole rsize rsigned arith_op shift_op andb].
  replace (Z.max (snd r) (Z.max 32 32)) with (Z.max (snd r) 32) by lia.
  cbn [reval rsize rsigned arith_op shift_op andb rid extend].
  set (cw := Z.max (snd a) (snd b)).
  rewrite !ext_val by (auto; lia).
  assert (Hc : vtrunc 1 (b2z (val a =? val b)) = b2z (val a =? val b)) by (apply vtrunc_small; [lia | destruct (val a =? val b); cbn; lia]).
  rewrite Hc.
  replace (b2z (val a =? val b) =? 0) with (negb (val a =? val b)) by (destruct (val a =? val b); reflexivity).
  pose proof (cond10 (snd r) (val a =? val b) Hr) as Hk.
  destruct (val a =? val b); cbn [negb] in *; exact Hk.
Qed.

Theorem inl_equalconst_sound r a v : okn env a -> 0 < snd r -> 0 <= v < 2 ^ 31 ->
  forall l e, inl_equalconst r a v = [(l, e)] -> assign_value env l e = b2z (val a =? v).
Proof.
  intros Ha Hr Hv l e H; inversion H; subst; clear H.
  unfold pynum. destruct (Z.ltb_spec v 0); [lia|].
  unfold assign_value. cbn [lwidth whole rsize rsigned arith_op shift_op andb].
  replace (Z.max (snd r) (Z.max 32 32)) with (Z.max (snd r) 32) by lia.
  cbn [reval rsize rsigned arith_op shift_op andb rid extend].
  set (cw := Z.max (snd a) 32).
  rewrite ext_val by (auto; lia).
  assert (Hlit : vtrunc cw (vtrunc 32 v) = v).
  { unfold vtrunc. rewrite (Z.mod_small v (2 ^ 32)) by lia. apply Z.mod_small. split; [lia|].
    apply Z.lt_le_trans with (2 ^ 32); [lia | apply pow2_le; lia]. }
  rewrite Hlit.
  assert (Hc : vtrunc 1 (b2z (val a =? v)) = b2z (val a =? v)) by (apply vtrunc_small; [lia | destruct (val a =? v); cbn; lia]).
  rewrite Hc.
  replace (b2z (val a =? v) =? 0) with (negb (val a =? v)) by (destruct (val a =? v); reflexivity).
  pose proof (cond10 (snd r) (val a =? v) Hr) as Hk.
  destruct (val a =? v); cbn [negb] in *; exact Hk.
Qed.
End Eq.

(* the constant masked to the operand's width: every integer K (the literal must fit 32 bits signed: wa <= 31) *)
Theorem inl_equalconst_masked_sound env r a K : okn env a -> 0 < snd r -> snd a <= 31 ->
  forall l e, inl_equalconst r a (K mod 2 ^ snd a) = [(l, e)] -> assign_value env l e = b2z (getv env (fst a) =? K mod 2 ^ snd a).
Proof.
  intros Ha Hr Hw l e H. apply (inl_equalconst_sound env r a (K mod 2 ^ snd a)); auto.
  destruct Ha as [Hwa _]. pose proof (Z.mod_pos_bound K (2 ^ snd a) ltac:(apply pow2_pos; lia)).
  pose proof (pow2_le (snd a) 31 ltac:(lia)). lia.
Qed.

(* ---------------- BitsLSBF / BitsMSBF:  assign b_k = a[k];  for every k  (one assign `b_0 = a` when a is 1 bit wide) *)
Section BitsE.
Variable env : list Z.
Notation val n := (getv env (fst n)).

Lemma nth_map_seqZ (f : Z -> Z) n k : (k < n)%nat -> nth k (map f (seqZ 0 (Z.of_nat n))) 0 = f (Z.of_nat k).
Proof.
  intros Hk. unfold seqZ. rewrite map_map. replace (Z.to_nat (Z.of_nat n - 0)) with n by lia.
  rewrite (nth_indep _ 0 (f (0 + Z.of_nat 0))) by (rewrite map_length, seq_length; lia).
  rewrite (map_nth (fun j => f (0 + Z.of_nat j)) (seq 0 n) 0%nat k). rewrite seq_nth by lia. f_equal.
Qed.

(* what the simulator stores into the k-th listed wire (same function for LSBF and MSBF: the constructors order the port list) *)
Lemma bits_propagate_nth wa lw v k : (k < wa)%nat ->
  nth k (BitsLSBF_propagate (Z.of_nat wa) lw v) 0 = Wire_put (nth k lw 0) (Z.land (py_shr v (Z.of_nat k)) 1) /\
  nth k (BitsMSBF_propagate (Z.of_nat wa) lw v) 0 = Wire_put (nth k lw 0) (Z.land (py_shr v (Z.of_nat k)) 1).
Proof.
  intros Hk. unfold BitsLSBF_propagate, BitsMSBF_propagate. cbv zeta.
  rewrite !(nth_map_seqZ (fun i => Wire_put (getZ lw i) (Z.land (py_shr v i) 1)) wa k Hk).
  unfold getZ. rewrite Nat2Z.id. split; reflexivity.
Qed.

(* the emitted assign for bit k *)
Theorem inl_bits_sound a b k : okn env a -> 0 < snd b -> 0 <= k < snd a -> k < 2 ^ 31 ->
  assign_value env (whole b) (RBit (fst a) (snd a) (RNum k)) = Wire_put (snd b) (Z.land (py_shr (val a) k) 1).
Proof.
  intros Ha Hb Hk Hk2.
  pose proof (rbit_sound env b a k Ha Hb Hk Hk2) as H.
  unfold pynum in H. destruct (Z.ltb_spec k 0); [lia|]. rewrite H. reflexivity.
Qed.

(* a 1-bit operand: assign b_0 = a; *)
Theorem inl_bits1_sound a b : okn env a -> snd a = 1 -> 0 < snd b ->
  forall l e, inl_bits a [b] = [(l, e)] -> assign_value env l e = Wire_put (snd b) (Z.land (py_shr (val a) 0) 1).
Proof.
  intros Ha H1 Hb l e H; inversion H; subst; clear H.
  rewrite (inl_buf_sound env b a Ha Hb _ _ eq_refl). unfold Buf_propagate, py_shr. cbv zeta. rewrite Z.shiftr_0_r.
  destruct Ha as [_ Hv]. rewrite H1 in Hv. change (2 ^ 1) with 2 in Hv.
  assert (Hc : val a = 0 \/ val a = 1) by lia. destruct Hc as [-> | ->]; reflexivity.
Qed.
End BitsE.
