(* C01 composition with memories, step 3: one simulator step of the flat design and of the kernel preserve the simulation relation
   `ssim_rel` (Model/C01Seq.v); equal observable traces over every stimulus.  The structure is that of ComposeSeq.v with the
   registers replaced by the interface of SeqG1.v (private nets, src -> out buffer, sinv). *)
From V Require Import Base.Bits Gen.WireOps Gen.Helpers Gen.Prims Gen.Seq Model.VSyntax Model.VSem Model.Inline Model.SimKernel Model.Trace
  Model.C01Prim Model.C01Mem Model.C01Seq Spec.C04 Proofs.C04.Settle Proofs.C01.InlineSound Proofs.C01.ComposePrim Proofs.C01.ComposeKernel
  Proofs.C01.ComposeComb Proofs.C01.ComposeEdge Proofs.C01.ComposeSeq Proofs.C01.MemSound Proofs.C01.SeqG1 Proofs.C01.SeqG2.
From Coq Require Import PeanoNat Arith.

Section Seq.
Variable f : flat.
Variable ps : list prim.
Variable gs : list sinst.
Variable clk : nat.
Variable ins : list nat.

Let priv := flat_map si_priv gs.
Let qs := map (fun s => fst (si_out s)) gs.
Let all := map si_buf gs ++ ps.
Let d := comp_design_s f ps gs.
Let dplus := comb_design sstate f all.

Hypothesis Hcomb : match_comb all f = true.
Hypothesis Hwf : forallb prim_wf all = true.
Hypothesis Hpo : pordered all = true.
Hypothesis Hgs : forall s, In s gs -> si_ok f s.
Hypothesis Hprocs : sprocs_match clk (f_procs f) gs = true.
Hypothesis Hpriv : NoDup priv.
Hypothesis Hps_pr : forall p, In p ps -> forall n, In n (prim_nids p) -> ~ In (fst n) priv.
Hypothesis Hgs_pr : forall s, In s gs -> forall n, In n (si_out s :: si_ins s) -> ~ In (fst n) priv.
Hypothesis Hins : forall i, In i ins -> ~ In i priv /\ ~ In i (map (fun p => fst (prim_out p)) all) /\ (i < length (f_nets f))%nat.
Hypothesis Hwidths : forall n, In n (f_nets f) -> 0 < fn_width n.

Lemma souts_all : map (fun p => fst (prim_out p)) all = qs ++ map (fun p => fst (prim_out p)) ps.
Proof. unfold all, qs. rewrite map_app, map_map. reflexivity. Qed.

Lemma snodup_outs : NoDup (qs ++ map (fun p => fst (prim_out p)) ps).
Proof. rewrite <- souts_all. destruct (match_parts f all Hcomb Hwf) as (_ & _ & H & _). exact H. Qed.

Lemma snodup_qs : NoDup qs.
Proof. exact (NoDup_app_l _ _ snodup_outs). Qed.

Lemma sq_not_out s p : In s gs -> In p ps -> fst (si_out s) <> fst (prim_out p).
Proof.
  intros Hs Hp E. apply (NoDup_app_disjoint _ _ (fst (si_out s)) snodup_outs).
  - unfold qs. now apply (in_map (fun s => fst (si_out s))).
  - rewrite E. now apply (in_map (fun p => fst (prim_out p))).
Qed.

Lemma sall_ok p : In p all -> prim_ok f p.
Proof. destruct (match_parts f all Hcomb Hwf) as (_ & _ & _ & _ & H & _). apply H. Qed.

Lemma src_in_priv s : In s gs -> In (fst (si_src s)) priv.
Proof. intros Hs. unfold priv. apply in_flat_map. exists s. split; [exact Hs | now left]. Qed.

Lemma out_notin_priv s : In s gs -> ~ In (fst (si_out s)) priv.
Proof. intros Hs. apply (Hgs_pr s Hs). now left. Qed.

Lemma src_notin_qs s : In s gs -> ~ In (fst (si_src s)) qs.
Proof.
  intros Hs Hin. unfold qs in Hin. apply in_map_iff in Hin. destruct Hin as (s' & E & Hs').
  apply (out_notin_priv s' Hs'). rewrite E. now apply src_in_priv.
Qed.

Lemma priv_each s : In s gs -> NoDup (si_priv s).
Proof. intros Hs. exact (NoDup_flat_map_each si_priv gs s Hpriv Hs). Qed.

Lemma sp1_same vs c : propagate1 dplus vs c = propagate1 d vs c.
Proof. apply propagate1_widths. reflexivity. Qed.

Lemma sfold_same : forall cs vs, fold_left (propagate1 dplus) cs vs = fold_left (propagate1 d) cs vs.
Proof. induction cs as [|c cs IH]; intros vs; [reflexivity|]. cbn [fold_left]. rewrite sp1_same. apply IH. Qed.

(* the buffer src -> out of an instance *)
Lemma si_buf_parts env s : env_ok f env -> In s gs ->
  okn env (si_src s) /\ snd (si_src s) = snd (si_out s) /\ 0 < snd (si_out s) /\
  nth (fst (si_out s)) (widths d) 0 = snd (si_out s) /\ (fst (si_out s) < length (f_nets f))%nat.
Proof.
  intros He Hs. pose proof (Hgs s Hs) as Hok. pose proof (priv_each s Hs) as Hnd.
  assert (Hout : nid_ok f (si_out s) = true).
  { destruct Hok as [_ Hn]. unfold si_nets_ok in Hn. apply andb_prop in Hn. destruct Hn as [Hn _].
    cbn [si_nids forallb] in Hn. apply andb_prop in Hn. destruct Hn as [_ Hn]. apply andb_prop in Hn. exact (proj1 Hn). }
  destruct (nid_ok_spec f _ Hout) as (x & Hx & Ex).
  assert (Hw : nth (fst (si_out s)) (widths d) 0 = snd (si_out s) /\ (fst (si_out s) < length (f_nets f))%nat).
  { split; [change (widths d) with (map fn_width (f_nets f)); rewrite (nth_width f _ x Hx); exact Ex | apply nth_error_Some; congruence]. }
  destruct s as [g|m].
  - assert (Hg : reg_ok f g).
    { destruct Hok as [Hw' Hn]. split; [exact Hw'|]. unfold si_nets_ok in Hn. apply andb_prop in Hn. exact (proj1 Hn). }
    destruct (reg_ok_parts f env g He Hg) as (_ & Hrq & _ & [Hwq _] & _ & _ & _ & _ & Ew). cbn [si_src si_out] in *. tauto.
  - destruct (mem_ok_parts f env m He Hok Hnd) as (Hw0 & _ & Hrdw & _ & _ & Hrr & _). cbn [si_src si_out] in *.
    unfold mi_w in *. split; [exact Hrr|]. split; [lia|]. split; [lia|]. exact Hw.
Qed.

(* ------------------------------------------------------------------ the relation *)
Definition SRpre (env vals : list Z) : Prop :=
  env_ok f env /\ length vals = length env /\
  (forall w, ~ In w priv -> ~ In w qs -> nth w vals 0 = getv env w) /\
  (forall s, In s gs -> getv env (fst (si_src s)) = nth (fst (si_out s)) vals 0).
Notation SR := (swires_rel f gs).

Lemma SR_SRpre env vals : SR env vals -> SRpre env vals.
Proof.
  intros (He & Hl & Hag & Hq). split; [exact He|]. split; [exact Hl|]. split; [intros w Hw _; now apply Hag|].
  intros s Hs. rewrite (Hq s Hs). symmetry. apply Hag. now apply out_notin_priv.
Qed.

Lemma sleaf_eval env p : env_ok f env -> prim_ok f p ->
  propagate1 dplus env (prim_leaf p) = set_nth env (fst (prim_out p)) (trunc (snd (prim_out p)) (prim_fn p (ins_vals env p))).
Proof.
  intros He [Hw Hn]. cbn [prim_nids forallb] in Hn. apply andb_prop in Hn. destruct Hn as [Hr _].
  destruct (nid_ok_spec f _ Hr) as (x & Hx & Ew).
  unfold propagate1. cbn [prim_leaf c_out c_in c_f write_outs]. change (widths dplus) with (map fn_width (f_nets f)).
  rewrite (nth_width f _ x Hx), Ew. reflexivity.
Qed.

Lemma sbufs_fold : forall L env, env_ok f env -> incl L gs -> NoDup (map (fun s => fst (si_out s)) L) ->
  let env' := fold_left (propagate1 dplus) (map prim_leaf (map si_buf L)) env in
  env_ok f env' /\
  (forall w, ~ In w (map (fun s => fst (si_out s)) L) -> getv env' w = getv env w) /\
  (forall s, In s L -> getv env' (fst (si_out s)) = getv env (fst (si_src s))).
Proof.
  induction L as [|s L IH]; intros env He Hin Hnd; cbn zeta.
  - split; [exact He|]. split; [reflexivity | intros s []].
  - cbn [map fold_left]. inversion Hnd as [|? ? Hnot Hnd']; subst.
    assert (Hs : In s gs) by (apply Hin; now left).
    assert (Hpk : prim_ok f (si_buf s)).
    { apply sall_ok. unfold all. apply in_or_app. left. now apply in_map. }
    destruct (assign_is_leaf f dplus eq_refl env (si_buf s) He Hpk) as [_ He1].
    pose proof (sleaf_eval env (si_buf s) He Hpk) as E1. cbn [si_buf prim_out] in E1.
    set (env1 := propagate1 dplus env (prim_leaf (si_buf s))) in *.
    destruct (si_buf_parts env s He Hs) as ([Hwsrc Hrsrc] & Ew & Hwq & _ & Hqlt').
    assert (Hv : trunc (snd (si_out s)) (prim_fn (PBuf (si_out s) (si_src s)) (ins_vals env (PBuf (si_out s) (si_src s)))) = getv env (fst (si_src s))).
    { unfold ins_vals. cbn [prim_fn prim_ins map nth]. unfold Buf_propagate. cbv zeta.
      rewrite (put_trunc (snd (si_out s)) (getv env (fst (si_src s)))). rewrite trunc_idem by lia.
      apply trunc_small; [lia|]. rewrite <- Ew. exact Hrsrc. }
    unfold si_buf in E1. rewrite Hv in E1.
    assert (Hqlt : (fst (si_out s) < length env)%nat) by (rewrite (proj1 He); exact Hqlt').
    destruct (IH env1 He1 (fun x Hx => Hin x (or_intror Hx)) Hnd') as (He' & Hoth & Hat).
    split; [exact He'|]. split.
    + intros w Hw. cbn [map In] in Hw. rewrite Hoth by tauto. rewrite E1. apply getv_set_nth_ne. tauto.
    + intros s' [<-|Hs'].
      * rewrite Hoth by exact Hnot. rewrite E1. now apply getv_set_nth_eq.
      * rewrite (Hat s' Hs'). rewrite E1. apply getv_set_nth_ne.
        intros E. apply (src_notin_qs s' (Hin s' (or_intror Hs'))). rewrite <- E. unfold qs. now apply (in_map (fun s => fst (si_out s))).
Qed.

Lemma sordered_all : ordered (map prim_leaf all).
Proof. now apply pordered_sound. Qed.

(* one settle of the flat design against one propagateAll of the kernel; private nets keep their values *)
Lemma sphase env vals : SRpre env vals ->
  exists env', VSem.settle f (settle_fuel f) env = (env', true) /\ SR env' (propagateAll d vals) /\
               (forall p, In p priv -> getv env' p = getv env p).
Proof.
  intros (He & Hl & Hag & Hq).
  exists (propagateAll dplus env). split; [exact (comb_settles sstate f all Hcomb Hwf sordered_all env He)|].
  unfold propagateAll. cbn [dplus comb_design combs]. unfold all. rewrite map_app, fold_left_app. fold dplus.
  destruct (sbufs_fold gs env He (incl_refl _) snodup_qs) as (Heq & Hoth & Hat). cbv zeta in Heq, Hoth, Hat.
  set (envq := fold_left (propagate1 dplus) (map prim_leaf (map si_buf gs)) env) in *.
  assert (Hps_ok : forall p, In p ps -> prim_ok f p) by (intros p Hp; apply sall_ok; unfold all; apply in_or_app; now right).
  destruct (assigns_are_leaves f dplus eq_refl ps envq Heq Hps_ok) as [_ He'].
  set (env' := fold_left (propagate1 dplus) (map prim_leaf ps) envq) in *.
  assert (Hagq : agree_out priv envq vals).
  { split; [unfold envq; rewrite fold_length; lia|]. intros w Hw.
    destruct (in_dec Nat.eq_dec w qs) as [Hin|Hnot].
    - unfold qs in Hin. apply in_map_iff in Hin. destruct Hin as (s & <- & Hs).
      change (getv envq (fst (si_out s)) = nth (fst (si_out s)) vals 0). rewrite (Hat s Hs). now apply Hq.
    - change (getv envq w = nth w vals 0). rewrite (Hoth w Hnot). symmetry. now apply Hag. }
  assert (Hag' : agree_out priv env' (fold_left (propagate1 dplus) (map prim_leaf ps) vals)).
  { apply fold_agree_out; [exact Hagq|]. intros c Hc w Hw. apply in_map_iff in Hc. destruct Hc as (p & <- & Hp).
    cbn [prim_leaf c_in] in Hw. apply in_map_iff in Hw. destruct Hw as (n & <- & Hn). apply (Hps_pr p Hp). now right. }
  assert (Esame : fold_left (propagate1 dplus) (map prim_leaf ps) vals = fold_left (propagate1 d) (combs d) vals).
  { change (combs d) with (map prim_leaf ps). apply sfold_same. }
  rewrite Esame in Hag'. destruct Hag' as [Hl' Hw'].
  assert (Hund : forall w, ~ In w (map (fun p => fst (prim_out p)) ps) -> getv env' w = getv envq w).
  { intros w Hw. unfold env'. apply (fold_undriven dplus). unfold driven. now rewrite leaf_outs. }
  assert (Hpr_und : forall p, In p priv -> ~ In p (map (fun p => fst (prim_out p)) ps)).
  { intros p Hp Hin. apply in_map_iff in Hin. destruct Hin as (q & E & Hq'). apply (Hps_pr q Hq' (prim_out q) (or_introl eq_refl)). now rewrite E. }
  assert (Hq_und : forall s, In s gs -> ~ In (fst (si_out s)) (map (fun p => fst (prim_out p)) ps)).
  { intros s Hs Hin. apply in_map_iff in Hin. destruct Hin as (p & E & Hp). now apply (sq_not_out s p Hs Hp). }
  assert (Hkeep : forall p, In p priv -> getv env' p = getv env p).
  { intros p Hp. rewrite Hund by now apply Hpr_und. apply Hoth. intros Hin. unfold qs in Hin. apply in_map_iff in Hin.
    destruct Hin as (s & E & Hs). apply (out_notin_priv s Hs). now rewrite E. }
  split; [|exact Hkeep].
  split; [exact He'|]. split; [unfold propagateAll; lia|]. split.
  - intros w Hw. symmetry. now apply Hw'.
  - intros s Hs. rewrite (Hkeep _ (src_in_priv s Hs)). rewrite Hund by now apply Hq_und. symmetry. now apply Hat.
Qed.

(* ------------------------------------------------------------------ the kernel's clock phase *)
Definition sg0 : sinst := SReg ComposeSeq.g0.
Definition sst0 : sstate := StReg ComposeSeq.st0.

Section Clock.
Variable s : state sstate.
Hypothesis Hpend : pend s = [].
Hypothesis Hlen : length (sts s) = length gs.

Definition SGk (j : nat) : sstate * list (option Z) :=
  s_f (si_leaf (nth j gs sg0)) (nth j (sts s) sst0) (map (rd (vals s)) (s_in (si_leaf (nth j gs sg0)))).

Lemma sclock_prefix : forall k, (k <= length gs)%nat ->
  let sk := fold_left (clock1 d) (seq 0 k) s in
  vals sk = vals s /\ length (sts sk) = length gs /\
  (forall j, (j < k)%nat -> nth_error (sts sk) j = Some (fst (SGk j))) /\
  (forall j, (k <= j)%nat -> nth_error (sts sk) j = nth_error (sts s) j) /\
  pend sk = flat_map (fun j => prep (widths d) (s_out (si_leaf (nth j gs sg0))) (snd (SGk j))) (seq 0 k).
Proof.
  induction k as [|k IH]; intros Hk; cbv zeta.
  - cbn [seq fold_left flat_map]. repeat split; auto. intros j Hj. lia.
  - rewrite seq_S, fold_left_app. cbn [fold_left plus].
    destruct (IH ltac:(lia)) as (Hv & Hl & Hlt & Hge & Hp). cbv zeta in Hv, Hl, Hlt, Hge, Hp.
    set (sk := fold_left (clock1 d) (seq 0 k) s) in *.
    assert (Hleaf : nth_error (seqs d) k = Some (si_leaf (nth k gs sg0))).
    { cbn [d comp_design_s seqs]. rewrite nth_error_map. rewrite (nth_error_nth' gs sg0) by lia. reflexivity. }
    assert (Hst : nth_error (sts sk) k = Some (nth k (sts s) sst0)).
    { rewrite Hge by lia. apply nth_error_nth'. lia. }
    destruct (SGk k) as [st' rs] eqn:EG.
    assert (Ec : clock1 d sk k = {| vals := vals sk;
                                    pend := pend sk ++ prep (widths d) (s_out (si_leaf (nth k gs sg0))) rs;
                                    sts := set_nth (sts sk) k st'; total := total sk |}).
    { unfold clock1. rewrite Hleaf, Hst. rewrite Hv. fold (SGk k). rewrite EG. reflexivity. }
    rewrite Ec. cbn [vals pend sts].
    split; [exact Hv|]. split; [now rewrite Settle.set_nth_length|]. split; [|split].
    + intros j Hj. destruct (Nat.eq_dec j k) as [->|Hne].
      * rewrite nth_error_set_nth_eq by lia. now rewrite EG.
      * rewrite nth_error_set_nth_ne by auto. apply Hlt. lia.
    + intros j Hj. rewrite nth_error_set_nth_ne by lia. apply Hge. lia.
    + rewrite Hp, flat_map_app. cbn [flat_map]. rewrite EG, app_nil_r. reflexivity.
Qed.

Lemma sclock_all :
  let s1 := clock_drivers d s in
  vals s1 = vals s /\ length (sts s1) = length gs /\
  (forall j, (j < length gs)%nat -> nth_error (sts s1) j = Some (fst (SGk j))) /\
  pend s1 = flat_map (fun j => prep (widths d) (s_out (si_leaf (nth j gs sg0))) (snd (SGk j))) (seq 0 (length gs)).
Proof.
  cbv zeta. unfold clock_drivers. cbn [d comp_design_s drivers fold_left]. fold d.
  unfold enabled. cbn [d_enable]. unfold clockAll. cbn [d_leaves].
  destruct (sclock_prefix (length gs) (le_n _)) as (Hv & Hl & Hlt & _ & Hp). auto.
Qed.
End Clock.

(* ------------------------------------------------------------------ the invariant between two steps *)
Notation SInv := (ssim_rel f gs).

Lemma flat_map_single {A B} (g : A -> list B) (h : A -> B) : forall l, (forall x, In x l -> g x = [h x]) -> flat_map g l = map h l.
Proof.
  induction l as [|x l IH]; intros H; [reflexivity|]. cbn [flat_map map]. rewrite (H x (or_introl eq_refl)). cbn [app]. f_equal.
  apply IH. intros y Hy. apply H. now right.
Qed.

Lemma sins_vals_same env vals s : In s gs -> (forall w, ~ In w priv -> nth w vals 0 = getv env w) ->
  map (rd vals) (map fst (si_ins s)) = map (getv env) (map fst (si_ins s)).
Proof.
  intros Hs Hag. apply map_ext_in. intros w Hw. apply in_map_iff in Hw. destruct Hw as (n & <- & Hn).
  unfold rd. apply Hag. apply (Hgs_pr s Hs). now right.
Qed.

(* one clock cycle: edge + NBAs + settle  against  clock_drivers + settleAll + propagateAll *)
Lemma scycle env s : SInv env s ->
  exists env2, VSem.settle f (settle_fuel f) (edge f clk env) = (env2, true) /\ SInv env2 (clk_cycle d s).
Proof.
  intros ((He & Hl & Hag & Hq) & Hpend & Hlen & Hst).
  destruct (sedge_values f gs clk Hprocs Hpriv Hgs env He) as (Hel & Hepriv & Heoth).
  destruct (sclock_all s Hpend Hlen) as (Hv1 & Hl1 & Hst1 & Hp1). cbv zeta in Hv1, Hl1, Hst1, Hp1.
  set (s1 := clock_drivers d s) in *.
  assert (Hreg : forall j g, nth_error gs j = Some g ->
            exists st, nth_error (sts s) j = Some st /\
                       SGk s j = (fst (si_sim env g st), [Some (snd (si_sim env g st))]) /\
                       getv (edge f clk env) (fst (si_src g)) = snd (si_sim env g st) /\
                       sinv g (edge f clk env) (fst (si_sim env g st)) /\
                       Wire_prepare (snd (si_out g)) (snd (si_sim env g st)) = snd (si_sim env g st) /\
                       (forall p x, In p (si_priv g) -> nth_error (f_nets f) p = Some x -> 0 <= getv (edge f clk env) p < 2 ^ fn_width x)).
  { intros j g Hj. assert (Hjl : (j < length gs)%nat) by (apply nth_error_Some; congruence).
    assert (Hg : In g gs) by (eapply nth_error_In; eauto).
    exists (nth j (sts s) sst0). assert (Hsj : nth_error (sts s) j = Some (nth j (sts s) sst0)) by (apply nth_error_nth'; lia).
    split; [exact Hsj|].
    assert (Eg : nth j gs sg0 = g) by (now apply nth_error_nth).
    pose proof (Hst j g _ Hj Hsj) as Hinv.
    destruct (si_edge f env g (nth j (sts s) sst0) He (Hgs g Hg) (priv_each g Hg) Hinv) as (_ & E1 & E2 & _ & E4 & E5).
    cbv zeta in E1, E2, E4.
    split; [|split; [|split; [|split; [exact E5|]]]].
    - unfold SGk. rewrite Eg. cbn [si_leaf s_in]. rewrite (sins_vals_same env (vals s) g Hg Hag). now apply si_leaf_sim.
    - rewrite (Hepriv g _ Hg (or_introl eq_refl)). exact E1.
    - apply (sinv_ext g (apply_nbas env (si_qof env g))); [|exact E2]. intros p Hp. now apply Hepriv.
    - intros p x Hp Hx. rewrite (Hepriv g p Hg Hp). now apply E4. }
  (* the pending list: one prepared value per instance *)
  set (SP := fun j => (fst (si_out (nth j gs sg0)),
                       Wire_prepare (snd (si_out (nth j gs sg0))) (snd (si_sim env (nth j gs sg0) (nth j (sts s) sst0))))).
  assert (Hp1' : pend s1 = map SP (seq 0 (length gs))).
  { rewrite Hp1. apply flat_map_single. intros j Hj. apply in_seq in Hj.
    assert (Hjn : nth_error gs j = Some (nth j gs sg0)) by (apply nth_error_nth'; lia).
    destruct (Hreg j _ Hjn) as (st & Hsj & EG & _). assert (Est : nth j (sts s) sst0 = st) by (now apply nth_error_nth).
    rewrite EG. cbn [snd si_leaf s_out prep]. unfold SP. rewrite Est.
    destruct (si_buf_parts env (nth j gs sg0) He (nth_error_In _ _ Hjn)) as (_ & _ & _ & Ewq & _). now rewrite Ewq. }
  set (s2 := settleAll s1).
  assert (Hpfst : map fst (pend s1) = qs).
  { rewrite Hp1', map_map. cbn [SP fst]. unfold qs. apply (map_nth_seq (fun s => fst (si_out s)) sg0). }
  assert (Hv2len : length (vals s2) = length env) by (cbn [s2 settleAll vals]; rewrite settle_fold_length, Hv1; exact Hl).
  assert (Hv2oth : forall w, ~ In w qs -> nth w (vals s2) 0 = nth w (vals s) 0).
  { intros w Hw. cbn [s2 settleAll vals]. rewrite settle_fold_other by (now rewrite Hpfst). now rewrite Hv1. }
  assert (Hv2q : forall j g st, nth_error gs j = Some g -> nth_error (sts s) j = Some st ->
                   nth (fst (si_out g)) (vals s2) 0 = snd (si_sim env g st)).
  { intros j g st Hj Hsj. destruct (Hreg j g Hj) as (st' & Hsj' & _ & _ & _ & E5 & _). assert (st' = st) by congruence. subst st'.
    assert (Hg : In g gs) by (eapply nth_error_In; eauto). destruct (si_buf_parts env g He Hg) as (_ & _ & _ & _ & Hqlt).
    cbn [s2 settleAll vals].
    rewrite (settle_fold_at (pend s1) (vals s1) (fst (si_out g)) (Wire_prepare (snd (si_out g)) (snd (si_sim env g st)))).
    - exact E5.
    - rewrite Hpfst. exact snodup_qs.
    - rewrite Hp1'. apply in_map_iff. exists j. split; [|apply in_seq; split; [lia|]; cbn; apply nth_error_Some; congruence].
      unfold SP. rewrite (nth_error_nth gs j sg0 Hj), (nth_error_nth _ _ sst0 Hsj). reflexivity.
    - rewrite Hv1, Hl, (proj1 He). exact Hqlt. }
  assert (Hpre : SRpre (edge f clk env) (vals s2)).
  { split; [|split; [lia|split]].
    - split; [rewrite Hel; exact (proj1 He)|]. intros i n Hn.
      destruct (in_dec Nat.eq_dec i priv) as [Hin|Hnot].
      + unfold priv in Hin. apply in_flat_map in Hin. destruct Hin as (g & Hg & Hig).
        destruct (In_nth_error _ _ Hg) as [j Hj]. destruct (Hreg j g Hj) as (st & _ & _ & _ & _ & _ & Hr). now apply (Hr i n).
      + rewrite (Heoth i Hnot). now apply (proj2 He).
    - intros w Hw1 Hw2. rewrite (Hv2oth w Hw2), (Heoth w Hw1). now apply Hag.
    - intros g Hg. destruct (In_nth_error _ _ Hg) as [j Hj]. destruct (Hreg j g Hj) as (st & Hsj & _ & E1 & _).
      rewrite E1. symmetry. exact (Hv2q j g st Hj Hsj). }
  destruct (sphase (edge f clk env) (vals s2) Hpre) as (env2 & Hsettle & HR & Hkeep).
  exists env2. split; [exact Hsettle|]. split; [exact HR|]. split; [reflexivity|]. split; [exact Hl1|].
  intros j g st' Hj Hsj'. cbn [clk_cycle settleAll sts] in Hsj'. fold s1 in Hsj'.
  assert (Hg : In g gs) by (eapply nth_error_In; eauto).
  assert (Hjl : (j < length gs)%nat) by (apply nth_error_Some; congruence).
  destruct (Hreg j g Hj) as (st & Hsj & EG & _ & E2 & _).
  rewrite (Hst1 j Hjl), EG in Hsj'. cbn [fst] in Hsj'. injection Hsj' as <-.
  apply (sinv_ext g (edge f clk env)); [|exact E2]. intros p Hp. apply Hkeep. unfold priv. apply in_flat_map. eauto.
Qed.

Lemma scycles_compose : forall n env s, SInv env s ->
  exists env', vcycles f (Some clk) n env true = (env', true) /\ SInv env' (cycles d n s).
Proof.
  induction n as [|n IH]; intros env s HI; [exists env; split; [reflexivity | exact HI]|].
  cbn [vcycles cycles]. destruct (scycle env s HI) as (env2 & Hs & HI2). rewrite Hs. cbn [andb]. now apply IH.
Qed.

(* ------------------------------------------------------------------ pokes *)
Lemma spoke_inv env s i v : SInv env s -> In i ins ->
  SInv (set_nth env i (vtrunc (fn_width (nth i (f_nets f) dnet)) v)) (poke d s i v).
Proof.
  intros ((He & Hl & Hag & Hq) & Hpend & Hlen & Hst) Hi. destruct (Hins i Hi) as (Hnpr & Hnout & Hilt).
  destruct (nth_error (f_nets f) i) as [n|] eqn:Hn; [|apply nth_error_None in Hn; lia].
  assert (Hwn : 0 < fn_width n) by (apply Hwidths; eapply nth_error_In; eauto).
  rewrite (nth_error_nth (f_nets f) i dnet Hn).
  assert (Hnq : ~ In i qs) by (intros Hin; apply Hnout; rewrite souts_all; apply in_or_app; now left).
  assert (Eput : Wire_put (nth i (widths d) 0) v = vtrunc (fn_width n) v).
  { change (widths d) with (map fn_width (f_nets f)). rewrite (nth_width f i n Hn), put_trunc, vtrunc_trunc by lia. reflexivity. }
  split; [|split; [exact Hpend|split; [exact Hlen|]]].
  - cbn [poke vals]. rewrite Eput. split; [|split; [now rewrite !Settle.set_nth_length|split]].
    + apply (env_ok_set f env i n); auto. unfold vtrunc. apply Z.mod_pos_bound. apply pow2_pos. lia.
    + intros w Hw. destruct (Nat.eq_dec i w) as [->|Hne].
      * change (getv (set_nth (vals s) w (vtrunc (fn_width n) v)) w = getv (set_nth env w (vtrunc (fn_width n) v)) w).
        rewrite !getv_set_nth_eq; auto; [rewrite (proj1 He); exact Hilt | rewrite Hl, (proj1 He); exact Hilt].
      * change (getv (set_nth (vals s) i (vtrunc (fn_width n) v)) w = getv (set_nth env i (vtrunc (fn_width n) v)) w).
        rewrite !getv_set_nth_ne by exact Hne. now apply Hag.
    + intros g Hg. rewrite !getv_set_nth_ne; [now apply Hq | |].
      * intros ->. apply Hnq. unfold qs. now apply (in_map (fun s => fst (si_out s))).
      * intros ->. apply Hnpr. now apply src_in_priv.
  - intros j g st Hj Hsj. cbn [poke sts] in Hsj. apply (sinv_ext g env); [|now apply (Hst j g st)].
    intros p Hp. apply getv_set_nth_ne. intros ->. apply Hnpr. unfold priv. apply in_flat_map. exists g. split; [eapply nth_error_In; eauto | exact Hp].
Qed.

Lemma spokes_inv : forall pk env s, SInv env s -> (forall p, In p pk -> In (fst p) ins) ->
  SInv (set_inputs f env pk) (fold_left (fun s p => poke d s (fst p) (snd p)) pk s).
Proof.
  induction pk as [|p pk IH]; intros env s HI Hpk; [exact HI|].
  unfold set_inputs. cbn [fold_left]. apply IH; [|intros q Hq; apply Hpk; now right].
  apply spoke_inv; auto. apply Hpk. now left.
Qed.

(* ------------------------------------------------------------------ one simulator step *)
Theorem sstep_compose env s pk n : SInv env s -> (forall p, In p pk -> In (fst p) ins) ->
  exists env', vstep f (Some clk) env pk n = (env', true) /\ SInv env' (do_step d s (pk, n)).
Proof.
  intros HI Hpk. pose proof (spokes_inv pk env s HI Hpk) as HI1.
  set (s1 := fold_left (fun s p => poke d s (fst p) (snd p)) pk s) in *.
  destruct HI1 as (HR & Hpend & Hlen & Hst).
  destruct (sphase _ _ (SR_SRpre _ _ HR)) as (e1 & Hs & HR1 & Hkeep).
  unfold vstep. rewrite Hs. unfold do_step, SimKernel.clk. cbn [fst snd]. fold s1.
  apply scycles_compose. split; [exact HR1|]. split; [exact Hpend|]. split; [exact Hlen|].
  intros j g st Hj Hsj. cbn [sts] in Hsj. apply (sinv_ext g (set_inputs f env pk)); [|now apply (Hst j g st)].
  intros p Hp. apply Hkeep. unfold priv. apply in_flat_map. exists g. split; [eapply nth_error_In; eauto | exact Hp].
Qed.

(* ------------------------------------------------------------------ streams *)
Lemma sobs_same env s obs : SInv env s -> (forall o, In o obs -> ~ In o priv) -> map (getv env) obs = map (rd (vals s)) obs.
Proof.
  intros ((_ & _ & Hag & _) & _) Hobs. apply map_ext_in. intros o Ho. unfold rd. symmetry. apply Hag. now apply Hobs.
Qed.

Lemma srun_states_head s l : run_states d s l = s :: tl (run_states d s l).
Proof. destruct l; reflexivity. Qed.

Theorem sstream_compose obs : (forall o, In o obs -> ~ In o priv) -> forall steps env s, SInv env s -> legal_steps f ins steps ->
  vrun f (Some clk) env true steps obs = (map (fun s' => map (rd (vals s')) obs) (tl (run_states d s (map (kstep f) steps))), true).
Proof.
  intros Hobs. induction steps as [|[pk n] steps IH]; intros env s HI Hleg; [reflexivity|].
  cbn [vrun map run_states tl].
  assert (Hpk : forall p, In p (map (fun p => (net_of f (fst p), snd p)) pk) -> In (fst p) ins).
  { intros p Hp. apply in_map_iff in Hp. destruct Hp as (p0 & <- & Hp0). cbn [fst]. exact (Hleg (pk, n) (or_introl eq_refl) p0 Hp0). }
  destruct (sstep_compose env s _ n HI Hpk) as (env' & Hs & HI').
  change (map (fun p : string * Z => (match net_index (f_nets f) (fst p) 0 with Some i => i | None => length (f_nets f) end, snd p)) pk)
    with (map (fun p => (net_of f (fst p), snd p)) pk).
  rewrite Hs. cbn [andb]. rewrite (IH env' _ HI' (fun st Hst => Hleg st (or_intror Hst))).
  change (map (fun p => (net_of f (fst p), snd p)) pk, n) with (kstep f (pk, n)) in HI' |- *.
  set (s' := do_step d s (kstep f (pk, n))) in *.
  rewrite (srun_states_head s' (map (kstep f) steps)). cbn [tl map]. now rewrite (sobs_same env' s' obs HI' Hobs).
Qed.
End Seq.
