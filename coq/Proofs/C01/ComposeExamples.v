(* C01 composition: concrete instances on which the hypotheses of the composition theorems hold (non-vacuity). *)
From V Require Import Base.Bits Gen.WireOps Gen.Helpers Gen.Prims Gen.Seq Model.VSyntax Model.VSem Model.Inline Model.SimKernel Model.Trace
  Model.C01Prim.
(* ---------------------------------------------------------------- non-vacuity: the hypotheses hold on concrete designs *)
Local Open Scope string_scope.
(* two assigns in the text in REVERSE dependency order:  r = t | c;  t = a & b;   (nets a b c t r) *)
Definition ex_comb : flat :=
  {| f_nets := [mk_net "a" 4 false 0 false; mk_net "b" 4 false 0 false; mk_net "c" 4 false 0 false;
                mk_net "t" 4 false 0 false; mk_net "r" 4 false 0 false];
     f_assigns := [(RLId 4 4, RBin BOr (RId 3 4 false) (RId 2 4 false)); (RLId 3 4, RBin BAnd (RId 0 4 false) (RId 1 4 false))];
     f_procs := [] |}.
Definition ex_comb_ps : list prim := [PAnd2 (3%nat, 4) (0%nat, 4) (1%nat, 4); POr2 (4%nat, 4) (3%nat, 4) (2%nat, 4)].
Lemma ex_comb_ok :
  match_flat_comb ex_comb_ps ex_comb = true /\ env_ok ex_comb [12; 10; 1; 0; 0] /\
  VSem.settle ex_comb (settle_fuel ex_comb) [12; 10; 1; 0; 0] = ([12; 10; 1; 8; 9], true) /\
  propagateAll (comb_design unit ex_comb ex_comb_ps) [12; 10; 1; 0; 0] = [12; 10; 1; 8; 9] /\
  fst (VSem.settle ex_comb 1 [12; 10; 1; 0; 0]) <> [12; 10; 1; 8; 9].        (* one pass in text order is NOT enough *)
Proof.
  split; [vm_compute; reflexivity|]. split.
  - split; [reflexivity|]. intros i n H. do 5 (destruct i as [|i]; [injection H as <-; cbn; lia|]). destruct i; discriminate.
  - split; [vm_compute; reflexivity|]. split; [vm_compute; reflexivity | vm_compute; discriminate].
Qed.

(* a register (reset value 3) fed by an And2:  q = rq;  t = a & b;  always @(posedge clk) rq <= t; *)
Definition ex_seq : flat :=
  {| f_nets := [mk_net "a" 4 false 0 false; mk_net "b" 4 false 0 false; mk_net "clk" 1 false 0 false;
                mk_net "q" 4 false 0 false; mk_net "t" 4 false 0 false; mk_net "i_x.rq" 4 false 3 true];
     f_assigns := [(RLId 3 4, RId 5 4 false); (RLId 4 4, RBin BAnd (RId 0 4 false) (RId 1 4 false))];
     f_procs := [(TPos 2, RNba (RLId 5 4) (RId 4 4 false))] |}.
Definition ex_seq_ps : list prim := [PAnd2 (4%nat, 4) (0%nat, 4) (1%nat, 4)].
Definition ex_seq_gs : list reginst := [{| rg_rq := (5%nat, 4); rg_q := (3%nat, 4); rg_d := (4%nat, 4); rg_e := None; rg_r := None; rg_rv := 3 |}].
Definition ex_steps : list (list (string * Z) * nat) := [([("a", 12); ("b", 10)], 1%nat); ([("a", 7)], 2%nat)].
Lemma ex_seq_ok :
  match_flat ex_seq_ps ex_seq_gs 2 [0%nat; 1%nat] ex_seq = true /\
  net_index (f_nets ex_seq) "clk" 0 = Some 2%nat /\ legal_steps ex_seq [0%nat; 1%nat] ex_steps /\
  vsim ex_seq "clk" ex_steps ["q"] = ([[3]; [8]; [2]], true).
Proof.
  split; [vm_compute; reflexivity|]. split; [reflexivity|]. split; [|vm_compute; reflexivity].
  intros st Hst p Hp. cbn in Hst. destruct Hst as [<-|[<-|[]]]; cbn in Hp.
  - destruct Hp as [<-|[<-|[]]]; vm_compute; auto.
  - destruct Hp as [<-|[]]; vm_compute; auto.
Qed.

