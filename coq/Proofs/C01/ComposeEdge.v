(* C01 composition, step 4a: the clock edge of the flat design.  All posedge processes are register bodies: none changes the
   environment, each queues at most one non-blocking write to its own rq; after the queue is applied every rq holds what the
   regenerated Reg.clock prepares for q (body_reg_sound), every other net is unchanged. *)
From V Require Import Base.Bits Gen.WireOps Gen.Helpers Gen.Prims Gen.Seq Model.VSyntax Model.VSem Model.Inline Model.SimKernel Model.C01Prim
  Proofs.C01.InlineSound Proofs.C01.RegSound Proofs.C01.ComposeComb.
From Coq Require Import PeanoNat Arith.

Definition tnet (t : target) : nat := fst (fst t).

(* ------------------------------------------------------------------ writes are local to their net *)
Lemma write_length env t v : length (write env t v) = length env.
Proof. destruct t as [[i lo] w]. unfold write. apply Settle.set_nth_length. Qed.

Lemma write_other env t v j : tnet t <> j -> getv (write env t v) j = getv env j.
Proof. destruct t as [[i lo] w]. unfold tnet. cbn [fst]. intros H. unfold write. now apply getv_set_nth_ne. Qed.

Lemma apply_nbas_length : forall q env, length (apply_nbas env q) = length env.
Proof.
  unfold apply_nbas. induction q as [|p q IH]; intros env; [reflexivity|]. cbn [fold_left]. rewrite IH. apply write_length.
Qed.

(* the value of the last queued write to net i *)
Fixpoint lastw (i : nat) (q : list (target * Z)) : option Z :=
  match q with
  | [] => None
  | p :: q' => match lastw i q' with Some v => Some v | None => if Nat.eqb (tnet (fst p)) i then Some (snd p) else None end
  end.

Lemma lastw_app i a b : lastw i (a ++ b) = match lastw i b with Some v => Some v | None => lastw i a end.
Proof.
  induction a as [|p a IH]; cbn [app lastw]; [destruct (lastw i b); reflexivity|].
  rewrite IH. destruct (lastw i b); reflexivity.
Qed.

Lemma lastw_none i q : Forall (fun p => tnet (fst p) <> i) q -> lastw i q = None.
Proof.
  induction 1 as [|p q Hp _ IH]; cbn [lastw]; [reflexivity|]. rewrite IH.
  destruct (Nat.eqb_spec (tnet (fst p)) i); [contradiction | reflexivity].
Qed.

(* whole-net writes to an in-range net: the last one wins *)
Lemma apply_nbas_at i w : 0 <= w -> forall q env, (i < length env)%nat -> 0 <= getv env i < 2 ^ w ->
  Forall (fun p => tnet (fst p) = i -> fst p = (i, 0, w)) q ->
  getv (apply_nbas env q) i = match lastw i q with Some v => vtrunc w v | None => getv env i end.
Proof.
  intros Hw. induction q as [|[t v] q IH]; intros env Hi Hr Hq; [reflexivity|].
  inversion Hq as [|? ? Hp Hq']; subst. cbn [fst] in Hp.
  unfold apply_nbas. cbn [fold_left fst snd]. fold (apply_nbas (write env t v) q).
  assert (Hrange : 0 <= getv (write env t v) i < 2 ^ w /\
                   getv (write env t v) i = if Nat.eqb (tnet t) i then vtrunc w v else getv env i).
  { destruct (Nat.eqb_spec (tnet t) i) as [E|Hne].
    - rewrite (Hp E). rewrite write_whole_eq by auto. rewrite getv_set_nth_eq by exact Hi.
      split; [|reflexivity]. unfold vtrunc. apply Z.mod_pos_bound. apply pow2_pos; lia.
    - rewrite write_other by exact Hne. auto. }
  destruct Hrange as [Hr' Ev].
  rewrite IH; [| now rewrite write_length | exact Hr' | exact Hq'].
  cbn [lastw fst snd]. destruct (lastw i q); [reflexivity|]. rewrite Ev. destruct (Nat.eqb (tnet t) i); reflexivity.
Qed.

Lemma apply_nbas_other i : forall q env, Forall (fun p => tnet (fst p) <> i) q -> getv (apply_nbas env q) i = getv env i.
Proof.
  induction q as [|[t v] q IH]; intros env Hq; [reflexivity|]. inversion Hq; subst.
  unfold apply_nbas. cbn [fold_left fst snd]. fold (apply_nbas (write env t v) q).
  rewrite IH by assumption. now apply write_other.
Qed.

(* ------------------------------------------------------------------ statements that only queue writes to one target *)
Fixpoint nba_only (t : target) (s : rstmt) : Prop :=
  match s with
  | RSkip => True
  | RIf _ a b => nba_only t a /\ nba_only t b
  | RNba l _ => forall env, ltarget env l = Some t
  | _ => False
  end.

Lemma exec_nba_only t s : nba_only t s -> forall env, exists q, Forall (fun p => fst p = t) q /\ forall Q, exec s (env, Q) = (env, Q ++ q).
Proof.
  induction s; cbn [nba_only]; intros H env; try contradiction.
  - exists []. split; [constructor|]. intros Q. cbn. now rewrite app_nil_r.
  - destruct H as [Ha Hb]. destruct (IHs1 Ha env) as (q1 & F1 & E1). destruct (IHs2 Hb env) as (q2 & F2 & E2).
    cbn [exec fst]. destruct (rself env c =? 0); [exists q2 | exists q1]; auto.
  - exists [(t, assign_value env l e)]. split; [repeat constructor|]. intros Q. cbn [exec fst snd]. now rewrite H.
Qed.

Lemma reg_proc_nba_only g : nba_only (fst (rg_rq g), 0, snd (rg_rq g)) (reg_proc g).
Proof.
  unfold reg_proc, body_reg_proc. destruct (rg_e g), (rg_r g); cbn [nba_only whole ltarget]; auto.
Qed.

(* ------------------------------------------------------------------ one register body at the edge *)
Definition reg_qof (env : list Z) (g : reginst) : list (target * Z) := snd (exec (reg_proc g) (env, [])).

Lemma reg_exec env g Q : exec (reg_proc g) (env, Q) = (env, Q ++ reg_qof env g) /\
  Forall (fun p => fst p = (fst (rg_rq g), 0, snd (rg_rq g))) (reg_qof env g).
Proof.
  destruct (exec_nba_only _ _ (reg_proc_nba_only g) env) as (q & F & E).
  unfold reg_qof. rewrite (E []). cbn [snd app]. split; [apply E | exact F].
Qed.

Lemma qof_other env g i : fst (rg_rq g) <> i -> lastw i (reg_qof env g) = None.
Proof.
  intros Hne. apply lastw_none. destruct (reg_exec env g []) as [_ F]. eapply Forall_impl; [|exact F].
  intros [t v] Ha. cbn [fst] in Ha |- *. subst t. exact Hne.
Qed.

Definition reg_ok (f : flat) (g : reginst) : Prop := reg_wf g = true /\ forallb (nid_ok f) (reg_nids g) = true.

Definition opt_val (env : list Z) (o : option nid) : Z := match o with Some n => getv env (fst n) | None => 0 end.

(* what the simulator's Reg.clock computes from the values the flat environment holds on d, e, r *)
Definition reg_sim (env : list Z) (g : reginst) (st : Reg_state) : Reg_state * Z :=
  Reg_clock (snd (rg_q g)) (has (rg_e g)) (has (rg_r g)) (rg_rv g) st
    (getv env (fst (rg_d g))) (opt_val env (rg_e g)) (opt_val env (rg_r g)).

Lemma reg_clock_sim env g st : reg_clock g st (map (getv env) (map fst (reg_ins g))) = reg_sim env g st.
Proof.
  unfold reg_clock, reg_sim, reg_ins. destruct (rg_e g), (rg_r g); reflexivity.
Qed.

Lemma reg_ok_parts f env g : env_ok f env -> reg_ok f g ->
  (fst (rg_rq g) < length env)%nat /\ okn env (rg_rq g) /\ okn env (rg_d g) /\ okn env (rg_q g) /\
  RegSound.opt_ok env (rg_e g) /\ RegSound.opt_ok env (rg_r g) /\
  enable_ok g = true /\ - 2 ^ 31 < rg_rv g < 2 ^ 31 /\ snd (rg_rq g) = snd (rg_q g).
Proof.
  intros He [Hwf Hn]. unfold reg_wf in Hwf.
  repeat (apply andb_prop in Hwf; let H := fresh "Hw" in destruct Hwf as [Hwf H]).
  unfold reg_nids, reg_ins in Hn. cbn [forallb] in Hn.
  apply andb_prop in Hn. destruct Hn as [Hnrq Hn]. apply andb_prop in Hn. destruct Hn as [Hnq Hn].
  apply andb_prop in Hn. destruct Hn as [Hnd Hn]. rewrite forallb_app in Hn. apply andb_prop in Hn. destruct Hn as [Hne Hnr].
  assert (Hrq : okn env (rg_rq g)) by (apply (env_ok_okn f); auto; lia).
  split.
  { destruct (nid_ok_spec f _ Hnrq) as (x & Hx & _). rewrite (proj1 He). apply nth_error_Some. congruence. }
  split; [exact Hrq|]. split; [apply (env_ok_okn f); auto; lia|]. split; [apply (env_ok_okn f); auto; lia|].
  split; [|split; [|split; [|split]]].
  - destruct (rg_e g) as [e|]; cbn [RegSound.opt_ok opt_list forallb] in *; auto.
    apply (env_ok_okn f); auto; [|lia]. now apply andb_prop in Hne.
  - destruct (rg_r g) as [r|]; cbn [RegSound.opt_ok opt_list forallb] in *; auto.
    apply (env_ok_okn f); auto; [|lia]. now apply andb_prop in Hnr.
  - assumption.
  - lia.
  - lia.
Qed.

(* after the register's own queue is applied, rq holds the value Reg.clock prepares, provided rq showed the stored value before *)
Lemma reg_edge_value f env g st : env_ok f env -> reg_ok f g ->
  getv env (fst (rg_rq g)) = trunc (snd (rg_q g)) (Reg_s_value st) ->
  getv (apply_nbas env (reg_qof env g)) (fst (rg_rq g)) = snd (reg_sim env g st) /\
  snd (reg_sim env g st) = trunc (snd (rg_q g)) (Reg_s_value (fst (reg_sim env g st))).
Proof.
  intros He Hg Hinv.
  destruct (reg_ok_parts f env g He Hg) as (Hi & Hrq & Hd & Hq & Hoe & Hor & He1 & Hrv & Ew).
  (* body_reg_sound has the 1-bit-enable premise only while BodyReg tests `e == 1` *)
  first [ assert (He1' : match rg_e g with Some e' => snd e' = 1 | None => True end)
            by (unfold enable_ok in He1; destruct (rg_e g); [lia | exact I]);
          pose proof (body_reg_sound env (rg_rq g) (rg_d g) (rg_e g) (rg_r g) (rg_rv g) st Hi Hrq Hd Hoe Hor He1' Hrv) as B
        | pose proof (body_reg_sound env (rg_rq g) (rg_d g) (rg_e g) (rg_r g) (rg_rv g) st Hi Hrq Hd Hoe Hor Hrv) as B ].
  fold (reg_proc g) in B. destruct (reg_exec env g []) as [Ex _]. rewrite Ex in B. cbn [app] in B.
  unfold reg_sim. rewrite <- Ew.
  replace (has (rg_e g)) with (RegSound.is_some (rg_e g)) by (destruct (rg_e g); reflexivity).
  replace (has (rg_r g)) with (RegSound.is_some (rg_r g)) by (destruct (rg_r g); reflexivity).
  change (opt_val env (rg_e g)) with (RegSound.opt_val env (rg_e g)).
  change (opt_val env (rg_r g)) with (RegSound.opt_val env (rg_r g)).
  destruct (Reg_clock (snd (rg_rq g)) (RegSound.is_some (rg_e g)) (RegSound.is_some (rg_r g)) (rg_rv g) st
              (getv env (fst (rg_d g))) (RegSound.opt_val env (rg_e g)) (RegSound.opt_val env (rg_r g))) as [st' qsim] eqn:Ec.
  destruct B as (_ & Hnew & Hqs). cbn [fst snd]. split; [|exact Hqs].
  rewrite Hnew.
  destruct ((b2z (RegSound.opt_val env (rg_r g) =? 1) =? 1) && RegSound.is_some (rg_r g)) eqn:E1; [reflexivity|].
  destruct (negb (RegSound.is_some (rg_e g)) || negb (RegSound.opt_val env (rg_e g) =? 0)) eqn:E2; [reflexivity|].
  (* hold: the simulator re-prepares the stored value, which is what rq already shows *)
  rewrite Hqs, Hinv, <- Ew. f_equal.
  unfold Reg_clock in Ec. cbv zeta in Ec. unfold py_truth in Ec.
  destruct (rg_e g) as [e|]; cbn [RegSound.is_some RegSound.opt_val negb orb] in *; [|discriminate].
  assert (He0 : getv env (fst e) = 0) by (destruct (Z.eqb_spec (getv env (fst e)) 0); [assumption | discriminate]).
  rewrite He0 in Ec. cbn [Z.eqb negb] in Ec.
  destruct (rg_r g) as [r|]; cbn [RegSound.is_some RegSound.opt_val negb andb] in *.
  - assert (Hr1 : (getv env (fst r) =? 1) = false).
    { destruct (getv env (fst r) =? 1); [cbn in E1; discriminate | reflexivity]. }
    rewrite Hr1 in Ec. cbn [Z.eqb negb] in Ec. inversion Ec; reflexivity.
  - cbn [Z.eqb negb] in Ec. inversion Ec; reflexivity.
Qed.

(* ------------------------------------------------------------------ all processes together *)
Section Edge.
Variable f : flat.
Variable gs : list reginst.
Variable clk : nat.
Hypothesis Hprocs : procs_match clk (f_procs f) gs = true.
Hypothesis Hrqs : NoDup (map (fun g => fst (rg_rq g)) gs).

Lemma proc_eqb_spec p g : proc_eqb clk p g = true -> p = (TPos clk, reg_proc g).
Proof.
  unfold proc_eqb. destruct p as [t s]. cbn [fst snd]. destruct t; try discriminate.
  intros H. apply andb_prop in H. destruct H as [H1 H2]. apply Nat.eqb_eq in H1. subst.
  f_equal. revert H2. generalize (reg_proc g). clear.
  induction s; destruct r; cbn [rstmt_eqb]; try discriminate; intros H; auto;
    repeat (apply andb_prop in H; let H' := fresh "Hb" in destruct H as [H H']);
    repeat match goal with
           | H : rexpr_eqb _ _ = true |- _ => apply rexpr_eqb_eq in H
           | H : rlval_eqb _ _ = true |- _ => apply rlval_eqb_eq in H
           | IH : forall r, rstmt_eqb ?a r = true -> ?a = r, H : rstmt_eqb ?a _ = true |- _ => apply IH in H
           end; subst; reflexivity.
Qed.

Lemma procs_parts :
  (forall p, In p (f_procs f) -> exists g, In g gs /\ p = (TPos clk, reg_proc g)) /\
  (forall g, In g gs -> In (TPos clk, reg_proc g) (f_procs f)).
Proof.
  unfold procs_match in Hprocs. apply andb_prop in Hprocs. destruct Hprocs as [H1 H2]. split.
  - intros p Hp. rewrite forallb_forall in H1. specialize (H1 p Hp). apply existsb_exists in H1.
    destruct H1 as (g & Hg & E). exists g. split; [exact Hg | now apply proc_eqb_spec].
  - intros g Hg. rewrite forallb_forall in H2. specialize (H2 g Hg). apply existsb_exists in H2.
    destruct H2 as (p & Hp & E). apply proc_eqb_spec in E. now subst.
Qed.

Definition edge_fold (env : list Z) :=
  fold_left (fun st p => match fst p with TPos c => if Nat.eqb c clk then exec (snd p) st else st | _ => st end).

(* the queue after all processes, characterised per rq *)
Lemma edge_queue env : forall procs Q0, (forall p, In p procs -> exists g, In g gs /\ p = (TPos clk, reg_proc g)) ->
  exists Q, edge_fold env procs (env, Q0) = (env, Q0 ++ Q) /\
            Forall (fun p => exists g, In g gs /\ fst p = (fst (rg_rq g), 0, snd (rg_rq g))) Q /\
            forall g, In g gs ->
              (In (TPos clk, reg_proc g) procs /\ lastw (fst (rg_rq g)) Q = lastw (fst (rg_rq g)) (reg_qof env g)) \/
              (~ In (TPos clk, reg_proc g) procs /\ lastw (fst (rg_rq g)) Q = None).
Proof.
  induction procs as [|p procs IH]; intros Q0 Hall.
  - exists []. split; [cbn; now rewrite app_nil_r|]. split; [constructor|]. intros g Hg. right. split; auto.
  - destruct (Hall p (or_introl eq_refl)) as (g0 & Hg0 & ->).
    unfold edge_fold. cbn [fold_left fst snd]. rewrite Nat.eqb_refl.
    destruct (reg_exec env g0 Q0) as [Ex F0]. rewrite Ex.
    destruct (IH (Q0 ++ reg_qof env g0) (fun p Hp => Hall p (or_intror Hp))) as (Q & EQ & FQ & HQ).
    exists (reg_qof env g0 ++ Q). split; [unfold edge_fold in EQ; rewrite EQ; now rewrite app_assoc|]. split.
    + apply Forall_app. split; [|exact FQ]. eapply Forall_impl; [|exact F0]. intros a Ha. exists g0. auto.
    + intros g Hg. rewrite lastw_app.
      destruct (HQ g Hg) as [[Hin El]|[Hnot El]].
      * left. split; [now right|]. rewrite El. destruct (lastw (fst (rg_rq g)) (reg_qof env g)) eqn:E; [reflexivity|].
        (* later copies queue nothing: the first copy of the same body queues nothing either *)
        destruct (Nat.eq_dec (fst (rg_rq g0)) (fst (rg_rq g))) as [Erq|Hne].
        -- assert (g0 = g) by (apply (NoDup_map_inj (fun g => fst (rg_rq g)) gs); auto). subst. exact E.
        -- now apply qof_other.
      * rewrite El. destruct (Nat.eq_dec (fst (rg_rq g0)) (fst (rg_rq g))) as [Erq|Hne].
        -- assert (g0 = g) by (apply (NoDup_map_inj (fun g => fst (rg_rq g)) gs); auto). subst. left. split; [now left | reflexivity].
        -- right. split.
           ++ intros [E|Hin]; [|contradiction]. apply Hnot. exfalso. apply Hne.
              assert (Hq : reg_proc g0 = reg_proc g) by congruence.
              unfold reg_proc, body_reg_proc in Hq.
              destruct (rg_e g0), (rg_r g0), (rg_e g), (rg_r g); inversion Hq; congruence.
           ++ now apply qof_other.
Qed.

(* the edge: every rq takes the value of its own register's queue, every other net keeps its value *)
Theorem edge_values env : env_ok f env -> (forall g, In g gs -> reg_ok f g) ->
  length (edge f clk env) = length env /\
  (forall g, In g gs -> getv (edge f clk env) (fst (rg_rq g)) = getv (apply_nbas env (reg_qof env g)) (fst (rg_rq g))) /\
  (forall i, ~ In i (map (fun g => fst (rg_rq g)) gs) -> getv (edge f clk env) i = getv env i).
Proof.
  intros He Hgs. destruct procs_parts as [Hall Hhas].
  destruct (edge_queue env (f_procs f) [] Hall) as (Q & EQ & FQ & HQ).
  unfold edge. fold (edge_fold env (f_procs f) (env, [])). rewrite EQ. cbn [app].
  split; [apply apply_nbas_length|]. split.
  - intros g Hg. destruct (reg_ok_parts f env g He (Hgs g Hg)) as (Hi & [Hwq Hrq] & _).
    assert (Hlast : lastw (fst (rg_rq g)) Q = lastw (fst (rg_rq g)) (reg_qof env g)).
    { destruct (HQ g Hg) as [[_ E]|[Hnot _]]; [exact E|]. exfalso. apply Hnot. now apply Hhas. }
    rewrite (apply_nbas_at (fst (rg_rq g)) (snd (rg_rq g))); auto; try lia.
    + rewrite (apply_nbas_at (fst (rg_rq g)) (snd (rg_rq g)) ltac:(lia) (reg_qof env g)); auto.
      * now rewrite Hlast.
      * destruct (reg_exec env g []) as [_ F]. eapply Forall_impl; [|exact F]. intros a Ha _. exact Ha.
    + eapply Forall_impl; [|exact FQ]. intros [t v] (g' & Hg' & Ea) Et. cbn [fst] in Ea, Et |- *. subst t. unfold tnet in Et. cbn [fst] in Et.
      assert (g' = g) by (apply (NoDup_map_inj (fun g => fst (rg_rq g)) gs); auto). now subst.
  - intros i Hi. apply apply_nbas_other. eapply Forall_impl; [|exact FQ]. intros [t v] (g & Hg & Ea) Et. cbn [fst] in Ea, Et. subst t.
    apply Hi. apply in_map_iff. exists g. split; [|exact Hg]. exact Et.
Qed.
End Edge.
