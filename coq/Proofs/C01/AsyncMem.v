(* C01: AsynchronousMemory.  The hand-written Verilog body
     assign readdata = mem[read_address];   always @( * ) begin if (write) mem[write_address] = writedata; end
   (Model/C01Mem.v body_asyncmem_read / body_asyncmem_proc) under VSem's settle semantics against the REGENERATED
   AsynchronousMemory_propagate (Gen/Prims.v): one settle pass evaluates the continuous assignment (old words) and then the @* process
   (blocking word write); the second pass shows the written word on readdata; the third pass changes nothing. *)
From V Require Import Base.Bits Gen.WireOps Gen.Helpers Gen.Prims Gen.Seq Model.VSyntax Model.VSem Model.Inline Model.C01Mem
  Proofs.C01.InlineSound Proofs.C01.ComposeComb Proofs.C01.ComposeEdge Proofs.C01.MemSound.
From Coq Require Import PeanoNat Arith.

Lemma list_ext_getv (a b : list Z) : length a = length b -> (forall j, (j < length a)%nat -> getv a j = getv b j) -> a = b.
Proof. intros Hl Hg. apply (nth_ext _ _ 0 0); [exact Hl|]. intros j Hj. exact (Hg j Hj). Qed.

Lemma set_nth_idem {A} : forall (l : list A) i v, set_nth (set_nth l i v) i v = set_nth l i v.
Proof. induction l as [|x l IH]; intros [|i] v; cbn; auto. now rewrite IH. Qed.

Section Async.
Variables (base : nat) (w : Z) (d : nat) (rd ra wa we wd : nid).
Hypothesis Hw : 0 < w.
Hypothesis Hrdw : snd rd = w.
Hypothesis Hd : (0 < d)%nat.
Hypothesis Hlit : Z.of_nat d <= 2 ^ 31.
(* the five port nets are not words of the memory, and readdata is none of the inputs *)
Hypothesis Hrdn : ~ (base <= fst rd < base + d)%nat.
Hypothesis Hran : ~ (base <= fst ra < base + d)%nat.
Hypothesis Hwan : ~ (base <= fst wa < base + d)%nat.
Hypothesis Hwen : ~ (base <= fst we < base + d)%nat.
Hypothesis Hwdn : ~ (base <= fst wd < base + d)%nat.
Hypothesis Hrd_ra : fst rd <> fst ra.
Hypothesis Hrd_wa : fst rd <> fst wa.
Hypothesis Hrd_we : fst rd <> fst we.
Hypothesis Hrd_wd : fst rd <> fst wd.

Definition ainv (env : list Z) : Prop :=
  okn env rd /\ okn env ra /\ okn env wa /\ okn env we /\ okn env wd /\
  getv env (fst ra) < Z.of_nat d /\ getv env (fst wa) < Z.of_nat d /\
  (base + d <= length env)%nat /\ (fst rd < length env)%nat /\
  (forall j, (j < d)%nat -> 0 <= getv env (base + j) < 2 ^ w).

(* one settle pass, the input values fixed: z = write, ca / cb = the nets of the read / written word, v = the stored value *)
Definition apassG (z : Z) (ca cb : nat) (v : Z) (e : list Z) : list Z :=
  let e1 := set_nth e (fst rd) (getv e ca) in
  if z =? 0 then e1 else set_nth e1 cb v.
Definition apassF (env : list Z) : list Z :=
  apassG (getv env (fst we)) (base + Z.to_nat (getv env (fst ra))) (base + Z.to_nat (getv env (fst wa))) (trunc w (getv env (fst wd))) env.

Lemma apassG_length z ca cb v e : length (apassG z ca cb v e) = length e.
Proof. unfold apassG. cbv zeta. destruct (z =? 0); rewrite ?Settle.set_nth_length; reflexivity. Qed.

Lemma apassG_getv z ca cb v e j : (fst rd < length e)%nat -> (cb < length e)%nat -> cb <> fst rd ->
  getv (apassG z ca cb v e) j =
  if negb (z =? 0) && (j =? cb)%nat then v else if (j =? fst rd)%nat then getv e ca else getv e j.
Proof.
  intros Hr Hc Hne. unfold apassG. cbv zeta. destruct (z =? 0); cbn [negb andb].
  - destruct (Nat.eqb_spec j (fst rd)) as [->|Hj]; [now apply getv_set_nth_eq | now apply getv_set_nth_ne; auto].
  - destruct (Nat.eqb_spec j cb) as [->|Hjc].
    + apply getv_set_nth_eq. now rewrite Settle.set_nth_length.
    + rewrite getv_set_nth_ne by auto.
      destruct (Nat.eqb_spec j (fst rd)) as [->|Hj]; [now apply getv_set_nth_eq | now apply getv_set_nth_ne; auto].
Qed.

(* ---- one pass of the body is apassF *)
Lemma async_pass f env : f_assigns f = [body_asyncmem_read base w d rd ra] -> f_procs f = [(TStar, body_asyncmem_proc base w d wa we wd)] ->
  ainv env -> settle_pass f env = apassF env.
Proof.
  intros Hfa Hfp (Hrd & Hra & Hwa & Hwe & Hwd & Hrai & Hwai & Hlen & Hrl & Hcells).
  unfold settle_pass, run_star. rewrite Hfa, Hfp. cbn [fold_left fst snd].
  assert (E1 : do_assign env (body_asyncmem_read base w d rd ra) = set_nth env (fst rd) (getv env (base + Z.to_nat (getv env (fst ra))))).
  { unfold do_assign, body_asyncmem_read. cbn [fst snd].
    change (ltarget env (whole rd)) with (Some (fst rd, 0, snd rd)).
    rewrite (mem_read_assign env base w d rd (rid ra) (getv env (fst ra)) (idx_is_rid env ra Hra) Hw Hrdw Hd Hlit)
      by (try exact Hcells; destruct Hra as [_ ?]; lia).
    rewrite Hrdw. rewrite write_whole_eq by (try lia; destruct Hrd as [_ ?]; rewrite Hrdw in *; assumption).
    rewrite vtrunc_small; [reflexivity | lia |]. apply Hcells. destruct Hra as [_ ?]. lia. }
  rewrite E1. set (E := set_nth env (fst rd) (getv env (base + Z.to_nat (getv env (fst ra))))).
  destruct (okn_set_other env we (fst rd) (getv env (base + Z.to_nat (getv env (fst ra)))) Hwe Hrd_we) as [Hwe' Ewe]. fold E in Hwe', Ewe.
  destruct (okn_set_other env wa (fst rd) (getv env (base + Z.to_nat (getv env (fst ra)))) Hwa Hrd_wa) as [Hwa' Ewa]. fold E in Hwa', Ewa.
  destruct (okn_set_other env wd (fst rd) (getv env (base + Z.to_nat (getv env (fst ra)))) Hwd Hrd_wd) as [Hwd' Ewd]. fold E in Hwd', Ewd.
  assert (HcE : forall j, (j < d)%nat -> 0 <= getv E (base + j) < 2 ^ w).
  { intros j Hj. unfold E. rewrite getv_set_nth_ne by lia. now apply Hcells. }
  unfold body_asyncmem_proc. cbn [exec fst].
  assert (Ec : rself E (rid we) = getv E (fst we)) by (unfold rself; cbn [rid rsize rsigned]; fold (rid we); apply reval_rid; [exact Hwe' | lia]).
  rewrite Ec, Ewe. unfold apassF, apassG. cbv zeta. fold E.
  destruct (getv env (fst we) =? 0); [cbn [exec apply_nbas fold_left]; reflexivity|].
  rewrite (mem_write_blk base w wa wd ltac:(lia) d 0 E [] Hwa' ltac:(cbn [Nat.add]; lia) ltac:(lia))
    by (intros j Hj; apply HcE; lia).
  cbv zeta. rewrite Ewa.
  replace ((Z.of_nat 0 <=? getv env (fst wa)) && (getv env (fst wa) <? Z.of_nat (0 + d))) with true
    by (destruct Hwa as [_ ?]; cbn [Nat.add]; lia).
  cbn [apply_nbas fold_left].
  pose proof (port_write_value E base w d wa wd Hw Hd Hwd') as Pv. rewrite Ewa, Ewd in Pv. rewrite Pv. reflexivity.
Qed.

(* ---- the pass keeps the invariant and the input values *)
Lemma apassF_inv env : ainv env -> ainv (apassF env) /\ length (apassF env) = length env /\
  getv (apassF env) (fst ra) = getv env (fst ra) /\ getv (apassF env) (fst wa) = getv env (fst wa) /\
  getv (apassF env) (fst we) = getv env (fst we) /\ getv (apassF env) (fst wd) = getv env (fst wd) /\
  (forall j, ~ (base <= j < base + d)%nat -> j <> fst rd -> getv (apassF env) j = getv env j).
Proof.
  intros (Hrd & Hra & Hwa & Hwe & Hwd & Hrai & Hwai & Hlen & Hrl & Hcells).
  assert (Han : (Z.to_nat (getv env (fst ra)) < d)%nat) by (destruct Hra as [_ ?]; lia).
  assert (Hbn : (Z.to_nat (getv env (fst wa)) < d)%nat) by (destruct Hwa as [_ ?]; lia).
  assert (G : forall j, getv (apassF env) j =
     if negb (getv env (fst we) =? 0) && (j =? base + Z.to_nat (getv env (fst wa)))%nat then trunc w (getv env (fst wd))
     else if (j =? fst rd)%nat then getv env (base + Z.to_nat (getv env (fst ra))) else getv env j).
  { intros j. unfold apassF. apply apassG_getv; lia. }
  assert (Gin : forall n : nid, ~ (base <= fst n < base + d)%nat -> fst rd <> fst n -> getv (apassF env) (fst n) = getv env (fst n)).
  { intros n Hn Hne. rewrite G. destruct (Nat.eqb_spec (fst n) (base + Z.to_nat (getv env (fst wa)))) as [E|_]; [lia|].
    rewrite andb_false_r. destruct (Nat.eqb_spec (fst n) (fst rd)) as [E|_]; [congruence | reflexivity]. }
  pose proof (Gin ra Hran Hrd_ra) as Era. pose proof (Gin wa Hwan Hrd_wa) as Ewa.
  pose proof (Gin we Hwen Hrd_we) as Ewe. pose proof (Gin wd Hwdn Hrd_wd) as Ewd.
  assert (Hl : length (apassF env) = length env) by apply apassG_length.
  assert (Hc' : forall j, (j < d)%nat -> 0 <= getv (apassF env) (base + j) < 2 ^ w).
  { intros j Hj. rewrite G. destruct (negb (getv env (fst we) =? 0) && (base + j =? base + Z.to_nat (getv env (fst wa)))%nat).
    - apply trunc_range. lia.
    - destruct (Nat.eqb_spec (base + j) (fst rd)) as [E|_]; [lia | now apply Hcells]. }
  assert (Go : forall j, ~ (base <= j < base + d)%nat -> j <> fst rd -> getv (apassF env) j = getv env j).
  { intros j Hj Hne. rewrite G. destruct (Nat.eqb_spec j (base + Z.to_nat (getv env (fst wa)))) as [E|_]; [lia|].
    rewrite andb_false_r. destruct (Nat.eqb_spec j (fst rd)) as [E|_]; [congruence | reflexivity]. }
  split; [|repeat split; auto]. unfold ainv, okn. rewrite Era, Ewa, Ewe, Ewd, Hl.
  repeat split; try (apply Hra || apply Hwa || apply Hwe || apply Hwd || apply Hrd); try assumption.
  - rewrite G. destruct (Nat.eqb_spec (fst rd) (base + Z.to_nat (getv env (fst wa)))) as [E|_]; [lia|]. rewrite andb_false_r, Nat.eqb_refl.
    pose proof (Hcells _ Han). lia.
  - rewrite G. destruct (Nat.eqb_spec (fst rd) (base + Z.to_nat (getv env (fst wa)))) as [E|_]; [lia|]. rewrite andb_false_r, Nat.eqb_refl.
    rewrite Hrdw. apply Hcells. exact Han.
  - apply Hc'. assumption.
  - apply Hc'. assumption.
Qed.

(* ---- with fixed inputs the third pass repeats the second *)
Lemma apassG_fix z ca cb v e : (fst rd < length e)%nat -> (cb < length e)%nat -> cb <> fst rd -> ca <> fst rd ->
  apassG z ca cb v (apassG z ca cb v (apassG z ca cb v e)) = apassG z ca cb v (apassG z ca cb v e).
Proof.
  intros Hr Hc Hne Hna. apply list_ext_getv; [now rewrite !apassG_length|]. intros j _.
  rewrite !apassG_getv by (rewrite ?apassG_length; auto).
  destruct (negb (z =? 0)); cbn [andb].
  - destruct (Nat.eqb_spec j cb) as [->|Hjc]; [reflexivity|].
    destruct (Nat.eqb_spec j (fst rd)) as [->|Hj]; [|reflexivity].
    destruct (Nat.eqb_spec ca cb) as [->|Hab]; [reflexivity|].
    destruct (Nat.eqb_spec ca (fst rd)) as [E|_]; [congruence | reflexivity].
  - destruct (Nat.eqb_spec j (fst rd)) as [->|Hj]; [|reflexivity].
    destruct (Nat.eqb_spec ca (fst rd)) as [E|_]; [congruence | reflexivity].
Qed.

Lemma mem_cells_apassF env : ainv env ->
  mem_cells (apassF env) base d =
  (if getv env (fst we) =? 0 then mem_cells env base d
   else set_nth (mem_cells env base d) (Z.to_nat (getv env (fst wa))) (trunc w (getv env (fst wd)))).
Proof.
  intros (Hrd & Hra & Hwa & Hwe & Hwd & Hrai & Hwai & Hlen & Hrl & Hcells).
  unfold apassF, apassG. cbv zeta. destruct (getv env (fst we) =? 0).
  - now apply mem_cells_set_other.
  - rewrite mem_cells_set_cell; [now rewrite mem_cells_set_other | destruct Hwa as [_ ?]; lia |].
    rewrite Settle.set_nth_length. destruct Hwa as [_ ?]. lia.
Qed.

(* ---- settle: two passes reach the fixpoint, within VSem's fuel *)
Lemma async_settle f env : f_assigns f = [body_asyncmem_read base w d rd ra] -> f_procs f = [(TStar, body_asyncmem_proc base w d wa we wd)] ->
  ainv env ->
  settle f (settle_fuel f) env = (apassF (apassF env), true) /\ settle_pass f (apassF (apassF env)) = apassF (apassF env).
Proof.
  intros Hfa Hfp Hi.
  destruct (apassF_inv env Hi) as (Hi1 & Hl1 & Era1 & Ewa1 & Ewe1 & Ewd1 & Go1).
  destruct (apassF_inv _ Hi1) as (Hi2 & Hl2 & Era2 & Ewa2 & Ewe2 & Ewd2 & Go2).
  assert (P0 := async_pass f env Hfa Hfp Hi). assert (P1 := async_pass f _ Hfa Hfp Hi1). assert (P2 := async_pass f _ Hfa Hfp Hi2).
  assert (Fix : apassF (apassF (apassF env)) = apassF (apassF env)).
  { destruct Hi as (Hrd & Hra & Hwa & Hwe & Hwd & Hrai & Hwai & Hlen & Hrl & Hcells).
    set (z := getv env (fst we)) in *. set (ca := (base + Z.to_nat (getv env (fst ra)))%nat) in *.
    set (cb := (base + Z.to_nat (getv env (fst wa)))%nat) in *. set (v := trunc w (getv env (fst wd))) in *.
    assert (E1 : apassF env = apassG z ca cb v env) by reflexivity.
    assert (E2 : apassF (apassF env) = apassG z ca cb v (apassF env)) by (unfold apassF at 1; rewrite Era1, Ewa1, Ewe1, Ewd1; reflexivity).
    assert (E3 : apassF (apassF (apassF env)) = apassG z ca cb v (apassF (apassF env)))
      by (unfold apassF at 1; rewrite Era2, Ewa2, Ewe2, Ewd2, Era1, Ewa1, Ewe1, Ewd1; reflexivity).
    rewrite E3, E2, E1. apply apassG_fix; unfold ca, cb; destruct Hra as [_ ?]; destruct Hwa as [_ ?]; lia. }
  split; [|now rewrite P2].
  unfold settle_fuel. rewrite Hfa, Hfp. cbn [length Nat.add]. cbn [settle]. rewrite P0.
  destruct (list_eqb env (apassF env)) eqn:Q0.
  { apply vlist_eqb_eq in Q0. now rewrite <- !Q0. }
  rewrite P1. destruct (list_eqb (apassF env) (apassF (apassF env))) eqn:Q1.
  { apply vlist_eqb_eq in Q1. now rewrite <- Q1. }
  rewrite P2, Fix. assert (Q2 : list_eqb (apassF (apassF env)) (apassF (apassF env)) = true) by now apply vlist_eqb_eq.
  now rewrite Q2.
Qed.
End Async.

(* ------------------------------------------------------------------ against the regenerated propagate() *)
Theorem asyncmem_sound f env base aw w rd ra wa we wd st :
  let d := Z.to_nat (2 ^ aw) in
  f_assigns f = [body_asyncmem_read base w d rd ra] -> f_procs f = [(TStar, body_asyncmem_proc base w d wa we wd)] ->
  0 < w -> 0 < aw <= 31 -> snd rd = w -> snd ra = aw -> snd wa = aw ->
  okn env rd -> okn env ra -> okn env wa -> okn env we -> okn env wd ->
  (base + d <= length env)%nat -> (fst rd < length env)%nat ->
  ~ (base <= fst rd < base + d)%nat -> ~ (base <= fst ra < base + d)%nat -> ~ (base <= fst wa < base + d)%nat ->
  ~ (base <= fst we < base + d)%nat -> ~ (base <= fst wd < base + d)%nat ->
  fst rd <> fst ra -> fst rd <> fst wa -> fst rd <> fst we -> fst rd <> fst wd ->
  mem_cells env base d = map (trunc w) (AsynchronousMemory_s_data st) ->
  let '(st', o) := AsynchronousMemory_propagate w st (getv env (fst ra)) (getv env (fst wa)) (getv env (fst we)) (getv env (fst wd)) in
  exists env', settle f (settle_fuel f) env = (env', true) /\
    settle_pass f env' = env' /\
    length env' = length env /\
    mem_cells env' base d = map (trunc w) (AsynchronousMemory_s_data st') /\
    getv env' (fst rd) = o /\
    (forall j, ~ (base <= j < base + d)%nat -> j <> fst rd -> getv env' j = getv env j) /\
    AsynchronousMemory_propagate w st' (getv env' (fst ra)) (getv env' (fst wa)) (getv env' (fst we)) (getv env' (fst wd)) = (st', o).
Proof.
  intros d Hfa Hfp Hw Haw Hrdw Hraw Hwaw Hrd Hra Hwa Hwe Hwd Hlen Hrl Hrdn Hran Hwan Hwen Hwdn N1 N2 N3 N4 Hrel.
  destruct (addr_depth aw Haw) as (Hd & Hdz & Hlit). fold d in Hd, Hdz, Hlit.
  destruct (cells_in_range env base d w _ ltac:(lia) Hrel) as [Hdl Hcells].
  assert (Hrai : getv env (fst ra) < Z.of_nat d) by (destruct Hra as [_ ?]; rewrite Hraw in *; lia).
  assert (Hwai : getv env (fst wa) < Z.of_nat d) by (destruct Hwa as [_ ?]; rewrite Hwaw in *; lia).
  assert (Hi : ainv base w d rd ra wa we wd env) by (unfold ainv; repeat split; try assumption; try apply Hrd; try apply Hra; try apply Hwa; try apply Hwe; try apply Hwd; apply Hcells; assumption).
  destruct (async_settle base w d rd ra wa we wd) with (f := f) (env := env) as [S1 S2]; try assumption.
  destruct (apassF_inv base w d rd ra wa we wd) with (env := env) as (Hi1 & Hl1 & Era1 & Ewa1 & Ewe1 & Ewd1 & Go1); try assumption.
  destruct (apassF_inv base w d rd ra wa we wd) with (env := apassF base w rd ra wa we wd env) as (Hi2 & Hl2 & Era2 & Ewa2 & Ewe2 & Ewd2 & Go2); try assumption.
  set (F := apassF base w rd ra wa we wd) in *.
  assert (C : forall e, ainv base w d rd ra wa we wd e -> mem_cells (F e) base d =
     (if getv e (fst we) =? 0 then mem_cells e base d
      else set_nth (mem_cells e base d) (Z.to_nat (getv e (fst wa))) (trunc w (getv e (fst wd)))))
    by (intros e He; apply mem_cells_apassF; assumption).
  assert (C1 := C env Hi). assert (C2 := C _ Hi1). clear C.
  rewrite Ewe1, Ewa1, Ewd1 in C2.
  set (a := getv env (fst ra)) in *. set (b := getv env (fst wa)) in *. set (z := getv env (fst we)) in *. set (v := getv env (fst wd)) in *.
  (* the simulator's new contents, as words *)
  set (data := AsynchronousMemory_s_data st) in *.
  set (data' := if py_truth z then setZ data b v else data).
  assert (Hb0 : 0 <= b) by (destruct Hwa as [_ ?]; unfold b; lia).
  assert (Ha0 : 0 <= a) by (destruct Hra as [_ ?]; unfold a; lia).
  assert (D1 : mem_cells (F env) base d = map (trunc w) data').
  { rewrite C1, Hrel. unfold data', py_truth. destruct (z =? 0); cbn [negb]; [reflexivity|].
    unfold setZ. destruct (Z.ltb_spec b 0); [lia|]. now rewrite map_set_nth. }
  assert (D2 : mem_cells (F (F env)) base d = map (trunc w) data').
  { rewrite C2, D1. destruct (z =? 0) eqn:Ez; [reflexivity|].
    unfold data', py_truth. rewrite Ez. cbn [negb]. unfold setZ. destruct (Z.ltb_spec b 0); [lia|]. rewrite map_set_nth. apply set_nth_idem. }
  assert (Ho : getv (F (F env)) (fst rd) = Wire_put w (getZ data' a)).
  { unfold F at 1. unfold apassF. fold F. rewrite Era1, Ewa1. fold a b.
    assert (Hbn : (Z.to_nat b < d)%nat) by lia. assert (Han : (Z.to_nat a < d)%nat) by lia.
    rewrite (apassG_getv rd) by (rewrite ?Hl1; lia). rewrite Nat.eqb_refl.
    destruct (Nat.eqb_spec (fst rd) (base + Z.to_nat b)) as [E|_]; [lia|]. rewrite andb_false_r.
    rewrite <- (nth_mem_cells (F env) base d (Z.to_nat a) Han), D1, nth_map_trunc. reflexivity. }
  assert (Prop1 : AsynchronousMemory_propagate w st a b z v = ({| AsynchronousMemory_s_data := data' |}, Wire_put w (getZ data' a))).
  { unfold AsynchronousMemory_propagate. cbv zeta. fold data. unfold data'. destruct (py_truth z); reflexivity. }
  rewrite Prop1. exists (F (F env)).
  split; [exact S1|]. split; [exact S2|]. split; [now rewrite Hl2, Hl1|]. split; [exact D2|]. split; [exact Ho|]. split.
  - intros j Hj Hne. rewrite Go2, Go1 by assumption. reflexivity.
  - rewrite Era2, Ewa2, Ewe2, Ewd2, Era1, Ewa1, Ewe1, Ewd1. fold a b z v.
    unfold AsynchronousMemory_propagate. cbv zeta. cbn [AsynchronousMemory_s_data].
    assert (Idem : (if py_truth z then setZ data' b v else data') = data').
    { unfold data'. destruct (py_truth z); [|reflexivity]. unfold setZ. destruct (Z.ltb_spec b 0); [lia|]. apply set_nth_idem. }
    rewrite Idem. reflexivity.
Qed.

(* ------------------------------------------------------------------ non-vacuity: a 2-word 3-bit AsynchronousMemory (nets ra wa we wd rd, words 5 6) holding [5; 2];
   write 7 to word 1 while reading word 1: readdata shows 7 (write-through), as propagate() computes *)
Local Open Scope string_scope.
Definition ex_async_flat : flat :=
  {| f_nets := [mk_net "ra" 1 false 0 false; mk_net "wa" 1 false 0 false; mk_net "we" 1 false 0 false; mk_net "wd" 3 false 0 false;
                mk_net "rd" 3 false 0 false; mk_net "i_x.mem[]" 3 false 0 true; mk_net "i_x.mem[]" 3 false 0 true];
     f_assigns := [body_asyncmem_read 5 3 2 (4%nat, 3) (0%nat, 1)];
     f_procs := [(TStar, body_asyncmem_proc 5 3 2 (1%nat, 1) (2%nat, 1) (3%nat, 3))] |}.

Lemma asyncmem_example :
  let env := [1; 1; 1; 7; 0; 5; 2] in
  match_asyncmem ex_async_flat 5 3 2 (4%nat, 3) (0%nat, 1) (1%nat, 1) (2%nat, 1) (3%nat, 3) = true /\
  mem_cells env 5 2 = map (trunc 3) [5; 2] /\
  settle ex_async_flat (settle_fuel ex_async_flat) env = ([1; 1; 1; 7; 7; 5; 7], true) /\
  settle_pass ex_async_flat env = [1; 1; 1; 7; 2; 5; 7] /\
  AsynchronousMemory_propagate 3 {| AsynchronousMemory_s_data := [5; 2] |} 1 1 1 7 = ({| AsynchronousMemory_s_data := [5; 7] |}, 7).
Proof. cbv zeta. repeat split; vm_compute; reflexivity. Qed.
