(* C01 composition with memories, step 2: the clock edge of the flat design whose posedge processes are the bodies of the listed
   sequential instances (registers and memories, any order, duplicates harmless): every private net takes the value its own
   instance's queue gives it, every other net is unchanged. *)
From V Require Import Base.Bits Gen.WireOps Gen.Helpers Gen.Prims Gen.Seq Model.VSyntax Model.VSem Model.Inline Model.SimKernel
  Model.C01Prim Model.C01Mem Model.C01Seq Proofs.C01.InlineSound Proofs.C01.ComposeComb Proofs.C01.ComposeKernel Proofs.C01.ComposeEdge Proofs.C01.ComposeSeq Proofs.C01.SeqG1.
From Coq Require Import PeanoNat Arith.

Lemma rstmt_eqb_eq : forall a b, rstmt_eqb a b = true -> a = b.
Proof.
  induction a; destruct b; cbn [rstmt_eqb]; try discriminate; intros H; auto;
    repeat (apply andb_prop in H; let H' := fresh "Hb" in destruct H as [H H']);
    repeat match goal with
           | H : rexpr_eqb _ _ = true |- _ => apply rexpr_eqb_eq in H
           | H : rlval_eqb _ _ = true |- _ => apply rlval_eqb_eq in H
           | IH : forall b, rstmt_eqb ?a b = true -> ?a = b, H : rstmt_eqb ?a _ = true |- _ => apply IH in H
           end; subst; reflexivity.
Qed.

Lemma NoDup_flat_map_disjoint {A} (g : A -> list nat) : forall l x y p,
  NoDup (flat_map g l) -> In x l -> In y l -> In p (g x) -> In p (g y) -> x = y.
Proof.
  induction l as [|z l IH]; intros x y p Hnd Hx Hy Hpx Hpy; [destruct Hx|]. cbn [flat_map] in Hnd.
  destruct Hx as [->|Hx], Hy as [->|Hy]; auto.
  - exfalso. apply (Settle.NoDup_app_disjoint _ _ p Hnd Hpx). apply in_flat_map. eauto.
  - exfalso. apply (Settle.NoDup_app_disjoint _ _ p Hnd Hpy). apply in_flat_map. eauto.
  - apply (IH x y p); auto. exact (ComposeKernel.NoDup_app_r _ _ Hnd).
Qed.

Lemma NoDup_flat_map_each {A} (g : A -> list nat) : forall l x, NoDup (flat_map g l) -> In x l -> NoDup (g x).
Proof.
  induction l as [|z l IH]; intros x Hnd Hx; [destruct Hx|]. cbn [flat_map] in Hnd. destruct Hx as [->|Hx].
  - exact (ComposeSeq.NoDup_app_l _ _ Hnd).
  - apply IH; auto. exact (ComposeKernel.NoDup_app_r _ _ Hnd).
Qed.

Section Edge.
Variable f : flat.
Variable gs : list sinst.
Variable clk : nat.
Hypothesis Hprocs : sprocs_match clk (f_procs f) gs = true.
Hypothesis Hpriv : NoDup (flat_map si_priv gs).
Hypothesis Hok : forall s, In s gs -> si_ok f s.

Lemma sproc_eqb_spec p s : sproc_eqb clk p s = true -> p = (TPos clk, si_proc s).
Proof.
  unfold sproc_eqb. destruct p as [t b]. cbn [fst snd]. destruct t; try discriminate.
  intros H. apply andb_prop in H. destruct H as [H1 H2]. apply Nat.eqb_eq in H1. apply rstmt_eqb_eq in H2. now subst.
Qed.

Lemma sprocs_parts :
  (forall p, In p (f_procs f) -> exists s, In s gs /\ p = (TPos clk, si_proc s)) /\
  (forall s, In s gs -> In (TPos clk, si_proc s) (f_procs f)).
Proof.
  unfold sprocs_match in Hprocs. apply andb_prop in Hprocs. destruct Hprocs as [H1 H2]. split.
  - intros p Hp. rewrite forallb_forall in H1. specialize (H1 p Hp). apply existsb_exists in H1.
    destruct H1 as (s & Hs & E). exists s. split; [exact Hs | now apply sproc_eqb_spec].
  - intros s Hs. rewrite forallb_forall in H2. specialize (H2 s Hs). apply existsb_exists in H2.
    destruct H2 as (p & Hp & E). apply sproc_eqb_spec in E. now subst.
Qed.

Lemma same_inst s s' p : In s gs -> In s' gs -> In p (si_priv s) -> In p (si_priv s') -> s = s'.
Proof. intros. eapply (NoDup_flat_map_disjoint si_priv gs); eauto. Qed.

Section Env.
Variable env : list Z.
Hypothesis He : env_ok f env.

Lemma qof_targets s : In s gs ->
  (forall Q, exec (si_proc s) (env, Q) = (env, Q ++ si_qof env s)) /\
  Forall (fun e => exists x, In (tnet (fst e)) (si_priv s) /\ nth_error (f_nets f) (tnet (fst e)) = Some x /\
                             fst e = (tnet (fst e), 0, fn_width x)) (si_qof env s).
Proof. intros Hs. exact (si_exec f env s He (Hok s Hs) (NoDup_flat_map_each si_priv gs s Hpriv Hs)). Qed.

Lemma qof_other s p : In s gs -> ~ In p (si_priv s) -> lastw p (si_qof env s) = None.
Proof.
  intros Hs Hp. apply lastw_none. destruct (qof_targets s Hs) as [_ F]. eapply Forall_impl; [|exact F].
  intros e (x & Hin & _) E. apply Hp. now rewrite <- E.
Qed.

Lemma sedge_queue : forall procs Q0, (forall p, In p procs -> exists s, In s gs /\ p = (TPos clk, si_proc s)) ->
  exists Q, edge_fold clk env procs (env, Q0) = (env, Q0 ++ Q) /\
            Forall (fun e => exists s x, In s gs /\ In (tnet (fst e)) (si_priv s) /\ nth_error (f_nets f) (tnet (fst e)) = Some x /\
                                         fst e = (tnet (fst e), 0, fn_width x)) Q /\
            forall s p, In s gs -> In p (si_priv s) ->
              (In (TPos clk, si_proc s) procs /\ lastw p Q = lastw p (si_qof env s)) \/
              (~ In (TPos clk, si_proc s) procs /\ lastw p Q = None).
Proof.
  induction procs as [|p0 procs IH]; intros Q0 Hall.
  - exists []. split; [cbn; now rewrite app_nil_r|]. split; [constructor|]. intros s p Hs Hp. right. split; auto.
  - destruct (Hall p0 (or_introl eq_refl)) as (s0 & Hs0 & ->).
    unfold edge_fold. cbn [fold_left fst snd]. rewrite Nat.eqb_refl.
    destruct (qof_targets s0 Hs0) as [Ex F0]. rewrite Ex.
    destruct (IH (Q0 ++ si_qof env s0) (fun p Hp => Hall p (or_intror Hp))) as (Q & EQ & FQ & HQ).
    exists (si_qof env s0 ++ Q). split; [unfold edge_fold in EQ; rewrite EQ; now rewrite app_assoc|]. split.
    + apply Forall_app. split; [|exact FQ]. eapply Forall_impl; [|exact F0]. intros e (x & Hin & Hx & Ee). exists s0, x. auto.
    + intros s p Hs Hp. rewrite lastw_app.
      destruct (in_dec Nat.eq_dec p (si_priv s0)) as [Hin0|Hnot0].
      * assert (s0 = s) by (apply (same_inst s0 s p); auto). subst s0.
        destruct (HQ s p Hs Hp) as [[Hin El]|[Hnot El]]; rewrite El.
        -- left. split; [now right|]. destruct (lastw p (si_qof env s)); reflexivity.
        -- left. split; [now left | reflexivity].
      * rewrite (qof_other s0 p Hs0 Hnot0).
        destruct (HQ s p Hs Hp) as [[Hin El]|[Hnot El]]; rewrite El.
        -- left. split; [now right|]. destruct (lastw p (si_qof env s)); reflexivity.
        -- right. split; [|reflexivity]. intros [E|Hin]; [|contradiction].
           assert (Hsrc : fst (si_src s0) = fst (si_src s)) by (apply si_proc_src; congruence).
           assert (s0 = s) by (apply (same_inst s0 s (fst (si_src s))); auto; [rewrite <- Hsrc|]; now left).
           subst s0. contradiction.
Qed.

(* the edge: every private net takes the value of its own instance's queue, every other net keeps its value *)
Theorem sedge_values :
  length (edge f clk env) = length env /\
  (forall s p, In s gs -> In p (si_priv s) -> getv (edge f clk env) p = getv (apply_nbas env (si_qof env s)) p) /\
  (forall i, ~ In i (flat_map si_priv gs) -> getv (edge f clk env) i = getv env i).
Proof.
  destruct sprocs_parts as [Hall Hhas].
  destruct (sedge_queue (f_procs f) [] Hall) as (Q & EQ & FQ & HQ).
  unfold edge. fold (edge_fold clk env (f_procs f) (env, [])). rewrite EQ. cbn [app].
  split; [apply apply_nbas_length|]. split.
  - intros s p Hs Hp.
    assert (Hlast : lastw p Q = lastw p (si_qof env s)).
    { destruct (HQ s p Hs Hp) as [[_ E]|[Hnot _]]; [exact E|]. exfalso. apply Hnot. now apply Hhas. }
    destruct (in_dec Nat.eq_dec p (map (fun e => tnet (fst e)) (si_qof env s))) as [Hin|Hnin].
    + (* the instance writes p: p is a net of known width *)
      apply in_map_iff in Hin. destruct Hin as (e0 & Ee0 & He0). destruct (qof_targets s Hs) as [_ F].
      rewrite Forall_forall in F. destruct (F e0 He0) as (x & _ & Hx & _). rewrite Ee0 in Hx.
      assert (Hw : 0 <= fn_width x) by (destruct He as [_ Hr]; pose proof (Hr p x Hx); destruct (Z.ltb_spec (fn_width x) 0); [|lia];
                                          rewrite (Z.pow_neg_r 2 (fn_width x)) in *; lia).
      assert (Hpl : (p < length env)%nat) by (rewrite (proj1 He); apply nth_error_Some; congruence).
      rewrite (apply_nbas_at p (fn_width x) Hw Q env Hpl (proj2 He p x Hx)).
      * rewrite (apply_nbas_at p (fn_width x) Hw (si_qof env s) env Hpl (proj2 He p x Hx)); [now rewrite Hlast|].
        apply Forall_forall. intros e Hin Et. destruct (F e Hin) as (x' & _ & Hx' & Ee). rewrite Et in Hx', Ee. assert (x' = x) by congruence. now subst.
      * eapply Forall_impl; [|exact FQ]. intros e (s' & x' & _ & _ & Hx' & Ee) Et. rewrite Et in Hx', Ee. assert (x' = x) by congruence. now subst.
    + (* the instance does not write p this edge: nobody does *)
      assert (Hn : lastw p (si_qof env s) = None).
      { apply lastw_none. apply Forall_forall. intros e Hin E. apply Hnin. apply in_map_iff. eauto. }
      rewrite (apply_nbas_other p (si_qof env s)) by (apply Forall_forall; intros e Hin E; apply Hnin; apply in_map_iff; eauto).
      rewrite Hn in Hlast. clear HQ Hn.
      (* no entry of Q targets p either: an entry targeting p is the last write unless a later one is *)
      assert (Hnone : forall q, lastw p q = None -> Forall (fun e => tnet (fst e) <> p) q).
      { induction q as [|e q IHq]; intros Hl; [constructor|]. cbn [lastw] in Hl. destruct (lastw p q) eqn:El; [discriminate|].
        destruct (Nat.eqb_spec (tnet (fst e)) p); [discriminate|]. constructor; auto. }
      now apply apply_nbas_other, Hnone.
  - intros i Hi. apply apply_nbas_other. eapply Forall_impl; [|exact FQ]. intros e (s & x & Hs & Hin & _) Et.
    apply Hi. apply in_flat_map. exists s. split; [exact Hs|]. now rewrite <- Et.
Qed.
End Env.
End Edge.
