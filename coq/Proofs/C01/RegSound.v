(* C01: BodyReg's process (one posedge) simulates the regenerated Reg.clock for every input, 1-bit enable. *)
From V Require Import Base.Bits Gen.WireOps Gen.Helpers Gen.Prims Gen.Seq Model.VSyntax Model.VSem Model.Inline Proofs.C01.InlineSound.

Lemma getv_set_nth env i x : (i < length env)%nat -> getv (set_nth env i x) i = x.
Proof.
  unfold getv. revert i; induction env as [|y t IH]; intros [|i] H; cbn in *; try lia; auto. apply IH; lia.
Qed.

Lemma write_whole env i w v : (i < length env)%nat -> 0 < w -> 0 <= getv env i < 2 ^ w ->
  getv (write env (i, 0, w) v) i = vtrunc w v.
Proof.
  intros Hi Hw Hv. unfold write. rewrite getv_set_nth by exact Hi.
  rewrite !Z.shiftl_0_r, Z.shiftr_0_r. rewrite (vtrunc_small w (getv env i)) by lia. lia.
Qed.

Section Reg.
Variable env : list Z.
Notation val n := (getv env (fst n)).

Definition opt_ok (o : option nid) : Prop := match o with Some n => okn env n | None => True end.
Definition opt_val (o : option nid) : Z := match o with Some n => val n | None => 0 end.
Definition is_some {A} (o : option A) : bool := match o with Some _ => true | None => false end.

(* comparison of an unsigned net with the literal 1 *)
Lemma eq_one n : okn env n -> rself env (RBin BEq (rid n) (RNum 1)) = b2z (val n =? 1).
Proof.
  intros [Hw Hv]. unfold rself. cbn [rsize rsigned arith_op shift_op reval rid andb].
  set (cw := Z.max (snd n) 32). assert (Hc : snd n <= cw /\ 32 <= cw) by lia.
  cbn [extend].
  assert (Hv' : 0 <= getv env (fst n) < 2 ^ cw) by (eapply small_in_wider; [|exact Hv]; lia).
  assert (H1 : 0 <= 1 < 2 ^ cw).
  { split; [lia|]. apply Z.lt_le_trans with (2 ^ 32); [lia|]. apply pow2_le; lia. }
  rewrite (vtrunc_small cw (getv env (fst n))) by lia.
  rewrite (vtrunc_small 32 1) by lia. rewrite (vtrunc_small cw 1) by lia.
  apply vtrunc_small; [lia|]. destruct (val n =? 1); cbn; lia.
Qed.

(* comparison of an unsigned net with the literal 0 *)
Lemma ne_zero n : okn env n -> rself env (RBin BNe (rid n) (RNum 0)) = b2z (negb (val n =? 0)).
Proof.
  intros [Hw Hv]. unfold rself. cbn [rsize rsigned arith_op shift_op reval rid andb].
  set (cw := Z.max (snd n) 32). assert (Hc : snd n <= cw /\ 32 <= cw) by lia.
  cbn [extend].
  assert (Hv' : 0 <= getv env (fst n) < 2 ^ cw) by (eapply small_in_wider; [|exact Hv]; lia).
  assert (H0 : 0 <= 0 < 2 ^ cw) by (split; [lia | apply pow2_pos; lia]).
  rewrite (vtrunc_small cw (getv env (fst n))) by lia.
  rewrite (vtrunc_small 32 0) by lia. rewrite (vtrunc_small cw 0) by lia.
  apply vtrunc_small; [lia|]. destruct (val n =? 0); cbn; lia.
Qed.

Theorem body_reg_sound rq d e r rv st :
  (fst rq < length env)%nat -> okn env rq -> okn env d -> opt_ok e -> opt_ok r ->
  - 2 ^ 31 < rv < 2 ^ 31 ->
  let '(env1, q) := exec (body_reg_proc rq d e r rv) (env, []) in
  let '(st', qsim) := Reg_clock (snd rq) (is_some e) (is_some r) rv st (val d) (opt_val e) (opt_val r) in
  env1 = env /\
  getv (apply_nbas env1 q) (fst rq) = (if (b2z (opt_val r =? 1) =? 1) && is_some r then qsim
                                        else if negb (is_some e) || negb (opt_val e =? 0) then qsim
                                        else val rq) /\
  (* and the simulator's q output in the hold case re-prepares the unchanged stored value *)
  qsim = trunc (snd rq) (Reg_s_value st').
Proof.
  intros Hi Hq Hd He Hr Hrv.
  assert (Hload : forall l, l = whole rq ->
            getv (apply_nbas env [((fst rq, 0, snd rq), assign_value env l (rid d))]) (fst rq) = trunc (snd rq) (val d)).
  { intros l ->. cbn [apply_nbas fold_left fst snd]. destruct Hq as [Hwq Hvq]. rewrite write_whole by auto.
    unfold assign_value. cbn [lwidth whole rid rsize rsigned]. fold (rid d).
    rewrite reval_rid by (auto; lia). rewrite !vtrunc_vtrunc_le by lia. apply vtrunc_trunc; lia. }
  assert (Hrst : getv (apply_nbas env [((fst rq, 0, snd rq), assign_value env (whole rq) (pynum rv))]) (fst rq) = trunc (snd rq) rv).
  { cbn [apply_nbas fold_left fst snd]. destruct Hq as [Hwq Hvq]. rewrite write_whole by auto.
    destruct (inl_constant_sound env (fst rq, snd rq) rv ltac:(cbn; lia) Hrv _ _ eq_refl) as [_ Hc].
    cbn [inl_constant snd fst] in Hc.
    (* the literal's value does not depend on the shape of the l-value, only on its width *)
    unfold assign_value in *. cbn [lwidth whole fst snd] in *.
    destruct (1 <? snd rq) eqn:E; cbn [lwidth whole fst snd] in Hc.
    - replace (snd rq - 1 - 0 + 1) with (snd rq) in Hc by lia. rewrite Hc.
      rewrite vtrunc_small by (try lia; unfold Constant_propagate; rewrite put_trunc; apply trunc_range; lia). reflexivity.
    - rewrite Hc. rewrite vtrunc_small by (try lia; unfold Constant_propagate; rewrite put_trunc; apply trunc_range; lia). reflexivity. }
  unfold body_reg_proc, Reg_clock. cbv zeta.
  destruct r as [r'|]; destruct e as [e'|]; cbn [is_some opt_val negb orb andb exec fst snd ltarget whole] in *.
  - rewrite eq_one by exact Hr. destruct (Z.eqb_spec (val r') 1) as [H1|H1]; cbn [b2z Z.eqb exec fst snd ltarget whole].
    + split; [reflexivity|]. rewrite app_nil_l. unfold py_truth; cbn [Z.eqb negb]. rewrite Wire_prepare_is_trunc.
      split; [exact Hrst | reflexivity].
    + rewrite ne_zero by exact He. unfold py_truth. rewrite Wire_prepare_is_trunc.
      destruct (Z.eqb_spec (val e') 0) as [E0|Hne]; cbn [Z.eqb b2z negb exec fst snd ltarget whole apply_nbas fold_left app].
      * split; [reflexivity|]. split; reflexivity.
      * split; [reflexivity|]. split; [apply Hload; reflexivity | reflexivity].
  - rewrite eq_one by exact Hr. destruct (Z.eqb_spec (val r') 1) as [H1|H1]; cbn [b2z Z.eqb exec fst snd ltarget whole].
    + split; [reflexivity|]. rewrite app_nil_l. unfold py_truth; cbn [Z.eqb negb]. rewrite Wire_prepare_is_trunc.
      split; [exact Hrst | reflexivity].
    + split; [reflexivity|]. rewrite app_nil_l. unfold py_truth; cbn [Z.eqb negb]. rewrite Wire_prepare_is_trunc.
      split; [apply Hload; reflexivity | reflexivity].
  - rewrite ne_zero by exact He. unfold py_truth. rewrite Wire_prepare_is_trunc.
    destruct (Z.eqb_spec (val e') 0) as [E0|Hne]; cbn [Z.eqb b2z negb exec fst snd ltarget whole apply_nbas fold_left app].
    * split; [reflexivity|]. split; reflexivity.
    * split; [reflexivity|]. split; [apply Hload; reflexivity | reflexivity].
  - split; [reflexivity|]. rewrite app_nil_l. unfold py_truth; cbn [Z.eqb negb]. rewrite Wire_prepare_is_trunc.
    split; [apply Hload; reflexivity | reflexivity].
Qed.
End Reg.

(* ---------------- whole histories: a 4-net environment [rq; d; e; r] driven by arbitrary input sequences *)
Definition opt_nid (present : bool) (i : nat) (w : Z) : option nid := if present then Some (i, w) else None.

Definition vreg_next (w wd we wr : Z) (has_e has_r : bool) (rv : Z) (rqv : Z) (inp : Z * Z * Z) : Z :=
  let '(d, e, r) := inp in
  let env := [rqv; d; e; r] in
  let '(env1, q) := exec (body_reg_proc (0%nat, w) (1%nat, wd) (opt_nid has_e 2 we) (opt_nid has_r 3 wr) rv) (env, []) in
  getv (apply_nbas env1 q) 0.

Fixpoint vreg_traj w wd we wr has_e has_r rv (rqv : Z) (ins : list (Z * Z * Z)) : list Z :=
  match ins with [] => [] | i :: t => let n := vreg_next w wd we wr has_e has_r rv rqv i in n :: vreg_traj w wd we wr has_e has_r rv n t end.

Fixpoint sreg_traj w (has_e has_r : bool) rv (st : Reg_state) (ins : list (Z * Z * Z)) : list Z :=
  match ins with
  | [] => []
  | (d, e, r) :: t => let '(st', q) := Reg_clock w has_e has_r rv st d (if has_e then e else 0) (if has_r then r else 0) in
                      q :: sreg_traj w has_e has_r rv st' t
  end.

Definition in_ok (wd we wr : Z) (i : Z * Z * Z) : Prop :=
  let '(d, e, r) := i in 0 <= d < 2 ^ wd /\ 0 <= e < 2 ^ we /\ 0 <= r < 2 ^ wr.

Theorem reg_history w wd we wr has_e has_r rv ins st rqv :
  0 < w -> 0 < wd -> 0 < we -> 0 < wr -> - 2 ^ 31 < rv < 2 ^ 31 -> Forall (in_ok wd we wr) ins ->
  rqv = trunc w (Reg_s_value st) ->
  vreg_traj w wd we wr has_e has_r rv rqv ins = sreg_traj w has_e has_r rv st ins.
Proof.
  intros Hw Hwd Hwe Hwr Hrv Hins. revert st rqv. induction Hins as [|[[d e] r] ins Hi Hins IH]; intros st rqv Hinv; [reflexivity|].
  cbn [vreg_traj sreg_traj]. destruct Hi as (Hd & He & Hr).
  assert (Hrq : 0 <= rqv < 2 ^ w) by (subst rqv; apply trunc_range; lia).
  pose proof (body_reg_sound [rqv; d; e; r] (0%nat, w) (1%nat, wd) (opt_nid has_e 2 we) (opt_nid has_r 3 wr) rv st) as B.
  cbn [fst snd length] in B.
  assert (Hoe : opt_ok [rqv; d; e; r] (opt_nid has_e 2 we)).
  { destruct has_e; cbn; auto. unfold okn; cbn. lia. }
  assert (Hor : opt_ok [rqv; d; e; r] (opt_nid has_r 3 wr)).
  { destruct has_r; cbn; auto. unfold okn; cbn. lia. }
  specialize (B ltac:(lia) ltac:(unfold okn; cbn; lia) ltac:(unfold okn; cbn; lia) Hoe Hor Hrv).
  unfold vreg_next.
  destruct (exec _ _) as [env1 q] eqn:Ex.
  replace (is_some (opt_nid has_e 2 we)) with has_e in B by (destruct has_e; reflexivity).
  replace (is_some (opt_nid has_r 3 wr)) with has_r in B by (destruct has_r; reflexivity).
  replace (opt_val [rqv; d; e; r] (opt_nid has_e 2 we)) with (if has_e then e else 0) in B by (destruct has_e; reflexivity).
  replace (opt_val [rqv; d; e; r] (opt_nid has_r 3 wr)) with (if has_r then r else 0) in B by (destruct has_r; reflexivity).
  change (getv [rqv; d; e; r] 1) with d in B. change (getv [rqv; d; e; r] 0) with rqv in B.
  destruct (Reg_clock w has_e has_r rv st d _ _) as [st' qsim] eqn:Ec.
  destruct B as (_ & Hnew & Hq).
  assert (Hstep : getv (apply_nbas env1 q) 0 = qsim).
  { rewrite Hnew.
    destruct ((b2z ((if has_r then r else 0) =? 1) =? 1) && has_r) eqn:E1; [reflexivity|].
    destruct (negb has_e || negb ((if has_e then e else 0) =? 0)) eqn:E2; [reflexivity|].
    (* hold: the simulator re-prepares the stored value, which is what rq already shows *)
    rewrite Hq, Hinv. f_equal.
    destruct has_e; cbn [negb orb] in E2; [|discriminate].
    assert (He0 : e = 0) by (destruct (Z.eqb_spec e 0); [assumption | discriminate]). subst e.
    unfold Reg_clock in Ec. cbv zeta in Ec. unfold py_truth in Ec. cbn [negb Z.eqb] in Ec.
    destruct has_r; cbn [negb andb] in *.
    - assert (Hr1 : (r =? 1) = false) by (destruct (r =? 1); [discriminate | reflexivity]).
      rewrite Hr1 in Ec. cbn [Z.eqb negb] in Ec. inversion Ec; reflexivity.
    - cbn [Z.eqb negb] in Ec. inversion Ec; reflexivity. }
  rewrite Hstep. f_equal. apply IH. exact Hq.
Qed.
