(* C18 — concrete layouts dumped from the REAL Schematic(obj) (py/props/c18_dump.py), used as non-vacuity / rejection
   examples in Properties/C18.v.  The comments list the symbols and nets (with the end points of their polylines) of each layout.
   Regenerated for the pin-geometry extension of the model on /repo 453c72d; ex_selfloop_l is the layout built before ead5329. *)
From Coq Require Import List ZArith Bool Arith.
Import ListNotations.
From V Require Import Model.Schem Spec.C18 Proofs.C18.Sound Proofs.C18.Complete.

(* ex_selfloop (layout built BEFORE /repo commit ead5329) : children ['Reg:r'] ; swallowed ['WARNING: error in passthrough: AssertionError'] *)
(*   sym 0 KIn d for=('in', 0) cell=(0, 0) *)
(*   sym 1 KPass pt2 for=None cell=(1, 0) *)
(*   sym 2 KInst r for=('ch', 0) cell=(0, 1) *)
(*   sym 3 KPass pt1 for=None cell=(1, 1) *)
(*   sym 4 KOut q for=('out', 0) cell=(0, 2) *)
(*   sym 5 KFbStart fA0 for=None cell=(1, 2) *)
(*   net 0 w0 /HWSystem[HWSystem][d]: d.d -> r.d   (15, 28) -> (60, 36) *)
(*   net 1 w1 /HWSystem[HWSystem][q]: r.q -> q.q   (125, 36) -> (155, 28) *)
(*   net 2 w1 /HWSystem[HWSystem][q]: r.q -> fA0.None   (125, 36) -> (140, 120) *)
(*   net 3 w1 /HWSystem[HWSystem][q]: pt1.None -> fA0.None   (80, 120) -> (140, 120) *)
(*   net 4 w1 /HWSystem[HWSystem][q]: pt2.None -> pt1.None   (20, 120) -> (60, 120) *)
Definition ex_selfloop_c : circuit :=
  (Circ 1 1 [(2, 1)] [WC 0 (Pin (EIn 0) true 0) [(Pin (EChild 0) false 0)]; WC 1 (Pin (EChild 0) true 0) [(Pin (EChild 0) false 1); (Pin (EOut 0) false 0)]]).
Definition ex_selfloop_l : layout :=
  (Lay [Sym 0 KIn (Some (EIn 0)) 0%Z 0%Z 0%Z 15%Z 15%Z 20%Z; Sym 1 KPass None 1%Z 0%Z 0%Z 110%Z 20%Z 20%Z; Sym 2 KInst (Some (EChild 0)) 0%Z 1%Z 60%Z 15%Z 65%Z 80%Z; Sym 3 KPass None 1%Z 1%Z 60%Z 110%Z 20%Z 20%Z; Sym 4 KOut (Some (EOut 0)) 0%Z 2%Z 155%Z 15%Z 15%Z 20%Z; Sym 5 KFbStart None 1%Z 2%Z 155%Z 110%Z 20%Z 20%Z] [Net 0 (End 0 (Some (Pin (EIn 0) true 0))) (End 2 (Some (Pin (EChild 0) false 0))) (Some (15%Z, 28%Z)) (Some (60%Z, 36%Z)); Net 1 (End 2 (Some (Pin (EChild 0) true 0))) (End 4 (Some (Pin (EOut 0) false 0))) (Some (125%Z, 36%Z)) (Some (155%Z, 28%Z)); Net 1 (End 2 (Some (Pin (EChild 0) true 0))) (End 5 None) (Some (125%Z, 36%Z)) (Some (140%Z, 120%Z)); Net 1 (End 3 None) (End 5 None) (Some (80%Z, 120%Z)) (Some (140%Z, 120%Z)); Net 1 (End 1 None) (End 3 None) (Some (20%Z, 120%Z)) (Some (60%Z, 120%Z))] [PinAt 0 (Pin (EIn 0) true 0) 15%Z 28%Z; PinAt 2 (Pin (EChild 0) false 0) 60%Z 36%Z; PinAt 2 (Pin (EChild 0) false 1) 60%Z 64%Z; PinAt 2 (Pin (EChild 0) true 0) 125%Z 36%Z; PinAt 4 (Pin (EOut 0) false 0) 155%Z 28%Z]).

(* ex_add : children ['Constant:ci', 'AddCarryIn:add', 'Range:r', 'Bit:co'] ; swallowed [] *)
(*   sym 0 KIn a for=('in', 0) cell=(0, 0) *)
(*   sym 1 KIn b for=('in', 1) cell=(2, 0) *)
(*   sym 2 KInst ci for=('ch', 0) cell=(0, 1) *)
(*   sym 3 KPass pt0 for=None cell=(1, 1) *)
(*   sym 4 KPass pt1 for=None cell=(3, 1) *)
(*   sym 5 KInst add for=('ch', 1) cell=(0, 2) *)
(*   sym 6 KInst r for=('ch', 2) cell=(0, 3) *)
(*   sym 7 KInst co for=('ch', 3) cell=(2, 3) *)
(*   sym 8 KOut r for=('out', 0) cell=(0, 4) *)
(*   sym 9 KOut co for=('out', 1) cell=(2, 4) *)
(*   net 0 w2 /HWSystem[HWSystem]/Add[dut][ci]: ci.r -> add.ci   (110, 36) -> (160, 92) *)
(*   net 1 w3 /HWSystem[HWSystem]/Add[dut][pre_r]: add.r -> r.a   (227, 36) -> (257, 33) *)
(*   net 2 w3 /HWSystem[HWSystem]/Add[dut][pre_r]: add.r -> co.a   (227, 36) -> (257, 191) *)
(*   net 3 w4 /HWSystem[HWSystem][r]: r.r -> r.r   (267, 33) -> (317, 28) *)
(*   net 4 w5 /HWSystem[HWSystem][co]: co.r -> co.co   (267, 191) -> (317, 186) *)
(*   net 5 w0 /HWSystem[HWSystem][a]: a.a -> pt0.None   (15, 28) -> (55, 148) *)
(*   net 6 w0 /HWSystem[HWSystem][a]: pt0.None -> add.a   (75, 148) -> (160, 36) *)
(*   net 7 w1 /HWSystem[HWSystem][b]: b.b -> pt1.None   (15, 186) -> (55, 218) *)
(*   net 8 w1 /HWSystem[HWSystem][b]: pt1.None -> add.b   (75, 218) -> (160, 64) *)
Definition ex_add_c : circuit :=
  (Circ 2 2 [(0, 1); (3, 1); (1, 1); (1, 1)] [WC 0 (Pin (EIn 0) true 0) [(Pin (EChild 1) false 0)]; WC 1 (Pin (EIn 1) true 0) [(Pin (EChild 1) false 1)]; WC 2 (Pin (EChild 0) true 0) [(Pin (EChild 1) false 2)]; WC 3 (Pin (EChild 1) true 0) [(Pin (EChild 2) false 0); (Pin (EChild 3) false 0)]; WC 4 (Pin (EChild 2) true 0) [(Pin (EOut 0) false 0)]; WC 5 (Pin (EChild 3) true 0) [(Pin (EOut 1) false 0)]]).
Definition ex_add_l : layout :=
  (Lay [Sym 0 KIn (Some (EIn 0)) 0%Z 0%Z 0%Z 15%Z 15%Z 20%Z; Sym 1 KIn (Some (EIn 1)) 2%Z 0%Z 0%Z 173%Z 15%Z 20%Z; Sym 2 KInst (Some (EChild 0)) 0%Z 1%Z 55%Z 15%Z 55%Z 52%Z; Sym 3 KPass None 1%Z 1%Z 55%Z 138%Z 20%Z 20%Z; Sym 4 KPass None 3%Z 1%Z 55%Z 208%Z 20%Z 20%Z; Sym 5 KInst (Some (EChild 1)) 0%Z 2%Z 160%Z 15%Z 67%Z 108%Z; Sym 6 KInst (Some (EChild 2)) 0%Z 3%Z 257%Z 15%Z 20%Z 20%Z; Sym 7 KInst (Some (EChild 3)) 2%Z 3%Z 257%Z 173%Z 20%Z 20%Z; Sym 8 KOut (Some (EOut 0)) 0%Z 4%Z 317%Z 15%Z 15%Z 20%Z; Sym 9 KOut (Some (EOut 1)) 2%Z 4%Z 317%Z 173%Z 15%Z 20%Z] [Net 2 (End 2 (Some (Pin (EChild 0) true 0))) (End 5 (Some (Pin (EChild 1) false 2))) (Some (110%Z, 36%Z)) (Some (160%Z, 92%Z)); Net 3 (End 5 (Some (Pin (EChild 1) true 0))) (End 6 (Some (Pin (EChild 2) false 0))) (Some (227%Z, 36%Z)) (Some (257%Z, 33%Z)); Net 3 (End 5 (Some (Pin (EChild 1) true 0))) (End 7 (Some (Pin (EChild 3) false 0))) (Some (227%Z, 36%Z)) (Some (257%Z, 191%Z)); Net 4 (End 6 (Some (Pin (EChild 2) true 0))) (End 8 (Some (Pin (EOut 0) false 0))) (Some (267%Z, 33%Z)) (Some (317%Z, 28%Z)); Net 5 (End 7 (Some (Pin (EChild 3) true 0))) (End 9 (Some (Pin (EOut 1) false 0))) (Some (267%Z, 191%Z)) (Some (317%Z, 186%Z)); Net 0 (End 0 (Some (Pin (EIn 0) true 0))) (End 3 None) (Some (15%Z, 28%Z)) (Some (55%Z, 148%Z)); Net 0 (End 3 None) (End 5 (Some (Pin (EChild 1) false 0))) (Some (75%Z, 148%Z)) (Some (160%Z, 36%Z)); Net 1 (End 1 (Some (Pin (EIn 1) true 0))) (End 4 None) (Some (15%Z, 186%Z)) (Some (55%Z, 218%Z)); Net 1 (End 4 None) (End 5 (Some (Pin (EChild 1) false 1))) (Some (75%Z, 218%Z)) (Some (160%Z, 64%Z))] [PinAt 0 (Pin (EIn 0) true 0) 15%Z 28%Z; PinAt 1 (Pin (EIn 1) true 0) 15%Z 186%Z; PinAt 2 (Pin (EChild 0) true 0) 110%Z 36%Z; PinAt 5 (Pin (EChild 1) false 0) 160%Z 36%Z; PinAt 5 (Pin (EChild 1) false 1) 160%Z 64%Z; PinAt 5 (Pin (EChild 1) false 2) 160%Z 92%Z; PinAt 5 (Pin (EChild 1) true 0) 227%Z 36%Z; PinAt 6 (Pin (EChild 2) false 0) 257%Z 33%Z; PinAt 6 (Pin (EChild 2) true 0) 267%Z 33%Z; PinAt 7 (Pin (EChild 3) false 0) 257%Z 191%Z; PinAt 7 (Pin (EChild 3) true 0) 267%Z 191%Z; PinAt 8 (Pin (EOut 0) false 0) 317%Z 28%Z; PinAt 9 (Pin (EOut 1) false 0) 317%Z 186%Z]).
(* the same layout with net 6 (/HWSystem[HWSystem][a]: pt0.None -> add.a) dropped *)
Definition ex_add_dropped_l : layout :=
  (Lay [Sym 0 KIn (Some (EIn 0)) 0%Z 0%Z 0%Z 15%Z 15%Z 20%Z; Sym 1 KIn (Some (EIn 1)) 2%Z 0%Z 0%Z 173%Z 15%Z 20%Z; Sym 2 KInst (Some (EChild 0)) 0%Z 1%Z 55%Z 15%Z 55%Z 52%Z; Sym 3 KPass None 1%Z 1%Z 55%Z 138%Z 20%Z 20%Z; Sym 4 KPass None 3%Z 1%Z 55%Z 208%Z 20%Z 20%Z; Sym 5 KInst (Some (EChild 1)) 0%Z 2%Z 160%Z 15%Z 67%Z 108%Z; Sym 6 KInst (Some (EChild 2)) 0%Z 3%Z 257%Z 15%Z 20%Z 20%Z; Sym 7 KInst (Some (EChild 3)) 2%Z 3%Z 257%Z 173%Z 20%Z 20%Z; Sym 8 KOut (Some (EOut 0)) 0%Z 4%Z 317%Z 15%Z 15%Z 20%Z; Sym 9 KOut (Some (EOut 1)) 2%Z 4%Z 317%Z 173%Z 15%Z 20%Z] [Net 2 (End 2 (Some (Pin (EChild 0) true 0))) (End 5 (Some (Pin (EChild 1) false 2))) (Some (110%Z, 36%Z)) (Some (160%Z, 92%Z)); Net 3 (End 5 (Some (Pin (EChild 1) true 0))) (End 6 (Some (Pin (EChild 2) false 0))) (Some (227%Z, 36%Z)) (Some (257%Z, 33%Z)); Net 3 (End 5 (Some (Pin (EChild 1) true 0))) (End 7 (Some (Pin (EChild 3) false 0))) (Some (227%Z, 36%Z)) (Some (257%Z, 191%Z)); Net 4 (End 6 (Some (Pin (EChild 2) true 0))) (End 8 (Some (Pin (EOut 0) false 0))) (Some (267%Z, 33%Z)) (Some (317%Z, 28%Z)); Net 5 (End 7 (Some (Pin (EChild 3) true 0))) (End 9 (Some (Pin (EOut 1) false 0))) (Some (267%Z, 191%Z)) (Some (317%Z, 186%Z)); Net 0 (End 0 (Some (Pin (EIn 0) true 0))) (End 3 None) (Some (15%Z, 28%Z)) (Some (55%Z, 148%Z)); Net 1 (End 1 (Some (Pin (EIn 1) true 0))) (End 4 None) (Some (15%Z, 186%Z)) (Some (55%Z, 218%Z)); Net 1 (End 4 None) (End 5 (Some (Pin (EChild 1) false 1))) (Some (75%Z, 218%Z)) (Some (160%Z, 64%Z))] [PinAt 0 (Pin (EIn 0) true 0) 15%Z 28%Z; PinAt 1 (Pin (EIn 1) true 0) 15%Z 186%Z; PinAt 2 (Pin (EChild 0) true 0) 110%Z 36%Z; PinAt 5 (Pin (EChild 1) false 0) 160%Z 36%Z; PinAt 5 (Pin (EChild 1) false 1) 160%Z 64%Z; PinAt 5 (Pin (EChild 1) false 2) 160%Z 92%Z; PinAt 5 (Pin (EChild 1) true 0) 227%Z 36%Z; PinAt 6 (Pin (EChild 2) false 0) 257%Z 33%Z; PinAt 6 (Pin (EChild 2) true 0) 267%Z 33%Z; PinAt 7 (Pin (EChild 3) false 0) 257%Z 191%Z; PinAt 7 (Pin (EChild 3) true 0) 267%Z 191%Z; PinAt 8 (Pin (EOut 0) false 0) 317%Z 28%Z; PinAt 9 (Pin (EOut 1) false 0) 317%Z 186%Z]).
(* ex_counter : children ['Constant:one', 'Constant:zero', 'Mux2:muxinc', 'Mux2:muxreset', 'Or2:e_add', 'Add:add', 'Reg:reg'] ; swallowed [] *)
(*   sym 0 KIn reset for=('in', 0) cell=(0, 0) *)
(*   sym 1 KIn inc for=('in', 1) cell=(5, 0) *)
(*   sym 2 KInst one for=('ch', 0) cell=(0, 1) *)
(*   sym 3 KPass pt0 for=None cell=(4, 1) *)
(*   sym 4 KInst zero for=('ch', 1) cell=(5, 1) *)
(*   sym 5 KPass pt1 for=None cell=(6, 1) *)
(*   sym 6 KInst e_add for=('ch', 4) cell=(7, 1) *)
(*   sym 7 KFbStop fZ16 for=None cell=(9, 1) *)
(*   sym 8 KInst muxreset for=('ch', 3) cell=(0, 2) *)
(*   sym 9 KPass pt5 for=None cell=(3, 2) *)
(*   sym 10 KPass pt2 for=None cell=(6, 2) *)
(*   sym 11 KPass pt7 for=None cell=(8, 2) *)
(*   sym 12 KPass pt15 for=None cell=(9, 2) *)
(*   sym 13 KInst reg for=('ch', 6) cell=(0, 3) *)
(*   sym 14 KPass pt6 for=None cell=(3, 3) *)
(*   sym 15 KPass pt3 for=None cell=(6, 3) *)
(*   sym 16 KPass pt14 for=None cell=(9, 3) *)
(*   sym 17 KInst add for=('ch', 5) cell=(0, 4) *)
(*   sym 18 KPass pt9 for=None cell=(1, 4) *)
(*   sym 19 KPass pt8 for=None cell=(2, 4) *)
(*   sym 20 KPass pt4 for=None cell=(6, 4) *)
(*   sym 21 KPass pt13 for=None cell=(9, 4) *)
(*   sym 22 KInst muxinc for=('ch', 2) cell=(0, 5) *)
(*   sym 23 KPass pt10 for=None cell=(1, 5) *)
(*   sym 24 KPass pt12 for=None cell=(9, 5) *)
(*   sym 25 KOut q for=('out', 0) cell=(0, 6) *)
(*   sym 26 KFbStart fA11 for=None cell=(9, 6) *)
(*   net 0 w5 /HWSystem[HWSystem]/Counter[dut][add]: add.r -> muxinc.sel1   (455, 36) -> (515, 73) *)
(*   net 1 w3 /HWSystem[HWSystem]/Counter[dut][zero]: zero.r -> muxreset.sel1   (110, 271) -> (190, 73) *)
(*   net 2 w0 /HWSystem[HWSystem][rst]: reset.reset -> e_add.a   (15, 28) -> (60, 370) *)
(*   net 3 w1 /HWSystem[HWSystem][inc]: inc.inc -> e_add.b   (15, 263) -> (60, 390) *)
(*   net 4 w4 /HWSystem[HWSystem][q]: reg.q -> add.a   (345, 36) -> (413, 31) *)
(*   net 5 w7 /HWSystem[HWSystem]/Counter[dut][d]: muxreset.r -> reg.d   (210, 63) -> (280, 36) *)
(*   net 6 w0 /HWSystem[HWSystem][rst]: reset.reset -> pt0.None   (15, 28) -> (55, 225) *)
(*   net 7 w0 /HWSystem[HWSystem][rst]: pt0.None -> muxreset.sel   (75, 225) -> (190, 33) *)
(*   net 8 w1 /HWSystem[HWSystem][inc]: inc.inc -> pt1.None   (15, 263) -> (55, 327) *)
(*   net 9 w1 /HWSystem[HWSystem][inc]: pt1.None -> pt2.None   (75, 327) -> (190, 327) *)
(*   net 10 w1 /HWSystem[HWSystem][inc]: pt2.None -> pt3.None   (210, 327) -> (280, 327) *)
(*   net 11 w1 /HWSystem[HWSystem][inc]: pt3.None -> pt4.None   (300, 327) -> (405, 327) *)
(*   net 12 w1 /HWSystem[HWSystem][inc]: pt4.None -> muxinc.sel   (425, 327) -> (515, 33) *)
(*   net 13 w2 /HWSystem[HWSystem]/Counter[dut][one]: one.r -> pt5.None   (110, 36) -> (190, 190) *)
(*   net 14 w2 /HWSystem[HWSystem]/Counter[dut][one]: pt5.None -> pt6.None   (210, 190) -> (280, 190) *)
(*   net 15 w2 /HWSystem[HWSystem]/Counter[dut][one]: pt6.None -> add.b   (300, 190) -> (413, 65) *)
(*   net 16 w8 /HWSystem[HWSystem]/Counter[dut][e_add]: e_add.r -> pt7.None   (105, 380) -> (190, 425) *)
(*   net 17 w8 /HWSystem[HWSystem]/Counter[dut][e_add]: pt7.None -> reg.e   (210, 425) -> (280, 64) *)
(*   net 18 w4 /HWSystem[HWSystem][q]: reg.q -> pt8.None   (345, 36) -> (405, 155) *)
(*   net 19 w4 /HWSystem[HWSystem][q]: pt8.None -> muxinc.sel0   (425, 155) -> (515, 53) *)
(*   net 20 w4 /HWSystem[HWSystem][q]: reg.q -> pt9.None   (345, 36) -> (405, 120) *)
(*   net 21 w4 /HWSystem[HWSystem][q]: pt9.None -> pt10.None   (425, 120) -> (515, 120) *)
(*   net 22 w4 /HWSystem[HWSystem][q]: pt10.None -> q.q   (535, 120) -> (575, 28) *)
(*   net 23 w6 /HWSystem[HWSystem]/Counter[dut][d1]: muxinc.r -> fA11.None   (535, 63) -> (550, 460) *)
(*   net 24 w6 /HWSystem[HWSystem]/Counter[dut][d1]: pt12.None -> fA11.None   (535, 460) -> (550, 460) *)
(*   net 25 w6 /HWSystem[HWSystem]/Counter[dut][d1]: pt13.None -> pt12.None   (425, 460) -> (515, 460) *)
(*   net 26 w6 /HWSystem[HWSystem]/Counter[dut][d1]: pt14.None -> pt13.None   (300, 460) -> (405, 460) *)
(*   net 27 w6 /HWSystem[HWSystem]/Counter[dut][d1]: pt15.None -> pt14.None   (210, 460) -> (280, 460) *)
(*   net 28 w6 /HWSystem[HWSystem]/Counter[dut][d1]: fZ16.None -> pt15.None   (135, 460) -> (190, 460) *)
(*   net 29 w6 /HWSystem[HWSystem]/Counter[dut][d1]: fZ16.None -> muxreset.sel0   (135, 460) -> (190, 53) *)
Definition ex_counter_c : circuit :=
  (Circ 2 1 [(0, 1); (0, 1); (3, 1); (3, 1); (2, 1); (2, 1); (2, 1)] [WC 0 (Pin (EIn 0) true 0) [(Pin (EChild 3) false 0); (Pin (EChild 4) false 0)]; WC 1 (Pin (EIn 1) true 0) [(Pin (EChild 2) false 0); (Pin (EChild 4) false 1)]; WC 2 (Pin (EChild 0) true 0) [(Pin (EChild 5) false 1)]; WC 3 (Pin (EChild 1) true 0) [(Pin (EChild 3) false 2)]; WC 4 (Pin (EChild 6) true 0) [(Pin (EChild 2) false 1); (Pin (EChild 5) false 0); (Pin (EOut 0) false 0)]; WC 5 (Pin (EChild 5) true 0) [(Pin (EChild 2) false 2)]; WC 6 (Pin (EChild 2) true 0) [(Pin (EChild 3) false 1)]; WC 7 (Pin (EChild 3) true 0) [(Pin (EChild 6) false 0)]; WC 8 (Pin (EChild 4) true 0) [(Pin (EChild 6) false 1)]]).
Definition ex_counter_l : layout :=
  (Lay [Sym 0 KIn (Some (EIn 0)) 0%Z 0%Z 0%Z 15%Z 15%Z 20%Z; Sym 1 KIn (Some (EIn 1)) 5%Z 0%Z 0%Z 250%Z 15%Z 20%Z; Sym 2 KInst (Some (EChild 0)) 0%Z 1%Z 55%Z 15%Z 55%Z 52%Z; Sym 3 KPass None 4%Z 1%Z 55%Z 215%Z 20%Z 20%Z; Sym 4 KInst (Some (EChild 1)) 5%Z 1%Z 55%Z 250%Z 55%Z 52%Z; Sym 5 KPass None 6%Z 1%Z 55%Z 317%Z 20%Z 20%Z; Sym 6 KInst (Some (EChild 4)) 7%Z 1%Z 55%Z 352%Z 50%Z 48%Z; Sym 7 KFbStop None 9%Z 1%Z 55%Z 450%Z 20%Z 20%Z; Sym 8 KInst (Some (EChild 3)) 0%Z 2%Z 190%Z 15%Z 20%Z 68%Z; Sym 9 KPass None 3%Z 2%Z 190%Z 180%Z 20%Z 20%Z; Sym 10 KPass None 6%Z 2%Z 190%Z 317%Z 20%Z 20%Z; Sym 11 KPass None 8%Z 2%Z 190%Z 415%Z 20%Z 20%Z; Sym 12 KPass None 9%Z 2%Z 190%Z 450%Z 20%Z 20%Z; Sym 13 KInst (Some (EChild 6)) 0%Z 3%Z 280%Z 15%Z 65%Z 80%Z; Sym 14 KPass None 3%Z 3%Z 280%Z 180%Z 20%Z 20%Z; Sym 15 KPass None 6%Z 3%Z 280%Z 317%Z 20%Z 20%Z; Sym 16 KPass None 9%Z 3%Z 280%Z 450%Z 20%Z 20%Z; Sym 17 KInst (Some (EChild 5)) 0%Z 4%Z 405%Z 15%Z 50%Z 58%Z; Sym 18 KPass None 1%Z 4%Z 405%Z 110%Z 20%Z 20%Z; Sym 19 KPass None 2%Z 4%Z 405%Z 145%Z 20%Z 20%Z; Sym 20 KPass None 6%Z 4%Z 405%Z 317%Z 20%Z 20%Z; Sym 21 KPass None 9%Z 4%Z 405%Z 450%Z 20%Z 20%Z; Sym 22 KInst (Some (EChild 2)) 0%Z 5%Z 515%Z 15%Z 20%Z 68%Z; Sym 23 KPass None 1%Z 5%Z 515%Z 110%Z 20%Z 20%Z; Sym 24 KPass None 9%Z 5%Z 515%Z 450%Z 20%Z 20%Z; Sym 25 KOut (Some (EOut 0)) 0%Z 6%Z 575%Z 15%Z 15%Z 20%Z; Sym 26 KFbStart None 9%Z 6%Z 575%Z 450%Z 20%Z 20%Z] [Net 5 (End 17 (Some (Pin (EChild 5) true 0))) (End 22 (Some (Pin (EChild 2) false 2))) (Some (455%Z, 36%Z)) (Some (515%Z, 73%Z)); Net 3 (End 4 (Some (Pin (EChild 1) true 0))) (End 8 (Some (Pin (EChild 3) false 2))) (Some (110%Z, 271%Z)) (Some (190%Z, 73%Z)); Net 0 (End 0 (Some (Pin (EIn 0) true 0))) (End 6 (Some (Pin (EChild 4) false 0))) (Some (15%Z, 28%Z)) (Some (60%Z, 370%Z)); Net 1 (End 1 (Some (Pin (EIn 1) true 0))) (End 6 (Some (Pin (EChild 4) false 1))) (Some (15%Z, 263%Z)) (Some (60%Z, 390%Z)); Net 4 (End 13 (Some (Pin (EChild 6) true 0))) (End 17 (Some (Pin (EChild 5) false 0))) (Some (345%Z, 36%Z)) (Some (413%Z, 31%Z)); Net 7 (End 8 (Some (Pin (EChild 3) true 0))) (End 13 (Some (Pin (EChild 6) false 0))) (Some (210%Z, 63%Z)) (Some (280%Z, 36%Z)); Net 0 (End 0 (Some (Pin (EIn 0) true 0))) (End 3 None) (Some (15%Z, 28%Z)) (Some (55%Z, 225%Z)); Net 0 (End 3 None) (End 8 (Some (Pin (EChild 3) false 0))) (Some (75%Z, 225%Z)) (Some (190%Z, 33%Z)); Net 1 (End 1 (Some (Pin (EIn 1) true 0))) (End 5 None) (Some (15%Z, 263%Z)) (Some (55%Z, 327%Z)); Net 1 (End 5 None) (End 10 None) (Some (75%Z, 327%Z)) (Some (190%Z, 327%Z)); Net 1 (End 10 None) (End 15 None) (Some (210%Z, 327%Z)) (Some (280%Z, 327%Z)); Net 1 (End 15 None) (End 20 None) (Some (300%Z, 327%Z)) (Some (405%Z, 327%Z)); Net 1 (End 20 None) (End 22 (Some (Pin (EChild 2) false 0))) (Some (425%Z, 327%Z)) (Some (515%Z, 33%Z)); Net 2 (End 2 (Some (Pin (EChild 0) true 0))) (End 9 None) (Some (110%Z, 36%Z)) (Some (190%Z, 190%Z)); Net 2 (End 9 None) (End 14 None) (Some (210%Z, 190%Z)) (Some (280%Z, 190%Z)); Net 2 (End 14 None) (End 17 (Some (Pin (EChild 5) false 1))) (Some (300%Z, 190%Z)) (Some (413%Z, 65%Z)); Net 8 (End 6 (Some (Pin (EChild 4) true 0))) (End 11 None) (Some (105%Z, 380%Z)) (Some (190%Z, 425%Z)); Net 8 (End 11 None) (End 13 (Some (Pin (EChild 6) false 1))) (Some (210%Z, 425%Z)) (Some (280%Z, 64%Z)); Net 4 (End 13 (Some (Pin (EChild 6) true 0))) (End 19 None) (Some (345%Z, 36%Z)) (Some (405%Z, 155%Z)); Net 4 (End 19 None) (End 22 (Some (Pin (EChild 2) false 1))) (Some (425%Z, 155%Z)) (Some (515%Z, 53%Z)); Net 4 (End 13 (Some (Pin (EChild 6) true 0))) (End 18 None) (Some (345%Z, 36%Z)) (Some (405%Z, 120%Z)); Net 4 (End 18 None) (End 23 None) (Some (425%Z, 120%Z)) (Some (515%Z, 120%Z)); Net 4 (End 23 None) (End 25 (Some (Pin (EOut 0) false 0))) (Some (535%Z, 120%Z)) (Some (575%Z, 28%Z)); Net 6 (End 22 (Some (Pin (EChild 2) true 0))) (End 26 None) (Some (535%Z, 63%Z)) (Some (550%Z, 460%Z)); Net 6 (End 24 None) (End 26 None) (Some (535%Z, 460%Z)) (Some (550%Z, 460%Z)); Net 6 (End 21 None) (End 24 None) (Some (425%Z, 460%Z)) (Some (515%Z, 460%Z)); Net 6 (End 16 None) (End 21 None) (Some (300%Z, 460%Z)) (Some (405%Z, 460%Z)); Net 6 (End 12 None) (End 16 None) (Some (210%Z, 460%Z)) (Some (280%Z, 460%Z)); Net 6 (End 7 None) (End 12 None) (Some (135%Z, 460%Z)) (Some (190%Z, 460%Z)); Net 6 (End 7 None) (End 8 (Some (Pin (EChild 3) false 1))) (Some (135%Z, 460%Z)) (Some (190%Z, 53%Z))] [PinAt 0 (Pin (EIn 0) true 0) 15%Z 28%Z; PinAt 1 (Pin (EIn 1) true 0) 15%Z 263%Z; PinAt 2 (Pin (EChild 0) true 0) 110%Z 36%Z; PinAt 4 (Pin (EChild 1) true 0) 110%Z 271%Z; PinAt 6 (Pin (EChild 4) false 0) 60%Z 370%Z; PinAt 6 (Pin (EChild 4) false 1) 60%Z 390%Z; PinAt 6 (Pin (EChild 4) true 0) 105%Z 380%Z; PinAt 8 (Pin (EChild 3) false 0) 190%Z 33%Z; PinAt 8 (Pin (EChild 3) false 1) 190%Z 53%Z; PinAt 8 (Pin (EChild 3) false 2) 190%Z 73%Z; PinAt 8 (Pin (EChild 3) true 0) 210%Z 63%Z; PinAt 13 (Pin (EChild 6) false 0) 280%Z 36%Z; PinAt 13 (Pin (EChild 6) false 1) 280%Z 64%Z; PinAt 13 (Pin (EChild 6) true 0) 345%Z 36%Z; PinAt 17 (Pin (EChild 5) false 0) 413%Z 31%Z; PinAt 17 (Pin (EChild 5) false 1) 413%Z 65%Z; PinAt 17 (Pin (EChild 5) true 0) 455%Z 36%Z; PinAt 22 (Pin (EChild 2) false 0) 515%Z 33%Z; PinAt 22 (Pin (EChild 2) false 1) 515%Z 53%Z; PinAt 22 (Pin (EChild 2) false 2) 515%Z 73%Z; PinAt 22 (Pin (EChild 2) true 0) 535%Z 63%Z; PinAt 25 (Pin (EOut 0) false 0) 575%Z 28%Z]).
(* ex_addco : children ['Add:add'] ; swallowed [] *)
(*   sym 0 KIn a for=('in', 0) cell=(0, 0) *)
(*   sym 1 KIn b for=('in', 1) cell=(1, 0) *)
(*   sym 2 KInst add for=('ch', 0) cell=(0, 1) *)
(*   sym 3 KOut r for=('out', 0) cell=(0, 2) *)
(*   sym 4 KOut co for=('out', 1) cell=(1, 2) *)
(*   net 0 w0 /HWSystem[HWSystem][a]: a.a -> add.a   (15, 28) -> (63, 31) *)
(*   net 1 w1 /HWSystem[HWSystem][b]: b.b -> add.b   (15, 101) -> (63, 65) *)
(*   net 2 w2 /HWSystem[HWSystem][r]: add.r -> r.r   (105, 36) -> (145, 28) *)
(*   net 3 w3 /HWSystem[HWSystem][co]: add.co -> co.co   (105, 64) -> (145, 101) *)
Definition ex_addco_c : circuit :=
  (Circ 2 2 [(2, 2)] [WC 0 (Pin (EIn 0) true 0) [(Pin (EChild 0) false 0)]; WC 1 (Pin (EIn 1) true 0) [(Pin (EChild 0) false 1)]; WC 2 (Pin (EChild 0) true 0) [(Pin (EOut 0) false 0)]; WC 3 (Pin (EChild 0) true 1) [(Pin (EOut 1) false 0)]]).
Definition ex_addco_l : layout :=
  (Lay [Sym 0 KIn (Some (EIn 0)) 0%Z 0%Z 0%Z 15%Z 15%Z 20%Z; Sym 1 KIn (Some (EIn 1)) 1%Z 0%Z 0%Z 88%Z 15%Z 20%Z; Sym 2 KInst (Some (EChild 0)) 0%Z 1%Z 55%Z 15%Z 50%Z 58%Z; Sym 3 KOut (Some (EOut 0)) 0%Z 2%Z 145%Z 15%Z 15%Z 20%Z; Sym 4 KOut (Some (EOut 1)) 1%Z 2%Z 145%Z 88%Z 15%Z 20%Z] [Net 0 (End 0 (Some (Pin (EIn 0) true 0))) (End 2 (Some (Pin (EChild 0) false 0))) (Some (15%Z, 28%Z)) (Some (63%Z, 31%Z)); Net 1 (End 1 (Some (Pin (EIn 1) true 0))) (End 2 (Some (Pin (EChild 0) false 1))) (Some (15%Z, 101%Z)) (Some (63%Z, 65%Z)); Net 2 (End 2 (Some (Pin (EChild 0) true 0))) (End 3 (Some (Pin (EOut 0) false 0))) (Some (105%Z, 36%Z)) (Some (145%Z, 28%Z)); Net 3 (End 2 (Some (Pin (EChild 0) true 1))) (End 4 (Some (Pin (EOut 1) false 0))) (Some (105%Z, 64%Z)) (Some (145%Z, 101%Z))] [PinAt 0 (Pin (EIn 0) true 0) 15%Z 28%Z; PinAt 1 (Pin (EIn 1) true 0) 15%Z 101%Z; PinAt 2 (Pin (EChild 0) false 0) 63%Z 31%Z; PinAt 2 (Pin (EChild 0) false 1) 63%Z 65%Z; PinAt 2 (Pin (EChild 0) true 0) 105%Z 36%Z; PinAt 2 (Pin (EChild 0) true 1) 105%Z 64%Z; PinAt 3 (Pin (EOut 0) false 0) 145%Z 28%Z; PinAt 4 (Pin (EOut 1) false 0) 145%Z 101%Z]).
(* the same layout with the pin co of the adder drawn at the point of its pin r (and the net of co starting there) *)
Definition ex_addco_clash_l : layout :=
  (Lay [Sym 0 KIn (Some (EIn 0)) 0%Z 0%Z 0%Z 15%Z 15%Z 20%Z; Sym 1 KIn (Some (EIn 1)) 1%Z 0%Z 0%Z 88%Z 15%Z 20%Z; Sym 2 KInst (Some (EChild 0)) 0%Z 1%Z 55%Z 15%Z 50%Z 58%Z; Sym 3 KOut (Some (EOut 0)) 0%Z 2%Z 145%Z 15%Z 15%Z 20%Z; Sym 4 KOut (Some (EOut 1)) 1%Z 2%Z 145%Z 88%Z 15%Z 20%Z] [Net 0 (End 0 (Some (Pin (EIn 0) true 0))) (End 2 (Some (Pin (EChild 0) false 0))) (Some (15%Z, 28%Z)) (Some (63%Z, 31%Z)); Net 1 (End 1 (Some (Pin (EIn 1) true 0))) (End 2 (Some (Pin (EChild 0) false 1))) (Some (15%Z, 101%Z)) (Some (63%Z, 65%Z)); Net 2 (End 2 (Some (Pin (EChild 0) true 0))) (End 3 (Some (Pin (EOut 0) false 0))) (Some (105%Z, 36%Z)) (Some (145%Z, 28%Z)); Net 3 (End 2 (Some (Pin (EChild 0) true 1))) (End 4 (Some (Pin (EOut 1) false 0))) (Some (105%Z, 36%Z)) (Some (145%Z, 101%Z))] [PinAt 0 (Pin (EIn 0) true 0) 15%Z 28%Z; PinAt 1 (Pin (EIn 1) true 0) 15%Z 101%Z; PinAt 2 (Pin (EChild 0) false 0) 63%Z 31%Z; PinAt 2 (Pin (EChild 0) false 1) 63%Z 65%Z; PinAt 2 (Pin (EChild 0) true 0) 105%Z 36%Z; PinAt 2 (Pin (EChild 0) true 1) 105%Z 36%Z; PinAt 3 (Pin (EOut 0) false 0) 145%Z 28%Z; PinAt 4 (Pin (EOut 1) false 0) 145%Z 101%Z]).
(* the same layout with net 0 ending one pixel below the pin it names *)
Definition ex_addco_offpin_l : layout :=
  (Lay [Sym 0 KIn (Some (EIn 0)) 0%Z 0%Z 0%Z 15%Z 15%Z 20%Z; Sym 1 KIn (Some (EIn 1)) 1%Z 0%Z 0%Z 88%Z 15%Z 20%Z; Sym 2 KInst (Some (EChild 0)) 0%Z 1%Z 55%Z 15%Z 50%Z 58%Z; Sym 3 KOut (Some (EOut 0)) 0%Z 2%Z 145%Z 15%Z 15%Z 20%Z; Sym 4 KOut (Some (EOut 1)) 1%Z 2%Z 145%Z 88%Z 15%Z 20%Z] [Net 0 (End 0 (Some (Pin (EIn 0) true 0))) (End 2 (Some (Pin (EChild 0) false 0))) (Some (15%Z, 28%Z)) (Some (63%Z, 32%Z)); Net 1 (End 1 (Some (Pin (EIn 1) true 0))) (End 2 (Some (Pin (EChild 0) false 1))) (Some (15%Z, 101%Z)) (Some (63%Z, 65%Z)); Net 2 (End 2 (Some (Pin (EChild 0) true 0))) (End 3 (Some (Pin (EOut 0) false 0))) (Some (105%Z, 36%Z)) (Some (145%Z, 28%Z)); Net 3 (End 2 (Some (Pin (EChild 0) true 1))) (End 4 (Some (Pin (EOut 1) false 0))) (Some (105%Z, 64%Z)) (Some (145%Z, 101%Z))] [PinAt 0 (Pin (EIn 0) true 0) 15%Z 28%Z; PinAt 1 (Pin (EIn 1) true 0) 15%Z 101%Z; PinAt 2 (Pin (EChild 0) false 0) 63%Z 31%Z; PinAt 2 (Pin (EChild 0) false 1) 63%Z 65%Z; PinAt 2 (Pin (EChild 0) true 0) 105%Z 36%Z; PinAt 2 (Pin (EChild 0) true 1) 105%Z 64%Z; PinAt 3 (Pin (EOut 0) false 0) 145%Z 28%Z; PinAt 4 (Pin (EOut 1) false 0) 145%Z 101%Z]).
(* ex_selfloop_repaired (layout built by the current insertFeedback) : children ['Reg:r'] ; swallowed [] *)
(*   sym 0 KIn d for=('in', 0) cell=(0, 0) *)
(*   sym 1 KFbStop fZ2 for=None cell=(1, 0) *)
(*   sym 2 KInst r for=('ch', 0) cell=(0, 1) *)
(*   sym 3 KPass pt1 for=None cell=(1, 1) *)
(*   sym 4 KOut q for=('out', 0) cell=(0, 2) *)
(*   sym 5 KFbStart fA0 for=None cell=(1, 2) *)
(*   net 0 w0 /HWSystem[HWSystem][d]: d.d -> r.d   (15, 28) -> (60, 36) *)
(*   net 1 w1 /HWSystem[HWSystem][q]: r.q -> q.q   (125, 36) -> (155, 28) *)
(*   net 2 w1 /HWSystem[HWSystem][q]: r.q -> fA0.None   (125, 36) -> (140, 120) *)
(*   net 3 w1 /HWSystem[HWSystem][q]: pt1.None -> fA0.None   (80, 120) -> (140, 120) *)
(*   net 4 w1 /HWSystem[HWSystem][q]: fZ2.None -> pt1.None   (45, 120) -> (60, 120) *)
(*   net 5 w1 /HWSystem[HWSystem][q]: fZ2.None -> r.e   (45, 120) -> (60, 64) *)
Definition ex_selfloop_repaired_l : layout :=
  (Lay [Sym 0 KIn (Some (EIn 0)) 0%Z 0%Z 0%Z 15%Z 15%Z 20%Z; Sym 1 KFbStop None 1%Z 0%Z 0%Z 110%Z 20%Z 20%Z; Sym 2 KInst (Some (EChild 0)) 0%Z 1%Z 60%Z 15%Z 65%Z 80%Z; Sym 3 KPass None 1%Z 1%Z 60%Z 110%Z 20%Z 20%Z; Sym 4 KOut (Some (EOut 0)) 0%Z 2%Z 155%Z 15%Z 15%Z 20%Z; Sym 5 KFbStart None 1%Z 2%Z 155%Z 110%Z 20%Z 20%Z] [Net 0 (End 0 (Some (Pin (EIn 0) true 0))) (End 2 (Some (Pin (EChild 0) false 0))) (Some (15%Z, 28%Z)) (Some (60%Z, 36%Z)); Net 1 (End 2 (Some (Pin (EChild 0) true 0))) (End 4 (Some (Pin (EOut 0) false 0))) (Some (125%Z, 36%Z)) (Some (155%Z, 28%Z)); Net 1 (End 2 (Some (Pin (EChild 0) true 0))) (End 5 None) (Some (125%Z, 36%Z)) (Some (140%Z, 120%Z)); Net 1 (End 3 None) (End 5 None) (Some (80%Z, 120%Z)) (Some (140%Z, 120%Z)); Net 1 (End 1 None) (End 3 None) (Some (45%Z, 120%Z)) (Some (60%Z, 120%Z)); Net 1 (End 1 None) (End 2 (Some (Pin (EChild 0) false 1))) (Some (45%Z, 120%Z)) (Some (60%Z, 64%Z))] [PinAt 0 (Pin (EIn 0) true 0) 15%Z 28%Z; PinAt 2 (Pin (EChild 0) false 0) 60%Z 36%Z; PinAt 2 (Pin (EChild 0) false 1) 60%Z 64%Z; PinAt 2 (Pin (EChild 0) true 0) 125%Z 36%Z; PinAt 4 (Pin (EOut 0) false 0) 155%Z 28%Z]).

(* the real layouts of Add(8 bit, carry out) and Counter(4 bit) (pass-throughs, a feedback loop) are accepted *)
Lemma ex_add_accepted : schem_ok ex_add_c ex_add_l = true.
Proof. vm_compute. reflexivity. Qed.
Lemma ex_counter_accepted : schem_ok ex_counter_c ex_counter_l = true.
Proof. vm_compute. reflexivity. Qed.
Lemma ex_add_SchemOK : SchemOK ex_add_c ex_add_l.
Proof. apply schem_ok_sound. exact ex_add_accepted. Qed.
Lemma ex_counter_SchemOK : SchemOK ex_counter_c ex_counter_l.
Proof. apply schem_ok_sound. exact ex_counter_accepted. Qed.

(* dropping the net  pt0 -> add.a  of wire a  is rejected by the validator, hence (completeness) violates the statement *)
Lemma ex_add_dropped_rejected : schem_ok ex_add_c ex_add_dropped_l = false.
Proof. vm_compute. reflexivity. Qed.
Lemma ex_add_dropped_not_SchemOK : ~ SchemOK ex_add_c ex_add_dropped_l.
Proof. apply schem_ok_false. exact ex_add_dropped_rejected. Qed.

(* a block with an Add child that has a carry output (the '+' circle with two output pins): accepted as built;
   rejected when the two output pins are drawn at one point, and when a net ends one pixel off its pin *)
Lemma ex_addco_accepted : schem_ok ex_addco_c ex_addco_l = true.
Proof. vm_compute. reflexivity. Qed.
Lemma ex_addco_clash_rejected : schem_ok ex_addco_c ex_addco_clash_l = false.
Proof. vm_compute. reflexivity. Qed.
Lemma ex_addco_clash_not_SchemOK : ~ SchemOK ex_addco_c ex_addco_clash_l.
Proof. apply schem_ok_false. exact ex_addco_clash_rejected. Qed.
Lemma ex_addco_offpin_rejected : schem_ok ex_addco_c ex_addco_offpin_l = false.
Proof. vm_compute. reflexivity. Qed.
Lemma ex_addco_offpin_not_SchemOK : ~ SchemOK ex_addco_c ex_addco_offpin_l.
Proof. apply schem_ok_false. exact ex_addco_offpin_rejected. Qed.

(* the layout py4hw USED TO build for  Reg(d, q, enable=q)  (finding C18-F1, repaired by ead5329): the net q -> r.e is lost *)
Lemma ex_selfloop_rejected : schem_ok ex_selfloop_c ex_selfloop_l = false.
Proof. vm_compute. reflexivity. Qed.
Lemma ex_selfloop_not_SchemOK : ~ SchemOK ex_selfloop_c ex_selfloop_l.
Proof. apply schem_ok_false. exact ex_selfloop_rejected. Qed.

(* the layout the repaired insertFeedback builds for the same block *)
Lemma ex_selfloop_repaired_accepted : schem_ok ex_selfloop_c ex_selfloop_repaired_l = true.
Proof. vm_compute. reflexivity. Qed.
Lemma ex_selfloop_repaired_SchemOK : SchemOK ex_selfloop_c ex_selfloop_repaired_l.
Proof. apply schem_ok_sound. exact ex_selfloop_repaired_accepted. Qed.

(* finding C18-F2: a block with an Add child that has a CARRY INPUT, as py4hw draws it on /repo 453c72d: the input pins b and ci
   of the '+' circle are at one point *)
(* ex_addci : children ['Add:g'] *)
(*   sym 0 KIn a for=('in', 0) cell=(0, 0) *)
(*   sym 1 KIn b for=('in', 1) cell=(1, 0) *)
(*   sym 2 KIn ci for=('in', 2) cell=(2, 0) *)
(*   sym 3 KInst g for=('ch', 0) cell=(0, 1) *)
(*   sym 4 KOut r for=('out', 0) cell=(0, 2) *)
(*   sym 5 KOut co for=('out', 1) cell=(1, 2) *)
(*   net 0 w0 /HWSystem[HWSystem][i_a]: a.a -> g.a   (15, 28) -> (73, 31) *)
(*   net 1 w1 /HWSystem[HWSystem][i_b]: b.b -> g.b   (15, 101) -> (73, 65) *)
(*   net 2 w2 /HWSystem[HWSystem][i_ci]: ci.ci -> g.ci   (15, 136) -> (73, 65) *)
(*   net 3 w3 /HWSystem[HWSystem][o_r]: g.r -> r.r   (115, 36) -> (155, 28) *)
(*   net 4 w4 /HWSystem[HWSystem][o_co]: g.co -> co.co   (115, 64) -> (155, 101) *)
Definition ex_addci_c : circuit :=
  (Circ 3 2 [(3, 2)] [WC 0 (Pin (EIn 0) true 0) [(Pin (EChild 0) false 0)]; WC 1 (Pin (EIn 1) true 0) [(Pin (EChild 0) false 1)]; WC 2 (Pin (EIn 2) true 0) [(Pin (EChild 0) false 2)]; WC 3 (Pin (EChild 0) true 0) [(Pin (EOut 0) false 0)]; WC 4 (Pin (EChild 0) true 1) [(Pin (EOut 1) false 0)]]).
Definition ex_addci_l : layout :=
  (Lay [Sym 0 KIn (Some (EIn 0)) 0%Z 0%Z 0%Z 15%Z 15%Z 20%Z; Sym 1 KIn (Some (EIn 1)) 1%Z 0%Z 0%Z 88%Z 15%Z 20%Z; Sym 2 KIn (Some (EIn 2)) 2%Z 0%Z 0%Z 123%Z 15%Z 20%Z; Sym 3 KInst (Some (EChild 0)) 0%Z 1%Z 65%Z 15%Z 50%Z 58%Z; Sym 4 KOut (Some (EOut 0)) 0%Z 2%Z 155%Z 15%Z 15%Z 20%Z; Sym 5 KOut (Some (EOut 1)) 1%Z 2%Z 155%Z 88%Z 15%Z 20%Z] [Net 0 (End 0 (Some (Pin (EIn 0) true 0))) (End 3 (Some (Pin (EChild 0) false 0))) (Some (15%Z, 28%Z)) (Some (73%Z, 31%Z)); Net 1 (End 1 (Some (Pin (EIn 1) true 0))) (End 3 (Some (Pin (EChild 0) false 1))) (Some (15%Z, 101%Z)) (Some (73%Z, 65%Z)); Net 2 (End 2 (Some (Pin (EIn 2) true 0))) (End 3 (Some (Pin (EChild 0) false 2))) (Some (15%Z, 136%Z)) (Some (73%Z, 65%Z)); Net 3 (End 3 (Some (Pin (EChild 0) true 0))) (End 4 (Some (Pin (EOut 0) false 0))) (Some (115%Z, 36%Z)) (Some (155%Z, 28%Z)); Net 4 (End 3 (Some (Pin (EChild 0) true 1))) (End 5 (Some (Pin (EOut 1) false 0))) (Some (115%Z, 64%Z)) (Some (155%Z, 101%Z))] [PinAt 0 (Pin (EIn 0) true 0) 15%Z 28%Z; PinAt 1 (Pin (EIn 1) true 0) 15%Z 101%Z; PinAt 2 (Pin (EIn 2) true 0) 15%Z 136%Z; PinAt 3 (Pin (EChild 0) false 0) 73%Z 31%Z; PinAt 3 (Pin (EChild 0) false 1) 73%Z 65%Z; PinAt 3 (Pin (EChild 0) false 2) 73%Z 65%Z; PinAt 3 (Pin (EChild 0) true 0) 115%Z 36%Z; PinAt 3 (Pin (EChild 0) true 1) 115%Z 64%Z; PinAt 4 (Pin (EOut 0) false 0) 155%Z 28%Z; PinAt 5 (Pin (EOut 1) false 0) 155%Z 101%Z]).
Lemma ex_addci_rejected : schem_ok ex_addci_c ex_addci_l = false.
Proof. vm_compute. reflexivity. Qed.
Lemma ex_addci_not_SchemOK : ~ SchemOK ex_addci_c ex_addci_l.
Proof. apply schem_ok_false. exact ex_addci_rejected. Qed.
(* the same block drawn with fixes/C18-F2.diff applied (carry in at the left-most point of the circle) *)
(* ex_addci_repaired : children ['Add:g'] *)
(*   sym 0 KIn a for=('in', 0) cell=(0, 0) *)
(*   sym 1 KIn b for=('in', 1) cell=(1, 0) *)
(*   sym 2 KIn ci for=('in', 2) cell=(2, 0) *)
(*   sym 3 KInst g for=('ch', 0) cell=(0, 1) *)
(*   sym 4 KOut r for=('out', 0) cell=(0, 2) *)
(*   sym 5 KOut co for=('out', 1) cell=(1, 2) *)
(*   net 0 w0 /HWSystem[HWSystem][i_a]: a.a -> g.a   (15, 28) -> (73, 31) *)
(*   net 1 w1 /HWSystem[HWSystem][i_b]: b.b -> g.b   (15, 101) -> (73, 65) *)
(*   net 2 w2 /HWSystem[HWSystem][i_ci]: ci.ci -> g.ci   (15, 136) -> (65, 48) *)
(*   net 3 w3 /HWSystem[HWSystem][o_r]: g.r -> r.r   (115, 36) -> (155, 28) *)
(*   net 4 w4 /HWSystem[HWSystem][o_co]: g.co -> co.co   (115, 64) -> (155, 101) *)
Definition ex_addci_repaired_l : layout :=
  (Lay [Sym 0 KIn (Some (EIn 0)) 0%Z 0%Z 0%Z 15%Z 15%Z 20%Z; Sym 1 KIn (Some (EIn 1)) 1%Z 0%Z 0%Z 88%Z 15%Z 20%Z; Sym 2 KIn (Some (EIn 2)) 2%Z 0%Z 0%Z 123%Z 15%Z 20%Z; Sym 3 KInst (Some (EChild 0)) 0%Z 1%Z 65%Z 15%Z 50%Z 58%Z; Sym 4 KOut (Some (EOut 0)) 0%Z 2%Z 155%Z 15%Z 15%Z 20%Z; Sym 5 KOut (Some (EOut 1)) 1%Z 2%Z 155%Z 88%Z 15%Z 20%Z] [Net 0 (End 0 (Some (Pin (EIn 0) true 0))) (End 3 (Some (Pin (EChild 0) false 0))) (Some (15%Z, 28%Z)) (Some (73%Z, 31%Z)); Net 1 (End 1 (Some (Pin (EIn 1) true 0))) (End 3 (Some (Pin (EChild 0) false 1))) (Some (15%Z, 101%Z)) (Some (73%Z, 65%Z)); Net 2 (End 2 (Some (Pin (EIn 2) true 0))) (End 3 (Some (Pin (EChild 0) false 2))) (Some (15%Z, 136%Z)) (Some (65%Z, 48%Z)); Net 3 (End 3 (Some (Pin (EChild 0) true 0))) (End 4 (Some (Pin (EOut 0) false 0))) (Some (115%Z, 36%Z)) (Some (155%Z, 28%Z)); Net 4 (End 3 (Some (Pin (EChild 0) true 1))) (End 5 (Some (Pin (EOut 1) false 0))) (Some (115%Z, 64%Z)) (Some (155%Z, 101%Z))] [PinAt 0 (Pin (EIn 0) true 0) 15%Z 28%Z; PinAt 1 (Pin (EIn 1) true 0) 15%Z 101%Z; PinAt 2 (Pin (EIn 2) true 0) 15%Z 136%Z; PinAt 3 (Pin (EChild 0) false 0) 73%Z 31%Z; PinAt 3 (Pin (EChild 0) false 1) 73%Z 65%Z; PinAt 3 (Pin (EChild 0) false 2) 65%Z 48%Z; PinAt 3 (Pin (EChild 0) true 0) 115%Z 36%Z; PinAt 3 (Pin (EChild 0) true 1) 115%Z 64%Z; PinAt 4 (Pin (EOut 0) false 0) 155%Z 28%Z; PinAt 5 (Pin (EOut 1) false 0) 155%Z 101%Z]).
Lemma ex_addci_repaired_accepted : schem_ok ex_addci_c ex_addci_repaired_l = true.
Proof. vm_compute. reflexivity. Qed.
Lemma ex_addci_repaired_SchemOK : SchemOK ex_addci_c ex_addci_repaired_l.
Proof. apply schem_ok_sound. exact ex_addci_repaired_accepted. Qed.
