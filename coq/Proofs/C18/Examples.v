(* C18 — concrete layouts dumped from the REAL Schematic(obj) at the pinned commit (py/props/c18_dump.py), used as
   non-vacuity / rejection examples in Properties/C18.v.  The comments list the symbols and nets of each layout. *)
From Coq Require Import List ZArith Bool Arith.
Import ListNotations.
From V Require Import Model.Schem Spec.C18 Proofs.C18.Sound.

(* ex_add : children ['Constant:ci', 'AddCarryIn:add', 'Range:r', 'Bit:co'] ; swallowed [] *)
(*   sym 0 KIn a for=('in', 0) cell=(0, 0) *)
(*   sym 1 KIn b for=('in', 1) cell=(2, 0) *)
(*   sym 2 KInst ci for=('ch', 0) cell=(0, 1) *)
(*   sym 3 KPass pt0 for=None cell=(1, 1) *)
(*   sym 4 KPass pt1 for=None cell=(3, 1) *)
(*   sym 5 KInst add for=('ch', 1) cell=(0, 2) *)
(*   sym 6 KInst r for=('ch', 2) cell=(0, 3) *)
(*   sym 7 KInst co for=('ch', 3) cell=(2, 3) *)
(*   sym 8 KOut r for=('out', 0) cell=(0, 4) *)
(*   sym 9 KOut co for=('out', 1) cell=(2, 4) *)
(*   net 0 w2 /HWSystem[HWSystem]/Add[dut][ci]: ci.r -> add.ci *)
(*   net 1 w3 /HWSystem[HWSystem]/Add[dut][pre_r]: add.r -> r.a *)
(*   net 2 w3 /HWSystem[HWSystem]/Add[dut][pre_r]: add.r -> co.a *)
(*   net 3 w4 /HWSystem[HWSystem][r]: r.r -> r.r *)
(*   net 4 w5 /HWSystem[HWSystem][co]: co.r -> co.co *)
(*   net 5 w0 /HWSystem[HWSystem][a]: a.a -> pt0.None *)
(*   net 6 w0 /HWSystem[HWSystem][a]: pt0.None -> add.a *)
(*   net 7 w1 /HWSystem[HWSystem][b]: b.b -> pt1.None *)
(*   net 8 w1 /HWSystem[HWSystem][b]: pt1.None -> add.b *)
Definition ex_add_c : circuit :=
  (Circ 2 2 [(0, 1); (3, 1); (1, 1); (1, 1)] [WC 0 (Pin (EIn 0) true 0) [(Pin (EChild 1) false 0)]; WC 1 (Pin (EIn 1) true 0) [(Pin (EChild 1) false 1)]; WC 2 (Pin (EChild 0) true 0) [(Pin (EChild 1) false 2)]; WC 3 (Pin (EChild 1) true 0) [(Pin (EChild 2) false 0); (Pin (EChild 3) false 0)]; WC 4 (Pin (EChild 2) true 0) [(Pin (EOut 0) false 0)]; WC 5 (Pin (EChild 3) true 0) [(Pin (EOut 1) false 0)]]).
Definition ex_add_l : layout :=
  (Lay [Sym 0 KIn (Some (EIn 0)) 0%Z 0%Z 0%Z 15%Z 15%Z 20%Z; Sym 1 KIn (Some (EIn 1)) 2%Z 0%Z 0%Z 173%Z 15%Z 20%Z; Sym 2 KInst (Some (EChild 0)) 0%Z 1%Z 55%Z 15%Z 55%Z 52%Z; Sym 3 KPass None 1%Z 1%Z 55%Z 138%Z 20%Z 20%Z; Sym 4 KPass None 3%Z 1%Z 55%Z 208%Z 20%Z 20%Z; Sym 5 KInst (Some (EChild 1)) 0%Z 2%Z 160%Z 15%Z 67%Z 108%Z; Sym 6 KInst (Some (EChild 2)) 0%Z 3%Z 257%Z 15%Z 20%Z 20%Z; Sym 7 KInst (Some (EChild 3)) 2%Z 3%Z 257%Z 173%Z 20%Z 20%Z; Sym 8 KOut (Some (EOut 0)) 0%Z 4%Z 317%Z 15%Z 15%Z 20%Z; Sym 9 KOut (Some (EOut 1)) 2%Z 4%Z 317%Z 173%Z 15%Z 20%Z] [Net 2 (End 2 (Some (Pin (EChild 0) true 0))) (End 5 (Some (Pin (EChild 1) false 2))); Net 3 (End 5 (Some (Pin (EChild 1) true 0))) (End 6 (Some (Pin (EChild 2) false 0))); Net 3 (End 5 (Some (Pin (EChild 1) true 0))) (End 7 (Some (Pin (EChild 3) false 0))); Net 4 (End 6 (Some (Pin (EChild 2) true 0))) (End 8 (Some (Pin (EOut 0) false 0))); Net 5 (End 7 (Some (Pin (EChild 3) true 0))) (End 9 (Some (Pin (EOut 1) false 0))); Net 0 (End 0 (Some (Pin (EIn 0) true 0))) (End 3 None); Net 0 (End 3 None) (End 5 (Some (Pin (EChild 1) false 0))); Net 1 (End 1 (Some (Pin (EIn 1) true 0))) (End 4 None); Net 1 (End 4 None) (End 5 (Some (Pin (EChild 1) false 1)))]).
(* the same layout with net 6 (/HWSystem[HWSystem][a]: pt0.None -> add.a) dropped *)
Definition ex_add_dropped_l : layout :=
  (Lay [Sym 0 KIn (Some (EIn 0)) 0%Z 0%Z 0%Z 15%Z 15%Z 20%Z; Sym 1 KIn (Some (EIn 1)) 2%Z 0%Z 0%Z 173%Z 15%Z 20%Z; Sym 2 KInst (Some (EChild 0)) 0%Z 1%Z 55%Z 15%Z 55%Z 52%Z; Sym 3 KPass None 1%Z 1%Z 55%Z 138%Z 20%Z 20%Z; Sym 4 KPass None 3%Z 1%Z 55%Z 208%Z 20%Z 20%Z; Sym 5 KInst (Some (EChild 1)) 0%Z 2%Z 160%Z 15%Z 67%Z 108%Z; Sym 6 KInst (Some (EChild 2)) 0%Z 3%Z 257%Z 15%Z 20%Z 20%Z; Sym 7 KInst (Some (EChild 3)) 2%Z 3%Z 257%Z 173%Z 20%Z 20%Z; Sym 8 KOut (Some (EOut 0)) 0%Z 4%Z 317%Z 15%Z 15%Z 20%Z; Sym 9 KOut (Some (EOut 1)) 2%Z 4%Z 317%Z 173%Z 15%Z 20%Z] [Net 2 (End 2 (Some (Pin (EChild 0) true 0))) (End 5 (Some (Pin (EChild 1) false 2))); Net 3 (End 5 (Some (Pin (EChild 1) true 0))) (End 6 (Some (Pin (EChild 2) false 0))); Net 3 (End 5 (Some (Pin (EChild 1) true 0))) (End 7 (Some (Pin (EChild 3) false 0))); Net 4 (End 6 (Some (Pin (EChild 2) true 0))) (End 8 (Some (Pin (EOut 0) false 0))); Net 5 (End 7 (Some (Pin (EChild 3) true 0))) (End 9 (Some (Pin (EOut 1) false 0))); Net 0 (End 0 (Some (Pin (EIn 0) true 0))) (End 3 None); Net 1 (End 1 (Some (Pin (EIn 1) true 0))) (End 4 None); Net 1 (End 4 None) (End 5 (Some (Pin (EChild 1) false 1)))]).
(* ex_counter : children ['Constant:one', 'Constant:zero', 'Mux2:muxinc', 'Mux2:muxreset', 'Or2:e_add', 'Add:add', 'Reg:reg'] ; swallowed [] *)
(*   sym 0 KIn reset for=('in', 0) cell=(0, 0) *)
(*   sym 1 KIn inc for=('in', 1) cell=(5, 0) *)
(*   sym 2 KInst one for=('ch', 0) cell=(0, 1) *)
(*   sym 3 KPass pt0 for=None cell=(4, 1) *)
(*   sym 4 KInst zero for=('ch', 1) cell=(5, 1) *)
(*   sym 5 KPass pt1 for=None cell=(6, 1) *)
(*   sym 6 KInst e_add for=('ch', 4) cell=(7, 1) *)
(*   sym 7 KFbStop fZ16 for=None cell=(9, 1) *)
(*   sym 8 KInst muxreset for=('ch', 3) cell=(0, 2) *)
(*   sym 9 KPass pt5 for=None cell=(3, 2) *)
(*   sym 10 KPass pt2 for=None cell=(6, 2) *)
(*   sym 11 KPass pt7 for=None cell=(8, 2) *)
(*   sym 12 KPass pt15 for=None cell=(9, 2) *)
(*   sym 13 KInst reg for=('ch', 6) cell=(0, 3) *)
(*   sym 14 KPass pt6 for=None cell=(3, 3) *)
(*   sym 15 KPass pt3 for=None cell=(6, 3) *)
(*   sym 16 KPass pt14 for=None cell=(9, 3) *)
(*   sym 17 KInst add for=('ch', 5) cell=(0, 4) *)
(*   sym 18 KPass pt10 for=None cell=(1, 4) *)
(*   sym 19 KPass pt8 for=None cell=(2, 4) *)
(*   sym 20 KPass pt4 for=None cell=(6, 4) *)
(*   sym 21 KPass pt13 for=None cell=(9, 4) *)
(*   sym 22 KInst muxinc for=('ch', 2) cell=(0, 5) *)
(*   sym 23 KPass pt9 for=None cell=(2, 5) *)
(*   sym 24 KPass pt12 for=None cell=(9, 5) *)
(*   sym 25 KOut q for=('out', 0) cell=(0, 6) *)
(*   sym 26 KFbStart fA11 for=None cell=(9, 6) *)
(*   net 0 w5 /HWSystem[HWSystem]/Counter[dut][add]: add.r -> muxinc.sel1 *)
(*   net 1 w3 /HWSystem[HWSystem]/Counter[dut][zero]: zero.r -> muxreset.sel1 *)
(*   net 2 w0 /HWSystem[HWSystem][rst]: reset.reset -> e_add.a *)
(*   net 3 w1 /HWSystem[HWSystem][inc]: inc.inc -> e_add.b *)
(*   net 4 w4 /HWSystem[HWSystem][q]: reg.q -> add.a *)
(*   net 5 w7 /HWSystem[HWSystem]/Counter[dut][d]: muxreset.r -> reg.d *)
(*   net 6 w0 /HWSystem[HWSystem][rst]: reset.reset -> pt0.None *)
(*   net 7 w0 /HWSystem[HWSystem][rst]: pt0.None -> muxreset.sel *)
(*   net 8 w1 /HWSystem[HWSystem][inc]: inc.inc -> pt1.None *)
(*   net 9 w1 /HWSystem[HWSystem][inc]: pt1.None -> pt2.None *)
(*   net 10 w1 /HWSystem[HWSystem][inc]: pt2.None -> pt3.None *)
(*   net 11 w1 /HWSystem[HWSystem][inc]: pt3.None -> pt4.None *)
(*   net 12 w1 /HWSystem[HWSystem][inc]: pt4.None -> muxinc.sel *)
(*   net 13 w2 /HWSystem[HWSystem]/Counter[dut][one]: one.r -> pt5.None *)
(*   net 14 w2 /HWSystem[HWSystem]/Counter[dut][one]: pt5.None -> pt6.None *)
(*   net 15 w2 /HWSystem[HWSystem]/Counter[dut][one]: pt6.None -> add.b *)
(*   net 16 w8 /HWSystem[HWSystem]/Counter[dut][e_add]: e_add.r -> pt7.None *)
(*   net 17 w8 /HWSystem[HWSystem]/Counter[dut][e_add]: pt7.None -> reg.e *)
(*   net 18 w4 /HWSystem[HWSystem][q]: reg.q -> pt8.None *)
(*   net 19 w4 /HWSystem[HWSystem][q]: pt8.None -> pt9.None *)
(*   net 20 w4 /HWSystem[HWSystem][q]: pt9.None -> q.q *)
(*   net 21 w4 /HWSystem[HWSystem][q]: reg.q -> pt10.None *)
(*   net 22 w4 /HWSystem[HWSystem][q]: pt10.None -> muxinc.sel0 *)
(*   net 23 w6 /HWSystem[HWSystem]/Counter[dut][d1]: muxinc.r -> fA11.None *)
(*   net 24 w6 /HWSystem[HWSystem]/Counter[dut][d1]: pt12.None -> fA11.None *)
(*   net 25 w6 /HWSystem[HWSystem]/Counter[dut][d1]: pt13.None -> pt12.None *)
(*   net 26 w6 /HWSystem[HWSystem]/Counter[dut][d1]: pt14.None -> pt13.None *)
(*   net 27 w6 /HWSystem[HWSystem]/Counter[dut][d1]: pt15.None -> pt14.None *)
(*   net 28 w6 /HWSystem[HWSystem]/Counter[dut][d1]: fZ16.None -> pt15.None *)
(*   net 29 w6 /HWSystem[HWSystem]/Counter[dut][d1]: fZ16.None -> muxreset.sel0 *)
Definition ex_counter_c : circuit :=
  (Circ 2 1 [(0, 1); (0, 1); (3, 1); (3, 1); (2, 1); (2, 1); (2, 1)] [WC 0 (Pin (EIn 0) true 0) [(Pin (EChild 3) false 0); (Pin (EChild 4) false 0)]; WC 1 (Pin (EIn 1) true 0) [(Pin (EChild 2) false 0); (Pin (EChild 4) false 1)]; WC 2 (Pin (EChild 0) true 0) [(Pin (EChild 5) false 1)]; WC 3 (Pin (EChild 1) true 0) [(Pin (EChild 3) false 2)]; WC 4 (Pin (EChild 6) true 0) [(Pin (EChild 2) false 1); (Pin (EChild 5) false 0); (Pin (EOut 0) false 0)]; WC 5 (Pin (EChild 5) true 0) [(Pin (EChild 2) false 2)]; WC 6 (Pin (EChild 2) true 0) [(Pin (EChild 3) false 1)]; WC 7 (Pin (EChild 3) true 0) [(Pin (EChild 6) false 0)]; WC 8 (Pin (EChild 4) true 0) [(Pin (EChild 6) false 1)]]).
Definition ex_counter_l : layout :=
  (Lay [Sym 0 KIn (Some (EIn 0)) 0%Z 0%Z 0%Z 15%Z 15%Z 20%Z; Sym 1 KIn (Some (EIn 1)) 5%Z 0%Z 0%Z 250%Z 15%Z 20%Z; Sym 2 KInst (Some (EChild 0)) 0%Z 1%Z 55%Z 15%Z 55%Z 52%Z; Sym 3 KPass None 4%Z 1%Z 55%Z 215%Z 20%Z 20%Z; Sym 4 KInst (Some (EChild 1)) 5%Z 1%Z 55%Z 250%Z 55%Z 52%Z; Sym 5 KPass None 6%Z 1%Z 55%Z 317%Z 20%Z 20%Z; Sym 6 KInst (Some (EChild 4)) 7%Z 1%Z 55%Z 352%Z 50%Z 48%Z; Sym 7 KFbStop None 9%Z 1%Z 55%Z 450%Z 20%Z 20%Z; Sym 8 KInst (Some (EChild 3)) 0%Z 2%Z 190%Z 15%Z 20%Z 68%Z; Sym 9 KPass None 3%Z 2%Z 190%Z 180%Z 20%Z 20%Z; Sym 10 KPass None 6%Z 2%Z 190%Z 317%Z 20%Z 20%Z; Sym 11 KPass None 8%Z 2%Z 190%Z 415%Z 20%Z 20%Z; Sym 12 KPass None 9%Z 2%Z 190%Z 450%Z 20%Z 20%Z; Sym 13 KInst (Some (EChild 6)) 0%Z 3%Z 280%Z 15%Z 65%Z 80%Z; Sym 14 KPass None 3%Z 3%Z 280%Z 180%Z 20%Z 20%Z; Sym 15 KPass None 6%Z 3%Z 280%Z 317%Z 20%Z 20%Z; Sym 16 KPass None 9%Z 3%Z 280%Z 450%Z 20%Z 20%Z; Sym 17 KInst (Some (EChild 5)) 0%Z 4%Z 405%Z 15%Z 50%Z 58%Z; Sym 18 KPass None 1%Z 4%Z 405%Z 110%Z 20%Z 20%Z; Sym 19 KPass None 2%Z 4%Z 405%Z 145%Z 20%Z 20%Z; Sym 20 KPass None 6%Z 4%Z 405%Z 317%Z 20%Z 20%Z; Sym 21 KPass None 9%Z 4%Z 405%Z 450%Z 20%Z 20%Z; Sym 22 KInst (Some (EChild 2)) 0%Z 5%Z 515%Z 15%Z 20%Z 68%Z; Sym 23 KPass None 2%Z 5%Z 515%Z 145%Z 20%Z 20%Z; Sym 24 KPass None 9%Z 5%Z 515%Z 450%Z 20%Z 20%Z; Sym 25 KOut (Some (EOut 0)) 0%Z 6%Z 575%Z 15%Z 15%Z 20%Z; Sym 26 KFbStart None 9%Z 6%Z 575%Z 450%Z 20%Z 20%Z] [Net 5 (End 17 (Some (Pin (EChild 5) true 0))) (End 22 (Some (Pin (EChild 2) false 2))); Net 3 (End 4 (Some (Pin (EChild 1) true 0))) (End 8 (Some (Pin (EChild 3) false 2))); Net 0 (End 0 (Some (Pin (EIn 0) true 0))) (End 6 (Some (Pin (EChild 4) false 0))); Net 1 (End 1 (Some (Pin (EIn 1) true 0))) (End 6 (Some (Pin (EChild 4) false 1))); Net 4 (End 13 (Some (Pin (EChild 6) true 0))) (End 17 (Some (Pin (EChild 5) false 0))); Net 7 (End 8 (Some (Pin (EChild 3) true 0))) (End 13 (Some (Pin (EChild 6) false 0))); Net 0 (End 0 (Some (Pin (EIn 0) true 0))) (End 3 None); Net 0 (End 3 None) (End 8 (Some (Pin (EChild 3) false 0))); Net 1 (End 1 (Some (Pin (EIn 1) true 0))) (End 5 None); Net 1 (End 5 None) (End 10 None); Net 1 (End 10 None) (End 15 None); Net 1 (End 15 None) (End 20 None); Net 1 (End 20 None) (End 22 (Some (Pin (EChild 2) false 0))); Net 2 (End 2 (Some (Pin (EChild 0) true 0))) (End 9 None); Net 2 (End 9 None) (End 14 None); Net 2 (End 14 None) (End 17 (Some (Pin (EChild 5) false 1))); Net 8 (End 6 (Some (Pin (EChild 4) true 0))) (End 11 None); Net 8 (End 11 None) (End 13 (Some (Pin (EChild 6) false 1))); Net 4 (End 13 (Some (Pin (EChild 6) true 0))) (End 19 None); Net 4 (End 19 None) (End 23 None); Net 4 (End 23 None) (End 25 (Some (Pin (EOut 0) false 0))); Net 4 (End 13 (Some (Pin (EChild 6) true 0))) (End 18 None); Net 4 (End 18 None) (End 22 (Some (Pin (EChild 2) false 1))); Net 6 (End 22 (Some (Pin (EChild 2) true 0))) (End 26 None); Net 6 (End 24 None) (End 26 None); Net 6 (End 21 None) (End 24 None); Net 6 (End 16 None) (End 21 None); Net 6 (End 12 None) (End 16 None); Net 6 (End 7 None) (End 12 None); Net 6 (End 7 None) (End 8 (Some (Pin (EChild 3) false 1)))]).
(* ex_selfloop : children ['Reg:r'] ; swallowed ['WARNING: error in passthrough: AssertionError'] *)
(*   sym 0 KIn d for=('in', 0) cell=(0, 0) *)
(*   sym 1 KPass pt2 for=None cell=(1, 0) *)
(*   sym 2 KInst r for=('ch', 0) cell=(0, 1) *)
(*   sym 3 KPass pt1 for=None cell=(1, 1) *)
(*   sym 4 KOut q for=('out', 0) cell=(0, 2) *)
(*   sym 5 KFbStart fA0 for=None cell=(1, 2) *)
(*   net 0 w0 /HWSystem[HWSystem][d]: d.d -> r.d *)
(*   net 1 w1 /HWSystem[HWSystem][q]: r.q -> q.q *)
(*   net 2 w1 /HWSystem[HWSystem][q]: r.q -> fA0.None *)
(*   net 3 w1 /HWSystem[HWSystem][q]: pt1.None -> fA0.None *)
(*   net 4 w1 /HWSystem[HWSystem][q]: pt2.None -> pt1.None *)
Definition ex_selfloop_c : circuit :=
  (Circ 1 1 [(2, 1)] [WC 0 (Pin (EIn 0) true 0) [(Pin (EChild 0) false 0)]; WC 1 (Pin (EChild 0) true 0) [(Pin (EChild 0) false 1); (Pin (EOut 0) false 0)]]).
Definition ex_selfloop_l : layout :=
  (Lay [Sym 0 KIn (Some (EIn 0)) 0%Z 0%Z 0%Z 15%Z 15%Z 20%Z; Sym 1 KPass None 1%Z 0%Z 0%Z 110%Z 20%Z 20%Z; Sym 2 KInst (Some (EChild 0)) 0%Z 1%Z 60%Z 15%Z 65%Z 80%Z; Sym 3 KPass None 1%Z 1%Z 60%Z 110%Z 20%Z 20%Z; Sym 4 KOut (Some (EOut 0)) 0%Z 2%Z 155%Z 15%Z 15%Z 20%Z; Sym 5 KFbStart None 1%Z 2%Z 155%Z 110%Z 20%Z 20%Z] [Net 0 (End 0 (Some (Pin (EIn 0) true 0))) (End 2 (Some (Pin (EChild 0) false 0))); Net 1 (End 2 (Some (Pin (EChild 0) true 0))) (End 4 (Some (Pin (EOut 0) false 0))); Net 1 (End 2 (Some (Pin (EChild 0) true 0))) (End 5 None); Net 1 (End 3 None) (End 5 None); Net 1 (End 1 None) (End 3 None)]).


(* the real layouts of Add(8 bit, carry out) and Counter(4 bit) (pass-throughs, a feedback loop) are accepted *)
Lemma ex_add_accepted : schem_ok ex_add_c ex_add_l = true.
Proof. vm_compute. reflexivity. Qed.
Lemma ex_counter_accepted : schem_ok ex_counter_c ex_counter_l = true.
Proof. vm_compute. reflexivity. Qed.
Lemma ex_add_SchemOK : SchemOK ex_add_c ex_add_l.
Proof. apply schem_ok_sound. exact ex_add_accepted. Qed.
Lemma ex_counter_SchemOK : SchemOK ex_counter_c ex_counter_l.
Proof. apply schem_ok_sound. exact ex_counter_accepted. Qed.

(* dropping the net  pt0 -> add.a  of wire a  is rejected by the validator ... *)
Lemma ex_add_dropped_rejected : schem_ok ex_add_c ex_add_dropped_l = false.
Proof. vm_compute. reflexivity. Qed.
Lemma ex_add_dropped_diag :
  schem_diag ex_add_c ex_add_dropped_l = ((true, true, true, true, true, true, false), [], [], [], [], [(0%nat, true, [0%nat], 0%nat)]).
Proof. vm_compute. reflexivity. Qed.

(* ... and really violates the declarative statement: no net of wire 0 ends at pin a of the adder *)
Lemma ex_add_dropped_not_SchemOK : ~ SchemOK ex_add_c ex_add_dropped_l.
Proof.
  intro H.
  destruct (ok_wire _ _ H (WC 0 (Pin (EIn 0) true 0) [Pin (EChild 1) false 0])) as [sd [_ [_ [Hrd _]]]].
  { simpl. left. reflexivity. }
  destruct (Hrd (Pin (EChild 1) false 0) (or_introl eq_refl)) as [sp [_ [_ [n [Hn [Hw Ha]]]]]].
  simpl in Hn.
  repeat (destruct Hn as [Hn|Hn];
          [subst n; simpl in Hw; try discriminate Hw; destruct Ha as [Ha|Ha]; inversion Ha | ]).
  contradiction Hn.
Qed.

(* the layout py4hw really produces for  Reg(d, q, enable=q)  (known finding C18-F1): the net q -> r.e is lost *)
Lemma ex_selfloop_rejected : schem_ok ex_selfloop_c ex_selfloop_l = false.
Proof. vm_compute. reflexivity. Qed.
Lemma ex_selfloop_diag :
  schem_diag ex_selfloop_c ex_selfloop_l = ((true, true, true, true, true, true, false), [], [], [], [], [(1%nat, true, [0%nat], 0%nat)]).
Proof. vm_compute. reflexivity. Qed.

Lemma ex_selfloop_not_SchemOK : ~ SchemOK ex_selfloop_c ex_selfloop_l.
Proof.
  intro H.
  destruct (ok_wire _ _ H (WC 1 (Pin (EChild 0) true 0) [Pin (EChild 0) false 1; Pin (EOut 0) false 0])) as [sd [_ [_ [Hrd _]]]].
  { simpl. right. left. reflexivity. }
  destruct (Hrd (Pin (EChild 0) false 1) (or_introl eq_refl)) as [sp [_ [_ [n [Hn [Hw Ha]]]]]].
  simpl in Hn.
  repeat (destruct Hn as [Hn|Hn];
          [subst n; simpl in Hw; try discriminate Hw; destruct Ha as [Ha|Ha]; inversion Ha | ]).
  contradiction Hn.
Qed.

(* the layout the REPAIRED insertFeedback (fixes/C18-F1.diff: the stop marker of a same-column feedback goes into the column
   before the sink, like every other feedback) builds for the same block  Reg(d, q, enable=q) : *)
(*   sym 0 KIn d for=('in', 0) cell=(0, 0) *)
(*   sym 1 KFbStop fZ2 for=None cell=(1, 0) *)
(*   sym 2 KInst r for=('ch', 0) cell=(0, 1) *)
(*   sym 3 KPass pt1 for=None cell=(1, 1) *)
(*   sym 4 KOut q for=('out', 0) cell=(0, 2) *)
(*   sym 5 KFbStart fA0 for=None cell=(1, 2) *)
(*   net 0 w0 /HWSystem[HWSystem][d]: d.d -> r.d *)
(*   net 1 w1 /HWSystem[HWSystem][q]: r.q -> q.q *)
(*   net 2 w1 /HWSystem[HWSystem][q]: r.q -> fA0.None *)
(*   net 3 w1 /HWSystem[HWSystem][q]: pt1.None -> fA0.None *)
(*   net 4 w1 /HWSystem[HWSystem][q]: fZ2.None -> pt1.None *)
(*   net 5 w1 /HWSystem[HWSystem][q]: fZ2.None -> r.e *)
Definition ex_selfloop_repaired_l : layout :=
  (Lay [Sym 0 KIn (Some (EIn 0)) 0%Z 0%Z 0%Z 15%Z 15%Z 20%Z; Sym 1 KFbStop None 1%Z 0%Z 0%Z 110%Z 20%Z 20%Z; Sym 2 KInst (Some (EChild 0)) 0%Z 1%Z 60%Z 15%Z 65%Z 80%Z; Sym 3 KPass None 1%Z 1%Z 60%Z 110%Z 20%Z 20%Z; Sym 4 KOut (Some (EOut 0)) 0%Z 2%Z 155%Z 15%Z 15%Z 20%Z; Sym 5 KFbStart None 1%Z 2%Z 155%Z 110%Z 20%Z 20%Z] [Net 0 (End 0 (Some (Pin (EIn 0) true 0))) (End 2 (Some (Pin (EChild 0) false 0))); Net 1 (End 2 (Some (Pin (EChild 0) true 0))) (End 4 (Some (Pin (EOut 0) false 0))); Net 1 (End 2 (Some (Pin (EChild 0) true 0))) (End 5 None); Net 1 (End 3 None) (End 5 None); Net 1 (End 1 None) (End 3 None); Net 1 (End 1 None) (End 2 (Some (Pin (EChild 0) false 1)))]).
Lemma ex_selfloop_repaired_accepted : schem_ok ex_selfloop_c ex_selfloop_repaired_l = true.
Proof. vm_compute. reflexivity. Qed.
Lemma ex_selfloop_repaired_SchemOK : SchemOK ex_selfloop_c ex_selfloop_repaired_l.
Proof. apply schem_ok_sound. exact ex_selfloop_repaired_accepted. Qed.
