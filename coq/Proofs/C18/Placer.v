(* C18 — the coordinate assignment of the placer (Model/Placer.v, mirror of Schematic.replaceAsColRow) never makes two
   symbols of the grid overlap: columns are disjoint x bands (prefix sums of the column widths plus channel space), rows
   are disjoint y bands (prefix sums of the row heights plus the vertical margin). *)
From Coq Require Import List ZArith Bool Arith Lia.
Import ListNotations.
From V Require Import Model.Schem Model.Placer.
Local Open Scope Z_scope.

(* ------------------------------------------------------------------ running maxima *)
Lemma fold_max_ge_init (f : nat -> Z) (l : list nat) :
  forall a, a <= fold_left (fun acc i => Z.max acc (f i)) l a.
Proof.
  induction l as [|i t IH]; intro a; simpl.
  - lia.
  - specialize (IH (Z.max a (f i))). lia.
Qed.

Lemma fold_max_ge_in (f : nat -> Z) (l : list nat) :
  forall a i, In i l -> f i <= fold_left (fun acc i => Z.max acc (f i)) l a.
Proof.
  induction l as [|j t IH]; intros a i Hin; simpl.
  - destruct Hin.
  - destruct Hin as [Heq|Hin].
    + subst j. pose proof (fold_max_ge_init f t (Z.max a (f i))) as Hge. lia.
    + apply IH. exact Hin.
Qed.

Lemma row_maxh_nonneg nc m r : 0 <= row_maxh nc m r.
Proof. unfold row_maxh. apply (fold_max_ge_init (fun c => cell_h (cell_at m r c))). Qed.

Lemma col_maxw_nonneg m c : 0 <= col_maxw m c.
Proof. unfold col_maxw. apply (fold_max_ge_init (fun r => cell_w (cell_at m r c))). Qed.

Lemma cell_h_le_row_maxh nc m r c : (c < nc)%nat -> cell_h (cell_at m r c) <= row_maxh nc m r.
Proof.
  intro Hc. unfold row_maxh.
  apply (fold_max_ge_in (fun c => cell_h (cell_at m r c))). apply in_seq. lia.
Qed.

Lemma cell_w_le_col_maxw m r c : (r < length m)%nat -> cell_w (cell_at m r c) <= col_maxw m c.
Proof.
  intro Hr. unfold col_maxw.
  apply (fold_max_ge_in (fun r => cell_w (cell_at m r c))). apply in_seq. lia.
Qed.

(* ------------------------------------------------------------------ the guards, as propositions *)
Lemma cfg_okb_spec cfg : cfg_okb cfg = true ->
  0 <= CELL_MARGIN_VERTICAL cfg /\ 0 <= CELL_MARGIN_HORIZONTAL cfg /\ 0 <= NET_SPACING cfg /\ 0 <= NET_TRACK_SPACING cfg.
Proof.
  unfold cfg_okb. intro H.
  apply andb_true_iff in H. destruct H as [H H4].
  apply andb_true_iff in H. destruct H as [H H3].
  apply andb_true_iff in H. destruct H as [H1 H2].
  apply Z.leb_le in H1. apply Z.leb_le in H2. apply Z.leb_le in H3. apply Z.leb_le in H4. lia.
Qed.

Lemma chans_okb_spec chans c ch : chans_okb chans = true -> nth_error chans c = Some ch -> 0 <= ch_fb ch /\ 0 <= ch_tracks ch.
Proof.
  unfold chans_okb. intros H Hn.
  rewrite forallb_forall in H. specialize (H ch (nth_error_In _ _ Hn)).
  apply andb_true_iff in H. destruct H as [H1 H2].
  apply Z.leb_le in H1. apply Z.leb_le in H2. lia.
Qed.

(* ------------------------------------------------------------------ the two loops only move forward *)
Lemma col_pre_ge cfg chans c x : cfg_okb cfg = true -> chans_okb chans = true -> x <= col_pre cfg chans c x.
Proof.
  intros Hcfg Hch. apply cfg_okb_spec in Hcfg. destruct Hcfg as [_ [_ [Hns Hnts]]].
  unfold col_pre. destruct (nth_error chans c) as [ch|] eqn:En; [|lia].
  destruct (chans_okb_spec _ _ _ Hch En) as [Hfb _].
  pose proof (Z.mul_nonneg_nonneg _ _ Hfb Hnts) as Hp.
  cbv zeta. destruct (0 <? ch_fb ch * NET_TRACK_SPACING cfg); lia.
Qed.

Lemma col_post_ge cfg chans m c x :
  cfg_okb cfg = true -> chans_okb chans = true -> x + col_maxw m c <= col_post cfg chans m c x.
Proof.
  intros Hcfg Hch. apply cfg_okb_spec in Hcfg. destruct Hcfg as [_ [Hcmh [Hns Hnts]]].
  unfold col_post. cbv zeta. destruct (nth_error chans c) as [ch|] eqn:En; [|lia].
  destruct (chans_okb_spec _ _ _ Hch En) as [_ Htr].
  pose proof (Z.mul_nonneg_nonneg _ _ Htr Hnts) as Hp.
  destruct (0 <? ch_tracks ch * NET_TRACK_SPACING cfg); lia.
Qed.

(* a later column starts right of where an earlier one ends (its widest symbol included) *)
Lemma col_x_mono cfg chans m : cfg_okb cfg = true -> chans_okb chans = true ->
  forall c c', (c < c')%nat -> col_x cfg chans m c + col_maxw m c <= col_x cfg chans m c'.
Proof.
  intros Hcfg Hch c c' Hlt. induction c' as [|k IH]; [lia|].
  simpl col_x.
  pose proof (col_pre_ge cfg chans (S k) (col_post cfg chans m k (col_x cfg chans m k)) Hcfg Hch) as Hpre.
  pose proof (col_post_ge cfg chans m k (col_x cfg chans m k) Hcfg Hch) as Hpost.
  destruct (Nat.eq_dec c k) as [Heq|Hne].
  - subst k. lia.
  - assert (Hck : (c < k)%nat) by lia. specialize (IH Hck).
    pose proof (col_maxw_nonneg m k) as Hk. lia.
Qed.

(* a later row starts below where an earlier one ends (its tallest symbol included) *)
Lemma row_y_mono cfg nc m : cfg_okb cfg = true ->
  forall r r', (r < r')%nat -> row_y cfg nc m r + row_maxh nc m r <= row_y cfg nc m r'.
Proof.
  intros Hcfg r r' Hlt. apply cfg_okb_spec in Hcfg. destruct Hcfg as [Hcmv _].
  induction r' as [|k IH]; [lia|].
  simpl row_y.
  destruct (Nat.eq_dec r k) as [Heq|Hne].
  - subst k. lia.
  - assert (Hrk : (r < k)%nat) by lia. specialize (IH Hrk).
    pose proof (row_maxh_nonneg nc m k) as Hk. lia.
Qed.

(* ------------------------------------------------------------------ two cells of the grid *)
Lemma cell_at_Some_row m r c s : cell_at m r c = Some s -> (r < length m)%nat.
Proof.
  unfold cell_at. intro H. destruct (Nat.lt_ge_cases r (length m)) as [Hlt|Hge]; [exact Hlt|].
  rewrite (nth_overflow m [] Hge) in H. destruct c; discriminate H.
Qed.

Lemma apartb_sym a b : apartb a b = apartb b a.
Proof.
  unfold apartb, same_cellb, overlapb.
  rewrite (Z.eqb_sym (s_row a)), (Z.eqb_sym (s_col a)).
  f_equal. f_equal.
  destruct (s_x a <? s_x b + s_w b), (s_x b <? s_x a + s_w a), (s_y a <? s_y b + s_h b), (s_y b <? s_y a + s_h a); reflexivity.
Qed.

(* the pointwise statement: two different non-empty cells (r, c) <> (r', c') inside the shape get rectangles that are apart *)
Lemma cells_apart cfg chans nc m : cfg_okb cfg = true -> chans_okb chans = true ->
  forall r c r' c' s s', (c < nc)%nat -> (c' < nc)%nat ->
    cell_at m r c = Some s -> cell_at m r' c' = Some s' -> (r, c) <> (r', c') ->
    apartb (mk_sym cfg chans nc m r c s) (mk_sym cfg chans nc m r' c' s') = true.
Proof.
  intros Hcfg Hch r c r' c' s s' Hc Hc' Hs Hs' Hne.
  pose proof (cell_at_Some_row _ _ _ _ Hs) as Hr. pose proof (cell_at_Some_row _ _ _ _ Hs') as Hr'.
  pose proof (cell_h_le_row_maxh nc m r c Hc) as Hh. rewrite Hs in Hh. simpl in Hh.
  pose proof (cell_h_le_row_maxh nc m r' c' Hc') as Hh'. rewrite Hs' in Hh'. simpl in Hh'.
  pose proof (cell_w_le_col_maxw m r c Hr) as Hw. rewrite Hs in Hw. simpl in Hw.
  pose proof (cell_w_le_col_maxw m r' c' Hr') as Hw'. rewrite Hs' in Hw'. simpl in Hw'.
  unfold apartb, same_cellb, overlapb, mk_sym. simpl.
  apply andb_true_iff. split; apply negb_true_iff.
  - (* not in one cell *)
    apply andb_false_iff.
    destruct (Nat.eq_dec r r') as [Er|Er].
    + right. apply Z.eqb_neq. intro Hz. apply Nat2Z.inj in Hz. apply Hne. subst. reflexivity.
    + left. apply Z.eqb_neq. intro Hz. apply Nat2Z.inj in Hz. apply Er. exact Hz.
  - (* rectangles do not overlap *)
    destruct (lt_eq_lt_dec r r') as [[Hlt|Heq]|Hgt].
    + (* row r above row r' *)
      pose proof (row_y_mono cfg nc m Hcfg r r' Hlt) as Hy.
      assert (Hf : (row_y cfg nc m r' <? row_y cfg nc m r + cs_h s) = false) by (apply Z.ltb_ge; lia).
      rewrite Hf. rewrite andb_false_r. reflexivity.
    + subst r'.
      destruct (lt_eq_lt_dec c c') as [[Hclt|Hceq]|Hcgt].
      * pose proof (col_x_mono cfg chans m Hcfg Hch c c' Hclt) as Hx.
        assert (Hf : (col_x cfg chans m c' <? col_x cfg chans m c + cs_w s) = false) by (apply Z.ltb_ge; lia).
        rewrite Hf. rewrite andb_false_r. reflexivity.
      * exfalso. apply Hne. subst c'. reflexivity.
      * pose proof (col_x_mono cfg chans m Hcfg Hch c' c Hcgt) as Hx.
        assert (Hf : (col_x cfg chans m c <? col_x cfg chans m c' + cs_w s') = false) by (apply Z.ltb_ge; lia).
        rewrite Hf. reflexivity.
    + pose proof (row_y_mono cfg nc m Hcfg r' r Hgt) as Hy.
      assert (Hf : (row_y cfg nc m r <? row_y cfg nc m r' + cs_h s') = false) by (apply Z.ltb_ge; lia).
      rewrite Hf. rewrite andb_false_r. reflexivity.
Qed.

(* ------------------------------------------------------------------ all_pairs over concatenations *)
Lemma all_pairs_app {A} (f : A -> A -> bool) (l1 l2 : list A) :
  all_pairs f l1 = true -> all_pairs f l2 = true -> (forall a b, In a l1 -> In b l2 -> f a b = true) ->
  all_pairs f (l1 ++ l2) = true.
Proof.
  intros H1 H2 Hx. induction l1 as [|x t IH]; simpl; [exact H2|].
  simpl in H1. apply andb_true_iff in H1. destruct H1 as [Hxt Ht].
  apply andb_true_iff. split.
  - rewrite forallb_app. apply andb_true_iff. split; [exact Hxt|].
    apply forallb_forall. intros b Hb. apply Hx; [left; reflexivity|exact Hb].
  - apply IH; [exact Ht|]. intros a b Ha Hb. apply Hx; [right; exact Ha|exact Hb].
Qed.

Lemma all_pairs_flat_map_seq {A} (f : A -> A -> bool) (g : nat -> list A) :
  (forall i, all_pairs f (g i) = true) ->
  (forall i j a b, (i < j)%nat -> In a (g i) -> In b (g j) -> f a b = true) ->
  forall n s, all_pairs f (flat_map g (seq s n)) = true.
Proof.
  intros Hin Hx. induction n as [|n IH]; intro s; simpl; [reflexivity|].
  apply all_pairs_app; [apply Hin|apply IH|].
  intros a b Ha Hb. apply in_flat_map in Hb. destruct Hb as [j [Hj Hb]].
  apply in_seq in Hj. apply (Hx s j); [lia|exact Ha|exact Hb].
Qed.

Lemma all_pairs_filter {A} (f : A -> A -> bool) (p : A -> bool) (l : list A) :
  all_pairs f l = true -> all_pairs f (filter p l) = true.
Proof.
  induction l as [|x t IH]; simpl; intro H; [reflexivity|].
  apply andb_true_iff in H. destruct H as [Hx Ht].
  destruct (p x); simpl; [|apply IH; exact Ht].
  apply andb_true_iff. split; [|apply IH; exact Ht].
  apply forallb_forall. intros b Hb. apply filter_In in Hb. destruct Hb as [Hb _].
  rewrite forallb_forall in Hx. apply Hx. exact Hb.
Qed.

Lemma all_pairs_nth {A} (f : A -> A -> bool) (l : list A) :
  all_pairs f l = true -> forall i j a b, (i < j)%nat -> nth_error l i = Some a -> nth_error l j = Some b -> f a b = true.
Proof.
  induction l as [|x t IH]; intros H i j a b Hlt Hi Hj.
  - destruct i; discriminate Hi.
  - simpl in H. apply andb_true_iff in H. destruct H as [Hx Ht].
    destruct j as [|j]; [lia|]. simpl in Hj.
    destruct i as [|i].
    + simpl in Hi. injection Hi as Hi. subst x.
      rewrite forallb_forall in Hx. apply Hx. eapply nth_error_In. exact Hj.
    + simpl in Hi. apply (IH Ht i j); [lia|exact Hi|exact Hj].
Qed.

(* ------------------------------------------------------------------ what the output list consists of *)
Lemma placed_In cfg chans nc m r c a :
  In a (placed cfg chans nc m r c) <-> exists s, cell_at m r c = Some s /\ a = mk_sym cfg chans nc m r c s.
Proof.
  unfold placed. destruct (cell_at m r c) as [s|]; simpl; split.
  - intros [H|[]]. exists s. split; [reflexivity|symmetry; exact H].
  - intros [s' [Hs Ha]]. injection Hs as Hs. subst s'. left. symmetry. exact Ha.
  - intros [].
  - intros [s' [Hs _]]. discriminate Hs.
Qed.

(* exactly the non-empty cells inside the shape, each with the coordinates of its row and column *)
Lemma place_In cfg chans nc m a :
  In a (place cfg chans nc m) <->
  exists r c s, (r < length m)%nat /\ (c < nc)%nat /\ cell_at m r c = Some s /\ a = mk_sym cfg chans nc m r c s.
Proof.
  unfold place. rewrite in_flat_map. split.
  - intros [r [Hr Ha]]. apply in_flat_map in Ha. destruct Ha as [c [Hc Ha]].
    apply in_seq in Hr. apply in_seq in Hc. apply placed_In in Ha. destruct Ha as [s [Hs Ha]].
    exists r, c, s. repeat split; [lia|lia|exact Hs|exact Ha].
  - intros [r [c [s [Hr [Hc [Hs Ha]]]]]]. exists r. split; [apply in_seq; lia|].
    apply in_flat_map. exists c. split; [apply in_seq; lia|]. apply placed_In. exists s. split; assumption.
Qed.

Lemma place_all_pairs cfg chans nc m : cfg_okb cfg = true -> chans_okb chans = true ->
  all_pairs apartb (place cfg chans nc m) = true.
Proof.
  intros Hcfg Hch. unfold place.
  apply all_pairs_flat_map_seq.
  - (* inside one row *)
    intro r. apply all_pairs_flat_map_seq.
    + intro c. unfold placed. destruct (cell_at m r c); reflexivity.
    + intros c c' a b Hlt Ha Hb.
      (* the columns are < nc because they come from seq 0 nc: recover it from membership *)
      apply placed_In in Ha. destruct Ha as [s [Hs Ha]]. apply placed_In in Hb. destruct Hb as [s' [Hs' Hb]].
      subst a b.
      (* same row, c < c': the x bands are ordered (no bound on the column index is needed for this direction) *)
      pose proof (col_x_mono cfg chans m Hcfg Hch c c' Hlt) as Hx.
      pose proof (cell_w_le_col_maxw m r c (cell_at_Some_row _ _ _ _ Hs)) as Hw. rewrite Hs in Hw. simpl in Hw.
      unfold apartb, same_cellb, overlapb, mk_sym. simpl.
      assert (Hcc : (Z.of_nat c =? Z.of_nat c') = false) by (apply Z.eqb_neq; lia).
      rewrite Hcc, andb_false_r. simpl.
      assert (Hf : (col_x cfg chans m c' <? col_x cfg chans m c + cs_w s) = false) by (apply Z.ltb_ge; lia).
      rewrite Hf, andb_false_r. reflexivity.
  - (* different rows *)
    intros r r' a b Hlt Ha Hb.
    apply in_flat_map in Ha. destruct Ha as [c [Hc Ha]]. apply in_flat_map in Hb. destruct Hb as [c' [Hc' Hb]].
    apply in_seq in Hc. apply in_seq in Hc'.
    apply placed_In in Ha. destruct Ha as [s [Hs Ha]]. apply placed_In in Hb. destruct Hb as [s' [Hs' Hb]].
    subst a b.
    apply (cells_apart cfg chans nc m Hcfg Hch r c r' c' s s'); [lia|lia|exact Hs|exact Hs'|].
    intro Heq. injection Heq as Heq _. lia.
Qed.

(* the theorem: any two distinct entries of the output (= any two distinct non-empty cells) are apart, in both orders *)
Lemma place_no_overlap cfg chans nc m : cfg_okb cfg = true -> chans_okb chans = true ->
  all_pairs apartb (place cfg chans nc m) = true /\
  (forall i j a b, i <> j -> nth_error (place cfg chans nc m) i = Some a -> nth_error (place cfg chans nc m) j = Some b ->
     apartb a b = true) /\
  (forall r c r' c' s s', (c < nc)%nat -> (c' < nc)%nat -> cell_at m r c = Some s -> cell_at m r' c' = Some s' -> (r, c) <> (r', c') ->
     In (mk_sym cfg chans nc m r c s) (place cfg chans nc m) /\ In (mk_sym cfg chans nc m r' c' s') (place cfg chans nc m) /\
     apartb (mk_sym cfg chans nc m r c s) (mk_sym cfg chans nc m r' c' s') = true).
Proof.
  intros Hcfg Hch. pose proof (place_all_pairs cfg chans nc m Hcfg Hch) as Hall.
  split; [exact Hall|]. split.
  - intros i j a b Hne Hi Hj.
    destruct (Nat.lt_ge_cases i j) as [Hlt|Hge].
    + apply (all_pairs_nth apartb _ Hall i j a b Hlt Hi Hj).
    + rewrite apartb_sym. apply (all_pairs_nth apartb _ Hall j i b a); [lia|exact Hj|exact Hi].
  - intros r c r' c' s s' Hc Hc' Hs Hs' Hne. split; [|split].
    + apply place_In. exists r, c, s. repeat split; [exact (cell_at_Some_row _ _ _ _ Hs)|exact Hc|exact Hs].
    + apply place_In. exists r', c', s'. repeat split; [exact (cell_at_Some_row _ _ _ _ Hs')|exact Hc'|exact Hs'].
    + apply (cells_apart cfg chans nc m Hcfg Hch); assumption.
Qed.

(* ------------------------------------------------------------------ corollary: the validator's geometry clause *)
Lemma nth_Some_In {A} (l : list (option A)) c (s : A) : nth c l None = Some s -> In (Some s) l.
Proof.
  intro H. destruct (Nat.lt_ge_cases c (length l)) as [Hlt|Hge].
  - rewrite <- H. apply nth_In. exact Hlt.
  - rewrite (nth_overflow l None Hge) in H. discriminate H.
Qed.

Lemma place_chk_geom cfg chans nc m nets pins marks :
  cfg_okb cfg = true -> chans_okb chans = true -> sizes_posb m = true ->
  chk_geom (Lay (place cfg chans nc m) nets pins marks) = true.
Proof.
  intros Hcfg Hch Hsz. unfold chk_geom, real_syms. simpl l_syms.
  apply andb_true_iff. split.
  - apply forallb_forall. intros a Ha. apply filter_In in Ha. destruct Ha as [Ha Hreal].
    apply place_In in Ha. destruct Ha as [r [c [s [Hr [Hc [Hs Ha]]]]]]. subst a.
    unfold is_real, mk_sym in Hreal. simpl in Hreal. unfold mk_sym. simpl.
    unfold sizes_posb in Hsz. rewrite forallb_forall in Hsz.
    unfold cell_at in Hs.
    specialize (Hsz (nth r m []) (nth_In m [] Hr)). rewrite forallb_forall in Hsz.
    specialize (Hsz (Some s) (nth_Some_In _ _ _ Hs)). simpl in Hsz.
    apply negb_true_iff in Hreal. rewrite Hreal in Hsz. simpl in Hsz. exact Hsz.
  - apply all_pairs_filter. apply place_all_pairs; assumption.
Qed.

(* ------------------------------------------------------------------ a concrete 3 x 2 grid *)
Lemma ex_place_value :
  place py_cfg ex_chans 3 ex_m =
  [ Sym 0 KIn (Some (EIn 0)) 0 0 0 15 40 20;  Sym 2 KInst (Some (EChild 0)) 0 1 85 15 60 50;  Sym 3 KOut (Some (EOut 0)) 0 2 175 15 40 20;
    Sym 1 KIn (Some (EIn 1)) 1 0 0 80 45 20;  Sym 4 KPass None 1 2 175 80 10 4 ].
Proof. vm_compute. reflexivity. Qed.

Lemma ex_place_guards : cfg_okb py_cfg = true /\ chans_okb ex_chans = true /\ sizes_posb ex_m = true.
Proof. vm_compute. repeat split. Qed.

Lemma ex_place_chk_geom : chk_geom (Lay (place py_cfg ex_chans 3 ex_m) [] [] []) = true.
Proof. vm_compute. reflexivity. Qed.

(* the guard is needed: with a negative horizontal margin two symbols of one row DO overlap *)
Lemma ex_place_negative_margin_overlaps :
  all_pairs apartb (place (PCfg 5 15 (-100) 15 10) ex_chans 3 ex_m) = false.
Proof. vm_compute. reflexivity. Qed.
