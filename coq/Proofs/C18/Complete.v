(* C18 — the validator is also COMPLETE for the declarative statement:  SchemOK c l -> schem_ok c l = true.
   Together with Sound.v:  schem_ok c l = true <-> SchemOK c l  — the validator can neither accept a wrong
   schematic nor reject a right one (relative to Spec/C18.v).  The interesting part is the closure: it stops at a
   fixpoint before the fuel  2|E|+2  runs out, and a fixpoint containing the driver contains everything connected to it. *)
From Coq Require Import List ZArith Bool Arith Lia.
Import ListNotations.
From V Require Import Model.Schem Spec.C18 Proofs.C18.Sound.

(* ------------------------------------------------------------------ list helpers *)
Lemma nodupb_complete {A} (eqb : A -> A -> bool) (Heq : forall a b, eqb a b = true <-> a = b) (l : list A) :
  NoDup l -> nodupb eqb l = true.
Proof.
  induction 1 as [|x t Hnin Hnd IH]; simpl; [reflexivity|].
  rewrite IH, andb_true_r. apply negb_true_iff.
  destruct (existsb (eqb x) t) eqn:He; [|reflexivity].
  apply existsb_exists in He. destruct He as [y [Hy Hxy]]. apply Heq in Hxy. subst y. contradiction.
Qed.

Lemma count_zero_intro {A} (f : A -> bool) (l : list A) : (forall s, In s l -> f s = false) -> count f l = O.
Proof.
  induction l as [|x t IH]; simpl; intro H; [reflexivity|].
  rewrite (H x (or_introl eq_refl)). simpl. apply IH. intros s Hs. apply H. right. exact Hs.
Qed.

Lemma count_one_intro {A} (f : A -> bool) (l : list A) (s : A) :
  NoDup l -> In s l -> f s = true -> (forall s', In s' l -> f s' = true -> s' = s) -> count f l = 1%nat.
Proof.
  induction l as [|x t IH]; simpl; intros Hnd Hin Hfs Hu; [contradiction|].
  inversion Hnd as [|x' t' Hnin Hnd']; subst.
  destruct (f x) eqn:Hfx.
  - assert (x = s) by (apply Hu; [left; reflexivity | exact Hfx]). subst x.
    rewrite count_zero_intro; [reflexivity|].
    intros s' Hs'. destruct (f s') eqn:Hfs'; [|reflexivity].
    assert (s' = s) by (apply Hu; [right; exact Hs' | exact Hfs']). subst s'. contradiction.
  - simpl. destruct Hin as [Hin|Hin]; [subst x; rewrite Hfs in Hfx; discriminate Hfx|].
    apply IH; try assumption. intros s' Hs' Hf. apply Hu; [right; exact Hs' | exact Hf].
Qed.

Lemma all_pairs_complete {A} (key : A -> nat) (f : A -> A -> bool) (l : list A) :
  NoDup (map key l) -> (forall a b, In a l -> In b l -> key a <> key b -> f a b = true) -> all_pairs f l = true.
Proof.
  induction l as [|x t IH]; simpl; intros Hnd H; [reflexivity|].
  inversion Hnd as [|k ks Hnin Hnd']; subst.
  apply andb_true_iff. split.
  - apply forallb_forall. intros y Hy. apply H; [left; reflexivity | right; exact Hy|].
    intro Hk. apply Hnin. rewrite Hk. apply in_map. exact Hy.
  - apply IH; [exact Hnd'|]. intros a b Ha Hb. apply H; right; assumption.
Qed.

Lemma all_pairs_total {A} (f : A -> A -> bool) (l : list A) :
  (forall a b, In a l -> In b l -> f a b = true) -> all_pairs f l = true.
Proof.
  induction l as [|x t IH]; simpl; intro H; [reflexivity|].
  apply andb_true_iff. split.
  - apply forallb_forall. intros y Hy. apply H; [left; reflexivity | right; exact Hy].
  - apply IH. intros a b Ha Hb. apply H; right; assumption.
Qed.

Lemma NoDup_map_filter {A} (key : A -> nat) (g : A -> bool) (l : list A) :
  NoDup (map key l) -> NoDup (map key (filter g l)).
Proof.
  induction l as [|x t IH]; simpl; intro H; [constructor|].
  inversion H as [|k ks Hnin Hnd]; subst.
  destruct (g x); simpl; [|apply IH; exact Hnd].
  constructor; [|apply IH; exact Hnd].
  intro Hin. apply Hnin. apply in_map_iff in Hin. destruct Hin as [y [Hk Hy]]. apply filter_In in Hy.
  rewrite <- Hk. apply in_map. tauto.
Qed.

Lemma find_ex {A} (f : A -> bool) (l : list A) (x : A) : In x l -> f x = true -> exists y, find f l = Some y.
Proof.
  intros Hin Hf. destruct (find f l) as [y|] eqn:Hfd; [exists y; reflexivity|].
  rewrite (find_none f l Hfd x Hin) in Hf. discriminate Hf.
Qed.

Lemma skind_eqb_refl k : skind_eqb k k = true.
Proof. destruct k; reflexivity. Qed.

(* ------------------------------------------------------------------ circuit *)
Lemma drv_pin_ok_complete c p : DrvPin c p -> drv_pin_ok c p = true.
Proof.
  unfold DrvPin, drv_pin_ok. intros [Ho H]. rewrite Ho. simpl.
  destruct (p_el p) as [i|k|j].
  - destruct H as [H1 H2]. apply andb_true_iff. split; [apply Nat.ltb_lt; exact H1 | apply Nat.eqb_eq; exact H2].
  - destruct H as [io [Hn Hlt]]. rewrite Hn. apply Nat.ltb_lt. exact Hlt.
  - contradiction.
Qed.

Lemma rd_pin_ok_complete c p : RdPin c p -> rd_pin_ok c p = true.
Proof.
  unfold RdPin, rd_pin_ok. intros [Ho H]. rewrite Ho. simpl.
  destruct (p_el p) as [i|k|j].
  - contradiction.
  - destruct H as [io [Hn Hlt]]. rewrite Hn. apply Nat.ltb_lt. exact Hlt.
  - destruct H as [H1 H2]. apply andb_true_iff. split; [apply Nat.ltb_lt; exact H1 | apply Nat.eqb_eq; exact H2].
Qed.

Theorem circ_ok_complete c : CircWF c -> circ_ok c = true.
Proof.
  intros [Hi Hd Hr Hp]. unfold circ_ok. rewrite !andb_true_iff. split; [split|].
  - apply (nodupb_complete Nat.eqb Nat.eqb_eq). exact Hi.
  - apply forallb_forall. intros w Hw. apply andb_true_iff. split.
    + apply drv_pin_ok_complete. apply Hd. exact Hw.
    + apply forallb_forall. intros p Hpin. apply rd_pin_ok_complete. apply (Hr w p Hw Hpin).
  - apply (nodupb_complete pin_eqb pin_eqb_eq). exact Hp.
Qed.

Lemma find_wire_complete c w : NoDup (map w_id (c_wires c)) -> In w (c_wires c) -> find_wire c (w_id w) = Some w.
Proof. intros Hnd Hin. unfold find_wire. apply (find_unique w_id); assumption. Qed.

(* ------------------------------------------------------------------ the closure reaches its fixpoint *)
Definition closed (E : list (node * node)) (R : list node) : Prop :=
  forall e, In e E -> mem (fst e) R = mem (snd e) R.

Lemma grow1_cases acc e :
  (grow1 acc e = acc /\ mem (fst e) acc = mem (snd e) acc) \/
  (exists x, grow1 acc e = x :: acc /\ mem x acc = false /\ (x = fst e \/ x = snd e)).
Proof.
  unfold grow1. destruct (mem (fst e) acc) eqn:Ha, (mem (snd e) acc) eqn:Hb.
  - left. auto.
  - right. exists (snd e). auto.
  - right. exists (fst e). auto.
  - left. auto.
Qed.

Section Closure.
  Variable U : list node.

  Lemma fold_grow1_props (E' : list (node * node)) :
    (forall e, In e E' -> In (fst e) U /\ In (snd e) U) ->
    forall acc, NoDup acc -> incl acc U ->
      let R := fold_left grow1 E' acc in
      NoDup R /\ incl R U /\ incl acc R /\ (length acc <= length R)%nat /\
      (length R = length acc -> R = acc /\ forall e, In e E' -> mem (fst e) acc = mem (snd e) acc).
  Proof.
    induction E' as [|e t IH]; simpl; intros HU acc Hnd Hin.
    - split; [exact Hnd|]. split; [exact Hin|]. split; [apply incl_refl|]. split; [lia|].
      intros _. split; [reflexivity|]. intros e [].
    - assert (HUt : forall e', In e' t -> In (fst e') U /\ In (snd e') U) by (intros e' He'; apply HU; right; exact He').
      destruct (grow1_cases acc e) as [[Heq Hm]|[x [Heq [Hx Hxe]]]]; rewrite Heq.
      + destruct (IH HUt acc Hnd Hin) as [H1 [H2 [H3 [H4 H5]]]].
        repeat split; auto.
        * apply H5. assumption.
        * intros e' [He'|He']; [subst e'; exact Hm | apply (proj2 (H5 H)); exact He'].
      + assert (Hnd' : NoDup (x :: acc)).
        { constructor; [|exact Hnd]. intro Hc. apply mem_In in Hc. rewrite Hc in Hx. discriminate Hx. }
        assert (Hin' : incl (x :: acc) U).
        { intros y [Hy|Hy]; [subst y; destruct (HU e (or_introl eq_refl)) as [Hf Hs]; destruct Hxe; subst x; assumption | apply Hin; exact Hy]. }
        destruct (IH HUt (x :: acc) Hnd' Hin') as [H1 [H2 [H3 [H4 H5]]]].
        split; [exact H1|]. split; [exact H2|]. split; [intros y Hy; apply H3; right; exact Hy|].
        simpl in H4. split; [lia|]. intro Hlen. exfalso. lia.
  Qed.

  Variable E : list (node * node).
  Hypothesis HU : forall e, In e E -> In (fst e) U /\ In (snd e) U.

  Lemma reach_props fuel : forall R, NoDup R -> incl R U ->
    let R' := reach fuel E R in
    NoDup R' /\ incl R' U /\ incl R R' /\ (closed E R' \/ (length R + fuel <= length R')%nat).
  Proof.
    induction fuel as [|f IH]; simpl; intros R Hnd Hin.
    - split; [exact Hnd|]. split; [exact Hin|]. split; [apply incl_refl|]. right. lia.
    - destruct (fold_grow1_props E HU R Hnd Hin) as [H1 [H2 [H3 [H4 H5]]]]. fold (grow E R) in *.
      destruct (Nat.eqb (length (grow E R)) (length R)) eqn:Hl.
      + apply Nat.eqb_eq in Hl. destruct (H5 Hl) as [_ Hc].
        split; [exact Hnd|]. split; [exact Hin|]. split; [apply incl_refl|]. left. exact Hc.
      + apply Nat.eqb_neq in Hl. destruct (IH (grow E R) H1 H2) as [K1 [K2 [K3 K4]]].
        split; [exact K1|]. split; [exact K2|]. split; [intros y Hy; apply K3; apply H3; exact Hy|].
        destruct K4 as [K4|K4]; [left; exact K4 | right; lia].
  Qed.
End Closure.

Definition universe (root : node) (E : list (node * node)) : list node := root :: flat_map (fun e => [fst e; snd e]) E.

Lemma universe_length root E : length (universe root E) = S (2 * length E).
Proof. unfold universe. simpl. f_equal. induction E as [|e t IH]; simpl; [reflexivity | rewrite IH; lia]. Qed.

Lemma universe_edges root E e : In e E -> In (fst e) (universe root E) /\ In (snd e) (universe root E).
Proof.
  intro He. unfold universe. split; right; apply in_flat_map; exists e; simpl; auto.
Qed.

Lemma reach_fixpoint root E :
  let R := reach (fuel_for E) E [root] in closed E R /\ In root R.
Proof.
  assert (Hnd : NoDup [root]) by (constructor; [intros [] | constructor]).
  assert (Hin : incl [root] (universe root E)) by (intros y [Hy|[]]; subst; left; reflexivity).
  pose proof (reach_props (universe root E) E (universe_edges root E) (fuel_for E) [root] Hnd Hin) as HP.
  cbv zeta in HP. cbv zeta.
  set (R := reach (fuel_for E) E [root]) in *.
  destruct HP as [H1 [H2 [H3 H4]]].
  split; [|apply H3; left; reflexivity].
  destruct H4 as [H4|H4]; [exact H4|]. exfalso.
  pose proof (NoDup_incl_length H1 H2) as Hle. rewrite universe_length in Hle.
  change (length [root]) with 1%nat in H4. unfold fuel_for in H4. lia.
Qed.

Lemma closed_contains l wid root R :
  NoDup (map s_id (l_syms l)) -> closed (edges l wid) R -> In root R ->
  forall nd, connected l wid root nd -> In nd R.
Proof.
  intros Hnd Hc Hroot nd Hconn. induction Hconn as [a|a b c Hab IH Hbc]; [exact Hroot|].
  specialize (IH Hroot). apply mem_In in IH.
  destruct Hbc as [n x y Hn Hw Hx Hy|n x y Hn Hw Hx Hy];
    apply (attach_fun l _ _ Hnd) in Hx; apply (attach_fun l _ _ Hnd) in Hy; subst x y;
    pose proof (Hc _ (edges_of_net l wid n Hn Hw)) as He; simpl in He; apply mem_In; congruence.
Qed.

(* ------------------------------------------------------------------ clause by clause *)
Section Complete.
  Variables (c : circuit) (l : layout).
  Hypothesis H : SchemOK c l.

  Let Hnd : NoDup (map s_id (l_syms l)) := ok_ids c l H.

  Lemma NoDup_real : NoDup (real_syms l).
  Proof. unfold real_syms. apply NoDup_filter. apply (NoDup_map_inv s_id). exact Hnd. Qed.

  Lemma sym_of_complete e s : StandsFor l s e -> sym_of l e = Some s.
  Proof.
    intros [Hr [Hf Hk]]. unfold sym_of.
    assert (Hs : stands_for e s = true) by (unfold stands_for; apply oelem_eqb_eq; exact Hf).
    destruct (find_ex (stands_for e) (real_syms l) s (proj2 (real_syms_In l s) Hr) Hs) as [y Hy].
    rewrite Hy. f_equal. apply find_some in Hy. destruct Hy as [Hyin Hye].
    apply real_syms_In in Hyin. unfold stands_for in Hye. apply oelem_eqb_eq in Hye.
    destruct (ok_only c l H s Hr) as [e' [Hel [_ [Hf' _]]]].
    assert (e' = e) by congruence. subst e'.
    destruct (ok_each c l H e Hel) as [s0 [_ Hu]].
    rewrite (Hu y Hyin Hye). rewrite (Hu s Hr Hf). reflexivity.
  Qed.

  Lemma chk_only_complete : chk_only c l = true.
  Proof.
    unfold chk_only. apply forallb_forall. intros s Hs. apply real_syms_In in Hs.
    destruct (ok_only c l H s Hs) as [e [Hel [_ [Hf Hk]]]]. rewrite Hf.
    apply andb_true_iff. split; [apply elem_ok_Elem; exact Hel | rewrite Hk; apply skind_eqb_refl].
  Qed.

  Lemma elems_Elem e : In e (elems c) -> Elem c e.
  Proof.
    unfold elems. rewrite !in_app_iff, !in_map_iff.
    intros [[i [He Hi]]|[[i [He Hi]]|[i [He Hi]]]]; subst e; apply in_seq in Hi; simpl; lia.
  Qed.

  Lemma chk_each_complete : chk_each c l = true.
  Proof.
    unfold chk_each. apply forallb_forall. intros e He. apply Nat.eqb_eq.
    destruct (ok_each c l H e (elems_Elem e He)) as [s [[Hr [Hf Hk]] Hu]].
    apply (count_one_intro (stands_for e) (real_syms l) s NoDup_real).
    - apply real_syms_In. exact Hr.
    - unfold stands_for. apply oelem_eqb_eq. exact Hf.
    - intros s' Hs' Hfs'. apply Hu; [apply real_syms_In; exact Hs'|].
      unfold stands_for in Hfs'. apply oelem_eqb_eq in Hfs'. exact Hfs'.
  Qed.

  Lemma apartb_complete a b : ~ same_cell a b -> ~ overlap a b -> apartb a b = true.
  Proof.
    unfold same_cell, overlap, apartb, same_cellb, overlapb. intros H1 H2.
    apply andb_true_iff. split; apply negb_true_iff.
    - destruct (Z.eqb_spec (s_row a) (s_row b)) as [Er|Er]; [|reflexivity].
      destruct (Z.eqb_spec (s_col a) (s_col b)) as [Ec|Ec]; [|reflexivity].
      exfalso. apply H1. auto.
    - destruct (Z.ltb_spec (s_x a) (s_x b + s_w b)) as [E1|E1]; [|reflexivity].
      destruct (Z.ltb_spec (s_x b) (s_x a + s_w a)) as [E2|E2]; [|reflexivity].
      destruct (Z.ltb_spec (s_y a) (s_y b + s_h b)) as [E3|E3]; [|reflexivity].
      destruct (Z.ltb_spec (s_y b) (s_y a + s_h a)) as [E4|E4]; [|reflexivity].
      exfalso. apply H2. auto.
  Qed.

  Lemma chk_geom_complete : chk_geom l = true.
  Proof.
    unfold chk_geom. apply andb_true_iff. split.
    - apply forallb_forall. intros s Hs. apply real_syms_In in Hs.
      destruct (ok_size c l H s Hs) as [Hw Hh]. apply andb_true_iff. split; apply Z.ltb_lt; assumption.
    - apply (all_pairs_complete s_id).
      + unfold real_syms. apply NoDup_map_filter. exact Hnd.
      + intros a b Ha Hb Hne. apply real_syms_In in Ha. apply real_syms_In in Hb.
        destruct (ok_apart c l H a b Ha Hb Hne) as [H1 H2]. apply apartb_complete; assumption.
  Qed.

  Lemma end_ok_complete w e : EndOK c l w e -> end_ok l w e = true.
  Proof.
    intros [s [Hin [Hid [Hv Hr]]]]. unfold end_ok.
    rewrite (find_sym_complete l (e_sym e) s Hnd Hin Hid).
    destruct (virtual (s_kind s)) eqn:Hvs.
    - destruct (e_pin e) as [p|] eqn:Hp; [|reflexivity].
      apply pin_of_wire_In. apply wire_pins_PinOfWire. apply (Hv eq_refl p). reflexivity.
    - destruct (Hr eq_refl) as [p [Hp [Hf [Hpw _]]]]. rewrite Hp.
      apply andb_true_iff. split.
      + apply pin_of_wire_In. apply wire_pins_PinOfWire. exact Hpw.
      + unfold stands_for. apply oelem_eqb_eq. exact Hf.
  Qed.

  Lemma chk_ends_complete : chk_ends c l = true.
  Proof.
    unfold chk_ends. apply forallb_forall. intros n Hn.
    destruct (ok_ends c l H n Hn) as [w [Hw [Hid [H1 H2]]]].
    unfold net_ok. rewrite <- Hid. rewrite (find_wire_complete c w (wf_ids c (ok_circ c l H)) Hw).
    apply andb_true_iff. split; apply end_ok_complete; assumption.
  Qed.

  Lemma chk_wire_complete w : In w (c_wires c) -> chk_wire l w = true.
  Proof.
    intro Hw. destruct (ok_wire c l H w Hw) as [sd [Hsd [Hnets [Hrd _]]]].
    unfold chk_wire. rewrite (sym_of_complete _ _ Hsd).
    set (root := (s_id sd, Some (w_drv w))) in *.
    set (E := edges l (w_id w)).
    destruct (reach_fixpoint root E) as [Hc Hroot].
    pose proof (closed_contains l (w_id w) root _ Hnd Hc Hroot) as Hall.
    apply andb_true_iff. split.
    - apply forallb_forall. intros e He. unfold E, edges in He. apply in_map_iff in He.
      destruct He as [n [He Hn]]. apply filter_In in Hn. destruct Hn as [Hn Hwn]. apply Nat.eqb_eq in Hwn. subst e. simpl.
      apply andb_true_iff. split; apply mem_In; apply Hall; apply (Hnets n _ Hn Hwn);
        [left | right]; apply attach_nnode; exact Hnd.
    - apply forallb_forall. intros p Hp. destruct (Hrd p Hp) as [sp [Hsp [Hconn _]]].
      rewrite (sym_of_complete _ _ Hsp). apply mem_In. apply Hall. exact Hconn.
  Qed.

  Lemma chk_pinpts_complete : chk_pinpts c l = true.
  Proof.
    unfold chk_pinpts. apply all_pairs_total. intros a b Ha Hb. unfold pins_apartb.
    destruct (same_pt a b) eqn:Hs; [|reflexivity]. unfold same_pt in Hs.
    apply andb_true_iff in Hs. destruct Hs as [Hx Hy]. apply Z.eqb_eq in Hx. apply Z.eqb_eq in Hy.
    unfold same_wire_pins. apply forallb_forall. intros w Hw. apply forallb_forall. intros w' Hw'.
    destruct (pin_of_wire w (a_pin a)) eqn:Hp; [|reflexivity].
    destruct (pin_of_wire w' (a_pin b)) eqn:Hq; [|reflexivity]. simpl.
    apply pin_of_wire_In in Hp. apply pin_of_wire_In in Hq.
    apply wire_pins_PinOfWire in Hp. apply wire_pins_PinOfWire in Hq.
    rewrite (ok_pinpts c l H a b Ha Hb Hx Hy w w' Hw Hw' Hp Hq). apply Nat.eqb_refl.
  Qed.

  Lemma geo_end_complete w e pt : EndOK c l w e -> GeoEnd l e pt -> geo_end l e pt = true.
  Proof.
    intros [s [Hin [Hid _]]] Hg. unfold geo_end.
    rewrite (find_sym_complete l (e_sym e) s Hnd Hin Hid).
    destruct (virtual (s_kind s)) eqn:Hv; [reflexivity|].
    destruct (Hg s Hin Hid Hv) as [p [x [y [Hp [Ha Hpt]]]]]. rewrite Hp, Hpt.
    apply existsb_exists. exists (PinAt (e_sym e) p x y). split; [exact Ha|].
    unfold at_pin_pt. simpl. rewrite Nat.eqb_refl, !Z.eqb_refl, !andb_true_r. apply pin_eqb_eq. reflexivity.
  Qed.

  Lemma chk_geo_complete : chk_geo l = true.
  Proof.
    unfold chk_geo. apply forallb_forall. intros n Hn.
    destruct (ok_drawn c l H n Hn) as [[a [b [Hf Ht]]] [G1 G2]].
    destruct (ok_ends c l H n Hn) as [w [_ [_ [E1 E2]]]].
    unfold net_geo. rewrite (geo_end_complete w _ _ E1 G1), (geo_end_complete w _ _ E2 G2), Hf, Ht. reflexivity.
  Qed.

  Lemma chk_marks_complete : chk_marks l = true.
  Proof.
    unfold chk_marks. apply forallb_forall. intros m Hm. unfold mark_ok. apply forallb_forall. intros a Ha.
    destruct (Nat.eqb (a_sym a) (m_sym m) && pin_eqb (a_pin a) (m_pin m)) eqn:Hk; [|reflexivity].
    apply andb_true_iff in Hk. destruct Hk as [Hs Hp]. apply Nat.eqb_eq in Hs. apply pin_eqb_eq in Hp.
    pose proof (ok_marks c l H m a Hm Ha Hs Hp) as Hin.
    unfold on_mark. rewrite !andb_true_iff, !Z.leb_le. tauto.
  Qed.

  Theorem schem_ok_complete_sec : schem_ok c l = true.
  Proof.
    unfold schem_ok. rewrite !andb_true_iff. repeat split.
    - apply circ_ok_complete. exact (ok_circ c l H).
    - unfold chk_ids. apply (nodupb_complete Nat.eqb Nat.eqb_eq). exact Hnd.
    - exact chk_only_complete.
    - exact chk_each_complete.
    - exact chk_geom_complete.
    - exact chk_ends_complete.
    - unfold chk_wires. apply forallb_forall. intros w Hw. apply chk_wire_complete. exact Hw.
    - exact chk_pinpts_complete.
    - exact chk_geo_complete.
    - exact chk_marks_complete.
  Qed.
End Complete.

Theorem schem_ok_complete c l : SchemOK c l -> schem_ok c l = true.
Proof. intro H. exact (schem_ok_complete_sec c l H). Qed.

Theorem schem_ok_iff c l : schem_ok c l = true <-> SchemOK c l.
Proof. split; [apply schem_ok_sound | apply schem_ok_complete]. Qed.

(* a rejected layout violates the declarative statement *)
Corollary schem_ok_false c l : schem_ok c l = false -> ~ SchemOK c l.
Proof. intros Hf Hs. rewrite (schem_ok_complete c l Hs) in Hf. discriminate Hf. Qed.
