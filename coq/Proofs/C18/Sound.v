(* C18 — the validator of Model/Schem.v is sound for the declarative statement of Spec/C18.v:
      schem_ok c l = true -> SchemOK c l.
   In particular the reachability procedure (reach / grow) is proved to return only points that are connected
   to the driver pin by a path of nets of the wire (Spec.C18.connected). *)
From Coq Require Import List ZArith Bool Arith Lia.
Import ListNotations.
From V Require Import Model.Schem Spec.C18.

(* ------------------------------------------------------------------ boolean equalities *)
Lemma elem_eqb_eq a b : elem_eqb a b = true <-> a = b.
Proof.
  destruct a as [i|i|i], b as [j|j|j]; simpl; try (split; intro H; discriminate H);
    rewrite Nat.eqb_eq; split; intro H; try (subst; reflexivity); inversion H; reflexivity.
Qed.

Lemma pin_eqb_eq p q : pin_eqb p q = true <-> p = q.
Proof.
  destruct p as [e o i], q as [e' o' i']; unfold pin_eqb; simpl.
  rewrite !andb_true_iff, elem_eqb_eq, Bool.eqb_true_iff, Nat.eqb_eq.
  split.
  - intros [[He Ho] Hi]; subst; reflexivity.
  - intro H; inversion H; auto.
Qed.

Lemma opin_eqb_eq a b : opin_eqb a b = true <-> a = b.
Proof.
  destruct a as [p|], b as [q|]; simpl; try (split; intro H; discriminate H).
  - rewrite pin_eqb_eq. split; intro H; [subst; reflexivity | inversion H; reflexivity].
  - split; reflexivity.
Qed.

Lemma oelem_eqb_eq a b : oelem_eqb a b = true <-> a = b.
Proof.
  destruct a as [p|], b as [q|]; simpl; try (split; intro H; discriminate H).
  - rewrite elem_eqb_eq. split; intro H; [subst; reflexivity | inversion H; reflexivity].
  - split; reflexivity.
Qed.

Lemma node_eqb_eq a b : node_eqb a b = true <-> a = b.
Proof.
  destruct a as [i p], b as [j q]; unfold node_eqb; simpl.
  rewrite andb_true_iff, Nat.eqb_eq, opin_eqb_eq.
  split; [intros [Hi Hp]; subst; reflexivity | intro H; inversion H; auto].
Qed.

Lemma skind_eqb_eq a b : skind_eqb a b = true -> a = b.
Proof. destruct a, b; simpl; intro H; try discriminate H; reflexivity. Qed.

Lemma mem_In a R : mem a R = true <-> In a R.
Proof.
  unfold mem. rewrite existsb_exists. split.
  - intros [x [Hx He]]. apply node_eqb_eq in He. subst. exact Hx.
  - intro H. exists a. split; [exact H | apply node_eqb_eq; reflexivity].
Qed.

(* ------------------------------------------------------------------ list helpers *)
Lemma nodupb_NoDup {A} (eqb : A -> A -> bool) (Heq : forall a b, eqb a b = true <-> a = b) (l : list A) :
  nodupb eqb l = true -> NoDup l.
Proof.
  induction l as [|x t IH]; simpl; intro H; [constructor|].
  apply andb_true_iff in H. destruct H as [Hx Ht].
  constructor; [|apply IH; exact Ht].
  intro Hin. apply negb_true_iff in Hx.
  assert (Hex : existsb (eqb x) t = true).
  { apply existsb_exists. exists x. split; [exact Hin | apply Heq; reflexivity]. }
  rewrite Hex in Hx. discriminate Hx.
Qed.

Lemma all_pairs_spec {A} (f : A -> A -> bool) (l : list A) :
  all_pairs f l = true -> forall a b, In a l -> In b l -> a = b \/ f a b = true \/ f b a = true.
Proof.
  induction l as [|x t IH]; simpl; intros H a b Ha Hb; [contradiction|].
  apply andb_true_iff in H. destruct H as [Hx Ht].
  rewrite forallb_forall in Hx.
  destruct Ha as [Ha|Ha], Hb as [Hb|Hb].
  - left. congruence.
  - subst a. right. left. apply Hx. exact Hb.
  - subst b. right. right. apply Hx. exact Ha.
  - apply IH; assumption.
Qed.

Lemma count_zero {A} (f : A -> bool) (l : list A) : count f l = O -> forall s, In s l -> f s = false.
Proof.
  induction l as [|x t IH]; simpl; intros H s Hs; [contradiction|].
  destruct (f x) eqn:Hfx; [discriminate H|].
  destruct Hs as [Hs|Hs]; [subst; exact Hfx | apply IH; assumption].
Qed.

Lemma count_one {A} (f : A -> bool) (l : list A) :
  count f l = 1%nat -> exists s, In s l /\ f s = true /\ forall s', In s' l -> f s' = true -> s' = s.
Proof.
  induction l as [|x t IH]; simpl; intro H; [discriminate H|].
  destruct (f x) eqn:Hfx.
  - exists x. split; [left; reflexivity|]. split; [exact Hfx|].
    intros s' [Hs'|Hs'] Hf; [symmetry; exact Hs'|].
    assert (Hz : count f t = O) by (simpl in H; lia).
    rewrite (count_zero f t Hz s' Hs') in Hf. discriminate Hf.
  - simpl in H. destruct (IH H) as [s [Hs [Hfs Hu]]].
    exists s. split; [right; exact Hs|]. split; [exact Hfs|].
    intros s' [Hs'|Hs'] Hf; [subst s'; rewrite Hfx in Hf; discriminate Hf | apply Hu; assumption].
Qed.

Lemma NoDup_app_inv {A} (l1 l2 : list A) :
  NoDup (l1 ++ l2) -> NoDup l1 /\ NoDup l2 /\ forall x, In x l1 -> In x l2 -> False.
Proof.
  induction l1 as [|x t IH]; simpl; intro H.
  - split; [constructor|]. split; [exact H|]. intros x [].
  - inversion H as [|x' t' Hnin Hnd]; subst.
    destruct (IH Hnd) as [H1 [H2 H3]].
    split.
    + constructor; [|exact H1]. intro Hin. apply Hnin. apply in_or_app. left. exact Hin.
    + split; [exact H2|].
      intros y [Hy|Hy] Hy2.
      * subst y. apply Hnin. apply in_or_app. right. exact Hy2.
      * exact (H3 y Hy Hy2).
Qed.

Lemma NoDup_flat_map_part {A B} (f : A -> list B) (l : list A) :
  NoDup (flat_map f l) -> forall a, In a l -> NoDup (f a).
Proof.
  induction l as [|y t IH]; simpl; intros H a Ha; [contradiction|].
  destruct (NoDup_app_inv _ _ H) as [H1 [H2 _]].
  destruct Ha as [Ha|Ha]; [subst; exact H1 | apply IH; assumption].
Qed.

Lemma NoDup_flat_map_owner {A B} (f : A -> list B) (l : list A) :
  NoDup (flat_map f l) -> forall a b x, In a l -> In b l -> In x (f a) -> In x (f b) -> a = b.
Proof.
  induction l as [|y t IH]; simpl; intros H a b x Ha Hb Hxa Hxb; [contradiction|].
  destruct (NoDup_app_inv _ _ H) as [H1 [H2 H3]].
  destruct Ha as [Ha|Ha], Hb as [Hb|Hb].
  - congruence.
  - subst a. exfalso. apply (H3 x Hxa). apply in_flat_map. exists b. split; assumption.
  - subst b. exfalso. apply (H3 x Hxb). apply in_flat_map. exists a. split; assumption.
  - exact (IH H2 a b x Ha Hb Hxa Hxb).
Qed.

Lemma find_unique {A} (key : A -> nat) (l : list A) :
  NoDup (map key l) -> forall s, In s l -> find (fun x => Nat.eqb (key x) (key s)) l = Some s.
Proof.
  induction l as [|x t IH]; simpl; intros H s Hs; [contradiction|].
  inversion H as [|k ks Hnin Hnd]; subst.
  destruct (Nat.eqb (key x) (key s)) eqn:Hk.
  - apply Nat.eqb_eq in Hk. destruct Hs as [Hs|Hs]; [subst; reflexivity|].
    exfalso. apply Hnin. rewrite Hk. apply in_map. exact Hs.
  - destruct Hs as [Hs|Hs].
    + subst x. rewrite Nat.eqb_refl in Hk. discriminate Hk.
    + apply IH; assumption.
Qed.

(* ------------------------------------------------------------------ symbols *)
Lemma find_sym_some l i s : find_sym l i = Some s -> In s (l_syms l) /\ s_id s = i.
Proof.
  unfold find_sym. intro H. apply find_some in H. destruct H as [Hin He].
  apply Nat.eqb_eq in He. split; assumption.
Qed.

Lemma find_sym_complete l i s :
  NoDup (map s_id (l_syms l)) -> In s (l_syms l) -> s_id s = i -> find_sym l i = Some s.
Proof. intros Hnd Hin Hi. subst i. unfold find_sym. apply (find_unique s_id); assumption. Qed.

Lemma real_syms_In l s : In s (real_syms l) <-> Real l s.
Proof.
  unfold real_syms, Real, is_real. rewrite filter_In, negb_true_iff. reflexivity.
Qed.

Lemma attach_nnode l e : NoDup (map s_id (l_syms l)) -> attach l e (nnode l e).
Proof.
  intro Hnd. unfold nnode. destruct (find_sym l (e_sym e)) as [s|] eqn:Hf.
  - destruct (find_sym_some _ _ _ Hf) as [Hin Hid].
    destruct (virtual (s_kind s)) eqn:Hv.
    + apply at_marker. exists s. auto.
    + apply at_pin. intros [s' [Hin' [Hid' Hv']]].
      rewrite (find_sym_complete l (e_sym e) s' Hnd Hin' Hid') in Hf. inversion Hf; subst s'.
      rewrite Hv in Hv'. discriminate Hv'.
  - apply at_pin. intros [s' [Hin' [Hid' Hv']]].
    rewrite (find_sym_complete l (e_sym e) s' Hnd Hin' Hid') in Hf. discriminate Hf.
Qed.

Lemma attach_fun l e nd : NoDup (map s_id (l_syms l)) -> attach l e nd -> nd = nnode l e.
Proof.
  intros Hnd Ha. unfold nnode. inversion Ha as [e' Hm|e' Hm]; subst.
  - destruct Hm as [s [Hin [Hid Hv]]].
    rewrite (find_sym_complete l (e_sym e) s Hnd Hin Hid). rewrite Hv. reflexivity.
  - destruct (find_sym l (e_sym e)) as [s|] eqn:Hf; [|reflexivity].
    destruct (virtual (s_kind s)) eqn:Hv; [|reflexivity].
    exfalso. apply Hm. destruct (find_sym_some _ _ _ Hf) as [Hin Hid]. exists s. auto.
Qed.

Lemma sym_of_StandsFor c l e s : chk_only c l = true -> sym_of l e = Some s -> StandsFor l s e.
Proof.
  unfold chk_only, sym_of. intros Hc Hf. apply find_some in Hf. destruct Hf as [Hin Hs].
  unfold stands_for in Hs. apply oelem_eqb_eq in Hs.
  rewrite forallb_forall in Hc. specialize (Hc s Hin). rewrite Hs in Hc.
  apply andb_true_iff in Hc. destruct Hc as [_ Hk]. apply skind_eqb_eq in Hk.
  split; [apply real_syms_In; exact Hin|]. split; assumption.
Qed.

Lemma elem_ok_Elem c e : elem_ok c e = true <-> Elem c e.
Proof. destruct e; simpl; apply Nat.ltb_lt. Qed.

Lemma Elem_in_elems c e : Elem c e -> In e (elems c).
Proof.
  unfold elems. destruct e as [i|k|j]; simpl; intro H; rewrite !in_app_iff.
  - left. apply in_map. apply in_seq. lia.
  - right. left. apply in_map. apply in_seq. lia.
  - right. right. apply in_map. apply in_seq. lia.
Qed.

(* ------------------------------------------------------------------ the circuit dump *)
Lemma pin_of_wire_In w p : pin_of_wire w p = true <-> In p (wire_pins w).
Proof.
  unfold pin_of_wire. rewrite existsb_exists. split.
  - intros [x [Hx He]]. apply pin_eqb_eq in He. subst. exact Hx.
  - intro H. exists p. split; [exact H | apply pin_eqb_eq; reflexivity].
Qed.

Lemma wire_pins_PinOfWire w p : In p (wire_pins w) <-> PinOfWire w p.
Proof. unfold wire_pins, PinOfWire. simpl. split; intros [H|H]; auto. Qed.

Lemma drv_pin_ok_sound c p : drv_pin_ok c p = true -> DrvPin c p.
Proof.
  unfold drv_pin_ok, DrvPin. intro H. apply andb_true_iff in H. destruct H as [Ho H]. split; [exact Ho|].
  destruct (p_el p) as [i|k|j].
  - apply andb_true_iff in H. destruct H as [H1 H2]. apply Nat.ltb_lt in H1. apply Nat.eqb_eq in H2. auto.
  - destruct (nth_error (c_ch c) k) as [io|]; [|discriminate H]. exists io. apply Nat.ltb_lt in H. auto.
  - discriminate H.
Qed.

Lemma rd_pin_ok_sound c p : rd_pin_ok c p = true -> RdPin c p.
Proof.
  unfold rd_pin_ok, RdPin. intro H. apply andb_true_iff in H. destruct H as [Ho H]. apply negb_true_iff in Ho. split; [exact Ho|].
  destruct (p_el p) as [i|k|j].
  - discriminate H.
  - destruct (nth_error (c_ch c) k) as [io|]; [|discriminate H]. exists io. apply Nat.ltb_lt in H. auto.
  - apply andb_true_iff in H. destruct H as [H1 H2]. apply Nat.ltb_lt in H1. apply Nat.eqb_eq in H2. auto.
Qed.

Theorem circ_ok_sound c : circ_ok c = true -> CircWF c.
Proof.
  unfold circ_ok. intro H. apply andb_true_iff in H. destruct H as [H Hp]. apply andb_true_iff in H. destruct H as [Hi Hw].
  rewrite forallb_forall in Hw.
  constructor.
  - apply (nodupb_NoDup Nat.eqb Nat.eqb_eq). exact Hi.
  - intros w Hin. specialize (Hw w Hin). apply andb_true_iff in Hw. apply drv_pin_ok_sound. tauto.
  - intros w p Hin Hpin. specialize (Hw w Hin). apply andb_true_iff in Hw. destruct Hw as [_ Hr].
    rewrite forallb_forall in Hr. apply rd_pin_ok_sound. apply Hr. exact Hpin.
  - apply (nodupb_NoDup pin_eqb pin_eqb_eq) in Hp. exact Hp.
Qed.

Lemma find_wire_some c i w : find_wire c i = Some w -> In w (c_wires c) /\ w_id w = i.
Proof.
  unfold find_wire. intro H. apply find_some in H. destruct H as [Hin He]. apply Nat.eqb_eq in He. auto.
Qed.

(* ------------------------------------------------------------------ reachability is sound *)
Section Reach.
  Variable P : node -> Prop.
  Variable E : list (node * node).
  Hypothesis HE : forall e, In e E -> (P (fst e) -> P (snd e)) /\ (P (snd e) -> P (fst e)).

  Lemma grow1_sound acc e : In e E -> Forall P acc -> Forall P (grow1 acc e).
  Proof.
    intros He Hacc. unfold grow1. destruct (HE e He) as [H1 H2]. rewrite Forall_forall in Hacc.
    destruct (mem (fst e) acc) eqn:Ha.
    - destruct (mem (snd e) acc) eqn:Hb; [apply Forall_forall; exact Hacc|].
      apply mem_In in Ha. constructor; [apply H1; apply Hacc; exact Ha | apply Forall_forall; exact Hacc].
    - destruct (mem (snd e) acc) eqn:Hb; [|apply Forall_forall; exact Hacc].
      apply mem_In in Hb. constructor; [apply H2; apply Hacc; exact Hb | apply Forall_forall; exact Hacc].
  Qed.

  Lemma fold_grow1_sound (E' : list (node * node)) :
    (forall e, In e E' -> In e E) -> forall acc, Forall P acc -> Forall P (fold_left grow1 E' acc).
  Proof.
    induction E' as [|e t IH]; simpl; intros Hsub acc Hacc; [exact Hacc|].
    apply IH; [intros e' He'; apply Hsub; right; exact He'|].
    apply grow1_sound; [apply Hsub; left; reflexivity | exact Hacc].
  Qed.

  Lemma grow_sound R : Forall P R -> Forall P (grow E R).
  Proof. unfold grow. apply fold_grow1_sound. auto. Qed.

  Lemma reach_sound fuel : forall R, Forall P R -> Forall P (reach fuel E R).
  Proof.
    induction fuel as [|f IH]; simpl; intros R HR; [exact HR|].
    destruct (Nat.eqb (length (grow E R)) (length R)); [exact HR|].
    apply IH. apply grow_sound. exact HR.
  Qed.
End Reach.

Lemma linked_sym l wid a b : linked l wid a b -> linked l wid b a.
Proof. intro H. destruct H as [n a b Hn Hw Ha Hb|n a b Hn Hw Ha Hb]; [eapply link_bwd | eapply link_fwd]; eassumption. Qed.

Lemma linked_touches_r l wid a b : linked l wid a b -> touches l wid b.
Proof. intro H. destruct H as [n a b Hn Hw Ha Hb|n a b Hn Hw Ha Hb]; exists n; auto. Qed.

Lemma connected_inv_r l wid a c : connected l wid a c -> a = c \/ exists b, linked l wid b c.
Proof. intro H. destruct H as [a|a b c Hab Hbc]; [left; reflexivity | right; exists b; exact Hbc]. Qed.

Lemma connected_inv_l l wid a c : connected l wid a c -> a = c \/ exists b, linked l wid a b.
Proof.
  intro H. induction H as [a|a b c Hab IH Hbc]; [left; reflexivity|].
  right. destruct IH as [IH|IH]; [subst b; exists c; exact Hbc | exact IH].
Qed.

Lemma edges_linked l wid e :
  NoDup (map s_id (l_syms l)) -> In e (edges l wid) -> linked l wid (fst e) (snd e).
Proof.
  intros Hnd He. unfold edges in He. apply in_map_iff in He. destruct He as [n [He Hn]].
  apply filter_In in Hn. destruct Hn as [Hn Hw]. apply Nat.eqb_eq in Hw. subst e. simpl.
  eapply link_fwd; [exact Hn | exact Hw | apply attach_nnode; exact Hnd | apply attach_nnode; exact Hnd].
Qed.

Lemma edges_of_net l wid n :
  In n (l_nets l) -> n_wire n = wid -> In (nnode l (n_src n), nnode l (n_snk n)) (edges l wid).
Proof.
  intros Hn Hw. unfold edges. apply in_map_iff. exists n. split; [reflexivity|].
  apply filter_In. split; [exact Hn | apply Nat.eqb_eq; exact Hw].
Qed.

(* ------------------------------------------------------------------ clause by clause *)
Lemma chk_each_sound c l :
  chk_only c l = true -> chk_each c l = true ->
  forall e, Elem c e -> exists s, StandsFor l s e /\ forall s', Real l s' -> s_for s' = Some e -> s' = s.
Proof.
  intros Ho He e Hel. unfold chk_each in He. rewrite forallb_forall in He.
  specialize (He e (Elem_in_elems c e Hel)). apply Nat.eqb_eq in He.
  destruct (count_one _ _ He) as [s [Hin [Hs Hu]]].
  exists s. split.
  - unfold stands_for in Hs. apply oelem_eqb_eq in Hs.
    unfold chk_only in Ho. rewrite forallb_forall in Ho. specialize (Ho s Hin). rewrite Hs in Ho.
    apply andb_true_iff in Ho. destruct Ho as [_ Hk]. apply skind_eqb_eq in Hk.
    split; [apply real_syms_In; exact Hin|]. split; assumption.
  - intros s' Hr Hf. apply Hu; [apply real_syms_In; exact Hr|].
    unfold stands_for. apply oelem_eqb_eq. exact Hf.
Qed.

Lemma chk_only_sound c l : chk_only c l = true -> forall s, Real l s -> exists e, Elem c e /\ StandsFor l s e.
Proof.
  intros Ho s Hr. unfold chk_only in Ho. rewrite forallb_forall in Ho.
  specialize (Ho s (proj2 (real_syms_In l s) Hr)).
  destruct (s_for s) as [e|] eqn:Hf; [|discriminate Ho].
  apply andb_true_iff in Ho. destruct Ho as [He Hk]. apply skind_eqb_eq in Hk.
  exists e. split; [apply elem_ok_Elem; exact He|]. split; [exact Hr|]. split; assumption.
Qed.

Lemma apartb_sound a b : apartb a b = true -> ~ same_cell a b /\ ~ overlap a b.
Proof.
  unfold apartb, same_cellb, overlapb, same_cell, overlap. intro H.
  apply andb_true_iff in H. destruct H as [H1 H2]. apply negb_true_iff in H1. apply negb_true_iff in H2.
  split.
  - intros [Hr Hc]. rewrite Hr, Hc, !Z.eqb_refl in H1. discriminate H1.
  - intros [Ha [Hb [Hc Hd]]]. apply Z.ltb_lt in Ha, Hb, Hc, Hd. rewrite Ha, Hb, Hc, Hd in H2. discriminate H2.
Qed.

Lemma same_cell_sym a b : same_cell a b -> same_cell b a.
Proof. unfold same_cell. intros [H1 H2]. auto. Qed.
Lemma overlap_sym a b : overlap a b -> overlap b a.
Proof. unfold overlap. intros [H1 [H2 [H3 H4]]]. auto. Qed.

Lemma chk_geom_sound l :
  chk_geom l = true ->
  (forall a, Real l a -> (0 < s_w a /\ 0 < s_h a)%Z) /\
  (forall a b, Real l a -> Real l b -> s_id a <> s_id b -> ~ same_cell a b /\ ~ overlap a b).
Proof.
  unfold chk_geom. intro H. apply andb_true_iff in H. destruct H as [Hs Hp]. split.
  - intros a Ha. rewrite forallb_forall in Hs. specialize (Hs a (proj2 (real_syms_In l a) Ha)).
    apply andb_true_iff in Hs. destruct Hs as [H1 H2]. apply Z.ltb_lt in H1, H2. auto.
  - intros a b Ha Hb Hne.
    destruct (all_pairs_spec apartb _ Hp a b (proj2 (real_syms_In l a) Ha) (proj2 (real_syms_In l b) Hb)) as [Heq|[Hab|Hba]].
    + subst b. contradiction Hne. reflexivity.
    + apply apartb_sound. exact Hab.
    + destruct (apartb_sound _ _ Hba) as [H1 H2]. split; intro H.
      * apply H1. apply same_cell_sym. exact H.
      * apply H2. apply overlap_sym. exact H.
Qed.

Lemma end_ok_sound c l w e :
  CircWF c -> In w (c_wires c) -> end_ok l w e = true -> EndOK c l w e.
Proof.
  intros Hwf Hw H. unfold end_ok in H.
  destruct (find_sym l (e_sym e)) as [s|] eqn:Hf; [|discriminate H].
  destruct (find_sym_some _ _ _ Hf) as [Hin Hid].
  exists s. split; [exact Hin|]. split; [exact Hid|].
  destruct (virtual (s_kind s)) eqn:Hv.
  - split; [|intro Hx; discriminate Hx].
    intros _ p Hp. rewrite Hp in H. apply wire_pins_PinOfWire. apply pin_of_wire_In. exact H.
  - split; [intro Hx; discriminate Hx|]. intros _.
    destruct (e_pin e) as [p|]; [|discriminate H].
    apply andb_true_iff in H. destruct H as [Hp Hs].
    unfold stands_for in Hs. apply oelem_eqb_eq in Hs. apply pin_of_wire_In in Hp.
    exists p. split; [reflexivity|]. split; [exact Hs|]. split; [apply wire_pins_PinOfWire; exact Hp|].
    intros w' Hw' Hp'. apply wire_pins_PinOfWire in Hp'.
    exact (NoDup_flat_map_owner _ _ (wf_pins c Hwf) w' w p Hw' Hw Hp' Hp).
Qed.

Lemma chk_ends_sound c l :
  CircWF c -> chk_ends c l = true ->
  forall n, In n (l_nets l) -> exists w, In w (c_wires c) /\ w_id w = n_wire n /\ EndOK c l w (n_src n) /\ EndOK c l w (n_snk n).
Proof.
  intros Hwf H n Hn. unfold chk_ends in H. rewrite forallb_forall in H. specialize (H n Hn).
  unfold net_ok in H. destruct (find_wire c (n_wire n)) as [w|] eqn:Hf; [|discriminate H].
  destruct (find_wire_some _ _ _ Hf) as [Hw Hid]. apply andb_true_iff in H. destruct H as [H1 H2].
  exists w. split; [exact Hw|]. split; [exact Hid|].
  split; apply end_ok_sound; assumption.
Qed.

Lemma chk_wire_sound c l w :
  CircWF c -> NoDup (map s_id (l_syms l)) -> chk_only c l = true -> In w (c_wires c) -> chk_wire l w = true ->
  exists sd, StandsFor l sd (p_el (w_drv w)) /\
    let root := (s_id sd, Some (w_drv w)) in
    (forall n nd, In n (l_nets l) -> n_wire n = w_id w -> attach l (n_src n) nd \/ attach l (n_snk n) nd ->
                  connected l (w_id w) root nd) /\
    (forall p, In p (w_rd w) ->
       exists sp, StandsFor l sp (p_el p) /\ connected l (w_id w) root (s_id sp, Some p) /\ touches l (w_id w) (s_id sp, Some p)) /\
    (w_rd w <> [] -> touches l (w_id w) root).
Proof.
  intros Hwf Hnd Ho Hw H. unfold chk_wire in H.
  destruct (sym_of l (p_el (w_drv w))) as [sd|] eqn:Hsd; [|discriminate H].
  exists sd. split; [eapply sym_of_StandsFor; eassumption|].
  set (root := (s_id sd, Some (w_drv w))) in *.
  set (E := edges l (w_id w)) in *.
  set (R := reach (fuel_for E) E [root]) in *.
  apply andb_true_iff in H. destruct H as [HE HR].
  rewrite forallb_forall in HE. rewrite forallb_forall in HR.
  assert (Hsound : Forall (connected l (w_id w) root) R).
  { apply reach_sound.
    - intros e He. pose proof (edges_linked l (w_id w) e Hnd He) as Hl.
      split; intro Hc; [eapply conn_step; [exact Hc | exact Hl] | eapply conn_step; [exact Hc | apply linked_sym; exact Hl]].
    - constructor; [apply conn_refl | constructor]. }
  rewrite Forall_forall in Hsound.
  assert (Hnets : forall n nd, In n (l_nets l) -> n_wire n = w_id w -> attach l (n_src n) nd \/ attach l (n_snk n) nd ->
                               connected l (w_id w) root nd).
  { intros n nd Hn Hwn Ha.
    specialize (HE _ (edges_of_net l (w_id w) n Hn Hwn)). simpl in HE.
    apply andb_true_iff in HE. destruct HE as [H1 H2]. apply mem_In in H1. apply mem_In in H2.
    destruct Ha as [Ha|Ha]; apply (attach_fun l _ _ Hnd) in Ha; subst nd; apply Hsound; assumption. }
  assert (Hrd : forall p, In p (w_rd w) ->
            exists sp, StandsFor l sp (p_el p) /\ connected l (w_id w) root (s_id sp, Some p) /\ touches l (w_id w) (s_id sp, Some p)).
  { intros p Hp. specialize (HR p Hp).
    destruct (sym_of l (p_el p)) as [sp|] eqn:Hsp; [|discriminate HR].
    apply mem_In in HR. exists sp. split; [eapply sym_of_StandsFor; eassumption|].
    pose proof (Hsound _ HR) as Hc. split; [exact Hc|].
    destruct (connected_inv_r _ _ _ _ Hc) as [Heq|[b Hb]].
    - exfalso. unfold root in Heq. injection Heq as Hi Hpin.
      pose proof (NoDup_flat_map_part _ _ (wf_pins c Hwf) w Hw) as Hndw. simpl in Hndw.
      apply NoDup_cons_iff in Hndw. destruct Hndw as [Hnin _]. apply Hnin. rewrite Hpin. exact Hp.
    - eapply linked_touches_r. exact Hb. }
  split; [exact Hnets|]. split; [exact Hrd|].
  intro Hne. destruct (w_rd w) as [|p rest] eqn:Hrdw; [contradiction Hne; reflexivity|].
  destruct (Hrd p (or_introl eq_refl)) as [sp [_ [Hc _]]].
  destruct (connected_inv_l _ _ _ _ Hc) as [Heq|[b Hb]].
  - exfalso. unfold root in Heq. injection Heq as Hi Hpin.
    pose proof (NoDup_flat_map_part _ _ (wf_pins c Hwf) w Hw) as Hndw. simpl in Hndw. rewrite Hrdw in Hndw.
    apply NoDup_cons_iff in Hndw. destruct Hndw as [Hnin _]. apply Hnin. rewrite Hpin. left. reflexivity.
  - eapply linked_touches_r. apply linked_sym. exact Hb.
Qed.

(* ------------------------------------------------------------------ pin geometry *)
Lemma wire_id_inj c w w' :
  NoDup (map w_id (c_wires c)) -> In w (c_wires c) -> In w' (c_wires c) -> w_id w = w_id w' -> w = w'.
Proof.
  intros Hnd Hw Hw' Hid.
  pose proof (find_unique w_id (c_wires c) Hnd w Hw) as H1.
  pose proof (find_unique w_id (c_wires c) Hnd w' Hw') as H2.
  rewrite Hid in H1. rewrite H1 in H2. inversion H2. reflexivity.
Qed.

Lemma same_wire_pins_sound c p q w w' :
  CircWF c -> same_wire_pins c p q = true -> In w (c_wires c) -> In w' (c_wires c) -> PinOfWire w p -> PinOfWire w' q -> w = w'.
Proof.
  intros Hwf H Hw Hw' Hp Hq. unfold same_wire_pins in H. rewrite forallb_forall in H.
  specialize (H w Hw). rewrite forallb_forall in H. specialize (H w' Hw').
  apply wire_pins_PinOfWire in Hp. apply wire_pins_PinOfWire in Hq.
  apply pin_of_wire_In in Hp. apply pin_of_wire_In in Hq. rewrite Hp, Hq in H. simpl in H.
  apply Nat.eqb_eq in H. exact (wire_id_inj c w w' (wf_ids c Hwf) Hw Hw' H).
Qed.

Lemma chk_pinpts_sound c l :
  CircWF c -> chk_pinpts c l = true ->
  forall a b, In a (l_pins l) -> In b (l_pins l) -> a_x a = a_x b -> a_y a = a_y b ->
    forall w w', In w (c_wires c) -> In w' (c_wires c) -> PinOfWire w (a_pin a) -> PinOfWire w' (a_pin b) -> w = w'.
Proof.
  intros Hwf H a b Ha Hb Hx Hy w w' Hw Hw' Hp Hq. unfold chk_pinpts in H.
  destruct (all_pairs_spec _ _ H a b Ha Hb) as [Heq|[Hab|Hba]].
  - subst b. apply wire_pins_PinOfWire in Hp. apply wire_pins_PinOfWire in Hq.
    exact (NoDup_flat_map_owner _ _ (wf_pins c Hwf) w w' (a_pin a) Hw Hw' Hp Hq).
  - unfold pins_apartb, same_pt in Hab. rewrite Hx, Hy, !Z.eqb_refl in Hab. simpl in Hab.
    exact (same_wire_pins_sound c _ _ w w' Hwf Hab Hw Hw' Hp Hq).
  - unfold pins_apartb, same_pt in Hba. rewrite Hx, Hy, !Z.eqb_refl in Hba. simpl in Hba.
    symmetry. exact (same_wire_pins_sound c _ _ w' w Hwf Hba Hw' Hw Hq Hp).
Qed.

Lemma geo_end_sound l e pt : NoDup (map s_id (l_syms l)) -> geo_end l e pt = true -> GeoEnd l e pt.
Proof.
  intros Hnd H s Hin Hid Hv. unfold geo_end in H.
  rewrite (find_sym_complete l (e_sym e) s Hnd Hin Hid) in H. rewrite Hv in H.
  destruct (e_pin e) as [p|]; [|discriminate H]. destruct pt as [xy|]; [|discriminate H].
  apply existsb_exists in H. destruct H as [a [Ha Hm]]. unfold at_pin_pt in Hm.
  apply andb_true_iff in Hm. destruct Hm as [Hm Hy]. apply andb_true_iff in Hm. destruct Hm as [Hm Hx].
  apply andb_true_iff in Hm. destruct Hm as [Hi Hp].
  apply Nat.eqb_eq in Hi. apply pin_eqb_eq in Hp. apply Z.eqb_eq in Hx. apply Z.eqb_eq in Hy.
  exists p, (fst xy), (snd xy). split; [reflexivity|]. split; [|destruct xy; reflexivity].
  destruct a as [ai ap ax ay]. simpl in *. subst. exact Ha.
Qed.

Lemma chk_geo_sound l :
  NoDup (map s_id (l_syms l)) -> chk_geo l = true ->
  forall n, In n (l_nets l) ->
    (exists a b, n_from n = Some a /\ n_to n = Some b) /\ GeoEnd l (n_src n) (n_from n) /\ GeoEnd l (n_snk n) (n_to n).
Proof.
  intros Hnd H n Hn. unfold chk_geo in H. rewrite forallb_forall in H. specialize (H n Hn). unfold net_geo in H.
  apply andb_true_iff in H. destruct H as [H H4]. apply andb_true_iff in H. destruct H as [H H3].
  apply andb_true_iff in H. destruct H as [H1 H2].
  split; [|split; apply geo_end_sound; assumption].
  destruct (n_from n) as [a|]; [|discriminate H1]. destruct (n_to n) as [b|]; [|discriminate H2].
  exists a, b. auto.
Qed.

Lemma chk_marks_sound l :
  chk_marks l = true ->
  forall m a, In m (l_marks l) -> In a (l_pins l) -> a_sym a = m_sym m -> a_pin a = m_pin m ->
    (m_x0 m <= a_x a <= m_x1 m /\ m_y0 m <= a_y a <= m_y1 m)%Z.
Proof.
  intros H m a Hm Ha Hs Hp. unfold chk_marks in H. rewrite forallb_forall in H. specialize (H m Hm).
  unfold mark_ok in H. rewrite forallb_forall in H. specialize (H a Ha).
  rewrite Hs, Hp, Nat.eqb_refl in H. rewrite (proj2 (pin_eqb_eq (m_pin m) (m_pin m)) eq_refl) in H. simpl in H.
  unfold on_mark in H. rewrite !andb_true_iff, !Z.leb_le in H. tauto.
Qed.

(* ------------------------------------------------------------------ the theorem *)
Theorem schem_ok_sound c l : schem_ok c l = true -> SchemOK c l.
Proof.
  unfold schem_ok. intro H.
  apply andb_true_iff in H. destruct H as [H Hmarks].
  apply andb_true_iff in H. destruct H as [H Hgeo].
  apply andb_true_iff in H. destruct H as [H Hpinpts].
  apply andb_true_iff in H. destruct H as [H Hwires].
  apply andb_true_iff in H. destruct H as [H Hends].
  apply andb_true_iff in H. destruct H as [H Hgeom].
  apply andb_true_iff in H. destruct H as [H Heach].
  apply andb_true_iff in H. destruct H as [H Honly].
  apply andb_true_iff in H. destruct H as [Hcirc Hids].
  pose proof (circ_ok_sound c Hcirc) as Hwf.
  assert (Hnd : NoDup (map s_id (l_syms l))) by (apply (nodupb_NoDup Nat.eqb Nat.eqb_eq); exact Hids).
  destruct (chk_geom_sound l Hgeom) as [Hsize Hapart].
  constructor.
  - exact Hwf.
  - exact Hnd.
  - apply chk_each_sound; assumption.
  - apply chk_only_sound; assumption.
  - exact Hsize.
  - exact Hapart.
  - apply chk_ends_sound; assumption.
  - intros w Hw. unfold chk_wires in Hwires. rewrite forallb_forall in Hwires.
    apply (chk_wire_sound c l w Hwf Hnd Honly Hw (Hwires w Hw)).
  - apply chk_pinpts_sound; assumption.
  - apply chk_geo_sound; assumption.
  - apply chk_marks_sound; assumption.
Qed.

Lemma reach_connected l wid root fuel :
  NoDup (map s_id (l_syms l)) -> Forall (connected l wid root) (reach fuel (edges l wid) [root]).
Proof.
  intro Hnd. apply reach_sound.
  - intros e He. pose proof (edges_linked l wid e Hnd He) as Hl.
    split; intro Hc; [eapply conn_step; [exact Hc | exact Hl] | eapply conn_step; [exact Hc | apply linked_sym; exact Hl]].
  - constructor; [apply conn_refl | constructor].
Qed.
