(* C09: DelayLine (storage.py:145-187) refines the unbounded-log reference machine. *)
From V Require Import Base.Bits Gen.WireOps Gen.Prims Gen.Seq Model.SeqBlocks Spec.C09 Proofs.C09.Leaves Proofs.C09.Run Proofs.C09.Reg.

(* every register cell shows its masked attribute on q (true at power-up because reset_value = 0, and after every edge) *)
Definition cell_inv (w : Z) (c : cell) : Prop := cell_q c = trunc w (cell_value c).

Lemma trunc_0 w : trunc w 0 = 0.
Proof. reflexivity. Qed.

Lemma cell0_inv w : cell_inv w cell_zero.
Proof. unfold cell_inv. cbn [cell_zero cell_q cell_value fst snd Reg_s_value]. rewrite trunc_0. reflexivity. Qed.

(* ------------------------------------------------------------------ one edge of the chain *)
Lemma delay_step_length w he hr : forall cs a e r, length (delay_step w he hr cs a e r) = length cs.
Proof. induction cs as [|c cs IH]; intros a e r; [reflexivity|]. cbn [delay_step length]. f_equal. apply IH. Qed.

Lemma delay_step_inv w he hr : forall cs a e r, Forall (cell_inv w) (delay_step w he hr cs a e r).
Proof.
  induction cs as [|c cs IH]; intros a e r; [constructor|]. cbn [delay_step]. constructor; [|apply IH].
  unfold cell_inv. apply reg_edge_q.
Qed.

(* the q of the new chain, register by register (nth with default 0):
   reset -> 0;  hold -> unchanged;  load -> register 0 takes a, register k+1 takes the OLD q of register k *)
Lemma delay_step_reset w he hr : forall cs a e r, hr && (r =? 1) = true ->
  map cell_q (delay_step w he hr cs a e r) = map (fun _ => 0) cs.
Proof.
  induction cs as [|c cs IH]; intros a e r Hr; [reflexivity|]. cbn [delay_step map]. f_equal; [|apply IH; exact Hr].
  rewrite reg_edge_eq. unfold cell_q, reg_next. cbn [snd]. rewrite Hr. apply trunc_0.
Qed.

Lemma delay_step_hold w he hr : forall cs a e r, hr && (r =? 1) = false -> he && (e =? 0) = true ->
  Forall (cell_inv w) cs -> map cell_q (delay_step w he hr cs a e r) = map cell_q cs.
Proof.
  induction cs as [|c cs IH]; intros a e r Hr He Hinv; [reflexivity|]. inversion Hinv as [|c' cs' Hc Hcs]; subst.
  cbn [delay_step map]. f_equal; [|apply IH; auto].
  rewrite reg_edge_eq. unfold reg_next. rewrite Hr, He. unfold cell_inv in Hc. rewrite Hc. reflexivity.
Qed.

(* what a loading edge does to the list of q values *)
Fixpoint shiftq (w a : Z) (qs : list Z) : list Z :=
  match qs with
  | [] => []
  | q :: t => trunc w a :: shiftq w q t
  end.

Lemma delay_step_load w he hr : forall cs a e r, hr && (r =? 1) = false -> he && (e =? 0) = false ->
  map cell_q (delay_step w he hr cs a e r) = shiftq w a (map cell_q cs).
Proof.
  induction cs as [|c cs IH]; intros a e r Hr He; [reflexivity|]. cbn [delay_step map shiftq]. f_equal; [|apply IH; auto].
  rewrite reg_edge_eq. unfold reg_next. rewrite Hr, He. reflexivity.
Qed.

Lemma shiftq_length w : forall qs a, length (shiftq w a qs) = length qs.
Proof. induction qs as [|q t IH]; intros a; [reflexivity|]. cbn [shiftq length]. f_equal. apply IH. Qed.

Lemma shiftq_nth_0 w a q t : nth 0 (shiftq w a (q :: t)) 0 = trunc w a.
Proof. reflexivity. Qed.
Lemma shiftq_nth_S w : forall qs a k, (S k < length qs)%nat -> nth (S k) (shiftq w a qs) 0 = trunc w (nth k qs 0).
Proof.
  induction qs as [|q t IH]; intros a k Hk; [cbn [length] in Hk; lia|].
  cbn [shiftq nth]. destruct t as [|q2 t']; [cbn [length] in Hk; lia|].
  destruct k as [|k]; [reflexivity|]. rewrite IH by (cbn [length] in *; lia). reflexivity.
Qed.

Lemma shiftq_seq w (f g : nat -> Z) : (forall k, g (S k) = trunc w (f k)) ->
  forall len n a, g n = trunc w a -> shiftq w a (map f (seq n len)) = map g (seq n len).
Proof.
  intros Hg. induction len as [|len IH]; intros n a Ha; [reflexivity|].
  cbn [seq map shiftq]. rewrite Ha. f_equal. apply IH. apply Hg.
Qed.

(* ------------------------------------------------------------------ the simulation *)
Definition log_q (w : Z) (log : list Z) (k : nat) : Z := nth k log 0 mod 2 ^ w.

Definition delay_rel (w : Z) (delay : nat) (cs : list cell) (log : list Z) : Prop :=
  length cs = delay /\ Forall (cell_inv w) cs /\ map cell_q cs = map (log_q w log) (seq 0 delay).

Lemma delay_step_sim w he hr delay cs log i : 0 <= w ->
  delay_rel w delay cs log -> delay_rel w delay (delay_m w he hr cs i) (delay_log he hr log i).
Proof.
  intros Hw (Hlen & Hinv & Hq). destruct i as [[a e] r]. unfold delay_m, delay_log, delay_rel.
  split; [rewrite delay_step_length; exact Hlen|]. split; [apply delay_step_inv|].
  destruct (hr && (r =? 1)) eqn:Hr.
  - rewrite delay_step_reset by exact Hr. subst delay. clear.
    generalize 0%nat. induction cs as [|c cs IH]; intros n; [reflexivity|]. cbn [map length seq]. f_equal; [|apply IH].
    unfold log_q. destruct n; reflexivity.
  - destruct (he && (e =? 0)) eqn:He.
    + rewrite delay_step_hold by assumption. exact Hq.
    + rewrite delay_step_load by assumption. rewrite Hq. apply shiftq_seq.
      * intros k. unfold log_q. cbn [nth]. rewrite trunc_mod by lia. symmetry. apply Z.mod_mod.
        pose proof (pow2_pos w Hw). lia.
      * unfold log_q. cbn [nth]. symmetry. apply trunc_mod. exact Hw.
Qed.

Lemma delay_init_rel w delay : delay_rel w delay (delay_init delay) [].
Proof.
  unfold delay_rel, delay_init. split; [apply repeat_length|]. split.
  - apply Forall_forall. intros c Hc. apply repeat_spec in Hc. subst c. apply cell0_inv.
  - generalize 0%nat. induction delay as [|d IH]; intros n; [reflexivity|]. cbn [repeat map seq]. f_equal; [|apply IH].
    unfold log_q. destruct n; reflexivity.
Qed.

Lemma delay_run_rel w he hr delay h : 0 <= w ->
  delay_rel w delay (run (delay_m w he hr) (delay_init delay) h) (run (delay_log he hr) [] h).
Proof.
  intros Hw. apply (run_sim (delay_m w he hr) (delay_log he hr) (delay_rel w delay)).
  - intros; apply delay_step_sim; auto.
  - apply delay_init_rel.
Qed.

(* cells i = log entry i, masked; 0 beyond the log *)
Lemma delay_cells_refine w he hr delay h : 0 <= w ->
  map cell_q (run (delay_m w he hr) (delay_init delay) h) =
  map (fun k => nth k (run (delay_log he hr) [] h) 0 mod 2 ^ w) (seq 0 delay).
Proof. intros Hw. apply (delay_run_rel w he hr delay h Hw). Qed.

Lemma delay_run_length w he hr delay h :
  length (run (delay_m w he hr) (delay_init delay) h) = delay.
Proof.
  unfold delay_init. rewrite <- (repeat_length cell_zero delay) at 2. generalize (repeat cell_zero delay).
  induction h as [|i h IH]; intros cs; [reflexivity|]. rewrite run_cons, IH. destruct i as [[a e] r]. apply delay_step_length.
Qed.

Lemma delayline_refines w wr he hr delay h a_now : 0 <= w -> 0 <= wr ->
  delay_out wr (run (delay_m w he hr) (delay_init delay) h) a_now =
  delay_spec_out w wr delay (run (delay_log he hr) [] h) a_now.
Proof.
  intros Hw Hwr. unfold delay_out. rewrite Buf_eq, delay_cells_refine by exact Hw.
  destruct delay as [|k]; unfold delay_spec_out.
  - cbn [seq map last]. apply trunc_mod. exact Hwr.
  - rewrite seq_S, map_app. cbn [map Nat.add]. rewrite last_last. apply trunc_mod. exact Hwr.
Qed.

(* ------------------------------------------------------------------ the one-step behaviour stated on `nth` *)
Lemma delay_step_nth w he hr cs a e r k : Forall (cell_inv w) cs -> (k < length cs)%nat ->
  nth k (map cell_q (delay_step w he hr cs a e r)) 0 =
  if hr && (r =? 1) then 0
  else if he && (e =? 0) then nth k (map cell_q cs) 0
  else match k with O => trunc w a | S j => trunc w (nth j (map cell_q cs) 0) end.
Proof.
  intros Hinv Hk. destruct (hr && (r =? 1)) eqn:Hr.
  - rewrite delay_step_reset by exact Hr. clear. revert k. induction cs as [|c cs IH]; intros [|k]; cbn [map nth]; auto.
  - destruct (he && (e =? 0)) eqn:He.
    + rewrite delay_step_hold by assumption. reflexivity.
    + rewrite delay_step_load by assumption. destruct k as [|j].
      * destruct cs; [cbn [length] in Hk; lia|reflexivity].
      * apply shiftq_nth_S. rewrite map_length. exact Hk.
Qed.

Print Assumptions delay_cells_refine.
Print Assumptions delayline_refines.
