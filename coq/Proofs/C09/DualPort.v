(* C09: DualPortSynchronousMemory (regenerated clock(): read a, read b, write a, write b). *)
From V Require Import Base.Bits Gen.WireOps Gen.Prims Gen.Seq Model.SeqBlocks Spec.C09 Proofs.C09.Leaves Proofs.C09.Run Proofs.C09.Mem.

Lemma dp_step_eq wra wrb s raa waa wa wda rab wab wb wdb :
  dp_step wra wrb s ((raa, waa, wa, wda), (rab, wab, wb, wdb)) =
  let d := dp_data s in
  let d1 := if wa =? 0 then d else setZ d waa wda in
  ({| DualPortSynchronousMemory_s_data := if wb =? 0 then d1 else setZ d1 wab wdb |},
   (trunc wra (Seq.getZ d raa), trunc wrb (Seq.getZ d rab))).
Proof. unfold dp_step, dp_data. rewrite DualPortSynchronousMemory_clock_eq. reflexivity. Qed.

Definition dp_rel (aw : Z) (s : dp_state) (t : (Z -> Z) * (Z * Z)) : Prop :=
  (forall a, 0 <= a < 2 ^ aw -> Seq.getZ (dp_data s) a = fst t a) /\ Z.of_nat (length (dp_data s)) = 2 ^ aw.

(* writing through one port keeps list and map in step *)
Lemma upd_rel aw d m we wa wd : 0 <= wa < 2 ^ aw ->
  (forall a, 0 <= a < 2 ^ aw -> Seq.getZ d a = m a) -> Z.of_nat (length d) = 2 ^ aw ->
  (forall a, 0 <= a < 2 ^ aw -> Seq.getZ (if we =? 0 then d else setZ d wa wd) a = upd m we wa wd a) /\
  Z.of_nat (length (if we =? 0 then d else setZ d wa wd)) = 2 ^ aw.
Proof.
  intros Hwa Hd Hl. unfold upd. destruct (we =? 0); [split; auto|].
  split.
  - intros a Ha. rewrite getZ_setZ by lia. destruct (a =? wa); auto.
  - rewrite setZ_length. exact Hl.
Qed.

(* one edge: the content follows the reference (a's write, then b's), BOTH ports return the pre-edge content *)
Lemma dp_step_sim aw wra wrb s t i : 0 <= wra -> 0 <= wrb -> dp_addr_ok aw i -> dp_rel aw s t ->
  dp_rel aw (dp_step wra wrb s i) (dp_spec wra wrb t i) /\
  dp_out_a (dp_step wra wrb s i) = fst (snd (dp_spec wra wrb t i)) /\
  dp_out_b (dp_step wra wrb s i) = snd (snd (dp_spec wra wrb t i)).
Proof.
  intros Hwa Hwb Hok [Hd Hl]. destruct i as [[[[raa waa] wa] wda] [[[rab wab] wb] wdb]].
  unfold dp_addr_ok in Hok. destruct Hok as (Hraa & Hwaa & Hrab & Hwab).
  rewrite dp_step_eq. cbv zeta. unfold dp_spec, dp_rel, dp_out_a, dp_out_b in *.
  destruct (upd_rel aw (dp_data s) (fst t) wa waa wda Hwaa Hd Hl) as [Hd1 Hl1].
  destruct (upd_rel aw _ _ wb wab wdb Hwab Hd1 Hl1) as [Hd2 Hl2].
  unfold dp_data in *. cbn [fst snd DualPortSynchronousMemory_s_data].
  split; [split; assumption|].
  rewrite !trunc_mod, !Hd by lia. split; reflexivity.
Qed.

Lemma dp_init_rel aw : 0 <= aw -> dp_rel aw (dp_init aw) dp_spec_init.
Proof.
  intros Haw. unfold dp_rel, dp_init, dp_spec_init, dp_data. cbn [fst DualPortSynchronousMemory_s_data]. split.
  - intros a Ha. rewrite getZ_nth. apply mem_nth_repeat0.
  - rewrite repeat_length, Z2Nat.id; [reflexivity|]. pose proof (pow2_pos aw Haw); lia.
Qed.

Definition dp_rel_out (aw : Z) (s : dp_state) (t : (Z -> Z) * (Z * Z)) : Prop :=
  dp_rel aw s t /\ dp_out_a s = fst (snd t) /\ dp_out_b s = snd (snd t).

(* for EVERY address-legal history from power-up: content = reference map (b's write wins when both ports write the same
   cell at one edge), and both read ports show the content BEFORE the last edge's writes (whichever port wrote) *)
Lemma dualport_refines aw wra wrb h : 0 <= aw -> 0 <= wra -> 0 <= wrb -> Forall (dp_addr_ok aw) h ->
  let s := run (dp_step wra wrb) (dp_init aw) h in
  let t := run (dp_spec wra wrb) dp_spec_init h in
  (forall a, 0 <= a < 2 ^ aw -> Seq.getZ (dp_data s) a = fst t a) /\
  Z.of_nat (length (dp_data s)) = 2 ^ aw /\
  dp_out_a s = fst (snd t) /\ dp_out_b s = snd (snd t).
Proof.
  intros Haw Hwa Hwb Hh s t. subst s t.
  assert (H : dp_rel_out aw (run (dp_step wra wrb) (dp_init aw) h) (run (dp_spec wra wrb) dp_spec_init h)).
  { apply (run_sim_guard (dp_step wra wrb) (dp_spec wra wrb) (dp_rel_out aw) (dp_addr_ok aw)); auto.
    - intros s t i Hi [HR _]. unfold dp_rel_out. apply dp_step_sim; auto.
    - split; [apply dp_init_rel; auto | split; reflexivity]. }
  destruct H as ([Hd Hl] & Ha & Hb). auto.
Qed.

(* the two collision cases, read off one edge of the model directly *)
Lemma dualport_read_before_any_write wra wrb s raa waa wa wda rab wab wb wdb :
  let s' := dp_step wra wrb s ((raa, waa, wa, wda), (rab, wab, wb, wdb)) in
  dp_out_a s' = trunc wra (Seq.getZ (dp_data s) raa) /\ dp_out_b s' = trunc wrb (Seq.getZ (dp_data s) rab).
Proof. cbv zeta. rewrite dp_step_eq. split; reflexivity. Qed.
Lemma dualport_b_wins wra wrb s raa wa wda rab wab wdb wb :
  wb <> 0 -> 0 <= wab < Z.of_nat (length (dp_data s)) ->
  Seq.getZ (dp_data (dp_step wra wrb s ((raa, wab, wa, wda), (rab, wab, wb, wdb)))) wab = wdb.
Proof.
  intros Hwb Hr. rewrite dp_step_eq. cbv zeta. unfold dp_data at 1. cbn [fst DualPortSynchronousMemory_s_data].
  destruct (Z.eqb_spec wb 0) as [E|_]; [contradiction|].
  rewrite getZ_setZ; [rewrite Z.eqb_refl; reflexivity | | lia].
  destruct (wa =? 0); [lia | rewrite setZ_length; lia].
Qed.
