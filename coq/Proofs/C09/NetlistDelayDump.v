(* C09: the hand-written, delay-recursive design term `delayline_design` of Proofs/C09/NetlistDelay.v compared with what py/netlist.py
   `Dump(hw).coq_design()` printed for live py4hw DelayLine objects inside a bare HWSystem (wires created in the order a, en, reset, r;
   then DelayLine(hw, 'dl', a, en, reset, r, delay)).  The Definitions below are that output PASTED VERBATIM (captured on /repo as of this
   session; not regenerated per run); each lemma is closed by `reflexivity`: the instantiated term and the dumped term are convertible -
   leaf functions, wire ids, leaf order, widths, clock driver (none for delay = 0), initial leaf states and the constructor-time pokes. *)
From V Require Import Base.PyInt Gen.WireOps Gen.Helpers Gen.Prims Gen.Seq Model.SimKernel Model.Trace.
From V Require Import Proofs.C09.NetlistDelay.

Definition delayline_dump_4_4_1_1_true_true_0 : design AnySt :=
  {| widths := [1; 4; 1; 1; 4];
   combs := [
    {| c_in := [1%nat]; c_out := [4%nat]; c_f := fun ins => match ins with [x1] => let r := Buf_propagate 4 x1 in [Some r] | _ => [] end |}];
   seqs := [
    ];
   drivers := [] |}.
Definition delayline_dump_4_4_1_1_true_true_0_st0 : list AnySt := [].

Definition delayline_dump_4_4_1_1_true_true_0_pokes : list (nat * Z) := [].

Lemma delayline_dump_4_4_1_1_true_true_0_ok : delayline_design 4 4 1 1 true true 0 = delayline_dump_4_4_1_1_true_true_0 /\ delayline_st0 0 = delayline_dump_4_4_1_1_true_true_0_st0 /\ delayline_init_pokes true true 0 = delayline_dump_4_4_1_1_true_true_0_pokes.
Proof. repeat split; reflexivity. Qed.

Definition delayline_dump_4_4_1_1_true_true_1 : design AnySt :=
  {| widths := [1; 4; 1; 1; 4; 4];
   combs := [
    {| c_in := [5%nat]; c_out := [4%nat]; c_f := fun ins => match ins with [x1] => let r := Buf_propagate 4 x1 in [Some r] | _ => [] end |}];
   seqs := [
    {| s_in := [1%nat; 2%nat; 3%nat]; s_out := [5%nat]; s_f := fun st ins => match st, ins with St_Reg s, [x1; x2; x3] => let '(s', r) := Reg_clock 4 true true 0 s x1 x2 x3 in (St_Reg s', [Some r]) | _, _ => (st, []) end |}];
   drivers := [{| d_enable := None; d_leaves := [0%nat] |}] |}.
Definition delayline_dump_4_4_1_1_true_true_1_st0 : list AnySt := [St_Reg {| Reg_s_value := 0 |}].

Definition delayline_dump_4_4_1_1_true_true_1_pokes : list (nat * Z) := [(5%nat, 0)].

Lemma delayline_dump_4_4_1_1_true_true_1_ok : delayline_design 4 4 1 1 true true 1 = delayline_dump_4_4_1_1_true_true_1 /\ delayline_st0 1 = delayline_dump_4_4_1_1_true_true_1_st0 /\ delayline_init_pokes true true 1 = delayline_dump_4_4_1_1_true_true_1_pokes.
Proof. repeat split; reflexivity. Qed.

Definition delayline_dump_4_4_1_1_true_true_2 : design AnySt :=
  {| widths := [1; 4; 1; 1; 4; 4; 4];
   combs := [
    {| c_in := [6%nat]; c_out := [4%nat]; c_f := fun ins => match ins with [x1] => let r := Buf_propagate 4 x1 in [Some r] | _ => [] end |}];
   seqs := [
    {| s_in := [1%nat; 2%nat; 3%nat]; s_out := [5%nat]; s_f := fun st ins => match st, ins with St_Reg s, [x1; x2; x3] => let '(s', r) := Reg_clock 4 true true 0 s x1 x2 x3 in (St_Reg s', [Some r]) | _, _ => (st, []) end |};
    {| s_in := [5%nat; 2%nat; 3%nat]; s_out := [6%nat]; s_f := fun st ins => match st, ins with St_Reg s, [x1; x2; x3] => let '(s', r) := Reg_clock 4 true true 0 s x1 x2 x3 in (St_Reg s', [Some r]) | _, _ => (st, []) end |}];
   drivers := [{| d_enable := None; d_leaves := [0%nat; 1%nat] |}] |}.
Definition delayline_dump_4_4_1_1_true_true_2_st0 : list AnySt := [St_Reg {| Reg_s_value := 0 |}; St_Reg {| Reg_s_value := 0 |}].

Definition delayline_dump_4_4_1_1_true_true_2_pokes : list (nat * Z) := [(5%nat, 0); (6%nat, 0)].

Lemma delayline_dump_4_4_1_1_true_true_2_ok : delayline_design 4 4 1 1 true true 2 = delayline_dump_4_4_1_1_true_true_2 /\ delayline_st0 2 = delayline_dump_4_4_1_1_true_true_2_st0 /\ delayline_init_pokes true true 2 = delayline_dump_4_4_1_1_true_true_2_pokes.
Proof. repeat split; reflexivity. Qed.

Definition delayline_dump_4_4_1_1_true_true_3 : design AnySt :=
  {| widths := [1; 4; 1; 1; 4; 4; 4; 4];
   combs := [
    {| c_in := [7%nat]; c_out := [4%nat]; c_f := fun ins => match ins with [x1] => let r := Buf_propagate 4 x1 in [Some r] | _ => [] end |}];
   seqs := [
    {| s_in := [1%nat; 2%nat; 3%nat]; s_out := [5%nat]; s_f := fun st ins => match st, ins with St_Reg s, [x1; x2; x3] => let '(s', r) := Reg_clock 4 true true 0 s x1 x2 x3 in (St_Reg s', [Some r]) | _, _ => (st, []) end |};
    {| s_in := [5%nat; 2%nat; 3%nat]; s_out := [6%nat]; s_f := fun st ins => match st, ins with St_Reg s, [x1; x2; x3] => let '(s', r) := Reg_clock 4 true true 0 s x1 x2 x3 in (St_Reg s', [Some r]) | _, _ => (st, []) end |};
    {| s_in := [6%nat; 2%nat; 3%nat]; s_out := [7%nat]; s_f := fun st ins => match st, ins with St_Reg s, [x1; x2; x3] => let '(s', r) := Reg_clock 4 true true 0 s x1 x2 x3 in (St_Reg s', [Some r]) | _, _ => (st, []) end |}];
   drivers := [{| d_enable := None; d_leaves := [0%nat; 1%nat; 2%nat] |}] |}.
Definition delayline_dump_4_4_1_1_true_true_3_st0 : list AnySt := [St_Reg {| Reg_s_value := 0 |}; St_Reg {| Reg_s_value := 0 |}; St_Reg {| Reg_s_value := 0 |}].

Definition delayline_dump_4_4_1_1_true_true_3_pokes : list (nat * Z) := [(5%nat, 0); (6%nat, 0); (7%nat, 0)].

Lemma delayline_dump_4_4_1_1_true_true_3_ok : delayline_design 4 4 1 1 true true 3 = delayline_dump_4_4_1_1_true_true_3 /\ delayline_st0 3 = delayline_dump_4_4_1_1_true_true_3_st0 /\ delayline_init_pokes true true 3 = delayline_dump_4_4_1_1_true_true_3_pokes.
Proof. repeat split; reflexivity. Qed.

Definition delayline_dump_4_4_1_1_false_false_2 : design AnySt :=
  {| widths := [1; 4; 4; 4; 4];
   combs := [
    {| c_in := [4%nat]; c_out := [2%nat]; c_f := fun ins => match ins with [x1] => let r := Buf_propagate 4 x1 in [Some r] | _ => [] end |}];
   seqs := [
    {| s_in := [1%nat]; s_out := [3%nat]; s_f := fun st ins => match st, ins with St_Reg s, [x1] => let '(s', r) := Reg_clock 4 false false 0 s x1 0 0 in (St_Reg s', [Some r]) | _, _ => (st, []) end |};
    {| s_in := [3%nat]; s_out := [4%nat]; s_f := fun st ins => match st, ins with St_Reg s, [x1] => let '(s', r) := Reg_clock 4 false false 0 s x1 0 0 in (St_Reg s', [Some r]) | _, _ => (st, []) end |}];
   drivers := [{| d_enable := None; d_leaves := [0%nat; 1%nat] |}] |}.
Definition delayline_dump_4_4_1_1_false_false_2_st0 : list AnySt := [St_Reg {| Reg_s_value := 0 |}; St_Reg {| Reg_s_value := 0 |}].

Definition delayline_dump_4_4_1_1_false_false_2_pokes : list (nat * Z) := [(3%nat, 0); (4%nat, 0)].

Lemma delayline_dump_4_4_1_1_false_false_2_ok : delayline_design 4 4 1 1 false false 2 = delayline_dump_4_4_1_1_false_false_2 /\ delayline_st0 2 = delayline_dump_4_4_1_1_false_false_2_st0 /\ delayline_init_pokes false false 2 = delayline_dump_4_4_1_1_false_false_2_pokes.
Proof. repeat split; reflexivity. Qed.

Definition delayline_dump_4_4_1_1_true_false_2 : design AnySt :=
  {| widths := [1; 4; 1; 4; 4; 4];
   combs := [
    {| c_in := [5%nat]; c_out := [3%nat]; c_f := fun ins => match ins with [x1] => let r := Buf_propagate 4 x1 in [Some r] | _ => [] end |}];
   seqs := [
    {| s_in := [1%nat; 2%nat]; s_out := [4%nat]; s_f := fun st ins => match st, ins with St_Reg s, [x1; x2] => let '(s', r) := Reg_clock 4 true false 0 s x1 x2 0 in (St_Reg s', [Some r]) | _, _ => (st, []) end |};
    {| s_in := [4%nat; 2%nat]; s_out := [5%nat]; s_f := fun st ins => match st, ins with St_Reg s, [x1; x2] => let '(s', r) := Reg_clock 4 true false 0 s x1 x2 0 in (St_Reg s', [Some r]) | _, _ => (st, []) end |}];
   drivers := [{| d_enable := None; d_leaves := [0%nat; 1%nat] |}] |}.
Definition delayline_dump_4_4_1_1_true_false_2_st0 : list AnySt := [St_Reg {| Reg_s_value := 0 |}; St_Reg {| Reg_s_value := 0 |}].

Definition delayline_dump_4_4_1_1_true_false_2_pokes : list (nat * Z) := [(4%nat, 0); (5%nat, 0)].

Lemma delayline_dump_4_4_1_1_true_false_2_ok : delayline_design 4 4 1 1 true false 2 = delayline_dump_4_4_1_1_true_false_2 /\ delayline_st0 2 = delayline_dump_4_4_1_1_true_false_2_st0 /\ delayline_init_pokes true false 2 = delayline_dump_4_4_1_1_true_false_2_pokes.
Proof. repeat split; reflexivity. Qed.

Definition delayline_dump_4_4_1_1_false_true_2 : design AnySt :=
  {| widths := [1; 4; 1; 4; 4; 4];
   combs := [
    {| c_in := [5%nat]; c_out := [3%nat]; c_f := fun ins => match ins with [x1] => let r := Buf_propagate 4 x1 in [Some r] | _ => [] end |}];
   seqs := [
    {| s_in := [1%nat; 2%nat]; s_out := [4%nat]; s_f := fun st ins => match st, ins with St_Reg s, [x1; x2] => let '(s', r) := Reg_clock 4 false true 0 s x1 0 x2 in (St_Reg s', [Some r]) | _, _ => (st, []) end |};
    {| s_in := [4%nat; 2%nat]; s_out := [5%nat]; s_f := fun st ins => match st, ins with St_Reg s, [x1; x2] => let '(s', r) := Reg_clock 4 false true 0 s x1 0 x2 in (St_Reg s', [Some r]) | _, _ => (st, []) end |}];
   drivers := [{| d_enable := None; d_leaves := [0%nat; 1%nat] |}] |}.
Definition delayline_dump_4_4_1_1_false_true_2_st0 : list AnySt := [St_Reg {| Reg_s_value := 0 |}; St_Reg {| Reg_s_value := 0 |}].

Definition delayline_dump_4_4_1_1_false_true_2_pokes : list (nat * Z) := [(4%nat, 0); (5%nat, 0)].

Lemma delayline_dump_4_4_1_1_false_true_2_ok : delayline_design 4 4 1 1 false true 2 = delayline_dump_4_4_1_1_false_true_2 /\ delayline_st0 2 = delayline_dump_4_4_1_1_false_true_2_st0 /\ delayline_init_pokes false true 2 = delayline_dump_4_4_1_1_false_true_2_pokes.
Proof. repeat split; reflexivity. Qed.

Definition delayline_dump_4_4_1_1_false_false_0 : design AnySt :=
  {| widths := [1; 4; 4];
   combs := [
    {| c_in := [1%nat]; c_out := [2%nat]; c_f := fun ins => match ins with [x1] => let r := Buf_propagate 4 x1 in [Some r] | _ => [] end |}];
   seqs := [
    ];
   drivers := [] |}.
Definition delayline_dump_4_4_1_1_false_false_0_st0 : list AnySt := [].

Definition delayline_dump_4_4_1_1_false_false_0_pokes : list (nat * Z) := [].

Lemma delayline_dump_4_4_1_1_false_false_0_ok : delayline_design 4 4 1 1 false false 0 = delayline_dump_4_4_1_1_false_false_0 /\ delayline_st0 0 = delayline_dump_4_4_1_1_false_false_0_st0 /\ delayline_init_pokes false false 0 = delayline_dump_4_4_1_1_false_false_0_pokes.
Proof. repeat split; reflexivity. Qed.

Definition delayline_dump_3_5_2_3_true_true_5 : design AnySt :=
  {| widths := [1; 3; 2; 3; 5; 3; 3; 3; 3; 3];
   combs := [
    {| c_in := [9%nat]; c_out := [4%nat]; c_f := fun ins => match ins with [x1] => let r := Buf_propagate 5 x1 in [Some r] | _ => [] end |}];
   seqs := [
    {| s_in := [1%nat; 2%nat; 3%nat]; s_out := [5%nat]; s_f := fun st ins => match st, ins with St_Reg s, [x1; x2; x3] => let '(s', r) := Reg_clock 3 true true 0 s x1 x2 x3 in (St_Reg s', [Some r]) | _, _ => (st, []) end |};
    {| s_in := [5%nat; 2%nat; 3%nat]; s_out := [6%nat]; s_f := fun st ins => match st, ins with St_Reg s, [x1; x2; x3] => let '(s', r) := Reg_clock 3 true true 0 s x1 x2 x3 in (St_Reg s', [Some r]) | _, _ => (st, []) end |};
    {| s_in := [6%nat; 2%nat; 3%nat]; s_out := [7%nat]; s_f := fun st ins => match st, ins with St_Reg s, [x1; x2; x3] => let '(s', r) := Reg_clock 3 true true 0 s x1 x2 x3 in (St_Reg s', [Some r]) | _, _ => (st, []) end |};
    {| s_in := [7%nat; 2%nat; 3%nat]; s_out := [8%nat]; s_f := fun st ins => match st, ins with St_Reg s, [x1; x2; x3] => let '(s', r) := Reg_clock 3 true true 0 s x1 x2 x3 in (St_Reg s', [Some r]) | _, _ => (st, []) end |};
    {| s_in := [8%nat; 2%nat; 3%nat]; s_out := [9%nat]; s_f := fun st ins => match st, ins with St_Reg s, [x1; x2; x3] => let '(s', r) := Reg_clock 3 true true 0 s x1 x2 x3 in (St_Reg s', [Some r]) | _, _ => (st, []) end |}];
   drivers := [{| d_enable := None; d_leaves := [0%nat; 1%nat; 2%nat; 3%nat; 4%nat] |}] |}.
Definition delayline_dump_3_5_2_3_true_true_5_st0 : list AnySt := [St_Reg {| Reg_s_value := 0 |}; St_Reg {| Reg_s_value := 0 |}; St_Reg {| Reg_s_value := 0 |}; St_Reg {| Reg_s_value := 0 |}; St_Reg {| Reg_s_value := 0 |}].

Definition delayline_dump_3_5_2_3_true_true_5_pokes : list (nat * Z) := [(5%nat, 0); (6%nat, 0); (7%nat, 0); (8%nat, 0); (9%nat, 0)].

Lemma delayline_dump_3_5_2_3_true_true_5_ok : delayline_design 3 5 2 3 true true 5 = delayline_dump_3_5_2_3_true_true_5 /\ delayline_st0 5 = delayline_dump_3_5_2_3_true_true_5_st0 /\ delayline_init_pokes true true 5 = delayline_dump_3_5_2_3_true_true_5_pokes.
Proof. repeat split; reflexivity. Qed.

Definition delayline_dump_8_2_2_1_false_true_1 : design AnySt :=
  {| widths := [1; 8; 1; 2; 8];
   combs := [
    {| c_in := [4%nat]; c_out := [3%nat]; c_f := fun ins => match ins with [x1] => let r := Buf_propagate 2 x1 in [Some r] | _ => [] end |}];
   seqs := [
    {| s_in := [1%nat; 2%nat]; s_out := [4%nat]; s_f := fun st ins => match st, ins with St_Reg s, [x1; x2] => let '(s', r) := Reg_clock 8 false true 0 s x1 0 x2 in (St_Reg s', [Some r]) | _, _ => (st, []) end |}];
   drivers := [{| d_enable := None; d_leaves := [0%nat] |}] |}.
Definition delayline_dump_8_2_2_1_false_true_1_st0 : list AnySt := [St_Reg {| Reg_s_value := 0 |}].

Definition delayline_dump_8_2_2_1_false_true_1_pokes : list (nat * Z) := [(4%nat, 0)].

Lemma delayline_dump_8_2_2_1_false_true_1_ok : delayline_design 8 2 2 1 false true 1 = delayline_dump_8_2_2_1_false_true_1 /\ delayline_st0 1 = delayline_dump_8_2_2_1_false_true_1_st0 /\ delayline_init_pokes false true 1 = delayline_dump_8_2_2_1_false_true_1_pokes.
Proof. repeat split; reflexivity. Qed.
