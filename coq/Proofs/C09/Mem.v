(* C09: SynchronousMemory (storage.py:262-290) refines the total-map reference machine. *)
From V Require Import Base.Bits Gen.WireOps Gen.Prims Gen.Seq Model.SeqBlocks Spec.C09 Proofs.C09.Leaves Proofs.C09.Run Proofs.C09.Reg.

(* ------------------------------------------------------------------ list facts *)
Lemma mem_set_nth_length {A} : forall (l : list A) i v, length (set_nth l i v) = length l.
Proof. induction l as [|y t IH]; intros [|i] v; cbn [set_nth length]; auto. Qed.

Lemma mem_nth_set_nth_same {A} (d : A) : forall (l : list A) i v, (i < length l)%nat -> nth i (set_nth l i v) d = v.
Proof.
  induction l as [|y t IH]; intros [|i] v Hi; cbn [length] in Hi; try lia; cbn [set_nth nth]; [reflexivity|].
  apply IH. lia.
Qed.

Lemma mem_nth_set_nth_other {A} (d : A) : forall (l : list A) i j v, i <> j -> nth j (set_nth l i v) d = nth j l d.
Proof.
  induction l as [|y t IH]; intros [|i] [|j] v Hij; cbn [set_nth nth]; try reflexivity; try congruence.
  apply IH. congruence.
Qed.

Lemma mem_nth_repeat0 : forall n k, nth k (repeat 0 n) 0 = 0.
Proof. induction n as [|n IH]; intros [|k]; cbn [repeat nth]; auto. Qed.

Lemma getZ_nth l i : Seq.getZ l i = nth (Z.to_nat i) l 0.
Proof. reflexivity. Qed.

Lemma setZ_set_nth {A} (l : list A) i v : 0 <= i -> setZ l i v = set_nth l (Z.to_nat i) v.
Proof. intros Hi. unfold setZ. destruct (Z.ltb_spec i 0); [lia|reflexivity]. Qed.

Lemma setZ_length {A} (l : list A) i v : length (setZ l i v) = length l.
Proof. unfold setZ. destruct (i <? 0); [reflexivity|apply mem_set_nth_length]. Qed.

(* reading a list after a write inside its bounds *)
Lemma getZ_setZ l wa wd a : 0 <= wa < Z.of_nat (length l) -> 0 <= a ->
  Seq.getZ (setZ l wa wd) a = if a =? wa then wd else Seq.getZ l a.
Proof.
  intros Hwa Ha. rewrite !getZ_nth, setZ_set_nth by lia. destruct (Z.eqb_spec a wa) as [->|Hne].
  - apply mem_nth_set_nth_same. lia.
  - apply mem_nth_set_nth_other. intros E. apply Hne. apply Z2Nat.inj; lia.
Qed.

(* ------------------------------------------------------------------ the model's step in closed form *)
Lemma mem_step_eq wr s ra wa we wd :
  mem_step wr s ra wa we wd =
  ({| SynchronousMemory_s_data := if we =? 0 then mem_data s else setZ (mem_data s) wa wd |},
   trunc wr (Seq.getZ (mem_data s) ra)).
Proof. unfold mem_step, mem_data. apply SynchronousMemory_clock_eq. Qed.

Lemma mem_data_pair d o : mem_data ({| SynchronousMemory_s_data := d |}, o) = d.
Proof. reflexivity. Qed.
Lemma mem_out_pair st o : mem_out (st, o) = o.
Proof. reflexivity. Qed.

(* the clause "read returns the content before a same-cycle write", read off the model directly *)
Lemma syncmem_read_before_write wr s ra wa we wd :
  mem_out (mem_step wr s ra wa we wd) = trunc wr (Seq.getZ (mem_data s) ra).
Proof. rewrite mem_step_eq. reflexivity. Qed.

(* ------------------------------------------------------------------ the simulation *)

Definition mem_rel (aw : Z) (s : mem_state) (t : (Z -> Z) * Z) : Prop :=
  (forall a, 0 <= a < 2 ^ aw -> Seq.getZ (mem_data s) a = fst t a) /\
  Z.of_nat (length (mem_data s)) = 2 ^ aw /\
  mem_out s = snd t.

Lemma mem_step_sim aw wr s t i : 0 <= wr -> addr_ok aw i ->
  mem_rel aw s t -> mem_rel aw (mem_m wr s i) (mem_spec wr t i).
Proof.
  intros Hwr Hok (Hd & Hlen & Ho). destruct i as [[[ra wa] we] wd]. destruct t as [m o].
  unfold addr_ok in Hok. destruct Hok as [Hra Hwa].
  unfold mem_m, mem_spec, mem_rel. rewrite mem_step_eq, !mem_data_pair, mem_out_pair. cbn [fst snd] in *.
  split; [|split].
  - intros a Ha. destruct (we =? 0); [apply Hd; exact Ha|].
    rewrite getZ_setZ by lia. destruct (a =? wa); [reflexivity|apply Hd; exact Ha].
  - destruct (we =? 0); [exact Hlen|]. rewrite setZ_length. exact Hlen.
  - rewrite Hd by exact Hra. apply trunc_mod. exact Hwr.
Qed.

Lemma mem_init_rel aw : 0 <= aw -> mem_rel aw (mem_init aw) mem_spec_init.
Proof.
  intros Haw. unfold mem_rel, mem_init, mem_spec_init, mem_data, mem_out. cbn [fst snd SynchronousMemory_s_data].
  split; [|split].
  - intros a _. rewrite getZ_nth. apply mem_nth_repeat0.
  - rewrite repeat_length. apply Z2Nat.id. pose proof (pow2_pos aw Haw). lia.
  - reflexivity.
Qed.

Lemma syncmem_refines aw wr h : 0 <= aw -> 0 <= wr -> Forall (addr_ok aw) h ->
  let s := run (mem_m wr) (mem_init aw) h in
  let t := run (mem_spec wr) mem_spec_init h in
  (forall a, 0 <= a < 2 ^ aw -> Seq.getZ (mem_data s) a = fst t a) /\
  Z.of_nat (length (mem_data s)) = 2 ^ aw /\
  mem_out s = snd t.
Proof.
  intros Haw Hwr Hh s t. subst s t.
  apply (run_sim_guard (mem_m wr) (mem_spec wr) (mem_rel aw) (addr_ok aw)).
  - intros; apply mem_step_sim; auto.
  - exact Hh.
  - apply mem_init_rel. exact Haw.
Qed.

Print Assumptions syncmem_refines.
Print Assumptions syncmem_read_before_write.
