(* C09: the reference machines mean what their names say (closed forms and algebraic laws of the SPECS). *)
From V Require Import Base.Bits Spec.C09 Proofs.C09.Run.

(* LIFO law: a push onto a non-full stack followed by a pop returns the pushed value and restores the stack *)
Lemma stack_spec_push_pop w depth stk dout x y p :
  (length stk < depth)%nat ->
  stack_spec w depth (stack_spec w depth (stk, dout) (x, 1, 0)) (y, p, 1) = (stk, x mod 2 ^ w).
Proof.
  intros Hl. unfold stack_spec. cbn [Z.eqb Pos.eqb]. 
  replace (firstn depth (x mod 2 ^ w :: stk)) with (x mod 2 ^ w :: stk); [reflexivity|].
  symmetry. apply firstn_all2. cbn [length]. lia.
Qed.
(* a full stack forgets its oldest element on push *)
Lemma firstn_pred_removelast (l : list Z) : firstn (length l - 1) l = removelast l.
Proof.
  induction l as [|a l IH]; [reflexivity|]. destruct l as [|b l]; [reflexivity|].
  change (removelast (a :: b :: l)) with (a :: removelast (b :: l)). rewrite <- IH.
  cbn [length]. replace (S (S (length l)) - 1)%nat with (S (S (length l) - 1)) by lia. reflexivity.
Qed.
Lemma stack_spec_push_full w depth stk dout x :
  length stk = depth -> (1 <= depth)%nat ->
  fst (stack_spec w depth (stk, dout) (x, 1, 0)) = (x mod 2 ^ w) :: removelast stk.
Proof.
  intros Hl Hd. unfold stack_spec. cbn [Z.eqb Pos.eqb fst].
  destruct depth as [|k]; [lia|]. cbn [firstn]. f_equal.
  rewrite <- firstn_pred_removelast. f_equal. lia.
Qed.

(* as long as the ideal unbounded stack never holds more than depth elements, the bounded reference stack IS the ideal one *)
Lemma stack_spec_is_ideal w depth h : forall s, never_above w depth s h ->
  run (stack_spec w depth) s h = run (ustack_spec w) s h.
Proof.
  induction h as [|i h IH]; intros s Hn; [reflexivity|].
  cbn [never_above] in Hn. destruct Hn as [Hl Hn]. rewrite !run_cons.
  assert (E : stack_spec w depth s i = ustack_spec w s i).
  { destruct s as [stk dout]. destruct i as [[din push] pop]. unfold stack_spec, ustack_spec in *.
    destruct (pop =? 1); [reflexivity|]. destruct (push =? 1); [|reflexivity].
    cbn [fst] in Hl. rewrite firstn_all2 by exact Hl. reflexivity. }
  rewrite E. apply IH. exact Hn.
Qed.

(* free-running counters in closed form *)
Lemma counter_spec_free w k : 0 <= w -> run (counter_spec w true false) 0 (repeat (0, 1) k) = Z.of_nat k mod 2 ^ w.
Proof.
  intros Hw. pose proof (pow2_pos w Hw) as Hp.
  induction k as [|k IH]; [rewrite Z.mod_0_l by lia; reflexivity|].
  replace (repeat (0, 1) (S k)) with (repeat (0, 1) k ++ [(0, 1)]) by (rewrite <- repeat_cons; reflexivity).
  rewrite run_snoc, IH. unfold counter_spec, bit0. cbn [andb negb orb Z.odd].
  rewrite Z.add_mod_idemp_l by lia. f_equal. lia.
Qed.
Lemma modcounter_spec_free m k : 0 < m -> run (modcounter_spec m) 0 (repeat (0, 1) k) = Z.of_nat k mod m.
Proof.
  intros Hm. induction k as [|k IH]; [rewrite Z.mod_0_l by lia; reflexivity|].
  replace (repeat (0, 1) (S k)) with (repeat (0, 1) k ++ [(0, 1)]) by (rewrite <- repeat_cons; reflexivity).
  rewrite run_snoc, IH. unfold modcounter_spec, bit0. cbn [Z.odd].
  rewrite Z.add_mod_idemp_l by lia. f_equal. lia.
Qed.
