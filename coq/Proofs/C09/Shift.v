(* C09: ShiftRegisterBidirectional and Stack_ShiftRegister refine their reference machines. *)
From V Require Import Base.Bits Gen.WireOps Gen.Prims Gen.Seq Model.SeqBlocks Spec.C09 Proofs.C09.Leaves Proofs.C09.Run Proofs.C09.Reg.

(* ------------------------------------------------------------------ small facts *)
(* the 1-bit Or2 wire is 0 exactly when both operands have bit 0 clear *)
Lemma or1_eqb0 a b : (Or2_propagate 1 a b =? 0) = negb (Z.odd a || Z.odd b).
Proof.
  rewrite Or2_eq, trunc_mod by lia. change (2 ^ 1) with 2. rewrite Zmod_odd.
  rewrite <- !Z.bit0_odd, Z.lor_spec.
  destruct (Z.testbit a 0 || Z.testbit b 0); reflexivity.
Qed.

Lemma map_repeat' {A B} (f : A -> B) x n : map f (repeat x n) = repeat (f x) n.
Proof. induction n as [|n IH]; [reflexivity|]. cbn [repeat map]. f_equal. exact IH. Qed.

Lemma removelast_cons2 {A} (a b : A) l : removelast (a :: b :: l) = a :: removelast (b :: l).
Proof. reflexivity. Qed.

Lemma repeat_snoc0 n : repeat 0 n ++ [0] = repeat 0 (S n).
Proof. rewrite <- repeat_cons. reflexivity. Qed.

(* ------------------------------------------------------------------ the cell invariant: the q wire is the masked attribute *)
Definition cell_ok (w : Z) (c : cell) : Prop := cell_q c = trunc w (cell_value c).

Lemma cell_ok_init w : cell_ok w cell_zero.
Proof. reflexivity. Qed.

Lemma cell_ok_edge w he hr rv c d e r : cell_ok w (reg_edge w he hr rv c d e r).
Proof. apply reg_edge_q. Qed.

Lemma cell_ok_trunc w c : 0 <= w -> cell_ok w c -> trunc w (cell_q c) = cell_q c.
Proof. intros Hw H. unfold cell_ok in H. rewrite H. apply trunc_idem; lia. Qed.

Lemma cell_ok_range w c : 0 <= w -> cell_ok w c -> 0 <= cell_q c < 2 ^ w.
Proof. intros Hw H. unfold cell_ok in H. rewrite H. apply trunc_range; lia. Qed.

Lemma cells_ok_init w depth : Forall (cell_ok w) (srb_init depth).
Proof.
  unfold srb_init. apply Forall_forall. intros c Hc. apply repeat_spec in Hc. subst c. apply cell_ok_init.
Qed.

Lemma cells_ok_last w cs : 0 <= w -> Forall (cell_ok w) cs -> cs <> [] ->
  trunc w (last (map cell_q cs) 0) = last (map cell_q cs) 0.
Proof.
  intros Hw Hok. induction Hok as [|c cs Hc Hcs IH]; intros Hne; [congruence|].
  destruct cs as [|c2 cs'].
  - cbn [map last]. apply cell_ok_trunc; auto.
  - change (last (map cell_q (c :: c2 :: cs')) 0) with (last (map cell_q (c2 :: cs')) 0).
    apply IH. discriminate.
Qed.

(* ------------------------------------------------------------------ one edge of the register row *)
Lemma srb_step_ok w ri sl shift : forall cs vl, Forall (cell_ok w) (srb_step w cs vl ri sl shift).
Proof.
  induction cs as [|c rest IH]; intros vl; cbn [srb_step]; constructor.
  - apply cell_ok_edge.
  - apply IH.
Qed.

Lemma srb_step_length w ri sl shift : forall cs vl, length (srb_step w cs vl ri sl shift) = length cs.
Proof.
  induction cs as [|c rest IH]; intros vl; cbn [srb_step length]; [reflexivity|]. f_equal. apply IH.
Qed.

(* q of an enabled register without reset port *)
Lemma reg_edge_en_q w c d e : cell_ok w c ->
  cell_q (reg_edge w true false 0 c d e 0) = if e =? 0 then cell_q c else trunc w d.
Proof.
  intros Hc. rewrite reg_edge_eq. unfold cell_q at 1. cbn [snd]. unfold reg_next. cbn [andb].
  destruct (e =? 0); [symmetry; exact Hc | reflexivity].
Qed.

Lemma srb_step_q w ri sl shift : 0 <= w -> forall cs vl, Forall (cell_ok w) cs -> cs <> [] ->
  map cell_q (srb_step w cs vl ri sl shift) =
  if shift =? 0 then map cell_q cs
  else if Z.odd sl then tl (map cell_q cs) ++ [trunc w ri]
  else trunc w vl :: removelast (map cell_q cs).
Proof.
  intros Hw. induction cs as [|c rest IH]; intros vl Hok Hne; [congruence|].
  inversion Hok as [|c' rest' Hc Hrest]; subst c' rest'.
  cbn [srb_step map]. rewrite reg_edge_en_q by exact Hc. rewrite Mux2_eq, trunc_idem by lia.
  destruct rest as [|c2 rest2].
  - cbn [srb_step map tl removelast app].
    destruct (shift =? 0); [reflexivity|]. destruct (Z.odd sl); reflexivity.
  - assert (Hne2 : c2 :: rest2 <> []) by discriminate.
    rewrite (IH (cell_q c) Hrest Hne2).
    inversion Hrest as [|c2' r2' Hc2 Hrest2]; subst c2' r2'.
    destruct (shift =? 0); [reflexivity|].
    destruct (Z.odd sl).
    + rewrite (cell_ok_trunc w c2) by auto. reflexivity.
    + rewrite (cell_ok_trunc w c) by auto. cbn [map]. rewrite removelast_cons2. reflexivity.
Qed.

Lemma srb_edge_q w cs li ri sl sr : 0 <= w -> Forall (cell_ok w) cs -> cs <> [] ->
  map cell_q (srb_edge w cs li ri sl sr) =
  if Z.odd sl then tl (map cell_q cs) ++ [trunc w ri]
  else if Z.odd sr then trunc w li :: removelast (map cell_q cs)
  else map cell_q cs.
Proof.
  intros Hw Hok Hne. unfold srb_edge. rewrite srb_step_q by auto. rewrite or1_eqb0.
  destruct (Z.odd sl), (Z.odd sr); reflexivity.
Qed.

Lemma srb_edge_ok w cs li ri sl sr : Forall (cell_ok w) (srb_edge w cs li ri sl sr).
Proof. apply srb_step_ok. Qed.
Lemma srb_edge_length w cs li ri sl sr : length (srb_edge w cs li ri sl sr) = length cs.
Proof. apply srb_step_length. Qed.

(* ------------------------------------------------------------------ ShiftRegisterBidirectional *)
Definition srb_rel (w : Z) (depth : nat) (cs : list cell) (l : list Z) : Prop :=
  Forall (cell_ok w) cs /\ length cs = depth /\ map cell_q cs = l.

Lemma srb_step_sim w depth cs l i : 0 <= w -> (1 <= depth)%nat ->
  srb_rel w depth cs l -> srb_rel w depth (srb_m w cs i) (srb_spec w l i).
Proof.
  intros Hw Hd (Hok & Hlen & Hq). destruct i as [[[li ri] sl] sr]. unfold srb_m, srb_spec, srb_rel, bit0.
  split; [apply srb_edge_ok|]. split; [rewrite srb_edge_length; exact Hlen|].
  assert (Hne : cs <> []) by (intros ->; cbn in Hlen; lia).
  rewrite srb_edge_q by auto. rewrite Hq, !trunc_mod by lia. reflexivity.
Qed.

Lemma srb_rel_init w depth : srb_rel w depth (srb_init depth) (repeat 0 depth).
Proof.
  split; [apply cells_ok_init|]. unfold srb_init. split; [apply repeat_length|]. apply map_repeat'.
Qed.

Lemma srb_run_rel w depth h : 0 <= w -> (1 <= depth)%nat ->
  srb_rel w depth (run (srb_m w) (srb_init depth) h) (run (srb_spec w) (repeat 0 depth) h).
Proof.
  intros Hw Hd. apply (run_sim (srb_m w) (srb_spec w) (srb_rel w depth)).
  - intros; apply srb_step_sim; auto.
  - apply srb_rel_init.
Qed.

Lemma shiftreg_refines w depth h : 0 <= w -> (1 <= depth)%nat ->
  map cell_q (run (srb_m w) (srb_init depth) h) = run (srb_spec w) (repeat 0 depth) h.
Proof. intros Hw Hd. apply (srb_run_rel w depth h Hw Hd). Qed.

Lemma srb_left_out_eq w cs : 0 <= w -> Forall (cell_ok w) cs -> cs <> [] ->
  srb_left_out w cs = hd 0 (map cell_q cs).
Proof.
  intros Hw Hok Hne. unfold srb_left_out. rewrite Buf_eq.
  destruct cs as [|c rest]; [congruence|]. inversion Hok; subst. cbn [map hd]. apply cell_ok_trunc; auto.
Qed.
Lemma srb_right_out_eq w cs : 0 <= w -> Forall (cell_ok w) cs -> cs <> [] ->
  srb_right_out w cs = last (map cell_q cs) 0.
Proof. intros Hw Hok Hne. unfold srb_right_out. rewrite Buf_eq. apply cells_ok_last; auto. Qed.

Lemma shiftreg_outputs w depth h : 0 <= w -> (1 <= depth)%nat ->
  srb_left_out w (run (srb_m w) (srb_init depth) h) = hd 0 (run (srb_spec w) (repeat 0 depth) h) /\
  srb_right_out w (run (srb_m w) (srb_init depth) h) = last (run (srb_spec w) (repeat 0 depth) h) 0.
Proof.
  intros Hw Hd. destruct (srb_run_rel w depth h Hw Hd) as (Hok & Hlen & Hq).
  assert (Hne : run (srb_m w) (srb_init depth) h <> []) by (intros E; rewrite E in Hlen; cbn in Hlen; lia).
  rewrite srb_left_out_eq, srb_right_out_eq by auto. rewrite Hq. split; reflexivity.
Qed.

(* the reference row keeps its length and its entries stay w-bit values *)
Lemma shiftreg_spec_shape w depth h : 0 <= w -> (1 <= depth)%nat ->
  length (run (srb_spec w) (repeat 0 depth) h) = depth /\
  Forall (fun x => 0 <= x < 2 ^ w) (run (srb_spec w) (repeat 0 depth) h).
Proof.
  intros Hw Hd. destruct (srb_run_rel w depth h Hw Hd) as (Hok & Hlen & Hq). rewrite <- Hq. split.
  - rewrite map_length. exact Hlen.
  - apply Forall_map. eapply Forall_impl; [|exact Hok]. intros c Hc. apply cell_ok_range; auto.
Qed.

(* ------------------------------------------------------------------ Stack_ShiftRegister *)

Lemma pad_hd depth stk : (1 <= depth)%nat -> hd 0 (pad depth stk) = hd 0 stk.
Proof.
  intros Hd. unfold pad. destruct stk as [|a s]; [|reflexivity].
  cbn [app length]. rewrite Nat.sub_0_r. destruct depth as [|n]; [lia|]. reflexivity.
Qed.

Lemma pad_pop depth stk : (1 <= depth)%nat -> (length stk <= depth)%nat ->
  tl (pad depth stk) ++ [0] = pad depth (tl stk).
Proof.
  intros Hd Hl. unfold pad. destruct stk as [|a s].
  - cbn [app length tl]. rewrite Nat.sub_0_r. destruct depth as [|n]; [lia|].
    cbn [repeat tl]. apply repeat_snoc0.
  - cbn [app length tl] in *. rewrite <- app_assoc, repeat_snoc0. f_equal. f_equal. lia.
Qed.

Lemma pad_push depth stk d : (1 <= depth)%nat -> (length stk <= depth)%nat ->
  d :: removelast (pad depth stk) = pad depth (firstn depth (d :: stk)).
Proof.
  intros Hd Hl. unfold pad. destruct (Nat.eq_dec (length stk) depth) as [E | N].
  - rewrite E, Nat.sub_diag. cbn [repeat]. rewrite app_nil_r.
    destruct depth as [|n]; [lia|]. cbn [firstn].
    rewrite removelast_firstn_len, E. cbn [Nat.pred].
    assert (Hfl : length (d :: firstn n stk) = S n) by (cbn [length]; rewrite firstn_length; lia).
    rewrite Hfl, Nat.sub_diag. cbn [repeat]. rewrite app_nil_r. reflexivity.
  - rewrite (firstn_all2 (n := depth) (d :: stk)) by (cbn [length]; lia).
    cbn [length app]. f_equal.
    replace (depth - length stk)%nat with (S (depth - S (length stk))) by lia.
    rewrite <- repeat_snoc0, app_assoc. apply removelast_last.
Qed.

Lemma firstn_depth_length {A} depth (l : list A) : (length (firstn depth l) <= depth)%nat.
Proof. rewrite firstn_length. lia. Qed.

Definition stack_rel (w : Z) (depth : nat) (s : stack_state) (t : list Z * Z) : Prop :=
  Forall (cell_ok w) (fst s) /\ length (fst s) = depth /\ cell_ok w (snd s) /\
  map cell_q (fst s) = pad depth (fst t) /\ (length (fst t) <= depth)%nat /\ stack_dout s = snd t.

Lemma stack_step_sim w depth s t i : 0 <= w -> (1 <= depth)%nat -> ctl_ok i ->
  stack_rel w depth s t -> stack_rel w depth (stack_m w s i) (stack_spec w depth t i).
Proof.
  intros Hw Hd Hi (Hok & Hlen & Hdc & Hq & Hl & Hdout).
  destruct i as [[din push] pop]. destruct s as [cs dc]. destruct t as [stk dout].
  unfold stack_dout in *. cbn [fst snd] in *. destruct Hi as [Hpush Hpop].
  assert (Hne : cs <> []) by (intros ->; cbn in Hlen; lia).
  unfold stack_m, stack_step, stack_spec, stack_rel, stack_dout. cbn [fst snd].
  split; [apply srb_edge_ok|]. split; [rewrite srb_edge_length; exact Hlen|]. split; [apply cell_ok_edge|].
  rewrite srb_edge_q by auto. rewrite reg_edge_en_q by exact Hdc.
  rewrite srb_left_out_eq by auto. rewrite Hq.
  change (Constant_propagate w 0) with 0. change (trunc w 0) with 0.
  destruct Hpop as [-> | ->].
  - (* no pop *)
    change (Z.odd 0) with false. change (0 =? 0) with true. change (0 =? 1) with false. cbv iota.
    destruct Hpush as [-> | ->].
    + change (Z.odd 0) with false. change (0 =? 1) with false. cbv iota. cbn [fst snd]. auto.
    + change (Z.odd 1) with true. change (1 =? 1) with true. cbv iota. cbn [fst snd].
      split; [|split; [apply firstn_depth_length | exact Hdout]].
      rewrite trunc_mod by lia. apply pad_push; auto.
  - (* pop *)
    change (Z.odd 1) with true. change (1 =? 0) with false. change (1 =? 1) with true. cbv iota. cbn [fst snd].
    split; [apply pad_pop; auto|]. split.
    + destruct stk as [|a st]; cbn [tl length] in *; lia.
    + rewrite pad_hd by auto.
      assert (Hh : hd 0 (pad depth stk) = hd 0 (map cell_q cs)) by (rewrite Hq; reflexivity).
      rewrite pad_hd in Hh by auto. rewrite Hh.
      destruct cs as [|c rest]; [congruence|]. inversion Hok; subst. cbn [map hd]. apply cell_ok_trunc; auto.
Qed.

Lemma stack_rel_init w depth : stack_rel w depth (stack_init depth) ([], 0).
Proof.
  unfold stack_rel, stack_init, stack_dout. cbn [fst snd].
  split; [apply cells_ok_init|]. unfold srb_init. split; [apply repeat_length|]. split; [apply cell_ok_init|].
  split; [|split; [cbn [length]; lia | reflexivity]].
  unfold pad. cbn [app length]. rewrite Nat.sub_0_r. apply map_repeat'.
Qed.

Lemma stack_run_rel w depth h : 0 <= w -> (1 <= depth)%nat -> Forall ctl_ok h ->
  stack_rel w depth (run (stack_m w) (stack_init depth) h) (run (stack_spec w depth) ([], 0) h).
Proof.
  intros Hw Hd Hh. apply (run_sim_guard (stack_m w) (stack_spec w depth) (stack_rel w depth) ctl_ok).
  - intros; apply stack_step_sim; auto.
  - exact Hh.
  - apply stack_rel_init.
Qed.

Lemma stack_refines w depth h : 0 <= w -> (1 <= depth)%nat -> Forall ctl_ok h ->
  let s := run (stack_m w) (stack_init depth) h in
  let t := run (stack_spec w depth) ([], 0) h in
  map cell_q (fst s) = pad depth (fst t) /\ (length (fst t) <= depth)%nat /\ stack_dout s = snd t.
Proof.
  intros Hw Hd Hh s t. destruct (stack_run_rel w depth h Hw Hd Hh) as (_ & _ & _ & Hq & Hl & Hdout).
  auto.
Qed.

(* the cells below the stack pointer hold 0, the cells above hold the stack, top at the left *)
Lemma stack_top_cell w depth h : 0 <= w -> (1 <= depth)%nat -> Forall ctl_ok h ->
  srb_left_out w (fst (run (stack_m w) (stack_init depth) h)) = hd 0 (fst (run (stack_spec w depth) ([], 0) h)).
Proof.
  intros Hw Hd Hh. destruct (stack_run_rel w depth h Hw Hd Hh) as (Hok & Hlen & _ & Hq & _ & _).
  assert (Hne : fst (run (stack_m w) (stack_init depth) h) <> []) by (intros E; rewrite E in Hlen; cbn in Hlen; lia).
  rewrite srb_left_out_eq by auto. rewrite Hq. apply pad_hd; auto.
Qed.

(* 2-bit stack of depth 3: push 1,2,3, push 1 (the 1 at the bottom is lost), pop (1), pop (3),
   push 2 while popping (pop wins: dout = the old top 2, nothing is pushed), pop on the empty stack (0) *)
Definition stack_example_h : list (Z * Z * Z) :=
  [(1,1,0);(2,1,0);(3,1,0);(1,1,0);(0,0,1);(0,0,1);(2,1,1);(0,0,1)].
Example stack_example :
  let s := run (stack_m 2) (stack_init 3) stack_example_h in
  stack_dout s = 0 /\ map cell_q (fst s) = [0;0;0].
Proof. vm_compute. split; reflexivity. Qed.
(* (dout, cells) after every prefix of that history *)
Example stack_example_trace :
  map (fun n => let s := run (stack_m 2) (stack_init 3) (firstn n stack_example_h) in (stack_dout s, map cell_q (fst s)))
      (seq 0 9) =
  [(0,[0;0;0]); (0,[1;0;0]); (0,[2;1;0]); (0,[3;2;1]); (0,[1;3;2]); (1,[3;2;0]); (3,[2;0;0]); (2,[0;0;0]); (0,[0;0;0])].
Proof. vm_compute. reflexivity. Qed.
