(* C09: characterising lemmas for the REGENERATED leaf definitions.  Everything else in Proofs/C09 uses only
   these equations, so it does not depend on the shape (let-names, nesting) of the generated text. *)
From V Require Import Base.Bits Gen.WireOps Gen.Helpers Gen.Prims Gen.Seq Model.SeqBlocks.

Lemma Wire_put_trunc w v : Wire_put w v = trunc w v.
Proof. reflexivity. Qed.
Lemma Wire_prepare_trunc w v : Wire_prepare w v = trunc w v.
Proof. reflexivity. Qed.

Lemma py_truth_land1 x : py_truth (Z.land x 1) = Z.odd x.
Proof.
  unfold py_truth. change 1 with (Z.ones 1). rewrite Z.land_ones by lia. change (2 ^ 1) with 2.
  rewrite Zmod_odd. destruct (Z.odd x); reflexivity.
Qed.

(* ---- combinational primitives *)
Lemma Mux2_eq w s a b : Mux2_propagate w s a b = trunc w (if Z.odd s then b else a).
Proof. unfold Mux2_propagate. cbv zeta. rewrite py_truth_land1, !Wire_put_trunc. destruct (Z.odd s); reflexivity. Qed.
Lemma Or2_eq w a b : Or2_propagate w a b = trunc w (Z.lor a b).
Proof. reflexivity. Qed.
Lemma And2_eq w a b : And2_propagate w a b = trunc w (Z.land a b).
Proof. reflexivity. Qed.
Lemma Not_eq w a : Not_propagate w a = trunc w (Z.lnot a).
Proof. reflexivity. Qed.
Lemma Buf_eq w a : Buf_propagate w a = trunc w a.
Proof. reflexivity. Qed.
Lemma Constant_eq w v : Constant_propagate w v = trunc w v.
Proof. reflexivity. Qed.
Lemma AddCarryIn_eq w a b c : AddCarryIn_propagate w a b c = trunc w (a + b + c).
Proof. reflexivity. Qed.
Lemma BitsLSBF_eq wa lw a :
  BitsLSBF_propagate wa lw a = map (fun i => trunc (Prims.getZ lw i) (bitZ a i)) (seqZ 0 wa).
Proof. reflexivity. Qed.

(* ---- Reg.clock: priority reset(==1) > enable(!=0) > hold on the UNMASKED attribute; q gets the masked value *)
Definition reg_next (he hr : bool) (rv v d e r : Z) : Z :=
  if hr && (r =? 1) then rv else if he && (e =? 0) then v else d.
(* closes `pair = pair` goals whose right components differ only by redundant masks (v & mask & mask ...), so that a
   harmless extra `& mask` in the Python source does not break the characterisation *)
Lemma land_mask_idem v m : Z.land (Z.land v m) m = Z.land v m.
Proof. rewrite <- Z.land_assoc, Z.land_diag. reflexivity. Qed.
Ltac leaf_done :=
  first [ reflexivity
        | cbv beta iota zeta delta [py_truth negb Z.eqb Pos.eqb Wire_prepare Wire_put trunc mask py_shl];
          rewrite ?land_mask_idem; reflexivity ].

Lemma Reg_clock_eq w he hr rv st d e r :
  Reg_clock w he hr rv st d e r =
  ({| Reg_s_value := reg_next he hr rv (Reg_s_value st) d e r |}, trunc w (reg_next he hr rv (Reg_s_value st) d e r)).
Proof.
  unfold Reg_clock, reg_next. cbv zeta. rewrite ?Wire_prepare_trunc.
  destruct he, hr; cbn [negb andb]; destruct (Z.eqb_spec e 0); destruct (Z.eqb_spec r 1); leaf_done.
Qed.

(* ---- SynchronousMemory.clock *)
Lemma SynchronousMemory_clock_eq wr st ra wa we wd :
  SynchronousMemory_clock wr st ra wa we wd =
  ({| SynchronousMemory_s_data := if we =? 0 then SynchronousMemory_s_data st else setZ (SynchronousMemory_s_data st) wa wd |},
   trunc wr (Seq.getZ (SynchronousMemory_s_data st) ra)).
Proof.
  unfold SynchronousMemory_clock. cbv zeta. rewrite Wire_prepare_trunc. unfold py_truth.
  destruct (we =? 0); reflexivity.
Qed.

(* ---- DualPortSynchronousMemory.clock: both reads from the OLD list, then port a's write, then port b's *)
Lemma DualPortSynchronousMemory_clock_eq wra wrb st raa waa wa wda rab wab wb wdb :
  DualPortSynchronousMemory_clock wra wrb st raa waa wa wda rab wab wb wdb =
  let d := DualPortSynchronousMemory_s_data st in
  let d1 := if wa =? 0 then d else setZ d waa wda in
  ({| DualPortSynchronousMemory_s_data := if wb =? 0 then d1 else setZ d1 wab wdb |},
   {| DualPortSynchronousMemory_o_readdata_a := trunc wra (Seq.getZ d raa);
      DualPortSynchronousMemory_o_readdata_b := trunc wrb (Seq.getZ d rab) |}).
Proof.
  unfold DualPortSynchronousMemory_clock. cbv zeta. unfold py_truth.
  destruct (wa =? 0); destruct (wb =? 0); leaf_done.
Qed.

(* ---- AutoReset.clock *)
Lemma AutoReset_clock_eq w st :
  AutoReset_clock w st =
  let s := AutoReset_s_state st in
  if s =? 0 then ({| AutoReset_s_state := 1 |}, Some (trunc w 1))
  else if s =? 1 then ({| AutoReset_s_state := 2 |}, None)
  else if s =? 2 then ({| AutoReset_s_state := 2 |}, Some (trunc w 0))
  else ({| AutoReset_s_state := 0 |}, None).
Proof.
  unfold AutoReset_clock. cbv zeta. rewrite !Wire_prepare_trunc.
  destruct (Z.eqb_spec (AutoReset_s_state st) 0) as [E0|N0]; [reflexivity|].
  destruct (Z.eqb_spec (AutoReset_s_state st) 1) as [E1|N1]; [reflexivity|].
  destruct (Z.eqb_spec (AutoReset_s_state st) 2) as [E2|N2]; [rewrite E2|]; reflexivity.
Qed.
