(* C09: the KERNEL-LEVEL netlist of Counter (py4hw/logic/arithmetic.py, Counter.__init__) run by Model/SimKernel.clk_cycle
   computes, wire for wire, the block model counter_m of Model/SeqBlocks.v - for every width, every port configuration
   and every poke history from power-up.

   `counter_design` is HAND-WRITTEN to mirror the constructor, in exactly the shape py/netlist.py `Dump.coq_design`
   prints for a live `Counter` inside a bare `HWSystem` (wire ids = position in all_wires: the system clock wire, the
   ports present, then the internal wires in creation order, the carry-in wire of the inner Add last; combinational
   leaves in the order of Simulator.propagatables after topologicalSort; leaf functions = the REGENERATED Gen
   definitions).  Proofs/C09/NetlistDump.v compares it by `reflexivity` with the text Dump printed for live objects
   (pasted verbatim; all four port configurations).  The same for TReg further down. *)
From V Require Import Base.Bits Gen.WireOps Gen.Helpers Gen.Prims Gen.Seq Model.SimKernel Model.Trace Model.SeqBlocks Spec.C09.
From V Require Import Proofs.C09.Leaves Proofs.C09.Run Proofs.C09.Counters.

(* ------------------------------------------------------------------ the design term *)
(* wire ids: 0 = HWSystem clk; then reset (if present), inc (if present), q, one, zero, add, d, d1, e_add, add/ci *)
Definition counter_q (hi hr : bool) : nat := (1 + (if hr then 1 else 0) + (if hi then 1 else 0))%nat.

Definition counter_design (w wr wi : Z) (hi hr : bool) : design AnySt :=
  let q := counter_q hi hr in
  let one := (q + 1)%nat in let zero := (q + 2)%nat in let add := (q + 3)%nat in let d := (q + 4)%nat in
  let d1 := (q + 5)%nat in let e_add := (q + 6)%nat in let ci := (q + 7)%nat in
  let reset := if hr then 1%nat else zero in                        (* reset=None -> reset := zero *)
  let inc := if hi then (if hr then 2%nat else 1%nat) else one in   (* inc=None -> inc := one *)
  {| widths := [1] ++ (if hr then [wr] else []) ++ (if hi then [wi] else []) ++ [w; w; w; w; w; w; 1; 1];
     combs := [
      {| c_in := []; c_out := [one]; c_f := fun ins => match ins with [] => let r := Constant_propagate w 1 in [Some r] | _ => [] end |};
      {| c_in := []; c_out := [zero]; c_f := fun ins => match ins with [] => let r := Constant_propagate w 0 in [Some r] | _ => [] end |};
      {| c_in := []; c_out := [ci]; c_f := fun ins => match ins with [] => let r := Constant_propagate 1 0 in [Some r] | _ => [] end |};
      {| c_in := [q; one; ci]; c_out := [add]; c_f := fun ins => match ins with [x1; x2; x3] => let r := AddCarryIn_propagate w x1 x2 x3 in [Some r] | _ => [] end |};
      {| c_in := [reset; inc]; c_out := [e_add]; c_f := fun ins => match ins with [x1; x2] => let r := Or2_propagate 1 x1 x2 in [Some r] | _ => [] end |};
      {| c_in := [inc; q; add]; c_out := [d1]; c_f := fun ins => match ins with [x1; x2; x3] => let r := Mux2_propagate w x1 x2 x3 in [Some r] | _ => [] end |};
      {| c_in := [reset; d1; zero]; c_out := [d]; c_f := fun ins => match ins with [x1; x2; x3] => let r := Mux2_propagate w x1 x2 x3 in [Some r] | _ => [] end |}];
     seqs := [
      {| s_in := [d; e_add]; s_out := [q]; s_f := fun st ins => match st, ins with St_Reg s, [x1; x2] => let '(s', r) := Reg_clock w true false 0 s x1 x2 0 in (St_Reg s', [Some r]) | _, _ => (st, []) end |}];
     drivers := [{| d_enable := None; d_leaves := [0%nat] |}] |}.
Definition counter_st0 : list AnySt := [St_Reg {| Reg_s_value := 0 |}].

(* ------------------------------------------------------------------ how the harness drives it (Model/Trace.v)
   power-up: every wire 0, Reg.__init__ puts reset_value 0 on q, propagateAll (init_poked);
   one history entry (reset, inc): poke the ports that exist, then Simulator.clk(1) (do_step) *)
Definition counter_pokes (hi hr : bool) (i : Z * Z) : list (nat * Z) :=
  (if hr then [(1%nat, fst i)] else []) ++ (if hi then [((if hr then 2%nat else 1%nat), snd i)] else []).
Definition counter_net_step (w wr wi : Z) (hi hr : bool) (s : state AnySt) (i : Z * Z) : state AnySt :=
  do_step (counter_design w wr wi hi hr) s (counter_pokes hi hr i, 1%nat).
Definition counter_net_init (w wr wi : Z) (hi hr : bool) : state AnySt :=
  init_poked (counter_design w wr wi hi hr) counter_st0 [(counter_q hi hr, 0)].
(* what a poke leaves on a port wire: the value masked to the port's width *)
Definition counter_seen (wr wi : Z) (i : Z * Z) : Z * Z := (Wire_put wr (fst i), Wire_put wi (snd i)).

(* ------------------------------------------------------------------ masks are idempotent (for EVERY width, also w < 0) *)
Lemma trunc_trunc w v : trunc w (trunc w v) = trunc w v.
Proof. unfold trunc. apply land_mask_idem. Qed.
Lemma put_put w v : Wire_put w (Wire_put w v) = Wire_put w v.
Proof. exact (trunc_trunc w v). Qed.
Lemma put_const w v : Wire_put w (Constant_propagate w v) = Constant_propagate w v.
Proof. rewrite Constant_eq. exact (trunc_trunc w v). Qed.
Lemma put_add w a b c : Wire_put w (AddCarryIn_propagate w a b c) = AddCarryIn_propagate w a b c.
Proof. rewrite AddCarryIn_eq. exact (trunc_trunc w _). Qed.
Lemma put_or2 w a b : Wire_put w (Or2_propagate w a b) = Or2_propagate w a b.
Proof. rewrite Or2_eq. exact (trunc_trunc w _). Qed.
Lemma put_mux2 w s a b : Wire_put w (Mux2_propagate w s a b) = Mux2_propagate w s a b.
Proof. rewrite Mux2_eq. exact (trunc_trunc w _). Qed.
Lemma prepare_reg w he hr rv st d e r :
  Wire_prepare w (snd (Reg_clock w he hr rv st d e r)) = snd (Reg_clock w he hr rv st d e r).
Proof. rewrite Reg_clock_eq. cbn [snd]. exact (trunc_trunc w _). Qed.

Definition counter_inv (hi hr : bool) (c : cell) (s : state AnySt) : Prop :=
  length (vals s) = (9 + (if hr then 1 else 0) + (if hi then 1 else 0))%nat /\
  rd (vals s) (counter_q hi hr) = cell_q c /\ sts s = [St_Reg (fst c)] /\ pend s = [].

Ltac list_cases vs H :=
  repeat (destruct vs as [|? vs]; [discriminate H|]); destruct vs; [|discriminate H].

Ltac kernel_eval :=
  cbv -[Wire_put Wire_prepare Constant_propagate AddCarryIn_propagate Or2_propagate Mux2_propagate Not_propagate Buf_propagate
        Reg_clock];
  rewrite ?put_const, ?put_add, ?put_mux2, ?put_or2, ?put_put.

Lemma counter_net_step_sim w wr wi hi hr c s i :
  counter_inv hi hr c s ->
  counter_inv hi hr (counter_m w hi hr c (counter_seen wr wi i)) (counter_net_step w wr wi hi hr s i).
Proof.
  intros (Hlen & Hq & Hst & Hp). destruct s as [vs pd ss tot]. cbn [vals sts pend] in *. subst pd ss.
  destruct i as [reset inc]. destruct c as [st q0]. cbn [cell_q fst snd] in *.
  destruct hi, hr; cbn [counter_q Nat.add] in *; list_cases vs Hlen; cbn [rd nth] in Hq; subst; unfold counter_inv;
    kernel_eval;
    match goal with |- context [Reg_clock ?a ?b ?c ?d ?e ?f ?g ?h] =>
      pose proof (prepare_reg a b c d e f g h) as Hprep; destruct (Reg_clock a b c d e f g h) as [st' r] end;
    cbn [snd] in Hprep; cbv -[Wire_prepare]; rewrite Hprep; repeat split; reflexivity.
Qed.

Lemma counter_net_init_inv w wr wi hi hr : counter_inv hi hr cell_zero (counter_net_init w wr wi hi hr).
Proof. destruct hi, hr; unfold counter_inv; kernel_eval; repeat split; reflexivity. Qed.

Definition counter_net_run (w wr wi : Z) (hi hr : bool) (h : list (Z * Z)) : state AnySt :=
  fold_left (counter_net_step w wr wi hi hr) h (counter_net_init w wr wi hi hr).

Lemma counter_net_run_inv w wr wi hi hr h :
  counter_inv hi hr (run (counter_m w hi hr) cell_zero (map (counter_seen wr wi) h)) (counter_net_run w wr wi hi hr h).
Proof.
  unfold counter_net_run, run.
  generalize (counter_net_init_inv w wr wi hi hr).
  generalize (counter_net_init w wr wi hi hr) as s. generalize cell_zero as c.
  induction h as [|i h IH]; intros c s Hinv; [exact Hinv|].
  cbn [map fold_left]. apply IH. apply counter_net_step_sim. exact Hinv.
Qed.

(* THE LINK: kernel run of the netlist = run of the block model, on the q wire and on the Reg leaf's attribute *)
Lemma counter_netlist_refines w wr wi hi hr h :
  let s := counter_net_run w wr wi hi hr h in
  let c := run (counter_m w hi hr) cell_zero (map (counter_seen wr wi) h) in
  rd (vals s) (counter_q hi hr) = cell_q c /\ sts s = [St_Reg (fst c)] /\ pend s = [].
Proof. intros s c. destruct (counter_net_run_inv w wr wi hi hr h) as (_ & Hq & Hs & Hp). auto. Qed.

(* ... and therefore the reference machine of Spec/C09.v on the RAW poked history (ports at least 1 bit wide: the masking of a
   poke keeps bit 0, which is all the counter looks at) *)
Lemma odd_put w x : 1 <= w -> Z.odd (Wire_put w x) = Z.odd x.
Proof.
  intros Hw. change (Wire_put w x) with (trunc w x). unfold trunc. rewrite mask_ones by lia.
  rewrite <- !Z.bit0_odd, Z.land_spec, Z.ones_spec_low by lia. apply andb_true_r.
Qed.
Lemma counter_spec_seen w wr wi hi hr s i : 1 <= wr -> 1 <= wi ->
  counter_spec w hi hr s (counter_seen wr wi i) = counter_spec w hi hr s i.
Proof. intros Hr Hi. destruct i as [reset inc]. unfold counter_spec, counter_seen, bit0. cbn [fst snd]. rewrite !odd_put by lia. reflexivity. Qed.
Lemma counter_spec_run_seen w wr wi hi hr h : 1 <= wr -> 1 <= wi -> forall s,
  run (counter_spec w hi hr) s (map (counter_seen wr wi) h) = run (counter_spec w hi hr) s h.
Proof.
  intros Hr Hi. induction h as [|i h IH]; intros s; [reflexivity|].
  cbn [map]. rewrite !run_cons, counter_spec_seen by lia. apply IH.
Qed.
Lemma counter_netlist_spec w wr wi hi hr h : 1 <= w -> 1 <= wr -> 1 <= wi ->
  rd (vals (counter_net_run w wr wi hi hr h)) (counter_q hi hr) = run (counter_spec w hi hr) 0 h.
Proof.
  intros Hw Hr Hi. destruct (counter_netlist_refines w wr wi hi hr h) as (Hq & _). rewrite Hq.
  rewrite counter_refines by lia. apply counter_spec_run_seen; lia.
Qed.

(* ================================================================== TReg (storage.py, TReg.__init__)
   wires: 0 = clk, 1 = t, then e (if present), r (if present), q, nq, d *)
Definition treg_q (he hr : bool) : nat := (2 + (if he then 1 else 0) + (if hr then 1 else 0))%nat.
Definition treg_design (wq wt we wr : Z) (he hr : bool) : design AnySt :=
  let q := treg_q he hr in let nq := (q + 1)%nat in let d := (q + 2)%nat in
  let e := 2%nat in let r := if he then 3%nat else 2%nat in
  {| widths := [1; wt] ++ (if he then [we] else []) ++ (if hr then [wr] else []) ++ [wq; 1; 1];
     combs := [
      {| c_in := [q]; c_out := [nq]; c_f := fun ins => match ins with [x1] => let r := Not_propagate 1 x1 in [Some r] | _ => [] end |};
      {| c_in := [1%nat; q; nq]; c_out := [d]; c_f := fun ins => match ins with [x1; x2; x3] => let r := Mux2_propagate 1 x1 x2 x3 in [Some r] | _ => [] end |}];
     seqs := [
      match he, hr with
      | true, true => {| s_in := [d; e; r]; s_out := [q]; s_f := fun st ins => match st, ins with St_Reg s, [x1; x2; x3] => let '(s', r) := Reg_clock wq true true 0 s x1 x2 x3 in (St_Reg s', [Some r]) | _, _ => (st, []) end |}
      | false, true => {| s_in := [d; r]; s_out := [q]; s_f := fun st ins => match st, ins with St_Reg s, [x1; x2] => let '(s', r) := Reg_clock wq false true 0 s x1 0 x2 in (St_Reg s', [Some r]) | _, _ => (st, []) end |}
      | true, false => {| s_in := [d; e]; s_out := [q]; s_f := fun st ins => match st, ins with St_Reg s, [x1; x2] => let '(s', r) := Reg_clock wq true false 0 s x1 x2 0 in (St_Reg s', [Some r]) | _, _ => (st, []) end |}
      | false, false => {| s_in := [d]; s_out := [q]; s_f := fun st ins => match st, ins with St_Reg s, [x1] => let '(s', r) := Reg_clock wq false false 0 s x1 0 0 in (St_Reg s', [Some r]) | _, _ => (st, []) end |}
      end];
     drivers := [{| d_enable := None; d_leaves := [0%nat] |}] |}.

Definition treg_pokes (he hr : bool) (i : Z * Z * Z) : list (nat * Z) :=
  let '(t, e, r) := i in
  [(1%nat, t)] ++ (if he then [(2%nat, e)] else []) ++ (if hr then [((if he then 3%nat else 2%nat), r)] else []).
Definition treg_net_step (wq wt we wr : Z) (he hr : bool) (s : state AnySt) (i : Z * Z * Z) : state AnySt :=
  do_step (treg_design wq wt we wr he hr) s (treg_pokes he hr i, 1%nat).
Definition treg_net_init (wq wt we wr : Z) (he hr : bool) : state AnySt :=
  init_poked (treg_design wq wt we wr he hr) counter_st0 [(treg_q he hr, 0)].
Definition treg_seen (wt we wr : Z) (i : Z * Z * Z) : Z * Z * Z :=
  let '(t, e, r) := i in (Wire_put wt t, Wire_put we e, Wire_put wr r).
Definition treg_net_run (wq wt we wr : Z) (he hr : bool) (h : list (Z * Z * Z)) : state AnySt :=
  fold_left (treg_net_step wq wt we wr he hr) h (treg_net_init wq wt we wr he hr).

Definition treg_inv (he hr : bool) (c : cell) (s : state AnySt) : Prop :=
  length (vals s) = (5 + (if he then 1 else 0) + (if hr then 1 else 0))%nat /\
  rd (vals s) (treg_q he hr) = cell_q c /\ sts s = [St_Reg (fst c)] /\ pend s = [].

Lemma put_not w a : Wire_put w (Not_propagate w a) = Not_propagate w a.
Proof. rewrite Not_eq. exact (trunc_trunc w _). Qed.

Lemma treg_net_step_sim wq wt we wr he hr c s i :
  treg_inv he hr c s ->
  treg_inv he hr (treg_m wq he hr c (treg_seen wt we wr i)) (treg_net_step wq wt we wr he hr s i).
Proof.
  intros (Hlen & Hq & Hst & Hp). destruct s as [vs pd ss tot]. cbn [vals sts pend] in *. subst pd ss.
  destruct i as [[t e] r]. destruct c as [st q0]. cbn [cell_q fst snd] in *.
  destruct he, hr; cbn [treg_q Nat.add] in *; list_cases vs Hlen; cbn [rd nth] in Hq; subst; unfold treg_inv;
    kernel_eval; rewrite ?put_not; rewrite !Reg_clock_eq; unfold reg_next; cbn [andb];
    repeat split; try reflexivity; exact (trunc_trunc _ _).
Qed.

Lemma treg_net_init_inv wq wt we wr he hr : treg_inv he hr cell_zero (treg_net_init wq wt we wr he hr).
Proof. destruct he, hr; unfold treg_inv; kernel_eval; repeat split; reflexivity. Qed.

Lemma treg_net_run_inv wq wt we wr he hr h :
  treg_inv he hr (run (treg_m wq he hr) cell_zero (map (treg_seen wt we wr) h)) (treg_net_run wq wt we wr he hr h).
Proof.
  unfold treg_net_run, run.
  generalize (treg_net_init_inv wq wt we wr he hr).
  generalize (treg_net_init wq wt we wr he hr) as s. generalize cell_zero as c.
  induction h as [|i h IH]; intros c s Hinv; [exact Hinv|].
  cbn [map fold_left]. apply IH. apply treg_net_step_sim. exact Hinv.
Qed.

Lemma treg_netlist_refines wq wt we wr he hr h :
  let s := treg_net_run wq wt we wr he hr h in
  let c := run (treg_m wq he hr) cell_zero (map (treg_seen wt we wr) h) in
  rd (vals s) (treg_q he hr) = cell_q c /\ sts s = [St_Reg (fst c)] /\ pend s = [].
Proof. intros s c. destruct (treg_net_run_inv wq wt we wr he hr h) as (_ & Hq & Hs & Hp). auto. Qed.

(* ================================================================== the general kernel theorems apply to these netlists:
   evaluation list in dependency order with one driver per wire (C05 `topo`; C04 `ordered` / `single_driver`), every clocked leaf
   registered once, one writer per wire.  Hence by C04 every valuation the run passes through is settled, by C05 the edge uses
   pre-edge values, propagateAll is idempotent and clk(m+n) = clk(n) after clk(m) on them. *)
From V Require Import Spec.C04 Spec.C05 Proofs.C05.ListAux Proofs.C04.Settle.

Ltac nth_cases i H := repeat (destruct i as [|i]; [cbn in H; injection H as <- | ]); try (destruct i; discriminate H).
Ltac ordered_tac :=
  let i := fresh "i" in let j := fresh "j" in let a := fresh "a" in let b := fresh "b" in
  let Hi := fresh "Hi" in let Hj := fresh "Hj" in let x := fresh "x" in let Ho := fresh "Ho" in let Hx := fresh "Hx" in
  intros i j a b Hi Hj (x & Ho & Hx);
  nth_cases i Hi; nth_cases j Hj; cbn in Ho, Hx;
  repeat match goal with H : _ \/ _ |- _ => destruct H as [H|H] end; try contradiction; subst; try discriminate; lia.

Lemma counter_design_wellformed w wr wi hi hr :
  let D := counter_design w wr wi hi hr in
  Spec.C05.topo (combs D) /\ ordered (combs D) /\ single_driver (combs D) /\ registered_once D /\ single_writer D /\ outs_nodup D.
Proof.
  cbv zeta. split; [apply topo_b_spec; destruct hi, hr; vm_compute; reflexivity|].
  split; [destruct hi, hr; ordered_tac|].
  split; [unfold single_driver; apply nodup_b_spec; destruct hi, hr; vm_compute; reflexivity|].
  split; [apply registered_once_b_spec; destruct hi, hr; vm_compute; reflexivity|].
  split; [apply single_writer_b_spec; destruct hi, hr; vm_compute; reflexivity|].
  apply outs_nodup_b_spec; destruct hi, hr; vm_compute; reflexivity.
Qed.

Lemma counter_net_settled w wr wi hi hr h :
  settled (counter_design w wr wi hi hr) (vals (counter_net_run w wr wi hi hr h)).
Proof.
  destruct (counter_design_wellformed w wr wi hi hr) as (_ & Hord & Hsd & _).
  unfold counter_net_run. destruct h as [|i h] using rev_ind.
  - cbn [fold_left]. unfold counter_net_init, init_poked. cbn [vals]. apply propagateAll_settled; assumption.
  - rewrite fold_left_app. cbn [fold_left]. unfold counter_net_step at 1, do_step. apply clk_settled; assumption.
Qed.

Lemma treg_design_wellformed wq wt we wr he hr :
  let D := treg_design wq wt we wr he hr in
  Spec.C05.topo (combs D) /\ ordered (combs D) /\ single_driver (combs D) /\ registered_once D /\ single_writer D /\ outs_nodup D.
Proof.
  cbv zeta. split; [apply topo_b_spec; destruct he, hr; vm_compute; reflexivity|].
  split; [destruct he, hr; ordered_tac|].
  split; [unfold single_driver; apply nodup_b_spec; destruct he, hr; vm_compute; reflexivity|].
  split; [apply registered_once_b_spec; destruct he, hr; vm_compute; reflexivity|].
  split; [apply single_writer_b_spec; destruct he, hr; vm_compute; reflexivity|].
  apply outs_nodup_b_spec; destruct he, hr; vm_compute; reflexivity.
Qed.

Lemma treg_net_settled wq wt we wr he hr h :
  settled (treg_design wq wt we wr he hr) (vals (treg_net_run wq wt we wr he hr h)).
Proof.
  destruct (treg_design_wellformed wq wt we wr he hr) as (_ & Hord & Hsd & _).
  unfold treg_net_run. destruct h as [|i h] using rev_ind.
  - cbn [fold_left]. unfold treg_net_init, init_poked. cbn [vals]. apply propagateAll_settled; assumption.
  - rewrite fold_left_app. cbn [fold_left]. unfold treg_net_step at 1, do_step. apply clk_settled; assumption.
Qed.

(* one history entry IS: poke, propagateAll, one Model/SimKernel.clk_cycle (definitional) *)
Lemma counter_net_step_is_clk_cycle w wr wi hi hr s i :
  let D := counter_design w wr wi hi hr in
  let sp := fold_left (fun s p => poke D s (fst p) (snd p)) (counter_pokes hi hr i) s in
  counter_net_step w wr wi hi hr s i =
  clk_cycle D {| vals := propagateAll D (vals sp); pend := pend sp; sts := sts sp; total := total sp |}.
Proof. reflexivity. Qed.
Lemma treg_net_step_is_clk_cycle wq wt we wr he hr s i :
  let D := treg_design wq wt we wr he hr in
  let sp := fold_left (fun s p => poke D s (fst p) (snd p)) (treg_pokes he hr i) s in
  treg_net_step wq wt we wr he hr s i =
  clk_cycle D {| vals := propagateAll D (vals sp); pend := pend sp; sts := sts sp; total := total sp |}.
Proof. reflexivity. Qed.

(* TReg against the reference machine (on the values the ports show: a reset port fires on the MASKED value = 1) *)
From V Require Import Proofs.C09.Reg.
Lemma treg_netlist_spec wq wt we wr he hr h : 1 <= wq ->
  rd (vals (treg_net_run wq wt we wr he hr h)) (treg_q he hr) = run (treg_spec he hr) 0 (map (treg_seen wt we wr) h).
Proof. intros Hw. destruct (treg_netlist_refines wq wt we wr he hr h) as (Hq & _). rewrite Hq. apply treg_refines. exact Hw. Qed.
