(* C09: Counter, StepUpCounter. *)
From V Require Import Base.Bits Gen.WireOps Gen.Prims Gen.Seq Model.SeqBlocks Spec.C09 Proofs.C09.Leaves Proofs.C09.Run Proofs.C09.Reg.

(* `rewrite Constant_eq` may unify its left side with an existing `trunc _ _` (they are convertible); this tactic
   rewrites only syntactic occurrences of the primitives *)
Ltac leaves := repeat match goal with
  | |- context [Constant_propagate ?w ?v] => change (Constant_propagate w v) with (trunc w v)
  | |- context [Or2_propagate ?w ?a ?b] => change (Or2_propagate w a b) with (trunc w (Z.lor a b))
  | |- context [And2_propagate ?w ?a ?b] => change (And2_propagate w a b) with (trunc w (Z.land a b))
  | |- context [Not_propagate ?w ?a] => change (Not_propagate w a) with (trunc w (Z.lnot a))
  | |- context [Buf_propagate ?w ?a] => change (Buf_propagate w a) with (trunc w a)
  | |- context [AddCarryIn_propagate ?w ?a ?b ?c] => change (AddCarryIn_propagate w a b c) with (trunc w (a + b + c))
  | |- context [Mux2_propagate ?w ?s ?a ?b] => rewrite (Mux2_eq w s a b)
  end.

Lemma trunc1_odd x : trunc 1 x = if Z.odd x then 1 else 0.
Proof. rewrite trunc_mod by lia. change (2 ^ 1) with 2. apply Zmod_odd. Qed.
Lemma odd_lor a b : Z.odd (Z.lor a b) = Z.odd a || Z.odd b.
Proof. rewrite <- !Z.bit0_odd. apply Z.lor_spec. Qed.
(* a 1-bit Or2 is non-zero iff bit 0 of either operand is set *)
Lemma or2_1_eqb0 a b : (Or2_propagate 1 a b =? 0) = negb (Z.odd a || Z.odd b).
Proof. leaves. rewrite trunc1_odd, odd_lor. destruct (Z.odd a || Z.odd b); reflexivity. Qed.
Lemma or2_1_odd a b : Z.odd (Or2_propagate 1 a b) = Z.odd a || Z.odd b.
Proof. leaves. rewrite trunc1_odd, odd_lor. destruct (Z.odd a || Z.odd b); reflexivity. Qed.
Lemma or2_1_val a b : Or2_propagate 1 a b = if Z.odd a || Z.odd b then 1 else 0.
Proof. leaves. rewrite trunc1_odd, odd_lor. reflexivity. Qed.

Lemma one_w w : 1 <= w -> trunc w 1 = 1.
Proof. intros. apply trunc_small; [lia|]. split; [lia|]. change 1 with (2 ^ 0) at 1. apply pow2_lt; lia. Qed.
Lemma zero_w w : trunc w 0 = 0.
Proof. reflexivity. Qed.
Lemma add_m_eq w a b : add_m w a b = trunc w (a + b).
Proof. unfold add_m. leaves. change (trunc 1 0) with 0. f_equal; lia. Qed.

(* a register whose d input is already inside the width: attribute and q coincide *)
Definition cnt_rel (w : Z) (c : cell) (s : Z) : Prop := cell_q c = s /\ cell_value c = s /\ 0 <= s < 2 ^ w.

(* ------------------------------------------------------------------ Counter *)
Lemma counter_step_sim w hi hr c s i : 1 <= w -> cnt_rel w c s ->
  cnt_rel w (counter_m w hi hr c i) (counter_spec w hi hr s i).
Proof.
  intros Hw (Hq & Hv & Hs). destruct i as [reset inc].
  unfold counter_m, counter_step, counter_comb, counter_spec, cnt_rel, bit0. cbv zeta.
  rewrite reg_edge_eq. unfold cell_q, cell_value in *. cbn [fst snd Reg_s_value]. rewrite Hq, Hv.
  unfold reg_next. cbn [andb]. rewrite or2_1_eqb0, add_m_eq. leaves. rewrite one_w, ?zero_w by lia.
  pose proof (trunc_range w (s + 1) ltac:(lia)) as Hr. pose proof (pow2_pos w ltac:(lia)) as Hp.
  assert (Hmod : trunc w (s + 1) = (s + 1) mod 2 ^ w) by (apply trunc_mod; lia).
  destruct hr, hi; cbn [negb orb andb]; change (Z.odd 0) with false; change (Z.odd 1) with true; cbn [negb orb andb];
    repeat match goal with |- context [Z.odd ?x] => destruct (Z.odd x); cbn [negb orb andb] end;
    rewrite ?trunc_idem, ?Hmod by lia; rewrite ?(trunc_small w s), ?zero_w by lia; repeat split; try lia;
    rewrite <- ?Hmod; try lia.
Qed.

Lemma counter_refines w hi hr h : 1 <= w ->
  cell_q (run (counter_m w hi hr) cell_zero h) = run (counter_spec w hi hr) 0 h.
Proof.
  intros Hw. apply (run_sim (counter_m w hi hr) (counter_spec w hi hr) (cnt_rel w)).
  - intros; apply counter_step_sim; auto.
  - unfold cnt_rel; cbn. pose proof (pow2_pos w); lia.
Qed.

(* ------------------------------------------------------------------ StepUpCounter *)
Lemma stepup_step_sim w hr c s i : 1 <= w -> cnt_rel w c s ->
  cnt_rel w (stepup_m w hr c i) (stepup_spec w hr s i).
Proof.
  intros Hw (Hq & Hv & Hs). destruct i as [[reset inc] step].
  unfold stepup_m, stepup_step, stepup_comb, stepup_spec, cnt_rel, bit0. cbv zeta.
  rewrite reg_edge_eq. unfold cell_q, cell_value in *. cbn [fst snd Reg_s_value]. rewrite Hq, Hv.
  unfold reg_next. cbn [andb]. rewrite or2_1_eqb0, add_m_eq. leaves. rewrite ?zero_w.
  pose proof (trunc_range w (s + step) ltac:(lia)) as Hr. pose proof (pow2_pos w ltac:(lia)) as Hp.
  assert (Hmod : trunc w (s + step) = (s + step) mod 2 ^ w) by (apply trunc_mod; lia).
  destruct hr; cbn [negb orb andb]; change (Z.odd 0) with false; cbn [negb orb andb];
    repeat match goal with |- context [Z.odd ?x] => destruct (Z.odd x); cbn [negb orb andb] end;
    rewrite ?trunc_idem, ?Hmod by lia; rewrite ?(trunc_small w s), ?zero_w by lia; repeat split; try lia;
    rewrite <- ?Hmod; try lia.
Qed.

Lemma stepup_refines w hr h : 1 <= w ->
  cell_q (run (stepup_m w hr) cell_zero h) = run (stepup_spec w hr) 0 h.
Proof.
  intros Hw. apply (run_sim (stepup_m w hr) (stepup_spec w hr) (cnt_rel w)).
  - intros; apply stepup_step_sim; auto.
  - unfold cnt_rel; cbn. pose proof (pow2_pos w); lia.
Qed.
