(* C09: ModuloCounter and ClockDivider. *)
From V Require Import Base.Bits Gen.WireOps Gen.Prims Gen.Seq Model.SeqBlocks Spec.C09 Proofs.C09.Leaves Proofs.C09.Run
  Proofs.C09.Reg Proofs.C09.Counters Proofs.C09.EqConst.

Lemma odd_ite (b : bool) : Z.odd (if b then 1 else 0) = b.
Proof. destruct b; reflexivity. Qed.

Definition mod_rel (w m : Z) (c : cell) (s : Z) : Prop := cnt_rel w c s /\ 0 <= s < m.

Lemma modcounter_carry_eq w m c s : 1 <= w -> 1 <= m <= 2 ^ w -> mod_rel w m c s ->
  modcounter_carry w 1 m c = modcounter_carry_spec m s.
Proof.
  intros Hw Hm ((Hq & Hv & Hs) & Hsm). unfold modcounter_carry, modcounter_carry_spec. rewrite Hq.
  apply equal_constant_eq; lia.
Qed.

Lemma modcounter_step_sim w m c s i : 1 <= w -> 1 <= m <= 2 ^ w -> mod_rel w m c s ->
  mod_rel w m (modcounter_m w 1 m c i) (modcounter_spec m s i).
Proof.
  intros Hw Hm ((Hq & Hv & Hs) & Hsm). destruct i as [reset inc].
  unfold modcounter_m, modcounter_step, modcounter_comb, modcounter_spec, mod_rel, cnt_rel, bit0. cbv zeta.
  rewrite reg_edge_eq. unfold cell_q, cell_value in *. cbn [fst snd Reg_s_value]. rewrite Hq, Hv.
  unfold reg_next. cbn [andb]. rewrite or2_1_eqb0, add_m_eq, (equal_constant_eq w (m - 1) s) by lia.
  rewrite or2_1_val. leaves. rewrite one_w, ?zero_w by lia. rewrite !odd_ite.
  pose proof (pow2_pos w ltac:(lia)) as Hp.
  destruct (Z.odd reset); cbn [negb orb andb].
  - rewrite zero_w. repeat split; lia.
  - destruct (Z.odd inc); cbn [negb orb andb].
    + destruct (Z.eqb_spec s (m - 1)) as [E|N].
      * rewrite zero_w. replace (s + 1) with m by lia. rewrite Z.mod_same by lia. repeat split; lia.
      * rewrite (Z.mod_small (s + 1) m) by lia. rewrite !(trunc_small w (s + 1)) by lia. repeat split; lia.
    + rewrite (trunc_small w s) by lia. repeat split; lia.
Qed.

Lemma modcounter_inv w m h : 1 <= w -> 1 <= m <= 2 ^ w ->
  mod_rel w m (run (modcounter_m w 1 m) cell_zero h) (run (modcounter_spec m) 0 h).
Proof.
  intros Hw Hm. apply (run_sim (modcounter_m w 1 m) (modcounter_spec m) (mod_rel w m)).
  - intros; apply modcounter_step_sim; auto.
  - unfold mod_rel, cnt_rel; cbn. pose proof (pow2_pos w); lia.
Qed.

(* q follows the mod-m counter, stays below m, and carry is high exactly in state m-1 *)
Lemma modcounter_refines w m h : 1 <= w -> 1 <= m <= 2 ^ w ->
  let c := run (modcounter_m w 1 m) cell_zero h in
  let s := run (modcounter_spec m) 0 h in
  cell_q c = s /\ 0 <= s < m /\ modcounter_carry w 1 m c = modcounter_carry_spec m s.
Proof.
  intros Hw Hm c s. pose proof (modcounter_inv w m h Hw Hm) as H. fold c s in H.
  split; [apply H|]. split; [apply H|]. apply modcounter_carry_eq; auto.
Qed.

(* the guard m <= 2^w is needed: a 2-bit ModuloCounter(mod=6) compares q with 5 mod 4 = 1 and counts 0,1,0,1,... *)
Lemma modcounter_guard_needed :
  cell_q (run (modcounter_m 2 1 6) cell_zero [(0, 1); (0, 1)]) <> run (modcounter_spec 6) 0 [(0, 1); (0, 1)].
Proof. vm_compute. discriminate. Qed.

(* ------------------------------------------------------------------ ClockDivider *)
Lemma div_succ c n : 0 < n -> (c + 1) / n = if c mod n =? n - 1 then c / n + 1 else c / n.
Proof.
  intros Hn. pose proof (Z.div_mod c n ltac:(lia)) as E. pose proof (Z.mod_pos_bound c n Hn) as B.
  destruct (Z.eqb_spec (c mod n) (n - 1)) as [H|H]; symmetry.
  - apply Z.div_unique with 0; lia.
  - apply Z.div_unique with (c mod n + 1); lia.
Qed.

Definition clkdiv_rel (n qw : Z) (s : clkdiv_state) (c : Z) : Prop :=
  mod_rel qw n (fst s) (c mod n) /\ treg_rel (snd s) ((c / n) mod 2) /\ 0 <= c.

Definition count_step (hr : bool) (c reset : Z) : Z := if hr && (reset =? 1) then 0 else c + 1.

Lemma clkdiv_step_sim n qw wclk hr s c reset : 1 <= qw -> 1 <= n <= 2 ^ qw -> 1 <= wclk -> (reset = 0 \/ reset = 1) ->
  clkdiv_rel n qw s c -> clkdiv_rel n qw (clkdiv_step n qw wclk hr s reset) (count_step hr c reset).
Proof.
  intros Hqw Hn Hclk Hr (Hcnt & Htr & Hc). unfold clkdiv_step, clkdiv_rel. cbv zeta. cbn [fst snd].
  leaves. change (trunc 1 1) with 1. change (trunc 1 0) with 0.
  set (reset' := if hr then reset else 0).
  assert (Hr' : reset' = 0 \/ reset' = 1) by (subst reset'; destruct hr; auto).
  pose proof (modcounter_step_sim qw n (fst s) (c mod n) (reset', 1) Hqw Hn Hcnt) as Hc1.
  pose proof (treg_step_sim wclk true true (snd s) ((c / n) mod 2) (modcounter_carry qw 1 n (fst s), 1, reset') Hclk Htr) as Ht1.
  unfold modcounter_m in Hc1. unfold treg_m in Ht1.
  rewrite (modcounter_carry_eq qw n (fst s) (c mod n)) in * by auto.
  unfold modcounter_spec, treg_spec, modcounter_carry_spec, bit0 in *. cbn [andb] in *.
  change (Z.odd 1) with true in *. change (1 =? 0) with false in *. cbv iota in *.
  unfold count_step.
  assert (Hrr : hr && (reset =? 1) = (reset' =? 1)).
  { subst reset'. destruct hr; reflexivity. }
  rewrite Hrr. destruct Hr' as [E | E]; rewrite E in *.
  - change (Z.odd 0) with false in *. change (0 =? 1) with false in *. cbv iota in *.
    replace ((c + 1) mod n) with ((c mod n + 1) mod n) by (rewrite Z.add_mod_idemp_l by lia; reflexivity).
    split; [exact Hc1|]. split; [|lia].
    rewrite div_succ by lia.
    destruct (Z.eqb_spec (c mod n) (n - 1)) as [H|H].
    + change (Z.odd 1) with true in Ht1. cbv iota in Ht1.
      replace ((c / n + 1) mod 2) with (1 - (c / n) mod 2); [exact Ht1|].
      pose proof (Z.mod_pos_bound (c / n) 2 ltac:(lia)). lia.
    + change (Z.odd 0) with false in Ht1. exact Ht1.
  - change (Z.odd 1) with true in *. change (1 =? 1) with true in *. cbv iota in *.
    rewrite Z.mod_0_l by lia. rewrite Z.div_0_l, Z.mod_0_l by lia. split; [exact Hc1|]. split; [exact Ht1|lia].
Qed.

Lemma clkdiv_inv n qw wclk hr h : 1 <= qw -> 1 <= n <= 2 ^ qw -> 1 <= wclk -> Forall (fun r => r = 0 \/ r = 1) h ->
  clkdiv_rel n qw (run (clkdiv_step n qw wclk hr) clkdiv_init h) (run (count_step hr) 0 h).
Proof.
  intros Hqw Hn Hclk Hh.
  apply (run_sim_guard (clkdiv_step n qw wclk hr) (count_step hr) (clkdiv_rel n qw) (fun r => r = 0 \/ r = 1)); auto.
  - intros; apply clkdiv_step_sim; auto.
  - unfold clkdiv_rel, clkdiv_init, mod_rel, cnt_rel, treg_rel. cbn [fst snd].
    rewrite Z.mod_0_l, Z.div_0_l, Z.mod_0_l by lia. unfold cell_q, cell_value, cell_zero. cbn [fst snd Reg_s_value].
    pose proof (pow2_pos qw); lia.
Qed.

(* with a reset port: c = edges since the last reset edge; clkout = (c / n) mod 2 *)
Lemma clock_divider_refines n qw wclk h : 1 <= qw -> 1 <= n <= 2 ^ qw -> 1 <= wclk -> Forall (fun r => r = 0 \/ r = 1) h ->
  clkdiv_out (run (clkdiv_step n qw wclk true) clkdiv_init h) = clkdiv_spec_out n (run clkdiv_count 0 h).
Proof.
  intros Hqw Hn Hclk Hh. pose proof (clkdiv_inv n qw wclk true h Hqw Hn Hclk Hh) as (_ & (Hq & _) & _).
  exact Hq.
Qed.

Lemma count_free_from h : forall c, run (count_step false) c h = c + Z.of_nat (length h).
Proof.
  induction h as [|r h IH]; intros c; [cbn [run fold_left length]; lia|].
  rewrite run_cons, IH. unfold count_step. cbn [andb length]. lia.
Qed.
Lemma count_free h : run (count_step false) 0 h = Z.of_nat (length h).
Proof. rewrite count_free_from. lia. Qed.

(* without a reset port: after k edges clkout = (k / n) mod 2: low n edges, high n edges, ... *)
Lemma clock_divider_free n qw wclk h : 1 <= qw -> 1 <= n <= 2 ^ qw -> 1 <= wclk -> Forall (fun r => r = 0 \/ r = 1) h ->
  clkdiv_out (run (clkdiv_step n qw wclk false) clkdiv_init h) = (Z.of_nat (length h) / n) mod 2.
Proof.
  intros Hqw Hn Hclk Hh. pose proof (clkdiv_inv n qw wclk false h Hqw Hn Hclk Hh) as (_ & (Hq & _) & _).
  rewrite count_free in Hq. exact Hq.
Qed.

(* period exactly 2n: half a period later the output is complemented *)
Lemma clkdiv_half_period n k : 0 < n -> ((k + n) / n) mod 2 = 1 - (k / n) mod 2.
Proof.
  intros Hn. replace (k + n) with (k + 1 * n) by lia. rewrite Z.div_add by lia.
  pose proof (Z.mod_pos_bound (k / n) 2 ltac:(lia)). pose proof (Z.mod_pos_bound (k / n + 1) 2 ltac:(lia)). lia.
Qed.
