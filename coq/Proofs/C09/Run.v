(* C09: generic facts about runs (folds over a history) and simulation relations between two machines. *)
From V Require Import Base.Bits Spec.C09.

Lemma run_nil {S I} (f : S -> I -> S) s : run f s [] = s.
Proof. reflexivity. Qed.
Lemma run_cons {S I} (f : S -> I -> S) s i h : run f s (i :: h) = run f (f s i) h.
Proof. reflexivity. Qed.
Lemma run_snoc {S I} (f : S -> I -> S) s h i : run f s (h ++ [i]) = f (run f s h) i.
Proof. unfold run. rewrite fold_left_app. reflexivity. Qed.

(* a relation preserved by every step holds after every history *)
Lemma run_sim {S T I} (f : S -> I -> S) (g : T -> I -> T) (R : S -> T -> Prop) :
  (forall s t i, R s t -> R (f s i) (g t i)) ->
  forall h s t, R s t -> R (run f s h) (run g t h).
Proof.
  intros Hstep h. induction h as [|i h IH]; intros s t H; [exact H|].
  rewrite !run_cons. apply IH, Hstep, H.
Qed.

(* the same with a side condition on each input tuple *)
Lemma run_sim_guard {S T I} (f : S -> I -> S) (g : T -> I -> T) (R : S -> T -> Prop) (G : I -> Prop) :
  (forall s t i, G i -> R s t -> R (f s i) (g t i)) ->
  forall h s t, Forall G h -> R s t -> R (run f s h) (run g t h).
Proof.
  intros Hstep h. induction h as [|i h IH]; intros s t HG H; [exact H|].
  inversion HG; subst. rewrite !run_cons. apply IH; auto.
Qed.

(* what every step establishes holds after every NON-EMPTY history *)
Lemma run_sim_post {S T I} (f : S -> I -> S) (g : T -> I -> T) (R Q : S -> T -> Prop) (G : I -> Prop) :
  (forall s t i, G i -> R s t -> R (f s i) (g t i) /\ Q (f s i) (g t i)) ->
  forall h s t, Forall G h -> h <> [] -> R s t -> Q (run f s h) (run g t h).
Proof.
  intros Hstep h s t HG Hne H.
  destruct (exists_last Hne) as [h' [i ->]].
  apply Forall_app in HG. destruct HG as [HG' Hi]. inversion Hi; subst.
  rewrite !run_snoc. apply Hstep; auto.
  apply run_sim_guard with (G := G); auto. intros; apply Hstep; auto.
Qed.

Lemma Forall_True {A} (l : list A) : Forall (fun _ => True) l.
Proof. induction l; constructor; auto. Qed.
